import CuqiVerif.Model.C13
import Mathlib.Tactic.Ring
import Mathlib.Tactic.Linarith
import Mathlib.Tactic.FieldSimp
import Mathlib.Tactic.Positivity
import Mathlib.Tactic.NormNum
import Mathlib.Tactic.IntervalCases
import Mathlib.Algebra.Order.Field.Rat
import Mathlib.Data.Rat.Cast.Order

/-!
# C13 — geometry maps are mutually inverse and act column-wise on batches

All statements are about the executable definitions of `CuqiVerif/Model/C13.lean` (the ones
`Driver/C13.lean` runs): `Geom.par2fun/fun2par`, `imageVectorToImage`, `imageRavel`, `liftBatch`,
`stepBound`, `inStep`, `stepFill`, `stepVals`, `project`, `klPre/klPost`, `Samples.*`.
`ℚ` below is core `Rat` (Mathlib's notation), i.e. the type the model computes in.
Helper results are `lemma`s; property statements are `theorem`s.
-/

namespace CuqiVerif.C13

/-! ## StepExpansion -/

lemma inStep_iff (b : ℕ → ℚ) (x : ℚ) (i : ℕ) :
    inStep b x i = true ↔ (if i = 0 then b 0 ≤ x ∧ x ≤ b 1 else b i < x ∧ x ≤ b (i + 1)) := by
  unfold inStep
  split_ifs <;> simp [Bool.and_eq_true, decide_eq_true_eq]

lemma bounds_mono (b : ℕ → ℚ) (s : ℕ) (hmono : ∀ i, i < s → b i ≤ b (i + 1)) :
    ∀ j, j ≤ s → ∀ i, i ≤ j → b i ≤ b j := by
  intro j
  induction j with
  | zero => intro _ i hi; have : i = 0 := by omega
            subst this; exact le_refl _
  | succ j ih =>
    intro hj i hi
    rcases Nat.eq_or_lt_of_le hi with h | h
    · subst h; exact le_refl _
    · exact le_trans (ih (by omega) i (by omega)) (hmono j (by omega))

lemma step_exists (b : ℕ → ℚ) (x : ℚ) (h0 : b 0 ≤ x) :
    ∀ s, 1 ≤ s → x ≤ b s → ∃ i, i < s ∧ inStep b x i = true := by
  intro s
  induction s with
  | zero => intro h; omega
  | succ s ih =>
    intro _ h1
    rcases Nat.eq_zero_or_pos s with hs | hs
    · subst hs
      exact ⟨0, by omega, by rw [inStep_iff]; simpa using ⟨h0, h1⟩⟩
    · by_cases hx : x ≤ b s
      · obtain ⟨i, hi, h⟩ := ih hs hx
        exact ⟨i, by omega, h⟩
      · refine ⟨s, by omega, ?_⟩
        rw [inStep_iff]
        have : s ≠ 0 := by omega
        simp only [this, if_false]
        exact ⟨lt_of_not_ge hx, h1⟩

/-- **Partition, given interval ends** (the form that also covers the float ends used as data):
    monotone ends, `b 0 ≤ x ≤ b s` ⇒ the node value `x` lies in exactly one of the `s` intervals. -/
theorem step_partition_partial (b : ℕ → ℚ) (s : ℕ) (x : ℚ) (hs : 1 ≤ s)
    (hmono : ∀ i, i < s → b i ≤ b (i + 1)) (h0 : b 0 ≤ x) (h1 : x ≤ b s) :
    ∃! i, i < s ∧ inStep b x i = true := by
  obtain ⟨i, hi, h⟩ := step_exists b x h0 s hs h1
  refine ⟨i, ⟨hi, h⟩, ?_⟩
  rintro j ⟨hj, hjin⟩
  by_contra hne
  have key : ∀ i j, i < j → j < s → inStep b x i = true → inStep b x j = true → False := by
    intro i j hij hj hi' hj'
    rw [inStep_iff] at hi' hj'
    have hj0 : j ≠ 0 := by omega
    simp only [hj0, if_false] at hj'
    have hle : x ≤ b (i + 1) := by
      split_ifs at hi' with h0
      · subst h0; exact hi'.2
      · exact hi'.2
    have := bounds_mono b s hmono j (by omega) (i + 1) (by omega)
    linarith [hj'.1]
  rcases Nat.lt_or_gt_of_ne hne with hlt | hlt
  · exact key j i hlt hi hjin h
  · exact key i j hlt hj h hjin


/-! ### exact interval ends -/

lemma stepBound_zero (g : ℕ → ℚ) (n s : ℕ) : stepBound g n s 0 = g 0 := by
  simp [stepBound]

lemma stepBound_last (g : ℕ → ℚ) (n s : ℕ) (hs : 1 ≤ s) : stepBound g n s s = g (n - 1) := by
  have : (s : ℚ) ≠ 0 := by exact_mod_cast (by omega : s ≠ 0)
  unfold stepBound
  field_simp
  ring

lemma stepBound_mono (g : ℕ → ℚ) (n s : ℕ) (hL : g 0 ≤ g (n - 1)) (i : ℕ) :
    stepBound g n s i ≤ stepBound g n s (i + 1) := by
  unfold stepBound
  have hs : (0 : ℚ) ≤ (s : ℚ) := by positivity
  have hL' : 0 ≤ g (n - 1) - g 0 := by linarith
  have : (i : ℚ) * (g (n - 1) - g 0) / s ≤ ((i + 1 : ℕ) : ℚ) * (g (n - 1) - g 0) / s := by
    apply div_le_div_of_nonneg_right _ hs
    push_cast
    nlinarith
  linarith

/-- **Partition (exact arithmetic), every grid**: with the interval ends `x0 + i·L/n_steps` computed
    exactly, every node whose coordinate lies between the first and the last node belongs to exactly
    one step — for every grid (regular or not), every size and every number of steps. -/
theorem step_partition (g : ℕ → ℚ) (n s k : ℕ) (hs : 1 ≤ s)
    (hlo : g 0 ≤ g k) (hhi : g k ≤ g (n - 1)) :
    ∃! i, i < s ∧ inStep (stepBound g n s) (g k) i = true := by
  apply step_partition_partial _ s _ hs
  · intro i _; exact stepBound_mono g n s (le_trans hlo hhi) i
  · rw [stepBound_zero]; exact hlo
  · rw [stepBound_last g n s hs]; exact hhi

/-! ### regular grids: the rule in integers -/

lemma regular_bound (x0 h : ℚ) (m s j : ℕ) (hs : 1 ≤ s) :
    stepBound (fun k => x0 + (k : ℚ) * h) (m + 1) s j = x0 + ((j * m : ℕ) : ℚ) * h / s := by
  have : (s : ℚ) ≠ 0 := by exact_mod_cast (by omega : s ≠ 0)
  unfold stepBound
  simp only [Nat.add_sub_cancel]
  push_cast
  field_simp
  ring

lemma node_le_bound (x0 h : ℚ) (hh : 0 < h) (s k c : ℕ) (hs : 1 ≤ s) :
    x0 + (k : ℚ) * h ≤ x0 + ((c : ℕ) : ℚ) * h / s ↔ k * s ≤ c := by
  have hs' : (0 : ℚ) < (s : ℚ) := by exact_mod_cast (by omega : 0 < s)
  rw [add_le_add_iff_left, le_div_iff₀ hs']
  constructor
  · intro hle
    have h3 : ((k * s : ℕ) : ℚ) * h ≤ (c : ℚ) * h := by push_cast; nlinarith
    have h4 := le_of_mul_le_mul_right h3 hh
    exact_mod_cast h4
  · intro hle
    have h3 : ((k * s : ℕ) : ℚ) ≤ (c : ℚ) := by exact_mod_cast hle
    push_cast at h3
    nlinarith

lemma bound_lt_node (x0 h : ℚ) (hh : 0 < h) (s k c : ℕ) (hs : 1 ≤ s) :
    x0 + ((c : ℕ) : ℚ) * h / s < x0 + (k : ℚ) * h ↔ c < k * s := by
  rw [← not_le, node_le_bound x0 h hh s k c hs, not_le]

/-- **Regular grid ⇒ documented integer rule**: on `x_k = x0 + k·h` (`h > 0`, `n = m+1` nodes) the
    exact interval membership is `i·(n−1) < k·n_steps ≤ (i+1)·(n−1)` (first interval closed). -/
theorem step_regular_rule (x0 h : ℚ) (hh : 0 < h) (m s k i : ℕ) (hs : 1 ≤ s) :
    inStep (stepBound (fun k => x0 + (k : ℚ) * h) (m + 1) s) (x0 + (k : ℚ) * h) i
      = inStepIdeal (m + 1) s k i := by
  rw [Bool.eq_iff_iff, inStep_iff]
  unfold inStepIdeal
  simp only [Nat.add_sub_cancel]
  by_cases hi : i = 0
  · subst hi
    simp only [if_true, decide_eq_true_eq]
    rw [regular_bound x0 h m s 0 hs, regular_bound x0 h m s 1 hs, node_le_bound x0 h hh s k _ hs]
    simp only [Nat.zero_mul, Nat.one_mul]
    constructor
    · exact fun h => h.2
    · intro h'
      refine ⟨?_, h'⟩
      have : (0 : ℚ) ≤ (k : ℚ) * h := by positivity
      simp; linarith
  · simp only [hi, if_false, Bool.and_eq_true, decide_eq_true_eq]
    rw [regular_bound x0 h m s i hs, regular_bound x0 h m s (i + 1) hs,
      node_le_bound x0 h hh s k _ hs, bound_lt_node x0 h hh s k _ hs]

/-- **No empty step** (ideal rule): for `1 ≤ n_steps ≤ #nodes` every step contains a node. -/
theorem step_nonempty (m s i : ℕ) (hs : 1 ≤ s) (hsn : s ≤ m + 1) (hi : i < s) :
    ∃ k, k < m + 1 ∧ inStepIdeal (m + 1) s k i = true := by
  unfold inStepIdeal
  simp only [Nat.add_sub_cancel]
  rcases Nat.eq_zero_or_pos i with h0 | hpos
  · subst h0; exact ⟨0, by omega, by simp⟩
  · have hi0 : i ≠ 0 := by omega
    simp only [hi0, if_false, Bool.and_eq_true, decide_eq_true_eq]
    rcases Nat.eq_or_lt_of_le hsn with heq | hlt
    · -- n_steps = #nodes: node i is in step i
      subst heq
      refine ⟨i, hi, ?_, ?_⟩
      · nlinarith
      · nlinarith
    · -- n_steps ≤ #nodes - 1: the node just right of the left end
      have hsm : s ≤ m := by omega
      have h1 : i * m / s * s ≤ i * m := Nat.div_mul_le_self _ _
      have h2 : i * m < (i * m / s + 1) * s := by
        have := Nat.div_add_mod (i * m) s
        have hmod := Nat.mod_lt (i * m) (by omega : s > 0)
        nlinarith
      refine ⟨i * m / s + 1, ?_, h2, ?_⟩
      · have h3 : (i * m / s + 1) * s ≤ (i + 1) * m := by nlinarith
        have h4 : (i + 1) * m ≤ s * m := Nat.mul_le_mul_right _ (by omega)
        have h5 : (i * m / s + 1) * s ≤ m * s := by nlinarith
        have := Nat.le_of_mul_le_mul_right h5 (by omega : 0 < s)
        omega
      · nlinarith


/-! ### round trip -/

lemma stepFill_succ (b : ℕ → ℚ) (s : ℕ) (p : ℕ → ℚ) (x : ℚ) :
    stepFill b (s + 1) p x = if inStep b x s then p s else stepFill b s p x := by
  unfold stepFill
  rw [List.range_succ, List.foldl_append]
  rfl

/-- a node value lying in step `i` only receives `p i` (later assignments in the code's loop do not
    overwrite it because no other step contains it) -/
lemma stepFill_eq (b : ℕ → ℚ) (p : ℕ → ℚ) (x : ℚ) (i : ℕ) (h : inStep b x i = true) :
    ∀ s, i < s → (∀ j, j < s → inStep b x j = true → j = i) → stepFill b s p x = p i := by
  intro s
  induction s with
  | zero => intro hi; omega
  | succ s ih =>
    intro hi huniq
    rw [stepFill_succ]
    by_cases hs : s = i
    · subst hs; simp [h]
    · have hf : inStep b x s = false := by
        by_contra hc
        have ht : inStep b x s = true := by simpa using hc
        exact hs (huniq s (by omega) ht)
      simp only [hf]
      exact ih (by omega) (fun j hj hjin => huniq j (by omega) hjin)

lemma foldl_add_const (c : ℚ) : ∀ (xs : List ℚ) (acc : ℚ), (∀ x ∈ xs, x = c) →
    xs.foldl (· + ·) acc = acc + (xs.length : ℚ) * c := by
  intro xs
  induction xs with
  | nil => intro acc _; simp
  | cons y ys ih =>
    intro acc hall
    rw [List.foldl_cons, ih _ (fun x hx => hall x (List.mem_cons_of_mem _ hx))]
    rw [hall y List.mem_cons_self]
    push_cast [List.length_cons]
    ring

lemma foldl_ratMax_const (c : ℚ) : ∀ (xs : List ℚ), (∀ x ∈ xs, x = c) → xs.foldl ratMax c = c := by
  intro xs
  induction xs with
  | nil => intro _; rfl
  | cons y ys ih =>
    intro hall
    rw [List.foldl_cons, hall y List.mem_cons_self]
    have : ratMax c c = c := by unfold ratMax; simp
    rw [this]
    exact ih (fun x hx => hall x (List.mem_cons_of_mem _ hx))

lemma foldl_ratMin_const (c : ℚ) : ∀ (xs : List ℚ), (∀ x ∈ xs, x = c) → xs.foldl ratMin c = c := by
  intro xs
  induction xs with
  | nil => intro _; rfl
  | cons y ys ih =>
    intro hall
    rw [List.foldl_cons, hall y List.mem_cons_self]
    have : ratMin c c = c := by unfold ratMin; simp
    rw [this]
    exact ih (fun x hx => hall x (List.mem_cons_of_mem _ hx))

/-- mean / max / min of a non-empty constant list is the constant -/
lemma project_const (pr : Proj) (c : ℚ) (l : List ℚ) (hne : l ≠ []) (hall : ∀ x ∈ l, x = c) :
    project pr l = some c := by
  cases l with
  | nil => exact absurd rfl hne
  | cons y ys =>
    have hy : y = c := hall y List.mem_cons_self
    have hys : ∀ x ∈ ys, x = c := fun x hx => hall x (List.mem_cons_of_mem _ hx)
    subst hy
    cases pr with
    | mean =>
      simp only [project, listSum]
      rw [foldl_add_const y (y :: ys) 0 hall]
      have hlen : ((y :: ys).length : ℚ) ≠ 0 := by
        have : (y :: ys).length ≠ 0 := by simp
        exact_mod_cast this
      congr 1
      field_simp
      ring
    | max => simp only [project]; rw [foldl_ratMax_const y ys hys]
    | min => simp only [project]; rw [foldl_ratMin_const y ys hys]

/-- **Round trip `fun2par ∘ par2fun = id` (all three projections), given a partition**: if no node of
    the grid lies in two steps and step `i` contains a node, the projection of the step function
    built from `p` returns `p i`.  (`b` arbitrary interval ends — exact or the float ones.) -/
theorem step_fun2par_par2fun (b g : ℕ → ℚ) (n s : ℕ) (p : ℕ → ℚ) (pr : Proj) (i : ℕ) (hi : i < s)
    (huniq : ∀ k, k < n → ∀ j, j < s → inStep b (g k) i = true → inStep b (g k) j = true → j = i)
    (hne : ∃ k, k < n ∧ inStep b (g k) i = true) :
    project pr (stepVals b g n (fun k => stepFill b s p (g k)) i) = some (p i) := by
  apply project_const
  · obtain ⟨k, hk, hin⟩ := hne
    unfold stepVals
    intro hnil
    have hmem : k ∈ (List.range n).filter fun k => inStep b (g k) i := by
      simp [List.mem_filter, hk, hin]
    have := List.map_eq_nil_iff.mp hnil
    rw [this] at hmem
    exact absurd hmem (List.not_mem_nil)
  · intro x hx
    unfold stepVals at hx
    obtain ⟨k, hk, rfl⟩ := List.mem_map.mp hx
    have hk' := List.mem_filter.mp hk
    have hkn : k < n := List.mem_range.mp hk'.1
    have hin : inStep b (g k) i = true := by simpa using hk'.2
    exact stepFill_eq b p (g k) i hin s hi (fun j hj hjin => huniq k hkn j hj hin hjin)

/-- **Round trip on every regular grid, exact arithmetic**: for `x_k = x0 + k·h`, `h > 0`, any
    number of nodes `n = m+1` and any `1 ≤ n_steps ≤ n`, with the interval ends the code writes
    (evaluated exactly), `fun2par(par2fun p) = p` for mean, max and min. -/
theorem step_roundtrip_regular (x0 h : ℚ) (hh : 0 < h) (m s : ℕ) (hs : 1 ≤ s) (hsn : s ≤ m + 1)
    (p : ℕ → ℚ) (pr : Proj) (i : ℕ) (hi : i < s) :
    let g : ℕ → ℚ := fun k => x0 + (k : ℚ) * h
    let b := stepBound g (m + 1) s
    project pr (stepVals b g (m + 1) (fun k => stepFill b s p (g k)) i) = some (p i) := by
  intro g b
  have hg0 : ∀ k, g 0 ≤ g k := by
    intro k
    have : (0 : ℚ) ≤ (k : ℚ) * h := by positivity
    simp only [g]; push_cast; linarith
  have hgl : ∀ k, k < m + 1 → g k ≤ g (m + 1 - 1) := by
    intro k hk
    simp only [g, Nat.add_sub_cancel]
    have : (k : ℚ) ≤ (m : ℚ) := by exact_mod_cast (by omega : k ≤ m)
    nlinarith
  apply step_fun2par_par2fun b g (m + 1) s p pr i hi
  · intro k hk j hj hin hjin
    obtain ⟨i0, _, hu⟩ := step_partition g (m + 1) s k hs (hg0 k) (hgl k hk)
    rw [hu j ⟨hj, hjin⟩, hu i ⟨hi, hin⟩]
  · obtain ⟨k, hk, hin⟩ := step_nonempty m s i hs hsn hi
    refine ⟨k, hk, ?_⟩
    have := step_regular_rule x0 h hh m s k i hs
    simp only [b, g]
    rw [this]; exact hin



/-! ## reshape-type maps -/

lemma vecToImgF_lt (a b m : ℕ) (hm : m < a * b) : vecToImgF a b m < a * b := by
  have ha : 0 < a := Nat.pos_of_ne_zero (by rintro rfl; simp at hm)
  have hb : m / a < b := by
    rw [Nat.div_lt_iff_lt_mul ha]; rwa [Nat.mul_comm] at hm
  have hr : m % a < a := Nat.mod_lt _ ha
  unfold vecToImgF
  nlinarith

/-- F-order index maps are mutually inverse on the vector positions -/
theorem imgF_index_roundtrip (a b m : ℕ) (hm : m < a * b) :
    imgFtoVec a b (vecToImgF a b m) = m := by
  have ha : 0 < a := Nat.pos_of_ne_zero (by rintro rfl; simp at hm)
  have hb0 : 0 < b := Nat.pos_of_ne_zero (by rintro rfl; simp at hm)
  have hb : m / a < b := by
    rw [Nat.div_lt_iff_lt_mul ha]; rwa [Nat.mul_comm] at hm
  unfold imgFtoVec vecToImgF
  have h1 : (m % a * b + m / a) / b = m % a := by
    rw [Nat.mul_comm, Nat.mul_add_div hb0, Nat.div_eq_of_lt hb]; simp
  have h2 : (m % a * b + m / a) % b = m / a := by
    rw [Nat.mul_comm, Nat.mul_add_mod, Nat.mod_eq_of_lt hb]
  rw [h1, h2]
  exact Nat.mod_add_div m a

/-- … and on the image positions -/
theorem imgF_index_roundtrip_inv (a b r : ℕ) (hr : r < a * b) :
    vecToImgF a b (imgFtoVec a b r) = r := by
  have ha : 0 < a := Nat.pos_of_ne_zero (by rintro rfl; simp at hr)
  have hb0 : 0 < b := Nat.pos_of_ne_zero (by rintro rfl; simp at hr)
  have hq : r / b < a := by rw [Nat.div_lt_iff_lt_mul hb0]; exact hr
  unfold imgFtoVec vecToImgF
  have h1 : (r / b + a * (r % b)) % a = r / b := by
    rw [Nat.add_mul_mod_self_left, Nat.mod_eq_of_lt hq]
  have h2 : (r / b + a * (r % b)) / a = r % b := by
    rw [Nat.add_mul_div_left _ _ ha, Nat.div_eq_of_lt hq]; simp
  rw [h1, h2]
  exact Nat.div_add_mod' r b

lemma prod_pair (a b : ℕ) : prod [a * b] = a * b := by simp [prod]

/-- **Image2D round trip, both orders, every image size**: for a parameter vector of shape
    `(a·b,)`, `par2fun` yields an array of shape `(a, b)` and `fun2par` of it has shape `(a·b,)` and
    the same entries. -/
theorem image_roundtrip (a b : ℕ) (orderF : Bool) (x : Arr) (hx : x.shape = [a * b]) (hab : a * b ≠ 0) :
    ∃ y z, (Geom.image a b orderF false).par2fun x = some y ∧ y.shape = [a, b] ∧
      (Geom.image a b orderF false).fun2par y = .ok z ∧ z.shape = [a * b] ∧
      ∀ m, m < a * b → z.get m = x.get m := by
  have hsize : x.size = a * b := by simp [Arr.size, hx, prod]
  have hns : a * b / (a * b) = 1 := Nat.div_self (Nat.pos_of_ne_zero hab)
  cases orderF with
  | false =>
    refine ⟨⟨[a, b], x.get⟩, ⟨[a * b], x.get⟩, ?_, rfl, ?_, rfl, fun _ _ => rfl⟩
    · simp [Geom.par2fun, imageVectorToImage, hsize, hab, hns]
    · simp [Geom.fun2par, imageRavel, Arr.size, prod]
  | true =>
    refine ⟨⟨[a, b], fun t => x.get (liftBatch (imgFtoVec a b) 1 t)⟩,
      ⟨[a * b], fun m => x.get (liftBatch (imgFtoVec a b) 1 (vecToImgF a b m))⟩, ?_, rfl, ?_, rfl, ?_⟩
    · simp [Geom.par2fun, imageVectorToImage, hsize, hab, hns, hx, Arr.gather]
    · simp [Geom.fun2par, imageRavel, Arr.size, prod, Arr.gather]
    · intro m hm
      simp only [liftBatch, Nat.div_one, Nat.mod_one, Nat.mul_one, Nat.add_zero]
      rw [imgF_index_roundtrip a b m hm]

/-- visual-only images: both maps are the identity -/
theorem visual_only_identity (a b : ℕ) (o : Bool) (x : Arr) :
    (Geom.image a b o true).par2fun x = some x ∧ (Geom.image a b o true).fun2par x = .ok x := by
  simp [Geom.par2fun, Geom.fun2par]

/-- **Batches are column-wise (generic)**: for every single-vector index map `σ`, column `k` of the
    batch map `liftBatch σ ns` applied to `x` is `σ` applied to column `k` of `x`. -/
theorem batch_is_columnwise (σ : ℕ → ℕ) (x : Arr) (sh sh' : List ℕ) (ns k r : ℕ) (hk : k < ns) :
    ((x.gather sh (liftBatch σ ns)).col ns k).get r = ((x.col ns k).gather sh' σ).get r := by
  simp only [Arr.col, Arr.gather, liftBatch]
  have hns : 0 < ns := by omega
  have hd : (r * ns + k) / ns = r := by
    rw [Nat.mul_comm, Nat.mul_add_div hns, Nat.div_eq_of_lt hk, Nat.add_zero]
  have hm : (r * ns + k) % ns = k := by
    rw [Nat.mul_add_mod_self_right, Nat.mod_eq_of_lt hk]
  rw [hd, hm]


/-- **Image2D.par2fun on a batch is column-wise, both orders, all sizes**: for `x` of shape
    `(a·b, ns)`, `ns ≥ 2`, the result has shape `(a, b, ns)` and its `k`-th slice is `par2fun` of the
    `k`-th column. -/
theorem image_par2fun_batch_columnwise (a b ns : ℕ) (orderF : Bool) (x : Arr)
    (hx : x.shape = [a * b, ns]) (hab : a * b ≠ 0) (hns : 2 ≤ ns) :
    ∃ y, (Geom.image a b orderF false).par2fun x = some y ∧ y.shape = [a, b, ns] ∧
      ∀ k, k < ns → ∃ yk, (Geom.image a b orderF false).par2fun (x.col ns k) = some yk ∧
        yk.shape = [a, b] ∧ ∀ r, (y.col ns k).get r = yk.get r := by
  have hpos : 0 < a * b := Nat.pos_of_ne_zero hab
  have hsize : x.size = a * b * ns := by simp [Arr.size, hx, prod]
  have hdiv : a * b * ns / (a * b) = ns := Nat.mul_div_cancel_left ns hpos
  have hmod : a * b * ns % (a * b) = 0 := Nat.mul_mod_right _ _
  have hns1 : ns ≠ 1 := by omega
  have hcol : ∀ k, (x.col ns k).shape = [a * b] := by intro k; simp [Arr.col, hx]
  have hcs : ∀ k, (x.col ns k).size = a * b := by intro k; simp [Arr.size, hcol, prod]
  have h1 : a * b / (a * b) = 1 := Nat.div_self hpos
  cases orderF with
  | false =>
    refine ⟨⟨[a, b, ns], x.get⟩, ?_, rfl, ?_⟩
    · simp [Geom.par2fun, imageVectorToImage, hsize, hab, hdiv, hns1]
    · intro k _
      refine ⟨⟨[a, b], (x.col ns k).get⟩, ?_, rfl, fun r => rfl⟩
      simp [Geom.par2fun, imageVectorToImage, hcs, hab, h1]
  | true =>
    refine ⟨x.gather [a, b, ns] (liftBatch (imgFtoVec a b) ns), ?_, rfl, ?_⟩
    · simp [Geom.par2fun, imageVectorToImage, hsize, hab, hdiv, hns1, hx]
    · intro k hk
      refine ⟨⟨[a, b], ((x.col ns k).gather [a, b, 1] (liftBatch (imgFtoVec a b) 1)).get⟩, ?_, rfl, ?_⟩
      · simp [Geom.par2fun, imageVectorToImage, hcs, hab, h1, hcol]
      · intro r
        rw [batch_is_columnwise (imgFtoVec a b) x [a, b, ns] [a, b, 1] ns k r hk]
        simp [Arr.gather, liftBatch, Nat.mod_one]

/-- **Negative result (faithful to the code): `Image2D.fun2par` of a batch is *not* column-wise** —
    `ravel` returns one flat vector of length `a·b·ns`, never the `(a·b, ns)` matrix. -/
theorem image_fun2par_batch_not_columnwise (a b ns : ℕ) (orderF : Bool) (y : Arr)
    (hy : y.shape = [a, b, ns]) :
    ∃ z, (Geom.image a b orderF false).fun2par y = .ok z ∧ z.shape = [a * (b * (ns * 1))] ∧
      z.shape ≠ [a * b, ns] := by
  refine ⟨imageRavel orderF y, by simp [Geom.fun2par], ?_, ?_⟩ <;>
    cases orderF <;> simp [imageRavel, hy, Arr.gather, Arr.size, prod]

/-- **Continuous2D round trip (partial: no grid axis of length one)**: shapes `(a·b,) → (a, b) →
    (a·b,)` and the entries return. -/
theorem cont2D_roundtrip_partial (a b : ℕ) (x : Arr) (hx : x.shape = [a * b]) (hab : a * b ≠ 0)
    (ha : a ≠ 1) (hb : b ≠ 1) :
    ∃ y z, (Geom.cont2D a b).par2fun x = some y ∧ y.shape = [a, b] ∧
      (Geom.cont2D a b).fun2par y = .ok z ∧ z.shape = [a * b] ∧ ∀ m, z.get m = x.get m := by
  have hsize : x.size = a * b := by simp [Arr.size, hx, prod]
  have h1 : a * b / (a * b) = 1 := Nat.div_self (Nat.pos_of_ne_zero hab)
  have hab1 : a * b ≠ 1 := by
    intro h
    have := Nat.eq_one_of_mul_eq_one_right h
    exact ha this
  refine ⟨⟨[a, b], x.get⟩, ⟨[a * b], x.get⟩, ?_, rfl, ?_, rfl, fun _ => rfl⟩
  · simp [Geom.par2fun, cont2DPar2fun, hsize, hab, h1, Arr.squeeze, squeezeShape, List.filter, ha, hb]
  · simp [Geom.fun2par, cont2DFun2par, Arr.size, prod, hab, h1, Arr.squeeze, squeezeShape,
      List.filter, hab1]

/-- **Negative result: a grid axis of length one** — `Continuous2D((1,5))` reports `fun_shape = (1,5)`
    but `par2fun` of a parameter vector has shape `(5,)` (the bare `squeeze()`). -/
theorem cont2D_par2fun_shape_unit_counterexample :
    ((Geom.cont2D 1 5).par2fun (ones 5)).map (·.shape) = some [5] ∧
      (Geom.cont2D 1 5).funShape = some [1, 5] := by
  constructor
  · simp [Geom.par2fun, cont2DPar2fun, ones, Arr.size, prod, Arr.squeeze, squeezeShape, List.filter]
  · rfl

/-- the bare `squeeze()` of a `(1, 1)` result is 0-d; a one-column batch of `n ≠ 1` rows keeps `(n,)` -/
theorem squeeze_drops_unit_axis : squeezeShape [1, 1] = [] ∧ ∀ n, n ≠ 1 → squeezeShape [n, 1] = [n] := by
  constructor
  · rfl
  · intro n hn; simp [squeezeShape, List.filter, hn]

/-! ## MappedGeometry -/

/-- **Mapped geometry round trip**: with `map = scale·f + shift` (`scale ≠ 0`) and its inverse,
    `fun2par ∘ par2fun` of the mapped geometry is `fun2par ∘ par2fun` of the wrapped geometry. -/
theorem mapped_roundtrip (g : Geom) (sc sh : ℚ) (hsc : sc ≠ 0) (x y : Arr)
    (hy : g.par2fun x = some y) :
    ∃ y', (Geom.mapped g sc sh true).par2fun x = some y' ∧ y'.shape = y.shape ∧
      (Geom.mapped g sc sh true).fun2par y' = g.fun2par y := by
  refine ⟨⟨y.shape, fun t => sc * y.get t + sh⟩, by simp [Geom.par2fun, hy], rfl, ?_⟩
  simp only [Geom.fun2par, Bool.not_true, Bool.false_eq_true, if_false]
  have : (fun t => (sc * y.get t + sh - sh) / sc) = y.get := by
    funext t; field_simp; ring
  rw [this]

/-- the same for an arbitrary pair of maps on function values with `imap ∘ map = id` -/
theorem mapped_roundtrip_generic {P F : Type} (par2fun : P → F) (fun2par : F → P) (map imap : F → F)
    (hinv : ∀ f, imap (map f) = f) (hrt : ∀ p, fun2par (par2fun p) = p) (p : P) :
    (fun f => fun2par (imap f)) ((fun p => map (par2fun p)) p) = p := by
  simp [hinv, hrt]

/-! ## KLExpansion -/

section KL
variable {K : Type*} [Field K]

/-- scaled, zero-padded modes (`klPre`, one column) over a field -/
def klPreK (c : ℕ → K) (τ : K) (m : ℕ) (p : ℕ → K) (i : ℕ) : K := if i < m then c i * p i / τ else 0
/-- `klPost`, one column, over a field -/
def klPostK (c : ℕ → K) (τ : K) (n : ℕ) (d : ℕ → K) (i : ℕ) : K := (c i)⁻¹ * d i * τ / (2 * (n : K))

/-- the executable model (`ℚ`, single column) is the `ℚ` instance of the generic definitions -/
theorem klPre_is_instance (c : ℕ → ℚ) (τ : ℚ) (n m : ℕ) (x : Arr) (hx : x.shape = [m]) (hm : m ≠ 0) :
    (klPre c τ n m x).isSome = true ∧
      ∀ y, klPre c τ n m x = some y → y.shape = [n, 1] ∧ ∀ i, y.get i = klPreK c τ m x.get i := by
  constructor
  · simp [klPre, batchOf, hx, hm]
  · intro y h
    simp [klPre, batchOf, hx, hm] at h
    subst h
    exact ⟨rfl, fun i => by simp [klPreK, Nat.mod_one]⟩

theorem klPost_is_instance (c : ℕ → ℚ) (τ : ℚ) (n m : ℕ) (d : Arr) (hd : d.shape = [n, 1]) (hm : m ≠ 0) :
    (klPost c τ n m d).isSome = true ∧
      ∀ y, klPost c τ n m d = some y → ∀ i, y.get i = klPostK c τ n d.get i := by
  constructor
  · simp [klPost, hd, hm]
  · intro y h
    simp [klPost, hd, hm] at h
    subst h
    intro i; simp [klPostK, Arr.squeeze, Nat.mod_one]

/-- **KL round trip for every number of modes `m ≤ N`**, given the documented inversion relation of
    the transforms (`dst (idst v) = 2N·v`, scipy.fftpack's convention): with
    `par2fun p = idst(pre p)/2` and `fun2par f = post(dst(2·f))`, `fun2par (par2fun p) i = p i` for all
    `i < m`. -/
theorem kl_fun2par_par2fun [CharZero K] (dst idst : (ℕ → K) → (ℕ → K)) (n m : ℕ) (hn : n ≠ 0)
    (hinv : ∀ v i, i < n → dst (idst v) i = 2 * (n : K) * v i)
    (c : ℕ → K) (τ : K) (hτ : τ ≠ 0) (p : ℕ → K) (i : ℕ) (hi : i < m) (hmn : m ≤ n) (hc : c i ≠ 0) :
    klPostK c τ n (dst (fun j => 2 * (idst (klPreK c τ m p) j / 2))) i = p i := by
  have h2 : (fun j => 2 * (idst (klPreK c τ m p) j / 2)) = idst (klPreK c τ m p) := by
    funext j; ring
  have hn' : (n : K) ≠ 0 := by exact_mod_cast hn
  rw [h2]
  unfold klPostK
  rw [hinv _ i (by omega)]
  unfold klPreK
  simp only [hi, if_true]
  field_simp

end KL

/-! ## Samples / CUQIarray: the flag automaton -/

/-- `Samples.parameters` always lands in (is_par, is_vec) = (true, true) or is a no-op -/
theorem samples_parameters_flags (g : Geom) (s s' : Samples) (hinv : s.isPar = true → s.isVec = true)
    (h : s.parameters g = some s') : s'.isPar = true ∧ s'.isVec = true := by
  unfold Samples.parameters at h
  by_cases hp : s.isPar = true
  · rw [if_pos hp] at h; cases h; exact ⟨hp, hinv hp⟩
  · rw [if_neg hp] at h
    obtain ⟨out, _, rfl⟩ := Option.map_eq_some_iff.mp h
    exact ⟨rfl, rfl⟩

/-- `Samples.funvals` yields function values (`is_par = false`) or is a no-op;
    `Samples.vector` yields a vector representation and never changes `is_par` -/
theorem samples_funvals_vector_flags (g : Geom) (s s' : Samples) (hinv : s.isPar = true → s.isVec = true) :
    (s.funvals g = some s' → s'.isPar = false ∨ s' = s) ∧
    (s.vector g = some s' → s'.isVec = true ∧ s'.isPar = s.isPar) := by
  constructor
  · intro h
    unfold Samples.funvals at h
    by_cases h0 : (!s.isPar && !s.isVec) = true
    · rw [if_pos h0] at h; cases h; exact Or.inr rfl
    · rw [if_neg h0] at h
      left
      cases hfs : g.funShape with
      | none => rw [hfs] at h; simp at h
      | some fs =>
        rw [hfs] at h
        obtain ⟨out, _, rfl⟩ := Option.map_eq_some_iff.mp h
        rfl
  · intro h
    unfold Samples.vector at h
    by_cases h0 : (s.isVec || s.isPar) = true
    · rw [if_pos h0] at h; cases h
      rcases (Bool.or_eq_true _ _).mp h0 with hv | hp
      · exact ⟨hv, rfl⟩
      · exact ⟨hinv hp, rfl⟩
    · rw [if_neg h0] at h
      cases hvs : g.funvecShape with
      | none => rw [hvs] at h; simp at h
      | some vs =>
        rw [hvs] at h
        obtain ⟨out, _, rfl⟩ := Option.map_eq_some_iff.mp h
        exact ⟨rfl, rfl⟩

/-- conversions to the representation a collection already has are no-ops (nothing is recomputed,
    hence nothing can be lost) -/
theorem samples_noop (g : Geom) (s : Samples) :
    (s.isPar = true → s.parameters g = some s ∧ s.vector g = some s) ∧
    (s.isVec = true → s.vector g = some s) ∧
    (s.isPar = false → s.isVec = false → s.funvals g = some s) := by
  refine ⟨fun hp => ⟨by simp [Samples.parameters, hp], by simp [Samples.vector, hp]⟩,
    fun hv => by simp [Samples.vector, hv], fun hp hv => by simp [Samples.funvals, hp, hv]⟩

/-- slices of an assembled collection are the per-sample results (`out[..., i] = conv(sample i)`) -/
theorem assemble_col (shape : List ℕ) (ns : ℕ) (cols : ℕ → Arr) (i r : ℕ) (hi : i < ns) :
    ((assemble shape ns cols).col ns i).get r = (cols i).get r ∧
      ((assemble shape ns cols).col ns i).shape = shape := by
  have hns : 0 < ns := by omega
  have hd : (r * ns + i) / ns = r := by
    rw [Nat.mul_comm, Nat.mul_add_div hns, Nat.div_eq_of_lt hi, Nat.add_zero]
  have hm : (r * ns + i) % ns = i := by
    rw [Nat.mul_add_mod_self_right, Nat.mod_eq_of_lt hi]
  constructor
  · simp only [Arr.col, assemble]; rw [hd, hm]
  · simp [Arr.col, assemble]


/-! ## Samples: data-level losslessness of two successive conversions -/

lemma getLastD_append_single (sh : List ℕ) (ns : ℕ) : (sh ++ [ns]).getLastD 0 = ns := by
  rw [List.getLastD_eq_getLast?]; simp

/-- what `convertAll` returns when every per-sample conversion succeeds -/
lemma convertAll_spec (sh : List ℕ) (s : Samples) (conv : Arr → Option Arr) (y : ℕ → Arr)
    (h : ∀ i, i < s.ns → (conv (s.arr.col s.ns i)).bind (fun v => broadcastTo v sh) = some (y i)) :
    ∃ out, convertAll sh s conv = some out ∧ out.shape = sh ++ [s.ns] ∧
      ∀ i, i < s.ns → ∀ r, out.get (r * s.ns + i) = (y i).get r := by
  unfold convertAll
  have hall : ((List.range s.ns).all fun i =>
      ((conv (s.arr.col s.ns i)).bind (fun v => broadcastTo v sh)).isSome) = true := by
    rw [List.all_eq_true]
    intro i hi
    rw [h i (List.mem_range.mp hi)]; rfl
  simp only [hall, if_true]
  refine ⟨_, rfl, rfl, ?_⟩
  intro i hi r
  have hns : 0 < s.ns := by omega
  have hd : (r * s.ns + i) / s.ns = r := by
    rw [Nat.mul_comm, Nat.mul_add_div hns, Nat.div_eq_of_lt hi, Nat.add_zero]
  have hm : (r * s.ns + i) % s.ns = i := by
    rw [Nat.mul_add_mod_self_right, Nat.mod_eq_of_lt hi]
  simp only [assemble, hd, hm, h i hi, Option.getD_some]

lemma broadcastTo_shape (v : Arr) (sh : List ℕ) (w : Arr) (h : broadcastTo v sh = some w) : w.shape = sh := by
  unfold broadcastTo at h
  simp only at h
  split_ifs at h
  cases h; rfl

/-- **Two successive conversions of a sample collection are lossless when the per-sample maps are
    mutually inverse**: if on every sample `conv2 (conv1 x) = x` (through the broadcasting
    assignments), then converting the collection with `conv1` and the result with `conv2` returns
    every entry of the original collection (`convertAll` is the loop of `Samples.funvals`,
    `.vector`, `.parameters`). -/
theorem samples_conversions_lossless (sh1 sh2 : List ℕ) (s : Samples) (conv1 conv2 : Arr → Option Arr)
    (b1 b2 : Bool) (y z : ℕ → Arr)
    (h1 : ∀ i, i < s.ns → (conv1 (s.arr.col s.ns i)).bind (fun v => broadcastTo v sh1) = some (y i))
    (h2 : ∀ i, i < s.ns → (conv2 (y i)).bind (fun v => broadcastTo v sh2) = some (z i))
    (hz : ∀ i, i < s.ns → ∀ r, (z i).get r = (s.arr.col s.ns i).get r) :
    ∃ out1 out2, convertAll sh1 s conv1 = some out1 ∧
      convertAll sh2 ⟨out1, b1, b2⟩ conv2 = some out2 ∧ out2.shape = sh2 ++ [s.ns] ∧
      ∀ i, i < s.ns → ∀ r, out2.get (r * s.ns + i) = s.arr.get (r * s.ns + i) := by
  obtain ⟨out1, ho1, hs1, hg1⟩ := convertAll_spec sh1 s conv1 y h1
  have hns : (⟨out1, b1, b2⟩ : Samples).ns = s.ns := by
    simp [Samples.ns, hs1]
  have hyshape : ∀ i, i < s.ns → (y i).shape = sh1 := by
    intro i hi
    have := h1 i hi
    cases hc : conv1 (s.arr.col s.ns i) with
    | none => rw [hc] at this; simp at this
    | some v => rw [hc] at this; exact broadcastTo_shape v sh1 _ this
  have hcol : ∀ i, i < s.ns → out1.col s.ns i = y i := by
    intro i hi
    have hsh : (out1.col s.ns i).shape = (y i).shape := by
      simp [Arr.col, hs1, hyshape i hi]
    have hget : (out1.col s.ns i).get = (y i).get := by
      funext r; simp only [Arr.col]; exact hg1 i hi r
    cases hy : y i with
    | mk ysh yget =>
      rw [hy] at hsh hget
      cases hc : out1.col s.ns i with
      | mk csh cget =>
        rw [hc] at hsh hget
        simp only at hsh hget
        rw [hsh, hget]
  obtain ⟨out2, ho2, hs2, hg2⟩ := convertAll_spec sh2 ⟨out1, b1, b2⟩ conv2 z (by
    intro i hi
    rw [hns] at hi ⊢
    show (conv2 (out1.col s.ns i)).bind _ = _
    rw [hcol i hi]; exact h2 i hi)
  rw [hns] at hs2 hg2
  refine ⟨out1, out2, ho1, ho2, hs2, ?_⟩
  intro i hi r
  rw [hg2 i hi r, hz i hi r]
  rfl

/-! ## non-vacuity witnesses and concrete negative results -/

/-- non-vacuity of `samples_conversions_lossless`: identity conversions on a 2×2 collection -/
example : ∃ out1 out2, convertAll [2] ⟨Arr.ofList [2, 2] [1, 2, 3, 4], true, true⟩ some = some out1 ∧
    convertAll [2] ⟨out1, false, true⟩ some = some out2 ∧ out2.shape = [2] ++ [2] ∧
    ∀ i, i < 2 → ∀ r, out2.get (r * 2 + i) = (Arr.ofList [2, 2] [1, 2, 3, 4]).get (r * 2 + i) := by
  have hb : ∀ v : Arr, v.shape = [2] → broadcastTo v [2] = some ⟨[2], fun t => v.get (t / 1 * 1 + 0)⟩ := by
    intro v hv
    simp [broadcastTo, hv, ravelC, unravelC, prod]
  have hns : (⟨Arr.ofList [2, 2] [1, 2, 3, 4], true, true⟩ : Samples).ns = 2 := rfl
  refine samples_conversions_lossless [2] [2] ⟨Arr.ofList [2, 2] [1, 2, 3, 4], true, true⟩ some some false true
    (fun i => ⟨[2], fun t => ((Arr.ofList [2, 2] [1, 2, 3, 4]).col 2 i).get (t / 1 * 1 + 0)⟩)
    (fun i => ⟨[2], fun t => ((Arr.ofList [2, 2] [1, 2, 3, 4]).col 2 i).get (t / 1 * 1 + 0 )⟩) ?_ ?_ ?_
  · intro i _
    rw [hns, Option.bind_some, hb _ rfl]
  · intro i _
    rw [Option.bind_some, hb _ rfl]
    simp
  · intro i _ r
    rw [hns]; simp



example : ∃! i, i < 3 ∧ inStep (fun i => (i : ℚ)) (3 / 2) i = true :=
  step_partition_partial _ 3 _ (by norm_num) (by intro i _; push_cast; linarith) (by norm_num) (by norm_num)

/-- the design's witness grid `2, 2.7, 3.4` with 3 steps: in exact arithmetic the round trip holds -/
example : project .mean (stepVals (stepBound (fun k => (2 : ℚ) + (k : ℚ) * (7 / 10)) 3 3)
    (fun k => (2 : ℚ) + (k : ℚ) * (7 / 10)) 3
    (fun k => stepFill (stepBound (fun k => (2 : ℚ) + (k : ℚ) * (7 / 10)) 3 3) 3 (fun i => (i : ℚ))
      ((2 : ℚ) + (k : ℚ) * (7 / 10))) 2) = some ((2 : ℕ) : ℚ) :=
  step_roundtrip_regular 2 (7 / 10) (by norm_num) 2 3 (by norm_num) (by norm_num) (fun i => (i : ℚ)) .mean 2 (by norm_num)

example : ∃ k, k < 8 ∧ inStepIdeal 8 7 k 3 = true := step_nonempty 7 7 3 (by norm_num) (by norm_num) (by norm_num)

/-- **Negative result (float interval ends as data)**: when the last end is below the last node —
    the hypothesis `x ≤ b s` of `step_partition_partial` fails — the node is in no step.  The ends
    `2, 2.4666…, 2.9333…, 3.3999…` are the pattern the implementation produces for the grid
    `2, 2.7, 3.4` (replayed on the real code by the check). -/
theorem step_float_ends_counterexample :
    ∀ i, i < 3 → inStep (lget [2, 37 / 15, 44 / 15, 33999 / 10000]) (17 / 5) i = false := by
  intro i hi
  interval_cases i <;> simp [inStep, lget] <;> norm_num

example : imgFtoVec 2 3 (vecToImgF 2 3 4) = 4 := imgF_index_roundtrip 2 3 4 (by norm_num)

example : ∃ y z, (Geom.image 2 3 true false).par2fun (ones 6) = some y ∧ y.shape = [2, 3] ∧
    (Geom.image 2 3 true false).fun2par y = .ok z ∧ z.shape = [2 * 3] ∧ ∀ m, m < 2 * 3 → z.get m = (ones 6).get m :=
  image_roundtrip 2 3 true (ones 6) rfl (by norm_num)

example : klPostK (fun i => (1 : ℚ) / ((i : ℚ) + 1)) 12 4
    ((fun v => fun i => 2 * 4 * v i) (fun j => 2 * ((fun v => v) (klPreK (fun i => (1 : ℚ) / ((i : ℚ) + 1)) 12 3 (fun i => (i : ℚ))) j / 2))) 2 = 2 := by
  have := kl_fun2par_par2fun (K := ℚ) (fun v => fun i => 2 * 4 * v i) (fun v => v) 4 3 (by norm_num)
    (by intro v i _; norm_num) (fun i => (1 : ℚ) / ((i : ℚ) + 1)) 12 (by norm_num) (fun i => (i : ℚ)) 2 (by norm_num)
    (by norm_num) (by norm_num)
  simpa using this

end CuqiVerif.C13
