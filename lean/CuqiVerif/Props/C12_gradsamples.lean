import CuqiVerif.Props.C12
import CuqiVerif.Model.C12_gradsamples

/-!
# C12 — `gradient` with a `Samples` object as `wrt` (session 3, second pass)

About `gradientSamplesWrt` / `gradientFull` of `Model/C12_gradsamples.lean` (driver op `gradsw`): the case
`Model/C12.lean` left outside the model is a refusal too, and which exception class is raised follows
from the order "convert `wrt` first, check afterwards".
-/

namespace CuqiVerif.C12

variable {α β : Type}

/-- an exception of a modelled class, seen among all classes -/
def liftKnown {γ : Type} : Except Err γ → Except Raised γ
  | .ok v => .ok v
  | .error e => .error (.known e)

/-- **`gradientFull` extends `gradient`**: wherever the first-pass model is defined the two agree. -/
theorem gradientFull_extends (m : ModelObj α β) (dir : GArg β) (wrt : GArg α) (idp iwp : Bool) (conv : ObjConv)
    (r : Except Err (Val α)) (h : gradient m dir wrt idp iwp = some r) :
    gradientFull m dir wrt idp iwp conv = liftKnown r := by
  unfold gradientFull
  simp only [h]
  cases r <;> rfl

example : gradient (mkModel (K := Int) (fun v => pure v) none
    { gid := 1, p2f := id, f2p := pure, identityType := true, grad := none, parDim := 1 }
    { gid := 0, p2f := id, f2p := pure, identityType := true, grad := none, parDim := 1 } "x")
    (.one ⟨[1], none⟩) (.one ⟨[1], none⟩) true true = some (.error .notImplemented) := rfl

/-- **A `Samples` object as `wrt` is always refused** — for every model, every direction (array or
    `Samples`), both values of `is_wrt_par` and whatever `fun2par` does to the object: `gradient` never
    returns a value.  (Together with `gradient_refused_samples` this closes the `Samples` row of the
    refusal table.) -/
theorem gradient_samples_wrt_refused (m : ModelObj α β) (dir : GArg β) (idp iwp : Bool) (conv : ObjConv) :
    ∃ e, gradientFull m dir .samples idp iwp conv = .error e := by
  unfold gradientFull
  cases hg : gradient m dir .samples idp iwp with
  | none => exact ⟨_, rfl⟩
  | some r =>
    cases r with
    | error e => exact ⟨_, rfl⟩
    | ok v =>
      exfalso
      cases iwp with
      | false => cases dir <;> simp [gradient] at hg
      | true =>
        cases dir <;> simp only [gradient, if_true, Option.some.injEq] at hg <;>
        · obtain ⟨u, _, hu⟩ := bind_eq_ok hg
          cases hu

/-- **Which class is raised with `is_wrt_par=False`** (conversion first, check afterwards): the class of
    `domain_geometry.fun2par(samples)` if that raises (`ValueError` and `NotImplementedError` are re-raised as
    themselves, everything else propagates); if it hands the object back: `NotImplementedError` when the model
    has no gradient function, `ValueError` (Samples not supported) otherwise — the geometry checks are
    never reached. -/
theorem gradient_samples_wrt_class (m : ModelObj α β) (dirIsSamples : Bool) (conv : ObjConv) :
    gradientSamplesWrt m dirIsSamples false conv
      = (match conv with
         | .raises e => .known e
         | .raisesOther c => .other c
         | .passes => if m.gradientFunc.isNone then .known .notImplemented else .known .valueError) := by
  cases conv with
  | raises e => rfl
  | raisesOther c => rfl
  | passes =>
    simp only [gradientSamplesWrt, Bool.false_eq_true, if_false, checkGradient, Bool.or_true, if_true]
    cases m.gradientFunc <;> rfl

example : gradientSamplesWrt (mkModel (K := Int) (fun v => pure v) none
    { gid := 1, p2f := id, f2p := pure, identityType := true, grad := none, parDim := 1 }
    { gid := 0, p2f := id, f2p := pure, identityType := true, grad := none, parDim := 1 } "x")
    false false (.raisesOther "AttributeError") = .other "AttributeError" := rfl

end CuqiVerif.C12
