import CuqiVerif.Model.C09_array
import Mathlib.Data.List.Basic
import Mathlib.Data.List.GetD
import Mathlib.Tactic.NormNum

/-!
# C09 — legacy `Gibbs`: the concrete sample arrays refine the column model

Theorems about the executable definitions of `Model/C09_array.lean` (`zeros2`, `hstack`, `setColA`,
`colA`, `lastColA`, `allocA`, `colsA` — the ones the driver op `ar` runs), for arrays of every size.
`Rect dim w A`: `A` is a `(dim, w)` array.
-/
namespace CuqiVerif.C09

variable {α : Type}

/-- `A` has `dim` rows of length `w` -/
def Rect (dim w : Nat) (A : List (List α)) : Prop := A.length = dim ∧ ∀ r ∈ A, r.length = w

lemma rect_zeros2 (z : α) (dim n : Nat) : Rect dim n (zeros2 z dim n) := by
  refine ⟨by simp [zeros2], ?_⟩
  intro r hr
  obtain ⟨_, rfl⟩ := List.mem_replicate.1 hr
  simp

lemma colA_hstack_left (z : α) (j : Nat) : ∀ (A B : List (List α)), A.length = B.length →
    (∀ r ∈ A, j < r.length) → colA z (hstack A B) j = colA z A j := by
  intro A
  induction A with
  | nil => intro B _ _; simp [hstack, colA]
  | cons a r ih =>
    intro B hlen hj
    cases B with
    | nil => simp at hlen
    | cons b s =>
      have h1 : j < a.length := hj a (by simp)
      have := ih s (by simpa using hlen) (fun x hx => hj x (by simp [hx]))
      simp only [hstack, colA, List.zipWith_cons_cons, List.map_cons] at this ⊢
      rw [this, List.getD_append _ _ _ _ h1]

lemma colA_hstack_right (z : α) (w k : Nat) : ∀ (A B : List (List α)), A.length = B.length →
    (∀ r ∈ A, r.length = w) → colA z (hstack A B) (w + k) = colA z B k := by
  intro A
  induction A with
  | nil => intro B hlen _; cases B with
    | nil => simp [hstack, colA]
    | cons b s => simp at hlen
  | cons a r ih =>
    intro B hlen hw
    cases B with
    | nil => simp at hlen
    | cons b s =>
      have h1 : a.length = w := hw a (by simp)
      have := ih s (by simpa using hlen) (fun x hx => hw x (by simp [hx]))
      simp only [hstack, colA, List.zipWith_cons_cons, List.map_cons] at this ⊢
      rw [this, List.getD_append_right _ _ _ _ (by omega)]
      congr 2
      omega

lemma rect_hstack (dim w n : Nat) : ∀ (A B : List (List α)), Rect dim w A → Rect dim n B →
    Rect dim (w + n) (hstack A B) := by
  intro A B hA hB
  refine ⟨by simp [hstack, hA.1, hB.1], ?_⟩
  intro r hr
  simp only [hstack, List.mem_iff_getElem, List.length_zipWith] at hr
  obtain ⟨i, hi, rfl⟩ := hr
  rw [List.getElem_zipWith, List.length_append, hA.2 _ (List.getElem_mem _), hB.2 _ (List.getElem_mem _)]

/-- **alloc_rect** — `_allocate_samples(Ns)` returns a `(dim, Ns)` array on the first call and a
    `(dim, w + Ns)` array on a continuation from a `(dim, w)` array. -/
theorem alloc_rect (z : α) (dim Ns w : Nat) (A : List (List α)) (hA : Rect dim w A) :
    Rect dim Ns (allocA z dim Ns none) ∧ Rect dim (w + Ns) (allocA z dim Ns (some A)) :=
  ⟨rect_zeros2 z dim Ns, rect_hstack dim w Ns A _ hA (rect_zeros2 z dim Ns)⟩

/-- **alloc_keeps_stored_columns** — continuing a run (`np.hstack((old, zeros))`) leaves every column
    stored by earlier calls exactly where and what it was, and the `Ns` new columns are zero: the sweeps
    already returned to the user are not rewritten by a later `sample` call. -/
theorem alloc_keeps_stored_columns (z : α) (dim Ns w : Nat) (A : List (List α)) (hA : Rect dim w A) :
    (∀ j, j < w → colA z (allocA z dim Ns (some A)) j = colA z A j) ∧
    (∀ k, k < Ns → colA z (allocA z dim Ns (some A)) (w + k) = List.replicate dim z) := by
  constructor
  · intro j hj
    exact colA_hstack_left z j A _ (by simp [zeros2, hA.1]) (fun r hr => by rw [hA.2 r hr]; exact hj)
  · intro k hk
    rw [allocA, colA_hstack_right z w k A _ (by simp [zeros2, hA.1]) hA.2]
    simp only [colA, zeros2, List.map_replicate]
    congr 1
    rw [List.getD_eq_getElem _ _ (by simpa using hk)]
    simp

example : colA 0 (allocA (0 : Int) 2 2 (some [[1, 2, 3], [4, 5, 6]])) 1 = [2, 5] ∧
    allocA (0 : Int) 2 2 (some [[1, 2, 3], [4, 5, 6]]) = [[1, 2, 3, 0, 0], [4, 5, 6, 0, 0]] := by decide

lemma colA_setColA (z : α) (i j : Nat) : ∀ (A : List (List α)) (v : List α), A.length = v.length →
    (∀ r ∈ A, i < r.length) →
    colA z (setColA A i v) j = if j = i then v else colA z A j := by
  intro A
  induction A with
  | nil =>
    intro v hlen _
    have : v = [] := by simpa using hlen.symm
    subst this
    simp [setColA, colA]
  | cons a r ih =>
    intro v hlen hi
    cases v with
    | nil => simp at hlen
    | cons x s =>
      have h1 : i < a.length := hi a (by simp)
      have := ih s (by simpa using hlen) (fun y hy => hi y (by simp [hy]))
      simp only [setColA, colA, List.zipWith_cons_cons, List.map_cons] at this ⊢
      rw [this]
      by_cases hji : j = i
      · subst hji
        simp [List.getD_eq_getElem?_getD, h1]
      · have hij : i ≠ j := fun e => hji e.symm
        simp [hji, List.getD_eq_getElem?_getD, List.getElem?_set_ne hij]

/-- **store_column** — `samples[par][:, i] = v` on a `(dim, w)` array with `i < w` and a value with one
    entry per row: column `i` becomes `v`, every other column is untouched, the shape is kept. -/
theorem store_column (z : α) (dim w i : Nat) (A : List (List α)) (v : List α) (hA : Rect dim w A)
    (hi : i < w) (hv : v.length = dim) :
    colA z (setColA A i v) i = v ∧ (∀ j, j ≠ i → colA z (setColA A i v) j = colA z A j) ∧
      Rect dim w (setColA A i v) := by
  have hlen : A.length = v.length := by rw [hA.1, hv]
  have hall : ∀ r ∈ A, i < r.length := fun r hr => by rw [hA.2 r hr]; exact hi
  refine ⟨by rw [colA_setColA z i i A v hlen hall]; simp, ?_, ?_⟩
  · intro j hj
    rw [colA_setColA z i j A v hlen hall]; simp [hj]
  · refine ⟨by simp [setColA, hA.1, hv], ?_⟩
    intro r hr
    simp only [setColA, List.mem_iff_getElem, List.length_zipWith] at hr
    obtain ⟨k, hk, rfl⟩ := hr
    rw [List.getElem_zipWith, List.length_set, hA.2 _ (List.getElem_mem _)]

example : setColA [[1, 2, 3], [4, 5, 6]] 1 [(8 : Int), 9] = [[1, 8, 3], [4, 9, 6]] := by decide

/-- **last_column** — `samples[par][:, -1]`: on a `(dim, w)` array with `dim ≥ 1` it is column `w - 1`
    when `w ≥ 1` and raises `IndexError` when `w = 0` — the mechanism of known finding 2 (a call that
    only ran warm-up leaves a `(dim, 0)` sample array). -/
theorem last_column (z : α) (dim w : Nat) (A : List (List α)) (hA : Rect dim w A) (hd : 1 ≤ dim) :
    lastColA z A = if w = 0 then none else some (colA z A (w - 1)) := by
  have hw : widthA A = w := by
    cases A with
    | nil => have := hA.1; simp at this; omega
    | cons a r => simp [widthA, hA.2 a (by simp)]
  simp [lastColA, hw]

example : lastColA (0 : Int) (zeros2 0 3 0) = none ∧ lastColA (0 : Int) [[1, 2], [3, 4]] = some [2, 4] := by decide

/-- **columns_refine** — the column view used by `Model/C09.lean`: after `_allocate_samples` on a
    continuation the list of columns is the old list followed by `Ns` zero columns, and
    `samples[:, i] = v` is `List.set i v` on the list of columns (`setCol`). -/
theorem columns_refine (z : α) (dim w Ns i : Nat) (A : List (List α)) (v : List α) (hA : Rect dim w A)
    (hd : 1 ≤ dim) (hi : i < w) (hv : v.length = dim) :
    colsA z (allocA z dim Ns (some A)) = colsA z A ++ List.replicate Ns (List.replicate dim z) ∧
    colsA z (setColA A i v) = (colsA z A).set i v := by
  have width_of : ∀ (B : List (List α)) (u : Nat), Rect dim u B → widthA B = u := by
    intro B u hB
    cases B with
    | nil => have := hB.1; simp at this; omega
    | cons a r => simp [widthA, hB.2 a (by simp)]
  obtain ⟨hkeep, hzero⟩ := alloc_keeps_stored_columns z dim Ns w A hA
  obtain ⟨hsame, hother, hrect⟩ := store_column z dim w i A v hA hi hv
  constructor
  · unfold colsA
    rw [width_of _ _ (alloc_rect z dim Ns w A hA).2, width_of _ _ hA]
    apply List.ext_getElem
    · simp
    · intro j h1 h2
      simp only [List.getElem_map, List.getElem_range]
      by_cases hj : j < w
      · rw [List.getElem_append_left (by simpa using hj)]
        simp [hkeep j hj]
      · rw [List.getElem_append_right (by simpa using hj)]
        have hjk : j = w + (j - w) := by omega
        have hk : j - w < Ns := by simp at h1; omega
        have hz := hzero (j - w) hk
        rw [← hjk] at hz
        rw [hz]
        simp
  · unfold colsA
    rw [width_of _ _ hrect, width_of _ _ hA]
    apply List.ext_getElem
    · simp
    · intro j h1 h2
      simp only [List.getElem_map, List.getElem_range, List.getElem_set]
      by_cases hji : i = j
      · subst hji; simp [hsame]
      · have : j ≠ i := fun e => hji e.symm
        simp [hji, hother j this]

lemma widthA_of_rect (dim u : Nat) (B : List (List α)) (hd : 1 ≤ dim) (hB : Rect dim u B) : widthA B = u := by
  cases B with
  | nil => have := hB.1; simp at this; omega
  | cons a r => simp [widthA, hB.2 a (by simp)]

lemma storeLoopA_spec (z : α) (dim w : Nat) (vals : Nat → List α) (hv : ∀ t, (vals t).length = dim) :
    ∀ (k i t : Nat) (A : List (List α)), Rect dim w A → i + k ≤ w →
      Rect dim w (storeLoopA vals i t k A) ∧
      (∀ j, j < i → colA z (storeLoopA vals i t k A) j = colA z A j) ∧
      (∀ m, m < k → colA z (storeLoopA vals i t k A) (i + m) = vals (t + m)) := by
  intro k
  induction k with
  | zero => intro i t A hA _; exact ⟨hA, fun _ _ => rfl, fun m hm => absurd hm (by omega)⟩
  | succ k ih =>
    intro i t A hA hik
    obtain ⟨hsame, hother, hrect⟩ := store_column z dim w i A (vals t) hA (by omega) (hv t)
    obtain ⟨h1, h2, h3⟩ := ih (i + 1) (t + 1) (setColA A i (vals t)) hrect (by omega)
    refine ⟨h1, ?_, ?_⟩
    · intro j hj
      show colA z (storeLoopA vals (i + 1) (t + 1) k (setColA A i (vals t))) j = _
      rw [h2 j (by omega), hother j (by omega)]
    · intro m hm
      show colA z (storeLoopA vals (i + 1) (t + 1) k (setColA A i (vals t))) (i + m) = _
      cases m with
      | zero =>
        have := h2 i (by omega)
        simp only [Nat.add_zero]
        rw [this, hsame]
      | succ m =>
        have := h3 m (by omega)
        have e1 : i + 1 + m = i + (m + 1) := by omega
        have e2 : t + 1 + m = t + (m + 1) := by omega
        rw [e1, e2] at this
        exact this

/-- what `runCallsA` maintains: no array before the first call; afterwards a `(dim, t)` array whose column
    `j` is the block's value after sweep `j` -/
def ArrInv (z : α) (dim : Nat) (vals : Nat → List α) (st : Option (List (List α)) × Nat) : Prop :=
  match st.1 with
  | none => st.2 = 0
  | some A => Rect dim st.2 A ∧ ∀ j, j < st.2 → colA z A j = vals j

lemma runCallsA_inv (z : α) (dim : Nat) (vals : Nat → List α) (hd : 1 ≤ dim) (hv : ∀ t, (vals t).length = dim) :
    ∀ (calls : List Nat) (st : Option (List (List α)) × Nat), ArrInv z dim vals st →
      ArrInv z dim vals (runCallsA z dim vals calls st) ∧ (runCallsA z dim vals calls st).2 = st.2 + calls.sum := by
  intro calls
  induction calls with
  | nil => intro st h; exact ⟨h, by simp [runCallsA]⟩
  | cons Ns r ih =>
    intro st h
    obtain ⟨old, t⟩ := st
    have key : ArrInv z dim vals
        (some (storeLoopA vals (atNsA old) t Ns (allocA z dim Ns old)), t + Ns) := by
      cases old with
      | none =>
        have ht : t = 0 := h
        subst ht
        obtain ⟨h1, _, h3⟩ := storeLoopA_spec z dim Ns vals hv Ns 0 0 (allocA z dim Ns none)
          (rect_zeros2 z dim Ns) (by omega)
        refine ⟨by simpa [atNsA] using h1, ?_⟩
        intro j hj
        have := h3 j (by omega)
        simpa [atNsA] using this
      | some A =>
        obtain ⟨hA, hcols⟩ := h
        have hw : widthA A = t := widthA_of_rect dim t A hd hA
        obtain ⟨hkeep, _⟩ := alloc_keeps_stored_columns z dim Ns t A hA
        obtain ⟨h1, h2, h3⟩ := storeLoopA_spec z dim (t + Ns) vals hv Ns t t (allocA z dim Ns (some A))
          (alloc_rect z dim Ns t A hA).2 (by omega)
        simp only [atNsA, hw]
        refine ⟨h1, ?_⟩
        intro j hj
        by_cases hjt : j < t
        · rw [h2 j hjt, hkeep j hjt, hcols j hjt]
        · have e : j = t + (j - t) := by omega
          have := h3 (j - t) (by omega)
          rw [← e] at this
          exact this
    obtain ⟨hi, hs⟩ := ih _ key
    refine ⟨hi, ?_⟩
    show (runCallsA z dim vals r _).2 = _
    rw [hs]
    simp [Nat.add_assoc]

/-- **legacy_arrays_are_sweep_results** — `lsample` on the concrete arrays: over any sequence of calls
    `sample(Ns₁); sample(Ns₂); …` of a fresh legacy `Gibbs` (allocation by `np.zeros`, continuation by
    `np.hstack`, `at_Ns` read from the old array, the loop writing column `at_Ns + k`), the array of a block
    of dimension `dim ≥ 1` is a `(dim, Ns₁ + Ns₂ + …)` array whose column `j` is the block's value after
    sweep `j + 1` of the sampling phase (`vals j`; by `legacy_stored_is_post_sweep` the post-sweep tuple),
    for every `j` — earlier calls' columns included: a continuation neither moves nor rewrites them, and the
    new sweeps follow without gap. -/
theorem legacy_arrays_are_sweep_results (z : α) (dim : Nat) (vals : Nat → List α) (hd : 1 ≤ dim)
    (hv : ∀ t, (vals t).length = dim) (Ns : Nat) (calls : List Nat) :
    ∃ A, runCallsA z dim vals (Ns :: calls) (none, 0) = (some A, (Ns :: calls).sum) ∧
      Rect dim (Ns :: calls).sum A ∧ ∀ j, j < (Ns :: calls).sum → colA z A j = vals j := by
  obtain ⟨hi, hs⟩ := runCallsA_inv z dim vals hd hv (Ns :: calls) (none, 0) rfl
  have hsome : ∃ A, (runCallsA z dim vals (Ns :: calls) (none, 0)).1 = some A := by
    have : ∀ (l : List Nat) (st : Option (List (List α)) × Nat), st.1.isSome →
        (runCallsA z dim vals l st).1.isSome := by
      intro l
      induction l with
      | nil => intro st h; exact h
      | cons a r ih => intro st _; obtain ⟨o, t⟩ := st; exact ih _ rfl
    exact Option.isSome_iff_exists.1 (this calls _ rfl)
  obtain ⟨A, hA⟩ := hsome
  refine ⟨A, ?_, ?_⟩
  · apply Prod.ext hA
    simpa using hs
  · have := hi
    unfold ArrInv at this
    rw [hA] at this
    simp only [Nat.zero_add] at hs
    rw [hs] at this
    exact this

/-- `sample(2); sample(1)` on a block of dimension 2 whose value after sweep `t` is `[t, 10 t]` -/
example : runCallsA (0 : Int) 2 (fun t => [(t : Int), 10 * t]) [2, 1] (none, 0)
    = (some [[0, 1, 2], [0, 10, 20]], 3) := by decide

example := legacy_arrays_are_sweep_results (0 : Int) 2 (fun t => [(t : Int), 10 * t]) (by decide) (fun _ => rfl) 2 [1, 0, 3]

/-- the hypotheses of the theorems above are satisfiable: a `(2, 3)` array -/
lemma rect_example : Rect 2 3 [[(1 : Int), 2, 3], [4, 5, 6]] := ⟨rfl, by simp⟩

example := alloc_rect (0 : Int) 2 4 3 _ rect_example
example := alloc_keeps_stored_columns (0 : Int) 2 4 3 _ rect_example
example := store_column (0 : Int) 2 3 1 _ [8, 9] rect_example (by decide) rfl
example := last_column (0 : Int) 2 3 _ rect_example (by decide)
example := columns_refine (0 : Int) 2 3 4 1 _ [8, 9] rect_example (by decide) (by decide) rfl

end CuqiVerif.C09
