import CuqiVerif.Proofs.C08_abort

/-!
# C08 — interrupted transitions (`Model/C08_abort.lean`)

Property clause: *"the cached log-density and gradient always belong to the current point"*, quantified over
histories.  One history class is a transition cut short by an exception of the target (solver failure, interrupt)
that the caller catches; the sampler object is then used again.  `nutsAbort … k` is the state the experimental
sampler is left in when the `k`-th target evaluation of the transition raises (see the header of the model file
for why: the state triple is written in one place, after all evaluations of a doubling).

* `abort_state_is_loop_state`: that state is the loop state after `m` *complete* doublings, where `m` is
  determined by `k` (the `k`-th evaluation belongs to doubling `m`); nothing of the interrupted doubling is in it;
* `abort_cur_inv`, `abort_coherent_finite`: the current point of that state is the start or a leapfrog output that
  passed the finiteness guard, and its cached log-density and gradient are those of that very point — for every
  target of the executable instance, step size, slice level, depth bound, draw script and every `k`;
* `abort_first_evaluation`: a fault at the very first evaluation leaves the sampler at its start state;
* `resume_is_fresh_transition`: the next transition of the resumed sampler is the model transition from that
  coherent state (so all invariance theorems apply to it).

The harness (`harness/props/c08_abort.py`) injects the fault into the real code at a generated evaluation index
and compares the state left behind and the next transition with these definitions.
-/
namespace CuqiVerif.C08
variable {Z : Type}

/-- initial loop state of a transition (as in `nutsStep`) -/
def txInit (z0 : Z) (us : List Rat) : Loop Z :=
  { cur := z0, zminus := z0, zplus := z0, j := 0, s := true, n := 1, acc := false, last := [], nodes := 0, us := us }

/-- **The state after a fault at evaluation `k ≥ 1` is the loop state after `m ≤ max_depth` complete doublings**,
    all entered with `s = 1`; the doublings before it evaluated fewer than `k` leaves together, and with the
    interrupted one at least `k`. -/
theorem abort_state_is_loop_state (c : Ctx Z) (guard : Z → Bool) (md : Nat) (z0 : Z) (us : List Rat) (k : Nat)
    (hk : 0 < k) (st : Loop Z) (h : nutsAbort c guard md z0 us k = some st) :
    ∃ m, m ≤ md ∧ st = (loopBody c guard)^[m] (txInit z0 us) ∧ (st.s && decide (st.j ≤ md)) = true ∧
      ((List.range m).map (fun i => (loopBody c guard ((loopBody c guard)^[i] (txInit z0 us))).last.length)).sum < k ∧
      k ≤ ((List.range m).map (fun i => (loopBody c guard ((loopBody c guard)^[i] (txInit z0 us))).last.length)).sum
            + (loopBody c guard st).last.length := by
  obtain ⟨m, hm, rest⟩ := abortLoop_iterate c guard md (md + 1) k _ st hk h
  exact ⟨m, by omega, rest⟩

/-- **Whatever holds of the start and of every leapfrog output holds of the current point after an interrupted
    transition, and that point passed the guard.** -/
theorem abort_cur_inv (c : Ctx Z) (guard : Z → Bool) (P : Z → Prop) (hstep : ∀ v z, P (c.step v z))
    (md : Nat) (z0 : Z) (us : List Rat) (k : Nat) (st : Loop Z) (h0 : P z0 ∧ guard z0 = true)
    (h : nutsAbort c guard md z0 us k = some st) : P st.cur ∧ guard st.cur = true :=
  abortLoop_cur_inv c guard P hstep md (md + 1) k _ st h0 h

/-- **After an interrupted transition the cached log-density and gradient belong to the current point, which has a
    finite log-density** (executable instance: any quadratic target with optional NaN/±inf wall, any step size,
    slice level, depth bound, draw script, fault position). -/
theorem abort_coherent_finite (t : Target) (eps logu ham0 : Rat) (md : Nat) (z0 : PS) (us : List Rat) (k : Nat)
    (st : Loop PS) (h0 : z0.logd = t.logd z0.x ∧ z0.grad = t.grad z0.x) (hfin : z0.logd.isFinite = true)
    (h : nutsAbort (psCtx t eps logu ham0) (fun z => z.logd.isFinite) md z0 us k = some st) :
    (st.cur.logd = t.logd st.cur.x ∧ st.cur.grad = t.grad st.cur.x) ∧ st.cur.logd.isFinite = true :=
  abort_cur_inv (psCtx t eps logu ham0) (fun z => z.logd.isFinite)
    (fun z => z.logd = t.logd z.x ∧ z.grad = t.grad z.x)
    (fun v z => by simp [psCtx, psStep, leapfrog]) md z0 us k st ⟨h0, hfin⟩ h

/-- hypotheses satisfiable: a fault at the first evaluation of a concrete transition (`abort_first_evaluation` below) -/
example : ∃ st, nutsAbort (psCtx { P := [[2]], b := [0], wall := none } (1/4) (-2) (-9/8)) (fun z => z.logd.isFinite) 3
    { x := [1], r := [1/2], logd := .fin (-1), grad := [-2] } [1/4, 1/4, 1/4] 1 = some st := by
  simp only [nutsAbort, abortLoop]
  have hc : (true && decide (0 ≤ 3)) = true := by decide
  simp only [hc, if_true]
  split
  · exact ⟨_, rfl⟩
  · rename_i h
    exfalso; apply h
    exact List.length_pos_iff.mpr (loopBody_last_ne_nil' _ _ _)

/-- **A fault at the first evaluation leaves the sampler at its start.** -/
theorem abort_first_evaluation (c : Ctx Z) (guard : Z → Bool) (md : Nat) (z0 : Z) (us : List Rat) :
    nutsAbort c guard md z0 us 1 = some (txInit z0 us) := by
  have hne := loopBody_last_ne_nil' c guard (txInit z0 us)
  have h1 : 1 ≤ (loopBody c guard (txInit z0 us)).last.length := List.length_pos_iff.mpr hne
  show abortLoop c guard md (md + 1) 1 (txInit z0 us) = _
  simp only [abortLoop]
  have hc : ((txInit z0 us).s && decide ((txInit z0 us).j ≤ md)) = true := by simp [txInit]
  simp only [hc, if_true, h1]

example : nutsAbort (psCtx { P := [[1]], b := [0], wall := none } 1 0 0) (fun _ => true) 2
    { x := [0], r := [1], logd := .fin 0, grad := [0] } [] 1 =
    some (txInit { x := [0], r := [1], logd := .fin 0, grad := [0] } []) :=
  abort_first_evaluation _ _ _ _ _

/-- **The resumed sampler performs an ordinary transition from the state left behind**: with fresh momentum /
    slice level (inside `c'`) and draws `us'` its next state is `nutsStep c' guard md st.cur us'`, whose start is
    coherent by `abort_coherent_finite`; so `nutsStep_coherent_finite` and every invariance theorem apply to it.
    (Stated for the executable instance: the coherence of the state after the resumed transition.) -/
theorem resume_is_fresh_transition (t : Target) (eps logu ham0 logu' ham0' : Rat) (md : Nat) (z0 : PS)
    (us us' : List Rat) (k : Nat) (st : Loop PS)
    (h0 : z0.logd = t.logd z0.x ∧ z0.grad = t.grad z0.x) (hfin : z0.logd.isFinite = true)
    (h : nutsAbort (psCtx t eps logu ham0) (fun z => z.logd.isFinite) md z0 us k = some st) (r' : List Rat) :
    let z := (nutsStep (psCtx t eps logu' ham0') (fun z => z.logd.isFinite) md { st.cur with r := r' } us').cur
    (z.logd = t.logd z.x ∧ z.grad = t.grad z.x) ∧ z.logd.isFinite = true := by
  obtain ⟨hc, hf⟩ := abort_coherent_finite t eps logu ham0 md z0 us k st h0 hfin h
  exact nutsStep_coherent_finite t eps logu' ham0' md { st.cur with r := r' } us' hc hf

example : ({ x := [1], r := [0], logd := .fin (-1), grad := [-2] } : PS).logd.isFinite = true := rfl

end CuqiVerif.C08
