import CuqiVerif.Props.C05
import CuqiVerif.Proofs.C05_reject
import Mathlib.MeasureTheory.Function.SpecialFunctions.Basic
import Mathlib.MeasureTheory.Constructions.BorelSpace.Order
import Mathlib.Analysis.MeanInequalities
/-
  C05 — from the pointwise rejection identities of the ModifiedHalfNormal loops to the LAW of an accepted draw
  (item "the step from the MHN rejection identities to the law of the accepted draw" of the remaining-gap list).

  One loop iteration draws a proposal `X ~ μ = g·λ` and, independently, `U = rng.uniform()` (Lebesgue measure on
  `[0, 1)`), and accepts when `log U < bound(X)`, i.e. `U < exp(bound X) =: eb X`.  The theorems below are equalities of
  measures on the product space `proposal × uniform`; they hold for every measurable space of proposals.
-/
open MeasureTheory ENNReal Set CuqiVerif CuqiVerif.RExpr

namespace CuqiVerif.C05

variable {α : Type*} [MeasurableSpace α]

/-- **Mass of an accepted iteration.**  `P(X ∈ S and U < eb(X)) = ∫_S eb dμ` for every acceptance function with values in
    `[0, 1]`: the uniform variate turns the bound into an acceptance probability. -/
theorem rejection_accepted_mass (μ : Measure α) [SFinite μ] (eb : α → ℝ) (heb : Measurable eb)
    (h0 : ∀ t, 0 ≤ eb t) (h1 : ∀ t, eb t ≤ 1) (S : Set α) (hS : MeasurableSet S) :
    (μ.prod unif01) {p | p.1 ∈ S ∧ p.2 < eb p.1} = ∫⁻ t in S, ENNReal.ofReal (eb t) ∂μ :=
  rejection_accepted_mass' μ eb heb h0 h1 S hS

example : (∀ t : ℝ, (0:ℝ) ≤ Real.exp (-(t ^ 2))) ∧ (∀ t : ℝ, Real.exp (-(t ^ 2)) ≤ 1) :=
  ⟨fun t => (Real.exp_pos _).le, fun t => Real.exp_le_one_iff.mpr (by nlinarith [sq_nonneg t])⟩

/-- **Law of the accepted point of one iteration.**  Proposal density `g` (w.r.t. any reference measure `lam`), acceptance
    function `eb = exp(bound) ∈ [0,1]`, and the rejection identity `g · eb = c · f` (what `mhn_gamma_proposal_identity`,
    `mhn_normal_proposal_identity`, `mhn_neg_gamma_identity` establish for the coded bounds): the accepted points are
    distributed as `c · f · lam` — the target density up to the constant `c`. -/
theorem rejection_accepted_law (lam : Measure α) [SFinite lam] (g f eb : α → ℝ) (c : ℝ) (hc : 0 ≤ c)
    (hg : Measurable g) (heb : Measurable eb) (h0 : ∀ t, 0 ≤ eb t) (h1 : ∀ t, eb t ≤ 1)
    (hg0 : ∀ t, 0 ≤ g t) (hid : ∀ t, g t * eb t = c * f t) :
    (((lam.withDensity fun t => ENNReal.ofReal (g t)).prod unif01).restrict {p | p.2 < eb p.1}).map Prod.fst
      = ENNReal.ofReal c • lam.withDensity fun t => ENNReal.ofReal (f t) :=
  rejection_accepted_law' lam g f eb c hc hg heb h0 h1 hg0 hid

/-- **Law of a proposal conditioned on its acceptance = normalised target.**  With the hypotheses of
    `rejection_accepted_law` and `c > 0`, with `Z = ∫ f dlam` the mass of the target: conditionally on acceptance
    the point has law `f · lam / Z`.  (A `while True` loop over independent iterations returns a draw of this
    conditional law; the independence of successive generator outputs is the trusted property of the generator.) -/
theorem rejection_cond_law (lam : Measure α) [SFinite lam] (g f eb : α → ℝ) (c : ℝ) (hc : 0 < c)
    (hg : Measurable g) (heb : Measurable eb) (h0 : ∀ t, 0 ≤ eb t) (h1 : ∀ t, eb t ≤ 1)
    (hg0 : ∀ t, 0 ≤ g t) (hid : ∀ t, g t * eb t = c * f t) :
    (ProbabilityTheory.cond ((lam.withDensity fun t => ENNReal.ofReal (g t)).prod unif01) {p | p.2 < eb p.1}).map Prod.fst
      = ((lam.withDensity fun t => ENNReal.ofReal (f t)) univ)⁻¹ • lam.withDensity fun t => ENNReal.ofReal (f t) :=
  rejection_cond_law' lam g f eb c hc hg heb h0 h1 hg0 hid

/-- the hypotheses are satisfiable: proposal density `exp(-t²/2)`, bound `-t²/2`, target `exp(-t²)`, `c = 1` -/
example : ∀ t : ℝ, Real.exp (-(t ^ 2) / 2) * Real.exp (-(t ^ 2) / 2) = 1 * Real.exp (-(t ^ 2)) := by
  intro t; rw [← Real.exp_add, one_mul]; congr 1; ring

/-- **Bounds above 0 are capped.**  Without the hypothesis `eb ≤ 1`: the uniform variate lives on `[0, 1)`, so an iteration
    accepts with probability `min(eb, 1)` — accepted points follow `proposal × min(1, exp bound)`, not `proposal × exp bound`.
    This is what happens in `_MHN_sample_normal_proposal`, whose coded bound exceeds 0 near `μ` for `α > 2`, `μ > 1`
    (`mhn_normal_bound_positive_counterexample`; known finding `MHN:_MHN_sample:np:accept-prob>1`). -/
theorem rejection_accepted_mass_capped (μ : Measure α) [SFinite μ] (eb : α → ℝ) (heb : Measurable eb)
    (S : Set α) (hS : MeasurableSet S) :
    (μ.prod unif01) {p | p.1 ∈ S ∧ p.2 < eb p.1} = ∫⁻ t in S, ENNReal.ofReal (min (eb t) 1) ∂μ :=
  rejection_accepted_mass_capped' μ eb heb S hS

example : min (Real.exp 1) 1 = 1 := min_eq_right (Real.one_le_exp zero_le_one)

/-- the coded sqrt-gamma bound in closed form (used for measurability) -/
lemma gpAccept_eval (t α β γ : ℝ) :
    eval (env4 t α β γ) (Mhn.gpAccept (var 1) (var 2) (var 3) (var 0))
      = -(β - mhnDelta α β γ) * t + γ * Real.sqrt t - γ * γ / (4 * (β - mhnDelta α β γ)) := by
  have hd := delta_indep t α β γ
  simp only [Mhn.gpAccept, eval_sub, eval_add, eval_mul, eval_neg, eval_div, eval_var, env4_0, env4_2, env4_3, hd]
  simp only [eval]
  norm_num

/-- **The sqrt-gamma loop as coded draws from the MHN density.**  `_MHN_sample_gamma_proposal`: proposal `X = √T`,
    `T ~ gamma(α/2, scale 1/δ)` (density of `X` proportional to `g(x) = x^(α-1) exp(-δ x²)` on `x > 0`), accepted when
    `X > 0 and log U < bound(X²)` with the bound of the model (`Mhn.gpAccept`, the expression the driver evaluates).
    Conditioned on acceptance, `X` has the law with density `x^(α-1) exp(-β x² + γ x)` on `(0, ∞)`, normalised — the
    density `ModifiedHalfNormal.logpdf` reports — for all real `α, β, γ` with `δ < β` (the case whenever `γ > 0`). -/
theorem mhn_gamma_rejection_law (α β γ : ℝ) (hδ : mhnDelta α β γ < β) :
    let g : ℝ → ℝ := fun x => if 0 < x then x ^ (α - 1) * Real.exp (-(mhnDelta α β γ) * x ^ 2) else 0
    let eb : ℝ → ℝ := fun x =>
      if 0 < x then Real.exp (eval (env4 (x ^ 2) α β γ) (Mhn.gpAccept (var 1) (var 2) (var 3) (var 0))) else 0
    let f : ℝ → ℝ := fun x => if 0 < x then x ^ (α - 1) * Real.exp (-β * x ^ 2 + γ * x) else 0
    (ProbabilityTheory.cond ((volume.withDensity fun x => ENNReal.ofReal (g x)).prod unif01) {p | p.2 < eb p.1}).map Prod.fst
      = ((volume.withDensity fun x => ENNReal.ofReal (f x)) univ)⁻¹ • volume.withDensity fun x => ENNReal.ofReal (f x) := by
  intro g eb f
  have hpos : MeasurableSet {x : ℝ | 0 < x} := measurableSet_lt measurable_const measurable_id
  have hg : Measurable g := by
    apply Measurable.ite hpos _ measurable_const
    fun_prop
  have heb : Measurable eb := by
    apply Measurable.ite hpos _ measurable_const
    simp only [gpAccept_eval]
    fun_prop
  refine rejection_cond_law' volume g f eb (Real.exp (-(γ * γ / (4 * (β - mhnDelta α β γ))))) (Real.exp_pos _) hg heb ?_ ?_ ?_ ?_
  · intro x; simp only [eb]; split_ifs <;> [exact (Real.exp_pos _).le; exact le_rfl]
  · intro x; simp only [eb]; split_ifs with hx
    · exact Real.exp_le_one_iff.mpr (mhn_gamma_bound_nonpos (x ^ 2) α β γ (sq_nonneg x) hδ)
    · exact zero_le_one
  · intro x; simp only [g]; split_ifs with hx
    · exact mul_nonneg (Real.rpow_nonneg hx.le _) (Real.exp_pos _).le
    · exact le_rfl
  · intro x; simp only [g, eb, f]; split_ifs with hx
    · exact mhn_gamma_proposal_identity x α β γ hx
    · simp

/-- the hypothesis `δ < β` holds e.g. for `α = β = γ = 2` (what the getters hand over for `ModifiedHalfNormal(2, ·, ·)`):
    `δ = 2 + (4 - 2·6)/8 = 1` -/
example : mhnDelta 2 2 2 < 2 := by
  have h36 : Real.sqrt 36 = 6 := by
    rw [show (36:ℝ) = 6 ^ 2 by norm_num]; exact Real.sqrt_sq (by norm_num)
  simp only [mhnDelta, Mhn.delta, eval_add, eval_sub, eval_mul, eval_div, eval_var, env4_1, env4_2, env4_3]
  simp only [eval]
  norm_num [h36]

/-- the same inequality on explicit real expressions -/
lemma neg_gamma_bound_real (t m β γ : ℝ) (ht : 0 < t) (hm : 0 < m) (hβ : 0 < β) (hγ : γ ≤ 0) :
    m * (β * m - γ) * t - β * (m * Real.exp ((β * m - γ) / (2 * β * m - γ) * Real.log t)) ^ 2
      + γ * (m * Real.exp ((β * m - γ) / (2 * β * m - γ) * Real.log t)) ≤ 0 := by
  have hbm : 0 < β * m := mul_pos hβ hm
  have hnum : 0 < β * m - γ := by linarith
  have hden : 0 < 2 * β * m - γ := by nlinarith
  set v1 := (β * m - γ) / (2 * β * m - γ) with hv1
  have hv1pos : 0 < v1 := div_pos hnum hden
  set s := Real.exp (v1 * Real.log t) with hs
  have hspos : 0 < s := Real.exp_pos _
  have hst : s ^ (1 / v1) = t := by
    have : s = t ^ v1 := by rw [Real.rpow_def_of_pos ht, mul_comm]
    rw [this, ← Real.rpow_mul ht.le, mul_one_div_cancel hv1pos.ne', Real.rpow_one]
  set w1 := β * m / (β * m - γ) with hw1
  set w2 := -γ / (β * m - γ) with hw2
  have hw1n : 0 ≤ w1 := (div_pos hbm hnum).le
  have hw2n : 0 ≤ w2 := div_nonneg (by linarith) hnum.le
  have hsum : w1 + w2 = 1 := by rw [hw1, hw2]; field_simp; ring
  have hexp : 2 * w1 + w2 = 1 / v1 := by rw [hw1, hw2, hv1]; field_simp; ring
  have key := Real.geom_mean_le_arith_mean2_weighted hw1n hw2n (sq_nonneg s) hspos.le hsum
  have hL : (s ^ 2) ^ w1 * s ^ w2 = t := by
    rw [← Real.rpow_natCast s 2, ← Real.rpow_mul hspos.le, ← Real.rpow_add hspos]
    push_cast
    rw [hexp, hst]
  rw [hL] at key
  have h2 : m * (β * m - γ) * t ≤ m * (β * m - γ) * (w1 * s ^ 2 + w2 * s) :=
    mul_le_mul_of_nonneg_left key (mul_pos hm hnum).le
  have h3 : m * (β * m - γ) * (w1 * s ^ 2 + w2 * s) = β * (m * s) ^ 2 - γ * (m * s) := by
    have e1 : (β * m - γ) * w1 = β * m := by rw [hw1]; field_simp
    have e2 : (β * m - γ) * w2 = -γ := by rw [hw2]; field_simp
    linear_combination (m * s ^ 2) * e1 + (m * s) * e2
  linarith

/-- **The bound of the negative-γ loop is a log-probability.**  `_MHN_sample_negative_gamma` (Algorithm 3): for every
    matching point `m > 0`, `β > 0`, `γ ≤ 0` and every proposal draw `T > 0` the coded bound `val2·T − β X² + γ X`,
    `X = m·T^{val1}`, is `≤ 0` (weighted AM–GM: `val2·T = (βm² − γm)·s^{(2βm−γ)/(βm−γ)} ≤ βm²s² − γms`, `s = T^{val1}`), with
    equality at `T = 1`.  Hence `exp(bound) ≤ 1` and `rejection_accepted_law` applies to this loop with the identity
    `mhn_neg_gamma_identity`: no capping, unlike the normal proposal. -/
theorem mhn_neg_gamma_bound_nonpos (t m β γ : ℝ) (ht : 0 < t) (hm : 0 < m) (hβ : 0 < β) (hγ : γ ≤ 0) :
    eval (env4 t m β γ) (Mhn.ngAccept (var 2) (var 3) (var 1) (var 0)) ≤ 0 := by
  have h := neg_gamma_bound_real t m β γ ht hm hβ hγ
  simp only [Mhn.ngAccept, Mhn.ngVal2, Mhn.ngX, Mhn.ngVal1, Mhn.rpow, eval_sub, eval_add, eval_mul, eval_var,
    env4_0, env4_1, env4_2, env4_3]
  simp only [eval]
  norm_num
  nlinarith [h]

example := mhn_neg_gamma_bound_nonpos 2 1 1 (-1) (by norm_num) (by norm_num) (by norm_num) (by norm_num)

/-- **Finitely many iterations.**  If iteration `k + 1` is reached only after a rejection (probability `1 - p`,
    `p = acc univ` the acceptance probability of one iteration) and then behaves like a fresh loop — the recursion
    `L (n+1) = acc + (1 - p) • L n` of a loop over independent iterations — then after at most `n` iterations the
    returned point has the sub-probability law `(Σ_{k<n} (1-p)^k) • acc`: always a multiple of the one-iteration law
    `acc`, hence proportional to the target for every `n`. -/
theorem rejection_loop_law_of_iid_recursion (acc : Measure α) (q : ℝ≥0∞) (L : ℕ → Measure α)
    (hL0 : L 0 = 0) (hL : ∀ n, L (n + 1) = acc + q • L n) (n : ℕ) :
    L n = (∑ k ∈ Finset.range n, q ^ k) • acc :=
  rejection_loop_law' acc q L hL0 hL n

example : ∃ L : ℕ → Measure ℝ, L 0 = 0 ∧ ∀ n, L (n + 1) = (Measure.dirac 0) + (1 / 2 : ℝ≥0∞) • L n :=
  ⟨fun n => Nat.rec 0 (fun _ Ln => Measure.dirac 0 + (1 / 2 : ℝ≥0∞) • Ln) n, rfl, fun _ => rfl⟩

end CuqiVerif.C05
