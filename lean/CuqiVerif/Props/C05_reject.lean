import CuqiVerif.Proofs.C05_reject
/-
  C05 — from the pointwise rejection identities of the ModifiedHalfNormal loops to the LAW of an accepted draw
  (item "the step from the MHN rejection identities to the law of the accepted draw" of the remaining-gap list).

  One loop iteration draws a proposal `X ~ μ = g·λ` and, independently, `U = rng.uniform()` (Lebesgue measure on
  `[0, 1)`), and accepts when `log U < bound(X)`, i.e. `U < exp(bound X) =: eb X`.  The theorems below are equalities of
  measures on the product space `proposal × uniform`; they hold for every measurable space of proposals.
-/
open MeasureTheory ENNReal Set

namespace CuqiVerif.C05

variable {α : Type*} [MeasurableSpace α]

/-- **Mass of an accepted iteration.**  `P(X ∈ S and U < eb(X)) = ∫_S eb dμ` for every acceptance function with values in
    `[0, 1]`: the uniform variate turns the bound into an acceptance probability. -/
theorem rejection_accepted_mass (μ : Measure α) [SFinite μ] (eb : α → ℝ) (heb : Measurable eb)
    (h0 : ∀ t, 0 ≤ eb t) (h1 : ∀ t, eb t ≤ 1) (S : Set α) (hS : MeasurableSet S) :
    (μ.prod unif01) {p | p.1 ∈ S ∧ p.2 < eb p.1} = ∫⁻ t in S, ENNReal.ofReal (eb t) ∂μ :=
  rejection_accepted_mass' μ eb heb h0 h1 S hS

example : (∀ t : ℝ, (0:ℝ) ≤ Real.exp (-(t ^ 2))) ∧ (∀ t : ℝ, Real.exp (-(t ^ 2)) ≤ 1) :=
  ⟨fun t => (Real.exp_pos _).le, fun t => Real.exp_le_one_iff.mpr (by nlinarith [sq_nonneg t])⟩

/-- **Law of the accepted point of one iteration.**  Proposal density `g` (w.r.t. any reference measure `lam`), acceptance
    function `eb = exp(bound) ∈ [0,1]`, and the rejection identity `g · eb = c · f` (what `mhn_gamma_proposal_identity`,
    `mhn_normal_proposal_identity`, `mhn_neg_gamma_identity` establish for the coded bounds): the accepted points are
    distributed as `c · f · lam` — the target density up to the constant `c`. -/
theorem rejection_accepted_law (lam : Measure α) [SFinite lam] (g f eb : α → ℝ) (c : ℝ) (hc : 0 ≤ c)
    (hg : Measurable g) (heb : Measurable eb) (h0 : ∀ t, 0 ≤ eb t) (h1 : ∀ t, eb t ≤ 1)
    (hg0 : ∀ t, 0 ≤ g t) (hid : ∀ t, g t * eb t = c * f t) :
    (((lam.withDensity fun t => ENNReal.ofReal (g t)).prod unif01).restrict {p | p.2 < eb p.1}).map Prod.fst
      = ENNReal.ofReal c • lam.withDensity fun t => ENNReal.ofReal (f t) :=
  rejection_accepted_law' lam g f eb c hc hg heb h0 h1 hg0 hid

/-- **Law of a proposal conditioned on its acceptance = normalised target.**  With the hypotheses of
    `rejection_accepted_law` and `c > 0`, with `Z = ∫ f dlam` the mass of the target: conditionally on acceptance
    the point has law `f · lam / Z`.  (A `while True` loop over independent iterations returns a draw of this
    conditional law; the independence of successive generator outputs is the trusted property of the generator.) -/
theorem rejection_cond_law (lam : Measure α) [SFinite lam] (g f eb : α → ℝ) (c : ℝ) (hc : 0 < c)
    (hg : Measurable g) (heb : Measurable eb) (h0 : ∀ t, 0 ≤ eb t) (h1 : ∀ t, eb t ≤ 1)
    (hg0 : ∀ t, 0 ≤ g t) (hid : ∀ t, g t * eb t = c * f t) :
    (ProbabilityTheory.cond ((lam.withDensity fun t => ENNReal.ofReal (g t)).prod unif01) {p | p.2 < eb p.1}).map Prod.fst
      = ((lam.withDensity fun t => ENNReal.ofReal (f t)) univ)⁻¹ • lam.withDensity fun t => ENNReal.ofReal (f t) :=
  rejection_cond_law' lam g f eb c hc hg heb h0 h1 hg0 hid

/-- the hypotheses are satisfiable: proposal density `exp(-t²/2)`, bound `-t²/2`, target `exp(-t²)`, `c = 1` -/
example : ∀ t : ℝ, Real.exp (-(t ^ 2) / 2) * Real.exp (-(t ^ 2) / 2) = 1 * Real.exp (-(t ^ 2)) := by
  intro t; rw [← Real.exp_add, one_mul]; congr 1; ring

/-- **Finitely many iterations.**  If iteration `k + 1` is reached only after a rejection (probability `1 - p`,
    `p = acc univ` the acceptance probability of one iteration) and then behaves like a fresh loop — the recursion
    `L (n+1) = acc + (1 - p) • L n` of a loop over independent iterations — then after at most `n` iterations the
    returned point has the sub-probability law `(Σ_{k<n} (1-p)^k) • acc`: always a multiple of the one-iteration law
    `acc`, hence proportional to the target for every `n`. -/
theorem rejection_loop_law_of_iid_recursion (acc : Measure α) (q : ℝ≥0∞) (L : ℕ → Measure α)
    (hL0 : L 0 = 0) (hL : ∀ n, L (n + 1) = acc + q • L n) (n : ℕ) :
    L n = (∑ k ∈ Finset.range n, q ^ k) • acc :=
  rejection_loop_law' acc q L hL0 hL n

example : ∃ L : ℕ → Measure ℝ, L 0 = 0 ∧ ∀ n, L (n + 1) = (Measure.dirac 0) + (1 / 2 : ℝ≥0∞) • L n :=
  ⟨fun n => Nat.rec 0 (fun _ Ln => Measure.dirac 0 + (1 / 2 : ℝ≥0∞) • Ln) n, rfl, fun _ => rfl⟩

end CuqiVerif.C05
