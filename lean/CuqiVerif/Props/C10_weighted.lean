import CuqiVerif.Model.C10_weighted
import CuqiVerif.Props.C10_law
import CuqiVerif.Proofs.C10_weighted
import Mathlib.Probability.Distributions.Gaussian.Real

/-!
# C10 — vector / matrix valued `cov` / `prec` callables (session-3 extension)

Theorems about the executable definitions of `Model/C10_weighted.lean` (driver op `gaussw`):
the unit precision the samplers obtain from `Gaussian.sqrtprec` at hyper-parameter 1 through the
vector / diagonal / full branches of `get_sqrtprec_from_prec` / `get_sqrtprec_from_cov`.

1. exactness of the Gamma drawn from for diagonal and full unit precisions (model level and law level);
2. the branches agree where they overlap (scalar ⊂ vector ⊂ diagonal matrix ⊂ full matrix), `potrf`'s lower
   triangle, any square-root factor gives the model's quadratic form;
3. the experimental validator on vector valued callables: exact characterisation of what passes the
   identity probes (`np.allclose` is entry-wise), `math.isclose` refuses every non-scalar covariance;
4. the heteroscedastic Gaussian likelihood as a function of the hyper-parameter (Mathlib's `gaussianPDFReal`).
-/

open ProbabilityTheory Real Finset

namespace CuqiVerif.C10
open CuqiVerif.C20 (BC FMat)

/-! ## 1. Exactness -/

/-- **The sampler and the density share the factor:** for every branch of `get_sqrtprec_from_*` the
    quadratic form in the Gamma's rate (`‖L(Ax-b)‖²`) is the one in `Gaussian._logupdf`. -/
theorem gaussQuadU_used_eq_target (n : ℕ) (U : UnitPrec) (ax b : List ℚ) :
    (gaussQuadU n U ax b).used = (gaussQuadU n U ax b).target := by
  cases U <;> rfl

example : (gaussQuadU 2 (.diag [1, 2]) [0, 0] [1, 3]).used = 19 := by decide +kernel

/-- **Vector (or diagonal-matrix) valued precision / covariance, every dimension, every positive or
    non-positive weight vector, every forward-model output, data of length `n`, every prior: the Gamma
    drawn from is proportional to the posterior** (`m = n = rank`, same quadratic form).  In particular the
    per-entry tolerance of the identity probe (`identityCheck_weights_iff` below) is harmless: the weights
    enter the rate through `L` at `s = 1`. -/
theorem gaussDiag_exact (n : ℕ) (w ax b : List ℚ) (α β : ℚ) (hb : b.length = n) :
    (outcome false (gaussQuadU n (.diag w) ax b) b α β).exact = true := by
  rw [outcome_exact_iff]
  exact ⟨by simp [mOf, gaussQuadU, hb], rfl⟩

example : (outcome false (gaussQuadU 3 (.diag [1, 2, 1 / 2]) [0, 1, 2] [1, 1, 5]) [1, 1, 5] 2 3).exact = true :=
  gaussDiag_exact 3 _ _ _ 2 3 rfl

/-- **Full-matrix precision / covariance: exact iff the rank the Gaussian reports (`matrix_rank`) is the
    dimension** — both directions, every matrix, data, prior.  (A positive definite matrix has full rank;
    the dense branch refuses anything else with `LinAlgError`, `unitPrecOf`.) -/
theorem gaussFull_exact_iff (n : ℕ) (P : QMat.Mat) (r : ℕ) (ax b : List ℚ) (α β : ℚ) (hb : b.length = n) :
    (outcome false (gaussQuadU n (.full P r) ax b) b α β).exact = true ↔ r = n := by
  rw [outcome_exact_iff]
  simp only [mOf, gaussQuadU, Bool.false_eq_true, if_false, hb, and_true]
  exact eq_comm

example : (outcome false (gaussQuadU 2 (.full [[2, 1], [1, 2]] 2) [0, 0] [1, 3]) [1, 3] 2 3).exact = true :=
  (gaussFull_exact_iff 2 _ 2 _ _ 2 3 rfl).2 rfl

/-- law level, diagonal: the measure the sampler draws from IS the exact conditional
    `∝ K s^{n/2} e^{-s Σ wᵢ(Ax-b)ᵢ²/2} · gammaPDF α β s` (non-negative weights), namely
    `Gamma(n/2 + α, Σ wᵢ(Ax-b)ᵢ²/2 + β)`. -/
theorem gaussDiag_conj_posterior_is_gamma (n : ℕ) (w ax b : List ℚ) (α β : ℚ) (K : ℝ)
    (hK : 0 < K) (hα : 0 < α) (hβ : 0 < β) (hw : ∀ i, 0 ≤ vecFn w i) (hb : b.length = n) :
    hyperPosterior K (n : ℝ) ((quadDiag n (vecFn w) (dev ax b) : ℚ) : ℝ) (α : ℝ) (β : ℝ)
      = gammaMeasure ((outcome false (gaussQuadU n (.diag w) ax b) b α β).gamma.shape : ℝ)
          ((outcome false (gaussQuadU n (.diag w) ax b) b α β).gamma.rate : ℝ) ∧
    ((outcome false (gaussQuadU n (.diag w) ax b) b α β).gamma.shape : ℝ) = (n : ℝ) / 2 + (α : ℝ) ∧
    ((outcome false (gaussQuadU n (.diag w) ax b) b α β).gamma.rate : ℝ)
      = ((quadDiag n (vecFn w) (dev ax b) : ℚ) : ℝ) / 2 + (β : ℝ) := by
  refine ⟨?_, by simp [outcome, conjGamma, mOf, hb], by simp [outcome, conjGamma, gaussQuadU]⟩
  exact conj_posterior_is_gamma false (gaussQuadU n (.diag w) ax b) b α β K hK hα hβ
    (quadDiag_nonneg n _ _ hw) (gaussDiag_exact n w ax b α β hb)

example := gaussDiag_conj_posterior_is_gamma 3 [1, 2, 1 / 2] [0, 1, 2] [1, 1, 5] 2 3 1 one_pos (by norm_num)
  (by norm_num) (fun i => by
    unfold vecFn
    rcases i with _ | _ | _ | i <;> simp) rfl

/-! ## 2. The branches agree where they overlap; any factor gives the model's form -/

/-- branch 2 on a constant vector = branch 1 (`s·ones(n)` is sampled like `s`) -/
theorem quadDiag_const (n : ℕ) (c : ℚ) (v : ℕ → ℚ) : quadDiag n (fun _ => c) v = c * normSq n v := by
  rw [quadDiag_eq, normSq_eq, Finset.mul_sum]

example : quadDiag 2 (fun _ => 3) (fun i => (i : ℚ) + 1) = 3 * normSq 2 (fun i => (i : ℚ) + 1) :=
  quadDiag_const 2 3 _

/-- branch 4 on a diagonal matrix = branch 2/3 (the full-matrix quadratic form of `diag(w)` is `Σ wᵢvᵢ²`) -/
theorem quadForm_diagonal (n : ℕ) (w : ℕ → ℚ) (v : ℕ → ℚ) :
    quadForm n (fun i j => if i = j then w i else 0) v = quadDiag n w v := by
  rw [quadForm_eq, quadDiag_eq]
  refine Finset.sum_congr rfl fun i hi => ?_
  simp only [ite_mul, zero_mul]
  rw [Finset.sum_ite_eq, if_pos hi]
  ring

example : quadForm 2 (fun i j => if i = j then ((i : ℚ) + 2) else 0) (fun i => (i : ℚ) + 1)
    = quadDiag 2 (fun i => (i : ℚ) + 2) (fun i => (i : ℚ) + 1) := quadForm_diagonal 2 _ _

/-- more generally: if all off-diagonal entries (inside `n × n`) vanish — the test of branch 3,
    `isDiagonal` — the full form is the diagonal form -/
theorem quadForm_of_isDiagonal (n : ℕ) (P : ℕ → ℕ → ℚ) (v : ℕ → ℚ) (h : isDiagonal n P = true) :
    quadForm n P v = quadDiag n (fun i => P i i) v := by
  rw [← quadForm_diagonal, quadForm_eq, quadForm_eq]
  refine Finset.sum_congr rfl fun i hi => ?_
  congr 1
  refine Finset.sum_congr rfl fun j hj => ?_
  have hij := isDiagonal_entry n P h i j (Finset.mem_range.1 hi) (Finset.mem_range.1 hj)
  by_cases e : i = j
  · subst e; simp
  · simp [e, hij e]

example : quadForm 2 (fun i j => if i = j then 5 else 0) (fun _ => 1)
    = quadDiag 2 (fun _ => 5) (fun _ => 1) :=
  quadForm_of_isDiagonal 2 _ _ (by decide +kernel)

/-- **`‖L v‖² = quadForm P v` for any factor `L` (any number of rows) with `LᵀL = P`**: whatever
    `cholesky(P).T` returns, the sampler's rate is the model's rational quadratic form
    (instance of `sqrt_factor_quadratic`). -/
theorem quadForm_eq_factor_norm (m n : ℕ) (L P : ℕ → ℕ → ℚ) (v : ℕ → ℚ)
    (hP : ∀ i j, i < n → j < n → P i j = ∑ k ∈ range m, L k i * L k j) :
    ∑ k ∈ range m, (∑ j ∈ range n, L k j * v j) ^ 2 = quadForm n P v := by
  rw [quadForm_eq]; exact sqrt_factor_quadratic m n L P v hP

example : ∑ k ∈ range 1, (∑ j ∈ range 2, (fun _ j => ((j : ℚ) + 1)) k j * (fun j => (j : ℚ) + 3) j) ^ 2
    = quadForm 2 (fun i j => ((i : ℚ) + 1) * ((j : ℚ) + 1)) (fun j => (j : ℚ) + 3) :=
  quadForm_eq_factor_norm 1 2 _ _ _ (fun i j _ _ => by simp)

/-- `potrf` reads the lower triangle: what it factorises is symmetric, and is the matrix itself when that is
    symmetric — so for an exactly symmetric precision the `allclose` slack plays no role. -/
theorem lowerSym_symm (P : ℕ → ℕ → ℚ) (i j : ℕ) : lowerSym P i j = lowerSym P j i := by
  unfold lowerSym
  by_cases h1 : j ≤ i <;> by_cases h2 : i ≤ j
  · have : i = j := le_antisymm h2 h1
    subst this; simp
  · simp [h1, h2]
  · simp [h1, h2]
  · omega

theorem lowerSym_of_symm (P : ℕ → ℕ → ℚ) (h : ∀ i j, P i j = P j i) : lowerSym P = P := by
  funext i j
  unfold lowerSym
  split_ifs
  · rfl
  · exact h j i

example : lowerSym (fun i j => ((i * j : ℕ) : ℚ)) = fun i j => ((i * j : ℕ) : ℚ) :=
  lowerSym_of_symm _ (fun i j => by rw [Nat.mul_comm])

/-- the quadratic form only sees the symmetric part: `vᵀ lowerSym(P) v` replaces every upper entry by its
    mirror image, and differs from `vᵀPv` by `Σ_{i<j} (P j i − P i j) vᵢvⱼ` — zero when `P` is symmetric. -/
theorem quadForm_lowerSym_of_symm (n : ℕ) (P : ℕ → ℕ → ℚ) (v : ℕ → ℚ) (h : ∀ i j, P i j = P j i) :
    quadForm n (lowerSym P) v = quadForm n P v := by rw [lowerSym_of_symm P h]

/-! ## 3. The experimental validator on vector / matrix valued callables -/

/-- `np.allclose` is entry-wise: the identity probe passes iff **every** entry of the callable's value at
    1, 10, 100 is within the tolerance of the probe point. -/
theorem identityCheck_vector_iff (p1 p10 p100 : List ℚ) :
    identityCheck [p1, p10, p100] = true ↔
      (∀ v ∈ p1, allcloseTol v 1 = true) ∧ (∀ v ∈ p10, allcloseTol v 10 = true) ∧
      (∀ v ∈ p100, allcloseTol v 100 = true) := by
  simp [identityCheck, probePoints, List.all_eq_true]

example : identityCheck [[1, 1], [10, 10], [100, 100]] = true :=
  (identityCheck_vector_iff _ _ _).2 ⟨by decide +kernel, by decide +kernel, by decide +kernel⟩

/-- **Exact characterisation for `prec = lambda s: s * w` (fixed weight vector / flattened matrix `w`):**
    accepted by the identity probes iff every weight satisfies `|wᵢ − 1| ≤ 10⁻⁵ + 10⁻¹⁰` (the probe at 100 binds).
    Hence `s·ones(n)` passes, `s·[1, 2, 3]`, `s·I` (off-diagonal zeros) and `s·P` are rejected, and the
    all-ones matrix passes (it is then refused by `cholesky`, `unitPrecOf … = .error .notPD`). -/
theorem identityCheck_weights_iff (w : List ℚ) :
    identityCheck [w.map (fun c => 1 * c), w.map (fun c => 10 * c), w.map (fun c => 100 * c)] = true ↔
      ∀ c ∈ w, |c - 1| ≤ 1 / 100000 + 1 / 10000000000 := by
  rw [identityCheck_vector_iff]
  simp only [List.mem_map, forall_exists_index, and_imp, forall_apply_eq_imp_iff₂, allcloseTol_iff]
  constructor
  · rintro ⟨-, -, h⟩ c hc
    have := h c hc
    have e : 100 * c - 100 = (c - 1) * 100 := by ring
    rw [e, abs_mul] at this
    have a100 : |(100 : ℚ)| = 100 := by norm_num
    rw [a100] at this
    linarith
  · intro h
    have a1 : |(1 : ℚ)| = 1 := abs_one
    have a10 : |(10 : ℚ)| = 10 := by norm_num
    have a100 : |(100 : ℚ)| = 100 := by norm_num
    refine ⟨fun c hc => ?_, fun c hc => ?_, fun c hc => ?_⟩
    · have e : 1 * c - 1 = (c - 1) * 1 := by ring
      rw [e, abs_mul, a1]; have := h c hc; linarith
    · have e : 10 * c - 10 = (c - 1) * 10 := by ring
      rw [e, abs_mul, a10]; have := h c hc; linarith
    · have e : 100 * c - 100 = (c - 1) * 100 := by ring
      rw [e, abs_mul, a100]; have := h c hc; linarith

example : identityCheck [[1, 1 + 1 / 1000000].map (fun c => 1 * c), [1, 1 + 1 / 1000000].map (fun c => 10 * c),
    [1, 1 + 1 / 1000000].map (fun c => 100 * c)] = true :=
  (identityCheck_weights_iff _).2 (fun c hc => by
    simp only [List.mem_cons, List.not_mem_nil, or_false] at hc
    rcases hc with rfl | rfl <;> norm_num [abs_of_nonneg])

/-- rejected: one weight off by more than the band (e.g. `s·[1, 2, 3]`, or the zeros of `s·I`) -/
theorem identityCheck_weights_rejects (w : List ℚ) (c : ℚ) (hc : c ∈ w)
    (hbad : 1 / 100000 + 1 / 10000000000 < |c - 1|) :
    identityCheck [w.map (fun c => 1 * c), w.map (fun c => 10 * c), w.map (fun c => 100 * c)] = false := by
  rw [Bool.eq_false_iff, Ne, identityCheck_weights_iff]
  intro h
  exact absurd (h c hc) (not_le.2 hbad)

example : identityCheck [[1, 0, 0, 1].map (fun c => 1 * c), [1, 0, 0, 1].map (fun c => 10 * c),
    [1, 0, 0, 1].map (fun c => 100 * c)] = false :=
  identityCheck_weights_rejects _ 0 (by simp) (by norm_num)

/-- **`math.isclose` refuses every non-scalar covariance:** if the callable's value at the first probe has
    more (or fewer) than one entry, the reciprocal check ends in `TypeError` (`probeType`) whatever the values —
    no vector / matrix valued `cov` (or LMRF `scale`) is ever accepted by the experimental validators. -/
theorem reciprocalCheck_nonscalar (p1 : List ℚ) (rest : List (List ℚ)) (h : p1.length ≠ 1) :
    reciprocalCheck (probePoints.zip (p1 :: rest)) = .probeType := by
  unfold probePoints
  rw [List.zip_cons_cons]
  match p1, h with
  | [], _ => rfl
  | _ :: _ :: _, _ => rfl

example : reciprocalCheck (probePoints.zip [[1, 1], [1 / 10, 1 / 10], [1 / 100, 1 / 100]]) = .probeType :=
  reciprocalCheck_nonscalar _ _ (by decide)

/-- consequently (through `checkParameter`): a `cov` variable whose first probe is not a single number is
    never `.ok` -/
theorem checkParameter_cov_nonscalar (k : String) (c h : Bool) (p1 : List ℚ) (rest : List (List ℚ))
    (hk : k ≠ "prec") (hl : p1.length ≠ 1) (okKeys : List String) :
    checkParameter [⟨k, c, h, p1 :: rest⟩] okKeys ≠ .ok := by
  unfold checkParameter
  by_cases hch : (c && h) = true
  · simp only [List.filter_cons, hch, if_true, List.filter_nil]
    simp only [hk, false_and, if_false]
    split_ifs
    · rw [reciprocalCheck_nonscalar p1 rest hl]; simp
    · simp
  · simp [hch]

example : checkParameter [⟨"cov", true, true, [[1, 1], [1 / 10, 1 / 10], [1 / 100, 1 / 100]]⟩] ["cov", "prec"] ≠ .ok :=
  checkParameter_cov_nonscalar _ _ _ _ _ (by decide) (by decide) _

/-! ## 4. The heteroscedastic Gaussian likelihood along the hyper-parameter -/

/-- **Independent Gaussian components with precisions `s·wᵢ` (vector valued `prec = s·w`, or
    `cov = w⁻¹/s`): the likelihood as a function of `s`** — the product of Mathlib's `gaussianPDFReal`
    densities with variances `1/(wᵢ s)` — is `K · s^{n/2} · e^{-s Σ wᵢ(xᵢ-μᵢ)²/2}` with
    `K = Π √(wᵢ/(2π))` independent of `s`: the form `hyperPostPDFReal` assumes, with `r = n` and
    `q = Σ wᵢ(xᵢ-μᵢ)²` = the model's `quadDiag`.  (Closes, for diagonal precisions, the gap "the Gaussian
    log-density along the hyper-parameter is only validated".) -/
theorem gaussDiag_likelihood_in_hyperparameter (n : ℕ) (w μ x : ℕ → ℝ) (s : ℝ)
    (hw : ∀ i, 0 < w i) (hs : 0 < s) :
    ∏ i ∈ range n, gaussianPDFReal (μ i) (Real.toNNReal (1 / (w i * s))) (x i)
      = (∏ i ∈ range n, √(w i / (2 * π))) *
          (s ^ ((n : ℝ) / 2) * Real.exp (-(s * ∑ i ∈ range n, w i * (x i - μ i) ^ 2) / 2)) :=
  gaussDiag_likelihood_aux n w μ x s hw hs

example : ∏ i ∈ range 2, gaussianPDFReal 0 (Real.toNNReal (1 / ((fun i => (i : ℝ) + 1) i * 3))) 1
    = (∏ i ∈ range 2, √((fun i => (i : ℝ) + 1) i / (2 * π))) *
        ((3 : ℝ) ^ (((2 : ℕ) : ℝ) / 2) * Real.exp (-(3 * ∑ i ∈ range 2, (fun i => (i : ℝ) + 1) i * (1 - 0) ^ 2) / 2)) :=
  gaussDiag_likelihood_in_hyperparameter 2 _ (fun _ => 0) (fun _ => 1) 3 (fun i => by positivity) (by norm_num)

end CuqiVerif.C10
