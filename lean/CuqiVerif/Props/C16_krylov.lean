import CuqiVerif.Props.C16
import CuqiVerif.Proofs.C16_krylov
import Mathlib.LinearAlgebra.Dimension.Constructions
import Mathlib.LinearAlgebra.Prod

/-!
# C16 — Krylov theorems for CGLS (`cgls_finite_termination` and what it rests on)

All theorems are about the definitions of `Model/C16.lean` that the driver executes: `cglsInit`,
`cglsStep`, `cgls` (the `while` loop with its flag).  `cglsIter … γ₀ x0 k` abbreviates
`cglsStep^[k] (cglsInit x0)` — the state after `k` passes of the loop body when the flag is not
looked at; `cgls_returns_an_iterate` says that what `cgls` returns is `cglsIter … st.k`.

The model is generic: `K` is any linearly ordered field ("exact arithmetic"; `ℚ` — the driver's
instance — and `ℝ` included); `V`, `W` are arbitrary `K`-modules whose operations are handed to the
model as records `oV`, `oW`.  The setting `CGLSSetting oV oW A At shift` asks that

* the records are the module operations (`VOps.Lawful`),
* `oV.dot`, `oW.dot` are symmetric bilinear forms with non-negative squares (`IsIP`), `oV.dot` definite,
* `At` is the adjoint of `A`: `⟨A v, w⟩ = ⟨v, At w⟩`,
* `AᵀA + shift·I` is positive definite: `‖A v‖² + shift·‖v‖² > 0` for `v ≠ 0`
  (`shift > 0`, or `shift = 0` and `A` injective, are the two usual cases: `cglsSetting_of_shift_pos`).

The proofs go through the generic recurrence `CGRec` of `Proofs/C16_krylov.lean` (an abstract
module `E`, a symmetric bilinear form `ip`, an `ip`-symmetric positive operator `B`), of which the
model's iterates are the instance `E = V`, `ip = oV.dot`, `B = AᵀA + shift·I` (`cglsIter_rec`).
The executable array version (`vecOps n` on `Vector K n`, `mulVec M`/`mulVecT M`) is the instance
`V = Vector K n`, `W = Vector K m` treated in the last section.
-/

set_option linter.unusedSectionVars false
set_option linter.unusedVariables false

namespace CuqiVerif.C16

variable {K : Type} [Field K] [LinearOrder K] [IsStrictOrderedRing K]

section Krylov
variable {V W : Type} [AddCommGroup V] [Module K V] [AddCommGroup W] [Module K W]
variable {oV : VOps K V} {oW : VOps K W} {A : V →ₗ[K] W} {At : W →ₗ[K] V} {shift : K}
variable (b : W) (tol eps : K)

/-- **What the loop returns is an un-flagged iterate** (any callables, no hypotheses): the state
    returned by `cgls` is `cglsStep^[k] (cglsInit x0)` for its own counter `k ≤ maxit`; it stopped
    before `maxit` only with the flag set, and no earlier iterate had the flag set.  So statements
    about `cglsIter` are statements about every point `CGLS.solve` can return. -/
theorem cgls_returns_an_iterate (fwd : V → W) (adj : W → V) (shift : K) (x0 : V) (maxit : ℕ)
    (st : CGState K V W) (hst : st = cgls oV oW fwd adj b shift tol eps x0 maxit) :
    st.k ≤ maxit ∧
      st = cglsIter oV oW fwd adj b shift tol eps (cglsInit oV oW fwd adj b shift x0).gamma x0 st.k ∧
      (st.k < maxit → st.flag = true) ∧
      (∀ i, i < st.k →
        (cglsIter oV oW fwd adj b shift tol eps (cglsInit oV oW fwd adj b shift x0).gamma x0 i).flag = false) := by
  subst hst
  exact cgls_eq_cglsIter oV oW fwd adj b shift tol eps x0 maxit

/-- **Residuals of the shifted normal equations are mutually orthogonal.**  For the CGLS iterates
    `x_i` (any start vector, any `eps`), the recurred `s_i` is the true residual
    `Aᵀ(b − A x_i) − shift·x_i`, and `⟨s_i, s_j⟩ = 0` for `i ≠ j`. -/
theorem cgls_residuals_orthogonal (H : CGLSSetting oV oW A At shift) (gamma0 : K) (x0 : V)
    (i j : ℕ) (hij : i ≠ j) :
    let st := cglsIter oV oW A At b shift tol eps gamma0 x0
    (st i).s = At (b - A (st i).x) - shift • (st i).x ∧
      (st j).s = At (b - A (st j).x) - shift • (st j).x ∧
      oV.dot (st i).s (st j).s = 0 := by
  intro st
  exact ⟨(cglsIter_resid b tol eps H gamma0 x0 i).1, (cglsIter_resid b tol eps H gamma0 x0 j).1,
    (cglsIter_rec b tol eps H gamma0 x0).resid_ortho H.spd i j hij⟩

/-- **Search directions are conjugate w.r.t. `AᵀA + shift·I`:** `⟨A p_i, A p_j⟩ + shift·⟨p_i, p_j⟩ = 0`
    for `i ≠ j`; moreover each residual is orthogonal to all earlier directions and
    `⟨p_j, s_j⟩ = ‖s_j‖²`. -/
theorem cgls_directions_conjugate (H : CGLSSetting oV oW A At shift) (gamma0 : K) (x0 : V)
    (i j : ℕ) :
    let st := cglsIter oV oW A At b shift tol eps gamma0 x0
    (i ≠ j → oW.dot (A (st i).p) (A (st j).p) + shift * oV.dot (st i).p (st j).p = 0) ∧
      (i < j → oV.dot (st i).p (st j).s = 0) ∧
      oV.dot (st j).p (st j).s = oV.dot (st j).s (st j).s := by
  intro st
  have hR := cglsIter_rec b tol eps H gamma0 x0
  refine ⟨fun hij => ?_, fun hij => hR.dir_resid H.spd i j hij, hR.dir_resid_self H.spd j⟩
  rw [← H.energy]
  exact hR.dir_conj H.spd i j hij

/-- **Finite termination of the recurrence:** on an `n`-dimensional space (`n = finrank K V`) the
    residual of iterate `k` vanishes for every `k ≥ n`: `x_k` solves `(AᵀA + shift·I) x = Aᵀ b`
    exactly, and the iteration stays at `x_n` from then on. -/
theorem cgls_residual_vanishes [Module.Finite K V] (H : CGLSSetting oV oW A At shift) (gamma0 : K)
    (x0 : V) (k : ℕ) (hk : Module.finrank K V ≤ k) :
    let st := cglsIter oV oW A At b shift tol eps gamma0 x0
    (st k).s = 0 ∧ (st k).gamma = 0 ∧ At (A (st k).x) + shift • (st k).x = At b ∧
      (st k).x = (st (Module.finrank K V)).x := by
  intro st
  have hR := cglsIter_rec b tol eps H gamma0 x0
  have hs : ∀ m, Module.finrank K V ≤ m → (st m).s = 0 := fun m hm => hR.resid_zero H.spd m hm
  obtain ⟨_, h2, h3⟩ := cglsIter_resid b tol eps H gamma0 x0 k
  refine ⟨hs k hk, ?_, ?_, ?_⟩
  · rw [h3]; show oV.dot (st k).s (st k).s = 0; rw [hs k hk, H.ipV.zero_left]
  · have := hs k hk
    rw [show (st k).s = At b - normalOp A At shift (st k).x from h2, normalOp_apply, sub_eq_zero] at this
    exact this.symm
  · obtain ⟨j, rfl⟩ := Nat.exists_eq_add_of_le hk
    have h0 : oV.dot (st (Module.finrank K V)).s (st (Module.finrank K V)).s = 0 := by
      rw [hs _ le_rfl, H.ipV.zero_left]
    exact (hR.dead_forever H.spd _ h0 j).2.2

/-- the solution of the shifted normal equations is unique -/
lemma normal_eq_unique (H : CGLSSetting oV oW A At shift) (c x y : V)
    (hx : At (A x) + shift • x = c) (hy : At (A y) + shift • y = c) : y = x := by
  by_contra hne
  have h0 : normalOp A At shift (y - x) = 0 := by
    rw [map_sub, normalOp_apply, normalOp_apply, hx, hy, sub_self]
  have := H.spd.pos (y - x) (sub_ne_zero.2 hne)
  rw [h0, H.ipV.zero_right] at this
  exact lt_irrefl _ this

/-- **`cgls_finite_termination` (the loop):** with `tol ≥ 0` and `maxit ≥ max n 1`
    (`n = finrank K V`), `CGLS.solve` always leaves its loop through the convergence flag, after at
    most `max n 1` passes — the iteration limit is never what stops it. -/
theorem cgls_finite_termination [Module.Finite K V] (H : CGLSSetting oV oW A At shift)
    (htol : 0 ≤ tol) (x0 : V) (maxit : ℕ) (hn : Module.finrank K V ≤ maxit) (h1 : 1 ≤ maxit)
    (st : CGState K V W) (hst : st = cgls oV oW A At b shift tol eps x0 maxit) :
    st.flag = true ∧ st.k ≤ max (Module.finrank K V) 1 := by
  obtain ⟨hk, e, hlt, hfalse⟩ := cgls_returns_an_iterate b tol eps A At shift x0 maxit st hst
  set g0 := (cglsInit oV oW A At b shift x0).gamma with hg0
  -- every iterate number `m ≥ max n 1` carries a set flag
  have hflag : ∀ m, Module.finrank K V ≤ m → 1 ≤ m →
      (cglsIter oV oW A At b shift tol eps g0 x0 m).flag = true := by
    intro m hm h1m
    obtain ⟨m', rfl⟩ := Nat.exists_eq_add_of_le' h1m
    have hz := (cgls_residual_vanishes b tol eps H g0 x0 (m' + 1) hm).2.1
    rw [cglsIter_succ] at hz ⊢
    show cgFlag (cglsStep oV oW A At shift tol eps g0 _).gamma g0 _ tol = true
    rw [cgFlag_true_iff _ _ _ _ htol, hz]
    left
    have : 0 ≤ g0 := H.ipV.nonneg _
    positivity
  have hkle : st.k ≤ max (Module.finrank K V) 1 := by
    by_contra hgt
    rw [not_le] at hgt
    have := hfalse _ hgt
    rw [hflag _ (le_max_left _ _) (le_max_right _ _)] at this
    exact Bool.noConfusion this
  refine ⟨?_, hkle⟩
  rcases Nat.lt_or_eq_of_le hk with h | h
  · exact hlt h
  · rw [e, h]; exact hflag _ hn h1

/-- **"Run to convergence" returns the exact solution, from any start vector:** with `tol = 0` and
    `maxit ≥ n = finrank K V`, the `x` returned by `CGLS.solve` satisfies
    `(AᵀA + shift·I) x = Aᵀ b` exactly, it is the only solution, and at most `max n 1` passes of the
    loop were made. -/
theorem cgls_run_to_convergence_exact [Module.Finite K V] (H : CGLSSetting oV oW A At shift)
    (x0 : V) (maxit : ℕ) (hn : Module.finrank K V ≤ maxit)
    (st : CGState K V W) (hst : st = cgls oV oW A At b shift 0 eps x0 maxit) :
    At (A st.x) + shift • st.x = At b ∧ (∀ y, At (A y) + shift • y = At b → y = st.x) ∧
      st.k ≤ max (Module.finrank K V) 1 := by
  have hsol : At (A st.x) + shift • st.x = At b := by
    obtain ⟨hk, e, hlt, _⟩ := cgls_returns_an_iterate b 0 eps A At shift x0 maxit st hst
    rcases Nat.lt_or_eq_of_le hk with h | h
    · exact cgls_exact_of_tol_zero A At b shift eps H.lawV H.lawW H.ipV.nonneg H.defn x0 maxit st hst (hlt h)
    · rw [e]
      exact (cgls_residual_vanishes b 0 eps H _ x0 st.k (by omega)).2.2.1
  refine ⟨hsol, fun y hy => normal_eq_unique H _ _ _ hsol hy, ?_⟩
  rcases Nat.eq_zero_or_pos maxit with h0 | hpos
  · have := (cgls_returns_an_iterate b 0 eps A At shift x0 maxit st hst).1
    omega
  · exact (cgls_finite_termination b 0 eps H le_rfl x0 maxit hn hpos st hst).2

/-- **The error decreases monotonically in the energy norm.**  For the solution `x⋆` of
    `(AᵀA + shift·I) x⋆ = Aᵀ b` and `E(x) = ‖A(x − x⋆)‖² + shift·‖x − x⋆‖²`: `E(x_{k+1}) ≤ E(x_k)`
    for the CGLS iterates, strictly while the residual `s_k` is non-zero. -/
theorem cgls_energy_error_decreasing (H : CGLSSetting oV oW A At shift) (gamma0 : K) (x0 xs : V)
    (hxs : At (A xs) + shift • xs = At b) (k : ℕ) :
    let st := cglsIter oV oW A At b shift tol eps gamma0 x0
    let E := fun x : V => oW.dot (A (x - xs)) (A (x - xs)) + shift * oV.dot (x - xs) (x - xs)
    E (st (k + 1)).x ≤ E (st k).x ∧ ((st k).s ≠ 0 → E (st (k + 1)).x < E (st k).x) := by
  intro st E
  have hR := cglsIter_rec b tol eps H gamma0 x0
  have hres : ∀ m, (st m).s = normalOp A At shift (xs - (st m).x) := by
    intro m
    rw [(cglsIter_resid b tol eps H gamma0 x0 m).2.1, map_sub, ← hxs, normalOp_apply A At shift xs]
  have hE : ∀ x, E x = oV.dot (x - xs) (normalOp A At shift (x - xs)) := fun x => (H.energy _ _).symm
  have hstep := hR.energy_step H.spd xs hres k
  rw [hE, hE]
  constructor
  · have := hR.decrement_nonneg H.spd k
    linarith
  · intro hne
    have := hR.decrement_pos H.spd k hne
    linarith

/-- **The returned point is never worse than the start in the energy norm** (whatever `tol`,
    `maxit`): `E(x_returned) ≤ E(x0)`. -/
theorem cgls_energy_le_start (H : CGLSSetting oV oW A At shift) (x0 xs : V)
    (hxs : At (A xs) + shift • xs = At b) (maxit : ℕ)
    (st : CGState K V W) (hst : st = cgls oV oW A At b shift tol eps x0 maxit) :
    oW.dot (A (st.x - xs)) (A (st.x - xs)) + shift * oV.dot (st.x - xs) (st.x - xs)
      ≤ oW.dot (A (x0 - xs)) (A (x0 - xs)) + shift * oV.dot (x0 - xs) (x0 - xs) := by
  obtain ⟨_, e, _, _⟩ := cgls_returns_an_iterate b tol eps A At shift x0 maxit st hst
  rw [e]
  generalize st.k = j
  induction j with
  | zero => exact le_rfl
  | succ j ih =>
    exact le_trans (cgls_energy_error_decreasing b tol eps H _ x0 xs hxs j).1 ih

/-- `shift > 0` (Tikhonov) makes `AᵀA + shift·I` positive definite whatever `A` is -/
lemma cglsSetting_of_shift_pos (hV : oV.Lawful) (hW : oW.Lawful) (ipV : IsIP oV.dot) (ipW : IsIP oW.dot)
    (defn : ∀ v, oV.dot v v = 0 → v = 0) (adj : ∀ v w, oW.dot (A v) w = oV.dot v (At w))
    (hs : 0 < shift) : CGLSSetting oV oW A At shift :=
  ⟨hV, hW, ipV, ipW, defn, adj, fun v hv => by
    have h1 := ipW.nonneg (A v)
    have h2 : 0 < oV.dot v v := lt_of_le_of_ne (ipV.nonneg v) (fun h => hv (defn v h.symm))
    have := mul_pos hs h2
    linarith⟩

end Krylov

/-! ## A concrete non-trivial instance: `V = W = ℚ × ℚ`, `A = [[1,1],[0,1]]`, `shift = 1/2` -/
section Example

/-- Euclidean dot product on `ℚ × ℚ` -/
def dot2 (u v : ℚ × ℚ) : ℚ := u.1 * v.1 + u.2 * v.2
/-- `A (v₁, v₂) = (v₁ + v₂, v₂)` -/
def A2 : (ℚ × ℚ) →ₗ[ℚ] (ℚ × ℚ) := LinearMap.prod (LinearMap.fst ℚ ℚ ℚ + LinearMap.snd ℚ ℚ ℚ) (LinearMap.snd ℚ ℚ ℚ)
/-- its transpose `(w₁, w₂) ↦ (w₁, w₁ + w₂)` -/
def At2 : (ℚ × ℚ) →ₗ[ℚ] (ℚ × ℚ) := LinearMap.prod (LinearMap.fst ℚ ℚ ℚ) (LinearMap.fst ℚ ℚ ℚ + LinearMap.snd ℚ ℚ ℚ)

lemma dot2_isIP : IsIP dot2 :=
  ⟨fun a b c => by simp only [dot2, Prod.fst_add, Prod.snd_add]; ring,
   fun t a c => by simp only [dot2, Prod.smul_fst, Prod.smul_snd, smul_eq_mul]; ring,
   fun a b => by simp only [dot2]; ring,
   fun a => by simp only [dot2]; nlinarith [mul_self_nonneg a.1, mul_self_nonneg a.2]⟩

lemma dot2_def (v : ℚ × ℚ) (h : dot2 v v = 0) : v = 0 := by
  simp only [dot2] at h
  have h1 : v.1 = 0 := by nlinarith [mul_self_nonneg v.1, mul_self_nonneg v.2]
  have h2 : v.2 = 0 := by nlinarith [mul_self_nonneg v.1, mul_self_nonneg v.2]
  exact Prod.ext h1 h2

/-- the hypotheses of all theorems above are satisfiable (2-dimensional, non-symmetric `A`, `shift = 1/2`) -/
lemma setting2 : CGLSSetting (VOps.ofModule ℚ (ℚ × ℚ) dot2) (VOps.ofModule ℚ (ℚ × ℚ) dot2) A2 At2 (1/2) :=
  cglsSetting_of_shift_pos (VOps.ofModule_lawful _ _ _) (VOps.ofModule_lawful _ _ _) dot2_isIP dot2_isIP
    dot2_def (fun v w => by simp [VOps.ofModule, dot2, A2, At2]; ring) (by norm_num)

example : Module.finrank ℚ (ℚ × ℚ) = 2 := by simp

/-- `cgls_run_to_convergence_exact` instantiated: from the start `(5, −7)` CGLS with `tol = 0`,
    `maxit = 2` returns the exact solution of `(AᵀA + ½ I) x = Aᵀ (3, 1)` -/
example : let st := cgls (VOps.ofModule ℚ (ℚ × ℚ) dot2) (VOps.ofModule ℚ (ℚ × ℚ) dot2) A2 At2 (3, 1) (1/2) 0 (1/2^52) (5, -7) 2
    At2 (A2 st.x) + (1/2 : ℚ) • st.x = At2 (3, 1) :=
  (cgls_run_to_convergence_exact (3, 1) (1/2^52) setting2 (5, -7) 2 (by simp) _ rfl).1

/-- the same run, executed: two passes, flag set, `x = (14/11, 12/11)` -/
example : let st := cgls (VOps.ofModule ℚ (ℚ × ℚ) dot2) (VOps.ofModule ℚ (ℚ × ℚ) dot2) A2 At2 (3, 1) (1/2) 0 (1/2^52) (5, -7) 2
    st.k = 2 ∧ st.flag = true ∧ st.x = (14/11, 12/11) := by decide +kernel

/-- every generic theorem instantiated at this setting (hypotheses jointly satisfiable; `finrank = 2`) -/
example := cgls_residuals_orthogonal (3, 1) 0 (1/2^52) setting2 0 (5, -7) 0 1 (by decide)
example := cgls_directions_conjugate (3, 1) 0 (1/2^52) setting2 0 (5, -7) 0 1
example := cgls_residual_vanishes (3, 1) 0 (1/2^52) setting2 0 (5, -7) 2 (by simp)
example := cgls_finite_termination (3, 1) (1/1000) (1/2^52) setting2 (by norm_num) (5, -7) 7 (by simp) (by norm_num) _ rfl
example := cgls_energy_error_decreasing (3, 1) 0 (1/2^52) setting2 0 (5, -7) (14/11, 12/11)
  (by simp [A2, At2]; norm_num) 0
example := cgls_energy_le_start (3, 1) (1/1000) (1/2^52) setting2 (5, -7) (14/11, 12/11)
  (by simp [A2, At2]; norm_num) 1 _ rfl

end Example

/-! ## The executable array instance: `vecOps n` on `Vector K n`, `mulVec M`, `mulVecT M`

These are statements about exactly the term the driver evaluates for `cgls mat …`
(`cgls (vecOps n) (vecOps m) (mulVec M) (mulVecT M) b shift tol eps x0 maxit`, `K = ℚ` there), written
with the record's own operations — no module structure appears in the statements.  They are the
generic theorems at `V = Vector K n`, `W = Vector K m` (`arraySetting`: `vecOps` is lawful for core
Lean's componentwise operations, `vdot` is a definite symmetric bilinear form, `mulVecT M` is the
adjoint of `mulVec M`, `finrank K (Vector K n) = n`). -/
section Arrays

lemma exists_entry_ne_zero {n : ℕ} (v : Vector K n) (hv : v ≠ 0) : ∃ i : Fin n, v[i] ≠ 0 := by
  by_contra h
  apply hv
  apply Vector.ext
  intro i hi
  have := not_exists.1 h ⟨i, hi⟩
  simpa using this

/-- **`cgls_finite_termination` for the array code path:** `A` an `m × n` matrix with
    `‖A v‖² + shift·‖v‖² > 0` for every `v` with a non-zero entry, `tol ≥ 0`, `maxit ≥ max n 1`:
    the loop is left through the convergence flag after at most `max n 1` passes. -/
theorem cgls_finite_termination_array {m n : ℕ} (M : Mat K m n) (b : Vector K m) (shift tol eps : K)
    (hpd : ∀ v : Vector K n, (∃ i : Fin n, v[i] ≠ 0) →
      0 < vdot (mulVec M v) (mulVec M v) + shift * vdot v v)
    (htol : 0 ≤ tol) (x0 : Vector K n) (maxit : ℕ) (hn : n ≤ maxit) (h1 : 1 ≤ maxit)
    (st : CGState K (Vector K n) (Vector K m))
    (hst : st = cgls (vecOps n) (vecOps m) (mulVec M) (mulVecT M) b shift tol eps x0 maxit) :
    st.flag = true ∧ st.k ≤ max n 1 := by
  have H := arraySetting M shift (fun v hv => hpd v (exists_entry_ne_zero v hv))
  have := cgls_finite_termination b tol eps H htol x0 maxit (by rw [vec_finrank]; exact hn) h1 st hst
  rwa [vec_finrank] at this

/-- **"Run to convergence" on arrays returns the exact solution from any start vector:** `tol = 0`,
    `maxit ≥ n`: the returned `x` satisfies `Aᵀ(A x) + shift·x = Aᵀ b` (written with the record's
    `add`/`smul`), every solution equals it, and at most `max n 1` passes were made. -/
theorem cgls_run_to_convergence_exact_array {m n : ℕ} (M : Mat K m n) (b : Vector K m) (shift eps : K)
    (hpd : ∀ v : Vector K n, (∃ i : Fin n, v[i] ≠ 0) →
      0 < vdot (mulVec M v) (mulVec M v) + shift * vdot v v)
    (x0 : Vector K n) (maxit : ℕ) (hn : n ≤ maxit)
    (st : CGState K (Vector K n) (Vector K m))
    (hst : st = cgls (vecOps n) (vecOps m) (mulVec M) (mulVecT M) b shift 0 eps x0 maxit) :
    (vecOps n).add (mulVecT M (mulVec M st.x)) ((vecOps n).smul shift st.x) = mulVecT M b ∧
      (∀ y : Vector K n,
        (vecOps n).add (mulVecT M (mulVec M y)) ((vecOps n).smul shift y) = mulVecT M b → y = st.x) ∧
      st.k ≤ max n 1 := by
  have H := arraySetting M shift (fun v hv => hpd v (exists_entry_ne_zero v hv))
  have := cgls_run_to_convergence_exact b eps H x0 maxit (by rw [vec_finrank]; exact hn) st hst
  rw [vec_finrank] at this
  exact this

/-- **Tikhonov case, no hypothesis on the matrix:** for `shift > 0` and *any* `m × n` matrix, CGLS on
    arrays with `tol = 0`, `maxit ≥ n` returns the exact solution of `(AᵀA + shift·I) x = Aᵀ b`. -/
theorem cgls_tikhonov_exact_array {m n : ℕ} (M : Mat K m n) (b : Vector K m) (shift eps : K)
    (hs : 0 < shift) (x0 : Vector K n) (maxit : ℕ) (hn : n ≤ maxit)
    (st : CGState K (Vector K n) (Vector K m))
    (hst : st = cgls (vecOps n) (vecOps m) (mulVec M) (mulVecT M) b shift 0 eps x0 maxit) :
    (vecOps n).add (mulVecT M (mulVec M st.x)) ((vecOps n).smul shift st.x) = mulVecT M b ∧
      st.k ≤ max n 1 := by
  have H : CGLSSetting (vecOps n) (vecOps m) (mulVecL M) (mulVecTL M) shift :=
    cglsSetting_of_shift_pos (vecOps_lawful n) (vecOps_lawful m) (vdot_isIP n) (vdot_isIP m)
      vdot_definite (fun v w => mulVec_adjoint M v w) hs
  have := cgls_run_to_convergence_exact b eps H x0 maxit (by rw [vec_finrank]; exact hn) st hst
  rw [vec_finrank] at this
  exact ⟨this.1, this.2.2⟩

/-- `A = [[1,1],[0,1],[1,0]]` -/
def M32 : Mat ℚ 3 2 := #v[#v[1, 1], #v[0, 1], #v[1, 0]]

/-- a `3 × 2` problem on arrays: `b = (2,1,3)`, `shift = 1/4`, start `(5,−7)`, `tol = 0`, `maxit = 2`:
    the hypotheses of `cgls_tikhonov_exact_array` hold and give the normal equations for the result -/
example : let st := cgls (vecOps 2) (vecOps 3) (mulVec M32) (mulVecT M32) #v[2, 1, 3] (1/4) 0 (1/2^52) #v[5, -7] 2
    (vecOps 2).add (mulVecT M32 (mulVec M32 st.x)) ((vecOps 2).smul (1/4) st.x) = mulVecT M32 #v[2, 1, 3] :=
  (cgls_tikhonov_exact_array M32 #v[2, 1, 3] (1/4) (1/2^52) (by norm_num) #v[5, -7] 2 le_rfl _ rfl).1

/-- the positive-definiteness hypothesis of the two theorems before is satisfiable (here via `shift > 0`) -/
example : ∀ v : Vector ℚ 2, (∃ i : Fin 2, v[i] ≠ 0) →
    0 < vdot (mulVec M32 v) (mulVec M32 v) + (1/4 : ℚ) * vdot v v := by
  intro v ⟨i, hi⟩
  have H : CGLSSetting (vecOps 2) (vecOps 3) (mulVecL M32) (mulVecTL M32) (1/4 : ℚ) :=
    cglsSetting_of_shift_pos (vecOps_lawful 2) (vecOps_lawful 3) (vdot_isIP 2) (vdot_isIP 3)
      vdot_definite (fun v w => mulVec_adjoint M32 v w) (by norm_num)
  exact H.pos v (fun h => hi (by rw [h]; simp))

/-- the same run, executed by the kernel: two passes, flag set -/
example : let st := cgls (vecOps 2) (vecOps 3) (mulVec M32) (mulVecT M32) #v[2, 1, 3] (1/4) 0 (1/2^52) #v[5, -7] 2
    st.k = 2 ∧ st.flag = true := by decide +kernel

end Arrays

end CuqiVerif.C16
