import CuqiVerif.Props.C10_law
import CuqiVerif.Props.C20_eval

/-!
# C10 — the GMRF log-density along the hyper-parameter (session-3, second pass)

So far the claim "the target's own density along the hyper-parameter is `K s^{r/2} e^{-s q/2}`" rested, for the
GMRF, on the target-kernel tie of `harness/props/c10.py`.  Here it is derived from C20's exact model of
`GMRF.logpdf` (`C20.gmrfForm`, the `LogForm` the C20 driver prints and `harness/props/c20_eval.py` diffs against
`GMRF.logpdf` of the code; `C20.gmrfLogpdf`, its real transcription): for every difference operator `D`, every
reported rank, every data vector, every unit precision `c₁ > 0` and every value `s > 0` of the hyper-parameter.
-/

open Real Finset ProbabilityTheory

namespace CuqiVerif.C10
open CuqiVerif.C20 (BC FMat)

/-- the constant (independent of `s`) of the GMRF likelihood: `e^{logdet/2} (c₁/2π)^{r/2}` -/
noncomputable def gmrfLikConst (r logdet c1 : ℝ) : ℝ := Real.exp (0.5 * logdet) * (c1 / (2 * π)) ^ (r / 2)

lemma gmrfLikConst_pos (r logdet : ℝ) {c1 : ℝ} (hc : 0 < c1) : 0 < gmrfLikConst r logdet c1 := by
  unfold gmrfLikConst
  have : 0 < c1 / (2 * π) := by positivity
  exact mul_pos (Real.exp_pos _) (Real.rpow_pos_of_pos this _)

/-- **The expression `GMRF.logpdf` evaluates, as a function of the hyper-parameter:** with precision `δ = c₁·s`,
    `exp(0.5·(r·(log δ − log 2π) + logdet) − 0.5·δ·Q) = K · s^{r/2} · e^{−s (c₁Q)/2}`, `K = e^{logdet/2}(c₁/2π)^{r/2}`,
    for all real `r`, `logdet`, `Q`, `c₁ > 0`, `s > 0`. -/
theorem gmrf_logpdf_expr_in_hyperparameter (r logdet Q c1 s : ℝ) (hc : 0 < c1) (hs : 0 < s) :
    Real.exp (0.5 * (r * (Real.log (c1 * s) - Real.log (2 * π)) + logdet) - 0.5 * (c1 * s * Q))
      = gmrfLikConst r logdet c1 * (s ^ (r / 2) * Real.exp (-(s * (c1 * Q) / 2))) := by
  have h2pi : (0 : ℝ) < 2 * π := by positivity
  have hq : 0 < c1 / (2 * π) := by positivity
  unfold gmrfLikConst
  rw [Real.rpow_def_of_pos hq, Real.rpow_def_of_pos hs, Real.log_div hc.ne' h2pi.ne', Real.log_mul hc.ne' hs.ne',
    ← Real.exp_add, ← Real.exp_add, ← Real.exp_add]
  congr 1
  ring

example : Real.exp (0.5 * (3 * (Real.log (2 * 5) - Real.log (2 * π)) + 1) - 0.5 * (2 * 5 * 7))
    = gmrfLikConst 3 1 2 * ((5 : ℝ) ^ ((3 : ℝ) / 2) * Real.exp (-(5 * (2 * 7) / 2))) :=
  gmrf_logpdf_expr_in_hyperparameter 3 1 7 2 5 (by norm_num) (by norm_num)

lemma apply_cast (M : FMat) (v : ℕ → ℚ) (i : ℕ) :
    ((C20.apply M v i : ℚ) : ℝ) = C20.apply M (fun j => (v j : ℝ)) i := by
  unfold C20.apply
  push_cast
  rfl

/-- **C20's executable model of `GMRF.logpdf` (the `LogForm` the C20 driver prints, plus `0.5·logdet`) along the
    hyper-parameter**, every operator `D`, rank, data `d = x − mean`, rational `c₁, s > 0`: its exponential is
    `K · s^{rank/2} · e^{−s·(c₁‖D d‖²)/2}` with `‖D d‖²` the C10 model's `normSqD`. -/
theorem gmrfForm_in_hyperparameter (D : FMat) (rank : ℕ) (logdet : ℝ) (c1 s : ℚ) (d : ℕ → ℚ)
    (hc : 0 < c1) (hs : 0 < s) :
    Real.exp ((C20.gmrfForm D rank (c1 * s) d).eval + 0.5 * logdet)
      = gmrfLikConst (rank : ℝ) logdet (c1 : ℝ)
          * ((s : ℝ) ^ ((rank : ℝ) / 2) * Real.exp (-((s : ℝ) * ((c1 * normSqD D d : ℚ) : ℝ) / 2))) := by
  have hcR : (0 : ℝ) < (c1 : ℝ) := by exact_mod_cast hc
  have hsR : (0 : ℝ) < (s : ℝ) := by exact_mod_cast hs
  rw [C20.gmrfForm_eval, normSqD_eq_gram_form]
  have hsum : ((∑ i ∈ range D.cols, d i * C20.apply (C20.gram D) d i : ℚ) : ℝ)
      = ∑ i ∈ range D.cols, (d i : ℝ) * C20.apply (C20.gram D) (fun j => (d j : ℝ)) i := by
    push_cast
    exact Finset.sum_congr rfl fun i _ => by rw [apply_cast]
  rw [Rat.cast_mul c1 (∑ i ∈ range D.cols, d i * C20.apply (C20.gram D) d i), hsum,
    ← gmrf_logpdf_expr_in_hyperparameter (rank : ℝ) logdet _ (c1 : ℝ) (s : ℝ) hcR hsR, Rat.cast_mul c1 s]
  congr 1
  ring

example := gmrfForm_in_hyperparameter (C20.diffOp 1 .zero 3) 3 0 1 2 (fun j => (j : ℚ)) (by norm_num) (by norm_num)

/-- **The C10 model's GMRF kernel is the GMRF's own density:** for every order, boundary condition, 1-D / 2-D, size,
    mean, data, unit precision `c₁ > 0` and hyper-parameter `s > 0` (rational), the exponential of C20's `GMRF.logpdf`
    model at precision `c₁ s`, reported rank `declaredRank`, is
    `K · s^{Q.rank/2} · e^{−s·Q.target/2}` with `Q = gmrfQuad …` — exactly the likelihood factor of
    `hyperPostPDFReal K Q.rank Q.target`, about which `conj_law_exact_iff`, `gmrf_zero_conj_posterior_is_gamma`,
    `gmrf_nonzero_bc_law_ne` speak.  (`tLog`, `tLin` of the driver are no longer only validated by the target-kernel tie.) -/
theorem gmrf_density_is_model_kernel (order : ℕ) (bc : BC) (pd n : ℕ) (c1 s : ℚ) (mean b : List ℚ) (logdet : ℝ)
    (hc : 0 < c1) (hs : 0 < s) :
    Real.exp ((C20.gmrfForm (gmrfOp order bc pd n) (C20.declaredRank bc (gmrfDim pd n)) (c1 * s) (dev mean b)).eval
        + 0.5 * logdet)
      = gmrfLikConst ((gmrfQuad order bc pd n c1 mean b).rank : ℝ) logdet (c1 : ℝ)
          * ((s : ℝ) ^ (((gmrfQuad order bc pd n c1 mean b).rank : ℝ) / 2)
              * Real.exp (-((s : ℝ) * ((gmrfQuad order bc pd n c1 mean b).target : ℝ) / 2))) := by
  rw [gmrfForm_in_hyperparameter _ _ logdet c1 s _ hc hs]
  rfl

example := gmrf_density_is_model_kernel 1 .periodic 1 4 1 2 [0, 0, 0, 0] [1, 2, 0, 5] 0 (by norm_num) (by norm_num)

/-- **GMRF likelihood × Gamma prior = the posterior density `hyperPostPDFReal` assumes**, pointwise: the product of
    the GMRF's own density (C20 model, precision `c₁ s`) and the Gamma(α, β) prior density at `s` is
    `hyperPostPDFReal K Q.rank Q.target α β s` with `K = gmrfLikConst … > 0`. -/
theorem gmrf_posterior_density (order : ℕ) (bc : BC) (pd n : ℕ) (c1 s : ℚ) (mean b : List ℚ) (logdet : ℝ) (α β : ℝ)
    (hc : 0 < c1) (hs : 0 < s) :
    Real.exp ((C20.gmrfForm (gmrfOp order bc pd n) (C20.declaredRank bc (gmrfDim pd n)) (c1 * s) (dev mean b)).eval
        + 0.5 * logdet) * gammaPDFReal α β (s : ℝ)
      = hyperPostPDFReal (gmrfLikConst ((gmrfQuad order bc pd n c1 mean b).rank : ℝ) logdet (c1 : ℝ))
          ((gmrfQuad order bc pd n c1 mean b).rank : ℝ) ((gmrfQuad order bc pd n c1 mean b).target : ℝ) α β (s : ℝ) ∧
      0 < gmrfLikConst ((gmrfQuad order bc pd n c1 mean b).rank : ℝ) logdet (c1 : ℝ) := by
  refine ⟨?_, gmrfLikConst_pos _ _ (by exact_mod_cast hc)⟩
  rw [gmrf_density_is_model_kernel order bc pd n c1 s mean b logdet hc hs]
  rfl

example := gmrf_posterior_density 2 .zero 2 2 1 3 [0, 0, 0, 0] [1, 2, 0, 5] 0 2 3 (by norm_num) (by norm_num)

/-- **Zero boundary, end to end:** the normalised product of the GMRF's own density (C20's `GMRF.logpdf` model) and the
    Gamma prior is the Gamma measure the conjugate sampler draws from — the constant `K` is now identified
    (`gmrfLikConst`), not an arbitrary positive number. -/
theorem gmrf_zero_end_to_end (order pd n : ℕ) (c1 : ℚ) (mean b : List ℚ) (α β : ℚ) (logdet : ℝ)
    (hα : 0 < α) (hβ : 0 < β) (hc : 0 < c1) (hb : b.length = gmrfDim pd n) :
    hyperPosterior (gmrfLikConst ((gmrfQuad order .zero pd n c1 mean b).rank : ℝ) logdet (c1 : ℝ))
        ((gmrfQuad order .zero pd n c1 mean b).rank : ℝ) ((gmrfQuad order .zero pd n c1 mean b).target : ℝ) (α : ℝ) (β : ℝ)
      = gammaMeasure ((outcome false (gmrfQuad order .zero pd n c1 mean b) b α β).gamma.shape : ℝ)
          ((outcome false (gmrfQuad order .zero pd n c1 mean b) b α β).gamma.rate : ℝ) :=
  (gmrf_zero_conj_posterior_is_gamma order pd n c1 mean b α β _
    (gmrfLikConst_pos _ _ (by exact_mod_cast hc)) hα hβ hc.le hb).1

example := gmrf_zero_end_to_end 2 1 4 1 [0, 0, 0, 0] [1, 2, 0, 5] 2 3 0 (by norm_num) (by norm_num) (by norm_num) rfl

end CuqiVerif.C10
