import CuqiVerif.Proofs.C04_gaussobj

/-!
# C04 — the `Gaussian` object: covariance cache, setter discipline, storage-dependent `sqrtprec` branches

Statements about the executable definitions of `Model/C04_gaussobj.lean` (the ones `Driver/C04.lean` runs for
the ops `gstored` / `gobj`): `construct`, `setMain`, `setMean`, `computeCov`, `getCov`, `stepState`, `runOps`,
`expandCov`, `sqrtprecDia`, `Dia.entry`.

1. **All histories.**  `Coherent`: the cache slot `_cov` is empty, or holds the user's current `cov` argument, or
   holds the covariance of the CURRENT main matrix.  It holds after `construct` and is preserved by every
   operation, hence after every finite sequence of assignments (to the matrix, to a wrong keyword, to the mean),
   `compute_cov()` calls and reads (`coherent_runOps`).  Consequences: `readCov_after_history` (a matrix read
   from `.cov` is never stale), `computeCov_after_history` (`compute_cov()` — and `cdf`, which calls it —
   always uses the covariance of the current specification), `form_runOps` (the mutable matrix keyword never
   changes: two specifications never coexist on one object).
2. **`compute_cov` on the `cov` form** expands a scalar / 1-D covariance to the matrix whose product with the
   precision `canonDiag` stores is the identity (`expandCov_vector_mul_prec`, `expandCov_scalar_entry`).
3. **`dia_matrix` branch of `get_sqrtprec_from_sqrtprec`.**  Main diagonal only: same rank and log-determinant
   as the 1-D branch, and the object denotes `diag v` (`sqrtprecDia_main_diagonal`, `dia_main_diagonal_entry`),
   every size.  Any stored zero — every `dia_matrix` with an off-diagonal band built by `scipy.sparse.diags`
   has padding zeros — gives log-determinant `+inf` (`sqrtprecDia_negInf_of_stored_zero`); witnesses of the
   open finding: `sqrtprecDia_bidiagonal_counterexample` (the class docstring's example),
   `sqrtprecDia_padding_counterexample` (non-zero padding: a finite but wrong determinant).
-/
namespace CuqiVerif.C04
open CuqiVerif

variable (denote : Form → Stored → Nat → Option QMat.Mat)

/-! ## 1. cache coherence over all histories -/

/-- **The constructor establishes coherence** (any dimension, mean, keyword list it accepts). -/
theorem coherent_construct (dim : ℕ) (mean : List ℚ) (args : List (Form × Stored)) (o : GObj)
    (h : construct dim mean args = .ok o) : Coherent denote o :=
  coherent_construct_aux denote dim mean args o h

example : Coherent (fun _ _ _ => none)
    { dim := 2, form := .prec, main := some (.plain .scalar [[2]]), cov := .unset, mean := [0] } :=
  coherent_construct _ 2 [0] [(.prec, .plain .scalar [[2]])] _ rfl

/-- **Every operation preserves coherence.** -/
theorem coherent_stepState (o : GObj) (op : Op) (h : Coherent denote o) : Coherent denote (stepState denote o op) :=
  coherent_step_aux denote o op h

/-- **All histories.**  After any finite sequence of operations — assignments to the mutable matrix, attempted
    assignments to another matrix keyword, assignments to the mean, `compute_cov()`, reads of `.cov`, in any
    order and number — the cache is coherent with the current main matrix. -/
theorem coherent_runOps (o : GObj) (ops : List Op) (h : Coherent denote o) : Coherent denote (runOps denote o ops) := by
  induction ops generalizing o with
  | nil => exact h
  | cons op rest ih =>
    simp only [runOps, List.foldl_cons]
    exact ih _ (coherent_stepState denote o op h)

example : Coherent (fun _ _ _ => some [[1]])
    (runOps (fun _ _ _ => some [[1]])
      { dim := 1, form := .prec, main := some (.plain .scalar [[2]]), cov := .unset, mean := [0] }
      [.computeCov, .setMain .prec (.plain .scalar [[4]]), .readCov, .setMain .cov (.plain .scalar [[4]]), .computeCov]) :=
  coherent_runOps _ _ _ (by simp [Coherent])

/-- **A covariance read from `.cov` is never stale.**  Start from any constructed object, apply any history;
    if reading `.cov` then returns a full matrix `C`, the object has a main matrix `s` and `C` is the
    covariance of THAT matrix: `expandCov` of the current `cov` argument (cov form), resp. the covariance
    `denote` assigns to the current `prec` / `sqrtcov` / `sqrtprec` argument. -/
theorem readCov_after_history (dim : ℕ) (mean : List ℚ) (args : List (Form × Stored)) (o₀ : GObj)
    (h₀ : construct dim mean args = .ok o₀) (ops : List Op) (C : QMat.Mat)
    (hr : getCov (runOps denote o₀ ops) = .ok (.full C)) :
    ∃ s, (runOps denote o₀ ops).main = some s ∧
      (if (runOps denote o₀ ops).form = .cov then C = expandCov (runOps denote o₀ ops).dim s
       else denote (runOps denote o₀ ops).form s (runOps denote o₀ ops).dim = some C) :=
  readCov_of_coherent denote _ C (coherent_runOps denote o₀ ops (coherent_construct denote dim mean args o₀ h₀)) hr

/-- **`compute_cov()` (hence `cdf`) uses the current specification.**  After any history, a matrix returned by
    `compute_cov()` is the covariance of the current main matrix. -/
theorem computeCov_after_history (dim : ℕ) (mean : List ℚ) (args : List (Form × Stored)) (o₀ : GObj)
    (h₀ : construct dim mean args = .ok o₀) (ops : List Op) (C : QMat.Mat) (o' : GObj)
    (hc : computeCov denote (runOps denote o₀ ops) = .ok (some C, o')) :
    ∃ s, (runOps denote o₀ ops).main = some s ∧
      (if (runOps denote o₀ ops).form = .cov then C = expandCov (runOps denote o₀ ops).dim s
       else denote (runOps denote o₀ ops).form s (runOps denote o₀ ops).dim = some C) :=
  computeCov_of_coherent denote _ C o' (coherent_runOps denote o₀ ops (coherent_construct denote dim mean args o₀ h₀)) hc

example : ∃ o', computeCov (fun _ _ _ => some [[1 / 2]])
    { dim := 1, form := .prec, main := some (.plain .scalar [[2]]), cov := .unset, mean := [0] } = .ok (some [[1 / 2]], o') :=
  ⟨_, rfl⟩

/-- **The matrix keyword of an object never changes** (an assignment to another keyword is refused and leaves
    the object as it was): no history makes two specifications coexist. -/
theorem form_runOps (o : GObj) (ops : List Op) :
    (runOps denote o ops).form = o.form ∧ (runOps denote o ops).dim = o.dim := by
  induction ops generalizing o with
  | nil => exact ⟨rfl, rfl⟩
  | cons op rest ih =>
    simp only [runOps, List.foldl_cons]
    have h := form_step_aux denote o op
    have := ih (stepState denote o op)
    simp only [runOps] at this
    exact ⟨this.1.trans h.1, this.2.trans h.2⟩

/-- an assignment to a keyword that is not the object's mutable matrix is refused, whatever the value -/
theorem setMain_other_form_refused (o : GObj) (f : Form) (s : Stored) (h : f ≠ o.form) :
    setMain o f s = .error .valueError := by
  simp [setMain, h]

example : setMain { dim := 2, form := .prec, main := none, cov := .unset, mean := [0] } .cov (.plain .scalar [[2]])
    = .error .valueError := setMain_other_form_refused _ _ _ (by decide)

/-- the constructor accepts at most one matrix keyword -/
theorem construct_two_keywords_refused (dim : ℕ) (mean : List ℚ) (a b : Form × Stored) (rest : List (Form × Stored)) :
    construct dim mean (a :: b :: rest) = .error .valueError := rfl

/-! ## 2. `compute_cov` on the `cov` form -/

/-- scalar covariance: `compute_cov()` returns `v·I` (entries, every dimension) -/
theorem expandCov_scalar_entry (dim : ℕ) (v : ℚ) (i j : ℕ) (hi : i < dim) (hj : j < dim) :
    QMat.entry (expandCov dim (.plain .scalar [[v]])) i j = if i = j then v else 0 :=
  expandCov_scalar_entry_aux dim v i j hi hj

/-- **1-D covariance: `compute_cov()` is the inverse of the precision the log-density uses.**  For every vector
    `v` of non-zero variances, the matrix `np.diag(cov)` that `compute_cov()` returns, times the precision
    `canonDiag .cov v` stores (`diag(1/v)`), is the identity — entry by entry, every dimension. -/
theorem expandCov_vector_mul_prec (v : List ℚ) (hv : ∀ x ∈ v, x ≠ 0) (i j : ℕ) (hi : i < v.length) (hj : j < v.length) :
    ∑ k ∈ Finset.range v.length,
      QMat.entry (expandCov v.length (.plain .vector [v])) i k * QMat.entry (QMat.diag (v.map (1 / ·))) k j
      = if i = j then 1 else 0 :=
  expandCov_vector_mul_prec_aux v hv i j hi hj

example : ∑ k ∈ Finset.range 2,
    QMat.entry (expandCov 2 (.plain .vector [[2, 3]])) 0 k * QMat.entry (QMat.diag ([2, 3].map (1 / ·))) k 0 = 1 := by
  have := expandCov_vector_mul_prec [2, 3] (by simp) 0 0 (by simp) (by simp)
  simpa using this

/-! ## 3. the `dia_matrix` branch -/

/-- a `dia_matrix` holding only the main diagonal denotes `diag v` -/
theorem dia_main_diagonal_entry (v : List ℚ) (i j : ℕ) :
    (Dia.mk v.length [0] [v]).entry i j = if i = j then v.getD j 0 else 0 :=
  dia_main_entry_aux v i j

/-- **Main diagonal only (`scipy.sparse.diags(v)`): the dia branch stores the rank and log-determinant of the
    1-D branch**, `exp(logdet) = Π 1/v_i²`, for every size `n ≥ 2` and every `v` without zeros. -/
theorem sqrtprecDia_main_diagonal (v : List ℚ) (hn : 2 ≤ v.length) (hv : ∀ x ∈ v, x ≠ 0) :
    ∃ P, sqrtprecDia v.length (Dia.mk v.length [0] [v])
        = .base (.ok { P := some P, detCov := prodList (v.map fun r => 1 / (r * r)), rank := v.length })
      ∧ ∃ P', canonDiag .sqrtprec v
        = .ok { P := some P', detCov := prodList (v.map fun r => 1 / (r * r)), rank := v.length } :=
  sqrtprecDia_main_aux v hn hv

example : ∃ P, sqrtprecDia 2 (Dia.mk 2 [0] [[2, 3]])
    = .base (.ok { P := some P, detCov := prodList ([2, 3].map fun r : ℚ => 1 / (r * r)), rank := 2 }) :=
  (sqrtprecDia_main_diagonal [2, 3] (by simp) (by simp)).imp fun _ h => h.1

/-- **Any stored zero makes the log-determinant `+inf`** (so `logpdf = -inf` at every point): in particular
    every `dia_matrix` with an off-diagonal band as built by `scipy.sparse.diags` (its padding entries are 0),
    and every diagonal matrix stored with an explicit zero band. -/
theorem sqrtprecDia_negInf_of_stored_zero (d : Dia) (hn : d.n ≠ 1) (hz : (0 : ℚ) ∈ d.stored) :
    ∃ P, sqrtprecDia d.n d = .negInf P :=
  sqrtprecDia_negInf_aux d hn hz

/-- witness of the open finding `Gaussian:sqrtprec:stored:dia:*:stored-offdiagonals`: the class docstring's example
    `scipy.sparse.diags([1, -1], [0, 1], shape=(3, 3))` — an upper bidiagonal square root of a non-singular
    precision of determinant 1 — gets log-determinant `+inf` -/
theorem sqrtprecDia_bidiagonal_counterexample :
    ∃ P, sqrtprecDia 3 (Dia.mk 3 [0, 1] [[1, 1, 1], [0, -1, -1]]) = .negInf P :=
  sqrtprecDia_negInf_of_stored_zero (Dia.mk 3 [0, 1] [[1, 1, 1], [0, -1, -1]]) (by decide) (by simp [Dia.stored])

/-- second witness: non-zero numbers in the padding positions.  The matrix is upper bidiagonal with diagonal 2
    (determinant of the covariance `1/(2·2·2)² = 1/64`), the branch stores `1/254016` (the padding entry 7 and the
    band entries −3 enter the product). -/
theorem sqrtprecDia_padding_counterexample :
    ∃ P, sqrtprecDia 3 (Dia.mk 3 [0, 1] [[2, 2, 2], [7, -3, -3]])
        = .base (.ok { P := some P, detCov := 1 / 254016, rank := 3 })
      ∧ (1 / 254016 : ℚ) ≠ 1 / ((2 * 2 * 2) * (2 * 2 * 2)) :=
  sqrtprecDia_padding_aux

end CuqiVerif.C04
