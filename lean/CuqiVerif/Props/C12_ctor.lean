import CuqiVerif.Model.C12_ctor
import Mathlib.Tactic.Ring

/-!
# C12 — constructors and glue (session 3)

Statements about the definitions of `Model/C12_ctor.lean` that the driver ops `ctor`, `linctor`,
`pdector`, `arrnew`, `iter` execute: when the constructors of the three model classes succeed, with
which exception class they refuse, which gradient function and which geometries the object ends up
with, under which names the input may be passed, and what `_apply_func` iterates over for `Samples`.
All argument values, all signatures, all sizes.
-/

namespace CuqiVerif.C12

set_option linter.unusedSimpArgs false

/-- a geometry argument the constructor accepts: a pair, an `int`, a `Geometry` -/
def GeomArg.Accepted : GeomArg → Prop
  | .tuple l => l.length = 2
  | .int _ => True
  | .geometry _ _ => True
  | .none => False
  | .other => False

instance : DecidablePred GeomArg.Accepted := fun g => by
  cases g <;> unfold GeomArg.Accepted <;> infer_instance

/-- the parameter dimension the model reports for an accepted geometry argument -/
def GeomArg.dim : GeomArg → Nat
  | .tuple [r, c] => r * c
  | .int n => n.toNat
  | .geometry _ d => d
  | _ => 0

/-- **Reading a geometry argument**: accepted exactly for a 2-tuple, an `int` (any sign; `bool`
    included) or a `Geometry`; `None` gives `AttributeError`, everything else `TypeError` — never
    `ValueError`; the resulting `par_dim` is `r·c`, `max(n, 0)` resp. the geometry's own. -/
theorem readGeomArg_spec (g : GeomArg) :
    (g.Accepted → ∃ r, readGeomArg g = .ok r ∧ r.parDim = g.dim)
    ∧ (¬ g.Accepted → readGeomArg g = .error (if g = .none then .attributeError else .typeError)) := by
  cases g with
  | tuple l =>
    match l with
    | [] => exact ⟨(by intro h; cases h), fun _ => rfl⟩
    | [_] => exact ⟨(by intro h; cases h), fun _ => rfl⟩
    | [r, c] => exact ⟨fun _ => ⟨_, rfl, rfl⟩, fun h => absurd rfl h⟩
    | _ :: _ :: _ :: _ => exact ⟨(by intro h; simp [GeomArg.Accepted] at h), fun _ => rfl⟩
  | int n => exact ⟨fun _ => ⟨_, rfl, rfl⟩, fun h => absurd trivial h⟩
  | geometry gid d => exact ⟨fun _ => ⟨_, rfl, rfl⟩, fun h => absurd trivial h⟩
  | none => exact ⟨(by intro h; cases h), fun _ => rfl⟩
  | other => exact ⟨(by intro h; cases h), fun _ => rfl⟩

example : GeomArg.Accepted (.tuple [2, 3]) ∧ ¬ GeomArg.Accepted (.tuple [2, 3, 4]) ∧ (GeomArg.int (-2)).dim = 0 := by
  refine ⟨rfl, by decide, rfl⟩

/-- the three outcomes of reading a geometry argument -/
lemma readGeomArg_cases (g : GeomArg) :
    (∃ r, readGeomArg g = .ok r ∧ g.Accepted ∧ g ≠ .none ∧ r.parDim = g.dim)
    ∨ (readGeomArg g = .error .attributeError ∧ g = .none ∧ ¬ g.Accepted)
    ∨ (readGeomArg g = .error .typeError ∧ g ≠ .none ∧ ¬ g.Accepted) := by
  by_cases ha : g.Accepted
  · obtain ⟨r, h, hd⟩ := (readGeomArg_spec g).1 ha
    exact Or.inl ⟨r, h, ha, by rintro rfl; exact ha, hd⟩
  · have h := (readGeomArg_spec g).2 ha
    by_cases hn : g = .none
    · subst hn; exact Or.inr (Or.inl ⟨rfl, rfl, ha⟩)
    · rw [if_neg hn] at h; exact Or.inr (Or.inr ⟨h, hn, ha⟩)

/-- the callable arguments pass the checks of `Model.__init__` -/
def ModelInitArgs.FuncsOK (a : ModelInitArgs) : Prop :=
  a.forwardCallable = true ∧ ¬ (a.gradient ≠ .absent ∧ a.jacobian ≠ .absent)
    ∧ a.gradient ≠ .notCallable ∧ a.jacobian ≠ .notCallable

instance (a : ModelInitArgs) : Decidable a.FuncsOK := by unfold ModelInitArgs.FuncsOK; infer_instance

/-- **`Model.__init__` succeeds iff** `forward` is callable, at most one of `gradient` / `jacobian` is
    given and it is callable, and both geometry arguments are accepted. -/
theorem modelInit_ok_iff (a : ModelInitArgs) :
    (∃ r, modelInit a = .ok r) ↔ a.FuncsOK ∧ a.rangeArg.Accepted ∧ a.domainArg.Accepted := by
  obtain ⟨fc, g, j, ra, da, cached, params⟩ := a
  rcases readGeomArg_cases ra with ⟨r1, h1, a1, -, -⟩ | ⟨h1, -, a1⟩ | ⟨h1, -, a1⟩ <;>
  rcases readGeomArg_cases da with ⟨r2, h2, a2, -, -⟩ | ⟨h2, -, a2⟩ | ⟨h2, -, a2⟩ <;>
  cases fc <;> cases g <;> cases j <;>
    simp [modelInit, ModelInitArgs.FuncsOK, h1, h2, a1, a2, bind, Except.bind, pure, Except.pure, throw, throwThe,
      MonadExceptOf.throw]

example : ∃ r, modelInit { forwardCallable := true, gradient := .absent, jacobian := .callable, rangeArg := .int 3, domainArg := .tuple [2, 3], cached := none, params := [("x", false)] } = .ok r := ⟨_, rfl⟩

/-- **What the object is when `Model.__init__` succeeds**: a gradient function is installed iff
    `gradient` or `jacobian` was given (the `jacobian` one is the wrapper `direction @ jacobian(wrt)`);
    `range_dim` / `domain_dim` (and `len(model)`) are those of the geometry arguments; the input names
    are `get_non_default_args(forward)`. -/
theorem modelInit_result (a : ModelInitArgs) (r : ModelInitRes) (h : modelInit a = .ok r) :
    (r.gradSource = .none ↔ a.gradient = .absent ∧ a.jacobian = .absent)
    ∧ (r.gradSource = .jacobianWrapper ↔ a.jacobian = .callable)
    ∧ (r.gradSource = .userGradient ↔ a.gradient = .callable)
    ∧ r.range.parDim = a.rangeArg.dim ∧ r.domain.parDim = a.domainArg.dim
    ∧ r.nonDefaultArgs = getNonDefaultArgs a.cached a.params := by
  obtain ⟨fc, g, j, ra, da, cached, params⟩ := a
  rcases readGeomArg_cases ra with ⟨r1, h1, a1, n1, d1⟩ | ⟨h1, n1, a1⟩ | ⟨h1, n1, a1⟩ <;>
  rcases readGeomArg_cases da with ⟨r2, h2, a2, n2, d2⟩ | ⟨h2, n2, a2⟩ | ⟨h2, n2, a2⟩ <;>
  cases fc <;> cases g <;> cases j <;>
    simp [modelInit, h1, h2, bind, Except.bind, pure, Except.pure, throw, throwThe,
      MonadExceptOf.throw] at h <;>
    subst h <;>
    simp [d1, d2]

/-- **Refusals of `Model.__init__` are `TypeError`**, except `AttributeError` when the callables are
    fine and the first geometry argument that is not accepted (range before domain) is `None`. -/
theorem modelInit_error_class (a : ModelInitArgs) (e : CErr) (h : modelInit a = .error e) :
    e ≠ .valueError
    ∧ (e = .attributeError ↔ a.FuncsOK ∧ (a.rangeArg = .none ∨ (a.rangeArg.Accepted ∧ a.domainArg = .none))) := by
  obtain ⟨fc, g, j, ra, da, cached, params⟩ := a
  rcases readGeomArg_cases ra with ⟨r1, h1, a1, n1, -⟩ | ⟨h1, n1, a1⟩ | ⟨h1, n1, a1⟩ <;>
  rcases readGeomArg_cases da with ⟨r2, h2, a2, n2, -⟩ | ⟨h2, n2, a2⟩ | ⟨h2, n2, a2⟩ <;>
  cases fc <;> cases g <;> cases j <;>
    simp [modelInit, ModelInitArgs.FuncsOK, h1, h2, bind, Except.bind, pure, Except.pure, throw, throwThe,
      MonadExceptOf.throw] at h <;>
    subst h <;>
    simp [ModelInitArgs.FuncsOK, a1, a2, n1, n2]

example : modelInit { forwardCallable := true, gradient := .absent, jacobian := .absent, rangeArg := .int 3, domainArg := .none, cached := none, params := [] } = .error .attributeError := rfl

/-- **The names the model input may be passed under**: the stored attribute if `forward` has one (a
    `Model` given as `forward`); otherwise exactly the parameters of the signature without a default whose
    name is neither `args` nor `kwargs`, in signature order. -/
theorem getNonDefaultArgs_spec (cached : Option (List String)) (params : List (String × Bool)) (n : String) :
    (∀ l, cached = some l → getNonDefaultArgs cached params = l)
    ∧ (cached = none → (n ∈ getNonDefaultArgs cached params ↔ (n, false) ∈ params ∧ n ≠ "args" ∧ n ≠ "kwargs")) := by
  constructor
  · rintro l rfl; rfl
  · rintro rfl
    simp only [getNonDefaultArgs, List.mem_map, List.mem_filter, Prod.exists]
    constructor
    · rintro ⟨a, b, ⟨hm, hc⟩, rfl⟩
      simp only [Bool.and_eq_true, bne_iff_ne, ne_eq, Bool.not_eq_true'] at hc
      obtain ⟨⟨h1, h2⟩, h3⟩ := hc
      subst h3
      exact ⟨hm, h2, h1⟩
    · rintro ⟨hm, h1, h2⟩
      exact ⟨n, false, ⟨hm, by simp [h1, h2]⟩, rfl⟩

example : getNonDefaultArgs none [("a", false), ("b", true), ("args", false), ("kwargs", false)] = ["a"] := by decide

/-- **From the values passed** (`callable(...)`, the cached names and the signature are derived, not given):
    `Model(forward, R, D, gradient, jacobian)` succeeds iff `forward` is a function or a `Model`, at most one of
    `gradient` / `jacobian` is given (not `None`) and it is a function or a `Model`, and both geometry arguments are
    accepted; the model's input names are then the parameters of `forward` without default (not named `args` /
    `kwargs`), resp. the wrapped model's names — in particular their NUMBER is that of the signature. -/
theorem modelInitPy_spec (fwd grad jac : PyArg) (ra da : GeomArg) :
    ((∃ r, modelInitPy fwd grad jac ra da = .ok r) ↔
      fwd.callable = true ∧ ¬ (grad ≠ .noneObj ∧ jac ≠ .noneObj) ∧ (grad = .noneObj ∨ grad.callable = true)
        ∧ (jac = .noneObj ∨ jac.callable = true) ∧ ra.Accepted ∧ da.Accepted)
    ∧ ∀ r, modelInitPy fwd grad jac ra da = .ok r →
        r.nonDefaultArgs = (match fwd with
          | .modelObject a => a
          | .function p => (p.filter (fun q => q.1 != "kwargs" && q.1 != "args" && !q.2)).map Prod.fst
          | _ => []) := by
  constructor
  · unfold modelInitPy
    rw [modelInit_ok_iff]
    simp only [ModelInitArgs.FuncsOK, PyArg.toOpt]
    cases fwd <;> cases grad <;> cases jac <;> simp [PyArg.callable]
  · intro r h
    have := (modelInit_result _ r h).2.2.2.2.2
    rw [this]
    cases fwd <;> rfl

example : ∃ r, modelInitPy (.function [("x", false), ("b", true)]) .noneObj (.function [("wrt", false)]) (.int 2) (.int 3) = .ok r
    ∧ r.nonDefaultArgs = ["x"] := ⟨_, rfl, rfl⟩

/-- **`LinearModel(matrix)`**: whatever `adjoint` is, a forward operator with a `.shape` is accepted
    when the geometry arguments are accepted *or missing*; missing ones become default geometries of the
    matrix' row / column count; the input is called `x`.  A non-callable without `.shape` (list of
    lists) needs both geometries (`AttributeError` otherwise). -/
theorem linearInit_matrix (r c : Nat) (adjoint : OptCallable) (ra da : GeomArg)
    (hr : ra = .none ∨ ra.Accepted) (hd : da = .none ∨ da.Accepted) :
    ∃ res, linearInit (.matrix r c) adjoint ra da = .ok res ∧ res.matrixBacked = true ∧ res.nonDefaultArgs = ["x"]
      ∧ res.range.parDim = (if ra = .none then r else ra.dim)
      ∧ res.domain.parDim = (if da = .none then c else da.dim) := by
  have key : ∀ (g : GeomArg) (n : Nat), g = .none ∨ g.Accepted →
      ∃ x, (if g == .none then pure (GeomRes.default1D n) else readGeomArg g) = Except.ok x
        ∧ x.parDim = (if g = .none then n else g.dim) := by
    intro g n hg
    by_cases hn : g = .none
    · subst hn; exact ⟨_, rfl, rfl⟩
    · have hacc : g.Accepted := hg.resolve_left hn
      obtain ⟨x, hx, hdim⟩ := (readGeomArg_spec g).1 hacc
      refine ⟨x, ?_, by simp [hn, hdim]⟩
      have : (g == GeomArg.none) = false := by simpa using hn
      simp [this, hx]
  obtain ⟨x1, h1, d1⟩ := key ra r hr
  obtain ⟨x2, h2, d2⟩ := key da c hd
  refine ⟨⟨true, x1, x2, ["x"]⟩, ?_, rfl, rfl, d1, d2⟩
  simp only [linearInit, h1, h2]
  rfl

example : ∃ res, linearInit (.matrix 2 3) .absent .none (.geometry 5 7) = .ok res ∧ res.range = .default1D 2 := ⟨_, rfl, rfl⟩

/-- **`LinearModel(forward, adjoint, …)` from callables** succeeds iff `adjoint` is a callable and both
    geometries are given and accepted (they cannot be inferred); without a callable adjoint: `TypeError`. -/
theorem linearInit_callable_ok_iff (cached : Option (List String)) (params : List (String × Bool))
    (adjoint : OptCallable) (ra da : GeomArg) :
    (∃ res, linearInit (.callable cached params) adjoint ra da = .ok res)
      ↔ adjoint = .callable ∧ ra.Accepted ∧ da.Accepted := by
  rcases readGeomArg_cases ra with ⟨r1, h1, a1, -, -⟩ | ⟨h1, -, a1⟩ | ⟨h1, -, a1⟩ <;>
  rcases readGeomArg_cases da with ⟨r2, h2, a2, -, -⟩ | ⟨h2, -, a2⟩ | ⟨h2, -, a2⟩ <;>
  cases adjoint <;>
    simp [linearInit, h1, h2, a1, a2, bind, Except.bind, pure, Except.pure, throw, throwThe, MonadExceptOf.throw]

example : ∃ res, linearInit (.callable none [("x", false)]) .callable (.int 2) (.int 3) = .ok res := ⟨_, rfl⟩

/-- **`PDEModel.__init__`**: `ValueError` unless a `cuqi.pde.PDE` is given; otherwise like `Model` — and
    the gradient function is *always* installed (the bound `_gradient_func`, which refuses only when
    called), the input is called `x`. -/
theorem pdeInit_spec (isPDE : Bool) (ra da : GeomArg) :
    (isPDE = false → pdeInit isPDE ra da = .error .valueError)
    ∧ (isPDE = true → ((∃ r, pdeInit isPDE ra da = .ok r) ↔ ra.Accepted ∧ da.Accepted)
        ∧ ∀ r, pdeInit isPDE ra da = .ok r → r.gradSource = .userGradient ∧ r.nonDefaultArgs = ["x"]) := by
  constructor
  · rintro rfl; rfl
  · rintro rfl
    constructor
    · simp only [pdeInit, Bool.not_true, Bool.false_eq_true, if_false]
      rw [modelInit_ok_iff]
      simp [ModelInitArgs.FuncsOK]
    · intro r h
      simp only [pdeInit, Bool.not_true, Bool.false_eq_true, if_false] at h
      have := modelInit_result _ r h
      exact ⟨this.2.2.1.2 rfl, by rw [this.2.2.2.2.2]; rfl⟩

example : ∃ r, pdeInit true (.int 2) (.int 2) = .ok r := ⟨_, rfl⟩

/-- **`CUQIarray.__new__` succeeds iff** function values come with a geometry, parameters are at most
    one-dimensional, and a 0-d array has a geometry (`len()` of it is taken otherwise); without a
    geometry the array carries the default geometry of its length. -/
theorem cuqiarrayNew_ok_iff (ndim len0 : Nat) (isPar : Bool) (geometry : Option Nat) :
    (∃ g, cuqiarrayNew ndim len0 isPar geometry = .ok g)
      ↔ (isPar = false → geometry.isSome) ∧ (isPar = true → ndim ≤ 1) ∧ (geometry = none → ndim ≠ 0) := by
  cases isPar <;> cases geometry
  · simp [cuqiarrayNew]
  · simp [cuqiarrayNew]; exact ⟨_, rfl⟩
  · by_cases h : 1 < ndim
    · have : ¬ ndim ≤ 1 := by omega
      simp [cuqiarrayNew, h, this]
    · by_cases h0 : ndim = 0
      · simp [cuqiarrayNew, h, h0]
      · have : ndim ≤ 1 := by omega
        simp [cuqiarrayNew, h, h0, this]; exact ⟨_, rfl⟩
  · by_cases h : 1 < ndim
    · have : ¬ ndim ≤ 1 := by omega
      simp [cuqiarrayNew, h, this]
    · have : ndim ≤ 1 := by omega
      simp [cuqiarrayNew, h, this]; exact ⟨_, rfl⟩

example : cuqiarrayNew 1 3 true none = .ok (.default1D 3) := rfl
example : cuqiarrayNew 0 0 true none = .error .typeError := rfl

/-- **What `_apply_func` iterates over**: `Ns` items; for a 2-D array item `j` is column `j`
    (`samples[..., j]`), for a python list the items themselves. -/
theorem samples_iter_spec {α : Type} [Inhabited α] (sd : SamplesData α) :
    sd.iter.length = sd.ns
    ∧ (∀ rows n, sd = .array rows n → ∀ j (_ : j < n) (hj' : j < sd.iter.length),
          sd.iter[j] = rows.map (fun r => r.getD j default))
    ∧ (∀ l, sd = .list l → sd.iter = l) := by
  refine ⟨?_, ?_, ?_⟩
  · cases sd <;> simp [SamplesData.iter, SamplesData.ns]
  · rintro rows n rfl j _ hj'
    simp [SamplesData.iter]
  · rintro l rfl; rfl

example : (SamplesData.array [[1, 2, 3], [4, 5, 6]] 3 : SamplesData Int).iter = [[1, 4], [2, 5], [3, 6]] := by decide

end CuqiVerif.C12
