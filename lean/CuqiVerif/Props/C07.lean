import CuqiVerif.Model.C07
import CuqiVerif.Proofs.C07
import Mathlib.Algebra.BigOperators.Group.Finset.Basic
import Mathlib.Algebra.BigOperators.Ring.Finset
import Mathlib.Algebra.Field.Basic
import Mathlib.Data.Rat.Defs
import Mathlib.Tactic.Ring
import Mathlib.Tactic.NormNum
import Mathlib.Tactic.Linarith

/-!
# C07 — a linear model's adjoint is the transpose of its forward map: property theorems

Everything is about the executable definitions of `CuqiVerif/Model/C07.lean` (the driver runs them
at `R = Rat`); the theorems hold for every commutative ring `R` (fields where a mean is taken),
every size, every matrix / PSF and every pair of vectors.

`ip n x y = Σ_{i<n} x i · y i`, `M.fwdPar` = `LinearModel.forward` on parameters,
`M.adjPar` = `LinearModel.adjoint` on parameters, `M.getMatrix` = `get_matrix()`,
`M.tFwdPar`/`M.tAdjPar` = `M.T.forward` / `M.T.adjoint`.
-/
open Finset

set_option linter.unusedSectionVars false
set_option linter.unusedVariables false

namespace CuqiVerif.C07

variable {R : Type} [CommRing R]

/-! ## matrices and maps -/

/-- **matrix_columns.**  Column `j` of a matrix is its action on the unit vector `e_j`. -/
theorem matrix_columns (M : LMat R) (i j : ℕ) (hj : j < M.cols) : M.apply (unit j) i = M.e i j := by
  rw [apply_eq, sum_mul_unit _ _ _ hj]

example : (LMat.ofRows 2 2 #[#[(1:ℤ), 2], #[3, 4]]).apply (unit 1) 0 = 2 := by decide

/-- `forward` on parameters is the action of the single matrix `F_R · A · E_D`; likewise `adjoint`
    is the action of `F_D · B · E_R` (all models, no hypothesis). -/
theorem fwdPar_eq_fwdMat (M : LinModel R) (x y : ℕ → R) (i : ℕ) :
    M.fwdPar x i = M.fwdMat.apply x i ∧ M.adjPar y i = M.adjMat.apply y i :=
  ⟨fwdPar_eq M x i, adjPar_eq M y i⟩

/-- tabulating a matrix (what the driver does between products) does not change its entries -/
theorem force_e (M : LMat R) (i j : ℕ) (hi : i < M.rows) (hj : j < M.cols) : M.force.e i j = M.e i j :=
  force_e_aux M i j hi hj

/-- the driver's tabulated triple product has the entries of `F_R · A · E_D` (resp. `F_D · B · E_R`) -/
theorem mul3Forced_e (X Y Z : LMat R) (h : X.cols = Y.rows) (i j : ℕ) (hi : i < X.rows) (hj : j < Z.cols) :
    (LMat.mul3Forced X Y Z).e i j = (X.mul (Y.mul Z)).e i j := by
  unfold LMat.mul3Forced
  rw [force_e_aux (X.mul (Y.mul Z).force) i j hi hj, mul_e, mul_e]
  refine Finset.sum_congr rfl fun k hk => ?_
  rw [force_e_aux (Y.mul Z) k j (by show k < Y.rows; rw [← h]; exact mem_range.mp hk) hj]

/-- **get_matrix, function-backed model.**  `get_matrix()` has shape `(range_dim, domain_dim)`, its
    column `j` is `forward(e_j)`, and it is the matrix `F_R · A · E_D`. -/
theorem getMatrix_columns (M : LinModel R) (hs : M.WellShaped) (hfn : M.matrixBacked = false) (i j : ℕ)
    (hj : j < M.dom.parDim) :
    M.getMatrix.rows = M.rng.parDim ∧ M.getMatrix.cols = M.dom.parDim ∧
    M.getMatrix.e i j = M.fwdPar (unit j) i ∧ M.getMatrix.e i j = M.fwdMat.e i j := by
  have h : M.getMatrix = columnsOf M.rng.parDim M.dom.parDim M.fwdPar := by simp [LinModel.getMatrix, hfn]
  rw [h]
  refine ⟨rfl, rfl, rfl, ?_⟩
  show M.fwdPar (unit j) i = _
  rw [fwdPar_eq, matrix_columns]
  show j < M.dom.E.cols
  rw [hs.domE_cols]; exact hj

/-! ## the adjoint criterion -/

/-- **adjoint_iff.**  `⟨forward x, y⟩ = ⟨x, adjoint y⟩` for all parameter vectors iff the matrix
    `F_D · B · E_R` of `adjoint` is the transpose of the matrix `F_R · A · E_D` of `forward`. -/
theorem adjoint_iff (M : LinModel R) (hs : M.WellShaped) :
    (∀ x y : ℕ → R, ip M.rng.parDim (M.fwdPar x) y = ip M.dom.parDim x (M.adjPar y))
      ↔ ∀ i, i < M.rng.parDim → ∀ j, j < M.dom.parDim → M.adjMat.e j i = M.fwdMat.e i j := by
  have hc : M.adjMat.cols = M.fwdMat.rows := by
    show M.rng.E.cols = M.rng.F.rows
    rw [hs.rngE_cols, hs.rngF_rows]
  have hrows : M.fwdMat.rows = M.rng.parDim := hs.rngF_rows
  have hcols : M.fwdMat.cols = M.dom.parDim := hs.domE_cols
  rw [← hrows, ← hcols, ← adjoint_iff_aux M.fwdMat M.adjMat hc]
  constructor
  · intro h x y
    rw [← ip_congr _ _ _ _ _ (fun i _ => fwdPar_eq M x i) (fun _ _ => rfl),
        ← ip_congr _ _ _ _ _ (fun _ _ => rfl) (fun i _ => adjPar_eq M y i)]
    exact h x y
  · intro h x y
    rw [ip_congr _ _ _ _ _ (fun i _ => fwdPar_eq M x i) (fun _ _ => rfl),
        ip_congr _ _ _ _ _ (fun _ _ => rfl) (fun i _ => adjPar_eq M y i)]
    exact h x y

/-- **adjoint_of_orthogonal_geoms.**  If for both geometries `fun2par` is the transpose of `par2fun`
    and the adjoint function is the transpose of the forward function, the adjoint identity holds —
    any matrix, any sizes. -/
theorem adjoint_of_orthogonal_geoms (M : LinModel R) (hs : M.WellShaped)
    (hD : M.dom.Orthogonal) (hR : M.rng.Orthogonal)
    (hB : ∀ a b, a < M.dom.funDim → b < M.rng.funDim → M.B.e a b = M.A.e b a) (x y : ℕ → R) :
    ip M.rng.parDim (M.fwdPar x) y = ip M.dom.parDim x (M.adjPar y) :=
  (adjoint_iff M hs).mpr (fun i hi j hj => adjMat_eq_fwdMat_transpose M hs hD hR hB i j hi hj) x y

/-- identity-like geometries (`Continuous1D`, `Discrete`, default 1-D, visual-only images): `F = Eᵀ` -/
theorem ident_orthogonal (n : ℕ) : (Geom.ident n : Geom R).Orthogonal := by
  intro p q _ _
  simp only [Geom.ident, LMat.identity]
  by_cases h : p = q
  · simp [h]
  · have : ¬ q = p := fun h' => h h'.symm
    simp [h, this]

/-- image geometries (`Image2D`, `Continuous2D`, default 2-D) of every shape, C or F order: `F = Eᵀ` -/
theorem image_orthogonal (r c : ℕ) (orderF sq : Bool) : (Geom.image r c orderF sq : Geom R).Orthogonal := by
  intro p q _ _
  rfl

/-- **Matrix-backed models on reshaping / identity-like geometries** (this covers `Deconvolution1D`,
    `Abel1D` with the default field, the legacy circulant models): the adjoint identity holds. -/
theorem adjoint_matrixBacked (A : LMat R) (dom rng : Geom R)
    (hs : (LinModel.ofMatrix A dom rng).WellShaped) (hD : dom.Orthogonal) (hR : rng.Orthogonal) (x y : ℕ → R) :
    ip rng.parDim ((LinModel.ofMatrix A dom rng).fwdPar x) y
      = ip dom.parDim x ((LinModel.ofMatrix A dom rng).adjPar y) :=
  adjoint_of_orthogonal_geoms (LinModel.ofMatrix A dom rng) hs hD hR (fun _ _ _ _ => rfl) x y

/-- well-shapedness of a matrix-backed model on identity-like geometries -/
theorem wellShaped_ofMatrix_ident (A : LMat R) :
    (LinModel.ofMatrix A (Geom.ident A.cols) (Geom.ident A.rows)).WellShaped := by
  constructor <;> rfl

/-- a 2×3 integer matrix used in the non-vacuity examples -/
def exA : LMat ℤ := LMat.ofRows 2 3 #[#[1, 2, 3], #[4, 5, 6]]

example : ip 2 ((LinModel.ofMatrix exA (Geom.ident 3) (Geom.ident 2)).fwdPar (unit 2)) (unit 1)
    = ip 3 (unit 2) ((LinModel.ofMatrix exA (Geom.ident 3) (Geom.ident 2)).adjPar (unit 1)) :=
  adjoint_matrixBacked exA (Geom.ident 3) (Geom.ident 2) (wellShaped_ofMatrix_ident exA)
    (ident_orthogonal 3) (ident_orthogonal 2) _ _

/-- **get_matrix, matrix-backed model on identity-like geometries**: the stored matrix is the
    parameter-to-parameter forward matrix. -/
theorem getMatrix_matrixBacked_ident (A : LMat R) (i j : ℕ) (hi : i < A.rows) (hj : j < A.cols) :
    (LinModel.ofMatrix A (Geom.ident A.cols) (Geom.ident A.rows)).getMatrix.e i j
      = (LinModel.ofMatrix A (Geom.ident A.cols) (Geom.ident A.rows)).fwdMat.e i j := by
  rw [fwdMat_e]
  simp only [LinModel.getMatrix, LinModel.ofMatrix, Geom.ident, LMat.identity, if_true]
  simp [hi, hj, Finset.sum_ite_eq, Finset.sum_ite_eq']


/-! ## expansion geometries: where the code's `adjoint` is *not* the transpose -/

/-- **Step expansion, partial.**  With the mean projection, `fun2par` is the transpose of `par2fun`
    as soon as every step holds exactly one grid node (e.g. `n_steps = len(grid)`); then the adjoint
    identity follows from `adjoint_of_orthogonal_geoms`.  (With ≥ 2 nodes in a step it fails:
    `step_adjoint_counterexample`.) -/
theorem step_orthogonal_partial {K : Type} [Field K] (n s : ℕ) (h : ∀ i, i < s → stepCount n s i = 1) :
    (Geom.step n s : Geom K).Orthogonal := by
  intro p q hp _
  have hp' : p < s := hp
  simp only [Geom.step, h p hp']
  split_ifs <;> simp

/-- in particular `StepExpansion(grid, n_steps = len(grid))`, every grid size -/
theorem step_full_orthogonal {K : Type} [Field K] (m : ℕ) : (Geom.step (m + 1) (m + 1) : Geom K).Orthogonal :=
  step_orthogonal_partial (m + 1) (m + 1) (fun i hi => stepCount_full m i (by omega))

example : (Geom.step 3 3 : Geom ℚ).Orthogonal :=
  step_orthogonal_partial 3 3 (by decide)

/-- the model `LinearModel(np.eye(2), domain_geometry=StepExpansion(grid of 2 nodes, n_steps=1))` -/
def stepModel : LinModel ℚ := LinModel.ofMatrix (LMat.identity 2) (Geom.step 2 1) (Geom.ident 2)

/-- **Negative result (known finding `LinearModel:adjoint:*:expansion:*`).**  For the step-expansion
    model above `⟨forward x, y⟩ = 1` but `⟨x, adjoint y⟩ = 1/2` at `x = (1)`, `y = (1, 0)`. -/
theorem step_adjoint_counterexample :
    ¬ ∀ x y : ℕ → ℚ, ip stepModel.rng.parDim (stepModel.fwdPar x) y = ip stepModel.dom.parDim x (stepModel.adjPar y) := by
  intro h
  have := h (unit 0) (unit 0)
  norm_num [stepModel, LinModel.ofMatrix, LinModel.fwdPar, LinModel.adjPar, LMat.apply, LMat.transpose,
    LMat.identity, Geom.step, Geom.ident, inStep, stepCount, sumTo, ip, unit] at this

/-- **Negative result (known finding `LinearModel:get_matrix:mb:expansion:*`).**  For the same
    matrix-backed model `get_matrix()` is the stored 2×2 matrix although the forward map has one
    parameter (`domain_dim = 1`). -/
theorem getMatrix_matrixBacked_counterexample :
    stepModel.getMatrix.cols = 2 ∧ stepModel.dom.parDim = 1 := by
  constructor <;> rfl

/-! ## the transposed model -/

/-- **transpose_swaps, partial.**  When both geometries only reshape (identity-like or image
    geometries), `M.T.forward = M.adjoint` and `M.T.adjoint = M.forward` as maps, no shape error occurs,
    and the matrix `T` reports for a matrix-backed model is the transposed matrix. -/
theorem transpose_swaps_partial (M : LinModel R) (hD : M.dom.reshapeLike = true) (hR : M.rng.reshapeLike = true)
    (x y : ℕ → R) :
    M.tOk = true ∧ M.tFwdPar y = M.adjPar y ∧ M.tAdjPar x = M.fwdPar x ∧
    (M.matrixBacked = true → M.tGetMatrix = M.getMatrix.transpose) := by
  refine ⟨by simp [LinModel.tOk, Geom.reOk, hD, hR], ?_, ?_, ?_⟩
  · simp [LinModel.tFwdPar, LinModel.adjPar, Geom.reE, Geom.reF, hD, hR]
  · simp [LinModel.tAdjPar, LinModel.fwdPar, Geom.reE, Geom.reF, hD, hR]
  · intro hm; simp [LinModel.tGetMatrix, LinModel.getMatrix, hm]

example : (LinModel.ofMatrix exA (Geom.ident 3) (Geom.image 1 2 true)).tFwdPar (unit 1)
    = (LinModel.ofMatrix exA (Geom.ident 3) (Geom.image 1 2 true)).adjPar (unit 1) :=
  (transpose_swaps_partial _ rfl rfl (unit 0) (unit 1)).2.1

/-- for a function-backed model on reshaping geometries the matrix of `T` is the matrix of `adjoint` -/
theorem transpose_getMatrix_fn (M : LinModel R) (hs : M.WellShaped) (hD : M.dom.reshapeLike = true)
    (hR : M.rng.reshapeLike = true) (hfn : M.matrixBacked = false) (i j : ℕ) (hi : i < M.rng.parDim) :
    M.tGetMatrix.e j i = M.adjMat.e j i := by
  have h : M.tGetMatrix = columnsOf M.dom.parDim M.rng.parDim M.tFwdPar := by simp [LinModel.tGetMatrix, hfn]
  rw [h]
  show M.tFwdPar (unit i) j = _
  rw [(transpose_swaps_partial M hD hR (unit 0) (unit i)).2.1, adjPar_eq, matrix_columns]
  show i < M.rng.E.cols
  rw [hs.rngE_cols]; exact hi

/-- `M.T.forward` / `M.T.adjoint` are the actions of the matrices the driver prints for them
    (`tFwdMat`, `tAdjMat`: the geometry maps applied twice) -/
theorem transpose_maps_eq_matrices (M : LinModel R) (hs : M.WellShaped) (x y : ℕ → R) :
    (∀ i, i < M.dom.parDim → M.tFwdPar y i = M.tFwdMat.apply y i) ∧
    (∀ i, i < M.rng.parDim → M.tAdjPar x i = M.tAdjMat.apply x i) :=
  ⟨fun i hi => tFwdPar_eq M hs y i hi, fun i hi => tAdjPar_eq M hs x i hi⟩

/-- a one-parameter model whose range geometry is the linear map `p ↦ 4p` (`MappedGeometry`) -/
def scaleModel : LinModel ℚ :=
  LinModel.ofMatrix (LMat.identity 1) (Geom.ident 1)
    (Geom.leaf 1 1 ⟨1, 1, fun _ _ => 4⟩ ⟨1, 1, fun _ _ => 1 / 4⟩ false)

/-- **Negative result (known finding `LinearModel:T:*:expansion:*`).**  `T` applies the range
    geometry twice: `T.forward(1) = 16` while `adjoint(1) = 4`. -/
theorem transpose_counterexample : scaleModel.tFwdPar (unit 0) 0 ≠ scaleModel.adjPar (unit 0) 0 := by
  norm_num [scaleModel, LinModel.ofMatrix, LinModel.tFwdPar, LinModel.adjPar, LMat.apply, LMat.transpose,
    LMat.identity, Geom.leaf, Geom.ident, Geom.reE, Geom.reF, sumTo, unit]

/-! ## convolution operators of the test problems -/

/-- **conv_periodic_adjoint / conv_zero_adjoint, 1-D.**  For an odd PSF size and periodic (`wrap`) or
    zero (`constant`) extension, convolution with the reversed PSF is the transpose of the
    convolution — every signal length `n`, every PSF, every half-width `k`. -/
theorem conv1_flip_adjoint (m : Ext) (hm : m = .wrap ∨ m = .constant) (k n : ℕ) (P : ℕ → R)
    (u w : ℕ) (hu : u < n) (hw : w < n) :
    (conv1 m (2 * k + 1) (flip1 (2 * k + 1) P) n).e w u = (conv1 m (2 * k + 1) P n).e u w := by
  rcases hm with rfl | rfl
  · exact conv1_flip_transpose _ k n P (shiftSymm_wrap n) u w hu hw
  · exact conv1_flip_transpose _ k n P (shiftSymm_constant n) u w hu hw

/-- **conv_periodic_adjoint / conv_zero_adjoint, 2-D.**  The same for `_proj_forward_2D` /
    `_proj_backward_2D` on `n × n` images with an odd `s × s` PSF. -/
theorem conv2_flip_adjoint (m : Ext) (hm : m = .wrap ∨ m = .constant) (k n : ℕ) (P : ℕ → ℕ → R)
    (i j : ℕ) (hi : i < n * n) (hj : j < n * n) :
    (conv2 m (2 * k + 1) (flip2 (2 * k + 1) P) n).e j i = (conv2 m (2 * k + 1) P n).e i j := by
  rcases hm with rfl | rfl
  · exact conv2_flip_transpose _ k n P (shiftSymm_wrap n) i j hi hj
  · exact conv2_flip_transpose _ k n P (shiftSymm_constant n) i j hi hj

/-- **Deconvolution2D, periodic or zero boundary, odd PSF size: the adjoint identity holds** for
    every image size, every PSF (symmetric or not) and all `x, y`. -/
theorem deconv2d_adjoint_partial (m : Ext) (hm : m = .wrap ∨ m = .constant) (k n : ℕ) (P : ℕ → ℕ → R)
    (x y : ℕ → R) :
    ip (n * n) ((deconv2dModel m (2 * k + 1) P n).fwdPar x) y
      = ip (n * n) x ((deconv2dModel m (2 * k + 1) P n).adjPar y) := by
  have hs : (deconv2dModel m (2 * k + 1) P n).WellShaped := by constructor <;> rfl
  exact adjoint_of_orthogonal_geoms (deconv2dModel m (2 * k + 1) P n) hs
    (image_orthogonal n n false false) (image_orthogonal n n false false)
    (fun a b ha hb => conv2_flip_adjoint m hm k n P b a hb ha) x y

/-- an asymmetric integer PSF `P[a,b] = 2a + b + 1` -/
def P0 : ℕ → ℕ → ℤ := fun a b => (2 * a + b + 1 : ℕ)

example : ip 4 ((deconv2dModel .wrap 3 P0 2).fwdPar (unit 1)) (unit 2)
    = ip 4 (unit 1) ((deconv2dModel .wrap 3 P0 2).adjPar (unit 2)) :=
  deconv2d_adjoint_partial .wrap (Or.inl rfl) 1 2 P0 _ _

/-- **Deconvolution2D, Neumann boundary (`np.pad(…, 'symmetric')`), odd PSF size, PSF symmetric
    along both axes (Gauss and Moffat PSFs of odd size): the adjoint identity holds** for every image
    size and all `x, y`.  (For PSFs without that symmetry it fails: `conv_reflect_counterexample`.) -/
theorem deconv2d_adjoint_neumann_partial (k n : ℕ) (P : ℕ → ℕ → R)
    (hP1 : ∀ a b, a < 2 * k + 1 → P (2 * k + 1 - 1 - a) b = P a b)
    (hP2 : ∀ a b, b < 2 * k + 1 → P a (2 * k + 1 - 1 - b) = P a b) (x y : ℕ → R) :
    ip (n * n) ((deconv2dModel .reflect (2 * k + 1) P n).fwdPar x) y
      = ip (n * n) x ((deconv2dModel .reflect (2 * k + 1) P n).adjPar y) := by
  have hs : (deconv2dModel .reflect (2 * k + 1) P n).WellShaped := by constructor <;> rfl
  exact adjoint_of_orthogonal_geoms (deconv2dModel .reflect (2 * k + 1) P n) hs
    (image_orthogonal n n false false) (image_orthogonal n n false false)
    (fun a b ha hb => conv2_reflect_symm k n P hP1 hP2 b a hb ha) x y

/-- a 3×3 PSF symmetric along both axes (heavier centre) -/
def Psym : ℕ → ℕ → ℤ := fun a b => if a = 1 ∧ b = 1 then 2 else 1

example : ip 9 ((deconv2dModel .reflect 3 Psym 3).fwdPar (unit 1)) (unit 5)
    = ip 9 (unit 1) ((deconv2dModel .reflect 3 Psym 3).adjPar (unit 5)) :=
  deconv2d_adjoint_neumann_partial 1 3 Psym
    (fun a b ha => by
      have : a = 0 ∨ a = 1 ∨ a = 2 := by omega
      rcases this with rfl | rfl | rfl <;> simp [Psym])
    (fun a b hb => by
      have : b = 0 ∨ b = 1 ∨ b = 2 := by omega
      rcases this with rfl | rfl | rfl <;> simp [Psym]) _ _

/-- **Negative result (known finding `Deconvolution2D:*:even:*`).**  Even PSF size, periodic
    boundary, 2×2 image: the matrix of `adjoint` is not the transposed matrix of `forward`. -/
theorem conv_even_counterexample :
    ¬ ∀ x y : ℕ → ℤ, ip 4 ((deconv2dModel .wrap 2 P0 2).fwdPar x) y = ip 4 x ((deconv2dModel .wrap 2 P0 2).adjPar y) := by
  intro h
  have h' := (adjoint_iff (deconv2dModel .wrap 2 P0 2) (by constructor <;> rfl)).mp h
  exact absurd (h' 3 (by decide) 0 (by decide)) (by decide)

/-- the same with zero boundary -/
theorem conv_even_zero_counterexample :
    ¬ ∀ x y : ℕ → ℤ, ip 4 ((deconv2dModel .constant 2 P0 2).fwdPar x) y = ip 4 x ((deconv2dModel .constant 2 P0 2).adjPar y) := by
  intro h
  have h' := (adjoint_iff (deconv2dModel .constant 2 P0 2) (by constructor <;> rfl)).mp h
  exact absurd (h' 3 (by decide) 0 (by decide)) (by decide)

/-- **Negative result (known finding `Deconvolution2D:*:BC=neumann:odd:asym`).**  Reflecting
    (`symmetric`) padding, 3×3 asymmetric PSF, 2×2 image. -/
theorem conv_reflect_counterexample :
    ¬ ∀ x y : ℕ → ℤ, ip 4 ((deconv2dModel .reflect 3 P0 2).fwdPar x) y = ip 4 x ((deconv2dModel .reflect 3 P0 2).adjPar y) := by
  intro h
  have h' := (adjoint_iff (deconv2dModel .reflect 3 P0 2) (by constructor <;> rfl)).mp h
  exact absurd (h' 0 (by decide) 1 (by decide)) (by decide)

/-- **Negative result (known finding `Deconvolution2D:*:BC=nearest:odd:*`).**  Edge-replicating padding. -/
theorem conv_nearest_counterexample :
    ¬ ∀ x y : ℕ → ℤ, ip 9 ((deconv2dModel .nearest 3 P0 3).fwdPar x) y = ip 9 x ((deconv2dModel .nearest 3 P0 3).adjPar y) := by
  intro h
  have h' := (adjoint_iff (deconv2dModel .nearest 3 P0 3) (by constructor <;> rfl)).mp h
  exact absurd (h' 0 (by decide) 1 (by decide)) (by decide)

/-- **Negative result (known finding `Deconvolution2D:*:BC=mirror:odd:*`).**  Mirror padding fails even
    for the all-ones (symmetric) 3×3 PSF. -/
theorem conv_mirror_counterexample :
    ¬ ∀ x y : ℕ → ℤ, ip 9 ((deconv2dModel .mirror 3 (fun _ _ => 1) 3).fwdPar x) y
        = ip 9 x ((deconv2dModel .mirror 3 (fun _ _ => 1) 3).adjPar y) := by
  intro h
  have h' := (adjoint_iff (deconv2dModel .mirror 3 (fun _ _ => (1:ℤ)) 3) (by constructor <;> rfl)).mp h
  exact absurd (h' 0 (by decide) 1 (by decide)) (by decide)

/-- **deconv1d_matrix.**  The matrix `Deconvolution1D` stores (`A[i,:] = conv(e_i)`) is the
    *transpose* of the convolution operator — every size, PSF and boundary rule. -/
theorem deconv1d_matrix (m : Ext) (s n : ℕ) (P : ℕ → R) (i j : ℕ) (hi : i < n) :
    (deconv1dMatrix m s P n).e i j = (conv1 m s P n).e j i := by
  show (conv1 m s P n).apply (unit i) j = _
  exact matrix_columns _ _ _ hi

/-- hence it equals the documented operator iff that operator is symmetric; for periodic / zero
    boundary and an odd, reversal-symmetric PSF it is. -/
theorem deconv1d_matrix_symmetric (m : Ext) (hm : m = .wrap ∨ m = .constant) (k n : ℕ) (P : ℕ → R)
    (hP : ∀ a, a < 2 * k + 1 → P (2 * k + 1 - 1 - a) = P a) (i j : ℕ) (hi : i < n) (hj : j < n) :
    (deconv1dMatrix m (2 * k + 1) P n).e i j = (conv1 m (2 * k + 1) P n).e i j := by
  rw [deconv1d_matrix _ _ _ _ _ _ hi, ← conv1_flip_adjoint m hm k n P j i hj hi]
  simp only [conv1, sumTo_eq_sum, flip1]
  exact Finset.sum_congr rfl fun a ha => by rw [hP a (mem_range.mp ha)]

/-- **Negative result (observation for C17; C07 does not demand it).**  For an asymmetric PSF the
    stored matrix differs from the convolution operator. -/
theorem deconv1d_matrix_counterexample :
    (deconv1dMatrix .wrap 3 (fun a => ((a : ℕ) : ℤ) + 1) 3).e 0 1 ≠ (conv1 .wrap 3 (fun a => ((a : ℕ) : ℤ) + 1) 3).e 0 1 := by
  decide

/-- **Deconvolution1D: the adjoint identity holds** (matrix-backed, identity-like geometries) for
    every boundary rule, PSF and size — whatever matrix is stored. -/
theorem deconv1d_adjoint (m : Ext) (s n : ℕ) (P : ℕ → R) (x y : ℕ → R) :
    ip n ((LinModel.ofMatrix (deconv1dMatrix m s P n) (Geom.ident n) (Geom.ident n)).fwdPar x) y
      = ip n x ((LinModel.ofMatrix (deconv1dMatrix m s P n) (Geom.ident n) (Geom.ident n)).adjPar y) :=
  adjoint_matrixBacked _ _ _ (by constructor <;> rfl) (ident_orthogonal n) (ident_orthogonal n) x y

end CuqiVerif.C07
