import CuqiVerif.Model.C01
import CuqiVerif.Proofs.C01
import Mathlib.Algebra.BigOperators.Group.List.Basic
import Mathlib.Tactic.Ring
import Mathlib.Tactic.Tauto

/-!
# C01 — property theorems

All statements are about the executable definitions of `CuqiVerif/Model/C01.lean` that the
driver runs, instantiated at an arbitrary value type `V` and an arbitrary additive commutative
monoid `K` of log-density values (the driver uses rational vectors and rationals).  The
log-density `F.f` of every original factor is an arbitrary function that reads its environment
only at the factor's own name and its conditioning variables (`FOK.loc`).

`st σ F` (Proofs/C01) is the object that stands for the factor `F` inside a joint after the
keyword assignment `σ`: a distribution with some conditioning variables bound, a likelihood,
or an evaluated density.  `Fs.map (st [])` is the freshly constructed joint.
-/
namespace CuqiVerif.C01

variable {V K : Type} [AddCommMonoid K]

/-- well-formed model graph: unique names, every conditioning variable has a prior, no factor
    conditions on itself, conditioning variables listed once, locality of the leaf log-densities -/
structure WF (Fs : List (Factor V K)) : Prop where
  nodup : (Fs.map (·.name)).Nodup
  closed : ∀ F ∈ Fs, ∀ p ∈ F.params, p ∈ Fs.map (·.name)
  fok : ∀ F ∈ Fs, FOK F
  pnodup : ∀ F ∈ Fs, F.params.Nodup

/-- the joint log-density at a complete assignment `ρ` -/
def total (Fs : List (Factor V K)) (ρ : Kw V) : K := (Fs.map (fun F => F.f (kwGet ρ))).sum

/-! ## Conditioning composes: any order, any grouping -/

/-- **`condition_condition` (density list).**  Conditioning the densities of a joint that already
    carries `σ₁` on `σ₂` gives exactly the densities of the joint that carries `σ₁ ++ σ₂`.  No
    assumption on `σ₂`: keys that are already fixed or unknown are filtered away by the joint. -/
theorem condition_condition (Fs : List (Factor V K)) (h : ∀ F ∈ Fs, FOK F) (σ₁ σ₂ : Kw V) :
    mapMCond σ₂ (Fs.map (st σ₁)) = .ok (Fs.map (st (σ₁ ++ σ₂))) := by
  induction Fs with
  | nil => rfl
  | cons F r ih =>
    simp only [List.map_cons, mapMCond, condDens_st F (h F List.mem_cons_self),
      ih (fun G hG => h G (List.mem_cons_of_mem _ hG))]

/-- **Several conditioning calls = one call with the union** (as long as the intermediate result
    is still a joint distribution): `J(**σ₁)(**σ₂)` and `J(**σ₁, **σ₂)` are reduced from the same
    list of densities, whatever the order and grouping of the keywords. -/
theorem condition_steps (Fs : List (Factor V K)) (h : ∀ F ∈ Fs, FOK F) (fl : Flavor) (σ₁ σ₂ : Kw V) :
    condJoint fl (Fs.map (st σ₁)) [] σ₂ = reduce fl (Fs.map (st (σ₁ ++ σ₂))) := by
  simp [condJoint, parseJoint, condition_condition Fs h]

/-- the state after an assignment only depends on the values it gives, not on the order of the
    keywords (this is what makes "any order" hold) -/
theorem st_congr (F : Factor V K) (σ σ' : Kw V) (h : ∀ n, kwGet σ n = kwGet σ' n) : st σ F = st σ' F := by
  have : penv F σ = penv F σ' := by funext n; simp [penv, h]
  simp [st, h, this]

/-! ## Evaluation of a conditioned joint -/

/-- names of the distributions left in the joint after `σ`: the variables `σ` does not fix, in
    the order of the densities -/
theorem jointNames_st (Fs : List (Factor V K)) (σ : Kw V) :
    jointNames (Fs.map (st σ)) = (Fs.filter (fun F => decide (F.name ∉ kwKeys σ))).map (·.name) := by
  induction Fs with
  | nil => rfl
  | cons F r ih =>
    simp only [List.map_cons, jointNames, List.filterMap_cons, List.filter_cons] at ih ⊢
    by_cases hk : F.name ∈ kwKeys σ
    · obtain ⟨d, hd⟩ := Option.isSome_iff_exists.1 ((kwGet_isSome_iff σ F.name).2 hk)
      have : ¬ (st σ F).isDist := by
        simp only [st, hd, toLik]; split_ifs <;> simp [Dens.isDist]
      cases hs : st σ F with
      | dist => simp [hs, Dens.isDist] at this
      | lik => simp [hk, ih]
      | eval => simp [hk, ih]
    · have hn := (kwGet_eq_none_iff σ F.name).2 hk
      simp [st, hn, hk, ih]

/-- every parameter of every density of a conditioned joint is one of the joint's parameters -/
lemma params_closed (Fs : List (Factor V K)) (hw : WF Fs) (σ : Kw V) (F : Factor V K) (hF : F ∈ Fs) :
    ∀ p ∈ (st σ F).paramNames, p ∈ jointNames (Fs.map (st σ)) := by
  intro p hp
  rw [jointNames_st]
  have key : ∀ q, q ∈ Fs.map (·.name) → q ∉ kwKeys σ →
      q ∈ (Fs.filter (fun F => decide (F.name ∉ kwKeys σ))).map (·.name) := by
    intro q hq hnk
    obtain ⟨G, hG, rfl⟩ := List.mem_map.1 hq
    exact List.mem_map.2 ⟨G, List.mem_filter.2 ⟨hG, by simpa using hnk⟩, rfl⟩
  cases h1 : kwGet σ F.name with
  | none =>
    have hst : st σ F = .dist F (penv F σ) 0 := by simp [st, h1]
    rw [hst, Dens.paramNames, List.mem_append] at hp
    rcases hp with hp | hp
    · have := (mem_free_penv F σ p).1 hp
      exact key p (hw.closed F hF p this.1) this.2
    · simp only [List.mem_singleton] at hp; subst hp
      exact key _ (List.mem_map.2 ⟨F, hF, rfl⟩) ((kwGet_eq_none_iff σ F.name).1 h1)
  | some d =>
    have hsub : ∀ q ∈ (st σ F).paramNames, q ∈ free F (penv F σ) := by
      intro q hq
      simp only [st, h1, toLik] at hq
      split_ifs at hq <;> simp_all [Dens.paramNames]
    have := (mem_free_penv F σ p).1 (hsub p hp)
    exact key p (hw.closed F hF p this.1) this.2

lemma sumLogd_st (Fs : List (Factor V K)) (hf : ∀ F ∈ Fs, FOK F) (hp : ∀ F ∈ Fs, F.params.Nodup)
    (σ τ : Kw V) (hτ : ∀ F ∈ Fs, ∀ p ∈ (st σ F).paramNames, p ∈ kwKeys τ) (acc : K) :
    sumLogd τ acc (Fs.map (st σ)) = .ok (acc + total Fs (σ ++ τ)) := by
  induction Fs generalizing acc with
  | nil => simp [sumLogd, total]
  | cons F r ih =>
    simp only [List.map_cons, sumLogd,
      logdDens_st F (hf F List.mem_cons_self) (hp F List.mem_cons_self) σ τ (hτ F List.mem_cons_self)]
    rw [ih (fun G hG => hf G (List.mem_cons_of_mem _ hG)) (fun G hG => hp G (List.mem_cons_of_mem _ hG))
      (fun G hG => hτ G (List.mem_cons_of_mem _ hG))]
    simp [total, add_assoc]

/-- **`condition_logd` (the densities of the conditioned joint).**  For every well-formed model
    graph, every assignment `σ` of any subset of its variables (in any order) and every keyword
    evaluation `τ` that names exactly the variables left free (in any order), the joint made of
    the conditioned densities evaluates to the joint log-density at the complete assignment. -/
theorem condition_logd_unreduced (Fs : List (Factor V K)) (hw : WF Fs) (σ τ : Kw V)
    (hτ : setEq (jointNames (Fs.map (st σ))) (kwKeys τ) = true) :
    logdJoint (Fs.map (st σ)) [] τ = .ok (total Fs (σ ++ τ)) := by
  have hsub : ∀ n ∈ jointNames (Fs.map (st σ)), n ∈ kwKeys τ := by
    simp only [setEq, Bool.and_eq_true, List.all_eq_true, List.contains_iff_mem] at hτ
    exact hτ.1
  simp only [logdJoint, parseJoint, hτ, Bool.not_true, Bool.false_eq_true, if_false]
  rw [sumLogd_st Fs hw.fok hw.pnodup σ τ (fun F hF p hp => hsub p (params_closed Fs hw σ F hF p hp))]
  simp

/-- **`condition_logd` through `JointDistribution.__call__`, joint results.**  Conditioning the
    fresh joint on `σ` and evaluating the result at `τ` gives the joint log-density at `σ ∪ τ`
    whenever at least two variables stay free or none does (the reduction then returns the joint
    itself).  The reductions to `Posterior` / `Distribution` are covered by
    `posterior_eq_lik_plus_prior_plus_consts` and `reduced_distribution_logd`. -/
theorem condition_logd_partial [Stackable V] (Fs : List (Factor V K)) (hw : WF Fs) (σ τ : Kw V)
    (hn : ((Fs.map (st σ)).filter Dens.isDist).length > 1 ∨
          ((Fs.map (st σ)).filter Dens.isDist = [] ∧ (Fs.map (st σ)).filter Dens.isLik = []))
    (hτ : setEq (jointNames (Fs.map (st σ))) (kwKeys τ) = true) :
    ∃ o, condJoint .plain (Fs.map fresh) [] σ = .ok o ∧ o.logd [] τ = .ok (total Fs (σ ++ τ)) := by
  have hfresh : Fs.map fresh = Fs.map (st ([] : Kw V)) := by
    apply List.map_congr_left; intro F _; exact (st_fresh F).symm
  rw [hfresh, condition_steps Fs hw.fok]
  simp only [List.nil_append]
  refine ⟨.joint .plain (Fs.map (st σ)), ?_, ?_⟩
  · rcases hn with hn | ⟨h1, h2⟩
    · simp [reduce, hn]
    · simp [reduce, h1, h2]
  · simpa [Obj.logd] using condition_logd_unreduced Fs hw σ τ hτ


/-! ## Reductions: Posterior and Distribution with constants -/

/-- contribution of a density to the constants: `density.logd()` of an evaluated density -/
def evalPart : Dens V K → K
  | .eval _ v c => v + c
  | _ => 0

/-- `_sum_evaluated_densities` is the sum of the contributions of all fixed variables -/
theorem sumEvals_eq (ds : List (Dens V K)) (acc : K) :
    sumEvals acc ds = acc + (ds.map evalPart).sum := by
  induction ds generalizing acc with
  | nil => simp [sumEvals]
  | cons d r ih => cases d <;> simp [sumEvals, ih, evalPart, add_assoc]

/-- **The posterior obtained by the reduction evaluates to log-likelihood + log-prior + the
    contribution of every fixed variable**, for keyword or positional evaluation alike. -/
theorem posterior_eq_lik_plus_prior_plus_consts (L P : Dens V K) (ds : List (Dens V K))
    (args : List V) (kw : Kw V) (a : List V) (l p : K)
    (hfront : front P.paramNames args kw = .ok a)
    (hl : logdDens L a [] = .ok l) (hp : logdDens P a [] = .ok p) :
    logdPost L P (0 + sumEvals 0 ds) args kw = .ok (l + p + (ds.map evalPart).sum) := by
  simp [logdPost, hfront, hl, hp, sumEvals_eq]

/-- the reduction creates that posterior exactly when one distribution without conditioning
    variables and one single-parameter likelihood are left -/
theorem mkPost_ok (L : Dens V K) (F : Factor V K) (env : Name → Option V) (c s : K)
    (hL : L.paramNames.length ≤ 1) (hP : free F env = []) :
    mkPost L (.dist F env c) s = .ok (.post L (.dist F env c) (0 + s) none) := by
  have : ¬ L.paramNames.length > 1 := by omega
  simp [mkPost, this, hP]

/-- **A single remaining distribution carries the constants of all fixed variables.** -/
theorem reduced_distribution_logd (F : Factor V K) (env : Name → Option V) (c : K)
    (ds : List (Dens V K)) (args : List V) (kw : Kw V) (x : V)
    (hfront : front [F.name] args kw = .ok [x]) :
    logdPlain F env (c + sumEvals 0 ds) args kw
      = .ok (F.f (envWith env F.name x) + (c + (ds.map evalPart).sum)) := by
  simp [logdPlain, hfront, sumEvals_eq]

/-! ## Positional = keyword -/

omit [AddCommMonoid K] in
/-- **Positional arguments are keyword arguments in the order of the parameter names.** -/
theorem positional_eq_keyword (names : List Name) (args : List V) (kw : Kw V)
    (hlen : args.length ≤ names.length)
    (hfresh : ∀ n ∈ names.take args.length, n ∉ kwKeys kw) (hnd : names.Nodup) :
    parseJoint names args kw = .ok (kw ++ names.zip args) := by
  induction names generalizing args kw with
  | nil => cases args <;> simp_all [parseJoint]
  | cons n ns ih =>
    cases args with
    | nil => simp [parseJoint]
    | cons a as =>
      have hn : n ∉ kwKeys kw := hfresh n (by simp)
      have hnns : n ∉ ns := (List.nodup_cons.1 hnd).1
      simp only [parseJoint, List.contains_iff_mem, hn, if_false, List.zip_cons_cons]
      rw [ih as (kw ++ [(n, a)]) (by simpa using hlen) _ (List.nodup_cons.1 hnd).2]
      · simp
      · intro m hm
        have hm' : m ∈ ns := List.mem_of_mem_take hm
        have : m ∉ kwKeys kw := hfresh m (by simp [List.take_succ_cons, hm])
        simp only [kwKeys, List.map_append, List.mem_append, not_or] at this ⊢
        refine ⟨this, ?_⟩
        simp only [List.map_cons, List.map_nil, List.mem_singleton]
        rintro rfl; exact hnns hm'

/-! ## Refusals -/

/-- **Missing or unknown variables are refused**: if the keys (after adding the positional
    arguments) are not exactly the parameter names, the evaluation raises. -/
theorem logd_refuses_keys (ds : List (Dens V K)) (args : List V) (kw kw' : Kw V)
    (hparse : parseJoint (jointNames ds) args kw = .ok kw')
    (h : setEq (jointNames ds) (kwKeys kw') = false) :
    logdJoint ds args kw = .error .value := by
  simp [logdJoint, hparse, h]

/-- conversely a number is only returned for exactly the parameter names -/
theorem logd_ok_keys (ds : List (Dens V K)) (args : List V) (kw : Kw V) (v : K)
    (h : logdJoint ds args kw = .ok v) :
    ∃ kw', parseJoint (jointNames ds) args kw = .ok kw' ∧ setEq (jointNames ds) (kwKeys kw') = true := by
  unfold logdJoint at h
  cases hp : parseJoint (jointNames ds) args kw with
  | error e => simp [hp] at h
  | ok kw' =>
    refine ⟨kw', rfl, ?_⟩
    by_contra hs
    have hs' : setEq (jointNames ds) (kwKeys kw') = false := by simpa using hs
    simp [hp, hs'] at h

omit [AddCommMonoid K] in
/-- **Doubly specified variables are refused**: a variable passed by position and by keyword. -/
theorem logd_refuses_double (names : List Name) (args : List V) (kw : Kw V) (hnd : names.Nodup)
    (n : Name) (hn : n ∈ names.take args.length) (hk : n ∈ kwKeys kw) :
    parseJoint names args kw = .error .value := by
  induction names generalizing args kw with
  | nil => simp at hn
  | cons m ns ih =>
    cases args with
    | nil => simp at hn
    | cons a as =>
      simp only [parseJoint, List.contains_iff_mem]
      by_cases hm : m ∈ kwKeys kw
      · simp [hm]
      · simp only [hm, if_false]
        have hne : n ≠ m := fun h => hm (h ▸ hk)
        apply ih as (kw ++ [(m, a)]) (List.nodup_cons.1 hnd).2
        · simpa [List.take_succ_cons, hne] using hn
        · simp [kwKeys] at hk ⊢; exact Or.inl hk

omit [AddCommMonoid K] in
/-- more positional arguments than parameters are refused -/
theorem logd_refuses_toomany (names : List Name) (args : List V) (kw : Kw V)
    (h : names.length < args.length) : ∃ e, parseJoint names args kw = .error e := by
  induction names generalizing args kw with
  | nil => cases args with
    | nil => simp at h
    | cons a as => exact ⟨_, rfl⟩
  | cons m ns ih =>
    cases args with
    | nil => simp at h
    | cons a as =>
      simp only [parseJoint]
      split_ifs
      · exact ⟨_, rfl⟩
      · exact ih as _ (by simpa using h)

/-! ## Stacked and multiple-likelihood views -/

/-- **Stacked view: splitting the concatenation gives the pieces back** (every number of
    variables, every dimension).  `np.split(np.hstack(xs), cumsum(dims)[:-1]) = xs`. -/
theorem stacked_split_concat {α : Type} (xs : List (List α)) (hne : xs ≠ []) :
    splitAtDims (xs.map List.length) xs.flatten = xs := by
  induction xs with
  | nil => exact absurd rfl hne
  | cons x r ih =>
    cases r with
    | nil => simp [splitAtDims]
    | cons y r' =>
      have := ih (by simp)
      simp only [List.map_cons, List.flatten_cons] at this ⊢
      simp only [splitAtDims, List.take_left', List.drop_left']
      rw [this]

/-- **The stacked view evaluates to the same number as the joint**: the stacked vector of the
    values `xs` (of the declared dimensions) gives `logd(name₁ = xs₁, …)`. -/
theorem stacked_eq_joint {α : Type} (ds : List (Dens (List α) K)) (xs : List (List α))
    (hdims : jointDims ds = xs.map List.length) (hne : xs ≠ []) :
    (Obj.joint .stacked ds).logd [xs.flatten] [] = logdJoint ds [] ((jointNames ds).zip xs) := by
  simp only [Obj.logd, logdStacked, Stackable.split, hdims, stacked_split_concat xs hne]

/-- **The multiple-likelihood posterior evaluates as the joint of its densities.** -/
theorem mlp_eq_joint [Stackable V] (ds : List (Dens V K)) (args : List V) (kw : Kw V) :
    (Obj.joint .mlp ds).logd args kw = logdJoint ds args kw := rfl


/-! ## Non-vacuity and negation witnesses (concrete instances, `V = List ℤ`, `K = ℤ`) -/

section Examples

private def g (ρ : Name → Option (List Int)) (n : Name) : Int := ((ρ n).getD []).sum

/-- the hierarchical model of the class docstring with one more hyper-parameter:
    `y | x, s`, `x | z`, `z`, `s` -/
def docFs : List (Factor (List Int) Int) :=
  [⟨"y", ["x", "s"], 2, fun ρ => -(g ρ "s") * (g ρ "y" - 2 * g ρ "x") ^ 2⟩,
   ⟨"x", ["z"], 2, fun ρ => -(g ρ "z") * (g ρ "x") ^ 2⟩,
   ⟨"z", [], 1, fun ρ => -(g ρ "z")⟩,
   ⟨"s", [], 1, fun ρ => -2 * (g ρ "s")⟩]

theorem docFs_wf : WF docFs := by
  refine ⟨by decide, ?_, ?_, ?_⟩
  · intro F hF p hp
    simp only [docFs, List.mem_cons, List.not_mem_nil, or_false] at hF
    rcases hF with rfl | rfl | rfl | rfl <;>
      simp only [docFs, List.map_cons, List.map_nil, List.mem_cons, List.not_mem_nil, or_false] at hp ⊢ <;> tauto
  · intro F hF
    simp only [docFs, List.mem_cons, List.not_mem_nil, or_false] at hF
    rcases hF with rfl | rfl | rfl | rfl <;>
      refine ⟨by decide, by decide, fun ρ ρ' h => ?_⟩ <;> simp_all [g]
  · intro F hF
    simp only [docFs, List.mem_cons, List.not_mem_nil, or_false] at hF
    rcases hF with rfl | rfl | rfl | rfl <;> decide

def isErr {α : Type} : Except Err α → Bool | .error _ => true | .ok _ => false

/-- the hypotheses of `condition_logd_partial` are satisfiable: condition the docstring model on
    the data `y` and evaluate at the three remaining variables (in a different order) -/
example : ∃ o, condJoint .plain (docFs.map fresh) [] [("y", [3, 1])] = .ok o ∧
    o.logd [] [("s", [2]), ("x", [1, 0]), ("z", [5])] = .ok (total docFs ([("y", [3, 1])] ++ [("s", [2]), ("x", [1, 0]), ("z", [5])])) :=
  condition_logd_partial docFs docFs_wf _ _ (Or.inl (by decide)) (by decide)

/-- the value in that instance: `-2·(4-2)² - 5·1² - 5 - 4 = -22` -/
example : total docFs ([("y", [3, 1])] ++ [("s", [2]), ("x", [1, 0]), ("z", [5])]) = -22 := by decide

/-- **Known finding (negation witness): several steps are *not* always possible.**  After the
    docstring model has been reduced to a `Posterior` over `x`, fixing `x` by keyword is refused
    (the posterior has no name), although fixing it by position or after naming it works. -/
theorem posterior_keyword_condition_counterexample :
    ∃ o, condJoint .plain (docFs.map fresh) [] [("y", [3, 1]), ("s", [2]), ("z", [5])] = .ok o ∧
      o.kind = "Posterior" ∧
      isErr (o.cond [] [("x", [1, 0])]) = true ∧
      (∃ o', o.cond [[1, 0]] [] = .ok o' ∧ o'.logd [] [] = .ok (-22)) ∧
      (∃ o₁ o₂, o.setName "x" = .ok o₁ ∧ o₁.cond [] [("x", [1, 0])] = .ok o₂ ∧ o₂.logd [] [] = .ok (-22)) := by
  refine ⟨_, rfl, by decide, by decide, ⟨_, rfl, by decide⟩, ⟨_, _, rfl, rfl, by decide⟩⟩

/-- **Known finding (negation witness): the stacked view does not refuse a vector that is too
    short or too long.**  With `x ∈ ℝ²`, `z ∈ ℝ` left free, a stacked vector of length 2 (the
    variable `z` is missing) and one of length 4 are evaluated instead of being refused. -/
theorem stacked_short_accepted_counterexample :
    ∃ o s, condJoint .plain (docFs.map fresh) [] [("y", [3, 1]), ("s", [2])] = .ok o ∧
      o.asStacked = .ok s ∧
      s.logd [[1, 0, 5]] [] = .ok (-22) ∧
      isErr (s.logd [[1, 0]] []) = false ∧ isErr (s.logd [[1, 0, 5, 7]] []) = false := by
  refine ⟨_, _, rfl, rfl, by decide, by decide, by decide⟩

end Examples

end CuqiVerif.C01
