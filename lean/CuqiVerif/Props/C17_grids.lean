import CuqiVerif.Model.C17_grids
import Mathlib.Data.Rat.Defs
import Mathlib.Algebra.Order.Field.Basic
import Mathlib.Tactic.Ring
import Mathlib.Tactic.FieldSimp
import Mathlib.Tactic.NormNum
import Mathlib.Tactic.Linarith

/-!
# C17 — grids of `Poisson1D`, `Heat1D`, `Abel1D` (`Model/C17_grids.lean`): property theorems

The `np.linspace` expressions of the constructors in exact arithmetic, for every size and end point.
-/

set_option linter.unusedSectionVars false
set_option linter.unusedVariables false
set_option linter.unusedSimpArgs false

namespace CuqiVerif.C17

/-- **heat_grid_uniform.**  `Heat1D`: `np.linspace(dx, endpoint, N, endpoint=False)` with
    `dx = endpoint/(N+1)` IS the set of interior nodes of the difference scheme: node `k` sits at
    `(k+1)·dx`, spacing exactly `dx` — the grid of both geometries matches the operator `Dxx`. -/
theorem heat_grid_uniform (dim : ℕ) (ep : ℚ) (k : ℕ) (hd : 0 < dim) :
    heatGrid dim ep k = ((k : ℚ) + 1) * heatDxQ dim ep := by
  have h1 : (dim : ℚ) ≠ 0 := by exact_mod_cast (Nat.pos_iff_ne_zero.mp hd)
  have h2 : (dim : ℚ) + 1 ≠ 0 := by positivity
  simp only [heatGrid, linspaceOpen, heatDxQ]
  field_simp
  ring

example : heatGrid 3 1 2 = 3 / 4 := by norm_num [heatGrid, linspaceOpen, heatDxQ]

/-- **heat_time_uniform.**  `np.linspace(0, max_time, max_iter+1)`: time level `k` is `k·max_time/max_iter`
    — every step of the Euler loop has the same length `heatDt max_time max_iter` (closes the gap
    "the time grid is modelled as uniform"); with `max_iter = 0` there is the single level 0. -/
theorem heat_time_uniform (T : ℚ) (m k : ℕ) :
    (0 < m → heatTime T m k = (k : ℚ) * heatDt T m) ∧ (m = 0 → heatTime T m k = 0) := by
  constructor
  · intro hm
    have h1 : ¬ (m + 1 ≤ 1) := by omega
    simp only [heatTime, linspaceClosed, if_neg h1, heatDt]
    push_cast
    ring_nf
  · intro hm
    subst hm
    simp [heatTime, linspaceClosed]

example : heatTime (1 / 10) 3 2 = 1 / 15 := by norm_num [heatTime, linspaceClosed]

/-- **abel_nodes_linspace.**  `Abel1D`: `np.linspace(h/2, endpoint−h/2, N)` with `h = endpoint/N` are the
    midpoints `h/2 + j·h` (`abelT`, the nodes the quadrature theorem `abel_assembled_eq_documented`
    is about), for every `N ≥ 1`. -/
theorem abel_nodes_linspace (n : ℕ) (ep : ℚ) (j : ℕ) (hn : 0 < n) (hj : j < n) :
    abelTvec n ep j = abelT n ep j := by
  simp only [abelTvec, linspaceClosed, abelT]
  by_cases h1 : n ≤ 1
  · have : n = 1 := by omega
    subst this
    have : j = 0 := by omega
    subst this
    simp
  · rw [if_neg h1]
    have h2 : (n : ℚ) ≠ 0 := by exact_mod_cast (Nat.pos_iff_ne_zero.mp hn)
    have h3 : (n : ℚ) - 1 ≠ 0 := by
      have : (2 : ℚ) ≤ n := by exact_mod_cast (by omega : 2 ≤ n)
      linarith
    field_simp
    ring

example : abelTvec 4 1 2 = 5 / 8 := by norm_num [abelTvec, linspaceClosed]

/-- **poisson_source_nodes.**  `Poisson1D` samples the source term on
    `np.linspace(dx, endpoint, N, endpoint=False)`, `dx = endpoint/N`: node `k` of that grid is
    `(k+1)·dx − k·dx/N`, i.e. it lags the node `(k+1)·dx` of the difference scheme by `k·dx/N`; the two
    coincide only for `k = 0` (an observation about the pinned code: the right-hand side is sampled
    up to almost one cell to the left of the equation it enters). -/
theorem poisson_source_nodes (dim : ℕ) (ep : ℚ) (k : ℕ) (hd : 2 ≤ dim) :
    poissonSrcGrid dim ep k = poissonFdNode dim ep k - (k : ℚ) * (poissonDxQ dim ep / ((dim - 1 : ℕ) : ℚ)) ∧
    (ep ≠ 0 → (poissonSrcGrid dim ep k = poissonFdNode dim ep k ↔ k = 0)) := by
  have hN : (((dim - 1 : ℕ)) : ℚ) ≠ 0 := by exact_mod_cast (by omega : dim - 1 ≠ 0)
  have h1 : poissonSrcGrid dim ep k = poissonFdNode dim ep k - (k : ℚ) * (poissonDxQ dim ep / ((dim - 1 : ℕ) : ℚ)) := by
    simp only [poissonSrcGrid, linspaceOpen, poissonFdNode, poissonDxQ]
    field_simp
    ring
  refine ⟨h1, fun hep => ?_⟩
  rw [h1]
  have hdx : poissonDxQ dim ep / ((dim - 1 : ℕ) : ℚ) ≠ 0 := by
    simp only [poissonDxQ]
    exact div_ne_zero (div_ne_zero hep hN) hN
  constructor
  · intro h
    have : (k : ℚ) * (poissonDxQ dim ep / ((dim - 1 : ℕ) : ℚ)) = 0 := by linarith
    rcases mul_eq_zero.mp this with h0 | h0
    · exact_mod_cast h0
    · exact absurd h0 hdx
  · intro h; subst h; simp

example : poissonSrcGrid 5 2 3 = 13 / 8 ∧ poissonFdNode 5 2 3 = 2 := by
  constructor <;> norm_num [poissonSrcGrid, linspaceOpen, poissonFdNode, poissonDxQ]

/-- **poisson_grids_coincide_iff.**  The grid on which the solution is said to live (`grid_range`,
    starting at `1/(dim−1)`) and the grid on which the source is sampled (starting at
    `dx = endpoint/(dim−1)`) are the same grid exactly when `endpoint = 1` (the default). -/
theorem poisson_grids_coincide_iff (dim : ℕ) (ep : ℚ) (hd : 2 ≤ dim) :
    (∀ k, poissonSolGrid dim ep k = poissonSrcGrid dim ep k) ↔ ep = 1 := by
  have hN : (((dim - 1 : ℕ)) : ℚ) ≠ 0 := by exact_mod_cast (by omega : dim - 1 ≠ 0)
  constructor
  · intro h
    have h0 := h 0
    simp only [poissonSolGrid, poissonSrcGrid, linspaceOpen, poissonDxQ, Nat.cast_zero, zero_mul, add_zero] at h0
    field_simp at h0
    linarith
  · intro h k
    subst h
    simp [poissonSolGrid, poissonSrcGrid, poissonDxQ]

example : poissonSolGrid 5 2 0 = 1 / 4 ∧ poissonSrcGrid 5 2 0 = 1 / 2 := by
  constructor <;> norm_num [poissonSolGrid, poissonSrcGrid, linspaceOpen, poissonDxQ]

end CuqiVerif.C17
