import CuqiVerif.Model.C18_interp
import CuqiVerif.Props.C18
import Mathlib.Tactic.Ring
import Mathlib.Tactic.Linarith
import Mathlib.Tactic.NormNum
import Mathlib.Data.Rat.Defs

/-!
# C18 — the quadratic interpolating spline of `SteadyStateLinearPDE.observe` (session 3)

Theorems about the executable definitions of `CuqiVerif/Model/C18_interp.lean`
(`interp1d(grid_sol, solution, kind='quadratic')(grid_obs)` computed exactly; driver ops `obsq`,
`interpq`, `tpp … exact`, compared with scipy's floating-point values on every run).
-/

set_option linter.unusedSectionVars false
set_option linter.unusedVariables false

namespace CuqiVerif.C18

/-- **deBoor2_linear.**  The value of the spline at a point is linear in the coefficient vector
    (knots and interval fixed) — hence the interpolated observation is linear in the coefficients. -/
theorem deBoor2_linear (t c d : ℕ → ℚ) (a : ℚ) (l : ℕ) (x : ℚ) :
    deBoor2 t (fun i => a * c i + d i) l x = a * deBoor2 t c l x + deBoor2 t d l x := by
  unfold deBoor2
  ring

/-- **deBoor2_partition_of_unity.**  Constant coefficients give the constant spline, whatever the
    knots: the three B-spline weights used on an interval sum to one. -/
theorem deBoor2_partition_of_unity (t : ℕ → ℚ) (k : ℚ) (l : ℕ) (x : ℚ) :
    deBoor2 t (fun _ => k) l x = k := by
  unfold deBoor2
  ring

/-- **deBoor2_local.**  Only the three coefficients `c_{l-2}, c_{l-1}, c_l` of the interval enter. -/
theorem deBoor2_local (t c d : ℕ → ℚ) (l : ℕ) (x : ℚ)
    (h0 : c (l - 2) = d (l - 2)) (h1 : c (l - 1) = d (l - 1)) (h2 : c l = d l) :
    deBoor2 t c l x = deBoor2 t d l x := by
  unfold deBoor2
  rw [h0, h1, h2]

/-- **deBoor2_at_left_knot.**  At the left end of a non-degenerate knot interval (`t_{l-1} < t_l =
    x`, `t_l < t_{l+1}`) the value is the convex combination of `c_{l-2}` and `c_{l-1}` with weight
    `(t_l − t_{l−1})/(t_{l+1} − t_{l−1})` — `c_l` does not enter (continuity across the knot). -/
theorem deBoor2_at_left_knot (t c : ℕ → ℚ) (l : ℕ) (h : t l < t (l + 1)) :
    deBoor2 t c l (t l) =
      (1 - (t l - t (l - 1)) / (t (l + 1) - t (l - 1))) * c (l - 2)
        + (t l - t (l - 1)) / (t (l + 1) - t (l - 1)) * c (l - 1) := by
  unfold deBoor2
  simp

/-- **interp1dQuadratic_spec_partial.**  Whenever the modelled `interp1d(gs, u, 'quadratic')(go)`
    returns, it returns one value per observation point, in the order given; there are at least three
    distinct nodes; every observation point lies within the node range; and all values are those of
    ONE quadratic spline (knots `quadKnots x`, coefficients `c`) whose coefficients satisfy the
    collocation system `B c = y` on the sorted nodes exactly.
    (Partial: that `B c = y` *is* "the spline takes the value `y_i` at node `x_i`" needs
    `Σ_j c_j B_j(x_i) = S_c(x_i)`, i.e. `deBoor2_linear` summed over the unit vectors; that summation
    over the list representation is not carried out here — the tie checks it against scipy at every
    coinciding node.)
    Full statement: `… ∧ ∀ i < x.length, quadSplineAt t c x[i] = y[i]`. -/
theorem interp1dQuadratic_spec_partial (solveLin : List (List ℚ) → List ℚ → Option (List ℚ))
    (gs u go v : List ℚ) (h : interp1dQuadratic solveLin gs u go = .ok v) :
    ∃ c : List ℚ,
      let pairs := sortByFst (gs.zip u)
      let x := pairs.map (·.1)
      let y := pairs.map (·.2)
      3 ≤ x.length ∧ strictlyIncreasing x = true ∧ c.length = x.length ∧
      (quadColloc (quadKnots x) x).map (fun row => rowDot row c) = y ∧
      (∀ p ∈ go, x.headD 0 ≤ p ∧ p ≤ x.getLastD 0) ∧
      v = go.map (fun p => quadSplineAt (quadKnots x) c p) ∧ v.length = go.length := by
  unfold interp1dQuadratic at h
  simp only at h
  split at h
  · cases h
  · split at h
    · cases h
    · rename_i h3
      split at h
      · cases h
      · rename_i hinc
        split at h
        · cases h
        · rename_i c hc
          split at h
          · cases h
          · rename_i hcert
            split at h
            · cases h
            · rename_i hb
              simp only [Except.ok.injEq] at h
              refine ⟨c, by omega, by simpa using hinc, ?_, ?_, ?_, h.symm, by rw [← h]; simp⟩
              · by_contra hne; exact hcert (Or.inl hne)
              · by_contra hne; exact hcert (Or.inr hne)
              · intro p hp
                simp only [List.any_eq_true, decide_eq_true_eq, not_exists, not_and, not_or, not_lt] at hb
                exact hb p hp

/-- `u = x²` on the nodes `0, 1, 2` (one parabola: coefficients `0, 0, 4` on the knots `0,0,0,2,2,2`)
    is reproduced between the nodes -/
example : (interp1dQuadratic (fun _ _ => some [0, 0, 4]) [0, 1, 2] [0, 1, 4] [1/2, 3/2, 2]).toOption
    = some [1/4, 9/4, 4] := by decide +kernel

/-- unsorted nodes are sorted along with their values; a point outside the node range is refused -/
example : (interp1dQuadratic (fun _ _ => some [0, 0, 4]) [2, 0, 1] [4, 0, 1] [1/2]).toOption = some [1/4]
    ∧ (interp1dQuadratic (fun _ _ => some [0, 0, 4]) [2, 0, 1] [4, 0, 1] [5/2]).toOption = none := by
  decide +kernel

end CuqiVerif.C18
