import CuqiVerif.Model.C18_interp
import CuqiVerif.Props.C18
import CuqiVerif.Proofs.C18_interp
import Mathlib.Tactic.Ring
import Mathlib.Tactic.Linarith
import Mathlib.Tactic.NormNum
import Mathlib.Data.Rat.Defs

/-!
# C18 — the quadratic interpolating spline of `SteadyStateLinearPDE.observe` (session 3)

Theorems about the executable definitions of `CuqiVerif/Model/C18_interp.lean`
(`interp1d(grid_sol, solution, kind='quadratic')(grid_obs)` computed exactly; driver ops `obsq`,
`interpq`, `tpp … exact`, compared with scipy's floating-point values on every run).
-/

set_option linter.unusedSectionVars false
set_option linter.unusedVariables false

namespace CuqiVerif.C18

/-- **deBoor2_linear.**  The value of the spline at a point is linear in the coefficient vector
    (knots and interval fixed) — hence the interpolated observation is linear in the coefficients. -/
theorem deBoor2_linear (t c d : ℕ → ℚ) (a : ℚ) (l : ℕ) (x : ℚ) :
    deBoor2 t (fun i => a * c i + d i) l x = a * deBoor2 t c l x + deBoor2 t d l x := by
  unfold deBoor2
  ring

/-- **deBoor2_partition_of_unity.**  Constant coefficients give the constant spline, whatever the
    knots: the three B-spline weights used on an interval sum to one. -/
theorem deBoor2_partition_of_unity (t : ℕ → ℚ) (k : ℚ) (l : ℕ) (x : ℚ) :
    deBoor2 t (fun _ => k) l x = k := by
  unfold deBoor2
  ring

/-- **deBoor2_local.**  Only the three coefficients `c_{l-2}, c_{l-1}, c_l` of the interval enter. -/
theorem deBoor2_local (t c d : ℕ → ℚ) (l : ℕ) (x : ℚ)
    (h0 : c (l - 2) = d (l - 2)) (h1 : c (l - 1) = d (l - 1)) (h2 : c l = d l) :
    deBoor2 t c l x = deBoor2 t d l x := by
  unfold deBoor2
  rw [h0, h1, h2]

/-- **deBoor2_at_left_knot.**  At the left end of a non-degenerate knot interval (`t_{l-1} < t_l =
    x`, `t_l < t_{l+1}`) the value is the convex combination of `c_{l-2}` and `c_{l-1}` with weight
    `(t_l − t_{l−1})/(t_{l+1} − t_{l−1})` — `c_l` does not enter (continuity across the knot). -/
theorem deBoor2_at_left_knot (t c : ℕ → ℚ) (l : ℕ) (h : t l < t (l + 1)) :
    deBoor2 t c l (t l) =
      (1 - (t l - t (l - 1)) / (t (l + 1) - t (l - 1))) * c (l - 2)
        + (t l - t (l - 1)) / (t (l + 1) - t (l - 1)) * c (l - 1) := by
  unfold deBoor2
  simp

/-- **interp1dQuadratic_spec_partial.**  Whenever the modelled `interp1d(gs, u, 'quadratic')(go)`
    returns, it returns one value per observation point, in the order given; there are at least three
    distinct nodes; every observation point lies within the node range; and all values are those of
    ONE quadratic spline (knots `quadKnots x`, coefficients `c`) whose coefficients satisfy the
    collocation system `B c = y` on the sorted nodes exactly.
    (Partial: that `B c = y` *is* "the spline takes the value `y_i` at node `x_i`" needs
    `Σ_j c_j B_j(x_i) = S_c(x_i)`, i.e. `deBoor2_linear` summed over the unit vectors; that summation
    over the list representation is not carried out here — the tie checks it against scipy at every
    coinciding node.)
    Full statement: `… ∧ ∀ i < x.length, quadSplineAt t c x[i] = y[i]`. -/
theorem interp1dQuadratic_spec_partial (solveLin : List (List ℚ) → List ℚ → Option (List ℚ))
    (gs u go v : List ℚ) (h : interp1dQuadratic solveLin gs u go = .ok v) :
    ∃ c : List ℚ,
      let pairs := sortByFst (gs.zip u)
      let x := pairs.map (·.1)
      let y := pairs.map (·.2)
      3 ≤ x.length ∧ strictlyIncreasing x = true ∧ c.length = x.length ∧
      (quadColloc (quadKnots x) x).map (fun row => rowDot row c) = y ∧
      (∀ p ∈ go, x.headD 0 ≤ p ∧ p ≤ x.getLastD 0) ∧
      v = go.map (fun p => quadSplineAt (quadKnots x) c p) ∧ v.length = go.length := by
  unfold interp1dQuadratic at h
  simp only at h
  split at h
  · cases h
  · split at h
    · cases h
    · rename_i h3
      split at h
      · cases h
      · rename_i hinc
        split at h
        · cases h
        · rename_i c hc
          split at h
          · cases h
          · rename_i hcert
            split at h
            · cases h
            · rename_i hb
              simp only [Except.ok.injEq] at h
              refine ⟨c, by omega, by simpa using hinc, ?_, ?_, ?_, h.symm, by rw [← h]; simp⟩
              · by_contra hne; exact hcert (Or.inl hne)
              · by_contra hne; exact hcert (Or.inr hne)
              · intro p hp
                simp only [List.any_eq_true, decide_eq_true_eq, not_exists, not_and, not_or, not_lt] at hb
                exact hb p hp


/-! ## nodal reproduction and linearity in the data (second pass) -/

open Finset in
/-- **quadSpline_colloc_row.**  Row `i` of the collocation system is the spline itself: for a
    coefficient list `c` of length `n`, `Σ_j B_j(ξ)·c_j = S_c(ξ)` at every point `ξ` (the `B_j` being the
    splines of the unit coefficient vectors, exactly as `quadColloc` tabulates them). -/
theorem quadSpline_colloc_row (t c : List ℚ) (n : ℕ) (hc : c.length = n) (xi : ℚ) :
    rowDot ((List.range n).map fun j => quadSplineAt t (unitVec n j) xi) c = quadSplineAt t c xi := by
  rw [rowDot_range n _ c hc]
  unfold quadSplineAt
  simp only [unitVec_length, hc, deBoor2_weights]
  simp only [add_mul, mul_assoc, Finset.sum_add_distrib, ← Finset.mul_sum]
  rw [sum_unit_mul n _ c hc, sum_unit_mul n _ c hc, sum_unit_mul n _ c hc]

/-- **quadSpline_nodal_reproduction.**  A coefficient list that passes the collocation certificate
    `B c = y` gives a spline that takes the value `y_i` at node `x_i`, for every node. -/
theorem quadSpline_nodal_reproduction (t x c y : List ℚ) (hc : c.length = x.length)
    (h : (quadColloc t x).map (fun row => rowDot row c) = y) :
    x.map (fun xi => quadSplineAt t c xi) = y := by
  rw [← h]
  unfold quadColloc
  simp only [List.map_map]
  apply List.map_congr_left
  intro xi _
  exact (quadSpline_colloc_row t c x.length hc xi).symm

/-- **interp1dQuadratic_spec.**  The full statement left open in `interp1dQuadratic_spec_partial`:
    whenever the modelled `interp1d(gs, u, 'quadratic')(go)` returns `v`, there is ONE quadratic spline
    `S` (knots `quadKnots x`, coefficients `c`) on the sorted nodes `x` with values `y` such that
    `S(x_i) = y_i` at **every node** and `v_a = S(go_a)` for every observation point, in the order
    given; at least three distinct nodes; every observation point within the node range. -/
theorem interp1dQuadratic_spec (solveLin : List (List ℚ) → List ℚ → Option (List ℚ))
    (gs u go v : List ℚ) (h : interp1dQuadratic solveLin gs u go = .ok v) :
    ∃ c : List ℚ,
      let pairs := sortByFst (gs.zip u)
      let x := pairs.map (·.1)
      let y := pairs.map (·.2)
      3 ≤ x.length ∧ strictlyIncreasing x = true ∧ c.length = x.length ∧
      x.map (fun xi => quadSplineAt (quadKnots x) c xi) = y ∧
      (∀ p ∈ go, x.headD 0 ≤ p ∧ p ≤ x.getLastD 0) ∧
      v = go.map (fun p => quadSplineAt (quadKnots x) c p) ∧ v.length = go.length := by
  obtain ⟨c, h3, hinc, hlen, hcert, hb, hv, hvl⟩ := interp1dQuadratic_spec_partial solveLin gs u go v h
  exact ⟨c, h3, hinc, hlen, quadSpline_nodal_reproduction _ _ c _ hlen hcert, hb, hv, hvl⟩

/-- **quadSplineAt_linear.**  With knots and length fixed the spline value is linear in the coefficient
    list: `S_{a·c+d}(p) = a·S_c(p) + S_d(p)` (entrywise combination of lists of equal length). -/
theorem quadSplineAt_linear (t c d : List ℚ) (hcd : c.length = d.length) (a p : ℚ) :
    quadSplineAt t (List.zipWith (fun x y => a * x + y) c d) p = a * quadSplineAt t c p + quadSplineAt t d p := by
  unfold quadSplineAt
  have hl : (List.zipWith (fun x y => a * x + y) c d).length = c.length := by simp [hcd]
  rw [hl, ← hcd, ← deBoor2_linear]
  congr 1
  funext i
  by_cases hi : i < c.length
  · have hi' : i < d.length := hcd ▸ hi
    simp [List.getD_eq_getElem?_getD, hi, hi']
  · have hi' : ¬ i < d.length := hcd ▸ hi
    simp [List.getD_eq_getElem?_getD, hi, hi']

/-- **quadSpline_linear_in_data.**  Linearity of the interpolation in the nodal values: on fixed nodes
    `x` (knots `t`), if `cu`, `cv`, `cw` pass the collocation certificate for the data `yu`, `yv` and
    `a·yu + yv`, and the collocation system is uniquely solvable (`hinj`: two coefficient lists with
    the same collocation values are equal — the Schoenberg–Whitney condition, an assumption here), then
    the interpolant of the combined data is the combination of the interpolants, at every point. -/
theorem quadSpline_linear_in_data (t x cu cv cw yu yv : List ℚ) (a : ℚ)
    (hu : cu.length = x.length) (hv : cv.length = x.length) (hw : cw.length = x.length)
    (hyu : yu.length = x.length) (hyv : yv.length = x.length)
    (eu : (quadColloc t x).map (fun row => rowDot row cu) = yu)
    (ev : (quadColloc t x).map (fun row => rowDot row cv) = yv)
    (ew : (quadColloc t x).map (fun row => rowDot row cw) = List.zipWith (fun p q => a * p + q) yu yv)
    (hinj : ∀ c c' : List ℚ, c.length = x.length → c'.length = x.length →
      x.map (fun xi => quadSplineAt t c xi) = x.map (fun xi => quadSplineAt t c' xi) → c = c') (p : ℚ) :
    quadSplineAt t cw p = a * quadSplineAt t cu p + quadSplineAt t cv p := by
  have nu := quadSpline_nodal_reproduction t x cu yu hu eu
  have nv := quadSpline_nodal_reproduction t x cv yv hv ev
  have nw := quadSpline_nodal_reproduction t x cw _ hw ew
  have hcomb : (List.zipWith (fun x y => a * x + y) cu cv).length = x.length := by simp [hu, hv]
  have : cw = List.zipWith (fun x y => a * x + y) cu cv := by
    apply hinj cw _ hw hcomb
    rw [nw, ← nu, ← nv]
    apply List.ext_getElem
    · simp
    · intro i h1 h2
      simp [quadSplineAt_linear t cu cv (hu.trans hv.symm)]
  rw [this, quadSplineAt_linear t cu cv (hu.trans hv.symm)]

/-- non-vacuity: the parabola data of the examples below pass the certificate with `c = [0, 0, 4]` -/
example : (quadColloc (quadKnots [0, 1, 2]) [0, 1, 2]).map (fun row => rowDot row [0, 0, 4]) = [0, 1, 4] := by
  decide +kernel

/-- `u = x²` on the nodes `0, 1, 2` (one parabola: coefficients `0, 0, 4` on the knots `0,0,0,2,2,2`)
    is reproduced between the nodes -/
example : (interp1dQuadratic (fun _ _ => some [0, 0, 4]) [0, 1, 2] [0, 1, 4] [1/2, 3/2, 2]).toOption
    = some [1/4, 9/4, 4] := by decide +kernel

/-- unsorted nodes are sorted along with their values; a point outside the node range is refused -/
example : (interp1dQuadratic (fun _ _ => some [0, 0, 4]) [2, 0, 1] [4, 0, 1] [1/2]).toOption = some [1/4]
    ∧ (interp1dQuadratic (fun _ _ => some [0, 0, 4]) [2, 0, 1] [4, 0, 1] [5/2]).toOption = none := by
  decide +kernel

end CuqiVerif.C18
