import CuqiVerif.Model.C10_gammadim
import CuqiVerif.Props.C10

/-!
# C10 — "non-scalar Gamma is rejected": the prior's dimension and the number of variates drawn (session-3 extension)

Theorems about `Model/C10_gammadim.lean` (driver ops `gammadim`, `validateg`): `prior.dim` as the code computes it
(`Distribution.geometry` getter: inference from `len(shape)`, `len(rate)`, precedence of an explicit geometry), the
validators composed with it, and the number of variates `np.random.gamma` is asked for in one step.
-/

namespace CuqiVerif.C10

/-- **When is the prior univariate for the code?**  For parameter arrays of lengths `a, r ≥ 1` (what
    `force_ndarray` stores; a scalar has length 1): `prior.dim = 1` iff both parameters are scalars and the
    geometry is absent or 1-dimensional.  All three ways of making the Gamma non-scalar (vector shape, vector
    rate, `geometry=k`) are seen by the test `prior.dim != 1`. -/
theorem gammaPriorDim_eq_one_iff (a r : ℕ) (g : Option ℕ) (ha : 1 ≤ a) (hr : 1 ≤ r) :
    gammaPriorDim a r g = .dim 1 ↔ a = 1 ∧ r = 1 ∧ (g = none ∨ g = some 1) := by
  unfold gammaPriorDim inferDim
  have hmax : max (max 0 a) r = max a r := by rw [Nat.zero_max]
  simp only [List.foldl_cons, List.foldl_nil, hmax]
  have hne : max a r ≠ 0 := by omega
  simp only [hne, if_false]
  cases g with
  | none =>
    simp only [DimRes.dim.injEq, reduceCtorEq, or_false, and_true]
    omega
  | some k =>
    simp only [reduceCtorEq, false_or, Option.some.injEq]
    split_ifs with h
    · simp only [false_iff]
      omega
    · simp only [DimRes.dim.injEq]
      omega

example : gammaPriorDim 1 1 (some 1) = .dim 1 :=
  (gammaPriorDim_eq_one_iff 1 1 (some 1) le_rfl le_rfl).2 ⟨rfl, rfl, Or.inr rfl⟩

/-- the explicit geometry takes precedence over scalar parameters: `Gamma(2, 3, geometry=k)` is `k`-dimensional -/
theorem gammaPriorDim_geometry (k : ℕ) : gammaPriorDim 1 1 (some k) = .dim k := by
  unfold gammaPriorDim inferDim
  simp

example : gammaPriorDim 1 1 (some 3) = .dim 3 := gammaPriorDim_geometry 3

/-- an inconsistent geometry is a `TypeError` (such a prior cannot be put into a `Posterior`) -/
theorem gammaPriorDim_inconsistent (a r k : ℕ) (hk : k ≠ 0) (hm : 1 < max a r) (hne : k ≠ max a r) :
    gammaPriorDim a r (some k) = .typeError := by
  unfold gammaPriorDim inferDim
  have hmax : max (max 0 a) r = max a r := by rw [Nat.zero_max]
  simp only [List.foldl_cons, List.foldl_nil, hmax]
  have h0 : max a r ≠ 0 := by omega
  simp [h0, hm, hk, hne]

example : gammaPriorDim 2 1 (some 3) = .typeError := gammaPriorDim_inconsistent 2 1 3 (by decide) (by decide) (by decide)

/-- one scalar draw per step iff both prior parameters are scalars -/
theorem drawnDim_eq_one_iff (a r : ℕ) : drawnDim a r = some 1 ↔ a = 1 ∧ r = 1 := by
  unfold drawnDim
  dsimp only
  constructor
  · intro h
    split_ifs at h with hc
    · simp only [Option.some.injEq] at h
      omega
  · rintro ⟨rfl, rfl⟩
    simp

example : drawnDim 1 1 = some 1 := (drawnDim_eq_one_iff 1 1).2 ⟨rfl, rfl⟩

/-- **Everything the experimental `Conjugate` accepts has a scalar Gamma prior and is served by exactly one
    scalar draw per step** — with the prior's dimension computed the way the code computes it, for every
    `(len shape, len rate, geometry)`, every likelihood description. -/
theorem validateExp_gamma_scalar (t t' : Target) (a r : ℕ) (g : Option ℕ) (ha : 1 ≤ a) (hr : 1 ≤ r)
    (ht : withGammaPrior t a r g = some t') (hok : validateExp t' = .ok) :
    a = 1 ∧ r = 1 ∧ (g = none ∨ g = some 1) ∧ drawnDim a r = some 1 ∧ gammaPriorDim a r g = .dim 1 := by
  unfold withGammaPrior at ht
  cases hd : gammaPriorDim a r g with
  | dim k =>
    rw [hd] at ht
    simp only [Option.some.injEq] at ht
    have hk : t'.priorDim = 1 := (validateExp_ok_imp t' hok).2.2.1
    rw [← ht] at hk
    simp only at hk
    subst hk
    obtain ⟨h1, h2, h3⟩ := (gammaPriorDim_eq_one_iff a r g ha hr).1 hd
    exact ⟨h1, h2, h3, (drawnDim_eq_one_iff a r).2 ⟨h1, h2⟩, rfl⟩
  | typeError => rw [hd] at ht; simp at ht
  | valueError => rw [hd] at ht; simp at ht

example : validateExp { (⟨true, .gmrf, true, 0, true, true,
    [⟨"mean", false, false, []⟩, ⟨"prec", true, true, [[1], [10], [100]]⟩]⟩ : Target) with priorGamma := true, priorDim := 1 } = .ok := by
  have hid : identityCheck [[1], [10], [100]] = true := by
    simpa using identityCheck_accepts_scaled_identity 1 (by norm_num)
  simp [validateExp, checkParameter, hid]

/-- the three ways of making the Gamma non-scalar are all rejected by the experimental `Conjugate` -/
theorem validateExp_rejects_nonscalar_gamma_all_ways (t t' : Target) (a r : ℕ) (g : Option ℕ) (ha : 1 ≤ a) (hr : 1 ≤ r)
    (ht : withGammaPrior t a r g = some t')
    (hns : 1 < a ∨ 1 < r ∨ (∃ k, g = some k ∧ k ≠ 1)) : validateExp t' ≠ .ok := by
  intro hok
  obtain ⟨h1, h2, h3, -, -⟩ := validateExp_gamma_scalar t t' a r g ha hr ht hok
  rcases hns with h | h | ⟨k, hk, hk1⟩
  · omega
  · omega
  · rcases h3 with h3 | h3
    · rw [h3] at hk; cases hk
    · rw [h3] at hk; cases hk; exact hk1 rfl

example : validateExp { (⟨true, .gaussian, true, 0, true, true, []⟩ : Target) with priorGamma := true, priorDim := 3 } ≠ .ok :=
  validateExp_rejects_nonscalar_gamma_all_ways ⟨true, .gaussian, true, 0, true, true, []⟩ _ 1 1 (some 3) le_rfl le_rfl
    (by simp [withGammaPrior, gammaPriorDim_geometry]) (Or.inr (Or.inr ⟨3, rfl, by decide⟩))

/-- the same for the legacy `Conjugate` and the experimental `ConjugateApprox`: they test `prior.dim` too -/
theorem validateLegacy_gamma_scalar (t t' : Target) (a r : ℕ) (g : Option ℕ) (ha : 1 ≤ a) (hr : 1 ≤ r)
    (ht : withGammaPrior t a r g = some t') (hok : validateLegacy t' = .ok) :
    a = 1 ∧ r = 1 ∧ drawnDim a r = some 1 := by
  unfold withGammaPrior at ht
  cases hd : gammaPriorDim a r g with
  | dim k =>
    rw [hd] at ht
    simp only [Option.some.injEq] at ht
    have hk : t'.priorDim = 1 := by
      unfold validateLegacy at hok
      by_contra hne
      split_ifs at hok
      all_goals (split at hok <;> simp_all)
    rw [← ht] at hk
    simp only at hk
    subst hk
    obtain ⟨h1, h2, -⟩ := (gammaPriorDim_eq_one_iff a r g ha hr).1 hd
    exact ⟨h1, h2, (drawnDim_eq_one_iff a r).2 ⟨h1, h2⟩⟩
  | typeError => rw [hd] at ht; simp at ht
  | valueError => rw [hd] at ht; simp at ht

example : validateLegacy { (⟨true, .gaussian, true, 0, true, true, []⟩ : Target) with priorGamma := true, priorDim := 1 } = .ok := by
  decide

theorem validateApprox_gamma_scalar (t t' : Target) (a r : ℕ) (g : Option ℕ) (ha : 1 ≤ a) (hr : 1 ≤ r)
    (ht : withGammaPrior t a r g = some t') (hok : validateApprox t' = .ok) :
    a = 1 ∧ r = 1 ∧ drawnDim a r = some 1 := by
  unfold withGammaPrior at ht
  cases hd : gammaPriorDim a r g with
  | dim k =>
    rw [hd] at ht
    simp only [Option.some.injEq] at ht
    have hk : t'.priorDim = 1 := by
      unfold validateApprox at hok
      by_contra hne
      split_ifs at hok
    rw [← ht] at hk
    simp only at hk
    subst hk
    obtain ⟨h1, h2, -⟩ := (gammaPriorDim_eq_one_iff a r g ha hr).1 hd
    exact ⟨h1, h2, (drawnDim_eq_one_iff a r).2 ⟨h1, h2⟩⟩
  | typeError => rw [hd] at ht; simp at ht
  | valueError => rw [hd] at ht; simp at ht

example : validateApprox { (⟨true, .lmrf, true, 0, true, true,
    [⟨"scale", true, true, [[1 / 1], [1 / 10], [1 / 100]]⟩]⟩ : Target) with priorGamma := true, priorDim := 1 } = .ok := by
  decide +kernel

/-- **Witness of the listed finding `approxleg:no-validation:lmrf:gamma-dim?-by-geometry`, for every `k ≥ 2`:**
    the legacy `ConjugateApprox` accepts an LMRF posterior whose Gamma prior is `k`-dimensional through its
    geometry alone, and one step then draws a single variate for the `k`-dimensional variable. -/
theorem approxLegacy_geometry_counterexample (k : ℕ) (hk : 2 ≤ k) (vars : List MutVar) :
    ∃ t', withGammaPrior ⟨true, .lmrf, true, 0, true, true, vars⟩ 1 1 (some k) = some t' ∧
      validateApproxLegacy t' = .ok ∧ t'.priorDim = k ∧ drawnDim 1 1 = some 1 ∧ (1 : ℕ) ≠ k := by
  refine ⟨{ (⟨true, .lmrf, true, 0, true, true, vars⟩ : Target) with priorGamma := true, priorDim := k }, ?_, ?_, rfl, ?_, ?_⟩
  · simp [withGammaPrior, gammaPriorDim_geometry]
  · simp [validateApproxLegacy]
  · exact (drawnDim_eq_one_iff 1 1).2 ⟨rfl, rfl⟩
  · omega

/-- … whereas with vector parameters (no geometry, or the matching one) the legacy sampler at least draws as many
    variates as the prior has components: the mismatch is specific to the geometry-only case. -/
theorem drawnDim_eq_priorDim_of_no_geometry (a r : ℕ) (ha : 1 ≤ a) (hr : 1 ≤ r) (d : ℕ)
    (hd : drawnDim a r = some d) : gammaPriorDim a r none = .dim d := by
  unfold drawnDim at hd
  dsimp only at hd
  split_ifs at hd with hc
  simp only [Option.some.injEq] at hd
  unfold gammaPriorDim inferDim
  have hmax : max (max 0 a) r = max a r := by rw [Nat.zero_max]
  simp only [List.foldl_cons, List.foldl_nil, hmax]
  have h0 : d ≠ 0 := by omega
  rw [hd]
  simp [h0]

example : gammaPriorDim 3 1 none = .dim 3 := drawnDim_eq_priorDim_of_no_geometry 3 1 (by decide) le_rfl 3 (by decide)

/-! ## `Direct.validate_target` -/

/-- `Direct` accepts exactly the targets whose `sample()` returns: unconditional distributions with a `_sample` of
    their own and `UserDefinedDistribution`s carrying a `sample_func` -/
theorem directValidates_iff (t : DTarget) :
    directValidates t = true ↔ t = .hasSample ∨ t = .userSampleFunc := by
  cases t <;> simp [directValidates]

example : directValidates .userSampleFunc = true := (directValidates_iff _).2 (Or.inr rfl)

/-- the target's sampling routine (`_sample`, resp. the user's `sample_func`) is called once per assignment and once
    per stored state — together with `direct_is_target_sample` (the `N` states are draws `k … k+N-1`, each once): no
    draw of the user's routine is skipped, repeated or made in excess -/
theorem directCalls_eq (t : DTarget) (k N c : ℕ) (h : directCalls t k N = some c) :
    c = k + N ∧ directValidates t = true ∧
      (directRun (fun j => j) N (directValidateN k (chainInit 0 0))).pos = c := by
  unfold directCalls at h
  split_ifs at h with hv
  simp only [Option.some.injEq] at h
  refine ⟨h.symm, hv, ?_⟩
  rw [← h, (directRun_spec _ N _).2.2, directValidateN_spec]
  simp [chainInit]

example : directCalls .userSampleFunc 1 3 = some 4 := by decide

end CuqiVerif.C10
