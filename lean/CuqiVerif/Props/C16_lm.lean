import CuqiVerif.Props.C16_precond

/-!
# C16 — the damping loop of `LM.solve` (session-3, second pass)

Continues "precond theorems" §4 (`lmStep` of `Model/C16.lean` is the transcription of l.527-560: solve, trial point,
gain ratio, accept/reject, `ν` update).  Here: the complete table of the `ν` update in terms of the gain ratio, strict
decrease of accepted steps, and monotonicity of the sum of squares along the *whole trajectory* (the results of
`LM(…, maxit = m).solve()` for increasing `m` — the sequence the harness observes by re-running with `maxit = j`).
-/

set_option linter.unusedSectionVars false
set_option linter.unusedVariables false

namespace CuqiVerif.C16

variable {K : Type} [Field K] [LinearOrder K] [IsStrictOrderedRing K]

section Table
variable {V W M : Type} (oV : VOps K V) (oW : VOps K W) (res : V → W) (jac : V → M) (jtv : M → W → V)
  (insolve : M → K → V → V) (nu0 : K)

/-- **The accept/reject decision and the damping update of one LM pass, completely** (no hypothesis; `ρ = lmRatio` the
    code's `ratio`, `ν` the damping, constants of the code `mu0 = 0, mulow = ¼, muhigh = ¾, omup = 2, omdown = ½`):
    * `ρ < 0`: rejected — `x` kept, `ν' = max(2ν, ν₀)`;
    * `0 ≤ ρ < ¼`: accepted (trial point) — `ν' = max(2ν, ν₀)`;
    * `¼ ≤ ρ ≤ ¾`: accepted — `ν' = ν`;
    * `ρ > ¾`: accepted — `ν' = ν/2`, replaced by `0` (Gauss–Newton) when `ν/2 < ν₀`.
    In every case the pass counter advances by one. -/
theorem lm_damping_update (st : LMState K V W M) :
    let ρ := lmRatio oV oW res insolve st
    let st' := lmStep oV oW res jac jtv insolve nu0 st
    (ρ < 0 → st'.x = st.x ∧ st'.nu = maxK (two * st.nu) nu0) ∧
    (¬ ρ < 0 → ρ < quarter → st'.x = lmTrial oV insolve st ∧ st'.nu = maxK (two * st.nu) nu0) ∧
    (¬ ρ < 0 → ¬ ρ < quarter → ¬ threeQuarters < ρ → st'.x = lmTrial oV insolve st ∧ st'.nu = st.nu) ∧
    (¬ ρ < 0 → ¬ ρ < quarter → threeQuarters < ρ → st'.x = lmTrial oV insolve st ∧
        (¬ half * st.nu < nu0 → st'.nu = half * st.nu) ∧ (half * st.nu < nu0 → st'.nu = 0)) ∧
    st'.i = st.i + 1 := by
  intro ρ st'
  have hρ : ρ = (if st.f - half * oW.nrm2 (res (oV.sub st.x (insolve st.J st.nu st.g))) ≠ 0 ∧
        oV.dot (oV.sub (oV.sub st.x (insolve st.J st.nu st.g)) st.x) st.g ≠ 0
      then -(two * ((st.f - half * oW.nrm2 (res (oV.sub st.x (insolve st.J st.nu st.g)))) /
        oV.dot (oV.sub (oV.sub st.x (insolve st.J st.nu st.g)) st.x) st.g)) else (0 : K)) := rfl
  refine ⟨fun h => ?_, fun h0 h1 => ?_, fun h0 h1 h2 => ?_, fun h0 h1 h2 => ?_, lmStep_i oV oW res jac jtv insolve nu0 st⟩
  · rw [hρ] at h
    show (lmStep oV oW res jac jtv insolve nu0 st).x = st.x ∧ (lmStep oV oW res jac jtv insolve nu0 st).nu = _
    unfold lmStep; simp only; rw [if_pos h]; exact ⟨rfl, rfl⟩
  · rw [hρ] at h0 h1
    show (lmStep oV oW res jac jtv insolve nu0 st).x = _ ∧ (lmStep oV oW res jac jtv insolve nu0 st).nu = _
    unfold lmStep; simp only; rw [if_neg h0, if_pos h1]; exact ⟨rfl, rfl⟩
  · rw [hρ] at h0 h1 h2
    show (lmStep oV oW res jac jtv insolve nu0 st).x = _ ∧ (lmStep oV oW res jac jtv insolve nu0 st).nu = _
    unfold lmStep; simp only; rw [if_neg h0, if_neg h1, if_neg h2]; exact ⟨rfl, rfl⟩
  · rw [hρ] at h0 h1 h2
    refine ⟨?_, fun h3 => ?_, fun h3 => ?_⟩
    · show (lmStep oV oW res jac jtv insolve nu0 st).x = _
      unfold lmStep; simp only; rw [if_neg h0]; rfl
    · show (lmStep oV oW res jac jtv insolve nu0 st).nu = _
      unfold lmStep; simp only; rw [if_neg h0, if_neg h1, if_pos h2, if_neg h3]
    · show (lmStep oV oW res jac jtv insolve nu0 st).nu = _
      unfold lmStep; simp only; rw [if_neg h0, if_neg h1, if_pos h2, if_pos h3]

/-- **An accepted step along a descent direction strictly decreases the sum of squares unless the trial point has
    exactly the same value:** `ρ ≥ 0`, `den < 0`, `ftemp ≠ f` ⇒ `½‖r(x')‖² < ½‖r(x)‖²`. -/
theorem lm_accepted_step_strict (st : LMState K V W M) (hden : lmDen oV insolve st < 0)
    (hacc : ¬ lmRatio oV oW res insolve st < 0) (hne : lmFtemp oV oW res insolve st ≠ st.f) :
    (lmStep oV oW res jac jtv insolve nu0 st).f < st.f := by
  have h1 := ((lmStep_x_f oV oW res jac jtv insolve nu0 st).2 hacc).2.1
  rw [h1]
  exact lt_of_le_of_ne (lm_accept_le oV oW res insolve st hden hacc) hne

end Table

section Trajectory
variable {V W M : Type} [AddCommGroup V] [Module K V] [AddCommGroup W] [Module K W]
variable {oV : VOps K V} {oW : VOps K W} {res : V → W} {jac : V → M} {jtv : M → W → V} {jv : M → V → W}
  {insolve : M → K → V → V}

/-- the loop with budget `a + b` is the loop with budget `b` continued from where budget `a` stopped -/
lemma lmLoop_add (nu0 gradtol ng02 : K) (a b : ℕ) (st : LMState K V W M) :
    lmLoop oV oW res jac jtv insolve nu0 gradtol ng02 (a + b) st
      = lmLoop oV oW res jac jtv insolve nu0 gradtol ng02 b (lmLoop oV oW res jac jtv insolve nu0 gradtol ng02 a st) := by
  induction a generalizing st with
  | zero => simp [lmLoop]
  | succ n ih =>
    rw [Nat.add_right_comm, lmLoop]
    by_cases hc : lmCont st.ng2 ng02 gradtol = true
    · rw [if_pos hc, ih]
      conv_rhs => rw [lmLoop, if_pos hc]
    · rw [if_neg hc]
      conv_rhs => rw [lmLoop, if_neg hc]
      cases b with
      | zero => rfl
      | succ b => rw [lmLoop, if_neg hc]

lemma lmLoop_nu_nonneg (nu0 gradtol ng02 : K) (fuel : ℕ) (st : LMState K V W M) (h : 0 ≤ st.nu) :
    0 ≤ (lmLoop oV oW res jac jtv insolve nu0 gradtol ng02 fuel st).nu := by
  induction fuel generalizing st with
  | zero => exact h
  | succ n ih =>
    rw [lmLoop]
    split_ifs
    · exact ih _ (lmStep_nu_nonneg oV oW res jac jtv insolve nu0 st h)
    · exact h

/-- **The sum of squares is non-increasing along the whole LM trajectory:** with a correct linear solve
    (`LMSetting`), `gradtol ≥ 0`, initial damping `≥ 0`: for `m₁ ≤ m₂` the result of `LM(…, maxit = m₂).solve()` has
    `‖A(x)‖² ≤` that of `LM(…, maxit = m₁).solve()` — every accepted iterate is at least as good as all earlier ones,
    rejected passes change nothing, and the damping stays `≥ 0` throughout. -/
theorem lm_trajectory_monotone (H : LMSetting oV oW res jac jtv jv insolve) (nu0 gradtol : K)
    (hgt : 0 ≤ gradtol) (x0 : V) (nuInit : K) (hnu : 0 ≤ nuInit) (m₁ m₂ : ℕ) (hm : m₁ ≤ m₂) :
    oW.nrm2 (res (lm oV oW res jac jtv insolve nu0 gradtol x0 nuInit m₂).x)
      ≤ oW.nrm2 (res (lm oV oW res jac jtv insolve nu0 gradtol x0 nuInit m₁).x) ∧
    0 ≤ (lm oV oW res jac jtv insolve nu0 gradtol x0 nuInit m₂).nu := by
  obtain ⟨d, rfl⟩ := Nat.exists_eq_add_of_le hm
  have hinv1 := (lm_inv oV oW res jac jtv insolve nu0 gradtol x0 nuInit m₁).1
  have hinv2 := (lm_inv oV oW res jac jtv insolve nu0 gradtol x0 nuInit (m₁ + d)).1
  have hnu1 : 0 ≤ (lm oV oW res jac jtv insolve nu0 gradtol x0 nuInit m₁).nu :=
    lmLoop_nu_nonneg nu0 gradtol _ m₁ _ hnu
  have hsplit : lm oV oW res jac jtv insolve nu0 gradtol x0 nuInit (m₁ + d)
      = lmLoop oV oW res jac jtv insolve nu0 gradtol (lmInit oV oW res jac jtv x0 nuInit).ng2 d
          (lm oV oW res jac jtv insolve nu0 gradtol x0 nuInit m₁) := by
    unfold lm; exact lmLoop_add nu0 gradtol _ m₁ d _
  refine ⟨?_, lmLoop_nu_nonneg nu0 gradtol _ (m₁ + d) _ hnu⟩
  have hf := lmLoop_f_le (nu0 := nu0) (gradtol := gradtol) H hgt (lmInit oV oW res jac jtv x0 nuInit).ng2
    (H.ipV.nonneg _) d _ hinv1 hnu1
  rw [← hsplit] at hf
  have e2 : (lm oV oW res jac jtv insolve nu0 gradtol x0 nuInit (m₁ + d)).f
      = half * oW.nrm2 (res (lm oV oW res jac jtv insolve nu0 gradtol x0 nuInit (m₁ + d)).x) := by
    rw [hinv2.2.2.2.2, hinv2.1]
  have e1 : (lm oV oW res jac jtv insolve nu0 gradtol x0 nuInit m₁).f
      = half * oW.nrm2 (res (lm oV oW res jac jtv insolve nu0 gradtol x0 nuInit m₁).x) := by
    rw [hinv1.2.2.2.2, hinv1.1]
  rw [e1, e2] at hf
  exact le_of_mul_le_mul_left hf half_pos'

end Trajectory

section Examples
example := lm_trajectory_monotone lmSetting1 (1/1000) (1/10) (by norm_num) 0 12 (by norm_num) 3 7 (by norm_num)
example := lm_damping_update (VOps.ofModule ℚ ℚ (· * ·)) (VOps.ofModule ℚ ℚ (· * ·)) (fun x : ℚ => 2 * x - 6)
  (fun _ => (2 : ℚ)) (fun J r => J * r) (fun J nu g => g / (J * J + nu)) (1/1000)
  (lmInit (VOps.ofModule ℚ ℚ (· * ·)) (VOps.ofModule ℚ ℚ (· * ·)) (fun x : ℚ => 2 * x - 6) (fun _ => (2 : ℚ)) (fun J r => J * r) 0 12)
/-- the first pass of the scalar run is accepted with `¼ ≤ ρ ≤ ¾` … executed: `ν` unchanged (12) and `x` moved -/
example : (lmStep (VOps.ofModule ℚ ℚ (· * ·)) (VOps.ofModule ℚ ℚ (· * ·)) (fun x : ℚ => 2 * x - 6) (fun _ => (2 : ℚ))
    (fun J r => J * r) (fun J nu g => g / (J * J + nu)) (1/1000)
    (lmInit (VOps.ofModule ℚ ℚ (· * ·)) (VOps.ofModule ℚ ℚ (· * ·)) (fun x : ℚ => 2 * x - 6) (fun _ => (2 : ℚ)) (fun J r => J * r) 0 12)).x
    = 3 / 4 := by decide +kernel
end Examples

end CuqiVerif.C16
