import CuqiVerif.Model.C04_dim
import Mathlib.Tactic.Common
import Mathlib.Order.Basic

/-!
# C04 — how a distribution obtains its dimension

About `inferLen`, `maxLen`, `resolveDim` of `Model/C04_dim.lean` (driver op `dim`).
-/
namespace CuqiVerif.C04

/-- every parameter is a number, `None` or a callable ⇒ nothing longer than 1 is inferred -/
def ScalarLike : PKind → Prop
  | .none_ | .callable | .number => True
  | _ => False

lemma maxLen_scalarLike (ps : List PKind) (h : ∀ p ∈ ps, ScalarLike p) : ∃ m, maxLen ps = some m ∧ m ≤ 1 := by
  induction ps with
  | nil => exact ⟨0, rfl, by omega⟩
  | cons p t ih =>
    obtain ⟨m, hm, hle⟩ := ih (fun q hq => h q (List.mem_cons_of_mem _ hq))
    have hp := h p (List.mem_cons_self ..)
    cases p <;> simp only [ScalarLike] at hp <;>
      simp only [maxLen, inferLen, hm] <;> refine ⟨_, rfl, ?_⟩ <;> omega

/-- **Scalar broadcast over a geometry.**  If every parameter is a scalar (number, `None`, callable) and a geometry of
    parameter dimension `g ≥ 1` is given, the distribution has dimension `g` — whatever the number of parameters: the
    scalars are broadcast over the geometry (`Normal(0, 1, geometry=Image2D((2,3)))` has dimension 6). -/
theorem resolveDim_scalars_take_geometry (g : ℕ) (hg : g ≠ 0) (ps : List PKind) (h : ∀ p ∈ ps, ScalarLike p) :
    resolveDim (some g) ps = .dim g := by
  obtain ⟨m, hm, hle⟩ := maxLen_scalarLike ps h
  unfold resolveDim
  rw [hm]
  by_cases h0 : m > 0
  · have h1 : ¬ m > 1 := by omega
    simp [h0, h1, hg]
  · simp [h0]

example : resolveDim (some 6) [.number, .number] = .dim 6 :=
  resolveDim_scalars_take_geometry 6 (by decide) _ (by intro p hp; simp at hp; subst hp; trivial)

/-- **A geometry never overrides a longer parameter**: if some parameter has inferred length `i > 1` (the maximum) and
    the geometry's dimension differs, the dimension is refused (TypeError) rather than silently taken from either. -/
theorem resolveDim_mismatch_refused (g i : ℕ) (hg : g ≠ 0) (hi : 1 < i) (hne : g ≠ i) (ps : List PKind)
    (hm : maxLen ps = some i) : resolveDim (some g) ps = .typeError := by
  unfold resolveDim
  rw [hm]
  have : i > 0 := by omega
  simp [this, hi, hg, hne]

example : resolveDim (some 4) [.list 3, .number] = .typeError :=
  resolveDim_mismatch_refused 4 3 (by decide) (by decide) (by decide) _ rfl

/-- **Without a geometry the dimension is the largest inferred length** (when there is one). -/
theorem resolveDim_no_geometry (i : ℕ) (hi : 0 < i) (ps : List PKind) (hm : maxLen ps = some i) :
    resolveDim none ps = .dim i := by
  unfold resolveDim
  rw [hm]
  simp [hi]

example : resolveDim none [.list 2, .arr1 3] = .dim 3 := resolveDim_no_geometry 3 (by decide) _ rfl

/-- witness of the open finding `Gaussian:dim:dok-*`: mean of length 3 and a 3×3 tridiagonal DOK matrix (7 stored entries)
    give dimension 7 -/
theorem resolveDim_dok_counterexample : resolveDim none [.arr1 3, .dok 7] = .dim 7 := rfl

end CuqiVerif.C04
