import CuqiVerif.Model.C09
import CuqiVerif.Proofs.C09
import CuqiVerif.Props.C09
import CuqiVerif.Proofs.C09_kernel
import Mathlib.Probability.Kernel.Invariance
import Mathlib.Probability.Kernel.Composition.MeasureCompProd
import Mathlib.Probability.Kernel.Disintegration.StandardBorel
import Mathlib.MeasureTheory.Constructions.Pi
import Mathlib.MeasureTheory.Constructions.Polish.Basic

/-!
# C09 — Gibbs sweeps leave the joint distribution invariant: general state spaces

General-state-space version of `gibbs_invariant_fintype` (`Props/C09.lean`), in Mathlib's language
of Markov kernels (`ProbabilityTheory.Kernel`), invariance (`Kernel.Invariant κ π : π.bind κ = π`),
composition-product `μ ⊗ₘ κ` and disintegration (`Measure.condKernel`, `Measure.disintegrate`).

Definitions (in `Proofs/C09_kernel.lean`, all with docstrings):
`iterK K m` = `m` transitions; `sweepOf K steps l` = `l.foldl (fun acc i => iterK (K i) (steps i) ∘ₖ acc) id`
— the same fold over the list of block names as `Model/C09.lean: sweep = names.foldl blockUpdate`
with `stepLoop … (nsteps n)` inside; `blockK i k` = "block `i` := a draw from `k x`, `x` the *whole
current* state" (so the block sampler is handed the most recent values of the other blocks — the
property C09 — and starts from the block's current value); `sweepK ks = sweepOf (blockK · (ks ·))`;
`IsFullConditional π i κ : π.map split = π.map rest ⊗ₘ κ`; `CondInvariantK π i κ k`: for
(`π`-almost) every value `c` of the other blocks, `a ↦ k (c with block i := a)` leaves `κ c`
invariant.

What the theorems say about the code: *provided* `HybridGibbs.step` does what `Model/C09.lean`
records (which is what the first file proves about the model and the harness checks against the
implementation) *and* every block sampler is a correct MCMC kernel for the target it is handed
(C02/C06/C08/C10), the sweep — for every order of `par_names`, every `num_sampling_steps`, every
number of sweeps — has the joint posterior as invariant distribution.  The last section shows that
the kernel-level sweep used here and the executable `sweep` of the model are the same scheduling:
on deterministic transition functions the former is the Dirac mass at the latter's result.
-/
namespace CuqiVerif.C09

open MeasureTheory ProbabilityTheory

set_option linter.unusedSectionVars false

/-! ## two blocks, `π = marginal ⊗ₘ conditional` -/

section two
variable {A B : Type*} [MeasurableSpace A] [MeasurableSpace B]

/-- **Update of the second block.**  `π = μ ⊗ₘ κ` (first block `a ~ μ`, then second block
    `b ~ κ a`).  If for `μ`-almost every value `a` of the first block the sampler of the second
    block, `b ↦ k (a, b)`, leaves the conditional `κ a` invariant, then the block update
    `(a, b) ↦ (a, b')`, `b' ~ k (a, b)`, leaves `π` invariant. -/
theorem gibbs_update_snd_invariant (μ : Measure A) [SFinite μ] (κ : Kernel A B) [IsSFiniteKernel κ]
    (k : Kernel (A × B) B) [IsSFiniteKernel k]
    (hk : ∀ᵐ a ∂μ, Kernel.Invariant (k.comap (Prod.mk a) measurable_prodMk_left) (κ a)) :
    Kernel.Invariant (sndK k) (μ ⊗ₘ κ) :=
  invariant_sndK μ κ k hk

/-- **Update of the first block**, the joint written the other way round:
    `π = (ν ⊗ₘ η).map swap` (second block `b ~ ν`, then first block `a ~ η b`). -/
theorem gibbs_update_fst_invariant (ν : Measure B) [SFinite ν] (η : Kernel B A) [IsSFiniteKernel η]
    (k : Kernel (A × B) A) [IsSFiniteKernel k]
    (hk : ∀ᵐ b ∂ν, Kernel.Invariant (k.comap (fun a => (a, b)) measurable_prodMk_right) (η b)) :
    Kernel.Invariant (fstK k) ((ν ⊗ₘ η).map Prod.swap) :=
  invariant_fstK ν η k hk

/-- **Two-block Gibbs sampler.**  `π` on `A × B` disintegrates both ways (`κB` = conditional of the
    second block given the first, `κA` = conditional of the first given the second); each block
    sampler leaves the conditional it is handed invariant, for almost every value of the other
    block.  Then every sweep — any list `order` of blocks (`false` = first, `true` = second; any
    order, repetitions allowed), any per-block number `steps` of inner transitions — and any
    number `nsweeps` of sweeps leave `π` invariant. -/
theorem gibbs_two_block_invariant (π : Measure (A × B)) [SFinite π]
    (κB : Kernel A B) [IsSFiniteKernel κB] (κA : Kernel B A) [IsSFiniteKernel κA]
    (hB : π.fst ⊗ₘ κB = π) (hA : π.snd ⊗ₘ κA = π.map Prod.swap)
    (kA : Kernel (A × B) A) [IsSFiniteKernel kA] (kB : Kernel (A × B) B) [IsSFiniteKernel kB]
    (hkA : ∀ᵐ b ∂π.snd, Kernel.Invariant (kA.comap (fun a => (a, b)) measurable_prodMk_right) (κA b))
    (hkB : ∀ᵐ a ∂π.fst, Kernel.Invariant (kB.comap (Prod.mk a) measurable_prodMk_left) (κB a))
    (order : List Bool) (steps : Bool → ℕ) (nsweeps : ℕ) :
    Kernel.Invariant (iterK (sweepOf (twoK kA kB) steps order) nsweeps) π := by
  have hKB : Kernel.Invariant (sndK kB) π := by
    have := invariant_sndK π.fst κB kB hkB
    rwa [hB] at this
  have hKA : Kernel.Invariant (fstK kA) π := by
    have := invariant_fstK π.snd κA kA hkA
    rwa [hA, Measure.map_map measurable_swap measurable_swap, Prod.swap_swap_eq, Measure.map_id]
      at this
  refine invariant_iterK (invariant_sweepOf _ steps π order fun b _ => ?_) nsweeps
  cases b
  · exact hKA
  · exact hKB

/-- **… on standard Borel blocks the disintegrations exist** (`Measure.condKernel`), so only the
    hypotheses on the samplers remain: for every finite measure `π` on a product of two non-empty
    standard Borel spaces (e.g. `ℝⁿ × ℝᵐ`), block samplers that leave the regular conditional
    distributions invariant give a Gibbs sampler that leaves `π` invariant. -/
theorem gibbs_two_block_invariant_standardBorel
    [StandardBorelSpace A] [Nonempty A] [StandardBorelSpace B] [Nonempty B]
    (π : Measure (A × B)) [IsFiniteMeasure π]
    (kA : Kernel (A × B) A) [IsSFiniteKernel kA] (kB : Kernel (A × B) B) [IsSFiniteKernel kB]
    (hkA : ∀ᵐ b ∂π.snd, Kernel.Invariant (kA.comap (fun a => (a, b)) measurable_prodMk_right)
      ((π.map Prod.swap).condKernel b))
    (hkB : ∀ᵐ a ∂π.fst, Kernel.Invariant (kB.comap (Prod.mk a) measurable_prodMk_left)
      (π.condKernel a))
    (order : List Bool) (steps : Bool → ℕ) (nsweeps : ℕ) :
    Kernel.Invariant (iterK (sweepOf (twoK kA kB) steps order) nsweeps) π := by
  refine gibbs_two_block_invariant π π.condKernel (π.map Prod.swap).condKernel
    (π.disintegrate π.condKernel) ?_ kA kB hkA hkB order steps nsweeps
  have := (π.map Prod.swap).disintegrate (π.map Prod.swap).condKernel
  rwa [Measure.fst_map_swap] at this

/-- the hypotheses of `gibbs_two_block_invariant_standardBorel` hold for *every* probability
    measure on `ℝ × ℝ` with the exact conditional draws as block samplers (second block twice per
    sweep, order second-first-second, three sweeps) -/
example (π : Measure (ℝ × ℝ)) [IsProbabilityMeasure π] :
    Kernel.Invariant (iterK (sweepOf
      (twoK ((π.map Prod.swap).condKernel.comap Prod.snd measurable_snd)
        (π.condKernel.comap Prod.fst measurable_fst))
      (fun b => if b then 2 else 1) [true, false, true]) 3) π := by
  refine gibbs_two_block_invariant_standardBorel π _ _
    (Filter.Eventually.of_forall fun b => ?_) (Filter.Eventually.of_forall fun a => ?_) _ _ _
  all_goals
    rw [Kernel.Invariant]
    ext s hs
    rw [Measure.bind_apply hs (Kernel.aemeasurable _)]
    simp [Kernel.comap_apply]

end two

/-! ## sweeps of kernels that each preserve `π` (no product structure needed) -/

section generic
variable {X : Type*} [MeasurableSpace X] {ι : Type*}

/-- **Sweeps under the explicit hypothesis "each block update preserves `π`"**: any composition
    of the update kernels `K i`, in any order `l`, with any per-block number `steps i` of inner
    transitions, repeated any number of times, preserves `π`.  (The hypothesis is what
    `gibbs_update_snd_invariant` / `gibbs_block_invariant` establish for each coordinate.) -/
theorem sweepOf_invariant_of_each (K : ι → Kernel X X) (π : Measure X) (l : List ι)
    (h : ∀ i ∈ l, Kernel.Invariant (K i) π) (steps : ι → ℕ) (nsweeps : ℕ) :
    Kernel.Invariant (iterK (sweepOf K steps l) nsweeps) π :=
  invariant_iterK (invariant_sweepOf K steps π l h) nsweeps

/-- a chain started in `π` is still distributed as `π` after any number of sweeps -/
theorem law_after_sweeps (K : ι → Kernel X X) (π : Measure X) (l : List ι)
    (h : ∀ i ∈ l, Kernel.Invariant (K i) π) (steps : ι → ℕ) (nsweeps : ℕ) :
    π.bind (iterK (sweepOf K steps l) nsweeps) = π :=
  sweepOf_invariant_of_each K π l h steps nsweeps

/-- the sweep of Markov kernels is a Markov kernel (total mass one from every starting state) -/
theorem sweepOf_isMarkov (K : ι → Kernel X X) [∀ i, IsMarkovKernel (K i)] (steps : ι → ℕ)
    (l : List ι) (nsweeps : ℕ) : IsMarkovKernel (iterK (sweepOf K steps l) nsweeps) :=
  inferInstance

example : Kernel.Invariant (iterK (sweepOf (fun _ : Bool => (Kernel.id : Kernel ℝ ℝ)) (fun _ => 2)
    [true, false]) 3) (Measure.dirac (0 : ℝ)) :=
  sweepOf_invariant_of_each _ _ _ (fun _ _ => invariant_id _) _ _

end generic

/-! ## any family of blocks -/

section pi
variable {ι : Type*} [DecidableEq ι] {α : ι → Type*} [∀ i, MeasurableSpace (α i)]

/-- **Update of block `i` of any family of blocks** (`ι` need not be finite).  `π` disintegrates
    over the other blocks with conditional `κ` (`IsFullConditional`: `π.map split = π.map rest ⊗ₘ κ`);
    for almost every value `c` of the other blocks the block sampler `a ↦ k (c with block i := a)`
    leaves `κ c` invariant (`CondInvariantK`).  Then the block update leaves `π` invariant. -/
theorem gibbs_block_invariant (π : Measure (∀ j, α j)) [SFinite π] (i : ι)
    (κ : Kernel (Rest α i) (α i)) [IsSFiniteKernel κ] (hdis : IsFullConditional π i κ)
    (k : Kernel (∀ j, α j) (α i)) [IsSFiniteKernel k] (hk : CondInvariantK π i κ k) :
    Kernel.Invariant (blockK i k) π :=
  invariant_blockK π i κ hdis k hk

/-- **gibbs_invariant_kernel** — general-state-space version of `gibbs_invariant_fintype`.  For
    every measure `π` on the product of the blocks, every list `l` of blocks (any order,
    repetitions allowed), every per-block number of inner transitions `steps` and every number of
    sweeps: if for every block of the list `π` disintegrates over the other blocks with conditional
    `κ i` and the block sampler `ks i` leaves — for almost every value of the other blocks — that
    conditional invariant, then the Gibbs run leaves `π` invariant. -/
theorem gibbs_invariant_kernel (π : Measure (∀ j, α j)) [SFinite π]
    (κ : ∀ i, Kernel (Rest α i) (α i)) [∀ i, IsSFiniteKernel (κ i)]
    (ks : ∀ i, Kernel (∀ j, α j) (α i)) [∀ i, IsSFiniteKernel (ks i)]
    (l : List ι) (hdis : ∀ i ∈ l, IsFullConditional π i (κ i))
    (hk : ∀ i ∈ l, CondInvariantK π i (κ i) (ks i)) (steps : ι → ℕ) (nsweeps : ℕ) :
    Kernel.Invariant (iterK (sweepK ks steps l) nsweeps) π :=
  sweepOf_invariant_of_each _ π l
    (fun i hi => invariant_blockK π i (κ i) (hdis i hi) (ks i) (hk i hi)) steps nsweeps

/-- **The conditionals exist on standard Borel blocks**: for a finite measure on a product of
    measurable spaces, block `i` non-empty standard Borel (e.g. `ℝⁿ`), the regular conditional
    distribution `Measure.condKernel` of `(other blocks, block i)` is a full conditional. -/
theorem fullConditional_exists (π : Measure (∀ j, α j)) [IsFiniteMeasure π] (i : ι)
    [StandardBorelSpace (α i)] [Nonempty (α i)] :
    IsFullConditional π i (π.map (split i)).condKernel :=
  isFullConditional_condKernel π i

/-- **An exact sampler satisfies the hypothesis**: drawing block `i` from the conditional `κ` of the
    other blocks (whatever the block's current value — Conjugate, Direct, LinearRTO …) leaves
    every `κ c` invariant. -/
theorem exact_sampler_condInvariantK (π : Measure (∀ j, α j)) (i : ι)
    (κ : Kernel (Rest α i) (α i)) [IsMarkovKernel κ] : CondInvariantK π i κ (exactK i κ) :=
  condInvariantK_exactK π i κ

/-- **… so does a sampler that stays where it is** (a rejected proposal; `num_sampling_steps = 0`
    is covered by `steps i = 0`): the hypothesis does not ask for exact draws. -/
theorem stay_sampler_condInvariantK (π : Measure (∀ j, α j)) (i : ι)
    (κ : Kernel (Rest α i) (α i)) :
    CondInvariantK π i κ (Kernel.deterministic (fun x => x i) (measurable_pi_apply i)) := by
  refine Filter.Eventually.of_forall fun c => ?_
  have : (Kernel.deterministic (fun x : ∀ j, α j => x i) (measurable_pi_apply i)).comap
      (fun a => glue i (c, a)) (measurable_glue_right i c) = Kernel.id := by
    ext a : 1
    rw [Kernel.comap_apply, Kernel.deterministic_apply, Kernel.id_apply, glue_self]
  rw [this]
  exact invariant_id _

/-- **… and so does a sampler in detailed balance with the conditional** (Metropolis–Hastings-type
    block samplers, cf. C02): reversibility of `a ↦ k (c with block i := a)` with respect to `κ c`
    for almost every `c` implies `CondInvariantK` (Mathlib's `Kernel.IsReversible.invariant`). -/
theorem reversible_sampler_condInvariantK (π : Measure (∀ j, α j)) (i : ι)
    (κ : Kernel (Rest α i) (α i)) (k : Kernel (∀ j, α j) (α i)) [IsMarkovKernel k]
    (hrev : ∀ᵐ c ∂(π.map (rest i)),
      Kernel.IsReversible (k.comap (fun a => glue i (c, a)) (measurable_glue_right i c)) (κ c)) :
    CondInvariantK π i κ k := by
  filter_upwards [hrev] with c hc
  exact hc.invariant

/-- the hypothesis of `reversible_sampler_condInvariantK` is satisfiable: exact conditional draws
    are in detailed balance (`∫_A κ c B dκ c = κ c A * κ c B`) -/
example (π : Measure (∀ j, α j)) (i : ι) (κ : Kernel (Rest α i) (α i)) [IsMarkovKernel κ] :
    CondInvariantK π i κ (exactK i κ) :=
  reversible_sampler_condInvariantK π i κ (exactK i κ)
    (Filter.Eventually.of_forall fun c A B _ _ => by
      simp [exactK, Kernel.comap_apply, mul_comm])

/-- **Exact Gibbs sampling of any finite measure on standard Borel blocks**: all hypotheses of
    `gibbs_invariant_kernel` are satisfiable for every such `π`. -/
theorem exact_gibbs_invariant [∀ i, StandardBorelSpace (α i)] [∀ i, Nonempty (α i)]
    (π : Measure (∀ j, α j)) [IsFiniteMeasure π] (l : List ι) (steps : ι → ℕ) (nsweeps : ℕ) :
    Kernel.Invariant
      (iterK (sweepK (fun i => exactK i (π.map (split i)).condKernel) steps l) nsweeps) π :=
  gibbs_invariant_kernel π (fun i => (π.map (split i)).condKernel) _ l
    (fun i _ => isFullConditional_condKernel π i)
    (fun i _ => condInvariantK_exactK π i _) steps nsweeps

/-- a concrete instance of `gibbs_invariant_kernel`: three real blocks, a perfectly correlated
    two-point distribution (not a product measure), blocks 0 and 2 by exact conditional draws,
    block 1 by a sampler that never moves; order 2, 0, 1, 0 with two inner transitions each, five
    sweeps -/
example :
    let π : Measure (Fin 3 → ℝ) := Measure.dirac 0 + Measure.dirac 1
    Kernel.Invariant (iterK (sweepK
      (fun i => if i = 1 then Kernel.deterministic (fun x => x i) (measurable_pi_apply i)
        else exactK i (π.map (split i)).condKernel) (fun _ => 2) [2, 0, 1, 0]) 5) π := by
  intro π
  have : ∀ i : Fin 3, IsSFiniteKernel (if i = 1 then
      Kernel.deterministic (fun x : Fin 3 → ℝ => x i) (measurable_pi_apply i)
      else exactK i (π.map (split i)).condKernel) := by
    intro i; split <;> infer_instance
  refine gibbs_invariant_kernel π (fun i => (π.map (split i)).condKernel) _ _
    (fun i _ => isFullConditional_condKernel π i) (fun i _ => ?_) _ _
  by_cases h : i = 1
  · subst h
    simp only [if_true]
    exact stay_sampler_condInvariantK π 1 _
  · simp only [h, if_false]
    exact condInvariantK_exactK π i _

end pi

/-! ## the sweep of the model -/

section model
variable {N V : Type} [DecidableEq N] [MeasurableSpace V]

/-- **The sweep structure of `HybridGibbs` (as modelled) preserves the joint.**  `g` is any state
    of the model (`Model/C09.lean`): its `names` (= `par_names`, the order of the sweep) and
    `nsteps` (= `num_sampling_steps`) are the order / step-count parameters of the kernel sweep,
    which is the same fold as `sweep ds g = g.names.foldl (blockUpdate ds) g`; `nsweeps` is the
    argument of `sampleN`.  State space `N → V` (the type of `g.cur`).  If for every block name
    `π` disintegrates over the other blocks and the block's sampler leaves that conditional
    invariant, then `sample(nsweeps)` started in `π` ends in `π`. -/
theorem hybridGibbs_sweep_invariant (g : HG N V) (π : Measure (N → V)) [SFinite π]
    (κ : ∀ n, Kernel (Rest (fun _ : N => V) n) V) [∀ n, IsSFiniteKernel (κ n)]
    (ks : N → Kernel (N → V) V) [∀ n, IsSFiniteKernel (ks n)]
    (hdis : ∀ n ∈ g.names, IsFullConditional π n (κ n))
    (hk : ∀ n ∈ g.names, CondInvariantK π n (κ n) (ks n)) (nsweeps : ℕ) :
    Kernel.Invariant (iterK (sweepK (α := fun _ => V) ks g.nsteps g.names) nsweeps) π :=
  gibbs_invariant_kernel (α := fun _ => V) π κ ks g.names hdis hk g.nsteps nsweeps

/-- the hypotheses hold for every probability measure on `ℝ³` with exact block samplers; the
    order `[2, 0, 1]` and the step counts (`num_sampling_steps = {0: 3}`, default 1) are read off
    the constructed model state -/
example (π : Measure (Fin 3 → ℝ)) [IsProbabilityMeasure π] :
    let g : HG (Fin 3) ℝ := construct [2, 0, 1] (fun n => if n = 0 then some 3 else none)
      (fun _ => 0) (fun _ => (false, true, true))
    Kernel.Invariant (iterK (sweepK (α := fun _ => ℝ)
      (fun n => exactK (α := fun _ => ℝ) n (π.map (split n)).condKernel) g.nsteps g.names) 4) π := by
  intro g
  have : ∀ n : Fin 3, IsSFiniteKernel
      (exactK (α := fun _ => ℝ) n (π.map (split n)).condKernel) := fun n => inferInstance
  exact hybridGibbs_sweep_invariant g π
    (fun n => (π.map (split (α := fun _ => ℝ) n)).condKernel)
    (fun n => exactK (α := fun _ => ℝ) n (π.map (split n)).condKernel)
    (fun n _ => isFullConditional_condKernel (α := fun _ => ℝ) π n)
    (fun n _ => condInvariantK_exactK (α := fun _ => ℝ) π n _) 4

/-- **The kernel sweep *is* the model's sweep** (deterministic transitions).  `Φ n tgt` is the
    transition function of block `n`'s sampler when handed the target with conditioning
    dictionary `tgt` (= `others names cur n`, what `_set_target` builds).  If every transition the
    model consumes during the sweep is the one `Φ` prescribes (`DrivenSweep`) and the samplers sit
    at their blocks' values (`Sync`, an invariant of the model: `sync_construct`, `sync_sampleN`),
    then the kernel-level sweep — with the same `names` and `nsteps`, block kernels the Dirac
    kernels of `Φ` — started at `g.cur` is the Dirac mass at the block values the executable
    `sweep` computes.  So `sweepK` composes the block updates in the model's order, with the
    model's numbers of inner transitions, each block seeing the current values of the others. -/
theorem sweepK_deterministic_eq_model_sweep (Φ : N → List (N × V) → V → V) (ds : Nat → Draw V)
    (g : HG N V) (hΦ : ∀ n, Measurable (modelDraw Φ g.names n)) (hs : Sync g)
    (hd : DrivenSweep Φ ds g.names g) :
    sweepK (α := fun _ => V) (fun n => Kernel.deterministic (modelDraw Φ g.names n) (hΦ n))
        g.nsteps g.names g.cur
      = Measure.dirac (sweep ds g).cur := by
  have h : ∀ (n : N) (x : N → V),
      blockK (α := fun _ => V) n (Kernel.deterministic (modelDraw Φ g.names n) (hΦ n)) x
        = Measure.dirac (modelStep Φ g.names n x) := by
    intro n x
    rw [blockK_dirac, modelStep, upd_eq_update]
    rfl
  rw [sweepK, sweepOf_dirac h, sweep_eq_sweepL, sweepL_cur_of_driven Φ ds g.names g hs hd]
  rfl

/-- **… and `k` sweeps of the kernel are the model's `sampleN ds k`** (`sample(k)` / `warmup(k)`
    as far as the block values go). -/
theorem iterK_sweepK_deterministic_eq_model_run (Φ : N → List (N × V) → V → V) (ds : Nat → Draw V)
    (k : Nat) (g : HG N V) (hΦ : ∀ n, Measurable (modelDraw Φ g.names n)) (hs : Sync g)
    (hd : DrivenRun Φ ds k g) :
    iterK (sweepK (α := fun _ => V)
        (fun n => Kernel.deterministic (modelDraw Φ g.names n) (hΦ n)) g.nsteps g.names) k g.cur
      = Measure.dirac (sampleN ds k g).cur := by
  have h : ∀ (n : N) (x : N → V),
      blockK (α := fun _ => V) n (Kernel.deterministic (modelDraw Φ g.names n) (hΦ n)) x
        = Measure.dirac (modelStep Φ g.names n x) := by
    intro n x
    rw [blockK_dirac, modelStep, upd_eq_update]
    rfl
  have h2 : ∀ x : N → V, sweepK (α := fun _ => V)
      (fun n => Kernel.deterministic (modelDraw Φ g.names n) (hΦ n)) g.nsteps g.names x
        = Measure.dirac (sweepFn Φ g.names g.nsteps g.names x) := by
    intro x
    rw [sweepK, sweepOf_dirac h]
    rfl
  rw [iterK_dirac h2, sampleN_cur_of_driven Φ ds k g hs hd]

/-! a concrete driven run: two blocks over `ℕ`, block 0 with two inner transitions; the sampler
    of a block adds the sum of the other blocks' values unless that exceeds 12 (then it stays:
    the last draw is a rejected proposal) -/

/-- transition functions of the example -/
def kexΦ : Fin 2 → List (Fin 2 × ℕ) → ℕ → ℕ :=
  fun _ tgt v => if v + (tgt.map (·.2)).sum > 12 then v else v + (tgt.map (·.2)).sum

/-- the recorded stream of the example -/
def kexDs : Nat → Draw ℕ := fun i =>
  let p := [(2, true), (3, true), (4, true), (7, true), (11, true), (99, false)].getD i (0, false)
  ⟨p.1, p.2⟩

/-- the model state of the example -/
def kexG : HG (Fin 2) ℕ :=
  construct [0, 1] (fun n => if n = 0 then some 2 else none) (fun _ => 1) (fun _ => (false, true, true))

example : DrivenSweep kexΦ kexDs kexG.names kexG := by
  simp [DrivenSweep, DrivenSteps, kexG, construct, kexΦ, kexDs, Draw.next, startSmp, others,
    blockUpdate, stepLoop, Smp.prologue, Smp.initialize, Smp.step, upd]

lemma kexG_driven : DrivenRun kexΦ kexDs 2 kexG := by
  simp [DrivenRun, DrivenSweep, DrivenSteps, kexG, construct, kexΦ, kexDs, Draw.next, startSmp, others,
    blockUpdate, stepLoop, Smp.prologue, Smp.initialize, Smp.step, upd, sweep, store]

/-- the hypotheses of `iterK_sweepK_deterministic_eq_model_run` are satisfiable: two sweeps, the
    kernel run started at `(1, 1)` is the Dirac mass at what the executable model computes,
    `(11, 4)` -/
example :
    iterK (sweepK (α := fun _ => ℕ)
        (fun n => Kernel.deterministic (modelDraw kexΦ kexG.names n) (measurable_of_countable _))
        kexG.nsteps kexG.names) 2 kexG.cur
      = Measure.dirac (sampleN kexDs 2 kexG).cur :=
  iterK_sweepK_deterministic_eq_model_run kexΦ kexDs 2 kexG (fun _ => measurable_of_countable _)
    (sync_construct _ _ _ _) kexG_driven

example : ((sampleN kexDs 2 kexG).cur 0, (sampleN kexDs 2 kexG).cur 1) = (11, 4) := by decide

/-! ### legacy `Gibbs`: one transition of a fresh sampler per block -/

/-- **The sweep of the legacy `Gibbs` sampler** (`lsweep ds names`: every block in `names` order,
    exactly one transition of a fresh sampler — `legacy_block`) is the kernel sweep with step
    count 1: same hypotheses, same conclusion. -/
theorem legacyGibbs_sweep_invariant (names : List N) (π : Measure (N → V)) [SFinite π]
    (κ : ∀ n, Kernel (Rest (fun _ : N => V) n) V) [∀ n, IsSFiniteKernel (κ n)]
    (ks : N → Kernel (N → V) V) [∀ n, IsSFiniteKernel (ks n)]
    (hdis : ∀ n ∈ names, IsFullConditional π n (κ n))
    (hk : ∀ n ∈ names, CondInvariantK π n (κ n) (ks n)) (nsweeps : ℕ) :
    Kernel.Invariant (iterK (sweepK (α := fun _ => V) ks (fun _ => 1) names) nsweeps) π :=
  gibbs_invariant_kernel (α := fun _ => V) π κ ks names hdis hk (fun _ => 1) nsweeps

example (π : Measure (Fin 2 → ℝ)) [IsProbabilityMeasure π] :
    Kernel.Invariant (iterK (sweepK (α := fun _ => ℝ)
      (fun n => exactK (α := fun _ => ℝ) n (π.map (split n)).condKernel) (fun _ => 1) [1, 0]) 7) π := by
  have : ∀ n : Fin 2, IsSFiniteKernel
      (exactK (α := fun _ => ℝ) n (π.map (split n)).condKernel) := fun n => inferInstance
  exact legacyGibbs_sweep_invariant [1, 0] π
    (fun n => (π.map (split (α := fun _ => ℝ) n)).condKernel)
    (fun n => exactK (α := fun _ => ℝ) n (π.map (split n)).condKernel)
    (fun n _ => isFullConditional_condKernel (α := fun _ => ℝ) π n)
    (fun n _ => condInvariantK_exactK (α := fun _ => ℝ) π n _) 7

/-- **… and it is the legacy model's sweep** on deterministic transitions: if every value the
    legacy model consumes is the one `Φ` prescribes for the target handed and the block's current
    value (`LDrivenSweep`), the kernel sweep started at the current values is the Dirac mass at the
    values `lsweep` computes. -/
theorem sweepK_deterministic_eq_legacy_sweep (Φ : N → List (N × V) → V → V) (ds : Nat → V)
    (names : List N) (st : LSt N V) (hΦ : ∀ n, Measurable (modelDraw Φ names n))
    (hd : LDrivenSweep Φ ds names names st) :
    sweepK (α := fun _ => V) (fun n => Kernel.deterministic (modelDraw Φ names n) (hΦ n))
        (fun _ => 1) names st.1
      = Measure.dirac (lsweep ds names st).1 := by
  have h : ∀ (n : N) (x : N → V),
      blockK (α := fun _ => V) n (Kernel.deterministic (modelDraw Φ names n) (hΦ n)) x
        = Measure.dirac (modelStep Φ names n x) := by
    intro n x
    rw [blockK_dirac, modelStep, upd_eq_update]
    rfl
  rw [sweepK, sweepOf_dirac h, lsweep_eq_lsweepL, lsweepL_cur_of_driven Φ ds names names st hd]
  rfl

/-- satisfiable: the transition functions `kexΦ`, two blocks at `(1, 1)`, stream `2, 3` -/
example :
    sweepK (α := fun _ => ℕ)
        (fun n => Kernel.deterministic (modelDraw kexΦ [0, 1] n) (measurable_of_countable _))
        (fun _ => 1) [0, 1] (fun _ => 1)
      = Measure.dirac (lsweep (fun i => i + 2) [0, 1] ((fun _ => 1), 0, [])).1 :=
  sweepK_deterministic_eq_legacy_sweep kexΦ (fun i => i + 2) [0, 1] ((fun _ => 1), 0, [])
    (fun _ => measurable_of_countable _)
    (by simp [LDrivenSweep, kexΦ, others, lblock, legacyKernel_eq, upd])

/-
  NOT PROVED (the remaining gap between the kernel sweep and the executable model).  The two
  `…_deterministic_eq_model_…` theorems identify `sweepK` with the model's `sweep` when every block
  sampler is a deterministic function of (target handed, current point).  The statement for
  randomised samplers would be:

    (statement) sweepK_eq_law_of_model_sweep :
        {Ω : Type} [MeasurableSpace Ω] (P : Measure Ω) [IsProbabilityMeasure P]
        (Ψ : N → Ω → List (N × V) → V → V)            -- sampler n, seed ω: transition function
        (hΨ : ∀ n, Measurable fun p : Ω × (N → V) => Ψ n p.1 (others g.names p.2 n) (p.2 n))
        (g : HG N V) (hs : Sync g) :
        sweepK (fun n => (Kernel.const _ P ×ₖ Kernel.id).map (fun p => Ψ n p.1 … p.2 …))
            g.nsteps g.names g.cur
          = (Measure.infinitePi fun _ : ℕ => P).map
              (fun ω => (sweep (streamOf Ψ ω g) g).cur)

  where `streamOf Ψ ω g` feeds the model, at position `p`, the transition `Ψ n (ω p) tgt cur` of
  the block being updated (an i.i.d. seed per transition).  The pathwise half is
  `sweepL_cur_of_driven` with a position-dependent `Φ`; the missing half is the identification
  of the push-forward of the product measure under the `T`-fold composition with the `T`-fold
  kernel composition (Fubini over `Fin T → Ω`, `T = Σ nsteps`).  Every Markov kernel on a standard
  Borel space has such a representation, so this would cover all block samplers.
-/

end model

end CuqiVerif.C09
