import CuqiVerif.Model.C15_gauss
import CuqiVerif.Proofs.C15_gauss
import CuqiVerif.Props.C15

/-!
# C15, Gaussian specification layer (session-3 extension)

About the executable definitions of `Model/C15_gauss.lean` (the driver runs them at `K = ℚ`): the four
setters of `cuqi.distribution.Gaussian` with their validation helpers, `compute_cov()`, and the object's
state over histories.  `gram` is the Gram matrix `sqrtprec.T @ sqrtprec` of the stored factor — the
precision matrix `Gaussian.logd` evaluates.  Every theorem holds for every inverse oracle (`Inverter`,
its answers are certified inside `certInv`) and every positive-definiteness oracle (`PDTest`).
-/
open Finset

set_option linter.unusedSectionVars false
set_option linter.unusedVariables false

namespace CuqiVerif.C15

section
variable {K : Type} [Field K] [LinearOrder K]

/-- `G` is the precision matrix the documentation assigns to the specification `<p> = M` (`n×n`):
    `prec=M`: `G = M`;  `sqrtprec=M`: `G = MᵀM`;  `cov=M`: `M·G = I`;  `sqrtcov=M`: `(M Mᵀ)·G = I`
    (for `sqrtcov` the code's convention `cov = S Sᵀ`, l.617; it is the documented `SᵀS` for symmetric
    and diagonal `S` — the C04 finding on the convention is not repeated here). -/
def DocGram (p : GParam) (n : ℕ) (M G : ℕ → ℕ → K) : Prop :=
  match p with
  | .prec => ∀ i j, i < n → j < n → G i j = M i j
  | .sqrtprec => ∀ i j, i < n → j < n → G i j = sumTo n (fun k => M k i * M k j)
  | .cov => ∀ i j, i < n → j < n → sumTo n (fun k => M i k * G k j) = if i = j then 1 else 0
  | .sqrtcov => ∀ i j, i < n → j < n →
      sumTo n (fun k => sumTo n (fun l => M i l * M k l) * G k j) = if i = j then 1 else 0

lemma diagMat_symm (f : ℕ → K) (i j : ℕ) : diagMat f i j = diagMat f j i := by
  unfold diagMat
  by_cases h : i = j
  · subst h; rfl
  · simp [h, Ne.symm h]

lemma diagMat_cogram (n : ℕ) (f : ℕ → K) (i k : ℕ) (hk : k < n) :
    sumTo n (fun l => diagMat f i l * diagMat f k l) = diagMat (fun i => f i * f i) i k := by
  have : (fun l => diagMat f i l * diagMat f k l) = fun l => diagMat f i l * diagMat f l k := by
    funext l; rw [diagMat_symm f k l]
  rw [this, sumTo_mul_diagMat n _ f k hk]
  unfold diagMat
  by_cases h : i = k
  · subst h; simp
  · simp [h]

lemma diagMat_inv_right (n : ℕ) (g : ℕ → K) (hg : ∀ i, i < n → g i ≠ 0) (i j : ℕ) (hi : i < n) (hj : j < n) :
    sumTo n (fun k => diagMat g i k * diagMat (fun i => 1 / g i) k j) = if i = j then 1 else 0 := by
  rw [sumTo_mul_diagMat n _ _ j hj]
  unfold diagMat
  by_cases h : i = j
  · subst h
    simp only [↓reduceIte]
    field_simp [hg i hi]
  · simp [h]

/-- **gramDiag_documented.**  The three diagonal branches of all four `get_sqrtprec_from_*` helpers
    (scalar `c·I`, 1-D vector, exactly diagonal matrix): whenever they do not enter the NaN domain, the
    precision the stored factor carries is the documented one for the diagonal matrix `diag f`
    — `1/f`, `f`, `1/f²`, `f²` respectively. -/
theorem gramDiag_documented (p : GParam) (n : ℕ) (f : ℕ → K) (d : ℕ) (G : ℕ → ℕ → K)
    (h : gramDiag p n f = .ok (d, G)) : d = n ∧ DocGram p n (diagMat f) G := by
  cases p with
  | cov =>
    simp only [gramDiag] at h
    split at h
    · rename_i hpos
      cases h
      refine ⟨rfl, ?_⟩
      intro i j hi hj
      have hne : ∀ i, i < n → f i ≠ 0 := fun i hi => by
        have := (allLt_iff n _).mp hpos i hi
        exact ne_of_gt (of_decide_eq_true this)
      exact diagMat_inv_right n f hne i j hi hj
    · cases h
  | prec =>
    simp only [gramDiag] at h
    split at h
    · cases h; exact ⟨rfl, fun _ _ _ _ => rfl⟩
    · cases h
  | sqrtcov =>
    simp only [gramDiag] at h
    split at h
    · rename_i hnz
      cases h
      refine ⟨rfl, ?_⟩
      intro i j hi hj
      have hne : ∀ i, i < n → f i * f i ≠ 0 := fun i hi => by
        have := (allLt_iff n _).mp hnz i hi
        have h0 : f i ≠ 0 := by simpa using this
        exact mul_ne_zero h0 h0
      have := diagMat_inv_right n (fun i => f i * f i) hne i j hi hj
      rw [← this]
      exact sumTo_congr _ _ _ fun k hk => by rw [diagMat_cogram n f i k hk]
    · cases h
  | sqrtprec =>
    simp only [gramDiag] at h
    cases h
    refine ⟨rfl, ?_⟩
    intro i j hi hj
    have : (fun k => diagMat f k i * diagMat f k j) = fun k => diagMat f i k * diagMat f j k := by
      funext k; rw [diagMat_symm f k i, diagMat_symm f k j]
    rw [this, diagMat_cogram n f i j hj]

example : gramDiag GParam.sqrtprec 2 (fun i => if i = 0 then (2:ℚ) else 4) =
    .ok (2, diagMat fun i => (if i = 0 then (2:ℚ) else 4) * (if i = 0 then (2:ℚ) else 4)) := rfl

/-- **gramFull_documented.**  The full-matrix branches: whenever the setter does not raise, the stored
    factor carries the documented precision — the certified inverse of `cov` (resp. of `S Sᵀ`), `prec`
    itself, `SᵀS`; a `cov`/`prec` matrix that is accepted is symmetric (else `ValueError`). -/
theorem gramFull_documented (inv : Inverter K) (pd : PDTest K) (p : GParam) (d : ℕ) (F : ℕ → ℕ → K)
    (d' : ℕ) (G : ℕ → ℕ → K) (h : gramFull inv pd p d F = .ok (d', G)) :
    d' = d ∧ DocGram p d F G ∧ ((p = .cov ∨ p = .prec) → ∀ i j, i < d → j < d → F i j = F j i) := by
  cases p with
  | cov =>
    simp only [gramFull, bind, Except.bind] at h
    split at h
    · cases h
    · rename_i hs
      split at h
      · cases h
      · rename_i W hW
        split at h
        · cases h
          exact ⟨rfl, certInv_ok inv _ _ _ hW, fun _ => (isSymm_iff _ _).mp (by simpa using hs)⟩
        · cases h
  | prec =>
    simp only [gramFull] at h
    split at h
    · cases h
    · rename_i hs
      split at h
      · cases h
        exact ⟨rfl, fun _ _ _ _ => rfl, fun _ => (isSymm_iff _ _).mp (by simpa using hs)⟩
      · cases h
  | sqrtcov =>
    simp only [gramFull, bind, Except.bind] at h
    split at h
    · cases h
    · rename_i W hW
      split at h
      · cases h
        exact ⟨rfl, certInv_ok inv _ _ _ hW, fun hp => by rcases hp with hp | hp <;> cases hp⟩
      · cases h
  | sqrtprec =>
    simp only [gramFull] at h
    cases h
    exact ⟨rfl, fun _ _ _ _ => rfl, fun hp => by rcases hp with hp | hp <;> cases hp⟩

example : gramFull (R := ℚ) (fun _ _ => none) (fun _ _ => true) .sqrtprec 2
    (fun i j => if i ≤ j then 1 else 0) = .ok (2, fun j k => sumTo 2 fun i =>
      (if i ≤ j then (1:ℚ) else 0) * (if i ≤ k then 1 else 0)) := rfl

/-! ## `compute_cov()` and the state over histories -/

/-- `_cov`, when present in a Gaussian not specified by `cov`, is a certified right inverse of the
    precision matrix the stored factor carries. -/
def CovTracksFactor (st : GState K) : Prop :=
  st.param ≠ .cov → st.cov = none ∨ ∃ d G C, st.gram = .ok (d, G) ∧ st.cov = some (.m d d C) ∧
    ∀ i j, i < d → j < d → sumTo d (fun k => G i k * C k j) = if i = j then 1 else 0

lemma setMain_cov (inv : Inverter K) (pd : PDTest K) (st : GState K) (v : NArr K) :
    (st.setMain inv pd v).1.param = st.param ∧
    (st.setMain inv pd v).1.cov = if st.param = .cov then some v else none := by
  unfold GState.setMain
  simp only
  split
  · exact ⟨rfl, rfl⟩
  · split
    · exact ⟨rfl, rfl⟩
    · split <;> exact ⟨rfl, rfl⟩

lemma setMain_cov' (inv : Inverter K) (pd : PDTest K) (st : GState K) (v : NArr K) (st' : GState K)
    (e : Option GErr) (h : st.setMain inv pd v = (st', e)) :
    st'.param = st.param ∧ st'.cov = if st.param = .cov then some v else none := by
  have := setMain_cov inv pd st v
  rw [h] at this
  exact this

/-- **computeCov_inverts_gram.**  For a Gaussian specified by `prec`, `sqrtcov` or `sqrtprec`, whatever
    `compute_cov()` returns is a square matrix `C` with `(sqrtprecᵀ·sqrtprec)·C = I` exactly, and that
    matrix is what `_cov` holds afterwards; the stored factor is untouched. -/
theorem computeCov_inverts_gram (inv : Inverter K) (maxd : ℕ) (st : GState K) (hp : st.param ≠ .cov)
    (st' : GState K) (C : NArr K) (h : st.computeCov inv maxd = (st', .ok C)) :
    ∃ d G Cf, st.gram = .ok (d, G) ∧ C = .m d d Cf ∧ st'.cov = some C ∧ st'.gram = st.gram ∧
      st'.param = st.param ∧
      ∀ i j, i < d → j < d → sumTo d (fun k => G i k * Cf k j) = if i = j then 1 else 0 := by
  unfold GState.computeCov at h
  simp only [hp, ↓reduceIte] at h
  split at h
  · cases h
  · split at h
    · cases h
    · split at h
      · cases h
      · rename_i d G hg
        split at h
        · rename_i Cf hC
          cases h
          exact ⟨d, G, Cf, hg, rfl, rfl, rfl, rfl, certInv_ok inv d G Cf hC⟩
        · cases h

lemma computeCov_state (inv : Inverter K) (maxd : ℕ) (st : GState K) (hp : st.param ≠ .cov) :
    (st.computeCov inv maxd).1 = st ∨ ∃ C, st.computeCov inv maxd = ((st.computeCov inv maxd).1, .ok C) := by
  generalize hr : st.computeCov inv maxd = r
  obtain ⟨st', res⟩ := r
  cases res with
  | ok C => exact Or.inr ⟨C, rfl⟩
  | error e =>
    left
    unfold GState.computeCov at hr
    simp only [hp, ↓reduceIte] at hr
    split at hr
    · cases hr; rfl
    · split at hr
      · cases hr; rfl
      · split at hr
        · cases hr; rfl
        · split at hr
          · cases hr
          · cases hr; rfl

/-- **cov_tracks_factor** (all histories, exceptions swallowed or not).  Start from any state in which
    `_cov` is absent or the certified inverse of the stored factor's precision (e.g. a freshly
    constructed Gaussian); after *any* sequence of setter assignments (succeeding or raising) and
    `compute_cov()` calls (succeeding or raising) the same holds: the covariance the closed-form MAP and
    the direct sampler read is never that of another precision than the one `logd` evaluates. -/
theorem cov_tracks_factor (inv : Inverter K) (pd : PDTest K) (maxd : ℕ) (ops : List (GOp K)) :
    ∀ st : GState K, CovTracksFactor st → CovTracksFactor (st.runSwallow inv pd maxd ops) := by
  induction ops with
  | nil => intro st h; exact h
  | cons op ops ih =>
    intro st h
    cases op with
    | setMain v =>
      apply ih
      intro hp
      obtain ⟨hpar, hcov⟩ := setMain_cov inv pd st v
      rw [hpar] at hp
      left
      rw [hcov, if_neg hp]
    | computeCov =>
      apply ih
      intro hp
      by_cases hp0 : st.param = .cov
      · -- the `cov` branch does not change `param`
        exfalso
        apply hp
        unfold GState.computeCov
        simp only [hp0, ↓reduceIte]
        split
        · exact hp0
        · split
          · exact hp0
          · split
            · exact hp0
            · split <;> first | exact hp0 | rfl
      · rcases computeCov_state inv maxd st hp0 with hs | ⟨C, hC⟩
        · rw [hs]; exact h hp0
        · obtain ⟨d, G, Cf, hg, rfl, hc, hg', _, hcert⟩ := computeCov_inverts_gram inv maxd st hp0 _ C hC
          exact Or.inr ⟨d, G, Cf, hg' ▸ hg, hc, hcert⟩

/-- a freshly constructed Gaussian satisfies the invariant -/
theorem construct_tracks (inv : Inverter K) (pd : PDTest K) (p : GParam) (ml : ℕ) (geom : Option ℕ)
    (v : NArr K) (st : GState K) (h : construct inv pd p ml geom v = .ok st) : CovTracksFactor st := by
  unfold construct at h
  simp only [bind, Except.bind] at h
  split at h
  · cases h
  · rename_i l hl
    split at h
    · rename_i st1 hst
      cases h
      intro hp
      obtain ⟨hpar, hcov⟩ := setMain_cov' inv pd _ v _ _ hst
      simp only at hpar hcov
      rw [hpar] at hp
      left
      rw [hcov, if_neg hp]
    · cases h

example : CovTracksFactor (K := ℚ) ⟨.prec, 2, 2, .s 1, none, .error .nan⟩ := fun _ => Or.inl rfl

/-! ## the chain: specification → `compute_cov()` → closed-form MAP -/

lemma expand_full (d : ℕ) (C : ℕ → ℕ → K) :
    ∃ CeF, diagIfVec (expandScalar (.m d d C) d) = .m d d CeF ∧ ∀ i j, i < d → j < d → CeF i j = C i j := by
  by_cases h : d * d = 1
  · have hd : d = 1 := Nat.eq_one_of_mul_eq_one_right h
    subst hd
    refine ⟨fun i j => C 0 0 * (if i = j then 1 else 0), ?_, ?_⟩
    · simp [expandScalar, NArr.size, NArr.first, NArr.scale, eye, diagIfVec]
    · intro i j hi hj
      have hi0 : i = 0 := by omega
      have hj0 : j = 0 := by omega
      subst hi0 hj0
      simp
  · exact ⟨C, by simp [expandScalar, NArr.size, h, diagIfVec], fun _ _ _ _ => rfl⟩

/-- **mapDirect_maximises_stored_density.**  Prior and noise Gaussians specified by `prec`, `sqrtcov`
    or `sqrtprec` (scalar, vector or matrix), in any state reachable by setter assignments and
    `compute_cov()` calls: whenever the closed-form `MAP` returns, the point satisfies the normal
    equations `(AᵀWeA + Wx)x = AᵀWe b + Wx x0` with `We`, `Wx` the precision matrices of the *stored
    factors* (`sqrtprecᵀ·sqrtprec`) — the very matrices `posterior.logd` evaluates; by
    `gramDiag_documented` / `gramFull_documented` those are the documented precisions of the current
    specification.  Together with `gaussian_post_maximiser` the point is the unique maximiser of the
    density the problem reports, irrespective of how the Gaussians were specified. -/
theorem mapDirect_maximises_stored_density (slv : Solver K) (m n : ℕ) (Af : ℕ → ℕ → K)
    (lik pri : GState K) (hl : lik.param ≠ .cov) (hp : pri.param ≠ .cov)
    (Hl : CovTracksFactor lik) (Hp : CovTracksFactor pri)
    (Gl Gp : ℕ → ℕ → K) (hgl : lik.gram = .ok (m, Gl)) (hgp : pri.gram = .ok (n, Gp))
    (x0 b : ℕ → K) (r : NArr K)
    (h : mapDirect slv (.m m n Af) m n lik.cov pri.cov (.v n x0) (.v m b) = .ok r) :
    ∃ x, r = .v n x ∧ ∀ j, j < n → normalResidual m n Af Gl Gp x0 b x j = 0 := by
  rcases Hl hl with hnone | ⟨d1, G1, C1, hg1, hc1, hcert1⟩
  · rw [hnone] at h; simp [mapDirect, getCov, bind, Except.bind] at h
  rcases Hp hp with hnone | ⟨d2, G2, C2, hg2, hc2, hcert2⟩
  · rw [hc1, hnone] at h; simp [mapDirect, getCov, bind, Except.bind] at h
  rw [hgl] at hg1; rw [hgp] at hg2
  cases hg1; cases hg2
  obtain ⟨CeF, hCe, hCeq⟩ := expand_full m C1
  obtain ⟨CxF, hCx, hCxq⟩ := expand_full n C2
  rw [hc1, hc2] at h
  refine mapDirect_normal_equations slv m n Af (.m m m C1) (.m n n C2) CeF CxF Gl Gp x0 b r hCe hCx ?_ ?_ h
  · intro i j hi hj
    rw [← hcert1 i j hi hj]
    exact sumTo_congr _ _ _ fun k hk => by rw [hCeq k j hk hj]
  · intro i j hi hj
    rw [← hcert2 i j hi hj]
    exact sumTo_congr _ _ _ fun k hk => by rw [hCxq k j hk hj]

example : ∃ st : GState ℚ, st.param ≠ .cov ∧ CovTracksFactor st ∧ st.gram = .ok (1, fun _ _ => 2) ∧
    st.cov = some (.m 1 1 fun _ _ => 1/2) :=
  ⟨⟨.prec, 1, 1, .m 1 1 fun _ _ => 2, some (.m 1 1 fun _ _ => 1/2), .ok (1, fun _ _ => 2)⟩, by decide,
    fun _ => Or.inr ⟨1, _, _, rfl, rfl, fun i j hi hj => by
      have : i = j := by omega
      simp [sumTo, this]⟩, rfl, rfl⟩

/-! ## every combination of specifications, including the mixed one -/

/-- one side (noise or prior) is ready for the closed form: the `cov` getter holds `C`, the array the closed
    form works with is the `d×d` matrix `CF`, and `W` is a left inverse of `CF` -/
def SideReady (cov : Option (NArr K)) (d : ℕ) (W : ℕ → ℕ → K) : Prop :=
  ∃ C CF, cov = some C ∧ diagIfVec (expandScalar C d) = .m d d CF ∧
    ∀ i j, i < d → j < d → sumTo d (fun k => W i k * CF k j) = if i = j then 1 else 0

/-- how a Gaussian may have been specified, with the precision `W` that specification denotes:
    *either* by `prec`/`sqrtcov`/`sqrtprec` (any reachable state; `W` = precision of the stored factor, which
    `gramDiag_documented`/`gramFull_documented` identify with the documented one), *or* by `cov` — the getter
    holds a documented covariance argument `v` (scalar, size-1 array, variance vector, `d×d` matrix; raw or
    already expanded by `compute_cov()`) and `W` is a left inverse of the covariance matrix it denotes. -/
def SideSpec (st : GState K) (d : ℕ) (W : ℕ → ℕ → K) : Prop :=
  (st.param ≠ .cov ∧ CovTracksFactor st ∧ st.gram = .ok (d, W)) ∨
  (∃ v M, st.cov = some v ∧ docCov d v = some M ∧
    ∀ i j, i < d → j < d → sumTo d (fun k => W i k * M k j) = if i = j then 1 else 0)

lemma sideReady_or_none (st : GState K) (d : ℕ) (W : ℕ → ℕ → K) (h : SideSpec st d W) :
    st.cov = none ∨ SideReady st.cov d W := by
  rcases h with ⟨hp, H, hg⟩ | ⟨v, M, hv, hdoc, hW⟩
  · rcases H hp with hnone | ⟨d1, G1, C1, hg1, hc1, hcert⟩
    · exact Or.inl hnone
    · rw [hg] at hg1
      cases hg1
      obtain ⟨CF, hCF, hq⟩ := expand_full d C1
      refine Or.inr ⟨_, CF, hc1, hCF, fun i j hi hj => ?_⟩
      rw [← hcert i j hi hj]
      exact sumTo_congr _ _ _ fun k hk => by rw [hq k j hk hj]
  · obtain ⟨G', hG', hq⟩ := expandCov_documented v d M hdoc
    refine Or.inr ⟨v, G', hv, hG', fun i j hi hj => ?_⟩
    rw [← hW i j hi hj]
    exact sumTo_congr _ _ _ fun k hk => by rw [hq k j]

/-- **mapDirect_irrespective_of_specification** (all four combinations, in particular the *mixed* ones: a
    `cov`-specified Gaussian on one side and a `prec`/`sqrtcov`/`sqrtprec`-specified one on the other).
    Whenever the closed-form `MAP` returns, the point satisfies the normal equations
    `(AᵀWeA + Wx)x = AᵀWe b + Wx x0` with `We`, `Wx` the precisions the two specifications denote. -/
theorem mapDirect_irrespective_of_specification (slv : Solver K) (m n : ℕ) (Af : ℕ → ℕ → K)
    (lik pri : GState K) (We Wx : ℕ → ℕ → K) (hl : SideSpec lik m We) (hp : SideSpec pri n Wx)
    (x0 b : ℕ → K) (r : NArr K)
    (h : mapDirect slv (.m m n Af) m n lik.cov pri.cov (.v n x0) (.v m b) = .ok r) :
    ∃ x, r = .v n x ∧ ∀ j, j < n → normalResidual m n Af We Wx x0 b x j = 0 := by
  rcases sideReady_or_none lik m We hl with hnone | ⟨C1, CeF, hc1, hCe, hWe⟩
  · rw [hnone] at h; simp [mapDirect, getCov, bind, Except.bind] at h
  rcases sideReady_or_none pri n Wx hp with hnone | ⟨C2, CxF, hc2, hCx, hWx⟩
  · rw [hc1, hnone] at h; simp [mapDirect, getCov, bind, Except.bind] at h
  rw [hc1, hc2] at h
  exact mapDirect_normal_equations slv m n Af C1 C2 CeF CxF We Wx x0 b r hCe hCx hWe hWx h

/-- the mixed case is inhabited: noise given by the covariance scalar `2` (→ `We = ½`), prior by `prec = 2`
    with `compute_cov()` called (→ `_cov = ½`, `Wx = 2`) -/
example : ∃ lik pri : GState ℚ, SideSpec lik 1 (fun _ _ => 1/2) ∧ SideSpec pri 1 (fun _ _ => 2) ∧
    lik.param = .cov ∧ pri.param = .prec :=
  ⟨⟨.cov, 1, 1, .s 2, some (.s 2), .ok (1, fun _ _ => 1/2)⟩,
   ⟨.prec, 1, 1, .m 1 1 fun _ _ => 2, some (.m 1 1 fun _ _ => 1/2), .ok (1, fun _ _ => 2)⟩,
   Or.inr ⟨.s 2, _, rfl, rfl, fun i j hi hj => by
     have hi0 : i = 0 := by omega
     have hj0 : j = 0 := by omega
     subst hi0 hj0
     simp [sumTo]⟩,
   Or.inl ⟨by decide, fun _ => Or.inr ⟨1, _, _, rfl, rfl, fun i j hi hj => by
     have : i = j := by omega
     simp [sumTo, this]⟩, rfl⟩, rfl, rfl⟩

end

end CuqiVerif.C15
