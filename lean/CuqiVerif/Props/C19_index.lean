import CuqiVerif.Model.C19_index
import CuqiVerif.Props.C19_access

/-!
# C19 — slice / mask / boolean indices of `_sub_samples`, `plot_ci`, JointSamples with members of
# different lengths, diagnostics under user-given distinct names (session 3, second pass)

About the executable definitions of `Model/C19_index.lean` (driver ops `sls`, `mask`, `bsc`, `grid`,
`plotci`, `jointstat`) and `Model/C19.lean`, for every length / dimension / rational value.
-/

namespace CuqiVerif.C19
open List

/-! ## 1. slices and masks -/

lemma adjustField_nat (n v : ℕ) : adjustField n (v : ℤ) false = ((min v n : ℕ) : ℤ) := by
  unfold adjustField
  have h1 : ¬ ((v : ℤ) < 0) := by omega
  simp only [h1, if_false, Bool.false_eq_true]
  by_cases h : (v : ℤ) ≥ n
  · rw [if_pos h]; have : min v n = n := by omega
    rw [this]
  · rw [if_neg h]; have : min v n = v := by omega
    rw [this]

/-- **The full slice `[b:stop:t]` agrees with the `[b::t]` of the core model** when the stop is
    absent or is the length: for every length `n`, burn-in `b ≥ 0`, thinning `t ≥ 1`. -/
theorem sliceIdx3_eq_sliceIdx (n b t : ℕ) (ht : 1 ≤ t) :
    sliceIdx3 n (some (b : ℤ)) none (some (t : ℤ)) = sliceIdx n b t ∧
    sliceIdx3 n (some (b : ℤ)) (some (n : ℤ)) (some (t : ℤ)) = sliceIdx n b t := by
  have hstop : adjustField n (n : ℤ) false = (n : ℤ) := by rw [adjustField_nat]; simp
  have key : ∀ stop : ℤ, stop = n →
      (let a := adjustField n (b : ℤ) false
       let cnt := if a < stop then ((stop - a - 1) / (t : ℤ) + 1).toNat else 0
       some ((List.range cnt).map (fun (i : ℕ) => (a + (i : ℤ) * (t : ℤ)).toNat)))
        = sliceIdx n b t := by
    intro stop hs
    subst hs
    rw [sliceIdx_nat n b t ht, adjustField_nat]
    simp only
    congr 1
    have hm : min b n ≤ n := Nat.min_le_right _ _
    by_cases hlt : ((min b n : ℕ) : ℤ) < (n : ℤ)
    · rw [if_pos hlt]
      have hlt' : min b n < n := by exact_mod_cast hlt
      have hcnt : (((n : ℤ) - ((min b n : ℕ) : ℤ) - 1) / (t : ℤ) + 1).toNat = (n - min b n + t - 1) / t := by
        have e1 : (n : ℤ) - ((min b n : ℕ) : ℤ) - 1 = ((n - min b n - 1 : ℕ) : ℤ) := by omega
        rw [e1]
        have e2 : (((n - min b n - 1 : ℕ) : ℤ) / (t : ℤ) + 1) = (((n - min b n - 1) / t + 1 : ℕ) : ℤ) := by
          push_cast; rfl
        rw [e2, Int.toNat_natCast]
        have e3 : n - min b n + t - 1 = (n - min b n - 1) + t := by omega
        rw [e3, Nat.add_div_right _ (by omega : 0 < t)]
      rw [hcnt]
      apply List.map_congr_left
      intro i _
      have : ((min b n : ℕ) : ℤ) + (i : ℤ) * (t : ℤ) = ((min b n + i * t : ℕ) : ℤ) := by push_cast; rfl
      rw [this, Int.toNat_natCast]
    · rw [if_neg hlt]
      have : min b n = n := by
        have : ¬ (min b n < n) := by intro h; exact hlt (by exact_mod_cast h)
        omega
      have h0 : (n - min b n + t - 1) / t = 0 := by
        rw [this]; simp; omega
      rw [h0]; rfl
  have h0 : ¬ ((t : ℤ) = 0) := by omega
  have h1 : (t : ℤ) > 0 := by omega
  constructor
  · simp only [sliceIdx3, Option.getD_some, h0, h1, if_false, if_true]
    exact key n rfl
  · simp only [sliceIdx3, Option.getD_some, h0, h1, if_false, if_true, hstop]
    exact key n rfl

example : sliceIdx3 7 (some 2) none (some 3) = some [2, 5] ∧ sliceIdx3 6 none (some (-8)) (some (-1)) = some [5, 4, 3, 2, 1, 0] := by
  decide

/-- **subSamples2_slice_eq_burnthin** — `_sub_samples(slice(b, None, t))` and
    `_sub_samples(slice(b, Ns, t))` return the same object as `burnthin(b, t)` (`0 ≤ b < Ns`, `t ≥ 1`,
    object accepted by the constructor).  (A JointSamples.burnthin written with one explicit
    `slice(Nb, Ns_of_the_first_member, Nt)` is therefore *not* the member-wise burnthin as soon as
    a member is longer — `joint_burnthin_memberwise` below.) -/
theorem subSamples2_slice_eq_burnthin (s : Samples) (b t : ℕ) (ht : 1 ≤ t) (hb : b < s.Ns)
    (hf : s.flagsOk = true) :
    s.subSamples2 (.slice (some (b : ℤ)) none (some (t : ℤ))) = s.burnthin b t ∧
    s.subSamples2 (.slice (some (b : ℤ)) (some (s.Ns : ℤ)) (some (t : ℤ))) = s.burnthin b t := by
  have hmain : (match sliceIdx s.Ns b t with
      | none => (.error "ValueError" : Except String Samples)
      | some is => Samples.init (is.map (fun i => s.cols.getD i [])) s.shape s.geom s.isPar s.isVec)
      = s.burnthin b t := by
    have : ¬ (s.isPar = true ∧ s.isVec = false) := by
      cases hp : s.isPar <;> cases hv : s.isVec <;> simp_all [Samples.flagsOk]
    rw [burnthin_ok s b t ht hb, sliceIdx_nat _ _ _ ht]
    simp only [init_spec, if_neg this]
    congr 2
    rw [natSlice_eq_map_range _ _ _ ht [], List.map_map]
    have hmin : min b s.Ns = b := by omega
    rw [hmin]
    rfl
  constructor
  · simp only [Samples.subSamples2, (sliceIdx3_eq_sliceIdx s.Ns b t ht).1]; exact hmain
  · simp only [Samples.subSamples2, (sliceIdx3_eq_sliceIdx s.Ns b t ht).2]; exact hmain

example : exS.subSamples2 (.slice (some 1) none (some 2)) = exS.burnthin 1 2 :=
  (subSamples2_slice_eq_burnthin exS 1 2 (by norm_num) (by decide) rfl).1

lemma filterMap_zip_mask_sublist {α : Type} : ∀ (xs : List α) (m : List Bool),
    ((xs.zip m).filterMap (fun cb => if cb.2 then some cb.1 else none)).Sublist xs
  | [], _ => by simp
  | _ :: _, [] => by simp
  | x :: xs, b :: m => by
    cases b
    · simpa using (filterMap_zip_mask_sublist xs m).cons x
    · simpa using (filterMap_zip_mask_sublist xs m).cons_cons x

/-- **subSamples2_mask** — a boolean mask with one entry per stored sample selects the samples
    flagged `True`, in chain order: the result's samples are a sublist of the stored ones (geometry,
    flags, coordinate shape kept); a non-empty mask of another length ⇒ `IndexError`. -/
theorem subSamples2_mask (s : Samples) (m : List Bool) (hf : s.flagsOk = true) :
    (m.length = s.Ns → ∃ r, s.subSamples2 (.mask m) = .ok r ∧ r.cols.Sublist s.cols ∧
        r.cols = (s.cols.zip m).filterMap (fun cb => if cb.2 then some cb.1 else none) ∧
        r.geom = s.geom ∧ r.isPar = s.isPar ∧ r.isVec = s.isVec ∧ r.shape = s.shape) ∧
    (m.length ≠ s.Ns → m ≠ [] → s.subSamples2 (.mask m) = .error "IndexError") := by
  have hnf : ¬ (s.isPar = true ∧ s.isVec = false) := by
    cases hp : s.isPar <;> cases hv : s.isVec <;> simp_all [Samples.flagsOk]
  constructor
  · intro hl
    refine ⟨{ s with cols := (s.cols.zip m).filterMap (fun cb => if cb.2 then some cb.1 else none) }, ?_,
      filterMap_zip_mask_sublist s.cols m, rfl, rfl, rfl, rfl, rfl⟩
    simp only [Samples.subSamples2, init_spec, if_neg hnf]
    rw [if_neg (by intro h; exact h.1 hl)]
  · intro hl hne
    simp only [Samples.subSamples2]
    rw [if_pos ⟨hl, hne⟩]

example : ∃ r, exS.subSamples2 (.mask [true, false, false, true, true]) = .ok r ∧
    r.cols = [[0, 10], [3, 13], [4, 14]] :=
  let ⟨r, h, _, hc, _⟩ := (subSamples2_mask exS _ rfl).1 rfl
  ⟨r, h, by rw [hc]; decide⟩

/-- **Observation pinned as a theorem (outside the property's domain)**: a python `bool` is a
    `numbers.Number`; `_sub_samples(True)` does not select a sample — it returns ONE "sample" whose
    coordinates are the whole stored array (coordinate shape `shape + (Ns, 1)`), `_sub_samples(False)`
    one sample without coordinates. -/
theorem subSamples2_boolScalar (s : Samples) (hf : s.flagsOk = true) (b : Bool) :
    ∃ r, s.subSamples2 (.boolScalar b) = .ok r ∧ r.Ns = 1 ∧
      r.shape = s.shape ++ [s.Ns, if b then 1 else 0] ∧
      r.cols = [if b then s.flatCoordMajor else []] := by
  have hnf : ¬ (s.isPar = true ∧ s.isVec = false) := by
    cases hp : s.isPar <;> cases hv : s.isVec <;> simp_all [Samples.flagsOk]
  exact ⟨{ s with cols := [if b then s.flatCoordMajor else []], shape := s.shape ++ [s.Ns, if b then 1 else 0] },
    by simp only [Samples.subSamples2, init_spec, if_neg hnf], rfl, rfl, rfl⟩

example : ∃ r, exS.subSamples2 (.boolScalar true) = .ok r ∧ r.cols = [[0, 1, 2, 3, 4, 10, 11, 12, 13, 14]] :=
  ⟨_, rfl, by decide⟩

/-! ## 2. `plot_ci` -/

/-- **plotCi_refuses** — `plot_ci` raises `ValueError` for a credibility level outside `[-100, 100]`
    (from `np.percentile`, first), for a user-supplied `is_par` in either keyword dictionary, and for
    `plot_par=True` (in either dictionary) on function-value samples. -/
theorem plotCi_refuses (s : Samples) (p : ℚ) (he k1 k2 : Bool) (pp1 pp2 : Option Bool) (g2 : Bool) :
    ((p < -100 ∨ 100 < p) → s.plotCi p he k1 k2 pp1 pp2 g2 = .error "ValueError") ∧
    ((k1 = true ∨ k2 = true) → ∃ e, s.plotCi p he k1 k2 pp1 pp2 g2 = .error e) ∧
    (s.isPar = false → (pp1 = some true ∨ pp2 = some true) → ∃ e, s.plotCi p he k1 k2 pp1 pp2 g2 = .error e) := by
  refine ⟨fun hp => ?_, fun hk => ?_, fun hpar hpp => ?_⟩
  · have : s.computeCi p = .error "ValueError" := by
      unfold Samples.computeCi
      have : ciLevels p = .error "ValueError" := by
        unfold ciLevels
        rw [if_neg]
        rintro ⟨h1, h2, h3, h4⟩
        rcases hp with hp | hp <;> linarith
      rw [this]; rfl
    simp [Samples.plotCi, this, bind, Except.bind]
  · cases hc : s.computeCi p with
    | error e => exact ⟨e, by simp [Samples.plotCi, hc, bind, Except.bind]⟩
    | ok lu =>
      refine ⟨"ValueError", ?_⟩
      have hk' : (k1 || k2) = true := by rcases hk with h | h <;> simp [h]
      simp [Samples.plotCi, hc, hk', bind, Except.bind, throw, throwThe, MonadExceptOf.throw]
  · cases hc : s.computeCi p with
    | error e => exact ⟨e, by simp [Samples.plotCi, hc, bind, Except.bind]⟩
    | ok lu =>
      cases hk : (k1 || k2) with
      | true => exact ⟨"ValueError", by simp [Samples.plotCi, hc, hk, bind, Except.bind, throw, throwThe, MonadExceptOf.throw]⟩
      | false =>
        refine ⟨"ValueError", ?_⟩
        have hq : (!s.isPar && (pp1 == some true || pp2 == some true)) = true := by
          rcases hpp with h | h <;> simp [hpar, h]
        simp [Samples.plotCi, hc, hk, hq, bind, Except.bind, throw, throwThe, MonadExceptOf.throw]

example : exS.plotCi 150 false false false none none false = .error "ValueError" :=
  (plotCi_refuses exS 150 _ _ _ _ _ _).1 (Or.inr (by norm_num))

/-- **plotCi_spec** — for a level in `[0, 100]`, no user `is_par`, `plot_par` only on parameters: the
    bounds `plot_ci` hands to the geometry are exactly `compute_ci(percent)` of the stored samples
    (per-coordinate `(100−p)/2`-th and `100−(100−p)/2`-th percentiles), they bracket the median at
    every coordinate, the plotted width is `upper − lower`, the mean is what `plot_mean` hands over;
    the 2-D branch (`Image2D` / `Continuous2D`, not `plot_par`) makes the calls mean, [exact], width,
    upper, lower — the last three *without* an `is_par` keyword — and the other branch
    `plot_envelope(lower, upper, is_par, plot_par)`, mean, [exact]. -/
theorem plotCi_spec (s : Samples) (hN : s.cols ≠ []) (p : ℚ) (h0 : 0 ≤ p) (h100 : p ≤ 100)
    (he : Bool) (pp1 pp2 : Option Bool) (g2 : Bool)
    (hpp : s.isPar = true ∨ (pp1 ≠ some true ∧ pp2 ≠ some true))
    (m : List ℚ) (hm : s.plotStat mean [] = .ok (m, s.isPar)) :
    ∃ lo up, s.computeCi p = .ok (lo, up) ∧
      lo = s.stat (percentile · ((100 - p) / 2)) ∧ up = s.stat (percentile · (100 - (100 - p) / 2)) ∧
      (∀ k, k < s.dim → ∃ l md u, lo[k]? = some l ∧ (s.stat median)[k]? = some md ∧ up[k]? = some u ∧
        l ≤ md ∧ md ≤ u) ∧
      s.plotCi p he false false pp1 pp2 g2 = .ok
        (if (g2 && !(pp1.getD false)) = true then
          [PlotCall.plot m (some s.isPar)] ++ (if he then [PlotCall.exact s.isPar (pp1.getD false)] else []) ++
            [.plot (List.zipWith (· - ·) up lo) none, .plot up none, .plot lo none]
         else
          [PlotCall.envelope lo up s.isPar (pp1.getD false), .plot m (some s.isPar)] ++
            (if he then [PlotCall.exact s.isPar (pp1.getD false)] else [])) := by
  obtain ⟨lo, up, w, hci, _, hlo, hup, hbr⟩ := computeCi_spec s hN p h0 h100
  refine ⟨lo, up, hci, hlo, hup, ?_, ?_⟩
  · intro k hk
    obtain ⟨l, md, u, h1, h2, h3, h4, h5, _⟩ := hbr k hk
    exact ⟨l, md, u, h1, h2, h3, h4, h5⟩
  · have hq : (!s.isPar && (pp1 == some true || pp2 == some true)) = false := by
      rcases hpp with h | ⟨h1, h2⟩
      · simp [h]
      · have e1 : (pp1 == some true) = false := by simpa using h1
        have e2 : (pp2 == some true) = false := by simpa using h2
        simp [e1, e2]
    simp only [Samples.plotCi, hci, hm, hq, bind, Except.bind, pure, Except.pure, Bool.or_self,
      Bool.false_eq_true, if_false]
    split <;> rfl

example : ∃ lo up, exS.computeCi 50 = .ok (lo, up) ∧
    exS.plotCi 50 false false false none none false = .ok [.envelope lo up true false, .plot [2, 12] (some true)] := by
  have hm : exS.plotStat mean [] = .ok ([2, 12], exS.isPar) := by
    rw [plotStat_parameters_or_funvals exS mean [] (by simp) (Or.inl rfl)]; decide +kernel
  obtain ⟨lo, up, h1, _, _, _, h5⟩ := plotCi_spec exS (by decide) 50 (by norm_num) (by norm_num) false none none false
    (Or.inl rfl) [2, 12] hm
  exact ⟨lo, up, h1, h5.trans rfl⟩

/-! ## 3. JointSamples with members of different lengths -/

lemma mapE_cons_ok {α β : Type} (f : α → Except String β) (x : α) (xs : List α) (y : β) (ys : List β)
    (h : f x = .ok y) (hs : mapE f xs = .ok ys) : mapE f (x :: xs) = .ok (y :: ys) := by
  simp [mapE, h, hs]

lemma mapE_cons_error {α β : Type} (f : α → Except String β) (x : α) (xs : List α) (e : String)
    (h : f x = .error e) : mapE f (x :: xs) = .error e := by
  simp [mapE, h]

lemma mapE_cons_ok_error {α β : Type} (f : α → Except String β) (x : α) (xs : List α) (y : β) (e : String)
    (h : f x = .ok y) (hs : mapE f xs = .error e) : mapE f (x :: xs) = .error e := by
  simp [mapE, h, hs]

/-- **joint_burnthin_memberwise** — members may hold different numbers of samples (a field stored
    every second iteration next to a hyper-parameter stored at every iteration): for `b ≥ 0`, `t ≥ 1`
    `JointSamples.burnthin(b, t)` succeeds iff `b` is smaller than **every** member's own `Ns`, and
    then member `j` keeps its key and holds exactly its own stored samples `b, b+t, …` —
    `⌈(Ns_j − b)/t⌉` of them, computed from *its* length; if some member has `Ns_j ≤ b` the call raises
    `ValueError` (no member is silently emptied or truncated at another member's length). -/
theorem joint_burnthin_memberwise (js : List (String × Samples)) (b t : ℕ) (ht : 1 ≤ t) :
    ((∀ kv ∈ js, b < kv.2.Ns) →
      jointBurnthin js b t = .ok (js.map (fun kv => (kv.1, { kv.2 with cols := natSlice kv.2.cols b t }))) ∧
      ∀ kv ∈ js, (natSlice kv.2.cols b t).length = (kv.2.Ns - b + t - 1) / t) ∧
    ((∃ kv ∈ js, kv.2.Ns ≤ b) → jointBurnthin js b t = .error "ValueError") := by
  constructor
  · intro h
    refine ⟨?_, fun kv _ => natSlice_length _ _ _ ht⟩
    unfold jointBurnthin
    induction js with
    | nil => rfl
    | cons kv rest ih =>
      have hk := h kv (by simp)
      have ihr := ih (fun kv' hkv' => h kv' (by simp [hkv']))
      rw [List.map_cons]
      exact mapE_cons_ok _ kv rest _ _ (by simp only [burnthin_ok kv.2 b t ht hk]; rfl) ihr
  · rintro ⟨kv0, hmem, hle⟩
    unfold jointBurnthin
    induction js with
    | nil => cases hmem
    | cons kv rest ih =>
      by_cases hk : b < kv.2.Ns
      · have hrest : kv0 ∈ rest := by
          rcases List.mem_cons.mp hmem with rfl | hm
          · omega
          · exact hm
        exact mapE_cons_ok_error _ kv rest _ _ (by simp only [burnthin_ok kv.2 b t ht hk]; rfl) (ih hrest)
      · have : kv.2.burnthin b t = .error "ValueError" := by
          unfold Samples.burnthin
          rw [if_pos (by omega)]
        exact mapE_cons_error _ kv rest _ (by simp only [this]; rfl)

example : ∃ js', jointBurnthin [("x", exS), ("d", { exS with cols := [[1, 2], [3, 4], [5, 6], [7, 8], [9, 10], [11, 12], [13, 14], [15, 16]] })] 1 3 = .ok js' ∧
    js'.map (fun kv => kv.2.Ns) = [2, 3] := by
  obtain ⟨h, _⟩ := (joint_burnthin_memberwise [("x", exS), ("d", { exS with cols := [[1, 2], [3, 4], [5, 6], [7, 8], [9, 10], [11, 12], [13, 14], [15, 16]] })] 1 3 (by norm_num)).1
    (by intro kv hkv; simp at hkv; rcases hkv with rfl | rfl <;> decide)
  exact ⟨_, h, by decide⟩

/-- **Statistics of a JointSamples object are member by member**, each over that member's own chain
    (its own number of samples), also after `burnthin`. -/
theorem jointStat_memberwise (f : List ℚ → ℚ) (js js' : List (String × Samples)) (b t : ℕ) (ht : 1 ≤ t)
    (hb : ∀ kv ∈ js, b < kv.2.Ns) (h : jointBurnthin js b t = .ok js') :
    jointStat f js = js.map (fun kv => (kv.1, kv.2.stat f)) ∧
    jointStat f js' = js.map (fun kv => (kv.1, (({ kv.2 with cols := natSlice kv.2.cols b t } : Samples)).stat f)) ∧
    jointNs js' = js.map (fun kv => (kv.1, (kv.2.Ns - b + t - 1) / t)) := by
  have h' := ((joint_burnthin_memberwise js b t ht).1 hb).1
  rw [h'] at h
  cases h
  refine ⟨rfl, by simp [jointStat, List.map_map, Function.comp_def], ?_⟩
  simp only [jointNs, List.map_map, Function.comp_def, Samples.Ns]
  apply List.map_congr_left
  intro kv _
  rw [natSlice_length _ _ _ ht]

example : jointNs [("x", exS)] = [("x", 5)] := rfl

/-! ## 4. diagnostics under user-given names -/

/-- **ess_rhat_distinct_names** — the known findings are about *repeated* variable names; for any list of
    pairwise distinct names (e.g. `Discrete(['a','b','c'])`), one per row, `compute_ess` and `compute_rhat`
    (chains of the same geometry, shape and number of draws, passed as a list) hand every variable's
    chain(s) to arviz under its own name, in order, and entry `k` of the R-hat array is written from
    item `k`. -/
theorem ess_rhat_distinct_names (s : Samples) (chains : List Samples) (hv : s.isVec = true)
    (hd : s.geometryDim = s.dim) (hlen : s.geom.varNames.length = s.dim) (hnd : s.geom.varNames.Nodup)
    (hgeom : ∀ c ∈ chains, c.geom.tag = s.geom.tag) (hsh : s.shape.length = 1)
    (hch : ∀ c ∈ chains, c.shape = s.shape ∧ c.Ns = s.Ns) :
    s.essInput = .ok ((List.range s.dim).map (fun k => (s.geom.varNames.getD k "", s.chain k))) ∧
    s.rhatInputA (.list chains) = .ok
      ((List.range s.dim).map (fun k => (s.geom.varNames.getD k "", s.chain k :: chains.map (fun c => c.chain k))),
       (List.range s.dim).map some) := by
  have htake : (s.geom.varNames.take s.dim).Nodup := hnd.sublist (List.take_sublist _ _)
  refine ⟨(essInput_each_variable_iff s hv hd).mpr ⟨le_of_eq hlen.symm, htake⟩, ?_⟩
  show s.rhatInputB chains = _
  rw [rhatInputB_eq_rhatInput s chains hch]
  exact (rhatInput_each_variable_iff s chains hgeom hsh hch hd).mpr ⟨le_of_eq hlen.symm, htake⟩

example : exS.geom.varNames.Nodup ∧ exS.geom.varNames.length = exS.dim := by decide

end CuqiVerif.C19
