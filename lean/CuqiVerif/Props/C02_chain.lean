import CuqiVerif.Model.C02_chain
import CuqiVerif.Proofs.C02_chain
import CuqiVerif.Props.C02
import Mathlib.Analysis.SpecialFunctions.Log.Basic
import Mathlib.Tactic.Linarith
import Mathlib.Tactic.Positivity

/-!
# C02 — the code around the transitions (session-3 extension)

Theorems about the executable definitions of `Model/C02_chain.lean` (the ones the driver ops
`pcnx`, `tune`, `leg`, `exp` run): the loops `sample` / `warmup` / `_sample(N, Nb)` /
`_sample_adapt(N, Nb)` that call the transitions, the tuning of the scale, state reload and scale
re-assignment, and pCN with a scale above one.  All statements hold for every dimension, every
list of inputs (every history) and every number of phases; proofs are inductions over the loops.

* Part 1 — pCN with `scale > 1`: the proposal is NaN, the kernel is the identity.
* Part 2 — tuning: the Robbins–Monro recursion in the log domain, the cap, finiteness of
  `log lambd` along EVERY history (so the tuned scale is a real number in `(0, 1]`).
* Part 3 — the loops: what `tune` / `sample` may change (frame), every invariant of the transition
  is an invariant of every sampler history, in particular cache coherence (the cached log-density /
  gradient belong to the current point) — for the experimental and the legacy interface, burn-in
  and adaptation included.
-/

namespace CuqiVerif.C02

open XVal

/-! ## Part 1 — pCN with a scale above one -/

/-- `np.sqrt(1 - scale**2)` is a number exactly for `|scale| ≤ 1`. -/
theorem pcnContractionDefined_iff (s : ℚ) : pcnContractionDefined s = true ↔ |s| ≤ 1 := by
  unfold pcnContractionDefined
  rw [decide_eq_true_iff, abs_le_one_iff_mul_self_le_one]

example : pcnContractionDefined (3/2) = false ∧ pcnContractionDefined (-1) = true := by decide +kernel

/-- **pCN with `scale > 1` is the identity kernel** whenever the likelihood is NaN at the all-NaN
    proposal (every arithmetic likelihood): for all eight guard tables, every cached value and every
    uniform draw (`u = 0` included) the proposal is rejected and the cache is unchanged.  (A change
    that replaces the NaN contraction by a number makes the proposal `scale·ξ`, for which the
    likelihood-only ratio is not the MH ratio: `pcn_ratio` needs `a² + s² = 1`.) -/
theorem pcnNanStep_identity (k : Kernel) (cache ell : XVal) : pcnNanStep k cache nan ell = (cache, false) := by
  unfold pcnNanStep
  rw [never_accepts_nan]
  rfl

/-- If the all-NaN proposal is accepted at all (both pCN kernels), the likelihood returned a FINITE value
    there, and that value becomes the cache. -/
theorem pcnNanStep_accept_finite (k : Kernel) (hk : k ≠ .legMALA) (cache t ell : XVal)
    (h : (pcnNanStep k cache t ell).2 = true) : t.isFinite = true ∧ (pcnNanStep k cache t ell).1 = t := by
  unfold pcnNanStep at h ⊢
  split at h
  · next hacc =>
    rw [if_pos hacc]
    refine ⟨?_, rfl⟩
    cases hf : t.isFinite
    · rw [never_accepts_nonfinite k hk _ _ _ hf] at hacc; exact absurd hacc (by simp)
    · rfl
  · exact absurd h (by simp)

/-- code-faithful: a likelihood that returns a finite value at the NaN point IS accepted (`u = ¼`,
    flat likelihood) — the chain then sits at NaN. -/
example : pcnNanStep .expPCN (fin 0) (fin 0) (fin (-1)) = (fin 0, true) := by decide +kernel

/-! ## Part 2 — tuning of the scale -/

/-- The cap `scale = min(lambd, 1)` in the log domain, on a finite `log lambd`. -/
theorem capLog_fin (q : ℚ) : capLog (fin q) = fin (min q 0) := by
  unfold capLog XVal.lt
  by_cases h : (0 : ℚ) < q
  · simp [h, min_eq_right (le_of_lt h)]
  · simp [h, min_eq_left (not_lt.mp h)]

/-- **The tuned scale is a real number in `(0, 1]`**: with `log lambd = q` finite, the scale the
    sampler holds after `tune` — `exp` of the capped value — is positive, at most one, and IS
    `min(exp q, 1) = min(lambd, 1)`.  So after any tuning update the kernels' theorems apply
    (`rwmh_gaussian_invariant` needs `s ≠ 0`, `pcn_invariant_code_scale` needs `0 ≤ s ≤ 1`). -/
theorem tuned_scale_mem_unit (q : ℚ) :
    0 < Real.exp ((min q 0 : ℚ) : ℝ) ∧ Real.exp ((min q 0 : ℚ) : ℝ) ≤ 1 ∧
      Real.exp ((min q 0 : ℚ) : ℝ) = min (Real.exp (q : ℝ)) 1 := by
  refine ⟨Real.exp_pos _, ?_, ?_⟩
  · rw [← Real.exp_zero]
    apply Real.exp_le_exp.mpr
    have : min q 0 ≤ 0 := min_le_right _ _
    exact_mod_cast this
  · rcases le_total q 0 with h | h
    · rw [min_eq_left h]
      have : Real.exp (q : ℝ) ≤ 1 := by
        rw [← Real.exp_zero]; exact Real.exp_le_exp.mpr (by exact_mod_cast h)
      rw [min_eq_left this]
    · rw [min_eq_right h]
      have : 1 ≤ Real.exp (q : ℝ) := by
        rw [← Real.exp_zero]; exact Real.exp_le_exp.mpr (by exact_mod_cast h)
      rw [min_eq_right this]; simp

example : capLog (fin (1/3)) = fin 0 ∧ capLog (fin (-2)) = fin (-2) ∧ capLog nan = nan ∧ capLog neginf = neginf := by
  decide +kernel

lemma boolRat_sum_bounds (w : List (List Bool)) (j : Nat) :
    0 ≤ (w.map (fun r => boolRat (r.getD j false))).sum ∧
      (w.map (fun r => boolRat (r.getD j false))).sum ≤ (w.length : ℚ) := by
  induction w with
  | nil => simp
  | cons r w ih =>
    have hb : 0 ≤ boolRat (r.getD j false) ∧ boolRat (r.getD j false) ≤ 1 := by
      unfold boolRat; split <;> norm_num
    simp only [List.map_cons, List.sum_cons, List.length_cons, Nat.cast_add, Nat.cast_one]
    constructor <;> linarith [ih.1, ih.2, hb.1, hb.2]

/-- The averaged acceptance rate of a non-empty window is a number in `[0, 1]` (never NaN). -/
theorem colMean_mem_unit (w : List (List Bool)) (j : Nat) (hw : w ≠ []) :
    ∃ h : ℚ, colMean w j = fin h ∧ 0 ≤ h ∧ h ≤ 1 := by
  unfold colMean
  have he : w.isEmpty = false := by cases w <;> simp_all
  have hl : (0 : ℚ) < (w.length : ℚ) := by
    have : 0 < w.length := List.length_pos_iff.mpr hw
    exact_mod_cast this
  obtain ⟨h0, h1⟩ := boolRat_sum_bounds w j
  refine ⟨_, by simp [he], div_nonneg h0 hl.le, ?_⟩
  rw [div_le_one hl]; exact h1

/-- The target acceptance rates are probabilities, for every dimension. -/
theorem tuner_star_mem_unit (tn : Tuner) (dim : Nat) : 0 ≤ tn.star dim ∧ tn.star dim ≤ 1 := by
  cases tn <;> simp only [Tuner.star] <;> try norm_num
  rcases Nat.eq_zero_or_pos dim with rfl | hd
  · norm_num
  · have h1 : (1 : ℚ) ≤ (dim : ℚ) := by exact_mod_cast hd
    have h2 : (21 / 100 : ℚ) / (dim : ℚ) ≤ 21 / 100 := by
      rw [div_le_iff₀ (by linarith)]; nlinarith
    have h3 : (0 : ℚ) ≤ (21 / 100 : ℚ) / (dim : ℚ) := by positivity
    constructor <;> linarith

/-- **One Robbins–Monro update moves `log lambd` by at most `zeta`**: on a finite `log lambd`, with a
    window mean `h ∈ [0,1]` and a target rate in `[0,1]` the update is the exact affine step
    `l + zeta·(h − star)` and `|l' − l| ≤ zeta`.  The scale can neither collapse to `0` nor blow up
    in finitely many updates. -/
theorem rmStep_bounded (l zeta star h : ℚ) (hz : 0 ≤ zeta) (hh : 0 ≤ h ∧ h ≤ 1) (hs : 0 ≤ star ∧ star ≤ 1) :
    rmStep (fin l) zeta star (fin h) = fin (l + zeta * (h - star)) ∧ |l + zeta * (h - star) - l| ≤ zeta := by
  refine ⟨by simp [rmStep, XVal.add], ?_⟩
  have : |h - star| ≤ 1 := by rw [abs_le]; constructor <;> linarith [hh.1, hh.2, hs.1, hs.2]
  calc |l + zeta * (h - star) - l| = zeta * |h - star| := by
        rw [show l + zeta * (h - star) - l = zeta * (h - star) by ring, abs_mul, abs_of_nonneg hz]
    _ ≤ zeta * 1 := mul_le_mul_of_nonneg_left this hz
    _ = zeta := mul_one _

example : rmStep (fin 0) 1 (234/1000) (fin 1) = fin (766/1000) := by decide +kernel

example : ∃ zeta star h : ℚ, 0 ≤ zeta ∧ (0 ≤ h ∧ h ≤ 1) ∧ (0 ≤ star ∧ star ≤ 1) := ⟨1, 234/1000, 1, by norm_num⟩

/-- An empty window (numpy: mean of an empty slice) poisons the recursion: `log lambd` becomes NaN. -/
theorem rmStep_empty_window (L : XVal) (zeta star : ℚ) : rmStep L zeta star (colMean [] 0) = nan := by
  simp [rmStep, colMean]

/-! ### `tune` — what it may change -/

/-- **Frame of `tune`** (MH, CWMH, PCN; MALA's `tune` is `pass`): the point, the cached log-density /
    log-likelihood, the cached gradient and both histories are untouched; only `scale` and
    `_scale_temp` / `lambd` change. -/
theorem smpTune_frame (tn : Tuner) (wk : Window) (dim T i : Nat) (zi : ℚ) (v : Vec) (s : Smp) :
    (smpTune tn wk dim T i zi v s).st.x = s.st.x ∧ (smpTune tn wk dim T i zi v s).st.logd = s.st.logd ∧
    (smpTune tn wk dim T i zi v s).st.grad = s.st.grad ∧ (smpTune tn wk dim T i zi v s).acc = s.acc ∧
    (smpTune tn wk dim T i zi v s).samples = s.samples := by
  unfold smpTune
  cases tn <;> simp

/-- MALA is not tuned at all. -/
theorem smpTune_none (wk : Window) (dim T i : Nat) (zi : ℚ) (v : Vec) (s : Smp) :
    smpTune .none wk dim T i zi v s = s := rfl

/-! ## Part 3 — the loops -/

/-- **`sample(Ns)` never changes the kernel**: for a transition that leaves the scale alone (all
    eight do: `stepFn_preserves_scale`) the scale, `_scale_temp` / `lambd` and the update counter after
    `sample` are those before it, for any number of steps and any draws; each step appends exactly one
    accept row and one sample. -/
theorem smpSample_frame {ι : Type} (step : St → ι → St × List Bool)
    (hsc : ∀ st inp, (step st inp).1.scale = st.scale) (s : Smp) (inputs : List ι) :
    (smpSample step s inputs).st.scale = s.st.scale ∧ (smpSample step s inputs).logLam = s.logLam ∧
    (smpSample step s inputs).nUpd = s.nUpd ∧
    (smpSample step s inputs).acc.length = s.acc.length + inputs.length ∧
    (smpSample step s inputs).samples.length = s.samples.length + inputs.length := by
  unfold smpSample
  induction inputs generalizing s with
  | nil => simp
  | cons inp rest ih =>
    simp only [List.foldl_cons]
    obtain ⟨h1, h2, h3, h4, h5⟩ := ih (smpRecord { s with st := (step s.st inp).1 } (step s.st inp).2)
    refine ⟨?_, ?_, ?_, ?_, ?_⟩
    · rw [h1]; exact hsc _ _
    · rw [h2]; rfl
    · rw [h3]; rfl
    · rw [h4]; simp [smpRecord]; omega
    · rw [h5]; simp [smpRecord]; omega

/-- All eight transitions leave the scale alone (accepted or not). -/
theorem stepFn_preserves_scale (k : Kernel) (logd : Vec → XVal) (gradf : Vec → Vec) (intDtype : Bool) (st : St)
    (inp : Inp) : (stepFn k logd gradf intDtype st inp).1.scale = st.scale :=
  stepFn_scale k logd gradf intDtype st inp

/-- **The recorded-leaf transitions the driver folds over ARE the transitions on the target
    functions** whenever the recorded values are the target's values at the proposal (MH, pCN, MALA;
    both interfaces). -/
theorem stepLeaf_eq_stepFn (k : Kernel) (hk : k ≠ .expCWMH ∧ k ≠ .legCWMH) (logd : Vec → XVal) (gradf : Vec → Vec)
    (b : Bool) (st : St) (inp : Inp)
    (ht : ∀ xs, xs = (match k with
        | .expMH | .legMH => mhPropose st inp.z
        | .expPCN | .legPCN => pcnPropose st inp.aux inp.z
        | _ => malaPropose st inp.aux inp.z) → inp.ts.headD nan = logd xs ∧ inp.gs = gradf xs) :
    stepLeaf k b st inp = stepFn k logd gradf b st inp := by
  obtain ⟨h1, h2⟩ := hk
  cases k <;> simp only [stepLeaf, stepFn] at ht ⊢
  case expCWMH => exact absurd rfl h1
  case legCWMH => exact absurd rfl h2
  case expMH | legMH => simp only [mhStep, (ht _ rfl).1]
  case expPCN | legPCN => simp only [pcnStep, (ht _ rfl).1]
  case expMALA | legMALA => simp only [malaStep, (ht _ rfl).1, (ht _ rfl).2]

/-- **Every invariant of the transition is an invariant of every sampler history.**  `P` is any
    property of the transition state (point, caches, scale) that the transition preserves and that
    does not mention the scale; then `P` holds after ANY sequence of `sample`, `warmup` (with any
    tuning schedule and any tuned values), `scale = …` assignments and state reloads. -/
theorem session_invariant {ι : Type} (tn : Tuner) (wk : Window) (dim : Nat) (step : St → ι → St × List Bool)
    (P : St → Prop) (hstep : ∀ st inp, P st → P (step st inp).1)
    (hscale : ∀ st v, P st → P { st with scale := v })
    (fresh s : Smp) (phases : List (Phase ι)) (h : P s.st) :
    P (runSession tn wk dim step fresh s phases).st := by
  unfold runSession
  induction phases generalizing s with
  | nil => simpa using h
  | cons ph rest ih =>
    simp only [List.foldl_cons]
    apply ih
    cases ph with
    | sample inputs => exact smpSample_invariant step P hstep s inputs h
    | warmup T zi ns inputs => exact smpWarmupFrom_invariant tn wk dim T step zi ns P hstep hscale 0 s inputs h
    | rescale v => exact hscale _ _ h
    | reload => exact h

/-- **Cache coherence for all histories (experimental interface, all four samplers).**  If the
    cached log-density (log-likelihood for PCN; and the cached gradient for MALA) belongs to the
    current point — `initialize()` establishes this — then it does after any history: fresh, after
    any number of warm-ups with any tuning, after sampling, after `scale` was re-assigned, after
    `set_state(get_state())`.  Hence the hypothesis "coherent caches" of `mhStep_accept_iff_alphaE`,
    `pcnStep_accept_iff_alphaE`, `malaStep_accept_iff_alphaE` holds at every transition of every run. -/
theorem session_cache_coherent (k : Kernel) (logd : Vec → XVal) (gradf : Vec → Vec) (intDtype : Bool) (dim : Nat)
    (fresh s : Smp) (phases : List (Phase Inp)) (h : Coherent k logd gradf s.st) :
    Coherent k logd gradf (runSession k.tuner k.window dim (stepFn k logd gradf intDtype) fresh s phases).st :=
  session_invariant k.tuner k.window dim (stepFn k logd gradf intDtype) (Coherent k logd gradf)
    (fun st inp hst => stepFn_coherent k logd gradf intDtype st inp hst)
    (fun st v hst => coherent_rescale k logd gradf st v hst) fresh s phases h

example : Coherent .expMH (fun x => fin (-(sqNorm x))) (fun x => x) ⟨[1, 2], fin (-5), [], [1/2]⟩ := by
  constructor
  · decide +kernel
  · intro h; exact absurd h (by decide)

/-! ### tuning along whole histories -/

lemma smpWarmupBody_finite {ι : Type} (tn : Tuner) (wk : Window) (dim T : Nat) (hT : 0 < T)
    (step : St → ι → St × List Bool) (zi : Nat → ℚ) (ns : Nat → Vec) (s : Smp) (idx : Nat) (inp : ι)
    (hacc : idx < s.acc.length) (hfin : AllFinite s.logLam) :
    idx + 1 < (smpWarmupBody tn wk dim T step zi ns s idx inp).acc.length ∧
      AllFinite (smpWarmupBody tn wk dim T step zi ns s idx inp).logLam := by
  unfold smpWarmupBody
  simp only
  split
  · next hmod =>
    unfold smpTune
    cases tn <;> simp only [smpRecord, List.length_append, List.length_cons, List.length_nil] <;>
      refine ⟨by omega, ?_⟩
    case none => exact hfin
    all_goals
      apply tuneUpdate_finite _ _ _ _ _ hfin
      apply cut_ne_nil _ _ _ _ hT
      have : idx / T * T ≤ idx := Nat.div_mul_le_self idx T
      show idx / T * T < s.acc.length
      omega
  · simp only [smpRecord, List.length_append, List.length_cons, List.length_nil]
    exact ⟨by omega, hfin⟩

lemma smpWarmupFrom_finite {ι : Type} (tn : Tuner) (wk : Window) (dim T : Nat) (hT : 0 < T)
    (step : St → ι → St × List Bool) (zi : Nat → ℚ) (ns : Nat → Vec) (idx : Nat) (s : Smp) (inputs : List ι)
    (hacc : idx < s.acc.length) (hfin : AllFinite s.logLam) :
    (smpWarmupFrom tn wk dim T step zi ns idx s inputs).acc ≠ [] ∧
      AllFinite (smpWarmupFrom tn wk dim T step zi ns idx s inputs).logLam := by
  induction inputs generalizing idx s with
  | nil =>
    simp only [smpWarmupFrom]
    exact ⟨by intro h; rw [h] at hacc; simp at hacc, hfin⟩
  | cons inp rest ih =>
    simp only [smpWarmupFrom]
    obtain ⟨h1, h2⟩ := smpWarmupBody_finite tn wk dim T hT step zi ns s idx inp hacc hfin
    exact ih (idx + 1) _ h1 h2

/-- **`log lambd` stays finite along every warm-up** (any length, any tuning interval `T ≥ 1`, any accept
    history, both window conventions, any earlier history that left `_acc` non-empty): no window the
    tuner averages is ever empty, so no NaN enters the recursion; with `tuned_scale_mem_unit` every scale
    produced by tuning is a real number in `(0, 1]`. -/
theorem smpWarmup_logLam_finite {ι : Type} (tn : Tuner) (wk : Window) (dim T : Nat) (hT : 0 < T)
    (step : St → ι → St × List Bool) (zi : Nat → ℚ) (ns : Nat → Vec) (s : Smp) (inputs : List ι)
    (hacc : s.acc ≠ []) (hfin : AllFinite s.logLam) :
    (smpWarmup tn wk dim T step zi ns s inputs).acc ≠ [] ∧ AllFinite (smpWarmup tn wk dim T step zi ns s inputs).logLam :=
  smpWarmupFrom_finite tn wk dim T hT step zi ns 0 s inputs (List.length_pos_iff.mpr hacc) hfin

/-- a concrete warm-up of experimental MH (`tune_interval = 1`, two steps, both tuned): `log lambd` goes
    `-1 → -117/500 → positive` (capped), the histories have three accept rows and two samples. -/
def demoWarmup : Smp :=
  smpWarmup .mh .last 1 (tuneInterval (1/2)) (stepLeaf .expMH false) (fun n => (n : ℚ) + 1) (fun _ => [1/4])
    (smpInit 1 ⟨[0], fin 0, [], [1/2]⟩ [fin (-1)])
    [⟨[1], [fin (-1)], [fin (-1/2)], [], 0⟩, ⟨[1], [fin (-1/100)], [fin (-3)], [], 0⟩]

example : demoWarmup.trace.head? = some [fin (-117/500)] ∧ demoWarmup.acc.length = 3 ∧
    demoWarmup.samples.length = 2 ∧ demoWarmup.nUpd = 2 := by
  decide +kernel

/-- every phase of a history has a positive tuning interval (`tune_interval = max(int(·), 1)`) -/
def PhasesOk {ι : Type} : List (Phase ι) → Prop
  | [] => True
  | .warmup T _ _ _ :: rest => 0 < T ∧ PhasesOk rest
  | _ :: rest => PhasesOk rest

/-- `max(int(tune_freq*Nb), 1)` is positive whatever the arguments. -/
theorem tuneInterval_pos (p : ℚ) : 0 < tuneInterval p := by
  unfold tuneInterval; omega

lemma smpSample_acc_logLam {ι : Type} (step : St → ι → St × List Bool) (s : Smp) (inputs : List ι) (hacc : s.acc ≠ []) :
    (smpSample step s inputs).acc ≠ [] ∧ (smpSample step s inputs).logLam = s.logLam := by
  unfold smpSample
  induction inputs generalizing s with
  | nil => exact ⟨hacc, rfl⟩
  | cons inp r ih2 =>
    simp only [List.foldl_cons]
    have := ih2 (smpRecord { s with st := (step s.st inp).1 } (step s.st inp).2) (by simp [smpRecord])
    exact ⟨this.1, this.2⟩

/-- **After ANY history of an initialised sampler `log lambd` is finite** (so the tuned scale is a
    positive real `≤ 1`): any interleaving of warm-ups, sampling, scale assignment and state reload,
    started from `initialize()` with a positive finite scale. -/
theorem session_logLam_finite {ι : Type} (tn : Tuner) (wk : Window) (dim : Nat) (step : St → ι → St × List Bool)
    (fresh s : Smp) (phases : List (Phase ι)) (hok : PhasesOk phases)
    (hfresh : fresh.acc ≠ []) (hacc : s.acc ≠ []) (hfin : AllFinite s.logLam) :
    AllFinite (runSession tn wk dim step fresh s phases).logLam ∧ (runSession tn wk dim step fresh s phases).acc ≠ [] := by
  unfold runSession
  induction phases generalizing s with
  | nil => exact ⟨hfin, hacc⟩
  | cons ph rest ih =>
    simp only [List.foldl_cons]
    cases ph with
    | sample inputs =>
      have hstepacc := smpSample_acc_logLam step s inputs hacc
      exact ih _ hok hstepacc.1 (hstepacc.2 ▸ hfin)
    | warmup T zi ns inputs =>
      obtain ⟨h1, h2⟩ := smpWarmup_logLam_finite tn wk dim T hok.1 step zi ns s inputs hacc hfin
      exact ih _ hok.2 h1 h2
    | rescale v => exact ih _ hok hacc hfin
    | reload => exact ih _ hok hfresh hfin

example : AllFinite (smpInit 1 ⟨[0], fin 0, [], [1/2]⟩ [fin (-1)]).logLam ∧ (smpInit 1 ⟨[0], fin 0, [], [1/2]⟩ [fin (-1)]).acc ≠ [] := by
  constructor
  · intro L hL; simp [smpInit] at hL; subst hL; rfl
  · simp [smpInit]

/-! ### the legacy loops -/

/-- **`_sample(N, Nb)` returns the chain without its first `Nb` states**: the `Ns = N + Nb` states visited
    from `x0` (with `logd(x0)` cached) by `Ns − 1` transitions, each started from the state AND caches
    the previous one returned; the first `Nb` are dropped, `N` remain.  `Ns = 0` is refused. -/
theorem legSample_eq {ι : Type} (width : Nat) (step : St → ι → St × List Bool) (st0 : St) (N Nb : Nat)
    (inputs : List ι) (hN : N + Nb ≠ 0) (hlen : inputs.length + 1 = N + Nb) :
    legSample width step st0 N Nb inputs =
      some ((chainOf step st0 inputs).drop Nb, (List.replicate width true :: accOf step st0 inputs).drop Nb) ∧
    ((chainOf step st0 inputs).drop Nb).length = N := by
  unfold legSample
  have hc : ¬ (N + Nb = 0 ∨ inputs.length + 1 ≠ N + Nb) := by
    intro h; rcases h with h | h
    · exact hN h
    · exact h hlen
  rw [if_neg hc]
  obtain ⟨h1, h2⟩ := legAdvance_fold step inputs (legInit width st0 [])
  simp only [legInit] at h1 h2
  constructor
  · simp only [legInit]
    rw [h1, h2]
    congr 2
    cases inputs <;> simp [chainOf]
  · rw [List.length_drop, chainOf_length]; omega

/-- `sample(2, 1)` of legacy MH on a concrete target: three states are visited, the first is dropped. -/
example : (legSample 1 (stepLeaf .legMH false) ⟨[0], fin 0, [], [1/2]⟩ 2 1
      [⟨[1], [fin (-1)], [fin (-1/2)], [], 0⟩, ⟨[1], [fin (-1/100)], [fin (-3)], [], 0⟩]).map (fun r => r.1.map (·.x))
    = some [[1/2], [1/2]] := by decide +kernel

/-- `Ns = 0` (`samples[:, 0] = x0` raises `IndexError`) is refused. -/
theorem legSample_refuses_empty {ι : Type} (width : Nat) (step : St → ι → St × List Bool) (st0 : St)
    (inputs : List ι) : legSample width step st0 0 0 inputs = none := by
  simp [legSample]

/-- **Chain link, burn-in included**: state `i+1` of the legacy chain is the transition applied to
    state `i` — point AND cached values — for every `i`, before, across and after the burn-in
    boundary (the returned columns are `drop Nb` of this chain, `legSample_eq`). -/
theorem legChain_link {ι : Type} (step : St → ι → St × List Bool) (st0 : St) (inputs : List ι) (i : Nat)
    (hi : i < inputs.length) :
    ∃ st, (chainOf step st0 inputs)[i]? = some st ∧
      (chainOf step st0 inputs)[i + 1]? = some (step st inputs[i]).1 :=
  chainOf_link step st0 inputs i hi

/-- **Cache coherence of every stored state of the legacy chain** (all four legacy samplers, any `N`,
    `Nb`, draws): `target_eval[s]` (and `g_target_eval[:, s]` for MALA) belongs to `samples[:, s]`. -/
theorem legSample_cache_coherent (k : Kernel) (logd : Vec → XVal) (gradf : Vec → Vec) (intDtype : Bool)
    (width : Nat) (st0 : St) (N Nb : Nat) (inputs : List Inp) (h0 : Coherent k logd gradf st0)
    (r : List St × List (List Bool))
    (hr : legSample width (stepFn k logd gradf intDtype) st0 N Nb inputs = some r) :
    ∀ st ∈ r.1, Coherent k logd gradf st := by
  unfold legSample at hr
  split at hr
  · exact absurd hr (by simp)
  · simp only [Option.some.injEq] at hr
    subst hr
    intro st hst
    have hmem := List.mem_of_mem_drop hst
    rw [(legAdvance_fold _ inputs _).1] at hmem
    simp only [legInit, List.mem_append, List.mem_singleton] at hmem
    rcases hmem with rfl | hmem
    · exact h0
    · exact chainOf_all _ _ (fun st inp hst => stepFn_coherent k logd gradf intDtype st inp hst) st0 inputs h0 st
        (List.mem_of_mem_tail hmem)

/-- invariant of the adaptive legacy loop: every stored state satisfies `P`, and the state the next
    transition starts from is the LAST stored state up to its scale -/
def LegInv (P : St → Prop) (L : Leg) : Prop :=
  (∀ st ∈ L.chain, P st) ∧ ∃ last, L.chain.getLast? = some last ∧ L.cur = { last with scale := L.cur.scale }

lemma legAdvance_inv {ι : Type} (step : St → ι → St × List Bool) (P : St → Prop)
    (hstep : ∀ st inp, P st → P (step st inp).1) (hscale : ∀ st v, P st → P { st with scale := v })
    (L : Leg) (inp : ι) (h : LegInv P L) : LegInv P (legAdvance step L inp) := by
  obtain ⟨h1, last, h2, h3⟩ := h
  have hcur : P L.cur := by
    rw [h3]; exact hscale _ _ (h1 _ (List.mem_of_getLast? h2))
  refine ⟨?_, (step L.cur inp).1, by simp [legAdvance], by simp [legAdvance]⟩
  intro st hst
  simp only [legAdvance, List.mem_append, List.mem_singleton] at hst
  rcases hst with hst | rfl
  · exact h1 _ hst
  · exact hstep _ _ hcur

lemma legAdapt_inv (tn : Tuner) (dim Na : Nat) (zi : ℚ) (v : Vec) (P : St → Prop) (L : Leg) (h : LegInv P L) :
    LegInv P (legAdapt tn dim Na zi v L) := by
  obtain ⟨h1, last, h2, h3⟩ := h
  refine ⟨h1, last, h2, ?_⟩
  simp only [legAdapt]
  rw [h3]

lemma legAdaptFrom_inv {ι : Type} (tn : Tuner) (dim Na : Nat) (step : St → ι → St × List Bool)
    (zi : Nat → ℚ) (ns : Nat → Vec) (P : St → Prop)
    (hstep : ∀ st inp, P st → P (step st inp).1) (hscale : ∀ st v, P st → P { st with scale := v })
    (s : Nat) (L : Leg) (inputs : List ι) (h : LegInv P L) :
    LegInv P (legAdaptFrom tn dim Na step zi ns s L inputs) := by
  induction inputs generalizing s L with
  | nil => simpa [legAdaptFrom] using h
  | cons inp rest ih =>
    simp only [legAdaptFrom]
    apply ih
    unfold legAdaptBody
    simp only
    split
    · exact legAdapt_inv _ _ _ _ _ _ _ (legAdvance_inv step P hstep hscale L inp h)
    · exact legAdvance_inv step P hstep hscale L inp h

/-- **`_sample_adapt(N, Nb)`: cache coherence of every stored state, adaptation included** (legacy MH, pCN,
    CWMH; any `N`, `Nb`, any adaptation values): every returned state has its own log-density (gradient)
    cached, and the adaptation only ever replaces the scale — the state the next transition starts from is
    the last stored state (point and caches) with the current scale. -/
theorem legSampleAdapt_cache_coherent (k : Kernel) (logd : Vec → XVal) (gradf : Vec → Vec) (intDtype : Bool)
    (width dim : Nat) (zi : Nat → ℚ) (ns : Nat → Vec) (st0 : St) (lam0 : List XVal) (N Nb : Nat) (prodNa : ℚ)
    (inputs : List Inp) (h0 : Coherent k logd gradf st0) (r : List St × List (List Bool) × Leg)
    (hr : legSampleAdapt k.tuner width dim (stepFn k logd gradf intDtype) zi ns st0 lam0 N Nb prodNa inputs = some r) :
    (∀ st ∈ r.1, Coherent k logd gradf st) ∧
      (k.tuner ≠ .none → ∃ last, r.2.2.chain.getLast? = some last ∧ r.2.2.cur = { last with scale := r.2.2.cur.scale }) := by
  unfold legSampleAdapt at hr
  split at hr
  · next htn =>
    rw [Option.map_eq_some_iff] at hr
    obtain ⟨r', hr', rfl⟩ := hr
    exact ⟨legSample_cache_coherent k logd gradf intDtype width st0 N Nb inputs h0 r' hr', fun h => absurd htn h⟩
  · simp only at hr
    split at hr
    · exact absurd hr (by simp)
    · simp only [Option.some.injEq] at hr
      subst hr
      have hinv := legAdaptFrom_inv k.tuner dim
        (Int.toNat (Int.tdiv prodNa.num (prodNa.den : Int))) (stepFn k logd gradf intDtype) zi ns
        (Coherent k logd gradf) (fun st inp hst => stepFn_coherent k logd gradf intDtype st inp hst)
        (fun st v hst => coherent_rescale k logd gradf st v hst) 0 (legInit width st0 lam0) inputs
        ⟨by intro st hst; simp [legInit] at hst; exact hst ▸ h0, st0, by simp [legInit], by simp [legInit]⟩
      exact ⟨fun st hst => hinv.1 _ (List.mem_of_mem_drop hst), fun _ => hinv.2⟩

/-- `Na = int(0.1*N) = 0` (i.e. `N < 10`) makes `_sample_adapt` raise (`Ns/Na`): refused, for the three
    adaptive legacy samplers. -/
theorem legSampleAdapt_refuses_short {ι : Type} (tn : Tuner) (htn : tn ≠ .none) (width dim : Nat)
    (step : St → ι → St × List Bool) (zi : Nat → ℚ) (ns : Nat → Vec) (st0 : St) (lam0 : List XVal) (N Nb : Nat)
    (prodNa : ℚ) (inputs : List ι) (h : Int.toNat (Int.tdiv prodNa.num (prodNa.den : Int)) = 0) :
    legSampleAdapt tn width dim step zi ns st0 lam0 N Nb prodNa inputs = none := by
  unfold legSampleAdapt
  cases tn <;> simp_all

example : legSampleAdapt (ι := Inp) .mh 1 1 (stepLeaf .legMH false) (fun _ => 1) (fun _ => [1]) ⟨[0], fin 0, [], [1/2]⟩ [fin 0]
    9 2 (9/10) [] = none := by decide +kernel

/-- `scale=None`: legacy MH / pCN refuse to `sample` and start `sample_adapt` from `0.1`; a given scale is used as is. -/
theorem legScaleArg_spec (adapt : Bool) (s : ℚ) :
    legScaleArg adapt (some s) = some s ∧ legScaleArg false none = none ∧ legScaleArg true none = some (1 / 10) := by
  simp [legScaleArg]

/-! ## Part 4 — second pass: CWMH on recorded values, re-initialisation / re-targeting, `step` / `step_tune` -/

/-- **CWMH (both interfaces): the recorded-leaf sweep the driver folds over IS the sweep on the target
    function** whenever, at every component `j`, the recorded value is the target's value at the point the
    loop queries there (`AgreeOn`: `x_star` with coordinate `j` replaced, along the run) — accept bits,
    next point, cache and the list of query points all coincide.  Completes `stepLeaf_eq_stepFn`. -/
theorem stepLeaf_eq_stepFn_cwmh (k : Kernel) (hk : k = .expCWMH ∨ k = .legCWMH) (logd : Vec → XVal)
    (gradf : Vec → Vec) (b : Bool) (st : St) (inp : Inp)
    (h : AgreeOn k (fun j _ => inp.ts.getD j nan) (fun _ => logd) ((cwPropose st inp.z).map (coerce b)) inp.ells
          (List.range st.x.length) (cwLoop0 st)) :
    stepLeaf k b st inp = stepFn k logd gradf b st inp := by
  rcases hk with rfl | rfl <;> simp only [stepLeaf, stepFn] <;> rw [cwStep_congr _ _ _ st inp.z inp.ells b h]

/-- the hypothesis is satisfiable: a two-component sweep with the values of `-(x₀² + x₁²)` recorded at
    the two query points `(1, 0)` and `(1, 2)` (first component accepted) -/
example : AgreeOn .expCWMH (fun j _ => [fin (-1), fin (-5)].getD j nan) (fun _ x => fin (-(sqNorm x)))
    ((cwPropose ⟨[0, 0], fin 0, [], [1]⟩ [1, 2]).map (coerce false)) [fin (-2), fin (-1/2)]
    (List.range 2) (cwLoop0 ⟨[0, 0], fin 0, [], [1]⟩) := by
  have hr : List.range 2 = [0, 1] := by decide
  rw [hr]
  refine ⟨by decide +kernel, by decide +kernel, trivial⟩

/-- **Every invariant of the transition is an invariant of every history, re-initialisation and
    re-targeting included.**  `P t st`: property of the transition state relative to target `t`, preserved by
    `t`'s transition, independent of the scale, and established by `initialize()` (which evaluates the CURRENT
    target at the CURRENT `initial_point`).  Then `P (current target) (current state)` holds after any
    interleaving of `sample`, `warmup`, `scale = …`, reload, `reinitialize()` (after `initial_point` was
    re-assigned or not) and `target = …; reinitialize()`. -/
theorem sessionT_invariant {τ ι : Type} (tn : Tuner) (wk : Window) (dim width : Nat)
    (step : τ → St → ι → St × List Bool) (evalInit : Nat → τ → Vec → XVal × Vec) (P : τ → St → Prop)
    (hstep : ∀ t st inp, P t st → P t (step t st inp).1)
    (hscale : ∀ t st v, P t st → P t { st with scale := v })
    (hinit : ∀ n t x0 sc, P t { x := x0, logd := (evalInit n t x0).1, grad := (evalInit n t x0).2, scale := sc })
    (fresh : Smp) (S : SmpT τ) (phases : List (PhaseT τ ι)) (h : P S.tgt S.s.st) :
    P (runSessionT tn wk dim width step evalInit fresh S phases).tgt
      (runSessionT tn wk dim width step evalInit fresh S phases).s.st := by
  unfold runSessionT
  induction phases generalizing S with
  | nil => simpa using h
  | cons ph rest ih =>
    simp only [List.foldl_cons]
    apply ih
    cases ph with
    | base p => exact runPhase_invariant tn wk dim (step S.tgt) (P S.tgt) (hstep S.tgt) (hscale S.tgt) fresh S.s p h
    | reinit x0 sc lam => exact hinit _ _ _ _
    | retarget t x0 sc lam => exact hinit _ _ _ _

/-- **Cache coherence for all histories, re-initialisation and re-targeting included** (all four experimental
    samplers): after `sampler.target = B; reinitialize()` the cached log-density / gradient are B's at the
    current point, after `initial_point = …; reinitialize()` they are the current target's at the new point,
    and they stay so through any later warm-up / sampling / reload — for any family of targets `logd t`,
    `gradf t`. -/
theorem sessionT_cache_coherent {τ : Type} (k : Kernel) (logd : τ → Vec → XVal) (gradf : τ → Vec → Vec)
    (intDtype : Bool) (dim width : Nat) (fresh : Smp) (S : SmpT τ) (phases : List (PhaseT τ Inp))
    (h : Coherent k (logd S.tgt) (gradf S.tgt) S.s.st) :
    let R := runSessionT k.tuner k.window dim width (fun t => stepFn k (logd t) (gradf t) intDtype)
      (fun _ t x => (logd t x, gradf t x)) fresh S phases
    Coherent k (logd R.tgt) (gradf R.tgt) R.s.st :=
  sessionT_invariant k.tuner k.window dim width (fun t => stepFn k (logd t) (gradf t) intDtype)
    (fun _ t x => (logd t x, gradf t x)) (fun t => Coherent k (logd t) (gradf t))
    (fun t st inp hst => stepFn_coherent k (logd t) (gradf t) intDtype st inp hst)
    (fun t st v hst => coherent_rescale k (logd t) (gradf t) st v hst)
    (fun _ _ _ _ => ⟨rfl, fun _ => rfl⟩) fresh S phases h

/-- A history without re-initialisation is a `runSession` history (the first-pass theorems are the special case). -/
theorem runSessionT_base {τ ι : Type} (tn : Tuner) (wk : Window) (dim width : Nat)
    (step : τ → St → ι → St × List Bool) (evalInit : Nat → τ → Vec → XVal × Vec) (fresh : Smp) (S : SmpT τ)
    (phases : List (Phase ι)) :
    (runSessionT tn wk dim width step evalInit fresh S (phases.map PhaseT.base)).s
        = runSession tn wk dim (step S.tgt) fresh S.s phases ∧
    (runSessionT tn wk dim width step evalInit fresh S (phases.map PhaseT.base)).tgt = S.tgt := by
  unfold runSessionT runSession
  induction phases generalizing S with
  | nil => exact ⟨rfl, rfl⟩
  | cons p rest ih =>
    simp only [List.map_cons, List.foldl_cons]
    exact ih { S with s := runPhase tn wk dim (step S.tgt) fresh S.s p }

/-- `reinitialize()` discards the histories and restarts the tuning variable: `_acc = [ones]`, `_samples = []`,
    `_scale_temp`/`lambd` = `initial_scale`, point = `initial_point`, scale = `initial_scale`. -/
theorem smpReinit_spec {τ : Type} (width : Nat) (evalInit : Nat → τ → Vec → XVal × Vec) (S : SmpT τ) (t : τ)
    (x0 scale0 : Vec) (lam0 : List XVal) :
    let R := smpReinit width evalInit S t x0 scale0 lam0
    R.tgt = t ∧ R.s.st.x = x0 ∧ R.s.st.scale = scale0 ∧ R.s.logLam = lam0 ∧
      R.s.acc = [List.replicate width true] ∧ R.s.samples = [] ∧ R.s.st.logd = (evalInit S.nInit t x0).1 := by
  simp [smpReinit, smpInit]

/-- **Legacy `step(x)` is one transition from `x` with a freshly evaluated cache**: `self.x0 = x;
    sample(2).samples[:, -1]` returns the point of `step` applied to (`x`, target values AT `x`) — never a
    value cached for an earlier point. -/
theorem legStep_eq {ι : Type} (width : Nat) (step : St → ι → St × List Bool) (st0 : St) (inp : ι) :
    legStep width step st0 inp = some (step st0 inp).1.x := by
  unfold legStep
  rw [(legSample_eq width step st0 2 0 [inp] (by omega) (by simp)).1]
  simp [chainOf]

/-- **Legacy `step_tune(x)`** = `step(x)` (the legacy `tune()` of the four samplers is `pass`); with extra
    arguments it is refused (`tune()` takes none). -/
theorem legStepTune_spec {ι : Type} (width : Nat) (step : St → ι → St × List Bool) (st0 : St) (inp : ι) (n : Nat) :
    legStepTune width step st0 inp 0 = some (step st0 inp).1.x ∧ legStepTune width step st0 inp (n + 1) = none := by
  simp [legStepTune, legStep_eq]

example : legStepTune 1 (stepLeaf .legMH false) ⟨[0], fin 0, [], [1/2]⟩ ⟨[1], [fin (-1)], [fin (-1/2)], [], 0⟩ 0
    = some [1/2] := by decide +kernel

/-! ### non-finite points inside sessions (pCN with `scale > 1` within a history) -/

/-- On real points with a defined contraction, and for every non-pCN kernel, the extended transition the
    session ops fold over is `stepLeaf`. -/
theorem stepLeafX_eq_stepLeaf (k : Kernel) (b : Bool) (st : St) (inp : Inp)
    (h : (k ≠ .expPCN ∧ k ≠ .legPCN) ∨ (st.x ≠ nanPoint ∧ pcnContractionDefined (scalar st) = true)) :
    stepLeafX k b st inp = stepLeaf k b st inp := by
  rcases h with ⟨h1, h2⟩ | ⟨h1, h2⟩
  · cases k <;> simp_all [stepLeafX]
  · cases k <;> simp [stepLeafX, h1, h2]

/-- **Inside any history, pCN with `scale > 1` (or at a NaN point) is the identity on an arithmetic
    likelihood** (NaN at the NaN proposal): point, cache, gradient and scale are unchanged and the accept
    row is `[0]`, for every cached value and every uniform draw. -/
theorem stepLeafX_nan_identity (k : Kernel) (hk : k = .expPCN ∨ k = .legPCN) (b : Bool) (st : St) (inp : Inp)
    (hs : st.x = nanPoint ∨ pcnContractionDefined (scalar st) = false) (ht : inp.ts.headD nan = nan) :
    stepLeafX k b st inp = (st, [false]) := by
  rcases hk with rfl | rfl <;> simp only [stepLeafX, hs, if_true] <;> rw [ht, pcnNanStep_identity] <;> simp

/-- The NaN point is absorbing for pCN: whatever is accepted from it is again the NaN point. -/
theorem stepLeafX_nanPoint_absorbing (k : Kernel) (hk : k = .expPCN ∨ k = .legPCN) (b : Bool) (st : St) (inp : Inp)
    (hx : st.x = nanPoint) : (stepLeafX k b st inp).1.x = nanPoint := by
  rcases hk with rfl | rfl <;> simp only [stepLeafX, hx, true_or, if_true] <;> split <;> rfl

example : stepLeafX .expPCN false ⟨[1, 2], fin (-1), [], [3/2]⟩ ⟨[1, 1], [fin (-1/2)], [nan], [], 0⟩
    = (⟨[1, 2], fin (-1), [], [3/2]⟩, [false]) := by decide +kernel

end CuqiVerif.C02
