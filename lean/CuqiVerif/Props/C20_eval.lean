import CuqiVerif.Proofs.C20_eval

/-!
# C20 — the glue around the stencils and the evaluation code (`Model/C20_eval.lean`)

The theorems are about the executable definitions the driver runs for the ops `ctor1`, `ctor2`,
`ctorP`, `mrfnodes`, `gmrfrank`, `mrf` (tied to the code by `harness/props/c20_eval.py`):

* the constructors, on every well-formed argument tuple, return exactly the stencil matrices of
  `Model/C20.lean` (about which `Props/C20.lean` / `Props/C20_rank.lean` speak), divided by `dx` /
  `dx²`, resp. their Kronecker stacking, resp. `DᵀD`; and they refuse exactly the documented
  malformed arguments;
* the exact rational `Dmat / s` of the model is the `scaledMatrix` of `Props/C20_rank.lean`
  (so kernel / rank theorems apply to what the driver prints);
* the `LogForm`s the driver prints for `LMRF/CMRF/GMRF.logpdf` evaluate over `ℝ` to the
  transcriptions `lmrfLogpdf`, `cmrfLogpdf`, `gmrfLogpdf` of `Props/C20_rank.lean` — those are
  therefore no longer Props-only definitions: the harness diffs them against the code;
* gradients: `CMRF._gradient` / `GMRF._gradient` of the model are the derivatives of these
  log-densities along every direction, and the Gaussian one vanishes exactly on `mean + ker D`.
-/
open Finset

namespace CuqiVerif.C20

/-! ## 1. constructor glue -/

/-- **`num_nodes` parsing:** accepted exactly for an int `N` (1-D), a 1-tuple `(N,)` (1-D) and a
    square 2-tuple `(N, N)` (2-D). -/
theorem resolveNodes_ok_iff (a : NodesArg) (pd : ℕ) (N : ℤ) :
    resolveNodes a = .ok (pd, N) ↔
      (a = .int N ∧ pd = 1) ∨ (a = .tuple [N] ∧ pd = 1) ∨ (a = .tuple [N, N] ∧ pd = 2) := by
  cases a with
  | int n => simp [resolveNodes, Except.ok.injEq, Prod.mk.injEq]; tauto
  | other => simp [resolveNodes]
  | tuple ns =>
    match ns with
    | [] => simp [resolveNodes]
    | [n] => simp [resolveNodes]; tauto
    | [a, b] =>
      by_cases h : a = b
      · subst h; simp [resolveNodes]; tauto
      · simp [resolveNodes, h]; intro h1 h2; exact absurd (h1.trans h2.symm) h
    | _ :: _ :: _ :: _ => simp [resolveNodes]

example : resolveNodes (.tuple [4, 4]) = .ok (2, 4) := (resolveNodes_ok_iff _ _ _).2 (Or.inr (Or.inr ⟨rfl, rfl⟩))

/-- **Non-square grids and malformed `num_nodes` are refused** (`NotImplementedError` resp.
    `ValueError`), whatever the other arguments are. -/
theorem firstCtor_refuses_malformed (bc : String) (dx : Option ℚ) (a b : ℤ) (hab : a ≠ b) (ns : List ℤ)
    (hns : ns.length = 0 ∨ 3 ≤ ns.length) :
    firstCtor (.tuple [a, b]) bc dx = .error .notImplemented
      ∧ secondCtor (.tuple [a, b]) bc dx = .error .notImplemented
      ∧ firstCtor (.tuple ns) bc dx = .error .value ∧ firstCtor .other bc dx = .error .value
      ∧ secondCtor (.tuple ns) bc dx = .error .value ∧ secondCtor .other bc dx = .error .value := by
  have h1 : resolveNodes (.tuple [a, b]) = .error .notImplemented := by simp [resolveNodes, hab]
  have h2 : resolveNodes (.tuple ns) = .error .value := by
    match ns, hns with
    | [], _ => rfl
    | [_], h => simp at h
    | [_, _], h => simp at h
    | _ :: _ :: _ :: _, _ => rfl
  have h3 : resolveNodes .other = .error .value := rfl
  refine ⟨?_, ?_, ?_, ?_, ?_, ?_⟩ <;> simp only [firstCtor, secondCtor, h1, h2, h3] <;> rfl

example : firstCtor (.tuple [3, 4]) "zero" none = .error .notImplemented :=
  (firstCtor_refuses_malformed "zero" none 3 4 (by decide) [] (Or.inl rfl)).1

/-- **1-D first-order constructor = stencil / dx:** for every size `n ≥ 1`, every boundary
    condition and every spacing `dx ≠ 0`, `FirstOrderFiniteDifference(n, bc, dx)` holds the matrix
    `firstOrder bc n` of `Model/C20.lean` divided by `dx`; without `dx` it is divided by 1. -/
theorem firstCtor_int (n : ℕ) (hn : 1 ≤ n) (bc : BC) (dx : ℚ) (hdx : dx ≠ 0) :
    firstCtor (.int n) bc.toStr (some dx) = .ok ((firstOrder bc n).scale dx)
      ∧ firstCtor (.int n) bc.toStr none = .ok ((firstOrder bc n).scale 1)
      ∧ firstCtor (.tuple [(n : ℤ)]) bc.toStr (some dx) = .ok ((firstOrder bc n).scale dx) := by
  have hN : ¬ ((n : ℤ) < 0) := by omega
  have h0 : ¬ ((n : ℤ) = 0) := by omega
  have hst : firstStencil bc.toStr n = .ok (firstOrder bc n) := by
    unfold firstStencil
    rw [if_neg hN, ofString_toStr]
    cases bc <;> simp <;> omega
  refine ⟨?_, ?_, ?_⟩ <;>
    simp [firstCtor, resolveNodes, resolveDx, hst, assemble, hdx, bind, Except.bind]

example : firstCtor (.int 5) "periodic" (some (1/2)) = .ok ((firstOrder .periodic 5).scale (1/2)) :=
  (firstCtor_int 5 (by decide) .periodic (1/2) (by norm_num)).1

/-- **2-D first-order constructor = Kronecker stacking:** `FirstOrderFiniteDifference((n, n), bc)`
    holds `diffOp2D 1 bc n = vstack(kron(I, D), kron(D, I))`; a `dx` is refused. -/
theorem firstCtor_square (n : ℕ) (hn : 1 ≤ n) (bc : BC) (dx : ℚ) :
    firstCtor (.tuple [(n : ℤ), (n : ℤ)]) bc.toStr none = .ok ((diffOp2D 1 bc n).scale 1)
      ∧ firstCtor (.tuple [(n : ℤ), (n : ℤ)]) bc.toStr (some dx) = .error .notImplemented := by
  have hN : ¬ ((n : ℤ) < 0) := by omega
  have h0 : ¬ ((n : ℤ) = 0) := by omega
  have hst : firstStencil bc.toStr n = .ok (firstOrder bc n) := by
    unfold firstStencil
    rw [if_neg hN, ofString_toStr]
    cases bc <;> simp <;> omega
  refine ⟨?_, ?_⟩ <;>
    simp [firstCtor, resolveNodes, resolveDx, hst, assemble, bind, Except.bind, diffOp2D, diffOp]

example : firstCtor (.tuple [3, 3]) "neumann" none = .ok ((diffOp2D 1 .neumann 3).scale 1) :=
  (firstCtor_square 3 (by decide) .neumann 0).1

/-- **Second-order constructor:** for the three boundary conditions it accepts, every `n ≥ 2` and
    `dx ≠ 0`: the matrix is `secondOrder bc n / dx²` (1-D) resp. the Kronecker stacking (2-D);
    `backward` / `none` are refused with `ValueError`. -/
theorem secondCtor_spec (n : ℕ) (hn : 2 ≤ n) (bc : BC) (dx : ℚ) (hdx : dx ≠ 0) :
    (secondOrderAccepts bc = true →
        secondCtor (.int n) bc.toStr (some dx) = .ok ((secondOrder bc n).scale (dx * dx))
          ∧ secondCtor (.int n) bc.toStr none = .ok ((secondOrder bc n).scale 1)
          ∧ secondCtor (.tuple [(n : ℤ), (n : ℤ)]) bc.toStr none = .ok ((diffOp2D 2 bc n).scale 1))
      ∧ (secondOrderAccepts bc = false →
        secondCtor (.int n) bc.toStr (some dx) = .error .value
          ∧ secondCtor (.tuple [(n : ℤ), (n : ℤ)]) bc.toStr none = .error .value) := by
  have hN : ¬ ((n : ℤ) < 0) := by omega
  have h2 : ¬ ((n : ℤ) < 2) := by omega
  have hdd : dx * dx ≠ 0 := mul_ne_zero hdx hdx
  constructor
  · intro hacc
    have hst : secondStencil bc.toStr n = .ok (secondOrder bc n) := by
      unfold secondStencil
      rw [if_neg hN, ofString_toStr]
      cases bc <;> simp_all [secondOrderAccepts]
    refine ⟨?_, ?_, ?_⟩ <;>
      simp [secondCtor, resolveNodes, resolveDx, hst, assemble, hdd, bind, Except.bind, diffOp2D, diffOp]
  · intro hacc
    have hst : secondStencil bc.toStr n = .error .value := by
      unfold secondStencil
      rw [if_neg hN, ofString_toStr]
      cases bc <;> simp_all [secondOrderAccepts]
    refine ⟨?_, ?_⟩ <;>
      simp [secondCtor, resolveNodes, resolveDx, hst, bind, Except.bind]

example : secondCtor (.int 4) "neumann" (some 2) = .ok ((secondOrder .neumann 4).scale (2 * 2)) :=
  ((secondCtor_spec 4 (by decide) .neumann 2 (by norm_num)).1 rfl).1

/-- **Degenerate sizes and unknown boundary conditions are refused, never defaulted:** `N < 0`
    (numpy), an unknown `bc_type` string, `N = 0` with a patched / Neumann stencil, `N < 2` for the
    patched / Neumann second-order stencil; `zero` (and `none`) accept `N = 0`. -/
theorem stencil_refusals (bc : String) (N : ℤ) :
    (N < 0 → firstStencil bc N = .error .value ∧ secondStencil bc N = .error .value)
      ∧ (BC.ofString bc = Option.none → firstStencil bc N = .error .value ∧ secondStencil bc N = .error .value)
      ∧ (firstStencil "periodic" 0 = .error .index ∧ firstStencil "neumann" 0 = .error .value
          ∧ firstStencil "backward" 0 = .error .index)
      ∧ (N < 2 → secondStencil "periodic" N = .error .index ∨ secondStencil "periodic" N = .error .value)
      ∧ (N < 2 → secondStencil "neumann" N = .error .value)
      ∧ (∃ M, firstStencil "zero" 0 = .ok M ∧ M.rows = 1 ∧ M.cols = 0) := by
  refine ⟨?_, ?_, ?_, ?_, ?_, ?_⟩
  · intro h; simp [firstStencil, secondStencil, h]
  · intro h
    by_cases hN : N < 0
    · simp [firstStencil, secondStencil, hN]
    · simp [firstStencil, secondStencil, hN, h]
  · exact ⟨rfl, rfl, rfl⟩
  · intro h
    by_cases hN : N < 0
    · right; simp [secondStencil, hN]
    · left; simp [secondStencil, hN, h, BC.ofString]
  · intro h
    by_cases hN : N < 0
    · simp [secondStencil, hN]
    · simp [secondStencil, hN, h, BC.ofString]
  · exact ⟨_, rfl, rfl, rfl⟩

example : secondStencil "neumann" 1 = .error .value := (stencil_refusals "neumann" 1).2.2.2.2.1 (by decide)

/-- **`dx = 0` is refused** (`ZeroDivisionError`), for every size and boundary condition the
    stencil accepts. -/
theorem firstCtor_dx_zero (n : ℕ) (hn : 1 ≤ n) (bc : BC) :
    firstCtor (.int n) bc.toStr (some 0) = .error .zeroDivision := by
  have hN : ¬ ((n : ℤ) < 0) := by omega
  have hst : firstStencil bc.toStr n = .ok (firstOrder bc n) := by
    unfold firstStencil
    rw [if_neg hN, ofString_toStr]
    cases bc <;> simp <;> omega
  simp [firstCtor, resolveNodes, resolveDx, hst, assemble, bind, Except.bind]

example : firstCtor (.int 3) "zero" (some 0) = .error .zeroDivision := firstCtor_dx_zero 3 (by decide) .zero

/-- **The precision constructor returns `DᵀD` of exactly the operator of `Model/C20.lean`:** for
    orders 0, 1, 2, every `n ≥ 2` and every boundary condition the chosen operator accepts,
    `PrecisionFiniteDifference(n, bc, order)` holds `gram (diffOp order bc n)` (1-D) and
    `gram (diffOp2D order bc n)` (2-D) — the matrices whose kernel and rank `Props/C20_rank.lean`
    determines; order 0 ignores `bc` (even an unknown one); any other order is refused. -/
theorem precCtor_spec (n : ℕ) (hn : 2 ≤ n) (bc : BC) (s : String) (order : ℤ) :
    precCtor (.int n) s 0 = .ok (gram (diffOp 0 bc n))
      ∧ precCtor (.tuple [(n : ℤ), (n : ℤ)]) s 0 = .ok (gram (diffOp2D 0 bc n))
      ∧ precCtor (.int n) bc.toStr 1 = .ok (gram (diffOp 1 bc n))
      ∧ precCtor (.tuple [(n : ℤ), (n : ℤ)]) bc.toStr 1 = .ok (gram (diffOp2D 1 bc n))
      ∧ (secondOrderAccepts bc = true →
          precCtor (.int n) bc.toStr 2 = .ok (gram (diffOp 2 bc n))
            ∧ precCtor (.tuple [(n : ℤ), (n : ℤ)]) bc.toStr 2 = .ok (gram (diffOp2D 2 bc n)))
      ∧ (order ≠ 0 → order ≠ 1 → order ≠ 2 → precCtor (.int n) s order = .error .notImplemented) := by
  have hN : ¬ ((n : ℤ) < 0) := by omega
  have h2 : ¬ ((n : ℤ) < 2) := by omega
  have hnone : firstStencil "none" n = .ok (firstOrder .none n) := by
    simp [firstStencil, hN, BC.ofString]
  have hst : firstStencil bc.toStr n = .ok (firstOrder bc n) := by
    unfold firstStencil
    rw [if_neg hN, ofString_toStr]
    cases bc <;> simp <;> omega
  refine ⟨?_, ?_, ?_, ?_, ?_, ?_⟩
  · simp [precCtor, precDiffOp, intOp, resolveNodes, hnone, bind, Except.bind, diffOp]
  · simp [precCtor, precDiffOp, intOp, resolveNodes, hnone, bind, Except.bind, diffOp, diffOp2D]
  · simp [precCtor, precDiffOp, intOp, resolveNodes, hst, bind, Except.bind, diffOp]
  · simp [precCtor, precDiffOp, intOp, resolveNodes, hst, bind, Except.bind, diffOp, diffOp2D]
  · intro hacc
    have hst2 : secondStencil bc.toStr n = .ok (secondOrder bc n) := by
      unfold secondStencil
      rw [if_neg hN, ofString_toStr]
      cases bc <;> simp_all [secondOrderAccepts]
    constructor
    · simp [precCtor, precDiffOp, intOp, resolveNodes, hst2, bind, Except.bind, diffOp]
    · simp [precCtor, precDiffOp, intOp, resolveNodes, hst2, bind, Except.bind, diffOp, diffOp2D]
  · intro h0 h1 h2'
    simp [precCtor, precDiffOp, h0, h1, h2', bind, Except.bind]

example : precCtor (.int 6) "neumann" 2 = .ok (gram (diffOp 2 .neumann 6)) :=
  ((precCtor_spec 6 (by decide) .neumann "neumann" 2).2.2.2.2.1 rfl).1

/-- **Geometry → grid of the priors:** a 1-D function shape `(d,)` with `d ≥ 2` gives the 1-D
    operator on `d` nodes, a square image `(n, n)` with `n ≥ 2` the 2-D operator on `(n, n)`; a
    missing or empty shape, parameter dimension 1, and three or more axes are refused. -/
theorem mrfNodes_spec (d n : ℕ) (hd : 2 ≤ d) (hn : 2 ≤ n) (a b c : ℕ) (rest : List ℕ) :
    mrfNodes (some [d]) = .ok (.int d)
      ∧ (∃ m : ℕ, mrfNodes (some [n, n]) = .ok (.tuple [(m : ℤ), (m : ℤ)]) ∧ m = n)
      ∧ mrfNodes Option.none = .error .value ∧ mrfNodes (some []) = .error .value
      ∧ mrfNodes (some [1]) = .error .value ∧ mrfNodes (some [1, 1]) = .error .value
      ∧ mrfNodes (some (a :: b :: c :: rest)) = .error .value := by
  have hd1 : d ≠ 1 := by omega
  have hnn : n * n ≠ 1 := by nlinarith
  refine ⟨?_, ⟨n, ?_, rfl⟩, rfl, rfl, rfl, rfl, ?_⟩
  · simp [mrfNodes, hd1]
  · have hs : Nat.sqrt (n * n) = n := Nat.sqrt_eq n
    simp [mrfNodes, hnn, hs]
  · simp only [mrfNodes]
    split_ifs <;> simp_all

example : mrfNodes (some [5, 5]) = .ok (.tuple [5, 5]) := by
  obtain ⟨m, h, hm⟩ := (mrfNodes_spec 2 5 (by decide) (by decide) 0 0 0 []).2.1
  subst hm; exact h

/-- **What GMRF declares per `bc_type` string** is `declaredRank` of `Model/C20.lean` for the three
    accepted boundary conditions, and a refusal for every other string (including `backward` and
    `none`, which the operators themselves accept). -/
theorem gmrfRank_spec (dim : ℕ) (s : String) :
    gmrfRank "zero" dim = .ok (declaredRank .zero dim)
      ∧ gmrfRank "periodic" dim = .ok (declaredRank .periodic dim)
      ∧ gmrfRank "neumann" dim = .ok (declaredRank .neumann dim)
      ∧ (s ≠ "zero" → s ≠ "periodic" → s ≠ "neumann" → gmrfRank s dim = .error .value) := by
  refine ⟨rfl, ?_, ?_, ?_⟩
  · simp [gmrfRank, declaredRank]
  · simp [gmrfRank, declaredRank]
  · intro h1 h2 h3; simp [gmrfRank, h1, h2, h3]

example : gmrfRank "backward" 7 = .error .value :=
  (gmrfRank_spec 7 "backward").2.2.2 (by decide) (by decide) (by decide)

/-! ## 2. the exact rational `Dmat / s` -/

section scale
variable {K : Type*} [Field K] [CharZero K]

/-- **The matrix the driver prints for a spacing is `scaledMatrix`:** casting the model's exact
    rational `M.scale s` into any field of characteristic 0 gives `scaledMatrix M s` of
    `Props/C20_rank.lean`; hence `ker_scaledMatrix`, `rank_scaledMatrix`, `rank_scaled_1D`,
    `scaledMatrix_gram`, `firstOrderScaled_mulVec` … speak about the executable definition. -/
theorem scale_toMatrix (M : FMat) (s : ℚ) :
    (fun (i : Fin M.rows) (j : Fin M.cols) => (((M.scale s).e i j : ℚ) : K)) = scaledMatrix M (s : K) := by
  funext i j
  simp [FMat.scale, scaledMatrix]

/-- **Rank of what the 1-D constructors return, every size and spacing:** `n − nullity1D`. -/
theorem rank_scale_1D (bc : BC) (n : ℕ) (dx : ℚ) (hdx : dx ≠ 0) :
    ((bc = .periodic → 2 ≤ n) →
        (Matrix.of fun (i : Fin (firstOrder bc n).rows) (j : Fin (firstOrder bc n).cols) =>
          (((firstOrder bc n).scale dx).e i j : ℚ)).rank = n - nullity1D 1 bc)
      ∧ (secondOrderAccepts bc = true → (bc = .periodic → 3 ≤ n) →
        (Matrix.of fun (i : Fin (secondOrder bc n).rows) (j : Fin (secondOrder bc n).cols) =>
          (((secondOrder bc n).scale (dx * dx)).e i j : ℚ)).rank = n - nullity1D 2 bc) := by
  have h1 := scale_toMatrix (K := ℚ) (firstOrder bc n) dx
  have h2 := scale_toMatrix (K := ℚ) (secondOrder bc n) (dx * dx)
  simp only [Rat.cast_id] at h1 h2
  obtain ⟨r1, r2⟩ := rank_scaled_1D (K := ℚ) bc n hdx
  constructor
  · intro h
    have := r1 h
    rw [firstOrderScaled] at this
    rw [← this]; exact congrArg Matrix.rank h1
  · intro hacc h
    have := r2 hacc h
    rw [secondOrderScaled, pow_two] at this
    rw [← this]; exact congrArg Matrix.rank h2

end scale

/-! ## 3. the log-densities the driver prints -/

section eval

/-- **`LMRF.logpdf` of the model:** the `LogForm` the driver prints evaluates over `ℝ` to
    `len(Dx)·(−(log 2 + log scale)) − ‖Dx‖₁/scale` with `Dx = D·d`, `d = x − location`. -/
theorem lmrfForm_eval (D : FMat) (scale : ℚ) (d : ℕ → ℚ) :
    (lmrfForm D scale d).eval
      = (D.rows : ℝ) * (-(Real.log 2 + Real.log (scale : ℝ)))
        - (∑ k ∈ range D.rows, |apply D (fun j => (d j : ℝ)) k|) / (scale : ℝ) := by
  unfold LogForm.eval lmrfForm
  simp only [List.map, List.sum_cons, List.sum_nil]
  rw [sumRange_eq_sum]
  push_cast
  simp only [absQ_eq_abs, Rat.cast_abs, applyQ_cast]
  ring

example : (lmrfForm (firstOrder .none 2) 1 (fun _ => 0)).eval = 2 * (-(Real.log 2 + Real.log ((1 : ℚ) : ℝ)))
    - (∑ k ∈ range 2, |apply (firstOrder .none 2) (fun _ => (((0 : ℚ)) : ℝ)) k|) / ((1 : ℚ) : ℝ) := by
  have := lmrfForm_eval (firstOrder .none 2) 1 (fun _ => 0)
  simpa [firstOrder, eye] using this

/-- **`CMRF.logpdf` of the model:** the printed `LogForm` evaluates to
    `−len(Dx)·log π + Σ_k (log scale − log(Dx_k² + scale²))`. -/
theorem cmrfForm_eval (D : FMat) (scale : ℚ) (d : ℕ → ℚ) :
    (cmrfForm D scale d).eval
      = -(D.rows : ℝ) * Real.log Real.pi
        + ∑ k ∈ range D.rows, (Real.log (scale : ℝ)
            - Real.log ((apply D (fun j => (d j : ℝ)) k) ^ 2 + (scale : ℝ) ^ 2)) := by
  unfold LogForm.eval cmrfForm
  simp only [List.map_cons, List.sum_cons, List.map_map]
  rw [list_sum_map_range, Finset.sum_sub_distrib, Finset.sum_const, Finset.card_range]
  simp only [Function.comp]
  push_cast
  simp only [applyQ_cast, nsmul_eq_mul]
  have : ∀ k, apply D (fun j => (d j : ℝ)) k * apply D (fun j => (d j : ℝ)) k + (scale : ℝ) * scale
      = (apply D (fun j => (d j : ℝ)) k) ^ 2 + (scale : ℝ) ^ 2 := fun k => by ring
  simp only [this, neg_mul, one_mul, Finset.sum_neg_distrib]
  ring

/-- **`GMRF.logpdf` of the model (without the `0.5·_logdet` term):** the printed `LogForm`
    evaluates to `0.5·rank·(log prec − log 2π) − 0.5·prec·dᵀ(DᵀD)d`. -/
theorem gmrfForm_eval (D : FMat) (rank : ℕ) (prec : ℚ) (d : ℕ → ℚ) :
    (gmrfForm D rank prec d).eval
      = 0.5 * ((rank : ℝ) * (Real.log (prec : ℝ) - Real.log (2 * Real.pi)))
        - 0.5 * ((prec : ℝ) * ∑ i ∈ range D.cols, (d i : ℝ) * apply (gram D) (fun j => (d j : ℝ)) i) := by
  unfold LogForm.eval gmrfForm gmrfQuad
  simp only [List.map, List.sum_cons, List.sum_nil]
  rw [sumRange_eq_sum, Real.log_mul (by norm_num) Real.pi_ne_zero]
  push_cast
  simp only [applyQ_cast]
  ring

/-- the cast of the shifted rational variable, as a `Fin`-indexed real vector extended by zero -/
lemma ext0_cast_sub {n : ℕ} (x loc : Fin n → ℚ) :
    ext0 ((fun j => (x j : ℝ)) - fun j => (loc j : ℝ)) = fun j => ((ext0 x j - ext0 loc j : ℚ) : ℝ) := by
  funext j
  by_cases h : j < n <;> simp [ext0, h]

/-- **The Props-side transcriptions are what the driver computes:** for rational data,
    `lmrfLogpdf`, `cmrfLogpdf`, `gmrfLogpdf` of `Props/C20_rank.lean` (about which
    `mrf_uses_operator`, `mrf_logpdf_add_ker`, `gmrf_logpdf_sub_mean` speak) equal the evaluation
    of the `LogForm`s of the executable model at `d = x − location` (for the Gaussian field plus
    `0.5·logdet`) — the values the harness diffs against `LMRF/CMRF/GMRF.logpdf` of the code. -/
theorem mrf_logpdf_eq_form (D : FMat) (par : ℚ) (loc x : Fin D.cols → ℚ) (rank : ℕ) (logdet : ℝ) :
    lmrfLogpdf D (par : ℝ) (fun j => (loc j : ℝ)) (fun j => (x j : ℝ))
        = (lmrfForm D par (fun j => ext0 x j - ext0 loc j)).eval
      ∧ cmrfLogpdf D (par : ℝ) (fun j => (loc j : ℝ)) (fun j => (x j : ℝ))
        = (cmrfForm D par (fun j => ext0 x j - ext0 loc j)).eval
      ∧ gmrfLogpdf D rank logdet (par : ℝ) (fun j => (loc j : ℝ)) (fun j => (x j : ℝ))
        = (gmrfForm D rank par (fun j => ext0 x j - ext0 loc j)).eval + 0.5 * logdet := by
  have hmv : ∀ k : Fin D.rows, (toMatrix (K := ℝ) D).mulVec ((fun j => (x j : ℝ)) - fun j => (loc j : ℝ)) k
      = apply D (fun j => ((ext0 x j - ext0 loc j : ℚ) : ℝ)) k := fun k => by
    rw [toMatrix_mulVec, ext0_cast_sub]
  refine ⟨?_, ?_, ?_⟩
  · rw [lmrfForm_eval, lmrfLogpdf, Finset.sum_range]
    simp only [hmv]
  · rw [cmrfForm_eval, cmrfLogpdf, Finset.sum_range]
    simp only [hmv]
  · rw [gmrfForm_eval, gmrfLogpdf, Finset.sum_range]
    have hP : ∀ i : Fin D.cols,
        (precMatrix (K := ℝ) D).mulVec ((fun j => (x j : ℝ)) - fun j => (loc j : ℝ)) i
          = apply (gram D) (fun j => ((ext0 x j - ext0 loc j : ℚ) : ℝ)) i := fun i => by
      rw [(toMatrix_gram D).1]
      exact (toMatrix_mulVec (gram D) _ i).trans
        (congrArg (fun f => apply (gram D) f (i : ℕ)) (ext0_cast_sub x loc))
    have hd : ∀ i : Fin D.cols, ((fun j => (x j : ℝ)) - fun j => (loc j : ℝ)) i
        = ((ext0 x (i : ℕ) - ext0 loc (i : ℕ) : ℚ) : ℝ) := fun i => by
      simp [ext0_coe]
    simp only [dotProduct, hP, hd]
    ring

example (x : Fin (firstOrder .neumann 4).cols → ℚ) :
    lmrfLogpdf (firstOrder .neumann 4) ((1/2 : ℚ) : ℝ) (fun _ => ((0 : ℚ) : ℝ)) (fun j => (x j : ℝ))
      = (lmrfForm (firstOrder .neumann 4) (1/2) (fun j => ext0 x j - ext0 (fun _ : Fin (firstOrder .neumann 4).cols => (0 : ℚ)) j)).eval :=
  (mrf_logpdf_eq_form _ _ (fun _ => 0) x 0 0).1

/-- **Scalar location = constant location (numpy broadcasting of `x − location`):** a location of
    length 1 shifts every node by that number; equal lengths shift node by node; and a point of
    length 1 is repeated likewise.  Any other pair of lengths is refused (`bshiftLen = none`). -/
theorem bshift_spec (n : ℕ) (hn : 2 ≤ n) (x l : ℕ → ℚ) (j : ℕ) (m : ℕ) :
    bshift n x n l j = x j - l j
      ∧ bshift n x 1 l j = x j - l 0
      ∧ bshift 1 x n l j = x 0 - l j
      ∧ bshiftLen n n = some n ∧ bshiftLen n 1 = some n ∧ bshiftLen 1 n = some n
      ∧ (m ≠ n → m ≠ 1 → bshiftLen n m = Option.none) := by
  have h1 : n ≠ 1 := by omega
  have h1' : (1 : ℕ) ≠ n := fun h => h1 h.symm
  refine ⟨?_, ?_, ?_, ?_, ?_, ?_, ?_⟩
  · simp [bshift, h1]
  · simp [bshift, h1]
  · simp [bshift, h1]
  · simp [bshiftLen]
  · simp [bshiftLen, h1]
  · simp [bshiftLen, h1', h1]
  · intro hm hm1
    have : n ≠ m := fun h => hm h.symm
    simp [bshiftLen, this, hm1, h1]

example : bshift 3 (fun j => (j : ℚ)) 1 (fun _ => 2) 2 = 0 := by
  rw [(bshift_spec 3 (by decide) _ _ 2 0).2.1]; norm_num

/-- **The Gaussian gradient vanishes exactly on `mean + ker D`:** for `prec ≠ 0`,
    `GMRF._gradient` of the model is zero at `x` iff `D (x − mean) = 0`. -/
theorem gmrfGrad_zero_iff (D : FMat) (prec : ℚ) (hp : prec ≠ 0) (d : ℕ → ℚ) :
    (∀ j, j < D.cols → gmrfGrad D prec d j = 0) ↔ (∀ k, k < D.rows → applyQ D d k = 0) := by
  simp only [gmrfGrad, applyQ_eq_apply, neg_eq_zero, mul_eq_zero, hp, false_or]
  exact gram_null_iff D d

example : (∀ j, j < (firstOrder .neumann 3).cols → gmrfGrad (firstOrder .neumann 3) 2 (fun _ => 5) j = 0) :=
  (gmrfGrad_zero_iff _ 2 (by norm_num) _).2 (fun k hk => by
    have hk2 : k < 2 := hk
    rw [applyQ_eq_apply, firstOrder_neumann_apply, if_pos (by omega), if_pos (by omega), sub_self])

/-- **`CMRF._gradient` sees `x` only through `D (x − location)`, and is `Dᵀw`:** with
    `w_k = −2 (Dd)_k / ((Dd)_k² + scale²)`; in particular it vanishes wherever `D d = 0`. -/
theorem cmrfGrad_spec (D : FMat) (scale : ℚ) (d d' : ℕ → ℚ) (j : ℕ) :
    cmrfGrad D scale d j
        = ∑ k ∈ range D.rows, (-2 * apply D d k / ((apply D d k) ^ 2 + scale ^ 2)) * (D.e k j : ℚ)
      ∧ ((∀ k, k < D.rows → applyQ D d k = applyQ D d' k) → cmrfGrad D scale d j = cmrfGrad D scale d' j)
      ∧ ((∀ k, k < D.rows → applyQ D d k = 0) → cmrfGrad D scale d j = 0) := by
  refine ⟨?_, ?_, ?_⟩
  · unfold cmrfGrad
    rw [sumRange_eq_sum]
    refine Finset.sum_congr rfl fun k _ => ?_
    rw [applyQ_eq_apply, pow_two, pow_two]
  · intro h
    unfold cmrfGrad
    rw [sumRange_eq_sum, sumRange_eq_sum]
    exact Finset.sum_congr rfl fun k hk => by rw [h k (mem_range.1 hk)]
  · intro h
    unfold cmrfGrad
    rw [sumRange_eq_sum]
    exact Finset.sum_eq_zero fun k hk => by rw [h k (mem_range.1 hk)]; simp

example : cmrfGrad (firstOrder .neumann 3) (1/2) (fun _ => 7) 1 = 0 :=
  (cmrfGrad_spec _ _ _ (fun _ => 0) 1).2.2 (fun k hk => by
    have hk2 : k < 2 := hk
    rw [applyQ_eq_apply, firstOrder_neumann_apply, if_pos (by omega), if_pos (by omega), sub_self])

end eval

end CuqiVerif.C20
