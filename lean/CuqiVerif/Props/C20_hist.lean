import CuqiVerif.Model.C20Hist
import Mathlib.Tactic.Ring
import Mathlib.Tactic.Linarith
import Mathlib.Data.Rat.Defs

/-!
# C20 — a GMRF object under re-assignment of its parameters (`Model/C20Hist.lean`)

`GMRF` computes its structure (difference operator, `P = DᵀD`, rank, log-determinant) once and reads `prec` / `mean` at call
time.  The theorems say, for EVERY history of `prec` / `mean` assignments, that every read (`logpdf` differences, `gradient`,
`sqrtprecᵀ sqrtprec`, `sqrtprecᵀ sqrtprecTimesMean`) is the read of a freshly built object with the current parameters — the
statement a cached, not invalidated derived quantity would break.  The harness replays random histories on one real object and
on this model (driver op `gmrfhist`) and diffs every read.
-/

namespace CuqiVerif.C20
open CuqiVerif.QMat

theorem run_cons (s : GState) (op : GOp) (ops : List GOp) : s.run (op :: ops) = (s.apply op).run ops := rfl

/-- the structure matrix is never touched by a history -/
theorem run_P (ops : List GOp) : ∀ s : GState, (s.run ops).P = s.P := by
  induction ops with
  | nil => intro s; rfl
  | cons op ops ih => intro s; rw [run_cons, ih]; cases op <;> rfl

/-- after any history the precision slot holds the last assigned value (or the constructor's) -/
theorem run_prec (ops : List GOp) : ∀ s : GState, (s.run ops).prec = (lastPrec ops).getD s.prec := by
  induction ops with
  | nil => intro s; rfl
  | cons op ops ih =>
    intro s
    rw [run_cons, ih]
    cases op with
    | setPrec p => cases h : lastPrec ops <;> simp [lastPrec, GState.apply, h]
    | setMean m => simp [lastPrec, GState.apply]

/-- after any history the mean slot holds the last assigned value (or the constructor's) -/
theorem run_mean (ops : List GOp) : ∀ s : GState, (s.run ops).mean = (lastMean ops).getD s.mean := by
  induction ops with
  | nil => intro s; rfl
  | cons op ops ih =>
    intro s
    rw [run_cons, ih]
    cases op with
    | setMean m => cases h : lastMean ops <;> simp [lastMean, GState.apply, h]
    | setPrec p => simp [lastMean, GState.apply]

/-- the object after a history IS the freshly built object with the current parameters -/
theorem run_eq_fresh (s : GState) (ops : List GOp) :
    s.run ops = { P := s.P, prec := (lastPrec ops).getD s.prec, mean := (lastMean ops).getD s.mean } := by
  have h1 := run_P ops s; have h2 := run_prec ops s; have h3 := run_mean ops s
  cases hs : s.run ops with
  | mk P prec mean => simp_all

/-- every read after a history equals the read of the freshly built object: nothing stale survives a setter -/
theorem reads_current (s : GState) (ops : List GOp) (x : Vec) :
    let f : GState := { P := s.P, prec := (lastPrec ops).getD s.prec, mean := (lastMean ops).getD s.mean }
    (s.run ops).quad x = f.quad x ∧ (s.run ops).grad x = f.grad x ∧
    (s.run ops).scaledPrec = f.scaledPrec ∧ (s.run ops).precMean = f.precMean := by
  intro f
  have h : s.run ops = f := run_eq_fresh s ops
  rw [h]; exact ⟨rfl, rfl, rfl, rfl⟩

example : ({ P := [[2, -1], [-1, 2]], prec := 2, mean := [1, 0] } : GState).run [.setPrec 4, .setMean [0, 0], .setPrec 3]
    = { P := [[2, -1], [-1, 2]], prec := 3, mean := [0, 0] } := by rfl

/-- assignments to different slots commute -/
theorem setters_commute (s : GState) (p : Rat) (m : Vec) :
    (s.apply (.setPrec p)).apply (.setMean m) = (s.apply (.setMean m)).apply (.setPrec p) := rfl

/-- the last assignment to a slot wins -/
theorem setPrec_last_wins (s : GState) (p p' : Rat) :
    (s.apply (.setPrec p)).apply (.setPrec p') = s.apply (.setPrec p') := rfl

/-- the quadratic part is linear in the precision: re-assigning `prec := c · prec` scales it by `c` -/
theorem quad_scales (s : GState) (c : Rat) (x : Vec) :
    (s.apply (.setPrec (c * s.prec))).quad x = c * s.quad x := by
  simp only [GState.quad, GState.apply]; ring

/-- the square of the square-root precision the field reports is `prec · P`, entry by entry, for the current `prec` -/
theorem scaledPrec_entry (s : GState) (ops : List GOp) :
    (s.run ops).scaledPrec = s.P.map (fun r => r.map (fun v => (lastPrec ops).getD s.prec * v)) := by
  rw [run_eq_fresh]; rfl

end CuqiVerif.C20
