import CuqiVerif.Model.C03_gallery
import CuqiVerif.Proofs.C03_gallery

/-!
# C03 — the benchmark densities of `DistributionGallery` (`cuqi/distribution/_custom.py`)

For each gallery entry with a hand-written gradient: the two components the code returns are the two
partial derivatives of the formula its `logpdf_func` evaluates — for **all** values of the attributes
the methods read from `self` (not only the constants `__init__` assigns) and all points where the
log-density is differentiable.  The statements are about the definitions of
`Model/C03_gallery.lean` that the driver evaluates (op `gal`).
-/
open Finset Filter Topology

namespace CuqiVerif.C03
open CuqiVerif RExpr

/-- `calSomLogpdf` / gradient components in the variables `x0 x1 sig delta = var 0 … var 3` -/
abbrev calSomE : RExpr := calSomLogpdf (var 0) (var 1) (var 2) (var 3)
abbrev calSomG0 : RExpr := calSomGrad0 (var 0) (var 1) (var 2) (var 3)
abbrev calSomG1 : RExpr := calSomGrad1 (var 0) (var 1) (var 2) (var 3)

/-- **CalSom91**: away from the origin (where `sqrt(x0²+x1²)` has no derivative), for every
    `sig ≠ 0`, `delta ≠ 0`: `dfdx1`, `dfdx2` are the partial derivatives of `_CalSom91_logpdf_func`. -/
theorem calSom_grad_eq_deriv (x0 x1 σ δ : ℝ) (hx : x0 ≠ 0 ∨ x1 ≠ 0) (hσ : σ ≠ 0) (hδ : δ ≠ 0) :
    HasDerivAt (fun t => eval (envL [t, x1, σ, δ]) calSomE) (eval (envL [x0, x1, σ, δ]) calSomG0) x0 ∧
    HasDerivAt (fun t => eval (envL [x0, t, σ, δ]) calSomE) (eval (envL [x0, x1, σ, δ]) calSomG1) x1 := by
  have hr : 0 < x0 ^ 2 + x1 ^ 2 := by
    rcases hx with h | h
    · have := pow_pos (abs_pos.mpr h) 2; rw [sq_abs] at this; positivity
    · have := pow_pos (abs_pos.mpr h) 2; rw [sq_abs] at this; positivity
  have hs : Real.sqrt (x0 ^ 2 + x1 ^ 2) ≠ 0 := by positivity
  have hss : Real.sqrt (x0 ^ 2 + x1 ^ 2) ^ 2 = x0 ^ 2 + x1 ^ 2 := Real.sq_sqrt hr.le
  have hc : x1 ^ 2 + x0 ^ 2 = x0 ^ 2 + x1 ^ 2 := add_comm _ _
  constructor
  · apply gal_hasDerivAt0
    · simp [calSomE, calSomLogpdf, hσ, hδ, hr]
    · simp [calSomE, calSomG0, calSomLogpdf, calSomGrad0, deriv_var_ne, hc]
      field_simp
  · apply gal_hasDerivAt1
    · simp [calSomE, calSomLogpdf, hσ, hδ, hr]
    · simp [calSomE, calSomG1, calSomLogpdf, calSomGrad1, deriv_var_ne, hc]
      field_simp

example : HasDerivAt (fun t => eval (envL [t, 4, 1/10, 1]) calSomE) (eval (envL [3, 4, 1/10, 1]) calSomG0) 3 :=
  (calSom_grad_eq_deriv 3 4 (1/10) 1 (Or.inl (by norm_num)) (by norm_num) (by norm_num)).1

/-! ## funnel -/
abbrev funnelE : RExpr := funnelLogpdf (var 0) (var 1) (var 2) (var 3) (var 4)
abbrev funnelG0 : RExpr := funnelGrad0 (var 0) (var 1) (var 2) (var 3) (var 4)
abbrev funnelG1 : RExpr := funnelGrad1 (var 0) (var 1) (var 2) (var 3) (var 4)

/-- **funnel**: every point, every `m0`, `m1` (the code has `m0 = m1 = 0`), every `s1 > 0`:
    `dfdx(x0,m0,s0)` and `dfds(x0,m0,s0)*0.5*s0 + dfdx(x1,m1,s1)` (with `s0 = exp(x1/2)`) are the partial
    derivatives of `f(x0,m0,s0) + f(x1,m1,s1)` — including the chain rule through `s0(x1)`. -/
theorem funnel_grad_eq_deriv (x0 x1 m0 m1 s1 : ℝ) (hs1 : 0 < s1) :
    HasDerivAt (fun t => eval (envL [t, x1, m0, m1, s1]) funnelE) (eval (envL [x0, x1, m0, m1, s1]) funnelG0) x0 ∧
    HasDerivAt (fun t => eval (envL [x0, t, m0, m1, s1]) funnelE) (eval (envL [x0, x1, m0, m1, s1]) funnelG1) x1 := by
  have he : 0 < Real.exp (x1 / 2) := Real.exp_pos _
  have he' : Real.exp (x1 / 2) ≠ 0 := ne_of_gt he
  have hs1' : s1 ≠ 0 := ne_of_gt hs1
  have hpi : 0 < Real.pi := Real.pi_pos
  constructor
  · apply gal_hasDerivAt0
    · simp [funnelE, funnelLogpdf, funnelF, funnelS0, he, he', hs1, hs1', hpi]
    · simp [funnelE, funnelG0, funnelLogpdf, funnelGrad0, funnelF, funnelS0, funnelDfdx, deriv_var_ne]
      field_simp
      ring
  · apply gal_hasDerivAt1
    · simp [funnelE, funnelLogpdf, funnelF, funnelS0, he, he', hs1, hs1', hpi]
    · simp [funnelE, funnelG1, funnelLogpdf, funnelGrad1, funnelF, funnelS0, funnelDfdx, funnelDfds, deriv_var_ne]
      field_simp
      ring

example : HasDerivAt (fun t => eval (envL [1, t, 1/2, -1, 3]) funnelE) (eval (envL [1, 2, 1/2, -1, 3]) funnelG1) 2 :=
  (funnel_grad_eq_deriv 1 2 (1/2) (-1) 3 (by norm_num)).2

/-! ## donut -/
abbrev donutE : RExpr := donutLogpdf (var 0) (var 1) (var 2) (var 3)
/-- the gradient components away from the origin (`r = sqrt(x0²+x1²)`, the branch `r == 0` not taken) -/
abbrev donutG0 : RExpr := donutGradComp (var 0) (donutR (var 0) (var 1)) (var 2) (var 3)
abbrev donutG1 : RExpr := donutGradComp (var 1) (donutR (var 0) (var 1)) (var 2) (var 3)

/-- **donut**: away from the origin, every `radius`, every `sigma2 ≠ 0`:
    `(x_i*((radius/r)-1)*2)/sigma2` are the partial derivatives of `-(r-radius)²/sigma2`. -/
theorem donut_grad_eq_deriv (x0 x1 R σ2 : ℝ) (hx : x0 ≠ 0 ∨ x1 ≠ 0) (hσ : σ2 ≠ 0) :
    HasDerivAt (fun t => eval (envL [t, x1, R, σ2]) donutE) (eval (envL [x0, x1, R, σ2]) donutG0) x0 ∧
    HasDerivAt (fun t => eval (envL [x0, t, R, σ2]) donutE) (eval (envL [x0, x1, R, σ2]) donutG1) x1 := by
  have hr : 0 < x0 ^ 2 + x1 ^ 2 := by
    rcases hx with h | h
    · have := pow_pos (abs_pos.mpr h) 2; rw [sq_abs] at this; positivity
    · have := pow_pos (abs_pos.mpr h) 2; rw [sq_abs] at this; positivity
  have hs : Real.sqrt (x0 ^ 2 + x1 ^ 2) ≠ 0 := by positivity
  constructor
  · apply gal_hasDerivAt0
    · simp [donutE, donutLogpdf, donutR, hσ, hr]
    · simp [donutE, donutG0, donutLogpdf, donutGradComp, donutR, deriv_var_ne]
      field_simp
      ring
  · apply gal_hasDerivAt1
    · simp [donutE, donutLogpdf, donutR, hσ, hr]
    · simp [donutE, donutG1, donutLogpdf, donutGradComp, donutR, deriv_var_ne]
      field_simp
      ring

example : HasDerivAt (fun t => eval (envL [t, 4, 13/5, 33/1000]) donutE) (eval (envL [3, 4, 13/5, 33/1000]) donutG0) 3 :=
  (donut_grad_eq_deriv 3 4 (13/5) (33/1000) (Or.inl (by norm_num)) (by norm_num)).1

/-- at the origin the code divides by `1e-16` instead of `r = 0`: both components it returns are `0`
    (every radius, every `sigma2`) — the value the driver reports there. -/
theorem donut_origin_returns_zero (R σ2 : ℝ) (i : ℕ) (hi : i < 2) :
    eval (envL [0, 0, R, σ2]) (donutGradComp (var i) (donutREff 0 0) (var 2) (var 3)) = 0 := by
  interval_cases i <;> simp [donutGradComp]

/-- … and that `0` is not "the derivative": at the origin the donut log-density `-(|x| - radius)²/sigma2` is
    the apex of a cone and has **no** derivative along the first coordinate line (any `radius ≠ 0`).  The
    check therefore demands nothing of `gradient` at the origin (as at the kink of a Laplace density). -/
theorem donut_origin_not_differentiable (R σ2 : ℝ) (hR : R ≠ 0) (hσ : σ2 ≠ 0) :
    ¬ DifferentiableAt ℝ (fun t => eval (envL [t, 0, R, σ2]) donutE) 0 := by
  intro h
  have hf : ∀ t : ℝ, eval (envL [t, 0, R, σ2]) donutE = -((|t| - R) ^ 2 / σ2) := by
    intro t
    simp [donutE, donutLogpdf, donutR, Real.sqrt_sq_eq_abs]
  have habs : (fun t : ℝ => |t|) =
      fun t => (t ^ 2 + R ^ 2 + σ2 * eval (envL [t, 0, R, σ2]) donutE) / (2 * R) := by
    funext t
    rw [hf]
    have ha : |t| ^ 2 = t ^ 2 := sq_abs t
    field_simp
    linear_combination ha
  have hd : DifferentiableAt ℝ (fun t : ℝ => |t|) 0 := by
    rw [habs]
    exact (((differentiableAt_id.pow 2).add_const _).add (h.const_mul σ2)).div_const _
  exact not_differentiableAt_abs_zero hd

example : ¬ DifferentiableAt ℝ (fun t => eval (envL [t, 0, 13/5, 33/1000]) donutE) 0 :=
  donut_origin_not_differentiable _ _ (by norm_num) (by norm_num)

/-! ## mixture of three isotropic Gaussians -/

/-- **mixture**: every point, all component means, all variances `> 0`:
    `(p0*G0.gradient(x) + p1*G1.gradient(x) + p2*G2.gradient(x)) * (1/(p0+p1+p2))` (component `i`) is the
    `i`-th partial derivative of `log(G0.pdf(x)+G1.pdf(x)+G2.pdf(x))`, with `Gk.pdf = exp(Gk.logpdf)` and
    `Gk.gradient(x) = -(1/v_k)(x - m_k)`. -/
theorem mixture_grad_eq_deriv (x0 x1 a0 a1 v0 b0 b1 v1 c0 c1 v2 : ℝ)
    (hv0 : 0 < v0) (hv1 : 0 < v1) (hv2 : 0 < v2) :
    HasDerivAt (fun t => eval (envL [t, x1, a0, a1, v0, b0, b1, v1, c0, c1, v2]) mixLogpdf)
      (eval (envL [x0, x1, a0, a1, v0, b0, b1, v1, c0, c1, v2]) (mixGrad 0)) x0 ∧
    HasDerivAt (fun t => eval (envL [x0, t, a0, a1, v0, b0, b1, v1, c0, c1, v2]) mixLogpdf)
      (eval (envL [x0, x1, a0, a1, v0, b0, b1, v1, c0, c1, v2]) (mixGrad 1)) x1 := by
  have hpi : 0 < Real.pi := Real.pi_pos
  have h0 : v0 ≠ 0 := ne_of_gt hv0
  have h1 : v1 ≠ 0 := ne_of_gt hv1
  have h2 : v2 ≠ 0 := ne_of_gt hv2
  constructor
  · apply gal_hasDerivAt0
    · simp [mixLogpdf, mixP, isoPdf, isoLogpdf, envL, hpi, hv0, hv1, hv2, h0, h1, h2]
      positivity
    · simp [mixLogpdf, mixGrad, mixP, isoPdf, isoLogpdf, isoGradComp, envL, deriv_var_ne]
      field_simp
  · apply gal_hasDerivAt1
    · simp [mixLogpdf, mixP, isoPdf, isoLogpdf, envL, hpi, hv0, hv1, hv2, h0, h1, h2]
      positivity
    · simp [mixLogpdf, mixGrad, mixP, isoPdf, isoLogpdf, isoGradComp, envL, deriv_var_ne]
      field_simp

example : HasDerivAt (fun t => eval (envL [t, 1/2, -3/2, -3/2, 16/25, 3/2, 3/2, 16/25, -2, 2, 1/4]) mixLogpdf)
    (eval (envL [1/2, 1/2, -3/2, -3/2, 16/25, 3/2, 3/2, 16/25, -2, 2, 1/4]) (mixGrad 0)) (1/2) :=
  (mixture_grad_eq_deriv (1/2) (1/2) (-3/2) (-3/2) (16/25) (3/2) (3/2) (16/25) (-2) 2 (1/4)
    (by norm_num) (by norm_num) (by norm_num)).1

/-! ## squiggle and banana: hand-written chain rule around `G0.gradient(T(x))` -/

/-- **squiggle**: every symmetric precision `P` of `G0`, every mean, every frequency `k` (the code has
    `k = 5`), every point: with `y = (x0, x1 + sin(k x0))` and `g = G0.gradient(y) = -(P(y-μ))`, the
    vector `(g0 + g1*k*cos(k x0), g1)` consists of the partial derivatives of `G0.logpdf(y(x)) = Z - ½ quad`. -/
theorem squiggle_grad_eq_deriv (P : ℕ → ℕ → ℝ) (μ : ℕ → ℝ) (hP : P 0 1 = P 1 0) (k x0 x1 : ℝ) :
    HasDerivAt (fun t => -(squiggleQuad P μ t x1 (Real.sin (k * t))) / 2)
      (squiggleGrad P μ x0 x1 (Real.sin (k * x0)) (Real.cos (k * x0)) k 0) x0 ∧
    HasDerivAt (fun t => -(squiggleQuad P μ x0 t (Real.sin (k * x0))) / 2)
      (squiggleGrad P μ x0 x1 (Real.sin (k * x0)) (Real.cos (k * x0)) k 1) x1 := by
  constructor
  · have hu : HasDerivAt (fun t : ℝ => t - μ 0) 1 x0 := (hasDerivAt_id' x0).sub_const _
    have hs : HasDerivAt (fun t : ℝ => Real.sin (k * t)) (Real.cos (k * x0) * k) x0 := by
      have h1 : HasDerivAt (fun t : ℝ => k * t) k x0 := by
        simpa using (hasDerivAt_id' x0).const_mul k
      exact (Real.hasDerivAt_sin (k * x0)).comp x0 h1
    have hv : HasDerivAt (fun t : ℝ => x1 + Real.sin (k * t) - μ 1) (Real.cos (k * x0) * k) x0 := by
      simpa using (hs.const_add x1).sub_const (μ 1)
    have key := hasDerivAt_quad2 (P 0 0) (P 0 1) (P 1 0) (P 1 1) hP _ _ _ _ x0 hu hv
    convert key using 1
    · funext t
      simp [squiggleQuad, squiggleY, gaussQuad_two]
    · simp [squiggleGrad, squiggleY, gaussGrad_two]
      ring
  · have hu : HasDerivAt (fun _ : ℝ => x0 - μ 0) 0 x1 := hasDerivAt_const _ _
    have hv : HasDerivAt (fun t : ℝ => t + Real.sin (k * x0) - μ 1) 1 x1 := by
      simpa using ((hasDerivAt_id' x1).add_const (Real.sin (k * x0))).sub_const (μ 1)
    have key := hasDerivAt_quad2 (P 0 0) (P 0 1) (P 1 0) (P 1 1) hP _ _ _ _ x1 hu hv
    convert key using 1
    · funext t
      simp [squiggleQuad, squiggleY, gaussQuad_two]
    · simp [squiggleGrad, squiggleY, gaussGrad_two]

example : HasDerivAt (fun t : ℝ => -(squiggleQuad (fun i j => if i = j then (2 : ℝ) else 1) (fun _ => 0) t 1 (Real.sin (5 * t))) / 2)
    (squiggleGrad (fun i j => if i = j then (2 : ℝ) else 1) (fun _ => 0) 0 1 (Real.sin (5 * 0)) (Real.cos (5 * 0)) 5 0) 0 :=
  (squiggle_grad_eq_deriv _ _ (by simp) 5 0 1).1

/-- **banana**: every symmetric precision `P` of `G0`, every mean, every `a ≠ 0`, `b`, every point: with
    `y = (x0/a, x1*a + a*b*(x0² + a²))` and `g = G0.gradient(y)`, the vector
    `(g0/a + g1*a*b*2*x0, g1*a)` consists of the partial derivatives of `G0.logpdf(y(x))`. -/
theorem banana_grad_eq_deriv (P : ℕ → ℕ → ℝ) (μ : ℕ → ℝ) (hP : P 0 1 = P 1 0) (a b x0 x1 : ℝ) (ha : a ≠ 0) :
    HasDerivAt (fun t => -(bananaQuad P μ t x1 a b) / 2) (bananaGrad P μ x0 x1 a b 0) x0 ∧
    HasDerivAt (fun t => -(bananaQuad P μ x0 t a b) / 2) (bananaGrad P μ x0 x1 a b 1) x1 := by
  constructor
  · have hu : HasDerivAt (fun t : ℝ => t / a - μ 0) (1 / a) x0 := by
      simpa using ((hasDerivAt_id' x0).div_const a).sub_const (μ 0)
    have hv : HasDerivAt (fun t : ℝ => x1 * a + a * b * (t * t + a * a) - μ 1) (a * b * (x0 + x0)) x0 := by
      have h1 : HasDerivAt (fun t : ℝ => t * t + a * a) (1 * x0 + x0 * 1) x0 :=
        ((hasDerivAt_id' x0).fun_mul (hasDerivAt_id' x0)).add_const _
      have := ((h1.const_mul (a * b)).const_add (x1 * a)).sub_const (μ 1)
      refine this.congr_deriv ?_
      ring
    have key := hasDerivAt_quad2 (P 0 0) (P 0 1) (P 1 0) (P 1 1) hP _ _ _ _ x0 hu hv
    convert key using 1
    · funext t
      simp [bananaQuad, bananaY, gaussQuad_two]
    · simp [bananaGrad, bananaY, gaussGrad_two]
      field_simp
  · have hu : HasDerivAt (fun _ : ℝ => x0 / a - μ 0) 0 x1 := hasDerivAt_const _ _
    have hv : HasDerivAt (fun t : ℝ => t * a + a * b * (x0 * x0 + a * a) - μ 1) a x1 := by
      have := (((hasDerivAt_id' x1).mul_const a).add_const (a * b * (x0 * x0 + a * a))).sub_const (μ 1)
      simpa using this
    have key := hasDerivAt_quad2 (P 0 0) (P 0 1) (P 1 0) (P 1 1) hP _ _ _ _ x1 hu hv
    convert key using 1
    · funext t
      simp [bananaQuad, bananaY, gaussQuad_two]
    · simp [bananaGrad, bananaY, gaussGrad_two]

example : HasDerivAt (fun t : ℝ => -(bananaQuad (fun i j => if i = j then (4/3 : ℝ) else -2/3) (fun j => if j = 0 then 0 else 4) t 2 2 (1/5)) / 2)
    (bananaGrad (fun i j => if i = j then (4/3 : ℝ) else -2/3) (fun j => if j = 0 then 0 else 4) 1 2 2 (1/5) 0) 1 :=
  (banana_grad_eq_deriv _ _ (by simp) 2 (1/5) 1 2 (by norm_num)).1

end CuqiVerif.C03
