import CuqiVerif.Model.C18
import CuqiVerif.Proofs.C18
import Mathlib.Algebra.BigOperators.Group.Finset.Basic
import Mathlib.Algebra.BigOperators.Ring.Finset
import Mathlib.Tactic.Ring
import Mathlib.Tactic.Linarith
import Mathlib.Tactic.NormNum

/-!
# C18 — PDE models solve the discretised equations given and observe them consistently
-/
open Finset

set_option linter.unusedSectionVars false
set_option linter.unusedVariables false

namespace CuqiVerif.C18

variable {R : Type} [CommRing R]

/-- level 0 is the initial condition -/
theorem forward_level_zero {I : Type} (n : ℕ) (form : R → Form R) (solver : Mat R → Vec R → SolverRet (Vec R) I)
    (t0 : R) (rest : List R) (levels : List (Vec R)) (info : Option (List I))
    (h : solveTime n .forward form solver (t0 :: rest) = .ok (levels, info)) (i : ℕ) (hi : i < n) :
    levels.getD 0 (fun _ => 0) i = (form t0).ic i := by
  simp only [solveTime] at h
  cases h
  simp [force_apply _ _ _ hi]

end CuqiVerif.C18
