import CuqiVerif.Model.C18
import CuqiVerif.Proofs.C18
import Mathlib.Algebra.BigOperators.Group.Finset.Basic
import Mathlib.Algebra.BigOperators.Ring.Finset
import Mathlib.Tactic.Ring
import Mathlib.Tactic.Linarith
import Mathlib.Tactic.NormNum
import Mathlib.Tactic.LinearCombination
import Mathlib.Tactic.FieldSimp

/-!
# C18 — PDE models solve the discretised equations given and observe them consistently

Every theorem is about the executable definitions of `CuqiVerif/Model/C18.lean` (the ones
`Driver/C18.lean` runs at `R = Rat`), for an arbitrary commutative ring `R`, arbitrary dimension
`n`, arbitrary forms (functions of the time, the parameter already applied — `form t =
PDE_form(parameter, t)`), arbitrary time grids (lists, not assumed uniform or even increasing) and
arbitrary solvers.  A solver enters through its certificate `SolverCorrect` ("what it returns
solves the system it was given"); the driver checks that certificate on every solve and the
harness checks it on the implementation's floating-point results.

`levels.getD k #[]` is column `k` of the array `u` returned by `solve()`, read with `rd`.
-/
open Finset

set_option linter.unusedSectionVars false
set_option linter.unusedVariables false

namespace CuqiVerif.C18

variable {R : Type} [CommRing R]

/-! ## 1. `_solve_linear_system`: solvers and their extra return values -/

/-- a solver returning only the solution: `info` is `None` -/
theorem unpack_plain {S I : Type} (x : S) : unpack (.plain x : SolverRet S I) = .ok (x, none) := rfl

/-- a solver returning a tuple: the solution is its first entry, `info` the rest, however many -/
theorem unpack_tuple {S I : Type} (x : S) (extras : List I) :
    unpack (.tuple x extras : SolverRet S I) = .ok (x, some extras) := rfl

/-- the solution taken from the solver's answer does not depend on the extra return values -/
theorem unpack_solution_ignores_extras {S I : Type} (x : S) (e₁ e₂ : List I) :
    (unpack (.tuple x e₁ : SolverRet S I)).map (·.1) = (unpack (.tuple x e₂ : SolverRet S I)).map (·.1)
    ∧ (unpack (.tuple x e₁ : SolverRet S I)).map (·.1) = (unpack (.plain x : SolverRet S I)).map (·.1) :=
  ⟨rfl, rfl⟩

example : unpack (.tuple (3 : ℤ) [7, 8] : SolverRet ℤ ℤ) = .ok (3, some [7, 8]) := rfl

/-! ## 2. steady state -/

/-- **steady_solves.**  If the linear solver is correct, what `assemble(p); solve()` returns
    satisfies the assembled system `A(p) u = b(p)` — for every form, parameter and dimension. -/
theorem steady_solves {P I : Type} (n : ℕ) (s : Steady P R I) (hs : SolverCorrect n s.solver) (p : P)
    (u : Vec R) (info : Option (List I)) (h : (s.assemble p).solve = .ok (u, info)) (i : ℕ) (hi : i < n) :
    ∑ j ∈ range n, (s.form p).op i j * u j = (s.form p).rhs i := by
  simp only [Steady.assemble, Steady.solve] at h
  exact hs _ _ _ _ h i hi

/-- `solve()` before any `assemble` is refused -/
theorem steady_requires_assemble {P I : Type} (s : Steady P R I) (h : s.assembled = none) :
    s.solve = .error .notAssembled := by
  simp [Steady.solve, h]

/-- after re-assembling, `solve()` uses the parameter supplied last (no stale operator) -/
theorem steady_uses_last_assembled {P I : Type} (s : Steady P R I) (p₁ p₂ : P) :
    ((s.assemble p₁).assemble p₂).solve = (s.assemble p₂).solve := rfl

/-- the `info` reported by the steady solve is the solver's tuple of extra values -/
theorem steady_info {P I : Type} (s : Steady P R I) (p : P) (x : Vec R) (extras : List I)
    (h : s.solver (s.form p).op (s.form p).rhs = .tuple x extras) :
    (s.assemble p).solve = .ok (x, some extras) := by
  simp [Steady.assemble, Steady.solve, h, unpack]

/-- a correct 1×1 solver (non-vacuity of `SolverCorrect`) -/
def divSolver (A : Mat ℚ) (b : Vec ℚ) : SolverRet (Vec ℚ) ℚ :=
  if A 0 0 = 0 then .raised else .tuple (fun _ => b 0 / A 0 0) [b 0]

theorem divSolver_correct : SolverCorrect 1 divSolver := by
  intro A b x info h i hi
  have hi0 : i = 0 := by omega
  subst hi0
  unfold divSolver at h
  split at h
  · simp [unpack] at h
  · rename_i hA
    simp only [unpack, Except.ok.injEq, Prod.mk.injEq] at h
    obtain ⟨hx, _⟩ := h
    subst hx
    simp
    field_simp

example : ((({ form := fun (p : ℚ) => ⟨fun _ _ => 2 * p, fun _ => 6⟩, solver := divSolver } :
    Steady ℚ ℚ ℚ).assemble 3).solve).map (fun r => r.1 0) = .ok 1 := by
  norm_num [Steady.assemble, Steady.solve, divSolver, unpack, Except.map]

/-! ## 3. time stepping -/

/-- the returned array has one column per entry of the time grid (both methods) -/
theorem levels_length {I : Type} (n : ℕ) (m : Method) (form : R → Form R)
    (solver : Mat R → Vec R → SolverRet (Vec R) I) (ts : List R) (levels : List (Array R))
    (info : Option (List I)) (h : solveTime n m form solver ts = .ok (levels, info)) :
    levels.length = ts.length := by
  cases ts with
  | nil => simp [solveTime] at h
  | cons t0 rest =>
    cases m with
    | forward =>
      simp only [solveTime, Except.ok.injEq, Prod.mk.injEq] at h
      obtain ⟨h, _⟩ := h
      subst h
      simp [fwdLevels_length]
    | backward =>
      simp only [solveTime] at h
      split at h
      · cases h
      · rename_i steps hsteps
        split at h
        · cases h
        · simp only [Except.ok.injEq, Prod.mk.injEq] at h
          obtain ⟨h, _⟩ := h
          subst h
          simp [bwdLevels_length _ _ _ _ _ _ _ hsteps]
    | otherCase => simp [solveTime] at h

/-- column 0 is the initial condition the form returns at the *first* grid time (both methods) -/
theorem level_zero_initial_condition {I : Type} (n : ℕ) (m : Method) (form : R → Form R)
    (solver : Mat R → Vec R → SolverRet (Vec R) I) (t0 : R) (rest : List R) (levels : List (Array R))
    (info : Option (List I)) (h : solveTime n m form solver (t0 :: rest) = .ok (levels, info))
    (i : ℕ) (hi : i < n) :
    rd (levels.getD 0 #[]) i = (form t0).ic i := by
  cases m with
  | forward =>
    simp only [solveTime, Except.ok.injEq, Prod.mk.injEq] at h
    obtain ⟨h, _⟩ := h
    subst h
    simp [rd_tab _ _ _ hi]
  | backward =>
    simp only [solveTime] at h
    split at h
    · cases h
    · split at h
      · cases h
      · simp only [Except.ok.injEq, Prod.mk.injEq] at h
        obtain ⟨h, _⟩ := h
        subst h
        simp [rd_tab _ _ _ hi]
  | otherCase => simp [solveTime] at h

/-- **euler_forward_recurrence.**  Every stored level of the forward method satisfies the explicit
    Euler relation `u_{k+1} = u_k + Δt_k (A(t_k) u_k + b(t_k))`, `Δt_k = t_{k+1} - t_k`, with the
    operator and source assembled at `t_k` — for every time grid (uniform or not), every form and
    dimension. -/
theorem euler_forward_recurrence {I : Type} (n : ℕ) (form : R → Form R)
    (solver : Mat R → Vec R → SolverRet (Vec R) I) (ts : List R) (levels : List (Array R))
    (info : Option (List I)) (h : solveTime n .forward form solver ts = .ok (levels, info))
    (k : ℕ) (hk : k + 1 < ts.length) (i : ℕ) (hi : i < n) :
    rd (levels.getD (k + 1) #[]) i =
      rd (levels.getD k #[]) i + (ts.getD (k + 1) 0 - ts.getD k 0) *
        ((∑ j ∈ range n, (form (ts.getD k 0)).op i j * rd (levels.getD k #[]) j) + (form (ts.getD k 0)).src i) := by
  cases ts with
  | nil => simp at hk
  | cons t0 rest =>
    simp only [solveTime, Except.ok.injEq, Prod.mk.injEq] at h
    obtain ⟨h, _⟩ := h
    subst h
    have hk' : k < rest.length := by simpa using hk
    rw [fwdLevels_step n form rest t0 _ k hk', fwdStep_apply _ _ _ _ _ hi]

/-- the forward method never consults the linear solver and reports `info = None` -/
theorem forward_ignores_solver {I : Type} (n : ℕ) (form : R → Form R)
    (s₁ s₂ : Mat R → Vec R → SolverRet (Vec R) I) (ts : List R) :
    solveTime n .forward form s₁ ts = solveTime n .forward form s₂ ts
    ∧ ∀ levels info, solveTime n .forward form s₁ ts = .ok (levels, info) → info = none := by
  refine ⟨by cases ts <;> rfl, ?_⟩
  intro levels info h
  cases ts with
  | nil => simp [solveTime] at h
  | cons t0 rest =>
    simp only [solveTime, Except.ok.injEq, Prod.mk.injEq] at h
    exact h.2.symm

/-- **euler_backward_recurrence.**  With a correct linear solver (whatever else it returns), every
    stored level of the backward method satisfies the implicit Euler relation
    `u_{k+1} = u_k + Δt_k (A(t_{k+1}) u_{k+1} + b(t_{k+1}))`, `Δt_k = t_{k+1} - t_k`, with the operator
    and source assembled at the *new* time — for every time grid, form and dimension. -/
theorem euler_backward_recurrence {I : Type} (n : ℕ) (form : R → Form R)
    (solver : Mat R → Vec R → SolverRet (Vec R) I) (hs : SolverCorrect n solver) (ts : List R)
    (levels : List (Array R)) (info : Option (List I))
    (h : solveTime n .backward form solver ts = .ok (levels, info))
    (k : ℕ) (hk : k + 1 < ts.length) (i : ℕ) (hi : i < n) :
    rd (levels.getD (k + 1) #[]) i =
      rd (levels.getD k #[]) i + (ts.getD (k + 1) 0 - ts.getD k 0) *
        ((∑ j ∈ range n, (form (ts.getD (k + 1) 0)).op i j * rd (levels.getD (k + 1) #[]) j)
          + (form (ts.getD (k + 1) 0)).src i) := by
  cases ts with
  | nil => simp at hk
  | cons t0 rest =>
    simp only [solveTime] at h
    split at h
    · cases h
    · rename_i steps hsteps
      split at h
      · cases h
      · simp only [Except.ok.injEq, Prod.mk.injEq] at h
        obtain ⟨h, _⟩ := h
        subst h
        have hk' : k < rest.length := by simpa using hk
        obtain ⟨x, inf, hx, hlev, _⟩ := bwdLevels_step n form solver rest t0 _ steps hsteps k hk'
        have hcert := hs _ _ _ _ hx
        have hrel := bwd_relation n _ _ _ x hcert i hi
        rw [hlev, rd_tab _ _ _ hi, hrel]
        congr 2
        congr 1
        exact Finset.sum_congr rfl fun j hj => by rw [rd_tab _ _ _ (mem_range.mp hj)]

/-- the `info` of the backward method is the `info` of the *last* linear solve -/
theorem backward_info_is_last_solve {I : Type} (n : ℕ) (form : R → Form R)
    (solver : Mat R → Vec R → SolverRet (Vec R) I) (t0 : R) (rest : List R)
    (levels : List (Array R)) (info : Option (List I))
    (h : solveTime n .backward form solver (t0 :: rest) = .ok (levels, info)) :
    ∃ steps, bwdLevels n form solver t0 (tab n (form t0).ic) rest = .ok steps
      ∧ (steps.getLast?.map (·.2)) = some info := by
  simp only [solveTime] at h
  split at h
  · cases h
  · rename_i steps hsteps
    refine ⟨steps, hsteps, ?_⟩
    split at h
    · cases h
    · rename_i last hlast
      simp only [Except.ok.injEq, Prod.mk.injEq] at h
      simp [hlast, h.2]

/-- two solvers that return the same solutions (but any extra values) produce the same levels -/
theorem bwdLevels_extras_irrelevant {I J : Type} (n : ℕ) (form : R → Form R)
    (s₁ : Mat R → Vec R → SolverRet (Vec R) I) (s₂ : Mat R → Vec R → SolverRet (Vec R) J)
    (hsame : ∀ A b, (unpack (s₁ A b)).map (·.1) = (unpack (s₂ A b)).map (·.1)) :
    ∀ (rest : List R) (t : R) (u : Array R),
      (bwdLevels n form s₁ t u rest).map (fun l => l.map (·.1)) = (bwdLevels n form s₂ t u rest).map (fun l => l.map (·.1)) := by
  intro rest
  induction rest with
  | nil => intro t u; rfl
  | cons t' rest ih =>
    intro t u
    have h := hsame (bwdMat (t' - t) (form t')) (bwdRhs (t' - t) (form t') (rd u))
    simp only [bwdLevels]
    cases h1 : unpack (s₁ (bwdMat (t' - t) (form t')) (bwdRhs (t' - t) (form t') (rd u))) with
    | error e1 =>
      cases h2 : unpack (s₂ (bwdMat (t' - t) (form t')) (bwdRhs (t' - t) (form t') (rd u))) with
      | error e2 => rw [h1, h2] at h; simpa [Except.map] using h
      | ok r2 => rw [h1, h2] at h; simp [Except.map] at h
    | ok r1 =>
      cases h2 : unpack (s₂ (bwdMat (t' - t) (form t')) (bwdRhs (t' - t) (form t') (rd u))) with
      | error e2 => rw [h1, h2] at h; simp [Except.map] at h
      | ok r2 =>
        rw [h1, h2] at h
        obtain ⟨x1, i1⟩ := r1
        obtain ⟨x2, i2⟩ := r2
        have hx : x1 = x2 := by simpa [Except.map] using h
        subst hx
        have := ih t' (tab n x1)
        cases h3 : bwdLevels n form s₁ t' (tab n x1) rest with
        | error e3 =>
          cases h4 : bwdLevels n form s₂ t' (tab n x1) rest with
          | error e4 => rw [h3, h4] at this; simpa [Except.map, h3, h4] using this
          | ok l4 => rw [h3, h4] at this; simp [Except.map] at this
        | ok l3 =>
          cases h4 : bwdLevels n form s₂ t' (tab n x1) rest with
          | error e4 => rw [h3, h4] at this; simp [Except.map] at this
          | ok l4 =>
            rw [h3, h4] at this
            have hl : l3.map (·.1) = l4.map (·.1) := by simpa [Except.map] using this
            simp [Except.map, hl, h3, h4]

/-- inputs on which the pinned code dies on the unbound `info` (loud, no value is returned):
    backward Euler on a one-point time grid, and a `method` string that differs from the two
    literals only in case -/
theorem unbound_info_refusals {I : Type} (n : ℕ) (form : R → Form R)
    (solver : Mat R → Vec R → SolverRet (Vec R) I) (t0 : R) (ts : List R) :
    solveTime n .backward form solver [t0] = .error .unboundLocal
    ∧ (ts ≠ [] → solveTime n .otherCase form solver ts = .error .unboundLocal) := by
  refine ⟨rfl, ?_⟩
  intro h
  cases ts with
  | nil => exact absurd rfl h
  | cons a l => rfl

/-- the two documented method names select the two loops -/
theorem method_literals :
    Method.ofString "forward_euler" = some .forward ∧ Method.ofString "backward_euler" = some .backward := by
  decide

/-- non-vacuity: a 1-D heat-type form on the non-uniform grid `0, 1/2, 2`, both methods -/
def demoForm (t : ℚ) : Form ℚ := ⟨fun _ _ => -1 - t, fun _ => t, fun _ => 4⟩

example : ∃ levels, solveTime 1 .forward demoForm divSolver [0, 1/2, 2] = .ok (levels, none)
    ∧ rd (levels.getD 2 #[]) 0 = rd (levels.getD 1 #[]) 0 + (2 - 1/2) * ((-1 - 1/2) * rd (levels.getD 1 #[]) 0 + 1/2) := by
  refine ⟨_, rfl, ?_⟩
  norm_num [rd, tab, fwdLevels, fwdStep, sumTo, demoForm, eye]

example : (solveTime 1 .backward demoForm divSolver [0, 1/2, 2]).map (fun r => (r.1.map fun u => rd u 0, r.2))
    = .ok ([4, 17/7, 76/77], some [38/7]) := by
  norm_num [solveTime, bwdLevels, divSolver, unpack, bwdMat, bwdRhs, demoForm, eye, Except.map, rd, tab]

/-! ## 4. grids and the branch decision of `observe` -/

section grids
variable {G : Type} [DecidableEq G]

theorem compareGrid_comm (a b : Option (List G)) : compareGrid a b = compareGrid b a := by
  cases a <;> cases b <;> simp [compareGrid]
  rename_i x y
  by_cases h : x.length = y.length
  · simp [h, eq_comm]
  · have h' : ¬ y.length = x.length := fun e => h e.symm
    simp [h, h']

/-- for two present grids the flag means: same nodes -/
theorem compareGrid_some_iff (a b : List G) : compareGrid (some a) (some b) = true ↔ a = b := by
  simp only [compareGrid]
  constructor
  · intro h
    split at h
    · simpa using h
    · simp at h
  · intro h
    subst h
    simp

/-- after *any* assignment to `grid_sol` the flag describes the grids currently stored -/
theorem setSol_flag (g : Grids G) (v : Option (List G)) :
    (g.setSol v).equal = compareGrid (g.setSol v).sol (g.setSol v).obs := rfl

/-- after *any* assignment to `grid_obs` the flag describes the grids currently stored -/
theorem setObs_flag (g : Grids G) (v : Option (List G)) :
    (g.setObs v).equal = compareGrid (g.setObs v).sol (g.setObs v).obs := by
  simp only [Grids.setObs]
  exact compareGrid_comm _ _

/-- **the flag is never stale**: after the constructor and any sequence of grid assignments,
    `grids_equal` is `_compare_grid` of the two grids stored at that moment -/
theorem grids_flag_invariant (a b : Option (List G)) (ops : List (GridOp G)) :
    ((Grids.init a b).run ops).equal = compareGrid ((Grids.init a b).run ops).sol ((Grids.init a b).run ops).obs := by
  have key : ∀ (ops : List (GridOp G)) (g : Grids G), g.equal = compareGrid g.sol g.obs →
      (g.run ops).equal = compareGrid (g.run ops).sol (g.run ops).obs := by
    intro ops
    induction ops with
    | nil => intro g hg; exact hg
    | cons op rest ih =>
      intro g hg
      cases op with
      | setSol v => exact ih _ (setSol_flag g v)
      | setObs v => exact ih _ (setObs_flag g v)
  exact key ops _ (setObs_flag _ b)

/-- `grid_obs=None` means "observe on the solution grid": it is stored as the solution grid and the
    flag is set -/
theorem grid_obs_defaults_to_grid_sol (a : Option (List G)) :
    (Grids.init a none).obs = a ∧ (Grids.init a none).equal = true := by
  cases a <;> simp [Grids.init, Grids.setSol, Grids.setObs, compareGrid]

/-- the no-interpolation branch is taken exactly when the flag is set and every observation time is
    the final time -/
theorem direct_branch_iff (g : Grids G) (steps tobs : List G) (ndim : ℕ) :
    branchTime g steps tobs ndim = .direct ↔ g.equal = true ∧ allFinal steps tobs = true := by
  unfold branchTime
  cases hE : g.equal <;> cases hA : allFinal steps tobs <;> simp <;> split <;> simp

theorem allFinal_iff (steps tobs : List G) :
    allFinal steps tobs = true ↔ ∃ T, steps.getLast? = some T ∧ ∀ t ∈ tobs, t = T := by
  unfold allFinal
  cases h : steps.getLast? with
  | none => simp
  | some T =>
    simp only [List.all_eq_true, decide_eq_true_eq, Option.some.injEq, exists_eq_left']
    constructor
    · intro h' t ht; exact (h' t ht).symm
    · intro h' t ht; exact (h' t ht).symm

/-- `'final'` (in any case: the argument of `.str` is `time_obs.lower()`) resolves to the
    one-element list holding the last grid time, `'all'` to the grid; other strings and `None` are
    refused -/
theorem resolveTimeObs_strings (steps : List G) (T : G) (h : steps.getLast? = some T) :
    resolveTimeObs steps (.str "final") = .ok [T]
    ∧ resolveTimeObs steps (.str "all") = .ok steps
    ∧ resolveTimeObs steps (.str "every") = .error .valueError
    ∧ resolveTimeObs steps .noneVal = .error .valueError := by
  have hd : steps.drop (steps.length - 1) = [T] := by
    rw [List.getLast?_eq_some_iff] at h
    obtain ⟨ys, rfl⟩ := h
    simp
  refine ⟨?_, ?_, ?_, rfl⟩ <;> simp [resolveTimeObs, hd]

end grids

/-! ## 5. observation -/

section observe
variable {G : Type} [DecidableEq G] [Zero G] [Add G] [Mul G]

/-- **observe_restriction_exact.**  On the no-interpolation branch (with both grids present) the
    observation grid *is* the solution grid and the pre-map observation is exactly the last stored
    column of the solution — no interpolation is involved. -/
theorem observe_restriction_exact (g : Grids G) (hinv : g.equal = compareGrid g.sol g.obs)
    (gs go : List G) (hs : g.sol = some gs) (ho : g.obs = some go) (steps tobs : List G)
    (hb : branchTime g steps tobs 2 = .direct) (U : List (List G))
    (interp : List G → List G → List (List G) → List G → List G → Except Err (List (List G))) :
    go = gs ∧ preObserveTime g steps tobs U interp = (lastCol U).map Arr.vec := by
  have he := ((direct_branch_iff g steps tobs 2).mp hb).1
  rw [hinv, hs, ho, compareGrid_some_iff] at he
  exact ⟨he.symm, by simp [preObserveTime, hb]⟩

/-- on that branch a *single* observation time is the final time, so the last column is the
    solution restricted to `time_obs` (the hypothesis `tobs.length = 1` cannot be dropped, see
    `observe_repeated_final_time_counterexample`) -/
theorem direct_branch_single_time_partial (g : Grids G) (steps tobs : List G)
    (hb : branchTime g steps tobs 2 = .direct) (hlen : tobs.length = 1) :
    ∃ T, steps.getLast? = some T ∧ tobs = [T] := by
  obtain ⟨T, hT, hall⟩ := (allFinal_iff steps tobs).mp ((direct_branch_iff g steps tobs 2).mp hb).2
  refine ⟨T, hT, ?_⟩
  match tobs, hlen with
  | [t], _ => simp [hall t (by simp)]

/-- what an interpolation routine must do at coinciding nodes and times -/
def Reproduces (interp : List G → List G → List (List G) → List G → List G → Except Err (List (List G))) : Prop :=
  ∀ gs steps U go tobs W, interp gs steps U go tobs = .ok W →
    ∀ a b i j x t, go[a]? = some x → gs[i]? = some x → tobs[b]? = some t → steps[j]? = some t →
      (W.getD a []).getD b 0 = (U.getD i []).getD j 0

/-- **observe_coinciding.**  On the interpolation branch, with any interpolant that reproduces its
    data, the pre-map observation at an observation node/time that coincides with a solution
    node/time is the stored solution value. -/
theorem observe_coinciding (g : Grids G) (gs go : List G) (hs : g.sol = some gs) (ho : g.obs = some go)
    (steps tobs : List G) (hb : branchTime g steps tobs 2 = .interp) (U : List (List G))
    (interp : List G → List G → List (List G) → List G → List G → Except Err (List (List G)))
    (hI : Reproduces interp) (arr : Arr G) (h : preObserveTime g steps tobs U interp = .ok arr) :
    ∃ W, arr = .mat W ∧ ∀ a b i j x t, go[a]? = some x → gs[i]? = some x → tobs[b]? = some t →
      steps[j]? = some t → (W.getD a []).getD b 0 = (U.getD i []).getD j 0 := by
  simp only [preObserveTime, hb, hs, ho] at h
  cases hW : interp gs steps U go tobs with
  | error e => rw [hW] at h; simp [Except.map] at h
  | ok W =>
    rw [hW] at h
    simp only [Except.map, Except.ok.injEq] at h
    exact ⟨W, h.symm, hI gs steps U go tobs W hW⟩

lemma indexOf?_eq_of_nodup (l : List G) (hl : l.Nodup) (i : ℕ) (x : G) (h : l[i]? = some x) :
    indexOf? l x = some i := by
  unfold indexOf?
  have hi : i < l.length := by
    by_contra hc
    simp [List.getElem?_eq_none (Nat.le_of_not_lt hc)] at h
  have hx : l[i] = x := by
    rw [List.getElem?_eq_getElem hi] at h
    simpa using h
  have hfind : l.findIdx (fun y => decide (y = x)) = i := by
    rw [List.findIdx_eq hi]
    refine ⟨by simp [hx], ?_⟩
    intro j hji
    have hj : j < l.length := lt_trans hji hi
    simp only [decide_eq_false_iff_not]
    intro hjx
    have : j = i := (List.Nodup.getElem_inj_iff hl).mp (hjx.trans hx.symm)
    omega
  simp [hfind, hi]

/-- the leaf-data interpolant the driver runs reproduces the data at coinciding nodes/times (the
    grids having pairwise distinct nodes) — i.e. it is an admissible instance of `Reproduces` -/
theorem tableInterp2_reproduces (W : List (List G)) (gs steps : List G) (hg : gs.Nodup) (ht : steps.Nodup)
    (U : List (List G)) (go tobs : List G) (V : List (List G))
    (h : tableInterp2 W gs steps U go tobs = .ok V) :
    ∀ a b i j x t, go[a]? = some x → gs[i]? = some x → tobs[b]? = some t → steps[j]? = some t →
      (V.getD a []).getD b 0 = (U.getD i []).getD j 0 := by
  intro a b i j x t ha hi hb hj
  simp only [tableInterp2, Except.ok.injEq] at h
  subst h
  have ha' : a < go.length := by
    by_contra hc; simp [List.getElem?_eq_none (Nat.le_of_not_lt hc)] at ha
  have hb' : b < tobs.length := by
    by_contra hc; simp [List.getElem?_eq_none (Nat.le_of_not_lt hc)] at hb
  obtain ⟨_, hga'⟩ := List.getElem?_eq_some_iff.mp ha
  obtain ⟨_, htb'⟩ := List.getElem?_eq_some_iff.mp hb
  simp [List.getD_eq_getElem?_getD, ha', hb', hga', htb',
    indexOf?_eq_of_nodup gs hg i x hi, indexOf?_eq_of_nodup steps ht j t hj]

/-- steady state: with the flag set nothing is interpolated; otherwise (with an interpolant that
    reproduces its data) coinciding nodes carry the stored solution value -/
theorem observe_steady_direct (g : Grids G) (he : g.equal = true) (u : List G)
    (interp : List G → List G → List G → Except Err (List G)) (om : ObsMap G) :
    observeSteady g u interp om = om.apply (.vec u) := by
  unfold observeSteady
  simp [he]

theorem tableInterp1_reproduces (W gs : List G) (hg : gs.Nodup) (u go V : List G)
    (h : tableInterp1 W gs u go = .ok V) :
    ∀ a i x, go[a]? = some x → gs[i]? = some x → V.getD a 0 = u.getD i 0 := by
  intro a i x ha hi
  simp only [tableInterp1, Except.ok.injEq] at h
  subst h
  have ha' : a < go.length := by
    by_contra hc; simp [List.getElem?_eq_none (Nat.le_of_not_lt hc)] at ha
  obtain ⟨_, hga'⟩ := List.getElem?_eq_some_iff.mp ha
  simp [List.getD_eq_getElem?_getD, ha', hga', indexOf?_eq_of_nodup gs hg i x hi]

/-- the observation is a function of the LIST `grid_obs`: one entry per observation point, in the
    order given, repeated points repeated (no sorting or de-duplication of the points) -/
theorem tableInterp1_length (W gs u go V : List G) (h : tableInterp1 W gs u go = .ok V) :
    V.length = go.length := by
  simp only [tableInterp1, Except.ok.injEq] at h
  subst h
  simp

theorem tableInterp2_shape (W : List (List G)) (gs steps : List G) (U : List (List G)) (go tobs : List G)
    (V : List (List G)) (h : tableInterp2 W gs steps U go tobs = .ok V) :
    V.length = go.length ∧ ∀ r ∈ V, r.length = tobs.length := by
  simp only [tableInterp2, Except.ok.injEq] at h
  subst h
  constructor
  · simp
  · intro r hr
    simp only [List.mem_map, List.mem_range] at hr
    obtain ⟨a, _, rfl⟩ := hr
    simp

/-- the observation map is applied to the restricted solution, and the time axis is squeezed away
    afterwards, iff there is exactly one observation time -/
theorem observe_map_then_squeeze (g : Grids G) (steps tobs : List G) (U : List (List G))
    (interp : List G → List G → List (List G) → List G → List G → Except Err (List (List G)))
    (om : ObsMap G) (a b : Arr G) (hpre : preObserveTime g steps tobs U interp = .ok a)
    (hmap : om.apply a = .ok b) :
    observeTime g steps tobs U interp om = .ok (if tobs.length = 1 then squeeze b else b) := by
  unfold observeTime
  simp [hpre, hmap]

end observe

/-- **Known finding (witness).**  Equal grids, time grid `[0, 1]`, `time_obs = [1, 1]`: the code
    takes the no-interpolation branch and returns the single final column `[2, 4]` (shape `(2,)`),
    whereas the solution restricted to the two requested times is `[[2, 2], [4, 4]]` (shape
    `(2, 2)`) — which is what the same call returns as soon as one of the two times differs. -/
theorem observe_repeated_final_time_counterexample :
    let g : Grids ℤ := Grids.init (some [0, 1]) none
    let U : List (List ℤ) := [[1, 2], [3, 4]]
    observeTime g [0, 1] [1, 1] U (tableInterp2 []) .ident = .ok (.vec [2, 4])
    ∧ (Arr.vec [2, 4] : Arr ℤ).shape = [2]
    ∧ observeTime g [0, 1] [0, 1] U (tableInterp2 []) .ident = .ok (.mat [[1, 2], [3, 4]])
    ∧ (Arr.mat [[1, 2], [3, 4]] : Arr ℤ).shape = [2, [1, 1].length] := by
  decide

/-! ## 6. `PDEModel` -/

/-- **pipeline_eq.**  The model's forward map is observe ∘ (first component of) solve ∘ assemble,
    for any PDE object. -/
theorem pipeline_eq {P S O I : Type} (pde : PDEObj P S O I) (x : P) :
    pdeModelForward pde x = (pde.solveFor x).bind fun r => pde.observe r.1 := by
  unfold pdeModelForward
  cases pde.solveFor x with
  | error e => rfl
  | ok r => rfl

/-- the `info` of the solve has no influence on the model output -/
theorem pipeline_ignores_info {P S O I J : Type} (pde₁ : PDEObj P S O I) (pde₂ : PDEObj P S O J) (x : P)
    (hsol : (pde₁.solveFor x).map (·.1) = (pde₂.solveFor x).map (·.1)) (hobs : pde₁.observe = pde₂.observe) :
    pdeModelForward pde₁ x = pdeModelForward pde₂ x := by
  unfold pdeModelForward
  cases h1 : pde₁.solveFor x with
  | error e1 =>
    cases h2 : pde₂.solveFor x with
    | error e2 => rw [h1, h2] at hsol; simpa [Except.map] using hsol
    | ok r2 => rw [h1, h2] at hsol; simp [Except.map] at hsol
  | ok r1 =>
    cases h2 : pde₂.solveFor x with
    | error e2 => rw [h1, h2] at hsol; simp [Except.map] at hsol
    | ok r2 =>
      rw [h1, h2] at hsol
      have : r1.1 = r2.1 := by simpa [Except.map] using hsol
      simp [this, hobs]

/-- **gradient_dispatch.**  `gradient_wrt_parameter` is used when the PDE has it (even if it also has
    a Jacobian); otherwise `direction @ jacobian_wrt_parameter(wrt)`; otherwise `NotImplementedError`. -/
theorem gradient_dispatch (m : ℕ) (gw : Vec R → Vec R → Vec R) (J : Vec R → Mat R) (jo : Option (Vec R → Mat R))
    (dir wrt : Vec R) :
    gradientFunc m ⟨some gw, jo⟩ dir wrt = .ok (gw dir wrt)
    ∧ gradientFunc m ⟨none, some J⟩ dir wrt = .ok (vecMul m dir (J wrt))
    ∧ gradientFunc m (⟨none, none⟩ : GradCaps R) dir wrt = .error .notImplemented :=
  ⟨rfl, rfl, rfl⟩

/-- with a Jacobian the returned vector is `Jᵀ·direction`: paired with any increment `h` of the
    parameter it gives the direction paired with the linearised change `J h` of the model output —
    i.e. it is the gradient of `x ↦ ⟨direction, forward x⟩` whenever `J` is the Jacobian of the
    assemble–solve–observe pipeline -/
theorem gradient_jacobian_is_adjoint (m k : ℕ) (J : Mat R) (dir h : Vec R) :
    ∑ j ∈ range k, vecMul m dir J j * h j = ∑ i ∈ range m, dir i * ∑ j ∈ range k, J i j * h j := by
  simp only [vecMul_eq, Finset.sum_mul, Finset.mul_sum]
  rw [Finset.sum_comm]
  exact Finset.sum_congr rfl fun i _ => Finset.sum_congr rfl fun j _ => by ring

example : gradientFunc 2 ⟨none, some fun _ => fun i j => if i = j then (2 : ℤ) else 1⟩ (fun i => (i : ℤ) + 1) (fun _ => 0)
    = .ok (vecMul 2 (fun i => (i : ℤ) + 1) fun i j => if i = j then 2 else 1) := rfl

end CuqiVerif.C18
