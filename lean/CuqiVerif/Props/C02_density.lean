import CuqiVerif.Proofs.C02_density
import Mathlib.Probability.Distributions.Gaussian.Real
import Mathlib.MeasureTheory.Integral.Lebesgue.Countable
import Mathlib.MeasureTheory.Measure.Count

/-!
# C02 — `mh_reversible_density`: Metropolis–Hastings on general measurable state spaces

The finite-state theorems of `Props/C02.lean` (`mh_reversible_fintype`, `mhKernel_isReversible`,
`mhKernel_invariant`) lifted to an arbitrary measurable space `X` with an s-finite (in particular
σ-finite) reference measure `lam`, a measurable target density `π ≥ 0`, and a proposal with a
jointly measurable density `q(x,y) ≥ 0`, `∫ q(x,·) dlam = 1`.

Definitions (in `Proofs/C02_density.lean`; `mhAlphaD` is the generic version of the finite-state
`mhAlpha`, and the acceptance rule is the one whose `log` form the executable model's `accepts`
tests — see `mhAlphaD_log_form`):

* `mhAlphaD π q x y = min 1 (π y q(y,x) / (π x q(x,y)))` (`= 0` where the denominator vanishes),
* `accKernel lam q a x = (q(x,·) a(x,·)) • lam + (1 − ∫ q a dlam) • δ_x` as a Mathlib `Kernel X X`
  (`Kernel.withDensity` of `Kernel.const lam` plus `Kernel.withDensity` of `Kernel.id`),
* `mhKernelD lam π q = accKernel lam q (mhAlphaD π q)`, `targetMeasure lam π = π • lam`,
* `mhKernelR ρ π q`: the same with a reference KERNEL `ρ` (proposal `q(x,·) • ρ(x,·)`), which covers
  one-block / one-coordinate updates (`blockRef`, `coordRef`, `cwKernel`) and proposals that are
  reversible w.r.t. the prior (pCN); `mhKernelD lam = mhKernelR (const lam)` by `rfl`.

The full-strength goal (`mhKernelD_isMarkov`, `mh_reversible_density`, `mh_invariant_density`,
compositions `mh_comp_invariant_density` / `sweep_invariant`, mixtures `mixKernel_*`) is proved
without extra hypotheses: only measurability of `π` and of `(x,y) ↦ q(x,y)`, `π ≥ 0`, `q ≥ 0`, and
`∫ q(x,·) = 1` for the Markov / invariance parts.  Instances for the proposal mechanisms of CUQIpy:
`rwmh_gaussian_invariant` (MH), `cwmh_gaussian_sweep_invariant` (CWMH), `mala_invariant_density`
(MALA), `pcn_1d_invariant` + `mh_reversible_of_reversible_proposal` (pCN).

NOT proved here (statements kept visible, none of them is a `sorry`):

* pCN in dimension > 1 / on a Hilbert space:
  `(Q_pcn a s C).IsReversible (N(0, C))` for `Q_pcn a s C x = N(a • x, s² C)`, `a² + s² = 1`.
  It is the hypothesis `hQ` of `mh_reversible_of_reversible_proposal`; proved for `ℝ`, `C = 1`
  (`pcnProposal1_isReversible`), the pointwise algebra for any `C` is `pcn_ratio`.
* the kernel as the law of the executable step under its random inputs:
  `mhKernelD volume (exp ∘ ℓ) (rwDens s²) x A = (N(0,I) ⊗ U(0,1]) {(ξ,u) | step x ξ u ∈ A}` with
  `step x ξ u = if log u ≤ min 0 (ℓ(x+sξ) − ℓ x) then x+sξ else x`.  Proved are the two factors:
  `rw_proposal_law_1d` (law of `x + sξ` has density `gaussianPDFReal x s²`, per coordinate) and
  `accept_event_measure_eq_mhAlphaD` (the `u`-event has measure `α(x,y)`); the frame theorems of
  `Props/C02.lean` say the state is `y` on acceptance and `x` otherwise.
-/

namespace CuqiVerif.C02

open MeasureTheory ProbabilityTheory Set
open scoped ENNReal

section general
variable {X : Type*} [MeasurableSpace X]

/-- **The kernel is what the textbook says.** For every measurable `A`,
    `K(x, A) = ∫_A q(x,y) α(x,y) lam(dy) + r(x) 1_A(x)` with `r(x) = 1 − ∫ q(x,y) α(x,y) lam(dy)`:
    an accepted move has density `q·α`, the remaining mass stays at `x` (the code returns the
    state unchanged on rejection: `metropolis_frame`). -/
theorem mhKernelD_apply (lam : Measure X) [SFinite lam] (π : X → ℝ) (q : X → X → ℝ)
    (hπ : Measurable π) (hq : Measurable (Function.uncurry q)) (x : X) {A : Set X} (hA : MeasurableSet A) :
    mhKernelD lam π q x A
      = ∫⁻ y in A, ENNReal.ofReal (q x y * mhAlphaD π q x y) ∂lam
        + (1 - ∫⁻ y, ENNReal.ofReal (q x y * mhAlphaD π q x y) ∂lam) * A.indicator 1 x :=
  accKernel_apply lam hq (measurable_mhAlphaD hπ hq) x hA

/-- **The MH kernel is a Markov kernel** (measurability in `x` is part of being a Mathlib
    `Kernel`; total mass 1 needs `q(x,·)` to be a probability density). -/
theorem mhKernelD_isMarkov (lam : Measure X) [SFinite lam] (π : X → ℝ) (q : X → X → ℝ)
    (hπ : Measurable π) (hq : Measurable (Function.uncurry q)) (hq0 : ∀ x y, 0 ≤ q x y)
    (hq1 : ∀ x, ∫⁻ y, ENNReal.ofReal (q x y) ∂lam = 1) : IsMarkovKernel (mhKernelD lam π q) :=
  ⟨fun x => ⟨accKernel_univ lam hq (measurable_mhAlphaD hπ hq) hq0 (mhAlphaD_le_one π q) hq1 x⟩⟩

/-- **Generic acceptance rule.** Any jointly measurable acceptance function `a` that balances the
    flow, `π(x) q(x,y) a(x,y) = π(y) q(y,x) a(y,x)`, gives a kernel reversible w.r.t. `π • lam`
    (Metropolis–Hastings, Barker, … ; `q` need not be normalised here). -/
theorem accKernel_isReversible (lam : Measure X) [SFinite lam] (π : X → ℝ) (q a : X → X → ℝ)
    (hπ : Measurable π) (hq : Measurable (Function.uncurry q)) (ha : Measurable (Function.uncurry a))
    (hπ0 : ∀ x, 0 ≤ π x) (hbal : ∀ x y, π x * q x y * a x y = π y * q y x * a y x) :
    (accKernel lam q a).IsReversible (targetMeasure lam π) :=
  accKernel_isReversible' lam hπ hq ha hπ0 hbal

/-- **`mh_reversible_density`.** On an arbitrary measurable space with s-finite (e.g. σ-finite)
    reference measure, for every measurable target density `π ≥ 0` (unnormalised, zeros allowed)
    and every jointly measurable proposal density `q ≥ 0`, the Metropolis–Hastings kernel is
    reversible w.r.t. `μ = π • lam`:
    `∫_A K(x,B) μ(dx) = ∫_B K(x,A) μ(dx)` for all measurable `A, B`
    (Mathlib's `Kernel.IsReversible`).  This is the statement that makes "accept with probability
    `min(1, π(y)q(y,x)/(π(x)q(x,y)))`, else stay" — the rule every CUQIpy Metropolis kernel
    implements (`accepts_fin_iff`, `accept_measure`) — a correct sampler for `π`. -/
theorem mh_reversible_density (lam : Measure X) [SFinite lam] (π : X → ℝ) (q : X → X → ℝ)
    (hπ : Measurable π) (hq : Measurable (Function.uncurry q)) (hπ0 : ∀ x, 0 ≤ π x)
    (hq0 : ∀ x y, 0 ≤ q x y) : (mhKernelD lam π q).IsReversible (targetMeasure lam π) :=
  accKernel_isReversible' lam hπ hq (measurable_mhAlphaD hπ hq) hπ0 (mhAlphaD_balance hπ0 hq0)

/-- **`mh_invariant_density`.** Hence (`IsReversible.invariant`) the target `π • lam` is
    invariant under the MH kernel: `μ K = μ` (Mathlib's `Kernel.Invariant`). -/
theorem mh_invariant_density (lam : Measure X) [SFinite lam] (π : X → ℝ) (q : X → X → ℝ)
    (hπ : Measurable π) (hq : Measurable (Function.uncurry q)) (hπ0 : ∀ x, 0 ≤ π x)
    (hq0 : ∀ x y, 0 ≤ q x y) (hq1 : ∀ x, ∫⁻ y, ENNReal.ofReal (q x y) ∂lam = 1) :
    (mhKernelD lam π q).Invariant (targetMeasure lam π) := by
  have := mhKernelD_isMarkov lam π q hπ hq hq0 hq1
  exact (mh_reversible_density lam π q hπ hq hπ0 hq0).invariant

/-- Composition of two MH kernels for the same target with different proposals (e.g. the scale
    before / after tuning, or two different blocks) leaves the target invariant. -/
theorem mh_comp_invariant_density (lam : Measure X) [SFinite lam] (π : X → ℝ) (q₁ q₂ : X → X → ℝ)
    (hπ : Measurable π) (hπ0 : ∀ x, 0 ≤ π x)
    (hq₁ : Measurable (Function.uncurry q₁)) (hq₂ : Measurable (Function.uncurry q₂))
    (h₁0 : ∀ x y, 0 ≤ q₁ x y) (h₂0 : ∀ x y, 0 ≤ q₂ x y)
    (h₁1 : ∀ x, ∫⁻ y, ENNReal.ofReal (q₁ x y) ∂lam = 1) (h₂1 : ∀ x, ∫⁻ y, ENNReal.ofReal (q₂ x y) ∂lam = 1) :
    ((mhKernelD lam π q₁) ∘ₖ (mhKernelD lam π q₂)).Invariant (targetMeasure lam π) :=
  (mh_invariant_density lam π q₁ hπ hq₁ hπ0 h₁0 h₁1).comp (mh_invariant_density lam π q₂ hπ hq₂ hπ0 h₂0 h₂1)

/-- **Sweeps.** The composition of ANY finite list of kernels that each leave `μ` invariant
    leaves `μ` invariant (deterministic-scan sweeps such as the `for j in range(dim)` loop of
    CWMH, `cwStep_eq_fold`; the kernels need not be reversible and the sweep is not). -/
theorem sweep_invariant (μ : Measure X) (ks : List (ProbabilityTheory.Kernel X X))
    (h : ∀ κ ∈ ks, κ.Invariant μ) : (sweepKernel ks).Invariant μ := by
  induction ks with
  | nil => exact id_invariant μ
  | cons κ ks ih =>
    exact (h κ (List.mem_cons_self ..)).comp (ih (fun η hη => h η (List.mem_cons_of_mem _ hη)))

/-- Sweep of MH kernels with a list of proposal densities: invariant. -/
theorem mh_sweep_invariant_density (lam : Measure X) [SFinite lam] (π : X → ℝ) (qs : List (X → X → ℝ))
    (hπ : Measurable π) (hπ0 : ∀ x, 0 ≤ π x)
    (hq : ∀ q ∈ qs, Measurable (Function.uncurry q) ∧ (∀ x y, 0 ≤ q x y) ∧
      ∀ x, ∫⁻ y, ENNReal.ofReal (q x y) ∂lam = 1) :
    (sweepKernel (qs.map (mhKernelD lam π))).Invariant (targetMeasure lam π) := by
  apply sweep_invariant
  intro κ hκ
  obtain ⟨q, hqm, rfl⟩ := List.mem_map.1 hκ
  obtain ⟨h1, h2, h3⟩ := hq q hqm
  exact mh_invariant_density lam π q hπ h1 hπ0 h2 h3

variable {ι : Type*} [Fintype ι]

/-- **Finite mixtures (random scan): invariance.** `Σ_i w_i κ_i` with `Σ w_i = 1` leaves `μ`
    invariant when every `κ_i` does. -/
theorem mixKernel_invariant (μ : Measure X) (w : ι → ℝ≥0∞) (κ : ι → ProbabilityTheory.Kernel X X)
    [∀ i, IsSFiniteKernel (κ i)] (hw : ∑ i, w i = 1) (h : ∀ i, (κ i).Invariant μ) :
    (mixKernel w κ).Invariant μ := by
  unfold ProbabilityTheory.Kernel.Invariant
  ext s hs
  rw [Measure.bind_apply hs (ProbabilityTheory.Kernel.aemeasurable _)]
  simp_rw [mixKernel_apply]
  rw [lintegral_finsetSum _ (fun i _ => (ProbabilityTheory.Kernel.measurable_coe (κ i) hs).const_mul (w i))]
  have : ∀ i, ∫⁻ x, w i * κ i x s ∂μ = w i * μ s := by
    intro i
    rw [lintegral_const_mul _ (ProbabilityTheory.Kernel.measurable_coe (κ i) hs),
      ← Measure.bind_apply hs (ProbabilityTheory.Kernel.aemeasurable _), (h i).def]
  simp_rw [this]
  rw [← Finset.sum_mul, hw, one_mul]

/-- **Finite mixtures: reversibility** is preserved as well (any weights). -/
theorem mixKernel_isReversible (μ : Measure X) (w : ι → ℝ≥0∞) (κ : ι → ProbabilityTheory.Kernel X X)
    [∀ i, IsSFiniteKernel (κ i)] (h : ∀ i, (κ i).IsReversible μ) : (mixKernel w κ).IsReversible μ := by
  intro A B hA hB
  simp_rw [mixKernel_apply]
  rw [lintegral_finsetSum _ (fun i _ => (ProbabilityTheory.Kernel.measurable_coe (κ i) hB).const_mul (w i)),
    lintegral_finsetSum _ (fun i _ => (ProbabilityTheory.Kernel.measurable_coe (κ i) hA).const_mul (w i))]
  refine Finset.sum_congr rfl (fun i _ => ?_)
  rw [lintegral_const_mul _ (ProbabilityTheory.Kernel.measurable_coe (κ i) hB),
    lintegral_const_mul _ (ProbabilityTheory.Kernel.measurable_coe (κ i) hA), h i hA hB]

/-- a mixture of Markov kernels with weights summing to one is a Markov kernel -/
theorem mixKernel_isMarkov (w : ι → ℝ≥0∞) (κ : ι → ProbabilityTheory.Kernel X X)
    [∀ i, IsMarkovKernel (κ i)] (hw : ∑ i, w i = 1) : IsMarkovKernel (mixKernel w κ) :=
  ⟨fun x => ⟨by rw [mixKernel_apply]; simp [hw]⟩⟩

end general

/-! ## proposals that have a density w.r.t. a reference KERNEL (blocks, coordinates, pCN-type) -/

section reference
variable {X : Type*} [MeasurableSpace X]

/-- **Reversibility for a symmetric reference kernel.**  If `lam(dx) ρ(x,dy)` is symmetric under
    `(x,y) ↦ (y,x)` (`SymmRef`; e.g. `ρ = const lam` by Tonelli, a one-block / one-coordinate
    reference, or any proposal kernel reversible w.r.t. `lam` such as the pCN proposal w.r.t. the
    Gaussian prior), then the MH kernel with proposal `q(x,·) • ρ(x,·)` and target `π • lam` is
    reversible.  `mh_reversible_density` is the instance `ρ = const lam`. -/
theorem mhKernelR_isReversible {lam : Measure X} {ρ : ProbabilityTheory.Kernel X X} [IsSFiniteKernel ρ]
    (hρ : SymmRef lam ρ) (π : X → ℝ) (q : X → X → ℝ)
    (hπ : Measurable π) (hq : Measurable (Function.uncurry q)) (hπ0 : ∀ x, 0 ≤ π x)
    (hq0 : ∀ x y, 0 ≤ q x y) : (mhKernelR ρ π q).IsReversible (targetMeasure lam π) :=
  accKernelR_isReversible' hρ hπ hq (measurable_mhAlphaD hπ hq) hπ0 (mhAlphaD_balance hπ0 hq0)

/-- … it is a Markov kernel when `q(x,·)` is a probability density w.r.t. `ρ(x,·)` … -/
theorem mhKernelR_isMarkov (ρ : ProbabilityTheory.Kernel X X) [IsSFiniteKernel ρ] (π : X → ℝ)
    (q : X → X → ℝ) (hπ : Measurable π) (hq : Measurable (Function.uncurry q)) (hq0 : ∀ x y, 0 ≤ q x y)
    (hq1 : ∀ x, ∫⁻ y, ENNReal.ofReal (q x y) ∂ρ x = 1) : IsMarkovKernel (mhKernelR ρ π q) :=
  ⟨fun x => ⟨accKernelR_univ ρ hq (measurable_mhAlphaD hπ hq) hq0 (mhAlphaD_le_one π q) hq1 x⟩⟩

/-- … and then leaves `π • lam` invariant. -/
theorem mhKernelR_invariant {lam : Measure X} {ρ : ProbabilityTheory.Kernel X X} [IsSFiniteKernel ρ]
    (hρ : SymmRef lam ρ) (π : X → ℝ) (q : X → X → ℝ)
    (hπ : Measurable π) (hq : Measurable (Function.uncurry q)) (hπ0 : ∀ x, 0 ≤ π x)
    (hq0 : ∀ x y, 0 ≤ q x y) (hq1 : ∀ x, ∫⁻ y, ENNReal.ofReal (q x y) ∂ρ x = 1) :
    (mhKernelR ρ π q).Invariant (targetMeasure lam π) := by
  have := mhKernelR_isMarkov ρ π q hπ hq hq0 hq1
  exact (mhKernelR_isReversible hρ π q hπ hq hπ0 hq0).invariant

/-- the classical case is an instance (definitional) -/
theorem mhKernelD_eq_mhKernelR (lam : Measure X) [SFinite lam] (π : X → ℝ) (q : X → X → ℝ) :
    mhKernelD lam π q = mhKernelR (ProbabilityTheory.Kernel.const X lam) π q := rfl

/-- **One-block update (Metropolis-within-Gibbs) on a product space `Y × Z`:** the first block is
    proposed from a density w.r.t. `lamY` (which may depend on the whole current state), the second
    block is kept; reversible w.r.t. `π • (lamY ⊗ lamZ)`. -/
theorem mh_block_reversible_density {Y Z : Type*} [MeasurableSpace Y] [MeasurableSpace Z]
    (lamY : Measure Y) [SFinite lamY] (lamZ : Measure Z) [SFinite lamZ]
    (π : Y × Z → ℝ) (q : Y × Z → Y × Z → ℝ)
    (hπ : Measurable π) (hq : Measurable (Function.uncurry q)) (hπ0 : ∀ x, 0 ≤ π x)
    (hq0 : ∀ x y, 0 ≤ q x y) :
    (mhKernelR (blockRef lamY) π q).IsReversible (targetMeasure (lamY.prod lamZ) π) :=
  mhKernelR_isReversible (symmRef_block lamY lamZ) π q hπ hq hπ0 hq0

end reference

/-! ## component-wise Metropolis–Hastings on `ℝ^(n+1)` (the CWMH loop) -/

section cwmh
variable {n : ℕ}

/-- **What one CWMH iteration does, as a kernel.** With `x[j := t] = Function.update x j t`:
    `K_j(x, A) = ∫ 1_A(x[j:=t]) q(x, x[j:=t]) α(x, x[j:=t]) dt + r(x) 1_A(x)` — the proposal
    differs from `x` in coordinate `j` only (`cwmh_component`), accepted with the MH probability. -/
theorem cwKernel_apply (j : Fin (n + 1)) (π : (Fin (n + 1) → ℝ) → ℝ)
    (q : (Fin (n + 1) → ℝ) → (Fin (n + 1) → ℝ) → ℝ) (hπ : Measurable π)
    (hq : Measurable (Function.uncurry q)) (x : Fin (n + 1) → ℝ) {A : Set (Fin (n + 1) → ℝ)}
    (hA : MeasurableSet A) :
    cwKernel j π q x A
      = (∫⁻ t, A.indicator (fun y => ENNReal.ofReal (q x y * mhAlphaD π q x y)) (Function.update x j t))
        + (1 - ∫⁻ t, ENNReal.ofReal (q x (Function.update x j t) * mhAlphaD π q x (Function.update x j t)))
          * A.indicator 1 x := by
  have ha := measurable_mhAlphaD hπ hq
  have hm : Measurable (fun y => moveDens q (mhAlphaD π q) x y) :=
    (measurable_moveDens hq ha).comp measurable_prodMk_left
  unfold cwKernel mhKernelR
  rw [accKernelR_apply _ hq ha x hA, ← lintegral_indicator hA, lintegral_coordRef j x (hm.indicator hA)]
  unfold rejProbR
  rw [lintegral_coordRef j x hm]
  rfl

/-- **`cwmh_reversible_density`.** Every single-coordinate MH kernel on `ℝ^(n+1)` — any measurable
    target density `π ≥ 0` w.r.t. Lebesgue measure, any jointly measurable proposal density
    `q ≥ 0` for the new coordinate — is reversible w.r.t. `π • volume`. -/
theorem cwmh_reversible_density (j : Fin (n + 1)) (π : (Fin (n + 1) → ℝ) → ℝ)
    (q : (Fin (n + 1) → ℝ) → (Fin (n + 1) → ℝ) → ℝ) (hπ : Measurable π)
    (hq : Measurable (Function.uncurry q)) (hπ0 : ∀ x, 0 ≤ π x) (hq0 : ∀ x y, 0 ≤ q x y) :
    (cwKernel j π q).IsReversible (targetMeasure volume π) :=
  mhKernelR_isReversible (symmRef_coord j) π q hπ hq hπ0 hq0

/-- a single-coordinate MH kernel is a Markov kernel when `t ↦ q(x, x[j:=t])` is a probability
    density on `ℝ` for every `x` -/
theorem cwKernel_isMarkov (j : Fin (n + 1)) (π : (Fin (n + 1) → ℝ) → ℝ)
    (q : (Fin (n + 1) → ℝ) → (Fin (n + 1) → ℝ) → ℝ) (hπ : Measurable π)
    (hq : Measurable (Function.uncurry q)) (hq0 : ∀ x y, 0 ≤ q x y)
    (hq1 : ∀ x, ∫⁻ t, ENNReal.ofReal (q x (Function.update x j t)) = 1) :
    IsMarkovKernel (cwKernel j π q) := by
  apply mhKernelR_isMarkov _ π q hπ hq hq0
  intro x
  have := lintegral_coordRef j x (g := fun y => ENNReal.ofReal (q x y))
    ((hq.comp measurable_prodMk_left).ennreal_ofReal)
  rw [this]
  exact hq1 x

/-- **`cwmh_sweep_invariant_density`.** The deterministic sweep over ANY list of coordinates
    (CUQIpy: `for j in range(dim)`, `cwStep_eq_fold`) of single-coordinate MH kernels, each with
    its own proposal density (per-component scales), leaves `π • volume` invariant. -/
theorem cwmh_sweep_invariant_density (js : List (Fin (n + 1))) (π : (Fin (n + 1) → ℝ) → ℝ)
    (q : Fin (n + 1) → (Fin (n + 1) → ℝ) → (Fin (n + 1) → ℝ) → ℝ) (hπ : Measurable π)
    (hπ0 : ∀ x, 0 ≤ π x) (hq : ∀ j, Measurable (Function.uncurry (q j))) (hq0 : ∀ j x y, 0 ≤ q j x y)
    (hq1 : ∀ j x, ∫⁻ t, ENNReal.ofReal (q j x (Function.update x j t)) = 1) :
    (sweepKernel (js.map (fun j => cwKernel j π (q j)))).Invariant (targetMeasure volume π) := by
  apply sweep_invariant
  intro κ hκ
  obtain ⟨j, _, rfl⟩ := List.mem_map.1 hκ
  have := cwKernel_isMarkov j π (q j) hπ (hq j) (hq0 j) (hq1 j)
  exact (cwmh_reversible_density j π (q j) hπ (hq j) hπ0 (hq0 j)).invariant

/-- Random-scan variant (coordinate `j` chosen with probability `w j`): reversible, and invariant
    when the weights sum to one (`mixKernel_invariant`). -/
theorem cwmh_random_scan_reversible (w : Fin (n + 1) → ℝ≥0∞) (π : (Fin (n + 1) → ℝ) → ℝ)
    (q : Fin (n + 1) → (Fin (n + 1) → ℝ) → (Fin (n + 1) → ℝ) → ℝ) (hπ : Measurable π)
    (hπ0 : ∀ x, 0 ≤ π x) (hq : ∀ j, Measurable (Function.uncurry (q j))) (hq0 : ∀ j x y, 0 ≤ q j x y) :
    (mixKernel w (fun j => cwKernel j π (q j))).IsReversible (targetMeasure volume π) :=
  mixKernel_isReversible _ w _ (fun j => cwmh_reversible_density j π (q j) hπ (hq j) hπ0 (hq0 j))

end cwmh

/-! ## the acceptance function is the one the code evaluates in log form -/

section logform
variable {X : Type*}

/-- For a symmetric positive proposal density the MH probability is `min(1, π(y)/π(x))`
    (MH, CWMH, and — after `pcn_ratio` — pCN use the target / likelihood difference only). -/
theorem mhAlphaD_of_symm (π : X → ℝ) (q : X → X → ℝ) (x y : X) (hs : q x y = q y x) (hp : 0 < q x y) :
    mhAlphaD π q x y = min 1 (π y / π x) := by
  unfold mhAlphaD
  rw [← hs, mul_div_mul_right _ _ hp.ne']

/-- **Log form.** With `π = exp ∘ ℓ` and positive proposal densities the MH probability is
    `min(1, exp(ℓ(y) − ℓ(x) + log q(y,x) − log q(x,y)))` — the quantity whose logarithm the
    executable model compares with `log u` (`mhStep_accept_iff`: `Δℓ`; `malaStep_accept_iff`:
    `Δℓ + logq(x|x*) − logq(x*|x)`). -/
theorem mhAlphaD_log_form (ℓ : X → ℝ) (q : X → X → ℝ) (x y : X) (hxy : 0 < q x y) (hyx : 0 < q y x) :
    mhAlphaD (fun z => Real.exp (ℓ z)) q x y
      = min 1 (Real.exp (ℓ y - ℓ x + (Real.log (q y x) - Real.log (q x y)))) := by
  unfold mhAlphaD
  congr 1
  rw [Real.exp_add, Real.exp_sub, Real.exp_sub, Real.exp_log hxy, Real.exp_log hyx]
  field_simp

/-- **The event the code tests has the probability the kernel uses.** For `u` uniform on `(0,1]`,
    `P(log u ≤ min(0, Δℓ + log q(y,x) − log q(x,y))) = α(x,y)`, the acceptance function of
    `mhKernelD` / `mhKernelR` / `cwKernel` for the target `exp ∘ ℓ` (`accept_measure` +
    `mhAlphaD_log_form`); the event is exactly `accepts_fin_iff`'s. -/
theorem accept_event_measure_eq_mhAlphaD (ℓ : X → ℝ) (q : X → X → ℝ) (x y : X) (hxy : 0 < q x y)
    (hyx : 0 < q y x) :
    volume {u : ℝ | u ∈ Ioc (0:ℝ) 1 ∧
        Real.log u ≤ min 0 (ℓ y - ℓ x + (Real.log (q y x) - Real.log (q x y)))}
      = ENNReal.ofReal (mhAlphaD (fun z => Real.exp (ℓ z)) q x y) := by
  rw [accept_measure, mhAlphaD_log_form ℓ q x y hxy hyx]

example : mhAlphaD (fun z : ℝ => Real.exp (-(z ^ 2))) (fun _ _ => 1) 0 1 = min 1 (Real.exp (-1)) := by
  rw [mhAlphaD_log_form (fun z => -(z ^ 2)) (fun _ _ => 1) 0 1 one_pos one_pos]; norm_num

end logform

/-! ## Gaussian random-walk proposals: the kernels CUQIpy's `MH` and `CWMH` implement -/

section gaussian
open scoped NNReal
variable {ι : Type*} [Fintype ι]

/-- **Random-walk Metropolis on `ℝ^ι`** (`MH`: `x* = x + s·ξ`, `ξ ~ N(0, I)`, `v = s²`, any
    dimension, any scale `s ≠ 0`, any measurable unnormalised target density `π ≥ 0`): the kernel
    is Markov, reversible w.r.t. `π • volume`, and leaves it invariant; since the proposal is
    symmetric the acceptance probability is `min(1, π(y)/π(x))`, i.e. `log u ≤ min(0, Δ log π)`. -/
theorem rwmh_gaussian_invariant (π : (ι → ℝ) → ℝ) (hπ : Measurable π) (hπ0 : ∀ x, 0 ≤ π x)
    {v : ℝ≥0} (hv : v ≠ 0) :
    IsMarkovKernel (mhKernelD volume π (rwDens v)) ∧
    (mhKernelD volume π (rwDens v)).IsReversible (targetMeasure volume π) ∧
    (mhKernelD volume π (rwDens v)).Invariant (targetMeasure volume π) ∧
    ∀ x y, mhAlphaD π (rwDens v) x y = min 1 (π y / π x) :=
  ⟨mhKernelD_isMarkov volume π _ hπ (measurable_rwDens v) (rwDens_nonneg v) (lintegral_rwDens hv),
   mh_reversible_density volume π _ hπ (measurable_rwDens v) hπ0 (rwDens_nonneg v),
   mh_invariant_density volume π _ hπ (measurable_rwDens v) hπ0 (rwDens_nonneg v) (lintegral_rwDens hv),
   fun x y => mhAlphaD_of_symm π _ x y (rwDens_symm v x y) (rwDens_pos hv x y)⟩

/-- Random-walk Metropolis before and after tuning (two different scales) composed: invariant. -/
theorem rwmh_gaussian_retuned_invariant (π : (ι → ℝ) → ℝ) (hπ : Measurable π) (hπ0 : ∀ x, 0 ≤ π x)
    {v₁ v₂ : ℝ≥0} (h₁ : v₁ ≠ 0) (h₂ : v₂ ≠ 0) :
    ((mhKernelD volume π (rwDens v₁)) ∘ₖ (mhKernelD volume π (rwDens v₂))).Invariant
      (targetMeasure volume π) :=
  mh_comp_invariant_density volume π _ _ hπ hπ0 (measurable_rwDens v₁) (measurable_rwDens v₂)
    (rwDens_nonneg v₁) (rwDens_nonneg v₂) (lintegral_rwDens h₁) (lintegral_rwDens h₂)

/-- **MALA on `ℝ^ι`** (`x* = x + (ε/2)·g(x) + √ε·ξ`, any dimension, any `ε ≠ 0`, ANY measurable
    drift field `g` — correctness does not depend on `g` being the exact gradient, only on the same
    `g` being used in both directions, which is what `malaStep` does with the cached gradient):
    Markov, reversible w.r.t. `π • volume`, invariant; and for `π = exp ∘ ℓ` the acceptance
    probability is `min(1, exp(Δℓ + log q(x|x*) − log q(x*|x)))` with `log q` the Gaussian
    log-density `gaussLogPdf` that `mala_logq` identifies with the code's `_log_proposal`. -/
theorem mala_invariant_density (π : (ι → ℝ) → ℝ) (hπ : Measurable π) (hπ0 : ∀ x, 0 ≤ π x)
    (g : (ι → ℝ) → (ι → ℝ)) (hg : Measurable g) {ε : ℝ≥0} (hε : ε ≠ 0) :
    let m : (ι → ℝ) → (ι → ℝ) := fun x => x + ((ε : ℝ) / 2) • g x
    IsMarkovKernel (mhKernelD volume π (driftDens ε m)) ∧
    (mhKernelD volume π (driftDens ε m)).IsReversible (targetMeasure volume π) ∧
    (mhKernelD volume π (driftDens ε m)).Invariant (targetMeasure volume π) := by
  intro m
  have hm : Measurable m := by
    show Measurable (fun x : ι → ℝ => x + ((ε : ℝ) / 2) • g x)
    fun_prop
  exact ⟨mhKernelD_isMarkov volume π _ hπ (measurable_driftDens ε hm) (driftDens_nonneg ε m)
      (lintegral_driftDens hε m),
    mh_reversible_density volume π _ hπ (measurable_driftDens ε hm) hπ0 (driftDens_nonneg ε m),
    mh_invariant_density volume π _ hπ (measurable_driftDens ε hm) hπ0 (driftDens_nonneg ε m)
      (lintegral_driftDens hε m)⟩

/-- the MALA acceptance probability in the log form the code evaluates -/
theorem mala_alpha_log_form (ℓ : (ι → ℝ) → ℝ) (m : (ι → ℝ) → (ι → ℝ)) {ε : ℝ≥0} (hε : ε ≠ 0)
    (x y : ι → ℝ) :
    mhAlphaD (fun z => Real.exp (ℓ z)) (driftDens ε m) x y
      = min 1 (Real.exp (ℓ y - ℓ x
          + (gaussLogPdf ε (Fintype.card ι) (∑ i, (x i - m y i) ^ 2)
             - gaussLogPdf ε (Fintype.card ι) (∑ i, (y i - m x i) ^ 2)))) := by
  rw [mhAlphaD_log_form ℓ _ x y (driftDens_pos hε m x y) (driftDens_pos hε m y x),
    log_driftDens hε m y x, log_driftDens hε m x y]

variable {n : ℕ}

/-- **The CWMH sweep with Gaussian random-walk proposals and per-component scales**
    (`x*_j = x_j + s_j ξ_j`, `v j = s_j²`): every single-coordinate kernel is Markov and reversible
    w.r.t. `π • volume`, accepts with `min(1, π(x[j:=t])/π(x))`, and the sweep over any list of
    coordinates — in particular `0, …, n` as in the code — leaves `π • volume` invariant. -/
theorem cwmh_gaussian_sweep_invariant (π : (Fin (n + 1) → ℝ) → ℝ) (hπ : Measurable π)
    (hπ0 : ∀ x, 0 ≤ π x) (v : Fin (n + 1) → ℝ≥0) (hv : ∀ j, v j ≠ 0) (js : List (Fin (n + 1))) :
    (∀ j, IsMarkovKernel (cwKernel j π (rwCoordDens j (v j)))) ∧
    (∀ j, (cwKernel j π (rwCoordDens j (v j))).IsReversible (targetMeasure volume π)) ∧
    (∀ j x y, mhAlphaD π (rwCoordDens j (v j)) x y = min 1 (π y / π x)) ∧
    (sweepKernel (js.map (fun j => cwKernel j π (rwCoordDens j (v j))))).Invariant
      (targetMeasure volume π) :=
  ⟨fun j => cwKernel_isMarkov j π _ hπ (measurable_rwCoordDens j (v j)) (rwCoordDens_nonneg j (v j))
      (lintegral_rwCoordDens j (hv j)),
   fun j => cwmh_reversible_density j π _ hπ (measurable_rwCoordDens j (v j)) hπ0
      (rwCoordDens_nonneg j (v j)),
   fun j x y => mhAlphaD_of_symm π _ x y (rwCoordDens_symm j (v j) x y) (rwCoordDens_pos j (hv j) x y),
   cwmh_sweep_invariant_density js π (fun j => rwCoordDens j (v j)) hπ hπ0
      (fun j => measurable_rwCoordDens j (v j)) (fun j => rwCoordDens_nonneg j (v j))
      (fun j => lintegral_rwCoordDens j (hv j))⟩

/-- **The proposal mechanism has the proposal density (one coordinate).** The law of
    `x + s·ξ`, `ξ ~ N(0,1)` — what `mhPropose` / `cwPropose` compute per coordinate — is the measure
    with Lebesgue density `gaussianPDFReal x s²`, the factor of `rwDens` / `rwCoordDens`. -/
theorem rw_proposal_law_1d (x s : ℝ) (hs : s ≠ 0) :
    (gaussianReal 0 1).map (fun ξ => x + s * ξ)
      = volume.withDensity (fun y => ENNReal.ofReal (gaussianPDFReal x (.mk (s ^ 2) (sq_nonneg s)) y)) := by
  have hv : (NNReal.mk (s ^ 2) (sq_nonneg s)) ≠ 0 := by
    intro h
    have h' : s ^ 2 = 0 := congrArg NNReal.toReal h
    exact hs ((pow_eq_zero_iff (two_ne_zero)).1 h')
  have h1 : (fun ξ : ℝ => x + s * ξ) = (fun t => x + t) ∘ (fun ξ => s * ξ) := rfl
  rw [h1, ← Measure.map_map (by fun_prop) (by fun_prop), gaussianReal_map_const_mul,
    gaussianReal_map_const_add, mul_zero, zero_add, mul_one, gaussianReal_of_var_ne_zero _ hv]
  rfl

example : (gaussianReal 0 1).map (fun ξ => 3 + 2 * ξ)
    = volume.withDensity (fun y => ENNReal.ofReal (gaussianPDFReal 3 (.mk (2 ^ 2) (sq_nonneg 2)) y)) :=
  rw_proposal_law_1d 3 2 (by norm_num)

/-! ### non-vacuity: a concrete non-Gaussian target, concrete scales -/

/-- quartic (non-Gaussian, unnormalised) target on `ℝ^(n+1)`, as in the tie's scenarios -/
noncomputable def quarticTarget (n : ℕ) (x : Fin (n + 1) → ℝ) : ℝ := Real.exp (-∑ i, (x i) ^ 4)

lemma measurable_quarticTarget (n : ℕ) : Measurable (quarticTarget n) := by
  unfold quarticTarget; fun_prop

lemma quarticTarget_nonneg (n : ℕ) (x : Fin (n + 1) → ℝ) : 0 ≤ quarticTarget n x := (Real.exp_pos _).le

example : (mhKernelD volume (quarticTarget 2) (rwDens (1/4 : ℝ≥0))).Invariant
    (targetMeasure volume (quarticTarget 2)) :=
  (rwmh_gaussian_invariant (quarticTarget 2) (measurable_quarticTarget 2) (quarticTarget_nonneg 2)
    (by norm_num)).2.2.1

example : (sweepKernel ((List.finRange 3).map
      (fun j => cwKernel j (quarticTarget 2) (rwCoordDens j (![1/4, 1, 4] j))))).Invariant
    (targetMeasure volume (quarticTarget 2)) :=
  (cwmh_gaussian_sweep_invariant (quarticTarget 2) (measurable_quarticTarget 2) (quarticTarget_nonneg 2)
    ![1/4, 1, 4] (by intro j; fin_cases j <;> norm_num) (List.finRange 3)).2.2.2

/-- MALA for the quartic target with its exact gradient, `ε = 1/4` -/
example : (mhKernelD volume (quarticTarget 1)
      (driftDens (1/4 : ℝ≥0) (fun x => x + (((1/4 : ℝ≥0) : ℝ) / 2) • (fun i => -4 * (x i) ^ 3)))).Invariant
    (targetMeasure volume (quarticTarget 1)) :=
  (mala_invariant_density (quarticTarget 1) (measurable_quarticTarget 1) (quarticTarget_nonneg 1)
    (fun x i => -4 * (x i) ^ 3) (measurable_pi_lambda _ (fun i => by fun_prop)) (by norm_num)).2.2

/-- a target with a zero region (support restriction, as in the tie's scenarios) is covered:
    only measurability and `π ≥ 0` are required -/
example : (mhKernelD volume (fun x : Fin 1 → ℝ => if 0 ≤ x 0 then Real.exp (-(x 0)) else 0)
      (rwDens (1 : ℝ≥0))).IsReversible
    (targetMeasure volume (fun x : Fin 1 → ℝ => if 0 ≤ x 0 then Real.exp (-(x 0)) else 0)) :=
  mh_reversible_density volume _ _
    (Measurable.ite (measurableSet_le measurable_const (measurable_pi_apply 0)) (by fun_prop) measurable_const)
    (measurable_rwDens 1) (fun x => by positivity) (rwDens_nonneg 1)

end gaussian

/-! ## the finite-state theorems of `Props/C02.lean` are the counting-measure instance -/

section finite
variable {α : Type*} [Fintype α] [DecidableEq α] [MeasurableSpace α] [MeasurableSingletonClass α]

omit [Fintype α] [DecidableEq α] [MeasurableSpace α] [MeasurableSingletonClass α] in
/-- the acceptance function of the general kernel is the finite-state `mhAlpha` -/
theorem mhAlphaD_eq_mhAlpha (π : α → ℝ) (q : α → α → ℝ) : mhAlphaD π q = mhAlpha π q := rfl

/-- **Generalisation check.** On a finite state space with the counting measure as reference the
    general kernel `mhKernelD` IS the finite-state kernel `mhKernel` (rows of `mhMatrix`) whose
    reversibility and invariance `mhKernel_isReversible` / `mhKernel_invariant` state; the target
    `π • count` is `weightMeasure π`. -/
theorem mhKernelD_count_eq_mhKernel (π : α → ℝ) (q : α → α → ℝ) (hπ : ∀ x, 0 ≤ π x)
    (hq : ∀ x y, 0 ≤ q x y) (hrow : ∀ x, ∑ y, q x y = 1) :
    mhKernelD Measure.count π q = mhKernel π q := by
  ext x : 1
  apply Measure.ext_of_singleton
  intro y
  have hR : mhKernel π q x {y} = ENNReal.ofReal (mhMatrix π q x y) := weightMeasure_singleton _ y
  rw [hR, mhKernelD_apply Measure.count π q (Measurable.of_discrete) (Measurable.of_discrete) x
    (measurableSet_singleton y), lintegral_singleton, Measure.count_singleton, mul_one, lintegral_count,
    tsum_fintype]
  have hm0 : ∀ z, 0 ≤ q x z * mhAlphaD π q x z := fun z => mul_nonneg (hq x z) (mhAlphaD_nonneg hπ hq x z)
  have hS1 : ∑ z, q x z * mhAlphaD π q x z ≤ 1 := by
    rw [← hrow x]
    exact Finset.sum_le_sum (fun z _ => mul_le_of_le_one_right (hq x z) (mhAlphaD_le_one π q x z))
  rw [← ENNReal.ofReal_sum_of_nonneg (fun z _ => hm0 z), ← ENNReal.ofReal_one,
    ← ENNReal.ofReal_sub _ (Finset.sum_nonneg (fun z _ => hm0 z))]
  by_cases hxy : x = y
  · subst hxy
    simp only [mem_singleton_iff, indicator_of_mem, Pi.one_apply, mul_one]
    rw [← ENNReal.ofReal_add (hm0 x) (by linarith)]
    congr 1
    simp only [mhMatrix, if_true]
    rw [← Finset.add_sum_erase Finset.univ _ (Finset.mem_univ x)]
    simp only [mhAlphaD_eq_mhAlpha]
    ring
  · have hyx : x ∉ ({y} : Set α) := by simpa using hxy
    simp only [indicator_of_notMem hyx, mul_zero, add_zero, mhMatrix, hxy, if_false]
    rfl

omit [DecidableEq α] in
/-- the target measure `π • count` is the weight measure of the finite-state theorems -/
theorem targetMeasure_count_eq_weightMeasure (π : α → ℝ) :
    targetMeasure Measure.count π = weightMeasure π := by
  apply Measure.ext_of_singleton
  intro y
  classical
  rw [weightMeasure_singleton]
  unfold targetMeasure
  rw [withDensity_apply _ (measurableSet_singleton y), lintegral_singleton, Measure.count_singleton, mul_one]

example : mhKernelD Measure.count (![1, 2, 3] : Fin 3 → ℝ) (fun _ _ => 1 / 3)
    = mhKernel (![1, 2, 3] : Fin 3 → ℝ) (fun _ _ => 1 / 3) :=
  mhKernelD_count_eq_mhKernel _ _ (by intro x; fin_cases x <;> norm_num) (by intro x y; norm_num)
    (by intro x; simp)

end finite

/-! ## pCN-type kernels: proposal reversible w.r.t. the prior, likelihood-only acceptance -/

section pcnType
variable {X : Type*} [MeasurableSpace X]

/-- **Why the likelihood-only ratio of pCN is right (measure-theoretic form of `pcn_ratio`).**
    Let `μ0` be a finite measure (the Gaussian prior), `Q` ANY Markov proposal kernel that is
    reversible w.r.t. `μ0` (for pCN: `Q(x,·) = N(√(1−s²)·x, s²C)`, `μ0 = N(0,C)`; `pcn_ratio` is the
    pointwise identity behind that), and `L ≥ 0` a measurable likelihood.  Then "propose from `Q`,
    accept with `min(1, L(y)/L(x))`" is a Markov kernel, reversible w.r.t. the posterior `L • μ0`,
    and leaves it invariant — no Lebesgue density of prior or proposal is needed (function-space
    setting).  With prior mean ≠ 0 the hypothesis `hQ` fails (`pcn_not_mh_of_mean_ne_zero`). -/
theorem mh_reversible_of_reversible_proposal (μ0 : Measure X) [IsFiniteMeasure μ0]
    (Q : ProbabilityTheory.Kernel X X) [IsMarkovKernel Q] (hQ : Q.IsReversible μ0)
    (L : X → ℝ) (hL : Measurable L) (hL0 : ∀ x, 0 ≤ L x) :
    IsMarkovKernel (mhKernelR Q L (fun _ _ => 1)) ∧
    (mhKernelR Q L (fun _ _ => 1)).IsReversible (targetMeasure μ0 L) ∧
    (mhKernelR Q L (fun _ _ => 1)).Invariant (targetMeasure μ0 L) ∧
    ∀ x y, mhAlphaD L (fun _ _ => 1) x y = min 1 (L y / L x) := by
  have h1 : ∀ x, ∫⁻ _ : X, ENNReal.ofReal ((fun _ _ => (1:ℝ)) x x) ∂Q x = 1 := by intro x; simp
  exact ⟨mhKernelR_isMarkov Q L _ hL measurable_const (fun _ _ => zero_le_one) h1,
    mhKernelR_isReversible (symmRef_of_isReversible hQ) L _ hL measurable_const hL0 (fun _ _ => zero_le_one),
    mhKernelR_invariant (symmRef_of_isReversible hQ) L _ hL measurable_const hL0 (fun _ _ => zero_le_one) h1,
    fun x y => mhAlphaD_of_symm L _ x y rfl one_pos⟩

/-- non-vacuity: the independence sampler that proposes from a probability prior -/
example (μ0 : Measure X) [IsProbabilityMeasure μ0] :
    (ProbabilityTheory.Kernel.const X μ0).IsReversible μ0 := by
  intro A B _ _
  simp [mul_comm]

example : (mhKernelR (ProbabilityTheory.Kernel.const ℝ (gaussianReal 0 1)) (fun x => Real.exp (-(x - 1) ^ 2))
      (fun _ _ => 1)).Invariant (targetMeasure (gaussianReal 0 1) (fun x => Real.exp (-(x - 1) ^ 2))) :=
  (mh_reversible_of_reversible_proposal (gaussianReal 0 1) _ (by intro A B _ _; simp [mul_comm])
    (fun x => Real.exp (-(x - 1) ^ 2)) (by fun_prop) (fun x => (Real.exp_pos _).le)).2.2.1

open scoped NNReal in
/-- **pCN in one dimension, completely.** Prior `N(0,1)`, proposal `x* = a·x + s·ξ`, `ξ ~ N(0,1)`
    with `a² + s² = 1` (`v = s²`; the code's `a = √(1−s²)`), any measurable likelihood `L ≥ 0`:
    the proposal kernel is `N(a x, s²)`, it is reversible w.r.t. the prior (the measure form of
    `pcn_ratio`), and the kernel "accept with `min(1, L(y)/L(x))`" — the likelihood-only ratio of
    `pcnStep_accept_iff` — is Markov, reversible w.r.t. the posterior `L • N(0,1)` and leaves it
    invariant. -/
theorem pcn_1d_invariant (a : ℝ) {v : ℝ≥0} (hv : v ≠ 0) (h : a ^ 2 + (v : ℝ) = 1)
    (L : ℝ → ℝ) (hL : Measurable L) (hL0 : ∀ x, 0 ≤ L x) :
    (∀ x, pcnProposal1 a v x = gaussianReal (a * x) v) ∧
    (pcnProposal1 a v).IsReversible (gaussianReal 0 1) ∧
    IsMarkovKernel (mhKernelR (pcnProposal1 a v) L (fun _ _ => 1)) ∧
    (mhKernelR (pcnProposal1 a v) L (fun _ _ => 1)).IsReversible (targetMeasure (gaussianReal 0 1) L) ∧
    (mhKernelR (pcnProposal1 a v) L (fun _ _ => 1)).Invariant (targetMeasure (gaussianReal 0 1) L) ∧
    ∀ x y, mhAlphaD L (fun _ _ => 1) x y = min 1 (L y / L x) := by
  have : Fact (v ≠ 0) := ⟨hv⟩
  have hQ := pcnProposal1_isReversible a hv h
  have := mh_reversible_of_reversible_proposal (gaussianReal 0 1) (pcnProposal1 a v) hQ L hL hL0
  exact ⟨pcnProposal1_apply a hv, hQ, this⟩

/-- `a = 3/5`, `s = 4/5`, likelihood of one observation `y = 1` with unit noise -/
example : (mhKernelR (pcnProposal1 (3/5) ((4/5) ^ 2 : NNReal)) (fun x => Real.exp (-(x - 1) ^ 2 / 2))
      (fun _ _ => 1)).Invariant
    (targetMeasure (gaussianReal 0 1) (fun x => Real.exp (-(x - 1) ^ 2 / 2))) :=
  (pcn_1d_invariant (3/5) (v := (4/5) ^ 2) (by norm_num) (by push_cast; norm_num) _ (by fun_prop)
    (fun x => (Real.exp_pos _).le)).2.2.2.2.1

end pcnType

/-! ## further non-vacuity examples -/

section examples
open scoped NNReal

/-- Barker's acceptance `π(y)q(y,x) / (π(x)q(x,y) + π(y)q(y,x))` balances the flow -/
example : (accKernel (volume : Measure (Fin 2 → ℝ)) (rwDens (1:ℝ≥0))
      (barkerAlpha (quarticTarget 1) (rwDens (1:ℝ≥0)))).IsReversible
    (targetMeasure volume (quarticTarget 1)) :=
  accKernel_isReversible volume _ _ _ (measurable_quarticTarget 1) (measurable_rwDens 1)
    (measurable_barkerAlpha (measurable_quarticTarget 1) (measurable_rwDens 1)) (quarticTarget_nonneg 1)
    (barkerAlpha_balance _ _)

/-- random-scan mixture of two random-walk kernels with different scales -/
example : (mixKernel (![1/2, 1/2] : Fin 2 → ENNReal)
      (fun i => mhKernelD volume (quarticTarget 1) (rwDens (![1/4, 4] i : ℝ≥0)))).Invariant
    (targetMeasure volume (quarticTarget 1)) := by
  apply mixKernel_invariant
  · simp [ENNReal.inv_two_add_inv_two]
  · intro i
    exact (rwmh_gaussian_invariant (quarticTarget 1) (measurable_quarticTarget 1) (quarticTarget_nonneg 1)
      (by fin_cases i <;> norm_num)).2.2.1

/-- one-block update on `ℝ × ℝ`: first coordinate proposed from `N(y, 1)`, second kept -/
example : (mhKernelR (blockRef (Z := ℝ) (volume : Measure ℝ))
      (fun p => Real.exp (-(p.1 ^ 4 + p.1 ^ 2 * p.2 ^ 2 + p.2 ^ 2)))
      (fun p p' => gaussianPDFReal p.1 1 p'.1)).IsReversible
    (targetMeasure ((volume : Measure ℝ).prod (volume : Measure ℝ))
      (fun p => Real.exp (-(p.1 ^ 4 + p.1 ^ 2 * p.2 ^ 2 + p.2 ^ 2)))) := by
  apply mh_block_reversible_density
  · fun_prop
  · show Measurable (fun z : (ℝ × ℝ) × (ℝ × ℝ) => gaussianPDFReal z.1.1 1 z.2.1)
    unfold gaussianPDFReal
    fun_prop
  · intro x; exact (Real.exp_pos _).le
  · intro x y; exact gaussianPDFReal_nonneg _ _ _

end examples

end CuqiVerif.C02
