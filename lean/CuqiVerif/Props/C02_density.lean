import CuqiVerif.Proofs.C02_density
import Mathlib.Probability.Distributions.Gaussian.Real

/-!
# C02 — `mh_reversible_density`: Metropolis–Hastings on general measurable state spaces

The finite-state theorems of `Props/C02.lean` (`mh_reversible_fintype`, `mhKernel_isReversible`,
`mhKernel_invariant`) lifted to an arbitrary measurable space `X` with an s-finite (in particular
σ-finite) reference measure `lam`, a measurable target density `π ≥ 0`, and a proposal with a
jointly measurable density `q(x,y) ≥ 0`, `∫ q(x,·) dlam = 1`.

Definitions (in `Proofs/C02_density.lean`; `mhAlphaD` is the generic version of the finite-state
`mhAlpha`, and the acceptance rule is the one whose `log` form the executable model's `accepts`
tests — see `mhAlphaD_log_form`):

* `mhAlphaD π q x y = min 1 (π y q(y,x) / (π x q(x,y)))` (`= 0` where the denominator vanishes),
* `accKernel lam q a x = (q(x,·) a(x,·)) • lam + (1 − ∫ q a dlam) • δ_x` as a Mathlib `Kernel X X`
  (`Kernel.withDensity` of `Kernel.const lam` plus `Kernel.withDensity` of `Kernel.id`),
* `mhKernelD lam π q = accKernel lam q (mhAlphaD π q)`, `targetMeasure lam π = π • lam`.
-/

namespace CuqiVerif.C02

open MeasureTheory ProbabilityTheory Set
open scoped ENNReal

section general
variable {X : Type*} [MeasurableSpace X]

/-- **The kernel is what the textbook says.** For every measurable `A`,
    `K(x, A) = ∫_A q(x,y) α(x,y) lam(dy) + r(x) 1_A(x)` with `r(x) = 1 − ∫ q(x,y) α(x,y) lam(dy)`:
    an accepted move has density `q·α`, the remaining mass stays at `x` (the code returns the
    state unchanged on rejection: `metropolis_frame`). -/
theorem mhKernelD_apply (lam : Measure X) [SFinite lam] (π : X → ℝ) (q : X → X → ℝ)
    (hπ : Measurable π) (hq : Measurable (Function.uncurry q)) (x : X) {A : Set X} (hA : MeasurableSet A) :
    mhKernelD lam π q x A
      = ∫⁻ y in A, ENNReal.ofReal (q x y * mhAlphaD π q x y) ∂lam
        + (1 - ∫⁻ y, ENNReal.ofReal (q x y * mhAlphaD π q x y) ∂lam) * A.indicator 1 x :=
  accKernel_apply lam hq (measurable_mhAlphaD hπ hq) x hA

/-- **The MH kernel is a Markov kernel** (measurability in `x` is part of being a Mathlib
    `Kernel`; total mass 1 needs `q(x,·)` to be a probability density). -/
theorem mhKernelD_isMarkov (lam : Measure X) [SFinite lam] (π : X → ℝ) (q : X → X → ℝ)
    (hπ : Measurable π) (hq : Measurable (Function.uncurry q)) (hq0 : ∀ x y, 0 ≤ q x y)
    (hq1 : ∀ x, ∫⁻ y, ENNReal.ofReal (q x y) ∂lam = 1) : IsMarkovKernel (mhKernelD lam π q) :=
  ⟨fun x => ⟨accKernel_univ lam hq (measurable_mhAlphaD hπ hq) hq0 (mhAlphaD_le_one π q) hq1 x⟩⟩

/-- **Generic acceptance rule.** Any jointly measurable acceptance function `a` that balances the
    flow, `π(x) q(x,y) a(x,y) = π(y) q(y,x) a(y,x)`, gives a kernel reversible w.r.t. `π • lam`
    (Metropolis–Hastings, Barker, … ; `q` need not be normalised here). -/
theorem accKernel_isReversible (lam : Measure X) [SFinite lam] (π : X → ℝ) (q a : X → X → ℝ)
    (hπ : Measurable π) (hq : Measurable (Function.uncurry q)) (ha : Measurable (Function.uncurry a))
    (hπ0 : ∀ x, 0 ≤ π x) (hbal : ∀ x y, π x * q x y * a x y = π y * q y x * a y x) :
    (accKernel lam q a).IsReversible (targetMeasure lam π) :=
  accKernel_isReversible' lam hπ hq ha hπ0 hbal

/-- **`mh_reversible_density`.** On an arbitrary measurable space with s-finite (e.g. σ-finite)
    reference measure, for every measurable target density `π ≥ 0` (unnormalised, zeros allowed)
    and every jointly measurable proposal density `q ≥ 0`, the Metropolis–Hastings kernel is
    reversible w.r.t. `μ = π • lam`:
    `∫_A K(x,B) μ(dx) = ∫_B K(x,A) μ(dx)` for all measurable `A, B`
    (Mathlib's `Kernel.IsReversible`).  This is the statement that makes "accept with probability
    `min(1, π(y)q(y,x)/(π(x)q(x,y)))`, else stay" — the rule every CUQIpy Metropolis kernel
    implements (`accepts_fin_iff`, `accept_measure`) — a correct sampler for `π`. -/
theorem mh_reversible_density (lam : Measure X) [SFinite lam] (π : X → ℝ) (q : X → X → ℝ)
    (hπ : Measurable π) (hq : Measurable (Function.uncurry q)) (hπ0 : ∀ x, 0 ≤ π x)
    (hq0 : ∀ x y, 0 ≤ q x y) : (mhKernelD lam π q).IsReversible (targetMeasure lam π) :=
  accKernel_isReversible' lam hπ hq (measurable_mhAlphaD hπ hq) hπ0 (mhAlphaD_balance hπ0 hq0)

/-- **`mh_invariant_density`.** Hence (`IsReversible.invariant`) the target `π • lam` is
    invariant under the MH kernel: `μ K = μ` (Mathlib's `Kernel.Invariant`). -/
theorem mh_invariant_density (lam : Measure X) [SFinite lam] (π : X → ℝ) (q : X → X → ℝ)
    (hπ : Measurable π) (hq : Measurable (Function.uncurry q)) (hπ0 : ∀ x, 0 ≤ π x)
    (hq0 : ∀ x y, 0 ≤ q x y) (hq1 : ∀ x, ∫⁻ y, ENNReal.ofReal (q x y) ∂lam = 1) :
    (mhKernelD lam π q).Invariant (targetMeasure lam π) := by
  have := mhKernelD_isMarkov lam π q hπ hq hq0 hq1
  exact (mh_reversible_density lam π q hπ hq hπ0 hq0).invariant

/-- Composition of two MH kernels for the same target with different proposals (e.g. the scale
    before / after tuning, or two different blocks) leaves the target invariant. -/
theorem mh_comp_invariant_density (lam : Measure X) [SFinite lam] (π : X → ℝ) (q₁ q₂ : X → X → ℝ)
    (hπ : Measurable π) (hπ0 : ∀ x, 0 ≤ π x)
    (hq₁ : Measurable (Function.uncurry q₁)) (hq₂ : Measurable (Function.uncurry q₂))
    (h₁0 : ∀ x y, 0 ≤ q₁ x y) (h₂0 : ∀ x y, 0 ≤ q₂ x y)
    (h₁1 : ∀ x, ∫⁻ y, ENNReal.ofReal (q₁ x y) ∂lam = 1) (h₂1 : ∀ x, ∫⁻ y, ENNReal.ofReal (q₂ x y) ∂lam = 1) :
    ((mhKernelD lam π q₁) ∘ₖ (mhKernelD lam π q₂)).Invariant (targetMeasure lam π) :=
  (mh_invariant_density lam π q₁ hπ hq₁ hπ0 h₁0 h₁1).comp (mh_invariant_density lam π q₂ hπ hq₂ hπ0 h₂0 h₂1)

/-- **Sweeps.** The composition of ANY finite list of kernels that each leave `μ` invariant
    leaves `μ` invariant (deterministic-scan sweeps such as the `for j in range(dim)` loop of
    CWMH, `cwStep_eq_fold`; the kernels need not be reversible and the sweep is not). -/
theorem sweep_invariant (μ : Measure X) (ks : List (ProbabilityTheory.Kernel X X))
    (h : ∀ κ ∈ ks, κ.Invariant μ) : (sweepKernel ks).Invariant μ := by
  induction ks with
  | nil => exact id_invariant μ
  | cons κ ks ih =>
    exact (h κ (List.mem_cons_self ..)).comp (ih (fun η hη => h η (List.mem_cons_of_mem _ hη)))

/-- Sweep of MH kernels with a list of proposal densities: invariant. -/
theorem mh_sweep_invariant_density (lam : Measure X) [SFinite lam] (π : X → ℝ) (qs : List (X → X → ℝ))
    (hπ : Measurable π) (hπ0 : ∀ x, 0 ≤ π x)
    (hq : ∀ q ∈ qs, Measurable (Function.uncurry q) ∧ (∀ x y, 0 ≤ q x y) ∧
      ∀ x, ∫⁻ y, ENNReal.ofReal (q x y) ∂lam = 1) :
    (sweepKernel (qs.map (mhKernelD lam π))).Invariant (targetMeasure lam π) := by
  apply sweep_invariant
  intro κ hκ
  obtain ⟨q, hqm, rfl⟩ := List.mem_map.1 hκ
  obtain ⟨h1, h2, h3⟩ := hq q hqm
  exact mh_invariant_density lam π q hπ h1 hπ0 h2 h3

variable {ι : Type*} [Fintype ι]

/-- **Finite mixtures (random scan): invariance.** `Σ_i w_i κ_i` with `Σ w_i = 1` leaves `μ`
    invariant when every `κ_i` does. -/
theorem mixKernel_invariant (μ : Measure X) (w : ι → ℝ≥0∞) (κ : ι → ProbabilityTheory.Kernel X X)
    [∀ i, IsSFiniteKernel (κ i)] (hw : ∑ i, w i = 1) (h : ∀ i, (κ i).Invariant μ) :
    (mixKernel w κ).Invariant μ := by
  unfold ProbabilityTheory.Kernel.Invariant
  ext s hs
  rw [Measure.bind_apply hs (ProbabilityTheory.Kernel.aemeasurable _)]
  simp_rw [mixKernel_apply]
  rw [lintegral_finsetSum _ (fun i _ => (ProbabilityTheory.Kernel.measurable_coe (κ i) hs).const_mul (w i))]
  have : ∀ i, ∫⁻ x, w i * κ i x s ∂μ = w i * μ s := by
    intro i
    rw [lintegral_const_mul _ (ProbabilityTheory.Kernel.measurable_coe (κ i) hs),
      ← Measure.bind_apply hs (ProbabilityTheory.Kernel.aemeasurable _), (h i).def]
  simp_rw [this]
  rw [← Finset.sum_mul, hw, one_mul]

/-- **Finite mixtures: reversibility** is preserved as well (any weights). -/
theorem mixKernel_isReversible (μ : Measure X) (w : ι → ℝ≥0∞) (κ : ι → ProbabilityTheory.Kernel X X)
    [∀ i, IsSFiniteKernel (κ i)] (h : ∀ i, (κ i).IsReversible μ) : (mixKernel w κ).IsReversible μ := by
  intro A B hA hB
  simp_rw [mixKernel_apply]
  rw [lintegral_finsetSum _ (fun i _ => (ProbabilityTheory.Kernel.measurable_coe (κ i) hB).const_mul (w i)),
    lintegral_finsetSum _ (fun i _ => (ProbabilityTheory.Kernel.measurable_coe (κ i) hA).const_mul (w i))]
  refine Finset.sum_congr rfl (fun i _ => ?_)
  rw [lintegral_const_mul _ (ProbabilityTheory.Kernel.measurable_coe (κ i) hB),
    lintegral_const_mul _ (ProbabilityTheory.Kernel.measurable_coe (κ i) hA), h i hA hB]

/-- a mixture of Markov kernels with weights summing to one is a Markov kernel -/
theorem mixKernel_isMarkov (w : ι → ℝ≥0∞) (κ : ι → ProbabilityTheory.Kernel X X)
    [∀ i, IsMarkovKernel (κ i)] (hw : ∑ i, w i = 1) : IsMarkovKernel (mixKernel w κ) :=
  ⟨fun x => ⟨by rw [mixKernel_apply]; simp [hw]⟩⟩

end general

/-! ## proposals that have a density w.r.t. a reference KERNEL (blocks, coordinates, pCN-type) -/

section reference
variable {X : Type*} [MeasurableSpace X]

/-- **Reversibility for a symmetric reference kernel.**  If `lam(dx) ρ(x,dy)` is symmetric under
    `(x,y) ↦ (y,x)` (`SymmRef`; e.g. `ρ = const lam` by Tonelli, a one-block / one-coordinate
    reference, or any proposal kernel reversible w.r.t. `lam` such as the pCN proposal w.r.t. the
    Gaussian prior), then the MH kernel with proposal `q(x,·) • ρ(x,·)` and target `π • lam` is
    reversible.  `mh_reversible_density` is the instance `ρ = const lam`. -/
theorem mhKernelR_isReversible {lam : Measure X} {ρ : ProbabilityTheory.Kernel X X} [IsSFiniteKernel ρ]
    (hρ : SymmRef lam ρ) (π : X → ℝ) (q : X → X → ℝ)
    (hπ : Measurable π) (hq : Measurable (Function.uncurry q)) (hπ0 : ∀ x, 0 ≤ π x)
    (hq0 : ∀ x y, 0 ≤ q x y) : (mhKernelR ρ π q).IsReversible (targetMeasure lam π) :=
  accKernelR_isReversible' hρ hπ hq (measurable_mhAlphaD hπ hq) hπ0 (mhAlphaD_balance hπ0 hq0)

/-- … it is a Markov kernel when `q(x,·)` is a probability density w.r.t. `ρ(x,·)` … -/
theorem mhKernelR_isMarkov (ρ : ProbabilityTheory.Kernel X X) [IsSFiniteKernel ρ] (π : X → ℝ)
    (q : X → X → ℝ) (hπ : Measurable π) (hq : Measurable (Function.uncurry q)) (hq0 : ∀ x y, 0 ≤ q x y)
    (hq1 : ∀ x, ∫⁻ y, ENNReal.ofReal (q x y) ∂ρ x = 1) : IsMarkovKernel (mhKernelR ρ π q) :=
  ⟨fun x => ⟨accKernelR_univ ρ hq (measurable_mhAlphaD hπ hq) hq0 (mhAlphaD_le_one π q) hq1 x⟩⟩

/-- … and then leaves `π • lam` invariant. -/
theorem mhKernelR_invariant {lam : Measure X} {ρ : ProbabilityTheory.Kernel X X} [IsSFiniteKernel ρ]
    (hρ : SymmRef lam ρ) (π : X → ℝ) (q : X → X → ℝ)
    (hπ : Measurable π) (hq : Measurable (Function.uncurry q)) (hπ0 : ∀ x, 0 ≤ π x)
    (hq0 : ∀ x y, 0 ≤ q x y) (hq1 : ∀ x, ∫⁻ y, ENNReal.ofReal (q x y) ∂ρ x = 1) :
    (mhKernelR ρ π q).Invariant (targetMeasure lam π) := by
  have := mhKernelR_isMarkov ρ π q hπ hq hq0 hq1
  exact (mhKernelR_isReversible hρ π q hπ hq hπ0 hq0).invariant

/-- the classical case is an instance (definitional) -/
theorem mhKernelD_eq_mhKernelR (lam : Measure X) [SFinite lam] (π : X → ℝ) (q : X → X → ℝ) :
    mhKernelD lam π q = mhKernelR (ProbabilityTheory.Kernel.const X lam) π q := rfl

/-- **One-block update (Metropolis-within-Gibbs) on a product space `Y × Z`:** the first block is
    proposed from a density w.r.t. `lamY` (which may depend on the whole current state), the second
    block is kept; reversible w.r.t. `π • (lamY ⊗ lamZ)`. -/
theorem mh_block_reversible_density {Y Z : Type*} [MeasurableSpace Y] [MeasurableSpace Z]
    (lamY : Measure Y) [SFinite lamY] (lamZ : Measure Z) [SFinite lamZ]
    (π : Y × Z → ℝ) (q : Y × Z → Y × Z → ℝ)
    (hπ : Measurable π) (hq : Measurable (Function.uncurry q)) (hπ0 : ∀ x, 0 ≤ π x)
    (hq0 : ∀ x y, 0 ≤ q x y) :
    (mhKernelR (blockRef lamY) π q).IsReversible (targetMeasure (lamY.prod lamZ) π) :=
  mhKernelR_isReversible (symmRef_block lamY lamZ) π q hπ hq hπ0 hq0

end reference

/-! ## component-wise Metropolis–Hastings on `ℝ^(n+1)` (the CWMH loop) -/

section cwmh
variable {n : ℕ}

/-- **What one CWMH iteration does, as a kernel.** With `x[j := t] = Function.update x j t`:
    `K_j(x, A) = ∫ 1_A(x[j:=t]) q(x, x[j:=t]) α(x, x[j:=t]) dt + r(x) 1_A(x)` — the proposal
    differs from `x` in coordinate `j` only (`cwmh_component`), accepted with the MH probability. -/
theorem cwKernel_apply (j : Fin (n + 1)) (π : (Fin (n + 1) → ℝ) → ℝ)
    (q : (Fin (n + 1) → ℝ) → (Fin (n + 1) → ℝ) → ℝ) (hπ : Measurable π)
    (hq : Measurable (Function.uncurry q)) (x : Fin (n + 1) → ℝ) {A : Set (Fin (n + 1) → ℝ)}
    (hA : MeasurableSet A) :
    cwKernel j π q x A
      = (∫⁻ t, A.indicator (fun y => ENNReal.ofReal (q x y * mhAlphaD π q x y)) (Function.update x j t))
        + (1 - ∫⁻ t, ENNReal.ofReal (q x (Function.update x j t) * mhAlphaD π q x (Function.update x j t)))
          * A.indicator 1 x := by
  have ha := measurable_mhAlphaD hπ hq
  have hm : Measurable (fun y => moveDens q (mhAlphaD π q) x y) :=
    (measurable_moveDens hq ha).comp measurable_prodMk_left
  unfold cwKernel mhKernelR
  rw [accKernelR_apply _ hq ha x hA, ← lintegral_indicator hA, lintegral_coordRef j x (hm.indicator hA)]
  unfold rejProbR
  rw [lintegral_coordRef j x hm]
  rfl

/-- **`cwmh_reversible_density`.** Every single-coordinate MH kernel on `ℝ^(n+1)` — any measurable
    target density `π ≥ 0` w.r.t. Lebesgue measure, any jointly measurable proposal density
    `q ≥ 0` for the new coordinate — is reversible w.r.t. `π • volume`. -/
theorem cwmh_reversible_density (j : Fin (n + 1)) (π : (Fin (n + 1) → ℝ) → ℝ)
    (q : (Fin (n + 1) → ℝ) → (Fin (n + 1) → ℝ) → ℝ) (hπ : Measurable π)
    (hq : Measurable (Function.uncurry q)) (hπ0 : ∀ x, 0 ≤ π x) (hq0 : ∀ x y, 0 ≤ q x y) :
    (cwKernel j π q).IsReversible (targetMeasure volume π) :=
  mhKernelR_isReversible (symmRef_coord j) π q hπ hq hπ0 hq0

/-- a single-coordinate MH kernel is a Markov kernel when `t ↦ q(x, x[j:=t])` is a probability
    density on `ℝ` for every `x` -/
theorem cwKernel_isMarkov (j : Fin (n + 1)) (π : (Fin (n + 1) → ℝ) → ℝ)
    (q : (Fin (n + 1) → ℝ) → (Fin (n + 1) → ℝ) → ℝ) (hπ : Measurable π)
    (hq : Measurable (Function.uncurry q)) (hq0 : ∀ x y, 0 ≤ q x y)
    (hq1 : ∀ x, ∫⁻ t, ENNReal.ofReal (q x (Function.update x j t)) = 1) :
    IsMarkovKernel (cwKernel j π q) := by
  apply mhKernelR_isMarkov _ π q hπ hq hq0
  intro x
  have := lintegral_coordRef j x (g := fun y => ENNReal.ofReal (q x y))
    ((hq.comp measurable_prodMk_left).ennreal_ofReal)
  rw [this]
  exact hq1 x

/-- **`cwmh_sweep_invariant_density`.** The deterministic sweep over ANY list of coordinates
    (CUQIpy: `for j in range(dim)`, `cwStep_eq_fold`) of single-coordinate MH kernels, each with
    its own proposal density (per-component scales), leaves `π • volume` invariant. -/
theorem cwmh_sweep_invariant_density (js : List (Fin (n + 1))) (π : (Fin (n + 1) → ℝ) → ℝ)
    (q : Fin (n + 1) → (Fin (n + 1) → ℝ) → (Fin (n + 1) → ℝ) → ℝ) (hπ : Measurable π)
    (hπ0 : ∀ x, 0 ≤ π x) (hq : ∀ j, Measurable (Function.uncurry (q j))) (hq0 : ∀ j x y, 0 ≤ q j x y)
    (hq1 : ∀ j x, ∫⁻ t, ENNReal.ofReal (q j x (Function.update x j t)) = 1) :
    (sweepKernel (js.map (fun j => cwKernel j π (q j)))).Invariant (targetMeasure volume π) := by
  apply sweep_invariant
  intro κ hκ
  obtain ⟨j, _, rfl⟩ := List.mem_map.1 hκ
  have := cwKernel_isMarkov j π (q j) hπ (hq j) (hq0 j) (hq1 j)
  exact (cwmh_reversible_density j π (q j) hπ (hq j) hπ0 (hq0 j)).invariant

end cwmh

end CuqiVerif.C02
