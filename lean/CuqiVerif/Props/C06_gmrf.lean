import CuqiVerif.Model.C06_gmrf
import CuqiVerif.Props.C06

/-!
# C06 — the RTO objective for a GMRF prior (second pass)

`gmrfD`, `gmrfPrec`, `gmrfNeg2log` of `Model/C06_gmrf.lean` are built on C20's exact finite-difference
operators (`CuqiVerif.C20.diffOp`), which the driver now uses for every `GMRF` prior instead of a leaf precision.
-/
open Finset

set_option linter.unusedSectionVars false
set_option linter.unusedVariables false

namespace CuqiVerif.C06

variable {K : Type} [Field K]

lemma quad_smul (n : ℕ) (c : K) (G : Mat K) (v : Vec K) :
    quad n (fun i j => c * G i j) v = c * quad n G v := by
  unfold quad dot mulVec
  simp only [sumTo_eq_sum, Finset.mul_sum]
  refine Finset.sum_congr rfl fun i _ => Finset.sum_congr rfl fun j _ => ?_
  ring

/-- **gmrfPrec_quadratic_form.**  The matrix `prec·DᵀD` the model derives from C20's operator is the
    precision of the density `GMRF.logpdf` evaluates: `(x−μ)ᵀ (prec·DᵀD) (x−μ) = prec·‖D(x−μ)‖²`, every
    order, boundary condition, size. -/
theorem gmrfPrec_quadratic_form (order : ℕ) (bc : C20.BC) (n : ℕ) (prec : K) (mu x : Vec K) :
    quad n (gmrfPrec order bc n prec) (fun j => x j - mu j) = gmrfNeg2log order bc n prec mu x := by
  unfold gmrfPrec gmrfNeg2log
  rw [quad_smul, ← sq_mulVec_eq_quad_rect]
  congr 1
  exact sumTo_congr _ _ _ fun i _ => by ring

/-- **rto_objective_is_posterior_gmrf.**  `LinearRTO` with a `GMRF` prior (order 0/1/2, any boundary
    condition, any size, any number of likelihoods): if the factors are square roots
    (`LᵢᵀLᵢ = Λᵢ`; `sqrtprecᵀ sqrtprec = prec·DᵀD` with `D` **the difference operator of the code**, C20's
    `diffOp`) and `sqrtprecTimesMean = sqrtprec·μ`, the stacked least-squares objective is
    `Σ (Aᵢx−dᵢ)ᵀΛᵢ(Aᵢx−dᵢ) + prec·‖D(x−μ)‖²` = `−2 log posterior` of the GMRF-prior problem. -/
theorem rto_objective_is_posterior_gmrf (P : Problem K) (Lam : Lik K → Mat K)
    (order : ℕ) (bc : C20.BC) (prec : K) (mu : Vec K)
    (hL : ∀ l ∈ P.liks, ∀ i j, i < l.m → j < l.m → Lam l i j = gram l.m l.L i j)
    (hP : ∀ i j, i < P.n → j < P.n → gmrfPrec order bc P.n prec i j = gram P.prior.p P.prior.L2 i j)
    (hmu : ∀ i, i < P.prior.p → P.prior.L2mu i = mulVec P.n P.prior.L2 mu i) (x : Vec K) :
    sumTo (rowsM P) (fun i => (Mfwd P x i - bTilde P i) ^ 2)
      = (P.liks.map fun l => quad l.m (Lam l) (fun i => l.fwd x i - l.d i)).sum
        + gmrfNeg2log order bc P.n prec mu x := by
  rw [rto_objective_is_posterior P Lam (gmrfPrec order bc P.n prec) mu hL hP hmu x, neg2logpost,
    gmrfPrec_quadratic_form]

/-- instance: `GMRF(μ, prec = 2, order 1, zero BC)` on 2 nodes: `D = [[1,0],[−1,1],[0,−1]]`,
    `prec·DᵀD = [[4,−2],[−2,4]]` -/
example : gmrfPrec (R := ℚ) 1 .zero 2 2 0 0 = 4 ∧ gmrfPrec (R := ℚ) 1 .zero 2 2 0 1 = -2 := by
  constructor <;> norm_num [gmrfPrec, gram, gmrfRows, gmrfD, C20.diffOp, C20.firstOrder, C20.spdiags, sumTo]

end CuqiVerif.C06
