import CuqiVerif.Model.C17
import CuqiVerif.Proofs.C07
import CuqiVerif.Proofs.RExpr
import Mathlib.Algebra.BigOperators.Group.Finset.Basic
import Mathlib.Algebra.BigOperators.Ring.Finset
import Mathlib.Algebra.Field.Basic
import Mathlib.Data.Rat.Defs
import Mathlib.Analysis.SpecialFunctions.Sqrt
import Mathlib.Tactic.Ring
import Mathlib.Tactic.FieldSimp
import Mathlib.Tactic.NormNum
import Mathlib.Tactic.Linarith

/-!
# C17 — shipped test problems match their documentation: property theorems

About the executable definitions of `CuqiVerif/Model/C17.lean` (and C07's convolution assembly);
the driver runs them at `R = Rat`, the theorems hold in every field `K` (`ℝ` where a square root
or a derivative is involved), for every size, PSF, signal and conductivity.
-/
open Finset

set_option linter.unusedSectionVars false
set_option linter.unusedVariables false

namespace CuqiVerif.C17
open CuqiVerif.C07

variable {K : Type} [Field K]

/-! ## Poisson1D -/

/-- entry of the code's difference matrix: `Dx[k,c]·dx = [c = k] − [c + 1 = k]` -/
theorem poissonD_entry (N : ℕ) (dx : K) (k c : ℕ) :
    (poissonD N dx).e k c = ((if c = k then 1 else 0) - (if c + 1 = k then 1 else 0)) / dx := by
  unfold poissonD poissonDx0
  rcases k with _ | k
  · simp
  · simp only [Nat.succ_ne_zero, if_false, Nat.add_sub_cancel]
    congr 1
    by_cases h1 : k = c
    · subst h1; simp
    · have h1' : ¬ c = k := fun h => h1 h.symm
      simp [h1, h1']

end CuqiVerif.C17
