import CuqiVerif.Model.C17
import CuqiVerif.Proofs.C07
import CuqiVerif.Proofs.RExpr
import Mathlib.Algebra.BigOperators.Group.Finset.Basic
import Mathlib.Algebra.BigOperators.Ring.Finset
import Mathlib.Algebra.Field.Basic
import Mathlib.Data.Rat.Defs
import Mathlib.Data.Rat.Floor
import Mathlib.Data.Rat.Cast.Order
import Mathlib.Tactic.Positivity
import Mathlib.Analysis.SpecialFunctions.Sqrt
import Mathlib.Tactic.Ring
import Mathlib.Tactic.FieldSimp
import Mathlib.Tactic.NormNum
import Mathlib.Tactic.Linarith

/-!
# C17 — shipped test problems match their documentation: property theorems

About the executable definitions of `CuqiVerif/Model/C17.lean` (and C07's convolution assembly);
the driver runs them at `R = Rat`, the theorems hold in every field `K` (`ℝ` where a square root
or a derivative is involved), for every size, PSF, signal and conductivity.
-/
open Finset

set_option linter.unusedSectionVars false
set_option linter.unusedVariables false
set_option linter.unusedSimpArgs false

namespace CuqiVerif.C17
open CuqiVerif.C07

variable {K : Type} [Field K]

/-! ## Deconvolution1D: documented operator, assembled matrix -/

lemma extPos_range (m : Ext) (n : ℕ) (hn : 0 < n) (t k : ℤ) (h : extPos m n t = some k) : 0 ≤ k ∧ k < n := by
  have hnz : (0 : ℤ) < n := by exact_mod_cast hn
  cases m with
  | constant =>
    simp only [extPos] at h
    split_ifs at h with hc
    · cases h; exact hc
  | wrap =>
    simp only [extPos, Option.some.injEq] at h
    subst h
    exact ⟨Int.emod_nonneg _ (ne_of_gt hnz), Int.emod_lt_of_pos _ hnz⟩
  | nearest =>
    simp only [extPos, Option.some.injEq] at h
    subst h
    split_ifs <;> omega
  | reflect =>
    simp only [extPos, Option.some.injEq] at h
    subst h
    have h2 : (0 : ℤ) < 2 * n := by omega
    have a := Int.emod_nonneg t (ne_of_gt h2)
    have b := Int.emod_lt_of_pos t h2
    split_ifs <;> omega
  | mirror =>
    simp only [extPos] at h
    by_cases h1 : n = 1
    · rw [if_pos h1] at h; cases h; omega
    · rw [if_neg h1] at h
      simp only [Option.some.injEq] at h
      subst h
      have hn2 : (2 : ℤ) ≤ n := by omega
      have h2 : (0 : ℤ) < 2 * n - 2 := by omega
      have a := Int.emod_nonneg t (ne_of_gt h2)
      have b := Int.emod_lt_of_pos t h2
      split_ifs <;> omega

variable {R : Type} [CommRing R]

lemma sum_hit_mul (m : Ext) (n : ℕ) (hn : 0 < n) (t : ℤ) (x : ℕ → R) :
    ∑ w ∈ range n, (hit m n t w : R) * x w = extend m n x t := by
  unfold extend hit
  cases h : extPos m n t with
  | none => simp
  | some k =>
    obtain ⟨h0, h1⟩ := extPos_range m n hn t k h
    have hk : (k.toNat : ℤ) = k := Int.toNat_of_nonneg h0
    rw [Finset.sum_eq_single k.toNat]
    · simp [hk]
    · intro b _ hb
      have : ¬ (some k = some (b : ℤ)) := by
        intro e; apply hb; cases e; simp
      simp [this]
    · intro hmem
      exact absurd (mem_range.mpr (by omega)) hmem

/-- **deconv1d_documented_matrix.**  The matrix `conv1` (C07's transcription of
    `scipy.ndimage.convolve1d`) acts on every signal as the *documented* operator: the convolution of
    the signal, extended by the stated boundary rule, with the stated PSF.  All five rules, all sizes. -/
theorem deconv1d_documented_matrix (m : Ext) (s n : ℕ) (hn : 0 < n) (P x : ℕ → R) (u : ℕ) :
    (conv1 m s P n).apply x u = docConv1 m s P n x u := by
  rw [apply_eq]
  simp only [conv1, docConv1, sumTo_eq_sum]
  simp only [Finset.sum_mul]
  rw [Finset.sum_comm]
  refine Finset.sum_congr rfl fun a _ => ?_
  simp only [mul_assoc]
  rw [← Finset.mul_sum, sum_hit_mul m n hn]

example : docConv1 .constant 3 (fun a => ((a : ℕ) : ℤ) + 1) 6 (fun k => (k : ℤ)) 0 = 1 := by decide

/-- **deconv1d_assembled_transposed.**  What `Deconvolution1D` stores and applies is the *transpose* of
    the documented operator: `(A x)[u] = Σ_j C[j,u] · x[j]` with `C` the documented convolution matrix —
    a correlation with the PSF instead of a convolution. -/
theorem deconv1d_assembled_transposed (m : Ext) (s n : ℕ) (P x : ℕ → R) (u : ℕ) (hu : u < n) :
    (deconv1dMatrix m s P n).apply x u = ∑ j ∈ range n, (conv1 m s P n).e j u * x j := by
  rw [apply_eq]
  refine Finset.sum_congr rfl fun j hj => ?_
  congr 1
  show (conv1 m s P n).apply (unit u) j = _
  rw [apply_eq]
  exact sum_mul_unit _ _ _ hu

/-- **deconv1d_assembled_eq_documented_partial.**  Hypothesis forced by the proof: the documented
    operator must be symmetric.  For periodic or zero boundary and an odd, reversal-symmetric PSF it
    is, and then the stored matrix applied to any signal is the documented convolution. -/
theorem deconv1d_assembled_eq_documented_partial (m : Ext) (hm : m = .wrap ∨ m = .constant) (k n : ℕ) (hn : 0 < n)
    (P x : ℕ → R) (hP : ∀ a, a < 2 * k + 1 → P (2 * k + 1 - 1 - a) = P a) (u : ℕ) (hu : u < n) :
    (deconv1dMatrix m (2 * k + 1) P n).apply x u = docConv1 m (2 * k + 1) P n x u := by
  rw [deconv1d_assembled_transposed _ _ _ _ _ _ hu, ← deconv1d_documented_matrix m _ n hn, apply_eq]
  refine Finset.sum_congr rfl fun j hj => ?_
  congr 1
  have hs : ShiftSymm m n := by
    rcases hm with rfl | rfl
    · exact shiftSymm_wrap n
    · exact shiftSymm_constant n
  have hj' : j < n := mem_range.mp hj
  rw [← conv1_flip_transpose m k n P hs j u hj' hu]
  simp only [conv1, sumTo_eq_sum, flip1]
  exact Finset.sum_congr rfl fun a ha => by rw [hP a (mem_range.mp ha)]

example : ∀ a, a < 2 * 1 + 1 → (fun a => if a = 1 then (2 : ℤ) else 1) (2 * 1 + 1 - 1 - a) = (fun a => if a = 1 then (2 : ℤ) else 1) a := by
  decide

/-- **Negative witness (known finding `Deconvolution1D:operator:transposed`).**  Zero boundary, PSF
    `[1,2,4]`, signal `0..5`: the stored matrix gives `4` at position 0, the documented convolution `1`. -/
theorem deconv1d_assembled_ne_documented_counterexample :
    (deconv1dMatrix .constant 3 (fun a => if a = 0 then (1 : ℤ) else if a = 1 then 2 else 4) 6).apply (fun k => (k : ℤ)) 0 = 4 ∧
    docConv1 .constant 3 (fun a => if a = 0 then (1 : ℤ) else if a = 1 then 2 else 4) 6 (fun k => (k : ℤ)) 0 = 1 := by
  decide

/-! ## Deconvolution1D, legacy form -/

/-- **legacy_transposed.**  `toeplitz(hflip, h)` with `h = roll(P, −n/2)` has the rolled PSF in its first
    *row*: the legacy matrix is the transpose of the documented periodic convolution with `P` (centre `n/2`). -/
theorem legacy_transposed (n : ℕ) (P : ℕ → R) (i j : ℕ) (hi : i < n) (hj : j < n) :
    (legacyMatrix n P).e i j = (docCirculant n P).e j i := by
  simp only [legacyMatrix, legacyFromH, toeplitz, hflip, rollHalf, docCirculant]
  by_cases h1 : j ≤ i
  · rw [if_pos h1]
    by_cases h2 : i - j = 0
    · have : i = j := by omega
      subst this
      rw [if_pos h2]
      congr 1
      have : i + (n - i) + n / 2 = n / 2 + n := by omega
      rw [this, Nat.add_mod_right, Nat.zero_add]
    · rw [if_neg h2]
      congr 2
      omega
  · rw [if_neg h1]
    congr 1
    have : j + (n - i) + n / 2 = (j - i + n / 2) + n := by omega
    rw [this, Nat.add_mod_right]

/-- **legacy_eq_documented_partial.**  Hypothesis forced: a PSF symmetric about its centre entry `n/2`
    (`P[(n/2 + d) mod n] = P[(n/2 − d) mod n]`) — then the documented circulant is symmetric and the
    legacy matrix equals it.  (The named legacy PSFs `gauss`, `sinc`, `vonMises` are built that way.) -/
theorem legacy_eq_documented_partial (n : ℕ) (P : ℕ → R)
    (hP : ∀ d, d < n → P ((n / 2 + d) % n) = P ((n / 2 + (n - d)) % n)) (i j : ℕ) (hi : i < n) (hj : j < n) :
    (legacyMatrix n P).e i j = (docCirculant n P).e i j := by
  rw [legacy_transposed n P i j hi hj]
  simp only [docCirculant]
  by_cases h : i ≤ j
  · -- d = j − i
    have e1 : (j + (n - i) + n / 2) % n = (n / 2 + (j - i)) % n := by
      have : j + (n - i) + n / 2 = (n / 2 + (j - i)) + n := by omega
      rw [this, Nat.add_mod_right]
    have e2 : (i + (n - j) + n / 2) = n / 2 + (n - (j - i)) := by omega
    rw [e1, e2]
    exact hP (j - i) (by omega)
  · have e1 : (i + (n - j) + n / 2) % n = (n / 2 + (i - j)) % n := by
      have : i + (n - j) + n / 2 = (n / 2 + (i - j)) + n := by omega
      rw [this, Nat.add_mod_right]
    have e2 : (j + (n - i) + n / 2) = n / 2 + (n - (i - j)) := by omega
    rw [e1, e2]
    exact (hP (i - j) (by omega)).symm

example : ∀ d, d < 4 → (fun k => if k = 2 then (3 : ℤ) else if k = 1 ∨ k = 3 then 1 else 0) ((4 / 2 + d) % 4)
    = (fun k => if k = 2 then (3 : ℤ) else if k = 1 ∨ k = 3 then 1 else 0) ((4 / 2 + (4 - d)) % 4) := by decide

/-- **Negative witness (known finding `Deconvolution1D:legacy:operator:transposed:asym`).**  `n = 8`,
    `P = [1,2,3,0,…]`: the unit pulse at 0 is mapped to `3` at position 2 by the legacy matrix, the
    documented convolution (PSF centre at entry 4) puts `0` there. -/
theorem legacy_ne_documented_counterexample :
    (legacyMatrix 8 (fun a => if a < 3 then ((a : ℕ) : ℤ) + 1 else 0)).e 2 0 = 3 ∧
    (docCirculant 8 (fun a => if a < 3 then ((a : ℕ) : ℤ) + 1 else 0)).e 2 0 = 0 := by
  decide

/-- **documented_circulant_eq_convolve1d.**  The two documented forms agree: the periodic convolution
    on `ℤ/n` with a length-`n` PSF centred at entry `n/2` (`docCirculant`) is the matrix of
    `convolve1d(·, P, mode='wrap')` for a PSF as long as the signal. -/
theorem documented_circulant_eq_convolve1d (n : ℕ) (P : ℕ → R) (i j : ℕ) (hi : i < n) (hj : j < n) :
    (docCirculant n P).e i j = (conv1 .wrap n P n).e i j := by
  have hn : 0 < n := by omega
  simp only [docCirculant, conv1, sumTo_eq_sum, hit, extPos, Option.some.injEq]
  set S : ℕ := i + (n - j) + n / 2 with hS
  have hdm := Nat.div_add_mod S n
  have ha0 : S % n < n := Nat.mod_lt _ hn
  have hSz : (S : ℤ) = (i : ℤ) + ((n : ℤ) - j) + ((n / 2 : ℕ) : ℤ) := by
    rw [hS]; push_cast [Nat.cast_sub hj.le]; ring
  have hdz : (n : ℤ) * ((S / n : ℕ) : ℤ) + ((S % n : ℕ) : ℤ) = (S : ℤ) := by exact_mod_cast hdm
  rw [Finset.sum_eq_single (S % n)]
  · have : ((i : ℤ) + ((n / 2 : ℕ) : ℤ) - ((S % n : ℕ) : ℤ)) % (n : ℤ) = (j : ℤ) := by
      rw [emod_eq_iff_dvd n _ j hj]
      refine ⟨((S / n : ℕ) : ℤ) - 1, ?_⟩
      linarith
    rw [if_pos this, mul_one]
  · intro b hb hne
    have hbn : b < n := mem_range.mp hb
    have : ¬ ((i : ℤ) + ((n / 2 : ℕ) : ℤ) - (b : ℤ)) % (n : ℤ) = (j : ℤ) := by
      intro h
      rw [emod_eq_iff_dvd n _ j hj] at h
      obtain ⟨c, hc⟩ := h
      have hdvd : (n : ℤ) ∣ ((S % n : ℕ) : ℤ) - (b : ℤ) := ⟨c - ((S / n : ℕ) : ℤ) + 1, by linarith⟩
      have hz : ((S % n : ℕ) : ℤ) - (b : ℤ) = 0 := by
        apply Int.eq_zero_of_dvd_of_natAbs_lt_natAbs hdvd
        omega
      apply hne
      omega
    rw [if_neg this, mul_zero]
  · intro h; exact absurd (mem_range.mpr ha0) h

/-- hence the legacy matrix is the matrix the non-legacy constructor stores for the same PSF with
    periodic boundary: both are the transpose of the documented operator. -/
theorem legacy_eq_assembled (n : ℕ) (P : ℕ → R) (i j : ℕ) (hi : i < n) (hj : j < n) :
    (legacyMatrix n P).e i j = (deconv1dMatrix .wrap n P n).e i j := by
  rw [legacy_transposed n P i j hi hj, documented_circulant_eq_convolve1d n P j i hj hi]
  show _ = (conv1 .wrap n P n).apply (unit i) j
  rw [apply_eq]
  exact (sum_mul_unit _ _ _ hi).symm

example : (legacyMatrix 8 (fun a => if a < 3 then ((a : ℕ) : ℤ) + 1 else 0)).e 4 1 = 2 := by decide

/-! ## Deconvolution2D -/

lemma sum_range_mul (m n : ℕ) (f : ℕ → R) :
    ∑ j ∈ range (m * n), f j = ∑ p ∈ range m, ∑ q ∈ range n, f (p * n + q) := by
  induction m with
  | zero => simp
  | succ m ih => rw [Nat.succ_mul, Finset.sum_range_add, ih, Finset.sum_range_succ]

lemma extend_extend (m : Ext) (n : ℕ) (X : ℕ → ℕ → R) (t1 t2 : ℤ) :
    extend m n (fun p => extend m n (X p) t2) t1 = extend2 m n X t1 t2 := by
  unfold extend extend2
  cases extPos m n t1 <;> cases extPos m n t2 <;> rfl

/-- **deconv2d_documented_matrix.**  The matrix of `_proj_forward_2D` (C07's `conv2`: `np.pad` +
    `fftconvolve(…,'valid')` + even trim) acts on every image as the *documented* operator: the 2-D
    convolution of the image, extended by the stated boundary rule along both axes, with the stated PSF.
    (`Deconvolution2D` is matrix-free, so assembled = documented here: no transposition.) -/
theorem deconv2d_documented_matrix (m : Ext) (s n : ℕ) (hn : 0 < n) (P X : ℕ → ℕ → R) (u v : ℕ) (hv : v < n) :
    (conv2 m s P n).apply (flat n X) (u * n + v) = docConv2 m s P n X u v := by
  rw [apply_eq]
  show ∑ j ∈ range (n * n), (conv2 m s P n).e (u * n + v) j * flat n X j = _
  rw [sum_range_mul]
  have hdiv : (u * n + v) / n = u := by
    rw [Nat.add_comm, Nat.add_mul_div_right _ _ hn, Nat.div_eq_of_lt hv, Nat.zero_add]
  have hmod : (u * n + v) % n = v := by
    rw [Nat.add_comm, Nat.add_mul_mod_self_right, Nat.mod_eq_of_lt hv]
  have hpq : ∀ p q, q < n → (p * n + q) / n = p ∧ (p * n + q) % n = q := by
    intro p q hq
    constructor
    · rw [Nat.add_comm, Nat.add_mul_div_right _ _ hn, Nat.div_eq_of_lt hq, Nat.zero_add]
    · rw [Nat.add_comm, Nat.add_mul_mod_self_right, Nat.mod_eq_of_lt hq]
  have step1 : ∀ p ∈ range n, ∀ q ∈ range n,
      (conv2 m s P n).e (u * n + v) (p * n + q) * flat n X (p * n + q)
        = ∑ a ∈ range s, ∑ b ∈ range s, P a b *
            ((hit m n ((u : ℤ) + (s / 2 : ℕ) - (a : ℤ)) p : R) * ((hit m n ((v : ℤ) + (s / 2 : ℕ) - (b : ℤ)) q : R) * X p q)) := by
    intro p _ q hq
    obtain ⟨e1, e2⟩ := hpq p q (mem_range.mp hq)
    simp only [conv2, flat, sumTo_eq_sum, hdiv, hmod, e1, e2, Finset.sum_mul]
    refine Finset.sum_congr rfl fun a _ => Finset.sum_congr rfl fun b _ => ?_
    ring
  rw [Finset.sum_congr rfl fun p hp => Finset.sum_congr rfl fun q hq => step1 p hp q hq]
  -- bring the PSF sums outside
  rw [Finset.sum_congr rfl fun p _ => Finset.sum_comm]
  rw [Finset.sum_comm]
  simp only [docConv2, sumTo_eq_sum]
  refine Finset.sum_congr rfl fun a _ => ?_
  rw [Finset.sum_congr rfl fun p _ => Finset.sum_comm]
  rw [Finset.sum_comm]
  refine Finset.sum_congr rfl fun b _ => ?_
  simp only [← Finset.mul_sum]
  congr 1
  rw [← extend_extend, ← sum_hit_mul m n hn]
  refine Finset.sum_congr rfl fun p _ => ?_
  congr 1
  exact sum_hit_mul m n hn _ (X p)

example : docConv2 .wrap 2 (fun a b => ((2 * a + b : ℕ) : ℤ) + 1) 3 (fun i j => if i = 0 ∧ j = 0 then 1 else 0) 0 0 = 4 := by
  decide

/-! ## Poisson1D -/

/-- entry of the code's difference matrix: `Dx[k,c]·dx = [c = k] − [c + 1 = k]` -/
theorem poissonD_entry (N : ℕ) (dx : K) (k c : ℕ) :
    (poissonD N dx).e k c = ((if c = k then 1 else 0) - (if c + 1 = k then 1 else 0)) / dx := by
  unfold poissonD poissonDx0
  rcases k with _ | k
  · simp
  · simp only [Nat.succ_ne_zero, if_false, Nat.add_sub_cancel]
    congr 1
    by_cases h1 : k = c
    · subst h1; simp
    · have h1' : ¬ c = k := fun h => h1 h.symm
      simp [h1, h1']

/-- **poisson_assembled_eq_documented.**  `Dx.T @ diag(κ) @ Dx` — what `Poisson1D` assembles — is the
    documented conservative three-point stiffness matrix, for every size, spacing and conductivity. -/
theorem poisson_assembled_eq_documented (N : ℕ) (dx : K) (κ : ℕ → K) (i j : ℕ) (hi : i < N) (hj : j < N) :
    (poissonAsm N dx κ).e i j = (poissonDoc N dx κ).e i j := by
  simp only [poissonAsm, sumTo_eq_sum, poissonD_entry, poissonDoc]
  have key : ∀ k, ((if i = k then (1:K) else 0) - (if i + 1 = k then 1 else 0)) / dx * κ k
        * (((if j = k then (1:K) else 0) - (if j + 1 = k then 1 else 0)) / dx)
      = ((if k = i then (if j = i then κ i else 0) else 0)
        - (if k = i then (if j + 1 = i then κ i else 0) else 0)
        - (if k = i + 1 then (if j = i + 1 then κ (i + 1) else 0) else 0)
        + (if k = i + 1 then (if j = i then κ (i + 1) else 0) else 0)) / (dx * dx) := by
    intro k
    by_cases h1 : i = k
    · subst h1
      by_cases h2 : j = i
      · subst h2; simp; ring
      · by_cases h3 : j + 1 = i
        · simp [h2, h3]; ring
        · simp [h2, h3]
    · by_cases h2 : i + 1 = k
      · subst h2
        by_cases h3 : j = i + 1
        · subst h3; simp; ring
        · by_cases h4 : j = i
          · subst h4; simp; ring
          · have : ¬ j + 1 = i + 1 := by omega
            simp [h3, h4, this]
      · have h1' : ¬ k = i := fun h => h1 h.symm
        have h2' : ¬ k = i + 1 := fun h => h2 h.symm
        simp [h1, h2, h1', h2']
  simp only [key]
  rw [← Finset.sum_div]
  simp only [Finset.sum_add_distrib, Finset.sum_sub_distrib, Finset.sum_ite_eq', mem_range]
  have a1 : i < N + 1 := by omega
  have a2 : i + 1 < N + 1 := by omega
  simp only [a1, a2, if_true]
  by_cases c1 : j = i
  · subst c1
    have f2 : ¬ j + 1 = j := by omega
    have f3 : ¬ j = j + 1 := by omega
    simp only [f2, f3, if_true, if_false]; ring
  · by_cases c2 : j = i + 1
    · subst c2
      have f1 : ¬ i + 1 = i := by omega
      have f2 : ¬ i + 1 + 1 = i := by omega
      have f3 : ¬ i = i + 1 := by omega
      simp only [f1, f2, f3, if_true, if_false]; ring
    · by_cases c3 : i = j + 1
      · subst c3
        have f1 : ¬ j = j + 1 := by omega
        have f2 : ¬ j = j + 1 + 1 := by omega
        have f3 : ¬ j + 1 = j := by omega
        simp only [f1, f2, f3, if_true, if_false]; ring
      · have f1 : ¬ i = j := fun e => c1 e.symm
        have f2 : ¬ j + 1 = i := fun e => c3 e.symm
        simp only [c1, c2, c3, f1, f2, if_true, if_false]; ring

example : (poissonAsm 3 (1/4 : ℚ) (fun k => (k : ℚ) + 1)).e 1 2 = -48 := by
  norm_num [poissonAsm, poissonD, poissonDx0, sumTo]

/-- **poisson_documented_flux_form.**  The documented matrix applied to `u` is the flux difference
    `(κ_i (u_i − u_{i−1}) − κ_{i+1} (u_{i+1} − u_i)) / dx²` with `u_{−1} = u_N = 0` (homogeneous Dirichlet
    ends): the conservative discretisation of `−(κ u')' `. -/
theorem poisson_documented_flux_form (N : ℕ) (dx : K) (κ u : ℕ → K) (i : ℕ) (hi : i < N) :
    (poissonDoc N dx κ).apply u i
      = (κ i * (u i - (if i = 0 then 0 else u (i - 1))) - κ (i + 1) * ((if i + 1 < N then u (i + 1) else 0) - u i)) / (dx * dx) := by
  rw [apply_eq]
  show ∑ j ∈ range N, (poissonDoc N dx κ).e i j * u j = _
  have key : ∀ j, (poissonDoc N dx κ).e i j * u j
      = ((if j = i then (κ i + κ (i + 1)) * u i else 0)
        - (if j = i + 1 then κ (i + 1) * u (i + 1) else 0)
        - (if j + 1 = i then κ i * u (i - 1) else 0)) / (dx * dx) := by
    intro j
    simp only [poissonDoc]
    by_cases c1 : i = j
    · subst c1
      have f1 : ¬ i = i + 1 := by omega
      have f2 : ¬ i + 1 = i := by omega
      simp only [f1, f2, if_true, if_false]; ring
    · by_cases c2 : j = i + 1
      · subst c2
        have f1 : ¬ i + 1 = i := by omega
        have f2 : ¬ i + 1 + 1 = i := by omega
        simp only [c1, f1, f2, if_true, if_false]; ring
      · by_cases c3 : i = j + 1
        · subst c3
          have f1 : ¬ j = j + 1 := by omega
          simp only [c1, c2, f1, if_true, if_false, Nat.add_sub_cancel]; ring
        · have f1 : ¬ j = i := fun e => c1 e.symm
          have f2 : ¬ j + 1 = i := fun e => c3 e.symm
          simp only [c1, c2, c3, f1, f2, if_false]; ring
  simp only [key]
  rw [← Finset.sum_div, Finset.sum_sub_distrib, Finset.sum_sub_distrib]
  simp only [Finset.sum_ite_eq', mem_range, hi, if_true]
  congr 1
  have e3 : ∑ j ∈ range N, (if j + 1 = i then κ i * u (i - 1) else 0) = if i = 0 then 0 else κ i * u (i - 1) := by
    rcases i with _ | i
    · simp
    · rw [Finset.sum_eq_single i]
      · simp
      · intro b _ hb; have : ¬ b + 1 = i + 1 := by omega
        rw [if_neg this]
      · intro h; exact absurd (mem_range.mpr (by omega)) h
  rw [e3]
  split_ifs <;> ring

/-! ## Heat1D -/

/-- **heat_step_eq_documented.**  One pass of `TimeDependentLinearPDE.solve` on the `Heat1D` form —
    `(dt·Dxx + I) u + dt·0` — is the explicit Euler step of `u_t = u_xx` with zero Dirichlet values. -/
theorem heat_step_eq_documented (N : ℕ) (dx dt : K) (u : ℕ → K) (i : ℕ) (hi : i < N) :
    heatStep N dx dt u i = heatDocStep N dx dt u i := by
  unfold heatStep heatDocStep
  rw [apply_eq]
  show ∑ j ∈ range N, (heatStepMat N dx dt).e i j * u j + dt * 0 = _
  have key : ∀ j, (heatStepMat N dx dt).e i j * u j
      = (if j = i then (1 - dt * (1 + 1) / (dx * dx)) * u i else 0)
        + (if j + 1 = i then dt / (dx * dx) * u (i - 1) else 0)
        + (if j = i + 1 then dt / (dx * dx) * u (i + 1) else 0) := by
    intro j
    simp only [heatStepMat, heatDxx]
    by_cases c1 : i = j
    · subst c1
      have f1 : ¬ i = i + 1 := by omega
      have f2 : ¬ i + 1 = i := by omega
      simp only [f1, f2, if_true, if_false]; ring
    · by_cases c2 : j = i + 1
      · subst c2
        have f1 : ¬ i + 1 = i := by omega
        have f2 : ¬ i = i + 1 + 1 := by omega
        have f3 : ¬ i + 1 + 1 = i := by omega
        simp only [c1, f1, f2, f3, if_true, if_false]; ring
      · by_cases c3 : i = j + 1
        · subst c3
          have f1 : ¬ j = j + 1 := by omega
          simp only [c1, c2, f1, if_true, if_false, Nat.add_sub_cancel]; ring
        · have f1 : ¬ j = i := fun e => c1 e.symm
          have f2 : ¬ j + 1 = i := fun e => c3 e.symm
          simp only [c1, c2, c3, f1, f2, if_false]; ring
  simp only [key, Finset.sum_add_distrib, Finset.sum_ite_eq', mem_range, hi, if_true]
  have e2 : ∑ j ∈ range N, (if j + 1 = i then dt / (dx * dx) * u (i - 1) else 0)
      = if i = 0 then 0 else dt / (dx * dx) * u (i - 1) := by
    rcases i with _ | i
    · simp
    · rw [Finset.sum_eq_single i]
      · simp
      · intro b _ hb; have : ¬ b + 1 = i + 1 := by omega
        rw [if_neg this]
      · intro h; exact absurd (mem_range.mpr (by omega)) h
  rw [e2]
  split_ifs <;> ring

/-- **heat_solve_recurrence.**  Level 0 of the stored solution is the initial condition and every
    further level is the documented Euler step of the previous one (all step counts, by induction). -/
theorem heat_solve_recurrence (N : ℕ) (dx dt : K) (u0 : ℕ → K) (k i : ℕ) (hi : i < N) :
    heatSolve N dx dt 0 u0 i = u0 i ∧
    heatSolve N dx dt (k + 1) u0 i = heatDocStep N dx dt (heatSolve N dx dt k u0) i :=
  ⟨rfl, heat_step_eq_documented N dx dt _ i hi⟩

example : heatSolve 3 (1/4 : ℚ) (1/40) 1 (fun i => if i = 0 then 1 else 0) 1 = 2/5 := by
  norm_num [heatSolve, heatStep, heatStepMat, heatDxx, LMat.apply, sumTo]

/-- **heat_maxIter_spec.**  The number of time steps is the CFL-derived count: the largest `k` with
    `k · (5/11) dx² ≤ max_time`. -/
theorem heat_maxIter_spec (T dx : ℚ) (hT : 0 ≤ T) (hdx : dx ≠ 0) :
    (heatMaxIter T dx : ℚ) * (5 / 11 * (dx * dx)) ≤ T ∧ T < ((heatMaxIter T dx : ℚ) + 1) * (5 / 11 * (dx * dx)) := by
  have ha : (0 : ℚ) < 5 / 11 * (dx * dx) := by have := mul_self_pos.mpr hdx; positivity
  set a : ℚ := 5 / 11 * (dx * dx) with ha_def
  have hq : 0 ≤ T / a := div_nonneg hT ha.le
  have hfl : (0 : ℤ) ≤ ⌊T / a⌋ := Int.floor_nonneg.mpr hq
  have hk : (heatMaxIter T dx : ℚ) = ((⌊T / a⌋ : ℤ) : ℚ) := by
    unfold heatMaxIter
    show (((T / a).floor.toNat : ℕ) : ℚ) = _
    have : (T / a).floor = ⌊T / a⌋ := rfl
    rw [this]
    have h2 : ((⌊T / a⌋.toNat : ℕ) : ℤ) = ⌊T / a⌋ := Int.toNat_of_nonneg hfl
    exact_mod_cast congrArg (fun z : ℤ => (z : ℚ)) h2
  rw [hk]
  constructor
  · have := Int.floor_le (T / a)
    calc ((⌊T / a⌋ : ℤ) : ℚ) * a ≤ T / a * a := by gcongr
      _ = T := by field_simp
  · have := Int.lt_floor_add_one (T / a)
    calc T = T / a * a := by field_simp
      _ < (((⌊T / a⌋ : ℤ) : ℚ) + 1) * a := by gcongr

example : heatMaxIter (1/5) (1/5) = 11 := by decide +kernel

/-- **heat_cfl_stable.**  With at least 10 time steps the actual step `max_time / max_iter` of the
    `linspace` time grid keeps the explicit scheme inside its stability bound `dt / dx² ≤ 1/2`
    (the step is `≥` the nominal `5/11 · dx²`, never smaller). -/
theorem heat_cfl_stable (T dx : ℚ) (hT : 0 ≤ T) (hdx : dx ≠ 0) (hk : 10 ≤ heatMaxIter T dx) :
    5 / 11 ≤ heatDt T (heatMaxIter T dx) / (dx * dx) ∧ heatDt T (heatMaxIter T dx) / (dx * dx) ≤ 1 / 2 := by
  obtain ⟨h1, h2⟩ := heat_maxIter_spec T dx hT hdx
  have hd : (0 : ℚ) < dx * dx := mul_self_pos.mpr hdx
  have hkq : (10 : ℚ) ≤ (heatMaxIter T dx : ℚ) := by exact_mod_cast hk
  set k : ℚ := (heatMaxIter T dx : ℚ) with hk_def
  have hkpos : (0 : ℚ) < k := by linarith
  unfold heatDt
  rw [← hk_def]
  constructor
  · rw [le_div_iff₀ hd, le_div_iff₀ hkpos]; nlinarith
  · rw [div_le_iff₀ hd, div_le_iff₀ hkpos]; nlinarith

/-! ## Abel1D -/

/-- **abel_assembled_eq_documented.**  The entries C07's `abelSq` carries (`h/(i−j+½)` for `j ≤ i`) are
    the squares of the documented quadrature weights `h/√(s_i − t_j)` on the mask `t_j < s_i`, and
    the mask is exactly `j ≤ i`. -/
theorem abel_assembled_eq_documented (n : ℕ) (ep : ℚ) (hep : 0 < ep) (hn : 0 < n) (i j : ℕ) :
    (abelSq n ep).e i j = (abelDocSq n ep).e i j ∧ (abelMask n ep i j = true ↔ j ≤ i) := by
  have hh : (0 : ℚ) < ep / n := div_pos hep (by exact_mod_cast hn)
  set h : ℚ := ep / n with hdef
  have hmask : abelMask n ep i j = true ↔ j ≤ i := by
    unfold abelMask abelS abelT
    rw [decide_eq_true_iff, ← hdef]
    constructor
    · intro hlt
      by_contra hcon
      have : (i : ℚ) + 1 ≤ j := by exact_mod_cast Nat.succ_le_of_lt (Nat.lt_of_not_le hcon)
      nlinarith
    · intro hle
      have : (j : ℚ) ≤ i := by exact_mod_cast hle
      nlinarith
  refine ⟨?_, hmask⟩
  unfold abelSq abelDocSq
  simp only []
  by_cases hji : j ≤ i
  · rw [if_pos hji, if_pos (hmask.mpr hji)]
    unfold abelS abelT
    rw [← hdef]
    have hc : ((i - j : ℕ) : ℚ) = (i : ℚ) - j := by push_cast [Nat.cast_sub hji]; ring
    rw [hc]
    have hpos : (0 : ℚ) < (i : ℚ) - j + 1 / 2 := by
      have : (j : ℚ) ≤ i := by exact_mod_cast hji
      linarith
    have e : h / 2 + ↑i * h + h / 2 - (h / 2 + ↑j * h) = h * ((i : ℚ) - j + 1 / 2) := by ring
    rw [e]
    field_simp
  · have : ¬ abelMask n ep i j = true := fun h' => hji (hmask.mp h')
    rw [if_neg hji, if_neg this]

example : (abelSq 3 1).e 2 0 = 2 / 15 := by norm_num [abelSq]

/-! ## WangCubic -/

open RExpr in
/-- **wang_forward_eq_documented.**  The coded forward map is the cubic `10 x₁ − 10 x₀³ + 5 x₀² + 6 x₀`. -/
theorem wang_forward_eq_documented (ρ : ℕ → ℝ) :
    eval ρ wangF = 10 * ρ 1 - 10 * ρ 0 ^ 3 + 5 * ρ 0 ^ 2 + 6 * ρ 0 := by
  simp [wangF]

open RExpr in
/-- **wang_jacobian.**  The coded Jacobian `[[−30 x₀² + 10 x₀ + 6, 10]]` is the derivative of the coded
    forward map in each coordinate, at every point (via the `RExpr` master theorem). -/
theorem wang_jacobian (ρ : ℕ → ℝ) :
    HasDerivAt (fun t => eval (Function.update ρ 0 t) wangF) (eval ρ (wangJ.getD 0 0)) (ρ 0) ∧
    HasDerivAt (fun t => eval (Function.update ρ 1 t) wangF) (eval ρ (wangJ.getD 1 0)) (ρ 1) := by
  have hs0 : Safe 0 ρ wangF := by simp [wangF]
  have hs1 : Safe 1 ρ wangF := by simp [wangF]
  constructor
  · refine (hasDerivAt_deriv 0 ρ wangF hs0).congr_deriv ?_
    simp [wangF, wangJ, RExpr.deriv, eval]
    ring
  · refine (hasDerivAt_deriv 1 ρ wangF hs1).congr_deriv ?_
    simp [wangF, wangJ, RExpr.deriv, eval]

example : RExpr.evalQ (RExpr.envQ [1, 2]) wangF = some 21 := by decide +kernel

/-- **wang_options_verbatim.**  Data and noise level that are given are used as given — including the
    falsy values `0` — and only an absent option takes the default `1`. -/
theorem wang_options_verbatim (d : ℚ) :
    wangData (some d) = d ∧ wangData (some 0) = 0 ∧ wangData none = 1 ∧ wangStd (some d) = d ∧ wangStd none = 1 :=
  ⟨rfl, rfl, rfl, rfl, rfl⟩

/-! ## data generation -/

/-- **noise_affine_gaussian.**  `noise_type = "gaussian"`: the sampling path of
    `Gaussian(model(x), noise_std²)` (`mean + e / (1/√cov)`) gives `exactData + |σ|·ξ`: the data differ
    from the exact data by the stated level times the standard-normal draw. -/
theorem noise_affine_gaussian (σ : ℝ) (hσ : σ ≠ 0) (y ξ : ℕ → ℝ) (i : ℕ) :
    samplePath Real.sqrt (covGaussian σ) y ξ i = docData false (fun t => |t|) |σ| y ξ i := by
  unfold samplePath covGaussian docData
  simp only [Bool.false_eq_true, if_false]
  rw [Real.sqrt_mul_self_eq_abs]
  have : |σ| ≠ 0 := abs_ne_zero.mpr hσ
  field_simp

/-- **noise_scaled_partial.**  `noise_type = "scaledGaussian"`: wherever the exact datum is non-zero the
    sampling path of `Gaussian(model(x), (y·σ)²)` gives `y_i + |σ|·|y_i|·ξ_i`.  The hypothesis `y i ≠ 0`
    is forced: for `y i = 0` the variance is 0 and the code divides by zero (known finding). -/
theorem noise_scaled_partial (σ : ℝ) (hσ : σ ≠ 0) (y ξ : ℕ → ℝ) (i : ℕ) (hy : y i ≠ 0) :
    samplePath Real.sqrt (covScaled σ y) y ξ i = docData true (fun t => |t|) |σ| y ξ i := by
  unfold samplePath covScaled docData
  simp only [if_true]
  rw [Real.sqrt_mul_self_eq_abs, abs_mul]
  have h1 : |σ| ≠ 0 := abs_ne_zero.mpr hσ
  have h2 : |y i| ≠ 0 := abs_ne_zero.mpr hy
  field_simp

/-- the variance of the scaled noise vanishes exactly where the exact datum (or the level) does -/
theorem noise_scaled_zero_cov_iff (σ : K) (y : ℕ → K) (i : ℕ) : covScaled σ y i = 0 ↔ y i = 0 ∨ σ = 0 := by
  unfold covScaled
  simp [mul_self_eq_zero]

example : samplePath sqrtQ (covScaled (1/2) (fun _ => (-10 : ℚ))) (fun _ => -10) (fun _ => -1) 0 = -15 := by
  decide +kernel

/-- **noise_affine_normal.**  Poisson1D / Heat1D / Abel1D: `data − exactData = σ·ξ` (`np.random.normal(0, σ)`). -/
theorem noise_affine_normal (σ : K) (y ξ : ℕ → K) (i : ℕ) : dataNormal σ y ξ i - y i = σ * ξ i := by
  unfold dataNormal; ring

/-- **snr_sigma.**  A noise level accepted by the certificate with zero tolerance is `‖exactData‖ / SNR`. -/
theorem snr_sigma (σ snr : ℚ) (y : List ℚ) (hsnr : 0 < snr) (h : snrSigmaOk σ snr 0 y = true) :
    (σ : ℝ) = Real.sqrt ((QMat.norm2 y : ℚ) : ℝ) / (snr : ℝ) := by
  unfold snrSigmaOk at h
  simp only [Bool.and_eq_true, decide_eq_true_eq, zero_mul] at h
  obtain ⟨h0, h1⟩ := h
  have hd : σ * σ * snr * snr - QMat.norm2 y = 0 := by
    by_cases hneg : σ * σ * snr * snr - QMat.norm2 y < 0
    · rw [if_pos hneg] at h1; linarith
    · rw [if_neg hneg] at h1; linarith
  have hn : (QMat.norm2 y : ℚ) = (σ * snr) * (σ * snr) := by linarith
  rw [hn]
  have hpos : (0 : ℝ) ≤ (σ : ℝ) * (snr : ℝ) := by
    have : (0 : ℚ) ≤ σ * snr := mul_nonneg h0 hsnr.le
    exact_mod_cast this
  have hsr : (0 : ℝ) < (snr : ℝ) := by exact_mod_cast hsnr
  push_cast
  rw [Real.sqrt_mul_self hpos]
  field_simp

example : snrSigmaOk (1/2) 10 0 [3, 4] = true := by decide +kernel

/-! ## component plumbing -/

/-- **components_coherent.**  For every test problem and both construction paths, `get_components()`
    returns the model found inside the likelihood's data distribution and the data the likelihood was
    conditioned on, the posterior's prior is the prior handed in, and the exact values / info fields are
    the constructor's own attributes (absent exactly for the problems that do not set them). -/
theorem components_coherent (p : Problem) :
    (getComponents p).model = .model ∧ (getComponents p).data = .data ∧
    (mkTarget p.path).getPrior = .prior ∧ (mkTarget p.path).likelihood.dist = .dataDist ∧
    ((getComponents p).exactData = .exactData ↔ p ≠ .wangCubic) ∧
    ((getComponents p).exactSolution = .exactSolution ↔ p ≠ .wangCubic) := by
  cases p <;> decide

end CuqiVerif.C17
