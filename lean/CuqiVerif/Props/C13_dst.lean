import CuqiVerif.Props.C13
import CuqiVerif.Proofs.C13_dst
import Mathlib.Data.Real.Basic
import Mathlib.Data.Rat.Cast.CharZero

/-!
# C13 (dst) — the sine-transform inversion that `kl_fun2par_par2fun` assumed, proved

`cuqi/geometry/_geometry.py` (l.6) imports `dst, idst` from **`scipy.fftpack`** and calls them with
default arguments (`KLExpansion.par2fun`, l.875: `idst(modes.T).T/2`; `KLExpansion.fun2par`, l.915:
`dst(funvals.T*2).T[:par_dim,:]`), i.e. `type=2`, `norm=None`, `n=None`, last axis:

* `dst(x, type=2)[k]  = 2 Σ_{n<N} x[n] sin(π (k+1)(2n+1) / (2N))`                      (DST-II, unnormalised)
* `idst(v, type=2)[n] = (-1)^n v[N-1] + 2 Σ_{j<N-1} v[j] sin(π (2n+1)(j+1) / (2N))`     (= unnormalised DST-III)

(the formulas of the scipy.fftpack documentation; `idst` of type 2 is the *unnormalised* DST-III, which
is why the code divides by `2N` itself).  These two finite real sums are `dstII` and `idstII` below;
both were compared with `scipy.fftpack.dst/idst` numerically (N = 1,2,3,5,8: max abs deviation 1.3e-14).

Proved here, for **every** `N ≥ 1`: the discrete sine orthogonality relations on the half-integer
sample points, the inversion identity `dstII N (idstII N v) k = 2N · v k` (all `k < N`), and with it
the KL round trip `fun2par (par2fun p) = p` for every `num_modes ≤ N` **without** any hypothesis on the
transforms.  `kl_fun2par_par2fun` (Props/C13.lean) is generic in the transforms; the theorems below
are its instance at `K = ℝ`, `dst = dstII N`, `idst = idstII N`.
-/

namespace CuqiVerif.C13

open Real Finset

/-- `scipy.fftpack.dst(x, type=2, norm=None)` on a length-`N` vector, entry `k`:
    `2 Σ_{n<N} x[n] sin(π (k+1)(2n+1)/(2N))`. -/
noncomputable def dstII (N : ℕ) (x : ℕ → ℝ) (k : ℕ) : ℝ :=
  2 * ∑ n ∈ range N, x n * Real.sin (π * ((k : ℝ) + 1) * (2 * (n : ℝ) + 1) / (2 * (N : ℝ)))

/-- `scipy.fftpack.idst(v, type=2, norm=None)` (= unnormalised DST-III) on a length-`N` vector,
    entry `n`: `(-1)^n v[N-1] + 2 Σ_{j<N-1} v[j] sin(π (2n+1)(j+1)/(2N))`. -/
noncomputable def idstII (N : ℕ) (v : ℕ → ℝ) (n : ℕ) : ℝ :=
  (-1) ^ n * v (N - 1) +
    2 * ∑ j ∈ range (N - 1), v j * Real.sin (π * (2 * (n : ℝ) + 1) * ((j : ℝ) + 1) / (2 * (N : ℝ)))

/-- scipy's argument `π(k+1)(2n+1)/(2N)` in the form used by the helper lemmas -/
lemma dst_angle_eq (N n k : ℕ) :
    π * ((k : ℝ) + 1) * (2 * (n : ℝ) + 1) / (2 * (N : ℝ)) =
      (2 * (n : ℝ) + 1) * (π * ((k + 1 : ℕ) : ℝ) / (2 * (N : ℝ))) := by
  push_cast; ring

lemma idst_angle_eq (N n j : ℕ) :
    π * (2 * (n : ℝ) + 1) * ((j : ℝ) + 1) / (2 * (N : ℝ)) =
      (2 * (n : ℝ) + 1) * (π * ((j + 1 : ℕ) : ℝ) / (2 * (N : ℝ))) := by
  push_cast; ring

/-- **Discrete sine orthogonality (DST-II/III sample points), every `N`.**  For `k, j < N`:
    `Σ_{n<N} sin(π(k+1)(2n+1)/(2N)) · sin(π(j+1)(2n+1)/(2N))` is `0` for `k ≠ j`, `N/2` for
    `k = j < N-1` and `N` for `k = j = N-1`.  These are the rows of the matrix applied by `dst` in
    `KLExpansion.fun2par`; the exceptional value `N` of the last row is exactly compensated by the
    weight `1` (instead of `2`) that `idst` gives to the last coefficient. -/
theorem dst_sine_orthogonality (N k j : ℕ) (hk : k < N) (hj : j < N) :
    ∑ n ∈ range N, Real.sin (π * ((k : ℝ) + 1) * (2 * (n : ℝ) + 1) / (2 * (N : ℝ))) *
        Real.sin (π * ((j : ℝ) + 1) * (2 * (n : ℝ) + 1) / (2 * (N : ℝ))) =
      if k = j then (if k + 1 = N then (N : ℝ) else (N : ℝ) / 2) else 0 := by
  simp only [dst_angle_eq]
  rw [sum_sin_sin N (k + 1) (j + 1) (by omega) (by omega) (by omega) (by omega)]
  simp only [Nat.add_right_cancel_iff]

example : ∑ n ∈ range 4, Real.sin (π * ((1 : ℕ) + 1 : ℝ) * (2 * (n : ℝ) + 1) / (2 * ((4 : ℕ) : ℝ))) *
    Real.sin (π * ((1 : ℕ) + 1 : ℝ) * (2 * (n : ℝ) + 1) / (2 * ((4 : ℕ) : ℝ))) = 2 := by
  have := dst_sine_orthogonality 4 1 1 (by norm_num) (by norm_num)
  rw [this]; norm_num

/-- `idstII` as one weighted sine sum: the alternating term `(-1)^n v[N-1]` is the `j = N-1` sine with
    weight 1, all other coefficients have weight 2. -/
lemma idstII_eq_sum (N : ℕ) (hN : 0 < N) (v : ℕ → ℝ) (n : ℕ) :
    idstII N v n = ∑ j ∈ range N, (if j + 1 = N then (1 : ℝ) else 2) * v j *
      Real.sin ((2 * (n : ℝ) + 1) * (π * ((j + 1 : ℕ) : ℝ) / (2 * (N : ℝ)))) := by
  obtain ⟨M, rfl⟩ : ∃ M, N = M + 1 := ⟨N - 1, by omega⟩
  unfold idstII
  rw [sum_range_succ, if_pos rfl, sin_odd_half_pi (M + 1) n hN, Nat.add_sub_cancel, mul_sum]
  rw [add_comm]
  congr 1
  · refine sum_congr rfl fun j hj => ?_
    have : j + 1 ≠ M + 1 := by have := mem_range.mp hj; omega
    rw [if_neg this, idst_angle_eq]; ring
  · ring

/-- **Inversion identity of scipy.fftpack's DST pair, every `N ≥ 1`**: with the explicit sums above,
    `dst(idst(v))[k] = 2N · v[k]` for all `k < N` — the relation `kl_fun2par_par2fun` took as a
    hypothesis and the harness only checked numerically.  It is what makes `KLExpansion.fun2par`'s
    division by `2*fun_dim` the right normalisation. -/
theorem dstII_idstII (N : ℕ) (hN : 0 < N) (v : ℕ → ℝ) (k : ℕ) (hk : k < N) :
    dstII N (idstII N v) k = 2 * (N : ℝ) * v k := by
  unfold dstII
  simp only [idstII_eq_sum N hN, dst_angle_eq]
  have hswap : ∑ n ∈ range N, (∑ j ∈ range N, (if j + 1 = N then (1 : ℝ) else 2) * v j *
        Real.sin ((2 * (n : ℝ) + 1) * (π * ((j + 1 : ℕ) : ℝ) / (2 * (N : ℝ))))) *
        Real.sin ((2 * (n : ℝ) + 1) * (π * ((k + 1 : ℕ) : ℝ) / (2 * (N : ℝ)))) =
      ∑ j ∈ range N, (if j + 1 = N then (1 : ℝ) else 2) * v j *
        ∑ n ∈ range N, Real.sin ((2 * (n : ℝ) + 1) * (π * ((j + 1 : ℕ) : ℝ) / (2 * (N : ℝ)))) *
          Real.sin ((2 * (n : ℝ) + 1) * (π * ((k + 1 : ℕ) : ℝ) / (2 * (N : ℝ)))) := by
    simp only [sum_mul, mul_sum]
    rw [sum_comm]
    refine sum_congr rfl fun j _ => sum_congr rfl fun n _ => ?_
    ring
  rw [hswap]
  have horth : ∀ j ∈ range N, (if j + 1 = N then (1 : ℝ) else 2) * v j *
        ∑ n ∈ range N, Real.sin ((2 * (n : ℝ) + 1) * (π * ((j + 1 : ℕ) : ℝ) / (2 * (N : ℝ)))) *
          Real.sin ((2 * (n : ℝ) + 1) * (π * ((k + 1 : ℕ) : ℝ) / (2 * (N : ℝ)))) =
      if j = k then (N : ℝ) * v k else 0 := by
    intro j hj
    have hj' := mem_range.mp hj
    rw [sum_sin_sin N (j + 1) (k + 1) (by omega) (by omega) (by omega) (by omega)]
    by_cases hjk : j = k
    · subst hjk
      simp only [if_true]
      by_cases hl : j + 1 = N
      · simp only [hl, if_true]; ring
      · simp only [hl, if_false]; ring
    · have : j + 1 ≠ k + 1 := by omega
      simp [hjk]
  rw [sum_congr rfl horth, sum_ite_eq' (range N) k, if_pos (mem_range.mpr hk)]
  ring

example : dstII 3 (idstII 3 (fun i => (i : ℝ) + 5)) 2 = 2 * ((3 : ℕ) : ℝ) * (((2 : ℕ) : ℝ) + 5) :=
  dstII_idstII 3 (by norm_num) _ 2 (by norm_num)

/-- the degenerate size `N = 1` (one grid node), by direct evaluation: `idst(v) = v`, `dst(x) = 2x` -/
example (v : ℕ → ℝ) : dstII 1 (idstII 1 v) 0 = 2 * v 0 := by
  have := dstII_idstII 1 (by norm_num) v 0 (by norm_num)
  simpa using this

/-- **KLExpansion round trip with scipy's transforms written out — no hypothesis on `dst/idst`.**
    For every grid size `N ≥ 1`, every `num_modes = m ≤ N`, every normaliser `τ ≠ 0`, every
    coefficient sequence with `c i ≠ 0` (the code's `1/(i+1)^γ`), every parameter vector `p`:
    `fun2par (par2fun p) i = p i` for all `i < m`, where `par2fun p = idst(pad(c·p/τ))/2` and
    `fun2par f = c⁻¹ · dst(2 f)[:m] · τ / (2N)` exactly as in `KLExpansion.par2fun/fun2par`
    (`klPreK`, `klPostK` are the field-generic forms of the executable `klPre`, `klPost`,
    see `klPre_is_instance`, `klPost_is_instance`).  Real arithmetic. -/
theorem kl_fun2par_par2fun_dst (N m : ℕ) (hN : N ≠ 0) (hmN : m ≤ N)
    (c : ℕ → ℝ) (τ : ℝ) (hτ : τ ≠ 0) (p : ℕ → ℝ) (i : ℕ) (hi : i < m) (hc : c i ≠ 0) :
    klPostK c τ N (dstII N (fun j => 2 * (idstII N (klPreK c τ m p) j / 2))) i = p i :=
  kl_fun2par_par2fun (K := ℝ) (dstII N) (idstII N) N m hN
    (fun v k hk => dstII_idstII N (Nat.pos_of_ne_zero hN) v k hk) c τ hτ p i hi hmN hc

example : klPostK (fun i => (1 : ℝ) / ((i : ℝ) + 1) ^ 2) 12 5
    (dstII 5 (fun j => 2 * (idstII 5 (klPreK (fun i => (1 : ℝ) / ((i : ℝ) + 1) ^ 2) 12 3
      (fun i => (i : ℝ) - 7)) j / 2))) 2 = ((2 : ℕ) : ℝ) - 7 :=
  kl_fun2par_par2fun_dst 5 3 (by norm_num) (by norm_num) _ 12 (by norm_num) _ 2 (by norm_num)
    (by positivity)

/-- the cast `ℚ → ℝ` commutes with the scaled, zero-padded modes -/
lemma klPreK_cast (c : ℕ → ℚ) (τ : ℚ) (m : ℕ) (p : ℕ → ℚ) (j : ℕ) :
    ((klPreK c τ m p j : ℚ) : ℝ) = klPreK (fun i => ((c i : ℚ) : ℝ)) (τ : ℝ) m (fun i => ((p i : ℚ) : ℝ)) j := by
  unfold klPreK
  split_ifs <;> simp

/-- **The same round trip, started from the model's rational data.**  `klPreK c τ m p` over `ℚ` is what
    the executable `klPre` computes (one column, `klPre_is_instance`); cast to `ℝ`, pushed through
    scipy's `idst(.)/2`, then `dst(2·.)` and the `ℚ`-coefficients of `klPost` cast to `ℝ`, one gets
    back the rational parameter `p i`, for every `N ≥ 1`, `m ≤ N`, `γ`, `τ ≠ 0`.  With
    `c = klCoef γ` this is the code's decay `1/(i+1)^γ` for every integer decay rate. -/
theorem kl_fun2par_par2fun_dst_model (N m : ℕ) (hN : N ≠ 0) (hmN : m ≤ N)
    (c : ℕ → ℚ) (τ : ℚ) (hτ : τ ≠ 0) (p : ℕ → ℚ) (i : ℕ) (hi : i < m) (hc : c i ≠ 0) :
    klPostK (fun i => ((c i : ℚ) : ℝ)) (τ : ℝ) N
      (dstII N (fun j => 2 * (idstII N (fun j => ((klPreK c τ m p j : ℚ) : ℝ)) j / 2))) i = ((p i : ℚ) : ℝ) := by
  have h : (fun j => ((klPreK c τ m p j : ℚ) : ℝ)) =
      klPreK (fun i => ((c i : ℚ) : ℝ)) (τ : ℝ) m (fun i => ((p i : ℚ) : ℝ)) := by
    funext j; exact klPreK_cast c τ m p j
  rw [h]
  exact kl_fun2par_par2fun_dst N m hN hmN _ _ (by exact_mod_cast hτ) _ i hi (by exact_mod_cast hc)

/-- `klCoef γ i = 1/(i+1)^γ` is never zero, so the theorem applies to the code's coefficients -/
lemma klCoef_ne_zero (γ i : ℕ) : klCoef γ i ≠ 0 := by
  unfold klCoef
  have : (((i + 1 : ℕ) : ℚ)) ^ γ ≠ 0 := pow_ne_zero _ (by exact_mod_cast Nat.succ_ne_zero i)
  exact one_div_ne_zero this

example : klPostK (fun i => ((klCoef 2 i : ℚ) : ℝ)) ((12 : ℚ) : ℝ) 6
    (dstII 6 (fun j => 2 * (idstII 6 (fun j => ((klPreK (klCoef 2) 12 4 (fun i => (i : ℚ) / 3) j : ℚ) : ℝ)) j / 2))) 3
      = (((3 : ℕ) : ℚ) / 3 : ℚ) :=
  kl_fun2par_par2fun_dst_model 6 4 (by norm_num) (by norm_num) (klCoef 2) 12 (by norm_num) _ 3 (by norm_num)
    (klCoef_ne_zero 2 3)

/-! ## the other composition: `idst ∘ dst`, and what it gives for `par2fun ∘ fun2par` -/

/-- `idstII` only reads the first `N` entries of its argument -/
lemma idstII_congr (N : ℕ) (hN : 0 < N) (v w : ℕ → ℝ) (h : ∀ j, j < N → v j = w j) (n : ℕ) :
    idstII N v n = idstII N w n := by
  unfold idstII
  rw [h (N - 1) (by omega)]
  congr 2
  refine sum_congr rfl fun j hj => ?_
  rw [h j (by have := mem_range.mp hj; omega)]

/-- `idstII` is homogeneous -/
lemma idstII_smul (N : ℕ) (a : ℝ) (v : ℕ → ℝ) (n : ℕ) :
    idstII N (fun j => a * v j) n = a * idstII N v n := by
  unfold idstII
  have h : ∑ j ∈ range (N - 1), a * v j * Real.sin (π * (2 * (n : ℝ) + 1) * ((j : ℝ) + 1) / (2 * (N : ℝ))) =
      a * ∑ j ∈ range (N - 1), v j * Real.sin (π * (2 * (n : ℝ) + 1) * ((j : ℝ) + 1) / (2 * (N : ℝ))) := by
    rw [mul_sum]
    exact sum_congr rfl fun j _ => by ring
  beta_reduce
  rw [h]
  ring

/-- **Reverse inversion identity, every `N ≥ 1`**: `idst(dst(x))[n] = 2N · x[n]` for all `n < N`
    (scipy.fftpack's unnormalised pair is a two-sided inverse up to `2N`).  Obtained from
    `dstII_idstII`'s orthogonality by "a left inverse of a square matrix is a right inverse". -/
theorem idstII_dstII (N : ℕ) (hN : 0 < N) (x : ℕ → ℝ) (n : ℕ) (hn : n < N) :
    idstII N (dstII N x) n = 2 * (N : ℝ) * x n := by
  rw [idstII_eq_sum N hN]
  unfold dstII
  simp only [dst_angle_eq]
  have hswap : ∑ j ∈ range N, (if j + 1 = N then (1 : ℝ) else 2) *
        (2 * ∑ m ∈ range N, x m * Real.sin ((2 * (m : ℝ) + 1) * (π * ((j + 1 : ℕ) : ℝ) / (2 * (N : ℝ))))) *
        Real.sin ((2 * (n : ℝ) + 1) * (π * ((j + 1 : ℕ) : ℝ) / (2 * (N : ℝ)))) =
      ∑ m ∈ range N, x m * ∑ j ∈ range N, (if j + 1 = N then (1 : ℝ) else 2) *
        Real.sin ((2 * (n : ℝ) + 1) * (π * ((j + 1 : ℕ) : ℝ) / (2 * (N : ℝ)))) *
        (2 * Real.sin ((2 * (m : ℝ) + 1) * (π * ((j + 1 : ℕ) : ℝ) / (2 * (N : ℝ))))) := by
    simp only [sum_mul, mul_sum]
    rw [sum_comm]
    refine sum_congr rfl fun m _ => sum_congr rfl fun j _ => ?_
    ring
  rw [hswap]
  have hd : ∀ m ∈ range N, x m * ∑ j ∈ range N, (if j + 1 = N then (1 : ℝ) else 2) *
        Real.sin ((2 * (n : ℝ) + 1) * (π * ((j + 1 : ℕ) : ℝ) / (2 * (N : ℝ)))) *
        (2 * Real.sin ((2 * (m : ℝ) + 1) * (π * ((j + 1 : ℕ) : ℝ) / (2 * (N : ℝ))))) =
      if m = n then 2 * (N : ℝ) * x n else 0 := by
    intro m hm
    rw [sum_sin_sin_dual N n m hn (mem_range.mp hm)]
    by_cases hmn : m = n
    · subst hmn; simp; ring
    · have : n ≠ m := fun h => hmn h.symm
      simp [hmn, this]
  rw [sum_congr rfl hd, sum_ite_eq' (range N) n, if_pos (mem_range.mpr hn)]

example : idstII 4 (dstII 4 (fun i => (i : ℝ) ^ 2 - 3)) 1 = 2 * ((4 : ℕ) : ℝ) * (((1 : ℕ) : ℝ) ^ 2 - 3) :=
  idstII_dstII 4 (by norm_num) _ 1 (by norm_num)

/-- `KLExpansion.par2fun` on one column, over `ℝ`, scipy's `idst` written out:
    `idst(pad(c·p/τ))/2` (l.868-875) -/
noncomputable def klPar2funR (N m : ℕ) (c : ℕ → ℝ) (τ : ℝ) (p : ℕ → ℝ) (n : ℕ) : ℝ :=
  idstII N (klPreK c τ m p) n / 2

/-- `KLExpansion.fun2par` on one column, over `ℝ`, scipy's `dst` written out:
    `c⁻¹ · dst(2 f)[:m] · τ / (2N)` (l.915-916; the truncation `[:m]` is "entries `i < m`") -/
noncomputable def klFun2parR (N : ℕ) (c : ℕ → ℝ) (τ : ℝ) (f : ℕ → ℝ) (i : ℕ) : ℝ :=
  klPostK c τ N (dstII N (fun n => 2 * f n)) i

/-- `kl_fun2par_par2fun_dst` in terms of the two named maps -/
theorem kl_roundtrip_maps (N m : ℕ) (hN : N ≠ 0) (hmN : m ≤ N)
    (c : ℕ → ℝ) (τ : ℝ) (hτ : τ ≠ 0) (p : ℕ → ℝ) (i : ℕ) (hi : i < m) (hc : c i ≠ 0) :
    klFun2parR N c τ (klPar2funR N m c τ p) i = p i :=
  kl_fun2par_par2fun_dst N m hN hmN c τ hτ p i hi hc

/-- `par2fun` only reads the first `m` parameters -/
lemma klPar2funR_congr (N m : ℕ) (c : ℕ → ℝ) (τ : ℝ) (p q : ℕ → ℝ) (h : ∀ i, i < m → p i = q i) :
    klPar2funR N m c τ p = klPar2funR N m c τ q := by
  have : klPreK c τ m p = klPreK c τ m q := by
    funext i; unfold klPreK; split_ifs with hi
    · rw [h i hi]
    · rfl
  funext n; unfold klPar2funR; rw [this]

/-- **`par2fun ∘ fun2par` is a projection for every `num_modes = m ≤ N`** (the docstring of
    `KLExpansion.fun2par`: "a projection on the KL expansion coefficient space"): applying
    `par2fun (fun2par ·)` twice is the same as applying it once, for every function-value vector `f`,
    at every node.  Needs `c i ≠ 0` for the used modes only. -/
theorem kl_par2fun_fun2par_idempotent (N m : ℕ) (hN : N ≠ 0) (hmN : m ≤ N)
    (c : ℕ → ℝ) (τ : ℝ) (hτ : τ ≠ 0) (hc : ∀ i, i < m → c i ≠ 0) (f : ℕ → ℝ) :
    klPar2funR N m c τ (klFun2parR N c τ (klPar2funR N m c τ (klFun2parR N c τ f))) =
      klPar2funR N m c τ (klFun2parR N c τ f) :=
  klPar2funR_congr N m c τ _ _ fun i hi =>
    kl_roundtrip_maps N m hN hmN c τ hτ (klFun2parR N c τ f) i hi (hc i hi)

example : klPar2funR 5 2 (fun i => 1 / ((i : ℝ) + 1)) 12
    (klFun2parR 5 (fun i => 1 / ((i : ℝ) + 1)) 12 (klPar2funR 5 2 (fun i => 1 / ((i : ℝ) + 1)) 12
      (klFun2parR 5 (fun i => 1 / ((i : ℝ) + 1)) 12 (fun n => (n : ℝ) ^ 2)))) =
    klPar2funR 5 2 (fun i => 1 / ((i : ℝ) + 1)) 12
      (klFun2parR 5 (fun i => 1 / ((i : ℝ) + 1)) 12 (fun n => (n : ℝ) ^ 2)) :=
  kl_par2fun_fun2par_idempotent 5 2 (by norm_num) (by norm_num) _ 12 (by norm_num)
    (fun i _ => by positivity) _

/-- **With all modes (`num_modes = N`, the default `num_modes=None`) the two maps are mutually inverse
    in both orders**: `par2fun (fun2par f) n = f n` at every node `n < N`, for every `f`. -/
theorem kl_par2fun_fun2par_full (N : ℕ) (hN : N ≠ 0)
    (c : ℕ → ℝ) (τ : ℝ) (hτ : τ ≠ 0) (hc : ∀ i, i < N → c i ≠ 0) (f : ℕ → ℝ) (n : ℕ) (hn : n < N) :
    klPar2funR N N c τ (klFun2parR N c τ f) n = f n := by
  have hN0 : 0 < N := Nat.pos_of_ne_zero hN
  have hN' : (N : ℝ) ≠ 0 := by exact_mod_cast hN
  unfold klPar2funR
  have h1 : ∀ j, j < N → klPreK c τ N (klFun2parR N c τ f) j =
      (2 * (N : ℝ))⁻¹ * dstII N (fun n => 2 * f n) j := by
    intro j hj
    have := hc j hj
    unfold klPreK klFun2parR klPostK
    rw [if_pos hj]
    field_simp
  rw [idstII_congr N hN0 _ _ h1, idstII_smul, idstII_dstII N hN0 _ n hn]
  field_simp

example : klPar2funR 3 3 (fun i => 1 / ((i : ℝ) + 1) ^ 2) 12
    (klFun2parR 3 (fun i => 1 / ((i : ℝ) + 1) ^ 2) 12 (fun n => (n : ℝ) - 1)) 2 = ((2 : ℕ) : ℝ) - 1 :=
  kl_par2fun_fun2par_full 3 (by norm_num) _ 12 (by norm_num) (fun i _ => by positivity) _ 2 (by norm_num)

end CuqiVerif.C13
