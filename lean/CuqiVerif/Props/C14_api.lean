import CuqiVerif.Model.C14
import CuqiVerif.Model.C14_api
import CuqiVerif.Proofs.C14

/-!
# C14 — the guards and error branches of the stateful base class (`Model/C14_api.lean`)

What `initialize`, `set_state`, `load_checkpoint` do when they refuse, how the guarded versions relate
to the unguarded transcriptions `initializeRun` / `setState` of `Model/C14.lean` that the
main theorems are about, and that a checkpoint produced by `get_state` is never refused.
-/
namespace CuqiVerif.C14

/-- `for k, v in d.items(): setattr(self, k, v)` -/
def applyAll (st : List (String × Val)) (o : Obj) : Obj := st.foldl (fun o kv => o.set kv.1 kv.2) o

/-- **What `set_state` leaves behind**: the loop assigns exactly the longest prefix of the
    dictionary whose keys are all state keys, and it completes iff every key is a state key. -/
theorem setStateRun_spec (keys : List String) (st : List (String × Val)) :
    ∀ o : Obj, (setStateRun keys st o).1 = applyAll (st.takeWhile (fun kv => decide (kv.1 ∈ keys))) o ∧
      (setStateRun keys st o).2 = st.all (fun kv => decide (kv.1 ∈ keys)) := by
  induction st with
  | nil => intro o; simp [setStateRun, applyAll]
  | cons kv rest ih =>
    intro o
    obtain ⟨k, v⟩ := kv
    by_cases hk : k ∈ keys
    · obtain ⟨h1, h2⟩ := ih (o.set k v)
      simp [setStateRun, hk, h1, h2, applyAll]
    · simp [setStateRun, hk, applyAll]

/-- **The guarded `set_state` agrees with the unguarded one** used by `resume_bisim`: it runs to the
    end exactly when `setState` succeeds, with the same object. -/
theorem setStateRun_iff_setState (keys : List String) (st : List (String × Val)) :
    ∀ (o o' : Obj), setState keys st o = some o' ↔ setStateRun keys st o = (o', true) := by
  induction st with
  | nil => intro o o'; simp [setState, setStateRun]
  | cons kv rest ih =>
    intro o o'
    obtain ⟨k, v⟩ := kv
    by_cases hk : k ∈ keys
    · simp [setState, setStateRun, hk, ih]
    · simp [setState, setStateRun, hk]

/-- a dictionary of another sampler class is refused before anything is assigned -/
theorem setStateApi_type_mismatch (cls ty : String) (keys : List String) (st : List (String × Val)) (o : Obj)
    (h : ty ≠ cls) : setStateApi cls keys ty st o = (o, some .typeMismatch) := by
  simp [setStateApi, h]

/-- **A checkpoint of the same class is never refused**: `set_state(get_state(orig))` on any
    object of that class raises nothing, copies the state keys and leaves every other attribute. -/
theorem setStateApi_roundtrip (cls : String) (S : List String) (orig fresh : Obj) :
    ∃ o', setStateApi cls S cls (getState S orig) fresh = (o', Option.none) ∧ AgreeOn S o' orig ∧
      (∀ k, k ∉ S → o'.get k = fresh.get k) := by
  obtain ⟨o', h1, h2, h3⟩ := setState_getState S orig fresh
  have h := (setStateRun_iff_setState S (getState S orig) fresh o').mp h1
  exact ⟨o', by simp [setStateApi, h], h2, h3⟩

/-- **Witness: a refused `set_state` is not atomic** — `{scale: 9, not_a_state_key: 0}` raises at the
    second key and leaves `scale = 9` behind (the tie's `loadpart` op observes exactly this). -/
theorem setStateApi_partial_witness :
    let o : Obj := (Obj.empty.set "current_point" (.int 1)).set "scale" (.int 2)
    let res := setStateApi "Toy" ["current_point", "scale", "eps_bar"] "Toy" [("scale", .int 9), ("not_a_state_key", .int 0)] o
    res.2 = some .badKey ∧ res.1.get "scale" = .int 9 ∧ res.1.get "current_point" = .int 1 := by
  decide

/-- **The guarded `initialize` is the unguarded one whenever it does not raise** and an initial
    point was given: the run the main theorems (`sample_append`, `resume_bisim`, …) start from. -/
theorem initializeApi_eq_initializeRun {D A : Type} (sp : Spec D A) (dim : Nat) (r : Run D A)
    (hx : r.obj.get "initial_point" ≠ Val.none) (r' : Run D A)
    (h : initializeApi sp dim r = (r', Option.none)) : r' = initializeRun sp r := by
  unfold initializeApi at h
  by_cases hi : r.initialized = true
  · simp [hi] at h
  · by_cases hv : sp.stateKeys.any (fun k => (sp.init (defaultPoint dim r.obj)).get k = Val.none) = true
    · simp [hi, hv] at h
    · simp only [hi, hv, Bool.false_eq_true, if_false, Prod.mk.injEq, and_true] at h
      rw [← h]
      simp [initializeRun, defaultPoint, hx]

/-- **`initialize()` twice**: after a successful `initialize` a second call raises and changes
    nothing; after a call rejected by `_validate_initialization` the sampler is *not* initialised
    (so the next `sample`/`warmup`/`save_checkpoint` tries again and raises again) and its history is
    the fresh one. -/
theorem initializeApi_outcomes {D A : Type} (sp : Spec D A) (dim : Nat) (r : Run D A) :
    ((initializeApi sp dim r).2 = Option.none → (initializeApi sp dim r).1.initialized = true ∧
        initializeApi sp dim (initializeApi sp dim r).1 = ((initializeApi sp dim r).1, some .alreadyInit)) ∧
    ((initializeApi sp dim r).2 = some .unsetKey → (initializeApi sp dim r).1.initialized = false ∧
        (initializeApi sp dim r).1.samples = []) ∧
    ((initializeApi sp dim r).2 = some .alreadyInit → (initializeApi sp dim r).1 = r) := by
  unfold initializeApi
  by_cases hi : r.initialized = true
  · simp [hi]
  · by_cases hv : sp.stateKeys.any (fun k => (sp.init (defaultPoint dim r.obj)).get k = Val.none) = true
    · simp [hi, hv]
    · simp [hi, hv]

/-- satisfiable: the toy class with and without a valid configuration -/
example :
    let ok : Run Int Int := Run.fresh ((Obj.empty.set "initial_point" .none).set "initial_scale" (.int 2)) []
    let bad : Run Int Int := Run.fresh ((Obj.empty.set "initial_point" (.ints [4])).set "initial_scale" .none) []
    (initializeApi toySpec 2 ok).2 = Option.none ∧ point (initializeApi toySpec 2 ok).1.obj = .ints [1, 1] ∧
    (initializeApi toySpec 2 bad).2 = some .unsetKey := by
  decide

/-- **`load_checkpoint` initialises first**: whatever the dictionary, an uninitialised sampler with a
    valid configuration is initialised afterwards — also when `set_state` then refuses. -/
theorem loadCheckpointApi_initialises {D A : Type} (sp : Spec D A) (cls : String) (dim : Nat) (ty : String)
    (st : List (String × Val)) (r : Run D A) (hok : (ensureInitApi sp dim r).2 = Option.none) :
    (loadCheckpointApi sp cls dim ty st r).1.initialized = true := by
  unfold loadCheckpointApi
  have hinit : (ensureInitApi sp dim r).1.initialized = true := by
    unfold ensureInitApi at hok ⊢
    by_cases hi : r.initialized = true
    · simp [hi]
    · simp only [hi, Bool.false_eq_true, if_false] at hok ⊢
      exact ((initializeApi_outcomes sp dim r).1 hok).1
  cases hres : ensureInitApi sp dim r with
  | mk r1 e =>
    rw [hres] at hok hinit
    simp only at hok
    subst hok
    simpa using hinit

/-! ## `Samples.burnthin` -/

/-- Python's `l[::nt]`: entry `j` of the slice is entry `j·nt` of the list -/
theorem sliceStep_get {α : Type} (nt : Nat) (hnt : 0 < nt) (j : Nat) :
    ∀ l : List α, (sliceStep nt l)[j]? = l[j * nt]? := by
  induction j with
  | zero => intro l; cases l <;> simp [sliceStep]
  | succ k ih =>
    intro l
    cases l with
    | nil => simp [sliceStep]
    | cons a as =>
      rw [sliceStep, List.getElem?_cons_succ, ih, List.getElem?_drop]
      have e : (k + 1) * nt = (nt - 1 + k * nt) + 1 := by
        rw [Nat.succ_mul]; omega
      rw [e, List.getElem?_cons_succ]

/-- **Burn-in and thinning of the returned `Samples` select recorded states, in order**: when
    `burnthin(Nb, Nt)` does not raise, its `j`-th entry is entry `Nb + j·Nt` of the recorded chain,
    for every `j` (and there is no `j`-th entry exactly when the chain has no such entry) — no
    state is altered, repeated or reordered. -/
theorem burnthin_get {α : Type} (nb nt : Nat) (l out : List α) (h : burnthin nb nt l = some out) (j : Nat) :
    out[j]? = l[nb + j * nt]? := by
  unfold burnthin at h
  split at h
  · cases h
  · split at h
    · cases h
    · rename_i _ hnt
      cases h
      rw [sliceStep_get nt (Nat.pos_of_ne_zero hnt), List.getElem?_drop]

/-- **"The last N states once the burn-in is discarded"** for the stateful interface: without
    thinning `burnthin(Nb)` is the recorded chain with exactly its first `Nb` states dropped. -/
theorem burnthin_one {α : Type} (nb : Nat) (l : List α) (h : nb < l.length) :
    burnthin nb 1 l = some (l.drop nb) ∧ (l.drop nb).length = l.length - nb := by
  refine ⟨?_, List.length_drop⟩
  have hge : ¬ nb ≥ l.length := by omega
  have : ∀ m : List α, sliceStep 1 m = m := by
    intro m
    induction m with
    | nil => simp [sliceStep]
    | cons a as ih => rw [sliceStep]; simpa using ih
  simp [burnthin, hge, this]

/-- `burnthin` refuses (ValueError) exactly when the burn-in is not smaller than the chain, or the
    thinning step is zero -/
theorem burnthin_refuses {α : Type} (nb nt : Nat) (l : List α) :
    burnthin nb nt l = Option.none ↔ (l.length ≤ nb ∨ nt = 0) := by
  unfold burnthin
  by_cases h1 : nb ≥ l.length
  · simp [h1]
  · by_cases h2 : nt = 0
    · simp [h1, h2]
    · simp [h1, h2]

example : burnthin 2 3 [10, 11, 12, 13, 14, 15, 16, 17, 18] = some [12, 15, 18] ∧ burnthin 9 1 [10, 11, 12, 13, 14, 15, 16, 17, 18] = Option.none := by
  simp [burnthin, sliceStep]

end CuqiVerif.C14
