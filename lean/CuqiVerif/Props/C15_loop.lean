import CuqiVerif.Model.C15_loop
import Mathlib.Data.List.Range
import Mathlib.Tactic.Ring

/-!
# C15, the sampling loop of the direct Gaussian sampler (session-3 extension)

About `sampleLoop` / `sampleDirectLoop` of `Model/C15_loop.lean` (the driver runs them at `R = ℚ`).
-/
set_option linter.unusedSectionVars false
set_option linter.unusedVariables false

namespace CuqiVerif.C15

section
variable {R : Type} [Zero R] [Add R] [Mul R]

/-- the `s`-th draw as a closed expression: `x_map + L ξ_s`, `ξ_s` = block `s` of the stream -/
def drawOfBlock (n : ℕ) (xmap : ℕ → R) (L : ℕ → ℕ → R) (stream : ℕ → R) (s : ℕ) : ℕ → R :=
  draw n xmap L (fun k => stream (s * n + k))

/-- **sampleLoop_spec** (every `Ns`, every stream, every factor).  After the loop: sample `s` is
    `x_map + L ξ_s` where `ξ_s` is the `s`-th block of `n` consecutive numbers of the standard-normal
    stream — consecutive, disjoint blocks, none skipped (no burn-in draws), none reused; exactly `Ns·n`
    numbers were consumed; the callback was called once per sample, in order, with `(sample s, s)`. -/
theorem sampleLoop_spec (n : ℕ) (xmap : ℕ → R) (L : ℕ → ℕ → R) (stream : ℕ → R) (cb : Bool) (Ns : ℕ) :
    (sampleLoop n xmap L stream cb Ns).cols = (List.range Ns).map (drawOfBlock n xmap L stream) ∧
    (sampleLoop n xmap L stream cb Ns).pos = Ns * n ∧
    (sampleLoop n xmap L stream cb Ns).calls =
      if cb then (List.range Ns).map (fun s => (s, drawOfBlock n xmap L stream s)) else [] := by
  induction Ns with
  | zero => simp [sampleLoop]
  | succ k ih =>
    obtain ⟨h1, h2, h3⟩ := ih
    unfold sampleLoop at h1 h2 h3 ⊢
    rw [List.range_succ, List.foldl_append]
    simp only [List.foldl_cons, List.foldl_nil, loopStep, List.map_append, List.map_cons, List.map_nil]
    refine ⟨?_, ?_, ?_⟩
    · rw [h1, h2]; rfl
    · rw [h2]; ring
    · rw [h3, h2]
      cases cb <;> simp [drawOfBlock]

example : (sampleLoop 1 (fun _ => (5:ℤ)) (fun _ _ => 2) (fun k => k) true 3).pos = 3 := by decide

/-- **sampleLoop_stream_prefix.**  The `Ns` draws depend only on the first `Ns·n` numbers of the stream. -/
theorem sampleLoop_stream_prefix (n : ℕ) (xmap : ℕ → R) (L : ℕ → ℕ → R) (stream stream' : ℕ → R) (cb : Bool)
    (Ns : ℕ) (h : ∀ k, k < Ns * n → stream k = stream' k) (s : ℕ) (hs : s < Ns) (i : ℕ) :
    drawOfBlock n xmap L stream s i = drawOfBlock n xmap L stream' s i := by
  unfold drawOfBlock draw
  congr 1
  have : ∀ m : ℕ, m ≤ n → sumTo m (fun k => L i k * stream (s * n + k)) = sumTo m (fun k => L i k * stream' (s * n + k)) := by
    intro m
    induction m with
    | zero => intro _; rfl
    | succ m ihm =>
      intro hm
      simp only [sumTo]
      rw [ihm (by omega), h (s * n + m) (by
        have : (s + 1) * n ≤ Ns * n := Nat.mul_le_mul_right n hs
        have : s * n + n = (s + 1) * n := by ring
        omega)]
  exact this n le_rfl

example : drawOfBlock 2 (fun _ => (0:ℤ)) (fun i j => if i = j then 1 else 0) (fun k => k) 1 0 = 2 := by decide

/-- **sampleDirect_burnin_ignored / Ns = 0 fails.**  The direct sampler ignores the burn-in argument
    (`Nb`) altogether, and for `Ns = 0` it raises (`UnboundLocalError` at the final progress print)
    instead of returning an empty sample set. -/
theorem sampleDirectLoop_nb_ignored (n : ℕ) (xmap : ℕ → R) (L : ℕ → ℕ → R) (stream : ℕ → R) (cb : Bool)
    (Ns : ℕ) (Nb Nb' : Option ℕ) :
    sampleDirectLoop n xmap L stream cb Ns Nb = sampleDirectLoop n xmap L stream cb Ns Nb' ∧
    (Ns = 0 → sampleDirectLoop n xmap L stream cb Ns Nb = .error .unboundLocal) ∧
    (Ns ≠ 0 → sampleDirectLoop n xmap L stream cb Ns Nb = .ok (sampleLoop n xmap L stream cb Ns)) := by
  refine ⟨rfl, ?_, ?_⟩ <;> intro h <;> simp [sampleDirectLoop, h]

example : sampleDirectLoop 1 (fun _ => (0:ℤ)) (fun _ _ => 1) (fun _ => 0) false 0 (some 5) = .error .unboundLocal := rfl

end
end CuqiVerif.C15
