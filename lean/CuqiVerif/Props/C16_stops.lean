import CuqiVerif.Proofs.C16_stops

/-!
# C16 — stopping rules at the edges (session-3 extension)

Closes three items of the "Remaining gap" lists of `docs/C16.md`:

* `abstol > 0` (FISTA/ISTA): the quantitative optimality of a point accepted by the stopping rule, through
  Cauchy–Schwarz (`fista_returned_near_optimal`, array form `fista_l1_returned_near_optimal_array`);
* `tol < 0` (CGLS/PCGLS): the flag clause can only fire at `γ = γ₀ = 0`; so the budget is always used up
  unless the start vector already solves the system (`cgls_negative_tol`, `pcgls_negative_tol`);
* `gradtol < 0` (LM): the gradient test never stops the loop (`lm_negative_gradtol`).

All statements are about the definitions of `Model/C16.lean` the driver runs; `K` any linearly ordered field.
-/

set_option linter.unusedSectionVars false
set_option linter.unusedVariables false

namespace CuqiVerif.C16

variable {K : Type} [Field K] [LinearOrder K] [IsStrictOrderedRing K]

/-! ## 1. FISTA / ISTA accepted with `abstol > 0` -/
section ISTA
variable {V W : Type} [AddCommGroup V] [Module K V] [AddCommGroup W] [Module K W]
variable {oV : VOps K V} {oW : VOps K W} {A : V →ₗ[K] W} {At : W →ₗ[K] V}
  {C : Set V} {g : V → K} {prox : V → K → V} {t : K} (b : W)

/-- **How good is a point the stopping rule accepts (`abstol ≥ 0`, ISTA and FISTA)?**  If `FISTA.solve` returns `x`
    before the iteration budget is used up (`k < maxit`), then for every `z` of the constraint set — in particular a
    minimiser — with `‖z − x‖ ≤ D`:
    `F(x) − F(z) ≤ (abstol² + 2·abstol·D) / (2t)`, `F = ½‖A·−b‖² + g`, for steps `t·L ≤ 1`
    (`‖A d‖² ≤ L‖d‖²`).  At `abstol = 0` this is `fista_accepts_only_minimisers`; for `abstol > 0` the gap to the
    minimum is linear in `abstol` and in the distance to the minimiser.  (Three-point inequality at the last
    gradient point `y`, `x = T y`, `‖x − y‖ ≤ abstol`, and Cauchy–Schwarz for `⟨z − x, x − y⟩`.) -/
theorem fista_returned_near_optimal (H : ProxGradSetting oV oW A At C g prox t) (L : K)
    (hL : ∀ d, oW.dot (A d) (A d) ≤ L * oV.dot d d) (htL : t * L ≤ 1)
    (abstol : K) (maxit : ℕ) (adaptive : Bool) (x0 z : V) (hz : z ∈ C) (D : K) (hD : 0 ≤ D) :
    let r := fista oV oW A At b prox t abstol maxit adaptive x0
    let F := fun z : V => lsq oW.dot A b z + g z
    r.2 < maxit → oV.dot (z - r.1) (z - r.1) ≤ D ^ 2 →
      0 ≤ abstol ∧ r.1 ∈ C ∧ 2 * t * (F r.1 - F z) ≤ abstol ^ 2 + 2 * abstol * D := by
  intro r F hk hdist
  obtain ⟨y, hy, hstop⟩ := fista_stop_sound oV oW A At b prox t abstol maxit adaptive x0
  rcases hstop with ⟨habs, hsmall⟩ | hmax
  · have hsm : oV.dot (r.1 - y) (r.1 - y) ≤ abstol ^ 2 := by
      have := hsmall
      unfold VOps.nrm2 at this
      rwa [H.lawV.sub] at this
    have htp := ista_three_point b H L hL htL y z hz
    simp only at htp
    have hry : proxGradStep oV oW A At b prox t y = r.1 := hy.symm
    rw [hry] at htp
    have hC : r.1 ∈ C := by
      have := (proxGradStep_isProx b H y).1
      rwa [hry] at this
    -- ‖z − y‖² = ‖(z − x) + (x − y)‖²
    have hexp : oV.dot (z - y) (z - y)
        = oV.dot (z - r.1) (z - r.1) + 1 * (2 * oV.dot (z - r.1) (r.1 - y)) + 1 ^ 2 * oV.dot (r.1 - y) (r.1 - y) := by
      have := H.ipV.expand (z - r.1) (r.1 - y) 1
      rw [one_smul] at this
      rw [← this]
      congr 1 <;> abel
    have hcs := H.ipV.ip_le_of_sq_le (z - r.1) (r.1 - y) D abstol hD habs hdist hsm
    refine ⟨habs, hC, ?_⟩
    show 2 * t * (F r.1 - F z) ≤ abstol ^ 2 + 2 * abstol * D
    have : 2 * t * (F r.1 - F z) ≤ oV.dot (z - y) (z - y) - oV.dot (z - r.1) (z - r.1) := htp
    rw [hexp] at this
    nlinarith
  · exact absurd hmax (not_le.2 hk)

end ISTA

section Arrays
variable {m n : ℕ} (M : Mat K m n) (b : Vector K m)

/-- **… in array vocabulary, `ProximalL1`:** `FISTA(M, b, x0, λ·ProximalL1, maxit, t, abstol, adaptive)` returned before
    `maxit` ⇒ `½‖Mx−b‖² + λ‖x‖₁ − (½‖Mz−b‖² + λ‖z‖₁) ≤ (abstol² + 2·abstol·D)/(2t)` for every `z` with `‖z − x‖² ≤ D²`
    (the driver's terms: `vecOps`, `mulVec`, `mulVecT`, `proximalL1`). -/
theorem fista_l1_returned_near_optimal_array (lam t : K) (hlam : 0 ≤ lam) (ht : 0 < t) (L : K)
    (hL : ∀ d : Vector K n, vdot (mulVec M d) (mulVec M d) ≤ L * vdot d d) (htL : t * L ≤ 1)
    (abstol : K) (maxit : ℕ) (adaptive : Bool) (x0 z : Vector K n) (D : K) (hD : 0 ≤ D) :
    let r := fista (vecOps n) (vecOps m) (mulVec M) (mulVecT M) b (fun v g => proximalL1 v (lam * g)) t abstol
      maxit adaptive x0
    r.2 < maxit → vdot ((vecOps n).sub z r.1) ((vecOps n).sub z r.1) ≤ D ^ 2 →
      2 * t * ((lsqArr M b r.1 + lam * l1norm r.1) - (lsqArr M b z + lam * l1norm z)) ≤ abstol ^ 2 + 2 * abstol * D := by
  intro r hk hd
  have H := l1Setting (m := m) M lam t hlam ht
  have hd' : (vecOps n).dot (z - r.1) (z - r.1) ≤ D ^ 2 := by
    rw [← H.lawV.sub]; exact hd
  exact (fista_returned_near_optimal b H L hL htL abstol maxit adaptive x0 z trivial D hD hk hd').2.2

example := fista_l1_returned_near_optimal_array M32 (#v[2, 1, 3] : Vector ℚ 3) (1/2) (1/4) (by norm_num) (by norm_num)
  3 m32_L (by norm_num) (1/100) 50 true #v[5, -7] #v[13/6, 1/6] 1 (by norm_num)

/-- the hypothesis `k < maxit` of the example is met: the kernel runs the loop -/
example : (fista (vecOps 2) (vecOps 3) (mulVec M32) (mulVecT M32) (#v[2, 1, 3] : Vector ℚ 3)
    (fun v g => proximalL1 v ((1/2) * g)) (1/4) (1/100) 50 true #v[5, -7]).2 < 50 := by decide +kernel

end Arrays

/-! ## 2. CGLS / PCGLS with a negative tolerance -/
section CG
variable {V W : Type} (oV : VOps K V) (oW : VOps K W) (fwd : V → W) (adj : W → V) (b : W) (shift tol eps : K)

/-- **CGLS at `tol < 0` (any callables):** `norms <= norms0*tol` can hold only with `norms = norms0 = 0` and
    `normx*tol >= 1` never; so unless the start vector already has `s₀ = 0`, CGLS makes exactly `maxit` passes and
    leaves without its flag.  In particular a negative tolerance never produces an early (wrong) "converged" return. -/
theorem cgls_negative_tol (htol : tol < 0) (x0 : V) (maxit : ℕ)
    (hg : oV.nrm2 (oV.sub (adj (oW.sub b (fwd x0))) (oV.smul shift x0)) ≠ 0) :
    (cgls oV oW fwd adj b shift tol eps x0 maxit).k = maxit ∧
    (cgls oV oW fwd adj b shift tol eps x0 maxit).flag = false := by
  have := cglsLoop_neg_tol oV oW fwd adj shift tol eps _ htol hg maxit (cglsInit oV oW fwd adj b shift x0) rfl
  simpa [cgls, cglsInit] using this

/-- the same for PCGLS (`s₀ = P⁻ᵀAᵀ(b − A x₀)`) -/
theorem pcgls_negative_tol (pinv pinvT : V → V) (htol : tol < 0) (x0 : V) (maxit : ℕ)
    (hg : oV.nrm2 (pinvT (adj (oW.sub b (fwd x0)))) ≠ 0) :
    (pcgls oV oW fwd adj b tol eps pinv pinvT shift x0 maxit).k = maxit ∧
    (pcgls oV oW fwd adj b tol eps pinv pinvT shift x0 maxit).flag = false := by
  have := pcglsLoop_neg_tol oV oW fwd adj tol eps _ pinv pinvT htol hg maxit (pcglsInit oV oW fwd adj b pinvT x0) rfl
  simpa [pcgls, pcglsInit] using this

example : (cgls (VOps.ofModule ℚ ℚ (· * ·)) (VOps.ofModule ℚ ℚ (· * ·)) (fun x => 2 * x) (fun x => 2 * x)
    (6 : ℚ) 0 (-1) (1/2^52) 0 3).k = 3 := by decide +kernel

end CG

section CGlin
variable {V W : Type} [AddCommGroup V] [Module K V] [AddCommGroup W] [Module K W]
variable {oV : VOps K V} {oW : VOps K W} (A : V →ₗ[K] W) (At : W →ₗ[K] V) (b : W) (shift tol eps : K)

/-- **… and started at a solution (`s₀ = 0`, linear `A`, `Aᵀ`, `⟨0, v⟩ = 0`):** whatever the tolerance — negative
    included — CGLS makes one pass with step length `0` and returns the start vector, flag set (`maxit ≥ 1`). -/
theorem cgls_started_at_solution (hV : oV.Lawful) (hW : oW.Lawful) (hdot0 : ∀ v, oV.dot 0 v = 0)
    (x0 : V) (maxit : ℕ) (hm : 1 ≤ maxit) (hs : At (b - A x0) - shift • x0 = 0) :
    (cgls oV oW A At b shift tol eps x0 maxit).x = x0 ∧ (cgls oV oW A At b shift tol eps x0 maxit).k = 1 ∧
    (cgls oV oW A At b shift tol eps x0 maxit).flag = true := by
  obtain ⟨n, rfl⟩ : ∃ n, maxit = n + 1 := ⟨maxit - 1, by omega⟩
  have hs0 : (cglsInit oV oW A At b shift x0).s = 0 := by
    simp only [cglsInit]; rw [hW.sub, hV.sub, hV.smul]; exact hs
  have hp0 : (cglsInit oV oW A At b shift x0).p = 0 := hs0
  have hg0 : (cglsInit oV oW A At b shift x0).gamma = 0 := by
    show oV.nrm2 (cglsInit oV oW A At b shift x0).s = 0
    rw [hs0]; exact hdot0 0
  have hx0 : (cglsInit oV oW A At b shift x0).x = x0 := rfl
  have hr0 : (cglsInit oV oW A At b shift x0).r = b - A x0 := by simp only [cglsInit]; rw [hW.sub]
  -- one pass
  set st0 := cglsInit oV oW A At b shift x0 with hst0
  have hstep : (cglsStep oV oW A At shift tol eps 0 st0).x = x0 ∧ (cglsStep oV oW A At shift tol eps 0 st0).k = 1 ∧
      (cglsStep oV oW A At shift tol eps 0 st0).flag = true := by
    have hq : A st0.p = 0 := by rw [hp0]; exact map_zero A
    have hx : (cglsStep oV oW A At shift tol eps 0 st0).x = x0 := by
      simp only [cglsStep]
      rw [hV.add, hV.smul, hp0, smul_zero, add_zero]
      exact hx0
    have hr : (cglsStep oV oW A At shift tol eps 0 st0).r = b - A x0 := by
      simp only [cglsStep]
      rw [hW.sub, hW.smul, hq, smul_zero, sub_zero, hr0]
    have hgam : (cglsStep oV oW A At shift tol eps 0 st0).gamma = 0 := by
      have hs' : (cglsStep oV oW A At shift tol eps 0 st0).s = 0 := by
        have : (cglsStep oV oW A At shift tol eps 0 st0).s
            = oV.sub (At (cglsStep oV oW A At shift tol eps 0 st0).r) (oV.smul shift (cglsStep oV oW A At shift tol eps 0 st0).x) := rfl
        rw [this, hr, hx, hV.sub, hV.smul]; exact hs
      show oV.nrm2 (cglsStep oV oW A At shift tol eps 0 st0).s = 0
      rw [hs']; exact hdot0 0
    refine ⟨hx, rfl, ?_⟩
    show cgFlag (cglsStep oV oW A At shift tol eps 0 st0).gamma 0 _ tol = true
    rw [hgam]
    unfold cgFlag
    by_cases ht : tol < 0
    · simp [ht]
    · simp [ht]
  have hrun : cgls oV oW A At b shift tol eps x0 (n + 1)
      = cglsLoop oV oW A At shift tol eps 0 n (cglsStep oV oW A At shift tol eps 0 st0) := by
    unfold cgls
    simp only [← hst0, hg0]
    rw [cglsLoop]
    simp [hst0, cglsInit]
  rw [hrun]
  have hstop : ∀ st : CGState K V W, st.flag = true → cglsLoop oV oW A At shift tol eps 0 n st = st := by
    intro st hf
    cases n with
    | zero => rfl
    | succ n => rw [cglsLoop]; simp [hf]
  rw [hstop _ hstep.2.2]
  exact hstep

example : (cgls (VOps.ofModule ℚ ℚ (· * ·)) (VOps.ofModule ℚ ℚ (· * ·)) (fun x => 2 * x) (fun x => 2 * x)
    (6 : ℚ) 0 (-1) (1/2^52) 3 5).k = 1 := by decide +kernel

end CGlin

/-! ## 3. LM with a negative gradient tolerance -/
section LMsec
variable {V W M : Type} (oV : VOps K V) (oW : VOps K W) (res : V → W) (jac : V → M) (jtv : M → W → V)
  (insolve : M → K → V → V) (nu0 gradtol : K)

/-- **LM at `gradtol < 0`:** `(ng/ng0) > gradtol` is always true for `g₀ ≠ 0`, so exactly `maxit` passes are made
    (`info["nfev"] = maxit`); with `g₀ = 0` (`nan > gradtol`) none is made and the start vector — a stationary
    point — is returned. -/
theorem lm_negative_gradtol (hg : gradtol < 0) (x0 : V) (nuInit : K) (maxit : ℕ) :
    let g0 := oV.nrm2 (jtv (jac x0) (res x0))
    (g0 ≠ 0 → (lm oV oW res jac jtv insolve nu0 gradtol x0 nuInit maxit).i = maxit) ∧
    (g0 = 0 → (lm oV oW res jac jtv insolve nu0 gradtol x0 nuInit maxit).x = x0 ∧
              (lm oV oW res jac jtv insolve nu0 gradtol x0 nuInit maxit).i = 0) := by
  intro g0
  constructor
  · intro h0
    have := lmLoop_neg_gradtol oV oW res jac jtv insolve nu0 gradtol g0 hg h0 maxit (lmInit oV oW res jac jtv x0 nuInit)
    simpa [lm, lmInit, g0] using this
  · intro h0
    have hstop : lm oV oW res jac jtv insolve nu0 gradtol x0 nuInit maxit = lmInit oV oW res jac jtv x0 nuInit := by
      unfold lm
      cases maxit with
      | zero => rfl
      | succ n =>
        rw [lmLoop]
        have : lmCont (lmInit oV oW res jac jtv x0 nuInit).ng2 (lmInit oV oW res jac jtv x0 nuInit).ng2 gradtol = false := by
          have : (lmInit oV oW res jac jtv x0 nuInit).ng2 = 0 := h0
          simp [lmCont, this]
        simp [this]
    rw [hstop]; exact ⟨rfl, rfl⟩

example : (lm (VOps.ofModule ℚ ℚ (· * ·)) (VOps.ofModule ℚ ℚ (· * ·)) (fun x : ℚ => 2 * x - 6) (fun _ => (2 : ℚ))
    (fun J r => J * r) (fun J nu g => g / (J * J + nu)) (1/1000) (-1) 0 12 4).i = 4 := by decide +kernel

end LMsec

end CuqiVerif.C16
