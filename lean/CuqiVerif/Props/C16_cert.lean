import CuqiVerif.Props.C16_precond
import CuqiVerif.Model.C16_glue

/-!
# C16 — the inverse certificate of the PCGLS tie (session-3, second pass)

The driver (`pcgls`, `pcsolve` ops) computes `P⁻¹` with `QMat.inverse` and refuses to run unless `isInverseCert Pm Pim`
holds on the very arrays handed to `pcgls` (`pinv = mulVec Pim`, `pinvT = mulVecT Pim`).  Here: the certificate implies
the hypothesis `mulVec Pim (mulVec Pm v) = v` of the PCGLS array theorems, and (with `M` of full column rank) their
rank hypothesis — so for every run the driver performs, the array theorems hold with no assumption about the preconditioner.
-/

set_option linter.unusedSectionVars false
set_option linter.unusedVariables false

open Finset

namespace CuqiVerif.C16

variable {K : Type} [Field K] [LinearOrder K] [IsStrictOrderedRing K]

lemma matMulEntry_eq_sum {n : ℕ} (Q P : Mat K n n) (i j : Fin n) :
    matMulEntry Q P i j = ∑ k : Fin n, Q[i][k] * P[k][j] := by
  simp [matMulEntry, List.sum_ofFn]

lemma isLeftInverse_iff {n : ℕ} (Q P : Mat K n n) :
    isLeftInverse Q P = true ↔ ∀ i j : Fin n, (∑ k : Fin n, Q[i][k] * P[k][j]) = if i = j then 1 else 0 := by
  unfold isLeftInverse
  rw [decide_eq_true_iff]
  constructor
  · intro h i j; rw [← matMulEntry_eq_sum]; exact h i j
  · intro h i j; rw [matMulEntry_eq_sum]; exact h i j

/-- **The checked certificate is the hypothesis of the array theorems:** `Q @ P == I` entry by entry ⇒
    `Q @ (P @ v) = v` for every vector (`mulVec` is the function the model's `pcgls` is run with). -/
theorem leftInverse_certificate {n : ℕ} (Q P : Mat K n n) (h : isLeftInverse Q P = true) (v : Vector K n) :
    mulVec Q (mulVec P v) = v := by
  rw [isLeftInverse_iff] at h
  apply Vector.ext
  intro i hi
  have e1 := mulVec_getElem Q (mulVec P v) ⟨i, hi⟩
  have e2 : ∀ k : Fin n, (mulVec P v)[k] = ∑ j : Fin n, P[k][j] * v[j] := fun k => mulVec_getElem P v k
  show (mulVec Q (mulVec P v))[(⟨i, hi⟩ : Fin n)] = v[(⟨i, hi⟩ : Fin n)]
  rw [e1]
  simp only [e2, Finset.mul_sum]
  rw [Finset.sum_comm]
  have : ∀ j : Fin n, (∑ k : Fin n, Q[(⟨i, hi⟩ : Fin n)][k] * (P[k][j] * v[j]))
      = (if (⟨i, hi⟩ : Fin n) = j then 1 else 0) * v[j] := by
    intro j
    rw [← h ⟨i, hi⟩ j, Finset.sum_mul]
    exact Finset.sum_congr rfl (fun k _ => by ring)
  simp only [this]
  simp

/-- **PCGLS on arrays, run to convergence, from the certificate alone** (`tol = 0`, `maxit ≥ n`, any `shift`, any
    start): if the driver's certificate holds for `(Pm, Pim)` and `M` has full column rank, the returned `x` solves
    `Mᵀ M x = Mᵀ b` exactly, uniquely, within `max n 1` passes. -/
theorem pcgls_run_to_convergence_exact_cert {m n : ℕ} (M : Mat K m n) (Pm Pim : Mat K n n)
    (b : Vector K m) (shift eps : K) (hcert : isInverseCert Pm Pim = true)
    (hM : ∀ w : Vector K n, (∃ i : Fin n, w[i] ≠ 0) → 0 < vdot (mulVec M w) (mulVec M w))
    (x0 : Vector K n) (maxit : ℕ) (hn : n ≤ maxit) (st : CGState K (Vector K n) (Vector K m))
    (hst : st = pcgls (vecOps n) (vecOps m) (mulVec M) (mulVecT M) b 0 eps (mulVec Pim) (mulVecT Pim)
      shift x0 maxit) :
    mulVecT M (mulVec M st.x) = mulVecT M b ∧
      (∀ y : Vector K n, mulVecT M (mulVec M y) = mulVecT M b → y = st.x) ∧ st.k ≤ max n 1 := by
  unfold isInverseCert at hcert
  rw [Bool.and_eq_true] at hcert
  have hl := leftInverse_certificate Pim Pm hcert.1
  have hr := leftInverse_certificate Pm Pim hcert.2
  refine pcgls_run_to_convergence_exact_array M Pm Pim b shift eps hl ?_ x0 maxit hn st hst
  intro v hv
  apply hM
  by_contra hcon
  simp only [not_exists, ne_eq, not_not] at hcon
  -- `Pim v = 0` would give `v = Pm (Pim v) = 0`
  have hz : mulVec Pim v = Vector.replicate n 0 := by
    apply Vector.ext; intro i hi
    have := hcon ⟨i, hi⟩
    simpa using this
  obtain ⟨i, hi⟩ := hv
  apply hi
  have hv' := hr v
  rw [hz] at hv'
  have : (mulVec Pm (Vector.replicate n (0 : K)))[i] = 0 := by
    rw [mulVec_getElem]; simp
  rw [hv'] at this
  exact this

/-- the same for the flag-controlled loop (`tol ≥ 0`) -/
theorem pcgls_finite_termination_cert {m n : ℕ} (M : Mat K m n) (Pm Pim : Mat K n n)
    (b : Vector K m) (shift tol eps : K) (hcert : isInverseCert Pm Pim = true)
    (hM : ∀ w : Vector K n, (∃ i : Fin n, w[i] ≠ 0) → 0 < vdot (mulVec M w) (mulVec M w))
    (htol : 0 ≤ tol) (x0 : Vector K n) (maxit : ℕ) (hn : n ≤ maxit) (h1 : 1 ≤ maxit)
    (st : CGState K (Vector K n) (Vector K m))
    (hst : st = pcgls (vecOps n) (vecOps m) (mulVec M) (mulVecT M) b tol eps (mulVec Pim) (mulVecT Pim)
      shift x0 maxit) :
    st.flag = true ∧ st.k ≤ max n 1 := by
  unfold isInverseCert at hcert
  rw [Bool.and_eq_true] at hcert
  have hl := leftInverse_certificate Pim Pm hcert.1
  have hr := leftInverse_certificate Pm Pim hcert.2
  refine pcgls_finite_termination_array M Pm Pim b shift tol eps hl ?_ htol x0 maxit hn h1 st hst
  intro v hv
  apply hM
  by_contra hcon
  simp only [not_exists, ne_eq, not_not] at hcon
  have hz : mulVec Pim v = Vector.replicate n 0 := by
    apply Vector.ext; intro i hi
    have := hcon ⟨i, hi⟩
    simpa using this
  obtain ⟨i, hi⟩ := hv
  apply hi
  have hv' := hr v
  rw [hz] at hv'
  have : (mulVec Pm (Vector.replicate n (0 : K)))[i] = 0 := by
    rw [mulVec_getElem]; simp
  rw [hv'] at this
  exact this

example : isInverseCert (#v[#v[1, -1], #v[0, 1]] : Mat ℚ 2 2) #v[#v[1, 1], #v[0, 1]] = true := by decide +kernel
example : isInverseCert (#v[#v[1, -1], #v[0, 1]] : Mat ℚ 2 2) #v[#v[1, 1], #v[0, 2]] = false := by decide +kernel

end CuqiVerif.C16
