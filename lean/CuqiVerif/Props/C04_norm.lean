import CuqiVerif.Proofs.C04_norm
import Mathlib.MeasureTheory.Function.SpecialFunctions.Basic
import Mathlib.MeasureTheory.Constructions.BorelSpace.Order
import Mathlib.Analysis.Matrix.Order

/-!
# C04 — normalisation theorems left open by the first pass

`Props/C04.lean` proves, per family, that `exp(logpdf)` is the documented density, and that it integrates
to one for Normal / Cauchy / Laplace (any dimension), Gamma / Beta (one component), Uniform.  This file
closes the remaining normalisation statements, all about the same `Model/C04.lean` definitions the driver
runs (`invGammaLogpdf`, `gammaLogpdf`, `betaLogpdf`, `gaussLogpdf`, `quadForm`, `iid`, `env`, `bc`):

1. InverseGamma (one component): `∫⁻ = 1` — change of variables `x ↦ 1/(x-loc)` from Mathlib's
   `lintegral_gammaPDF_eq_one`.
2. Lognormal (one component): `∫⁻ = 1` — change of variables `x ↦ exp x` from the Gaussian integral.
3. Dimension n (product measure on `Fin n → ℝ`), densities with a support guard: generic lift
   `iid_guarded_integral_eq_one` / `iid_guarded_lintegral_eq_one` (any number of parameter vectors), and
   its instances for Gamma, Beta, InverseGamma.
4. Gaussian with diagonal covariance in dimension n: the assembled `gaussLogpdf` value is the log of the
   product of the component densities and integrates to one; Lognormal with diagonal covariance in
   dimension n integrates to one.  4b: full matrices — any invertible `sqrtprec`, any SPD precision, any SPD
   covariance (real matrices; linear change of variables on `ℝⁿ`).
5. The executable `canonDiag` (ℚ): for all four diagonal forms the stored record (rank, `detCov`, `P`) assembles
   to a normalised density; the same for Lognormal with a diagonal covariance.

The guards (`if every component is inside the support then exp(logpdf) else 0`) are the real-valued
reading of `gammaGuard`, `betaGuard`, `invGammaGuard`, `lognormalGuard` (`-inf` ⇒ density 0); the boundary
points on which scipy returns `±inf`/`nan`/a limit value (`x_j = 0` for Gamma) form a Lebesgue null set.
-/
open Finset MeasureTheory ProbabilityTheory
open scoped ENNReal NNReal
namespace CuqiVerif.C04
open CuqiVerif RExpr

/-! ## 1. InverseGamma, one component -/

/-- the density `InverseGamma.logpdf` denotes: `invGammaGuard` (`x ≤ loc` ⇒ `-inf`, i.e. density 0) and the
    formula `scipy.stats.invgamma.logpdf` evaluates on `x > loc` -/
noncomputable def invGammaDensity (a loc sc x : ℝ) : ℝ :=
  if loc < x then Real.exp (eval (env4 x a loc sc) (invGammaLogpdf (var 0) (var 1) (var 2) (var 3))) else 0

lemma invGammaDensity_eq_indicator (a loc sc : ℝ) (ha : 0 < a) (hsc : 0 < sc) :
    invGammaDensity a loc sc = (Set.Ioi loc).indicator (invGammaFormula a loc sc) := by
  funext x
  by_cases hx : loc < x
  · rw [Set.indicator_of_mem (Set.mem_Ioi.mpr hx), invGammaDensity, if_pos hx,
      invgamma_exp_logpdf x a loc sc hx ha hsc, invGammaFormula]
  · rw [Set.indicator_of_notMem (by simpa using hx), invGammaDensity, if_neg hx]

/-- **InverseGamma is normalised.**  For every shape `a > 0`, location `loc` and scale `sc > 0` the density
    `exp(InverseGamma.logpdf)` (0 for `x ≤ loc`, as the guard returns `-inf` there) integrates to one over ℝ.
    Change of variables `x ↦ 1/(x - loc)` from the Gamma normalisation. -/
theorem invgamma_lintegral_eq_one (a loc sc : ℝ) (ha : 0 < a) (hsc : 0 < sc) :
    ∫⁻ x, ENNReal.ofReal (invGammaDensity a loc sc x) = 1 := by
  rw [invGammaDensity_eq_indicator a loc sc ha hsc]
  have h : (fun x => ENNReal.ofReal ((Set.Ioi loc).indicator (invGammaFormula a loc sc) x))
      = (Set.Ioi loc).indicator (fun x => ENNReal.ofReal (invGammaFormula a loc sc x)) := by
    funext x
    by_cases hx : x ∈ Set.Ioi loc
    · rw [Set.indicator_of_mem hx, Set.indicator_of_mem hx]
    · rw [Set.indicator_of_notMem hx, Set.indicator_of_notMem hx, ENNReal.ofReal_zero]
  rw [h, lintegral_indicator measurableSet_Ioi]
  exact lintegral_invGammaFormula a loc sc ha hsc

example : ∫⁻ x, ENNReal.ofReal (invGammaDensity (3 / 2) (1 / 2) 3 x) = 1 :=
  invgamma_lintegral_eq_one _ _ _ (by norm_num) (by norm_num)

/-! ## 2. Lognormal, one component -/

/-- the density `Lognormal.logpdf` denotes in dimension one: `lognormalGuard` (`x ≤ 0` ⇒ pdf 0) and
    `log(normal.pdf(log x) * (1/x))`, the Gaussian part being the model's `gaussLogpdf` at rank 1,
    covariance determinant `v`, Mahalanobis square `(log x - m)²/v` (the driver evaluates the same
    `gaussLogpdf` with these three numbers and `log x` supplied as leaf values) -/
noncomputable def lognormalDensity (m v x : ℝ) : ℝ :=
  if 0 < x then
    Real.exp (eval (env4 1 v ((Real.log x - m) ^ 2 / v) 0) (gaussLogpdf (var 0) (var 1) (var 2)) - Real.log x)
  else 0

/-- `gaussLogpdf` at rank 1 is the log of the one-dimensional normal density (real leaf values) -/
lemma gauss_logpdf_exp_1d (z m v : ℝ) (hv : 0 < v) :
    Real.exp (eval (env4 1 v ((z - m) ^ 2 / v) 0) (gaussLogpdf (var 0) (var 1) (var 2)))
      = gaussianPDFReal m (Real.toNNReal v) z := by
  rw [gaussianPDFReal_eq_exp m v z hv]
  simp only [gaussLogpdf, eval_add, eval_neg, eval_mul, eval_log, eval_pi, eval_ofNat, eval_div, eval_var,
    env4_0, env4_1, env4_2, Nat.cast_ofNat, Nat.cast_one]
  congr 1
  field_simp

/-- **Lognormal, one component: `exp(logpdf) = N(log x; m, v) / x` on `x > 0`, 0 elsewhere.** -/
theorem lognormal_density_eq (m v x : ℝ) (hv : 0 < v) :
    lognormalDensity m v x = if 0 < x then gaussianPDFReal m (Real.toNNReal v) (Real.log x) / x else 0 := by
  unfold lognormalDensity
  split_ifs with hx
  · rw [Real.exp_sub, Real.exp_log hx, gauss_logpdf_exp_1d _ m v hv]
  · rfl

example : lognormalDensity 0 2 1 = gaussianPDFReal 0 (Real.toNNReal 2) 0 / 1 := by
  rw [lognormal_density_eq 0 2 1 (by norm_num), if_pos (by norm_num), Real.log_one]

lemma lognormalDensity_eq_indicator (m v : ℝ) (hv : 0 < v) :
    lognormalDensity m v = (Set.Ioi 0).indicator (lognormalFormula m (Real.toNNReal v)) := by
  funext x
  rw [lognormal_density_eq m v x hv]
  by_cases hx : 0 < x
  · rw [Set.indicator_of_mem (Set.mem_Ioi.mpr hx), if_pos hx, lognormalFormula]
  · rw [Set.indicator_of_notMem (by simpa using hx), if_neg hx]

lemma ofReal_indicator (s : Set ℝ) (f : ℝ → ℝ) :
    (fun x => ENNReal.ofReal (s.indicator f x)) = s.indicator (fun x => ENNReal.ofReal (f x)) := by
  funext x
  by_cases hx : x ∈ s
  · rw [Set.indicator_of_mem hx, Set.indicator_of_mem hx]
  · rw [Set.indicator_of_notMem hx, Set.indicator_of_notMem hx, ENNReal.ofReal_zero]

/-- **Lognormal is normalised (one component).**  For every `m` and every variance `v > 0` the density
    `exp(Lognormal.logpdf)` (0 for `x ≤ 0`) integrates to one over ℝ.  Change of variables `x ↦ exp x` from the
    Gaussian integral. -/
theorem lognormal_lintegral_eq_one (m v : ℝ) (hv : 0 < v) :
    ∫⁻ x, ENNReal.ofReal (lognormalDensity m v x) = 1 := by
  rw [lognormalDensity_eq_indicator m v hv, ofReal_indicator, lintegral_indicator measurableSet_Ioi]
  refine lintegral_lognormalFormula m _ ?_
  simp only [ne_eq, Real.toNNReal_eq_zero, not_le]
  exact hv

example : ∫⁻ x, ENNReal.ofReal (lognormalDensity (-1) (1 / 4) x) = 1 :=
  lognormal_lintegral_eq_one _ _ (by norm_num)

/-! ## 3. dimension n: product-measure lift for densities with a support guard -/

/-- **Generic lift, any broadcast pattern.**  `ps` is any list of parameter lists (full length or length one —
    numpy broadcasting, `bc`) whose broadcast against an `n`-vector has length `n`.  If on the support `S i`
    the `i`-th component of `exp(iid …)` is `f i (x i)`, `f i` vanishes off `S i` and integrates to one, then
    the guarded joint density — `exp` of the model's i.i.d. log-density when every component is inside its
    support, 0 otherwise (what the code's `-inf` guards mean) — integrates to one over `ℝⁿ`. -/
theorem iid_guarded_integral_eq_one_bc (n : ℕ) (comp : RExpr) (ps : List (List ℝ)) (S : Fin n → Set ℝ)
    [∀ x : Fin n → ℝ, Decidable (∀ i, x i ∈ S i)] (f : Fin n → ℝ → ℝ)
    (hlen : ∀ x : Fin n → ℝ, bcLen (List.ofFn x) ps = n)
    (hcomp : ∀ (x : Fin n → ℝ) (i : Fin n), x i ∈ S i →
      Real.exp (eval (env 0 (List.ofFn x) ps i) comp) = f i (x i))
    (hout : ∀ i t, t ∉ S i → f i t = 0)
    (hint : ∀ i, ∫ t, f i t = 1) :
    ∫ x : Fin n → ℝ, (if ∀ i, x i ∈ S i then Real.exp (iid eval 0 comp (List.ofFn x) ps) else 0) = 1 := by
  have hpt : ∀ x : Fin n → ℝ,
      (if ∀ i, x i ∈ S i then Real.exp (iid eval 0 comp (List.ofFn x) ps) else 0)
        = ∏ i : Fin n, f i (x i) := by
    intro x
    have hs : iid eval 0 comp (List.ofFn x) ps = ∑ i : Fin n, eval (env 0 (List.ofFn x) ps i) comp := by
      unfold iid
      rw [sumTo_eq_sum, hlen x, Finset.sum_range]
    rw [hs]
    exact guarded_exp_sum_eq_prod (fun i => x i ∈ S i) _ _ (fun i hi => hcomp x i hi) (fun i hi => hout i _ hi)
  simp_rw [hpt]
  rw [integral_fintype_prod_volume_eq_prod f]
  exact Finset.prod_eq_one fun i _ => hint i

/-- **Generic lift (Bochner form), any number of per-component parameter vectors** — the instance of
    `iid_guarded_integral_eq_one_bc` in which every parameter has one entry per component.
    Generalises `iid_integral_eq_one` (two parameter vectors, no guard). -/
theorem iid_guarded_integral_eq_one (n : ℕ) (comp : RExpr) (ps : List (Fin n → ℝ)) (S : Fin n → Set ℝ)
    [∀ x : Fin n → ℝ, Decidable (∀ i, x i ∈ S i)] (f : Fin n → ℝ → ℝ)
    (hcomp : ∀ (x : Fin n → ℝ) (i : Fin n), x i ∈ S i →
      Real.exp (eval (env 0 (List.ofFn x) (ps.map List.ofFn) i) comp) = f i (x i))
    (hout : ∀ i t, t ∉ S i → f i t = 0)
    (hint : ∀ i, ∫ t, f i t = 1) :
    ∫ x : Fin n → ℝ,
      (if ∀ i, x i ∈ S i then Real.exp (iid eval 0 comp (List.ofFn x) (ps.map List.ofFn)) else 0) = 1 :=
  iid_guarded_integral_eq_one_bc n comp _ S f (fun x => bcLen_ofFn_map x ps) hcomp hout hint

/-- **Generic lift, `ℝ≥0∞`-valued form** (the form in which Mathlib states the Gamma and Beta normalisations):
    same hypotheses, `∫⁻ ofReal(guarded joint density) = 1`. -/
theorem iid_guarded_lintegral_eq_one (n : ℕ) (comp : RExpr) (ps : List (Fin n → ℝ)) (S : Fin n → Set ℝ)
    [∀ x : Fin n → ℝ, Decidable (∀ i, x i ∈ S i)] (f : Fin n → ℝ → ℝ)
    (hcomp : ∀ (x : Fin n → ℝ) (i : Fin n), x i ∈ S i →
      Real.exp (eval (env 0 (List.ofFn x) (ps.map List.ofFn) i) comp) = f i (x i))
    (hout : ∀ i t, t ∉ S i → f i t = 0)
    (hint : ∀ i, ∫ t, f i t = 1) :
    ∫⁻ x : Fin n → ℝ, ENNReal.ofReal
      (if ∀ i, x i ∈ S i then Real.exp (iid eval 0 comp (List.ofFn x) (ps.map List.ofFn)) else 0) = 1 := by
  refine lintegral_eq_one_of_integral _ (fun x => ?_) (iid_guarded_integral_eq_one n comp ps S f hcomp hout hint)
  split_ifs
  · exact (Real.exp_pos _).le
  · exact le_rfl

/-! Non-trivial instances of the three generic lifts: `gamma_scalar_iid_integral_eq_one` (length-one
    parameter lists broadcast over `n` components), `gamma_iid_lintegral_eq_one`, `beta_iid_lintegral_eq_one`,
    `invgamma_iid_lintegral_eq_one` (three parameter vectors) below; the hypotheses are met e.g. by -/
example : bcLen (List.ofFn (fun _ : Fin 4 => (1:ℝ))) [[2], [1 / 3]] = 4 := by simp [bcLen]
example (x : Fin 4 → ℝ) : bcLen (List.ofFn x) ([fun _ => (2:ℝ), fun i : Fin 4 => (i:ℝ)].map List.ofFn) = 4 :=
  bcLen_ofFn_map x _

/-! ### Bochner forms of the one-component normalisations (needed by the lift) -/

lemma measurable_gammaDensity (a r : ℝ) : Measurable (gammaDensity a r) := by
  unfold gammaDensity
  refine Measurable.ite (measurableSet_lt measurable_const measurable_id) ?_ measurable_const
  simp only [gammaLogpdf, eval_sub, eval_log, eval_mul, eval_lgamma, eval_ofNat, eval_div,
    eval_var, env4_0, env4_1, env4_2, Nat.cast_one]
  fun_prop

lemma gammaDensity_nonneg (a r x : ℝ) : 0 ≤ gammaDensity a r x := by
  unfold gammaDensity; split_ifs
  · exact (Real.exp_pos _).le
  · exact le_rfl

/-- **Gamma, one component, Bochner form:** `∫ exp(logpdf) = 1` (so the density is integrable). -/
theorem gamma_integral_eq_one (a r : ℝ) (ha : 0 < a) (hr : 0 < r) : ∫ x, gammaDensity a r x = 1 :=
  integral_eq_one_of_lintegral _ (measurable_gammaDensity a r).aestronglyMeasurable (gammaDensity_nonneg a r)
    (gamma_lintegral_eq_one a r ha hr)

example : ∫ x, gammaDensity 2 3 x = 1 := gamma_integral_eq_one 2 3 (by norm_num) (by norm_num)

lemma betaDensity_nonneg (a b x : ℝ) : 0 ≤ betaDensity a b x := by
  unfold betaDensity; split_ifs
  · exact (Real.exp_pos _).le
  · exact le_rfl

/-- **Beta, one component, Bochner form:** `∫ exp(logpdf) = 1`. -/
theorem beta_integral_eq_one (a b : ℝ) (ha : 0 < a) (hb : 0 < b) : ∫ x, betaDensity a b x = 1 := by
  refine integral_eq_one_of_lintegral _ ?_ (betaDensity_nonneg a b) (beta_lintegral_eq_one a b ha hb)
  have : betaDensity a b = betaPDFReal a b := funext fun x => beta_density_eq x a b ha hb
  rw [this]
  exact (measurable_betaPDFReal a b).aestronglyMeasurable

example : ∫ x, betaDensity (1 / 2) 3 x = 1 := beta_integral_eq_one _ _ (by norm_num) (by norm_num)

lemma invGammaDensity_nonneg (a loc sc x : ℝ) : 0 ≤ invGammaDensity a loc sc x := by
  unfold invGammaDensity; split_ifs
  · exact (Real.exp_pos _).le
  · exact le_rfl

lemma measurable_invGammaDensity (a loc sc : ℝ) : Measurable (invGammaDensity a loc sc) := by
  unfold invGammaDensity
  refine Measurable.ite (measurableSet_lt measurable_const measurable_id) ?_ measurable_const
  simp only [invGammaLogpdf, eval_sub, eval_add, eval_neg, eval_log, eval_mul, eval_lgamma, eval_ofNat, eval_div,
    eval_var, env4_0, env4_1, env4_2, env4_3, Nat.cast_one]
  fun_prop

/-- **InverseGamma, one component, Bochner form:** `∫ exp(logpdf) = 1`. -/
theorem invgamma_integral_eq_one (a loc sc : ℝ) (ha : 0 < a) (hsc : 0 < sc) :
    ∫ x, invGammaDensity a loc sc x = 1 :=
  integral_eq_one_of_lintegral _ (measurable_invGammaDensity a loc sc).aestronglyMeasurable
    (invGammaDensity_nonneg a loc sc) (invgamma_lintegral_eq_one a loc sc ha hsc)

example : ∫ x, invGammaDensity (3 / 2) (1 / 2) 3 x = 1 :=
  invgamma_integral_eq_one _ _ _ (by norm_num) (by norm_num)

lemma lognormalDensity_nonneg (m v x : ℝ) : 0 ≤ lognormalDensity m v x := by
  unfold lognormalDensity; split_ifs
  · exact (Real.exp_pos _).le
  · exact le_rfl

lemma measurable_lognormalDensity (m v : ℝ) : Measurable (lognormalDensity m v) := by
  unfold lognormalDensity
  refine Measurable.ite (measurableSet_lt measurable_const measurable_id) ?_ measurable_const
  simp only [gaussLogpdf, eval_add, eval_neg, eval_mul, eval_log, eval_pi, eval_ofNat, eval_div, eval_var,
    env4_0, env4_1, env4_2, Nat.cast_ofNat, Nat.cast_one]
  fun_prop

/-- **Lognormal, one component, Bochner form:** `∫ exp(logpdf) = 1`. -/
theorem lognormal_integral_eq_one (m v : ℝ) (hv : 0 < v) : ∫ x, lognormalDensity m v x = 1 :=
  integral_eq_one_of_lintegral _ (measurable_lognormalDensity m v).aestronglyMeasurable
    (lognormalDensity_nonneg m v) (lognormal_lintegral_eq_one m v hv)

example : ∫ x, lognormalDensity (-1) (1 / 4) x = 1 := lognormal_integral_eq_one _ _ (by norm_num)

/-! ### instances of the lift -/

/-- **Gamma, dimension n.**  Per-component shapes `a i > 0` and rates `r i > 0` (the code passes
    `scale = 1/rate` to scipy): the joint density — `exp` of the sum `Gamma.logpdf` forms when every
    component is positive, 0 otherwise — integrates to one over `ℝⁿ`.  (Points with some `x_i = 0`, where
    scipy returns `±inf` or a limit value, form a null set.) -/
theorem gamma_iid_lintegral_eq_one (n : ℕ) (a r : Fin n → ℝ) (ha : ∀ i, 0 < a i) (hr : ∀ i, 0 < r i) :
    ∫⁻ x : Fin n → ℝ, ENNReal.ofReal
      (if ∀ i, 0 < x i then
        Real.exp (iid eval 0 (gammaLogpdf (var 0) (var 1) (var 2)) (List.ofFn x)
          [List.ofFn a, List.ofFn fun i => 1 / r i])
       else 0) = 1 := by
  refine iid_guarded_lintegral_eq_one n _ [a, fun i => 1 / r i] (fun _ => Set.Ioi 0)
    (fun i t => gammaDensity (a i) (r i) t) ?_ ?_ (fun i => gamma_integral_eq_one _ _ (ha i) (hr i))
  · intro x i hx
    have hx' : 0 < x i := hx
    rw [gammaDensity, if_pos hx']
    simp [gammaLogpdf, env, bc_ofFn]
  · intro i t ht
    have ht' : ¬ 0 < t := ht
    rw [gammaDensity, if_neg ht']

example : ∫⁻ x : Fin 3 → ℝ, ENNReal.ofReal
      (if ∀ i, 0 < x i then
        Real.exp (iid eval 0 (gammaLogpdf (var 0) (var 1) (var 2)) (List.ofFn x)
          [List.ofFn (fun i : Fin 3 => (i : ℝ) + 1 / 2), List.ofFn fun i : Fin 3 => 1 / ((i : ℝ) + 2)])
       else 0) = 1 :=
  gamma_iid_lintegral_eq_one 3 _ _ (fun i => by positivity) (fun i => by positivity)

lemma bc_singleton (a : ℝ) (j : ℕ) : bc (0:ℝ) [a] j = a := by simp [bc]

/-- **Gamma with scalar shape and rate broadcast over a geometry of dimension `n ≥ 1`**
    (`Gamma(shape=a, rate=r, geometry=n)`: the parameters are length-one lists, `bc` repeats them): the joint
    density integrates to one over `ℝⁿ` (Bochner form; hence it is integrable). -/
theorem gamma_scalar_iid_integral_eq_one (n : ℕ) (hn : 1 ≤ n) (a r : ℝ) (ha : 0 < a) (hr : 0 < r) :
    ∫ x : Fin n → ℝ,
      (if ∀ i, 0 < x i then
        Real.exp (iid eval 0 (gammaLogpdf (var 0) (var 1) (var 2)) (List.ofFn x) [[a], [1 / r]])
       else 0) = 1 := by
  refine iid_guarded_integral_eq_one_bc n _ [[a], [1 / r]] (fun _ => Set.Ioi 0)
    (fun _ t => gammaDensity a r t) ?_ ?_ ?_ (fun _ => gamma_integral_eq_one _ _ ha hr)
  · intro x
    simp only [bcLen, List.map_cons, List.map_nil, List.foldl_cons, List.foldl_nil, List.length_ofFn,
      List.length_singleton]
    omega
  · intro x i hx
    have hx' : 0 < x i := hx
    rw [gammaDensity, if_pos hx']
    simp [gammaLogpdf, env, bc_ofFn, bc_singleton]
  · intro i t ht
    have ht' : ¬ 0 < t := ht
    rw [gammaDensity, if_neg ht']

example : ∫ x : Fin 5 → ℝ,
      (if ∀ i, 0 < x i then
        Real.exp (iid eval 0 (gammaLogpdf (var 0) (var 1) (var 2)) (List.ofFn x) [[2], [1 / 3]])
       else 0) = 1 :=
  gamma_scalar_iid_integral_eq_one 5 (by norm_num) 2 3 (by norm_num) (by norm_num)

/-- **Beta, dimension n.**  Per-component `a i, b i > 0`: the joint density — `exp` of the sum `Beta.logpdf`
    forms when every component lies in `(0,1)`, 0 otherwise (`betaGuard` returns `-inf` as soon as one
    component is outside) — integrates to one over `ℝⁿ`. -/
theorem beta_iid_lintegral_eq_one (n : ℕ) (a b : Fin n → ℝ) (ha : ∀ i, 0 < a i) (hb : ∀ i, 0 < b i) :
    ∫⁻ x : Fin n → ℝ, ENNReal.ofReal
      (if ∀ i, 0 < x i ∧ x i < 1 then
        Real.exp (iid eval 0 (betaLogpdf (var 0) (var 1) (var 2)) (List.ofFn x) [List.ofFn a, List.ofFn b])
       else 0) = 1 := by
  refine iid_guarded_lintegral_eq_one n _ [a, b] (fun _ => Set.Ioo 0 1)
    (fun i t => betaDensity (a i) (b i) t) ?_ ?_ (fun i => beta_integral_eq_one _ _ (ha i) (hb i))
  · intro x i hx
    have hx' : 0 < x i ∧ x i < 1 := hx
    rw [betaDensity, if_pos hx']
    simp [betaLogpdf, env, bc_ofFn]
  · intro i t ht
    have ht' : ¬ (0 < t ∧ t < 1) := ht
    rw [betaDensity, if_neg ht']

example : ∫⁻ x : Fin 2 → ℝ, ENNReal.ofReal
      (if ∀ i, 0 < x i ∧ x i < 1 then
        Real.exp (iid eval 0 (betaLogpdf (var 0) (var 1) (var 2)) (List.ofFn x)
          [List.ofFn (fun i : Fin 2 => (i : ℝ) + 1 / 2), List.ofFn fun _ : Fin 2 => (3 : ℝ)])
       else 0) = 1 :=
  beta_iid_lintegral_eq_one 2 _ _ (fun i => by positivity) (fun _ => by norm_num)

/-- **InverseGamma, dimension n** (three per-component parameter vectors: shape, location, scale): the joint
    density — `exp` of the sum `InverseGamma.logpdf` forms when every `x_i > loc_i`, 0 otherwise
    (`invGammaGuard`) — integrates to one over `ℝⁿ`. -/
theorem invgamma_iid_lintegral_eq_one (n : ℕ) (a loc sc : Fin n → ℝ) (ha : ∀ i, 0 < a i) (hsc : ∀ i, 0 < sc i) :
    ∫⁻ x : Fin n → ℝ, ENNReal.ofReal
      (if ∀ i, loc i < x i then
        Real.exp (iid eval 0 (invGammaLogpdf (var 0) (var 1) (var 2) (var 3)) (List.ofFn x)
          [List.ofFn a, List.ofFn loc, List.ofFn sc])
       else 0) = 1 := by
  refine iid_guarded_lintegral_eq_one n _ [a, loc, sc] (fun i => Set.Ioi (loc i))
    (fun i t => invGammaDensity (a i) (loc i) (sc i) t) ?_ ?_
    (fun i => invgamma_integral_eq_one _ _ _ (ha i) (hsc i))
  · intro x i hx
    have hx' : loc i < x i := hx
    rw [invGammaDensity, if_pos hx']
    simp [invGammaLogpdf, env, bc_ofFn]
  · intro i t ht
    have ht' : ¬ loc i < t := ht
    rw [invGammaDensity, if_neg ht']

example : ∫⁻ x : Fin 3 → ℝ, ENNReal.ofReal
      (if ∀ i, (fun i : Fin 3 => -(i : ℝ)) i < x i then
        Real.exp (iid eval 0 (invGammaLogpdf (var 0) (var 1) (var 2) (var 3)) (List.ofFn x)
          [List.ofFn (fun i : Fin 3 => (i : ℝ) + 3 / 2), List.ofFn (fun i : Fin 3 => -(i : ℝ)),
           List.ofFn fun _ : Fin 3 => (2 : ℝ)])
       else 0) = 1 :=
  invgamma_iid_lintegral_eq_one 3 _ _ _ (fun i => by positivity) (fun _ => by norm_num)

/-! ## 4. Gaussian and Lognormal with a diagonal covariance, dimension n -/

/-- `Gaussian.logpdf` at the point `z` for mean `m` and diagonal covariance `diag(v)`, assembled from the
    model's definitions exactly as the driver does for what `canonDiag .cov v` returns: rank `n`, covariance
    determinant `Π v_i` (`prodList v`), precision `diag(1/v_i)`, Mahalanobis square `quadForm n P (z - m)`,
    value `gaussLogpdf rank detCov quad` (here with real leaf values in the environment; the driver's
    `gaussLogpdf (const r) (const d) (const q)` is the instance at rational leaves). -/
noncomputable def gaussDiagLogpdf (n : ℕ) (m v z : Fin n → ℝ) : ℝ :=
  eval (env4 n (∏ i, v i)
      (quadForm n (fun i j => if i = j then 1 / extFin v i else 0) (fun i => extFin z i - extFin m i)) 0)
    (gaussLogpdf (var 0) (var 1) (var 2))

/-- **Diagonal Gaussian = independent normal components.**  For every dimension, mean and positive
    variances, `exp(Gaussian.logpdf z)` is the product of the one-dimensional normal densities
    `N(z_i; m_i, v_i)` (Mathlib's `gaussianPDFReal`). -/
theorem gauss_diag_exp_logpdf (n : ℕ) (m v z : Fin n → ℝ) (hv : ∀ i, 0 < v i) :
    Real.exp (gaussDiagLogpdf n m v z) = ∏ i, gaussianPDFReal (m i) (Real.toNNReal (v i)) (z i) := by
  have hR : ∀ i, gaussianPDFReal (m i) (Real.toNNReal (v i)) (z i)
      = Real.exp (-(1 / 2 * (Real.log (2 * Real.pi) + Real.log (v i)))
          + -(1 / 2 * (1 / v i * (z i - m i) ^ 2))) := fun i => gaussianPDFReal_eq_exp _ _ _ (hv i)
  simp_rw [hR]
  rw [← Real.exp_sum]
  congr 1
  unfold gaussDiagLogpdf
  simp only [gaussLogpdf, eval_add, eval_neg, eval_mul, eval_log, eval_pi, eval_ofNat, eval_div, eval_var,
    env4_0, env4_1, env4_2, Nat.cast_ofNat, Nat.cast_one]
  rw [quadForm_diag, Finset.sum_range, Real.log_prod (fun i _ => (hv i).ne')]
  simp only [extFin_val, Finset.sum_add_distrib, Finset.sum_neg_distrib, ← Finset.mul_sum, Finset.sum_const,
    Finset.card_univ, Fintype.card_fin, nsmul_eq_mul]

/-- **Diagonal Gaussian, dimension n, is normalised:** `∫_{ℝⁿ} exp(Gaussian.logpdf) = 1` for every mean and
    positive variances. -/
theorem gauss_diag_integral_eq_one (n : ℕ) (m v : Fin n → ℝ) (hv : ∀ i, 0 < v i) :
    ∫ z : Fin n → ℝ, Real.exp (gaussDiagLogpdf n m v z) = 1 := by
  simp_rw [gauss_diag_exp_logpdf n m v _ hv]
  rw [integral_fintype_prod_volume_eq_prod (fun i t => gaussianPDFReal (m i) (Real.toNNReal (v i)) t)]
  refine Finset.prod_eq_one fun i _ => integral_gaussianPDFReal_eq_one (m i) ?_
  simp only [ne_eq, Real.toNNReal_eq_zero, not_le]
  exact hv i

example : ∫ z : Fin 3 → ℝ, Real.exp (gaussDiagLogpdf 3 (fun i => (i : ℝ)) (fun i => (i : ℝ) + 1 / 2) z) = 1 :=
  gauss_diag_integral_eq_one 3 _ _ (fun i => by positivity)

example : Real.exp (gaussDiagLogpdf 2 (fun _ => 0) (fun _ => 2) (fun _ => 1))
    = ∏ _i : Fin 2, gaussianPDFReal 0 (Real.toNNReal 2) 1 :=
  gauss_diag_exp_logpdf 2 _ _ _ (fun _ => by norm_num)

/-- the density `Lognormal.logpdf` denotes for a diagonal covariance: `lognormalGuard` (any `x_i ≤ 0` ⇒ 0) and
    `log(normal.pdf(log x) * prod(1/x))` -/
noncomputable def lognormalDiagDensity (n : ℕ) (m v x : Fin n → ℝ) : ℝ :=
  if ∀ i, 0 < x i then
    Real.exp (gaussDiagLogpdf n m v (fun i => Real.log (x i)) - ∑ i, Real.log (x i))
  else 0

/-- **Diagonal Lognormal = independent lognormal components**: the joint density is the product of the
    one-component densities of section 2. -/
theorem lognormal_diag_density_eq_prod (n : ℕ) (m v x : Fin n → ℝ) (hv : ∀ i, 0 < v i) :
    lognormalDiagDensity n m v x = ∏ i, lognormalDensity (m i) (v i) (x i) := by
  unfold lognormalDiagDensity
  simp_rw [lognormal_density_eq _ _ _ (hv _)]
  split_ifs with h
  · rw [Real.exp_sub, gauss_diag_exp_logpdf n m v _ hv, Real.exp_sum, ← Finset.prod_div_distrib]
    refine Finset.prod_congr rfl fun i _ => ?_
    rw [if_pos (h i), Real.exp_log (h i)]
  · rw [not_forall] at h
    obtain ⟨i, hi⟩ := h
    exact (Finset.prod_eq_zero (Finset.mem_univ i) (if_neg hi)).symm

example : lognormalDiagDensity 2 (fun _ => 0) (fun _ => 2) (fun _ => 3)
    = ∏ _i : Fin 2, lognormalDensity 0 2 3 :=
  lognormal_diag_density_eq_prod 2 _ _ _ (fun _ => by norm_num)

/-- **Diagonal Lognormal, dimension n, is normalised** (Bochner form). -/
theorem lognormal_diag_integral_eq_one (n : ℕ) (m v : Fin n → ℝ) (hv : ∀ i, 0 < v i) :
    ∫ x : Fin n → ℝ, lognormalDiagDensity n m v x = 1 := by
  simp_rw [lognormal_diag_density_eq_prod n m v _ hv]
  rw [integral_fintype_prod_volume_eq_prod (fun i t => lognormalDensity (m i) (v i) t)]
  exact Finset.prod_eq_one fun i _ => lognormal_integral_eq_one _ _ (hv i)

example : ∫ x : Fin 3 → ℝ, lognormalDiagDensity 3 (fun i => (i : ℝ)) (fun _ => 1 / 2) x = 1 :=
  lognormal_diag_integral_eq_one 3 _ _ (fun _ => by norm_num)

/-- **Diagonal Lognormal, dimension n, is normalised** (`ℝ≥0∞` form). -/
theorem lognormal_diag_lintegral_eq_one (n : ℕ) (m v : Fin n → ℝ) (hv : ∀ i, 0 < v i) :
    ∫⁻ x : Fin n → ℝ, ENNReal.ofReal (lognormalDiagDensity n m v x) = 1 := by
  refine lintegral_eq_one_of_integral _ (fun x => ?_) (lognormal_diag_integral_eq_one n m v hv)
  unfold lognormalDiagDensity
  split_ifs
  · exact (Real.exp_pos _).le
  · exact le_rfl

example : ∫⁻ x : Fin 2 → ℝ, ENNReal.ofReal
    (lognormalDiagDensity 2 (fun i => (i : ℝ) - 1) (fun i => (i : ℝ) + 1 / 4) x) = 1 :=
  lognormal_diag_lintegral_eq_one 2 _ _ (fun i => by positivity)

/-! ## 4b. Gaussian given by any invertible square root of the precision, dimension n -/

/-- `Gaussian.logpdf` at `z` for mean `m` when the stored `sqrtprec` is the square matrix `R`: quadratic part
    `np.sum(np.square(sqrtprec @ dev))` = the model's `normSqR n n R (z - m)` (`Gaussian._logupdf`), rank `n`,
    covariance determinant `1/det(R Rᵀ) = 1/(det R)²` (what `canonFull .sqrtprec` stores as `detCov`, and what
    every other full-matrix branch stores once its certificate `RᵀR = P`, `P·Σ = 1` holds), assembled by
    `gaussLogpdf`. -/
noncomputable def gaussSqrtprecLogpdf (n : ℕ) (R : Matrix (Fin n) (Fin n) ℝ) (m z : Fin n → ℝ) : ℝ :=
  eval (env4 n (1 / R.det ^ 2) (normSqR n n (extMat R) (fun i => extFin z i - extFin m i)) 0)
    (gaussLogpdf (var 0) (var 1) (var 2))

lemma gaussSqrtprecLogpdf_eq (n : ℕ) (R : Matrix (Fin n) (Fin n) ℝ) (m z : Fin n → ℝ) :
    gaussSqrtprecLogpdf n R m z
      = Real.log |R.det| + gaussDiagLogpdf n (fun _ => 0) (fun _ => 1) (Matrix.mulVec R (z - m)) := by
  unfold gaussSqrtprecLogpdf gaussDiagLogpdf
  rw [extFin_sub, normSqR_extMat, quadForm_diag, Finset.sum_range]
  simp only [gaussLogpdf, eval_add, eval_neg, eval_mul, eval_log, eval_pi, eval_ofNat, eval_div, eval_var,
    env4_0, env4_1, env4_2, Nat.cast_ofNat, Nat.cast_one, extFin_val, Finset.prod_const_one, Real.log_one,
    sub_zero, div_one, one_mul, add_zero]
  have hlog : Real.log (1 / R.det ^ 2) = -(2 * Real.log |R.det|) := by
    rw [one_div, Real.log_inv, Real.log_pow, Real.log_abs]
    norm_num
  rw [hlog]
  ring

/-- **Full-matrix Gaussian, dimension n, is normalised.**  For every invertible `sqrtprec` matrix `R`
    (symmetric or not, triangular or not) and every mean, `exp(Gaussian.logpdf)` — quadratic part `‖R(z-m)‖²`,
    log-determinant of the covariance `-log det(R Rᵀ)`, rank `n` — integrates to one over `ℝⁿ`.  Linear
    change of variables `w = R(z-m)` (Lebesgue measure scales by `|det R|⁻¹`) from the standard normal. -/
theorem gauss_sqrtprec_integral_eq_one (n : ℕ) (R : Matrix (Fin n) (Fin n) ℝ) (hR : R.det ≠ 0)
    (m : Fin n → ℝ) :
    ∫ z : Fin n → ℝ, Real.exp (gaussSqrtprecLogpdf n R m z) = 1 := by
  have h1 : ∀ i : Fin n, (0:ℝ) < (fun _ : Fin n => (1:ℝ)) i := fun _ => one_pos
  have hpt : ∀ z : Fin n → ℝ, Real.exp (gaussSqrtprecLogpdf n R m z)
      = |R.det| * (fun w : Fin n → ℝ => ∏ i, gaussianPDFReal 0 (Real.toNNReal 1) (w i))
          (Matrix.mulVec R (z - m)) := by
    intro z
    rw [gaussSqrtprecLogpdf_eq n R, Real.exp_add, Real.exp_log (abs_pos.mpr hR),
      gauss_diag_exp_logpdf n _ _ _ h1]
  have hmeas : Measurable (fun w : Fin n → ℝ => ∏ i, gaussianPDFReal 0 (Real.toNNReal 1) (w i)) :=
    Finset.measurable_prod _ fun i _ => (measurable_gaussianPDFReal _ _).comp (measurable_pi_apply i)
  have hg := integral_comp_mulVec R hR _ hmeas m
  simp_rw [hpt]
  rw [integral_const_mul, hg,
    integral_fintype_prod_volume_eq_prod (fun _ t => gaussianPDFReal 0 (Real.toNNReal 1) t),
    Finset.prod_eq_one fun i _ => integral_gaussianPDFReal_eq_one 0 (by simp), mul_one,
    mul_inv_cancel₀ (abs_pos.mpr hR).ne']

example : ∫ z : Fin 2 → ℝ, Real.exp (gaussSqrtprecLogpdf 2 !![1, 1; 0, 2] (fun _ => 1) z) = 1 :=
  gauss_sqrtprec_integral_eq_one 2 _ (by simp [Matrix.det_fin_two]) _

/-- `Gaussian.logpdf` at `z` for mean `m` and precision matrix `P` (`prec` form, or the precision certified
    against a covariance): rank `n`, covariance determinant `1/det P`, Mahalanobis square `quadForm n P (z-m)` -/
noncomputable def gaussPrecLogpdf (n : ℕ) (P : Matrix (Fin n) (Fin n) ℝ) (m z : Fin n → ℝ) : ℝ :=
  eval (env4 n (1 / P.det) (quadForm n (extMat P) (fun i => extFin z i - extFin m i)) 0)
    (gaussLogpdf (var 0) (var 1) (var 2))

open scoped MatrixOrder in
/-- a precision `P = BᵀB` gives the same log-density as the square root `B` -/
lemma gaussPrecLogpdf_eq_sqrtprec (n : ℕ) (B : Matrix (Fin n) (Fin n) ℝ) (m z : Fin n → ℝ) :
    gaussPrecLogpdf n (B.transpose * B) m z = gaussSqrtprecLogpdf n B m z := by
  unfold gaussPrecLogpdf gaussSqrtprecLogpdf
  rw [Matrix.det_mul, Matrix.det_transpose, ← pow_two, normSqR_eq_quadForm_gram]
  congr 2
  rw [quadForm_eq, quadForm_eq]
  refine Finset.sum_congr rfl fun i hi => ?_
  congr 1
  refine Finset.sum_congr rfl fun j hj => ?_
  congr 1
  have hi' : i < n := Finset.mem_range.mp hi
  have hj' : j < n := Finset.mem_range.mp hj
  rw [gramOf_eq, Finset.sum_range]
  have h1 : extMat (B.transpose * B) i j = (B.transpose * B) ⟨i, hi'⟩ ⟨j, hj'⟩ := extMat_val _ ⟨i, hi'⟩ ⟨j, hj'⟩
  rw [h1, Matrix.mul_apply]
  refine Finset.sum_congr rfl fun k _ => ?_
  rw [Matrix.transpose_apply]
  congr 1
  · exact (extMat_val B k ⟨i, hi'⟩).symm
  · exact (extMat_val B k ⟨j, hj'⟩).symm

open scoped MatrixOrder in
/-- **Multivariate Gaussian with any symmetric positive definite precision matrix is normalised**, every
    dimension, every mean: `exp(Gaussian.logpdf)` with quadratic part `(z-m)ᵀP(z-m)`, rank `n` and covariance
    determinant `1/det P` integrates to one over `ℝⁿ`.  With `P = Σ⁻¹` (`det Σ = 1/det P`, `det_cov_of_prec`) this
    is the `cov` form; `gauss_forms_agree_quad` transfers it to every specification certified against `Σ`. -/
theorem gauss_prec_integral_eq_one (n : ℕ) (P : Matrix (Fin n) (Fin n) ℝ) (hP : P.PosDef) (m : Fin n → ℝ) :
    ∫ z : Fin n → ℝ, Real.exp (gaussPrecLogpdf n P m z) = 1 := by
  obtain ⟨B, hB⟩ := CStarAlgebra.nonneg_iff_eq_star_mul_self.mp hP.posSemidef.nonneg
  have hB' : P = B.transpose * B := by
    rw [hB, Matrix.star_eq_conjTranspose, Matrix.conjTranspose_eq_transpose_of_trivial]
  have hdet : B.det ≠ 0 := by
    intro h0
    have := hP.det_pos
    rw [hB', Matrix.det_mul, Matrix.det_transpose, h0, mul_zero] at this
    exact lt_irrefl _ this
  subst hB'
  simp_rw [gaussPrecLogpdf_eq_sqrtprec]
  exact gauss_sqrtprec_integral_eq_one n B hdet m

example : ∫ z : Fin 2 → ℝ, Real.exp (gaussPrecLogpdf 2 (1 : Matrix (Fin 2) (Fin 2) ℝ) (fun _ => 3) z) = 1 :=
  gauss_prec_integral_eq_one 2 _ Matrix.PosDef.one _

/-- **Multivariate Gaussian in the `cov` form is normalised**: covariance `C` symmetric positive definite, the
    stored numbers being what `canonFull .cov` computes — `detCov = det C`, precision `C⁻¹`, rank `n`. -/
theorem gauss_cov_integral_eq_one (n : ℕ) (C : Matrix (Fin n) (Fin n) ℝ) (hC : C.PosDef) (m : Fin n → ℝ) :
    ∫ z : Fin n → ℝ, Real.exp (eval (env4 n C.det
        (quadForm n (extMat C⁻¹) (fun i => extFin z i - extFin m i)) 0) (gaussLogpdf (var 0) (var 1) (var 2))) = 1 := by
  have h := gauss_prec_integral_eq_one n C⁻¹ hC.inv m
  unfold gaussPrecLogpdf at h
  rwa [Matrix.det_nonsing_inv, Ring.inverse_eq_inv', one_div, inv_inv] at h

example : (1 : Matrix (Fin 3) (Fin 3) ℝ).PosDef := Matrix.PosDef.one

/-! ## 5. the executable `canonDiag`: every diagonal parameterisation yields a normalised density -/

lemma entry_diag (pl : List ℚ) (i j : ℕ) (hi : i < pl.length) (hj : j < pl.length) :
    QMat.entry (QMat.diag pl) i j = if i = j then pl.getD i 0 else 0 := by
  simp [QMat.entry, QMat.diag, List.getD_eq_getElem?_getD, hi, hj]

lemma foldl_mul_eq (w : List ℚ) (a : ℚ) : w.foldl (· * ·) a = a * w.prod := by
  induction w generalizing a with
  | nil => simp
  | cons b t ih => rw [List.foldl_cons, ih, List.prod_cons, mul_assoc]

lemma prodList_cast (w : List ℚ) : ((prodList w : ℚ) : ℝ) = ∏ i : Fin w.length, ((w.getD i 0 : ℚ) : ℝ) := by
  unfold prodList
  rw [foldl_mul_eq, one_mul, ← Fin.prod_univ_getElem, Rat.cast_prod]
  refine Finset.prod_congr rfl fun i _ => ?_
  simp [List.getD_eq_getElem?_getD]

/-- the value `Gaussian.logpdf` takes at `z` when the setter stored the record `(rank, detCov, P)`:
    `gaussLogpdf rank detCov (quadForm rank P (z - m))` — the model's definitions, the rational record cast to ℝ -/
noncomputable def gaussLogpdfOf (rank : ℕ) (detCov : ℚ) (P : QMat.Mat) (m z : Fin rank → ℝ) : ℝ :=
  eval (env4 rank (detCov : ℝ)
      (quadForm rank (fun i j => ((fn2 P i j : ℚ) : ℝ)) (fun i => extFin z i - extFin m i)) 0)
    (gaussLogpdf (var 0) (var 1) (var 2))

lemma gaussLogpdfOf_diag (n : ℕ) (pl : List ℚ) (det : ℚ) (hlen : pl.length = n)
    (hdet : (det : ℝ) = ∏ i : Fin n, 1 / ((pl.getD i 0 : ℚ) : ℝ)) (m z : Fin n → ℝ) :
    gaussLogpdfOf n det (QMat.diag pl) m z = gaussDiagLogpdf n m (fun i => 1 / ((pl.getD i 0 : ℚ) : ℝ)) z := by
  have hq : ∀ w : ℕ → ℝ, quadForm n (fun i j => ((fn2 (QMat.diag pl) i j : ℚ) : ℝ)) w
      = quadForm n (fun i j => if i = j then
          1 / extFin (fun i : Fin n => 1 / ((pl.getD i 0 : ℚ) : ℝ)) i else 0) w := by
    intro w
    rw [quadForm_eq, quadForm_eq]
    refine Finset.sum_congr rfl fun i hi => ?_
    have hi' : i < n := Finset.mem_range.mp hi
    congr 1
    refine Finset.sum_congr rfl fun j hj => ?_
    have hj' : j < n := Finset.mem_range.mp hj
    congr 1
    rw [fn2, entry_diag pl i j (hlen ▸ hi') (hlen ▸ hj')]
    split_ifs with hij
    · have : extFin (fun i : Fin n => 1 / ((pl.getD i 0 : ℚ) : ℝ)) i = 1 / ((pl.getD i 0 : ℚ) : ℝ) := by
        simp [extFin, hi']
      rw [this, one_div_one_div]
    · simp
  unfold gaussLogpdfOf gaussDiagLogpdf
  rw [hdet, hq]

lemma diag_var_pos (n : ℕ) (pl : List ℚ) (hpos : ∀ i, i < n → 0 < pl.getD i 0) (i : Fin n) :
    (0:ℝ) < 1 / ((pl.getD i 0 : ℚ) : ℝ) := by
  have := hpos i i.2
  have h' : (0:ℝ) < ((pl.getD i 0 : ℚ) : ℝ) := by exact_mod_cast this
  positivity

lemma diag_prec_integral_eq_one (n : ℕ) (pl : List ℚ) (det : ℚ) (hlen : pl.length = n)
    (hpos : ∀ i, i < n → 0 < pl.getD i 0)
    (hdet : (det : ℝ) = ∏ i : Fin n, 1 / ((pl.getD i 0 : ℚ) : ℝ)) (m : Fin n → ℝ) :
    ∫ z : Fin n → ℝ, Real.exp (gaussLogpdfOf n det (QMat.diag pl) m z) = 1 := by
  simp_rw [gaussLogpdfOf_diag n pl det hlen hdet m]
  exact gauss_diag_integral_eq_one n m _ (diag_var_pos n pl hpos)

/-- the density `Lognormal.logpdf` denotes when the internal Gaussian stored the record `(rank, detCov, P)`:
    `lognormalGuard`, then `log(normal.pdf(log x) * prod(1/x))` -/
noncomputable def lognormalDensityOf (rank : ℕ) (detCov : ℚ) (P : QMat.Mat) (m x : Fin rank → ℝ) : ℝ :=
  if ∀ i, 0 < x i then
    Real.exp (gaussLogpdfOf rank detCov P m (fun i => Real.log (x i)) - ∑ i, Real.log (x i))
  else 0

lemma diag_prec_lognormal_lintegral_eq_one (n : ℕ) (pl : List ℚ) (det : ℚ) (hlen : pl.length = n)
    (hpos : ∀ i, i < n → 0 < pl.getD i 0)
    (hdet : (det : ℝ) = ∏ i : Fin n, 1 / ((pl.getD i 0 : ℚ) : ℝ)) (m : Fin n → ℝ) :
    ∫⁻ x : Fin n → ℝ, ENNReal.ofReal (lognormalDensityOf n det (QMat.diag pl) m x) = 1 := by
  rw [← lognormal_diag_lintegral_eq_one n m _ (diag_var_pos n pl hpos)]
  refine lintegral_congr fun x => ?_
  unfold lognormalDensityOf lognormalDiagDensity
  rw [gaussLogpdfOf_diag n pl det hlen hdet m]

lemma prodList_cast' (w : List ℚ) (n : ℕ) (hn : w.length = n) :
    ((prodList w : ℚ) : ℝ) = ∏ i : Fin n, ((w.getD i 0 : ℚ) : ℝ) := by
  subst hn; exact prodList_cast w

lemma getD_map_lt (v : List ℚ) (g : ℚ → ℚ) (i : ℕ) (hi : i < v.length) :
    (v.map g).getD i 0 = g (v.getD i 0) := by
  simp [List.getD_eq_getElem?_getD, hi]

lemma getD_mem_lt (v : List ℚ) (i : ℕ) (hi : i < v.length) : v.getD i 0 ∈ v := by
  rw [List.getD_eq_getElem?_getD, List.getElem?_eq_getElem hi]
  exact List.getElem_mem hi

/-- common core of the four diagonal forms: precisions `v.map h`, determinant `prodList (v.map g)`, `g = 1/h > 0` -/
lemma diag_form_facts (v : List ℚ) (g h : ℚ → ℚ) (hgh : ∀ x ∈ v, 0 < h x ∧ g x = 1 / h x) :
    (∀ i, i < v.length → 0 < (v.map h).getD i 0) ∧
      ((prodList (v.map g) : ℚ) : ℝ) = ∏ i : Fin v.length, 1 / (((v.map h).getD i 0 : ℚ) : ℝ) := by
  constructor
  · intro i hi
    rw [getD_map_lt v h i hi]
    exact (hgh _ (getD_mem_lt v i hi)).1
  · rw [prodList_cast' (v.map g) v.length (by simp)]
    refine Finset.prod_congr rfl fun i _ => ?_
    rw [getD_map_lt v g i i.2, getD_map_lt v h i i.2, (hgh _ (getD_mem_lt v i i.2)).2]
    push_cast
    rfl

lemma diag_form_integral_eq_one (v : List ℚ) (g h : ℚ → ℚ) (hgh : ∀ x ∈ v, 0 < h x ∧ g x = 1 / h x)
    (m : Fin v.length → ℝ) :
    ∫ z : Fin v.length → ℝ,
      Real.exp (gaussLogpdfOf v.length (prodList (v.map g)) (QMat.diag (v.map h)) m z) = 1 :=
  diag_prec_integral_eq_one v.length (v.map h) _ (by simp) (diag_form_facts v g h hgh).1
    (diag_form_facts v g h hgh).2 m

lemma pos_of_not_any_le (v : List ℚ) (h : ¬ (v.any (· ≤ 0)) = true) : ∀ x ∈ v, 0 < x := by
  intro x hx
  by_contra hx0
  exact h (List.any_eq_true.mpr ⟨x, hx, by simpa using hx0⟩)

lemma ne_of_not_any_eq (v : List ℚ) (h : ¬ (v.any (· = 0)) = true) : ∀ x ∈ v, x ≠ 0 := by
  intro x hx hx0
  exact h (List.any_eq_true.mpr ⟨x, hx, by simpa using hx0⟩)

/-- **Every diagonal parameterisation the executable `canonDiag` accepts denotes a normalised density.**
    For each of the four forms (`cov`: variances, `prec`: precisions, `sqrtcov`: standard deviations,
    `sqrtprec`: inverse standard deviations — the scalar / vector / diagonal branches of
    `get_sqrtprec_from_{cov,prec,sqrtcov,sqrtprec}`) and every rational entry list `v` for which `canonDiag`
    returns a record `c` (rank, covariance determinant `exp(logdet)`, precision matrix `P`), the value
    `Gaussian.logpdf` assembles from that record — `gaussLogpdf c.rank c.detCov (quadForm c.rank P (z - m))`,
    the same definitions the driver evaluates — exponentiates to a function that integrates to one over
    `ℝ^rank`, for every mean `m`.  So rank, log-determinant and precision stored by each branch are mutually
    consistent (a wrong sign of `logdet`, a variance used as a precision, or a wrong rank would break it). -/
theorem canonDiag_density_integral_eq_one (form : Form) (v : List ℚ) (c : Canon) (P : QMat.Mat)
    (h : canonDiag form v = .ok c) (hP : c.P = some P) (m : Fin c.rank → ℝ) :
    ∫ z : Fin c.rank → ℝ, Real.exp (gaussLogpdfOf c.rank c.detCov P m z) = 1 := by
  cases form
  · simp only [canonDiag] at h
    split_ifs at h with hany
    injection h with hc
    subst hc
    injection hP with hP
    subst hP
    have hpos := pos_of_not_any_le v hany
    have := diag_form_integral_eq_one v id (fun x => 1 / x)
      (fun x hx => ⟨by have := hpos x hx; positivity, by simp⟩) m
    rw [List.map_id] at this
    exact this
  · simp only [canonDiag] at h
    split_ifs at h with hany
    injection h with hc
    subst hc
    injection hP with hP
    subst hP
    have hpos := pos_of_not_any_le v hany
    have := diag_form_integral_eq_one v (fun x => 1 / x) id (fun x hx => ⟨hpos x hx, rfl⟩) m
    rw [List.map_id] at this
    exact this
  · simp only [canonDiag] at h
    split_ifs at h with hany
    injection h with hc
    subst hc
    injection hP with hP
    subst hP
    have hne := ne_of_not_any_eq v hany
    exact diag_form_integral_eq_one v (fun s => s * s) (fun s => 1 / (s * s))
      (fun x hx => ⟨by have := mul_self_pos.mpr (hne x hx); positivity, by simp⟩) m
  · simp only [canonDiag] at h
    split_ifs at h with hany
    injection h with hc
    subst hc
    injection hP with hP
    subst hP
    have hne := ne_of_not_any_eq v hany
    exact diag_form_integral_eq_one v (fun r => 1 / (r * r)) (fun r => r * r)
      (fun x hx => ⟨mul_self_pos.mpr (hne x hx), rfl⟩) m

example : ∃ c P, canonDiag .sqrtcov [2, 3] = .ok c ∧ c.P = some P ∧ c.rank = 2 ∧ c.detCov = 36 := by
  refine ⟨{ P := some (QMat.diag ([2, 3].map fun s : ℚ => 1 / (s * s))),
            detCov := prodList ([2, 3].map fun s : ℚ => s * s), rank := 2 }, _, ?_, rfl, rfl, ?_⟩
  · simp [canonDiag]
  · simp [prodList]; norm_num

/-- **Lognormal with a diagonal covariance, as the executable model reads it, is normalised.**  `Lognormal`
    builds `Gaussian(mean, cov)`; for every rational variance list `v` that `canonDiag .cov` accepts (scalar,
    vector or diagonal-matrix covariance), the density assembled from the stored record — guard, then
    `gaussLogpdf c.rank c.detCov (quadForm … (log x - m)) - Σ log x_i` — integrates to one over `ℝ^rank`. -/
theorem canonDiag_lognormal_lintegral_eq_one (v : List ℚ) (c : Canon) (P : QMat.Mat)
    (h : canonDiag .cov v = .ok c) (hP : c.P = some P) (m : Fin c.rank → ℝ) :
    ∫⁻ x : Fin c.rank → ℝ, ENNReal.ofReal (lognormalDensityOf c.rank c.detCov P m x) = 1 := by
  simp only [canonDiag] at h
  split_ifs at h with hany
  injection h with hc
  subst hc
  injection hP with hP
  subst hP
  have hpos := pos_of_not_any_le v hany
  have hf := diag_form_facts v id (fun x => 1 / x)
    (fun x hx => ⟨by have := hpos x hx; positivity, by simp⟩)
  rw [List.map_id] at hf
  exact diag_prec_lognormal_lintegral_eq_one v.length (v.map fun x => 1 / x) _ (by simp) hf.1 hf.2 m

example : ∃ c P, canonDiag .cov [2, 1 / 3] = .ok c ∧ c.P = some P ∧ c.rank = 2 ∧ c.detCov = 2 / 3 := by
  refine ⟨{ P := some (QMat.diag ([2, 1 / 3].map fun s : ℚ => 1 / s)),
            detCov := prodList [2, 1 / 3], rank := 2 }, _, ?_, rfl, rfl, ?_⟩
  · simp [canonDiag]
  · simp [prodList]; norm_num

end CuqiVerif.C04
