import CuqiVerif.Proofs.C08_phase
import CuqiVerif.Props.C08_law

/-!
# C08 — from the orbit to phase space (gap (b) of `Props/C08_orbit.lean`)

`Props/C08_orbit.lean` and `Props/C08_law.lean` show that the law of one NUTS transition, restricted
to one leapfrog trajectory `(z_k)_{k∈ℤ}`, is the orbit-level kernel `Orb.P`, and that `Orb.P` is
reversible w.r.t. / leaves invariant the counting measure on the admissible (in-slice, guard-passing)
indices.  This file lifts that to phase space.

1. **General lifting lemma** (`orbit_to_phase_reversible`, `orbit_to_phase_invariant`): for a measure
   preserving `ℤ`-action `φ` on a measure space `(Z, μ)` and orbit-level weights `P z i j` that are
   (1) shift covariant, (2) reversible between admissible indices, (3) stochastic with support in the
   admissible indices and (4) measurable in `z`, the phase-space kernel
   `K(z, B) = Σ_k P z 0 k · 1_B(φ k z)` satisfies detailed balance w.r.t. `μ` restricted to the
   admissible set, hence leaves it invariant.  No disintegration / fundamental domain is needed: the
   proof is a change of variables `w = φ k z` term by term.
2. **The NUTS weights satisfy (1)–(4)** (`nuts_weights_shift_covariant`, `nuts_weights_probability`,
   `nuts_weights_measurable`): `Orb.P` read off along the orbits of `φ` from measurable functions of the
   phase-space point (`PhaseData`: slice indicator, divergence indicator, U-turn verdict of the block
   starting at the point, guard).  (4) is *proved*, not assumed.
3. **NUTS on phase space** (`nuts_phase_reversible`, `nuts_phase_invariant`,
   `nuts_phase_markov_kernel`): for every measure preserving measurable bijection `Φ`; also as a
   Mathlib `ProbabilityTheory.Kernel` with `Kernel.IsReversible` / `Kernel.Invariant`.
4. **The model's randomised transition** (`nutsStepD_phase_reversible`, `nutsStepD_phase_invariant`):
   the probability that `nutsStepD` (the model's `nutsStep` with its draws read as i.i.d. uniforms,
   `Props/C08_law.lean`) started at `z` ends in `B`, integrated over the admissible set.
5. **Leapfrog on `ℝⁿ × ℝⁿ`** (`nuts_leapfrog_reversible`, `nuts_leapfrog_invariant`): from
   `leapfrog_volume` and `leapfrogFn_reversible`, with the slice / divergence / U-turn tests of the code
   for a measurable log-density.
6. **From the slice to the target** (`slice_variable_integrated_out`,
   `nuts_leapfrog_joint_target_invariant`, `nuts_leapfrog_position_target_invariant`,
   `nuts_leapfrog_target_invariant`): integrating over the slice variable `u ~ U(0, exp Ham]` gives
   invariance of `exp(logp x − ½|r|²) dx dr`; drawing `r ~ N(0, I)` and projecting to the position
   gives invariance of `exp(logp x) dx`.
The remaining gap is described in the comment block at the end of the file.
Definitions and helper lemmas: `Proofs/C08_phase.lean`.
-/

namespace CuqiVerif.C08
open MeasureTheory
open scoped ENNReal

/-! ## (1) the general lifting lemma -/
section General
variable {Z : Type*} [MeasurableSpace Z]

/-- **Orbit-level detailed balance lifts to phase space.**  `φ` is a measure preserving action of `ℤ`
    on `(Z, μ)` (for NUTS: the iterates of the leapfrog map), `adm` a measurable set of admissible
    points, `P z i j` the probability that the transition, run on the orbit of `z`, moves from the
    orbit point with index `i` to the one with index `j`.  If
    (1) `P` is shift covariant (`P (φ m z) i j = P z (i+m) (j+m)`: the weights depend on the orbit
        points, not on where the orbit is entered),
    (2) `P z i j = P z j i` between admissible points of one orbit (`nuts_orbit_reversible`),
    (3) from an admissible start the weights sum to `1` and vanish on non-admissible points
        (`nuts_orbit_stochastic`, `nuts_orbit_support`),
    (4) `z ↦ P z 0 k` is measurable,
    then the phase-space kernel `K(z, B) = Σ_k P z 0 k · 1_B(φ k z)` is reversible w.r.t. `μ`
    restricted to `adm`: the mass flowing from `A` to `B` equals the mass flowing from `B` to `A`. -/
theorem orbit_to_phase_reversible (μ : Measure Z) (φ : ℤ → Z → Z) (adm : Set Z)
    (P : Z → ℤ → ℤ → ℝ≥0∞)
    (act_zero : ∀ z, φ 0 z = z) (act_add : ∀ a b z, φ (a + b) z = φ a (φ b z))
    (pres : ∀ k, MeasurePreserving (φ k) μ μ) (adm_meas : MeasurableSet adm)
    (shift : ∀ m z i j, P (φ m z) i j = P z (i + m) (j + m))
    (rev : ∀ z i j, φ i z ∈ adm → φ j z ∈ adm → P z i j = P z j i)
    (stoch : ∀ z ∈ adm, ∑' k, P z 0 k = 1)
    (supp : ∀ z ∈ adm, ∀ k, φ k z ∉ adm → P z 0 k = 0)
    (meas : ∀ k, Measurable (fun z => P z 0 k))
    {A B : Set Z} (hA : MeasurableSet A) (hB : MeasurableSet B) :
    ∫⁻ z in adm ∩ A, (∑' k : ℤ, P z 0 k * B.indicator 1 (φ k z)) ∂μ
      = ∫⁻ z in adm ∩ B, (∑' k : ℤ, P z 0 k * A.indicator 1 (φ k z)) ∂μ :=
  OrbitKernel.detailed_balance
    ⟨act_zero, act_add, pres, adm_meas, shift, rev, stoch, supp, meas⟩ hA hB

/-- **Orbit-level invariance lifts to phase space.**  Under the hypotheses (1)–(4) of
    `orbit_to_phase_reversible` the phase-space kernel leaves `μ` restricted to the admissible set
    invariant: starting from `μ|adm`, the mass found in `B` after one transition is `μ|adm (B)`. -/
theorem orbit_to_phase_invariant (μ : Measure Z) (φ : ℤ → Z → Z) (adm : Set Z)
    (P : Z → ℤ → ℤ → ℝ≥0∞)
    (act_zero : ∀ z, φ 0 z = z) (act_add : ∀ a b z, φ (a + b) z = φ a (φ b z))
    (pres : ∀ k, MeasurePreserving (φ k) μ μ) (adm_meas : MeasurableSet adm)
    (shift : ∀ m z i j, P (φ m z) i j = P z (i + m) (j + m))
    (rev : ∀ z i j, φ i z ∈ adm → φ j z ∈ adm → P z i j = P z j i)
    (stoch : ∀ z ∈ adm, ∑' k, P z 0 k = 1)
    (supp : ∀ z ∈ adm, ∀ k, φ k z ∉ adm → P z 0 k = 0)
    (meas : ∀ k, Measurable (fun z => P z 0 k))
    {B : Set Z} (hB : MeasurableSet B) :
    ∫⁻ z, (∑' k : ℤ, P z 0 k * B.indicator 1 (φ k z)) ∂(μ.restrict adm) = (μ.restrict adm) B := by
  rw [Measure.restrict_apply hB, Set.inter_comm]
  exact OrbitKernel.invariant
    ⟨act_zero, act_add, pres, adm_meas, shift, rev, stoch, supp, meas⟩ hB

/-- a non-trivial instance of the hypotheses: the simple random walk on `ℤ` (counting measure,
    translation action, every point admissible) -/
example : OrbitKernel (Measure.count : Measure ℤ) (fun k z => z + k) Set.univ
    (fun _ i j => if j = i + 1 ∨ j = i - 1 then 1 / 2 else 0) where
  act_zero := fun z => add_zero z
  act_add := fun a b z => by ring
  pres := fun k => measurePreserving_add_right _ k
  adm_meas := MeasurableSet.univ
  shift := fun m z i j => by
    have : (j = i + 1 ∨ j = i - 1) ↔ (j + m = i + m + 1 ∨ j + m = i + m - 1) := by omega
    simp only [this]
  rev := fun z i j _ _ => by
    have : (j = i + 1 ∨ j = i - 1) ↔ (i = j + 1 ∨ i = j - 1) := by omega
    simp only [this]
  stoch := fun z _ => by
    rw [tsum_eq_sum (s := {1, -1})]
    · rw [Finset.sum_pair (by norm_num)]
      simp only [zero_add, zero_sub, true_or, or_true, if_true]
      rw [ENNReal.div_add_div_same, one_add_one_eq_two, ENNReal.div_self] <;> norm_num
    · intro k hk
      simp only [Finset.mem_insert, Finset.mem_singleton] at hk
      simp only [zero_add, zero_sub]
      rw [if_neg hk]
  supp := fun z _ k hk => absurd (Set.mem_univ _) hk
  meas := fun k => measurable_const

end General

/-! ## (2) the NUTS weights satisfy the hypotheses -/
section Weights
variable {Z : Type*}

/-- **Shift covariance of the orbit-level NUTS kernel under re-indexing the orbit.**  The orbit-level
    data (`orbAlong φ D z`: slice / divergence / guard indicators of the points `φ k z`, U-turn verdict
    of the block starting at `φ a z`) are functions of the orbit points.  Hence entering the same orbit
    at `φ m z` instead of `z` shifts all indices by `m`:
    `P_{φ m z}(i → j) = P_z(i + m → j + m)` — hypothesis (1) of the lifting lemma, by construction. -/
theorem nuts_weights_shift_covariant (φ : ℤ → Z → Z) (hadd : ∀ a b z, φ (a + b) z = φ a (φ b z))
    (D : PhaseData Z) (M : ℕ) (m : ℤ) (z : Z) (i j : ℤ) :
    (orbAlong φ D (φ m z)).P M i j = (orbAlong φ D z).P M (i + m) (j + m) :=
  (orbAlong_isShift φ hadd D m z).P M i j

/-- data on `ℤ` (translation action): the same trajectory as `exOrb` of `Props/C08_orbit.lean` -/
def exDataZ : PhaseData ℤ where
  S := fun k => decide (-3 ≤ k ∧ k ≤ 4 ∧ k ≠ 1)
  nd := fun k => decide (-6 ≤ k ∧ k ≤ 7)
  ut := fun j a => decide (j < 3 ∨ (-5 ≤ a ∧ a ≤ -2))
  g := fun _ => true

example : (orbAlong (fun k z => z + k) exDataZ 3).P 4 0 (-2) = (orbAlong (fun k z => z + k) exDataZ 0).P 4 3 1 :=
  nuts_weights_shift_covariant (fun k z => z + k) (fun a b z => by ring) exDataZ 4 3 0 0 (-2)

/-- **The orbit-level NUTS kernel is a finitely supported probability vector**: non-negative, zero
    at index distance `≥ 2^M` (`M` doublings visit fewer than `2^M` new points on either side), and
    summing to `1` over `ℤ` (as extended non-negative reals). -/
theorem nuts_weights_probability (o : Orb) (M : ℕ) (i : ℤ) :
    (∀ k, 0 ≤ o.P M i k) ∧ (∀ k, k ∉ Finset.Ico (i + 1 - 2 ^ M) (i + 2 ^ M) → o.P M i k = 0) ∧
    ∑' k : ℤ, ENNReal.ofReal ((o.P M i k : ℚ) : ℝ) = 1 := by
  refine ⟨o.P_nonneg M i, o.P_zero_far M i, ?_⟩
  rw [tsum_eq_sum (s := Finset.Ico (i + 1 - 2 ^ M) (i + 2 ^ M))]
  · rw [← ENNReal.ofReal_sum_of_nonneg]
    · rw [← Rat.cast_sum, o.P_mass M i _ (Finset.Subset.refl _)]; simp
    · intro k _; exact_mod_cast o.P_nonneg M i k
  · intro k hk
    rw [o.P_zero_far M i k hk]; simp

example : ∑' k : ℤ, ENNReal.ofReal (((orbAlong (fun k z => z + k) exDataZ 0).P 4 0 k : ℚ) : ℝ) = 1 :=
  (nuts_weights_probability _ 4 0).2.2

variable [MeasurableSpace Z]

/-- **Hypothesis (4) holds for NUTS.**  If the maps `φ k` and the ingredients (slice indicator,
    divergence indicator, U-turn verdicts, guard) are measurable functions of the phase-space point,
    then so is the orbit-level transition probability `z ↦ P_z(i → k)` — it is a finite expression in
    finitely many of the indicators along the orbit. -/
theorem nuts_weights_measurable (φ : ℤ → Z → Z) (hφ : ∀ k, Measurable (φ k)) (D : PhaseData Z)
    (hS : Measurable D.S) (hnd : Measurable D.nd) (hut : ∀ j, Measurable (D.ut j))
    (hg : Measurable D.g) (M : ℕ) (i k : ℤ) :
    Measurable (fun z => (orbAlong φ D z).P M i k) :=
  orbAlong_P_meas hφ ⟨hS, hnd, hut, hg⟩ M i k

example : Measurable (fun z : ℤ => (orbAlong (fun k z => z + k) exDataZ z).P 4 0 2) :=
  nuts_weights_measurable _ (fun _ => Measurable.of_discrete) exDataZ Measurable.of_discrete
    Measurable.of_discrete (fun _ => Measurable.of_discrete) Measurable.of_discrete 4 0 2

end Weights

/-! ## (3) NUTS on phase space, for any measure preserving bijection -/
section Phase
variable {Z : Type*} [MeasurableSpace Z]

/-- **NUTS is reversible on phase space, slice level fixed.**  `Φ` a measurable bijection of `Z`
    preserving `μ` (the leapfrog map), `D` measurable phase-space data (slice indicator `S`, divergence
    indicator `nd ⊇ S`, U-turn verdicts, guard `g`), `M = max_depth + 1`.  The kernel that moves `z` to
    `Φ^k z` with the orbit-level NUTS probability `Orb.P M 0 k` (computed from the data along the orbit
    of `z`) satisfies detailed balance w.r.t. `μ` restricted to the admissible set `{S ∧ g}`:
    for measurable `A, B` the mass flowing from `A` to `B` equals the mass flowing from `B` to `A`.
    All four hypotheses of the lifting lemma are discharged (`nuts_weights_shift_covariant`,
    `nuts_orbit_reversible`, `nuts_orbit_stochastic`/`nuts_orbit_support`, `nuts_weights_measurable`). -/
theorem nuts_phase_reversible (μ : Measure Z) (Φ : Z ≃ᵐ Z) (hΦ : MeasurePreserving Φ μ μ)
    (D : PhaseData Z) (hS : Measurable D.S) (hnd : Measurable D.nd) (hut : ∀ j, Measurable (D.ut j))
    (hg : Measurable D.g) (hSnd : ∀ z, D.S z = true → D.nd z = true) (M : ℕ)
    {A B : Set Z} (hA : MeasurableSet A) (hB : MeasurableSet B) :
    ∫⁻ z in {z | D.S z = true ∧ D.g z = true} ∩ A,
        (∑' k : ℤ, ENNReal.ofReal (((orbAlong (zact Φ) D z).P M 0 k : ℚ) : ℝ)
          * B.indicator 1 (zact Φ k z)) ∂μ
      = ∫⁻ z in {z | D.S z = true ∧ D.g z = true} ∩ B,
        (∑' k : ℤ, ENNReal.ofReal (((orbAlong (zact Φ) D z).P M 0 k : ℚ) : ℝ)
          * A.indicator 1 (zact Φ k z)) ∂μ :=
  (nuts_orbitKernel (zact Φ) (zact_zero Φ) (zact_add Φ) (zact_pres Φ hΦ) D ⟨hS, hnd, hut, hg⟩
    hSnd M).detailed_balance hA hB

/-- **NUTS leaves `μ` restricted to the admissible part of the slice invariant** (slice level fixed):
    starting from `μ|{S ∧ g}`, the mass found in a measurable set `B` after one transition is
    `μ|{S ∧ g} (B)`.  For `μ` = Lebesgue measure on `ℝⁿ × ℝⁿ` and `S = {log u ≤ Ham}` this is the
    statement "the uniform distribution on the slice is invariant" of Hoffman–Gelman §3.1. -/
theorem nuts_phase_invariant (μ : Measure Z) (Φ : Z ≃ᵐ Z) (hΦ : MeasurePreserving Φ μ μ)
    (D : PhaseData Z) (hS : Measurable D.S) (hnd : Measurable D.nd) (hut : ∀ j, Measurable (D.ut j))
    (hg : Measurable D.g) (hSnd : ∀ z, D.S z = true → D.nd z = true) (M : ℕ)
    {B : Set Z} (hB : MeasurableSet B) :
    ∫⁻ z, (∑' k : ℤ, ENNReal.ofReal (((orbAlong (zact Φ) D z).P M 0 k : ℚ) : ℝ)
          * B.indicator 1 (zact Φ k z)) ∂(μ.restrict {z | D.S z = true ∧ D.g z = true})
      = (μ.restrict {z | D.S z = true ∧ D.g z = true}) B := by
  rw [Measure.restrict_apply hB, Set.inter_comm]
  exact (nuts_orbitKernel (zact Φ) (zact_zero Φ) (zact_add Φ) (zact_pres Φ hΦ) D ⟨hS, hnd, hut, hg⟩
    hSnd M).invariant hB

/-- a concrete instance on `(ℝ, Lebesgue)`: translation by `1`, slice `[0, 5]`, divergence outside
    `[-3, 8]`, U-turn reported for blocks of 8 or more points starting left of `-2` -/
noncomputable def exData : PhaseData ℝ where
  S := fun x => decide (0 ≤ x ∧ x ≤ 5)
  nd := fun x => decide (-3 ≤ x ∧ x ≤ 8)
  ut := fun j x => decide (j < 3 ∨ -2 ≤ x)
  g := fun _ => true

example {B : Set ℝ} (hB : MeasurableSet B) :
    ∫⁻ z, (∑' k : ℤ, ENNReal.ofReal (((orbAlong (zact (MeasurableEquiv.addRight (1 : ℝ))) exData z).P 4 0 k : ℚ) : ℝ)
          * B.indicator 1 (zact (MeasurableEquiv.addRight (1 : ℝ)) k z))
        ∂(volume.restrict {z | exData.S z = true ∧ exData.g z = true})
      = (volume.restrict {z | exData.S z = true ∧ exData.g z = true}) B :=
  nuts_phase_invariant volume (MeasurableEquiv.addRight (1 : ℝ)) (measurePreserving_add_right volume 1)
    exData
    (measurable_decide ((measurableSet_le measurable_const measurable_id).inter
      (measurableSet_le measurable_id measurable_const)))
    (measurable_decide ((measurableSet_le measurable_const measurable_id).inter
      (measurableSet_le measurable_id measurable_const)))
    (fun j => measurable_decide (by
      by_cases hj : j < 3
      · simp only [hj, true_or, Set.ofPred_true]; exact MeasurableSet.univ
      · simp only [hj, false_or]; exact measurableSet_le measurable_const measurable_id))
    measurable_const
    (fun z h => by
      simp only [exData, decide_eq_true_eq] at h ⊢
      constructor <;> linarith [h.1, h.2])
    4 hB

open ProbabilityTheory in
/-- **NUTS at a fixed slice level as a Mathlib Markov kernel.**  There is a `ProbabilityTheory.Kernel`
    `κ` on `Z` which from every admissible `z` puts mass `Orb.P M 0 k` on `Φ^k z` (non-admissible
    points, which the chain never visits, are left where they are); `κ` is a Markov kernel, is
    reversible (`Kernel.IsReversible`) with respect to `μ` restricted to the admissible set, and leaves
    it invariant (`Kernel.Invariant`: `(μ|adm).bind κ = μ|adm`). -/
theorem nuts_phase_markov_kernel (μ : Measure Z) (Φ : Z ≃ᵐ Z) (hΦ : MeasurePreserving Φ μ μ)
    (D : PhaseData Z) (hS : Measurable D.S) (hnd : Measurable D.nd) (hut : ∀ j, Measurable (D.ut j))
    (hg : Measurable D.g) (hSnd : ∀ z, D.S z = true → D.nd z = true) (M : ℕ) :
    ∃ κ : Kernel Z Z, IsMarkovKernel κ ∧
      (∀ z, D.S z = true ∧ D.g z = true → ∀ B, MeasurableSet B →
        κ z B = ∑' k : ℤ, ENNReal.ofReal (((orbAlong (zact Φ) D z).P M 0 k : ℚ) : ℝ)
          * B.indicator 1 (zact Φ k z)) ∧
      Kernel.IsReversible κ (μ.restrict {z | D.S z = true ∧ D.g z = true}) ∧
      Kernel.Invariant κ (μ.restrict {z | D.S z = true ∧ D.g z = true}) := by
  have hK := nuts_orbitKernel (zact Φ) (zact_zero Φ) (zact_add Φ) (zact_pres Φ hΦ) D
    ⟨hS, hnd, hut, hg⟩ hSnd M
  exact ⟨hK.kernel, hK.kernel_markov,
    fun z hz B hB => phaseMeasure_apply_adm (zact Φ) (admSet D) _ hz hB,
    hK.kernel_reversible, hK.kernel_invariant⟩

example := nuts_phase_markov_kernel volume (MeasurableEquiv.addRight (1 : ℝ))
    (measurePreserving_add_right volume 1) exData
    (measurable_decide ((measurableSet_le measurable_const measurable_id).inter
      (measurableSet_le measurable_id measurable_const)))
    (measurable_decide ((measurableSet_le measurable_const measurable_id).inter
      (measurableSet_le measurable_id measurable_const)))
    (fun j => measurable_decide (by
      by_cases hj : j < 3
      · simp only [hj, true_or, Set.ofPred_true]; exact MeasurableSet.univ
      · simp only [hj, false_or]; exact measurableSet_le measurable_const measurable_id))
    measurable_const
    (fun z h => by
      simp only [exData, decide_eq_true_eq] at h ⊢
      constructor <;> linarith [h.1, h.2])
    4

end Phase

/-! ## (4) the model's randomised transition -/
section Model
variable {Z : Type} [MeasurableSpace Z]

open Classical in
/-- **The model's NUTS transition is reversible on phase space.**  `c : Ctx Z` is the model's
    context (integrator `c.step`, Hamiltonian, U-turn test, slice level `c.logu`) on a measurable
    space `Z`, the two directions of the integrator mutually inverse (`StepInverse`,
    `leapfrog_reversible`), `c.step 1` preserving `μ` (`leapfrog_volume`), the tests measurable and
    `Δ_max > 0`.  `(nutsStepD c guard md z).E (1_B(next state))` is the probability, under independent
    uniform draws, that the model's transition `nutsStep` started at `z` ends in `B`
    (`nutsStepD_simulates`, `law_is_pushforward_of_uniform_draws`).  Integrated over the admissible set
    it satisfies detailed balance w.r.t. `μ`. -/
theorem nutsStepD_phase_reversible (c : Ctx Z) (hinv : StepInverse c) (guard : Z → Bool) (md : ℕ)
    (μ : Measure Z) (hp : MeasurePreserving (c.step 1) μ μ) (m2 : Measurable (c.step (-1)))
    (hS : Measurable (inSlice c)) (hnd : Measurable (notDiverged c))
    (hut : Measurable (fun p : Z × Z => c.noUturn p.1 p.2)) (hg : Measurable guard)
    (hd : 0 < c.deltaMax) {A B : Set Z} (hA : MeasurableSet A) (hB : MeasurableSet B) :
    ∫⁻ z in {z | inSlice c z = true ∧ guard z = true} ∩ A,
        ENNReal.ofReal (((nutsStepD c guard md z).E (fun st => if st.cur ∈ B then 1 else 0) : ℚ) : ℝ) ∂μ
      = ∫⁻ z in {z | inSlice c z = true ∧ guard z = true} ∩ B,
        ENNReal.ofReal (((nutsStepD c guard md z).E (fun st => if st.cur ∈ A then 1 else 0) : ℚ) : ℝ) ∂μ := by
  have hD := ctxData_meas c hinv guard hp.measurable m2 hS hnd hut hg
  have hK := nuts_orbitKernel (μ := μ) (ptAct c) (ptAct_zero c) (ptAct_add c hinv)
    (ptAct_pres c hinv hp m2) (ctxData c guard) hD (fun z => inSlice_notDiverged c hd z) (md + 1)
  have hadm : {z | inSlice c z = true ∧ guard z = true} = admSet (ctxData c guard) := rfl
  rw [hadm]
  rw [setLIntegral_congr_fun (hK.adm_meas.inter hA)
      (fun z hz => nutsStepD_pr_eq_phaseK c hinv guard md z hz.1.1 B),
    setLIntegral_congr_fun (hK.adm_meas.inter hB)
      (fun z hz => nutsStepD_pr_eq_phaseK c hinv guard md z hz.1.1 A)]
  exact hK.detailed_balance hA hB

open Classical in
/-- **The model's NUTS transition leaves `μ` restricted to the admissible part of the slice
    invariant**: `∫ Pr[nutsStep from z ends in B] dμ|adm(z) = μ|adm(B)`, `adm = {in slice ∧ guard}`. -/
theorem nutsStepD_phase_invariant (c : Ctx Z) (hinv : StepInverse c) (guard : Z → Bool) (md : ℕ)
    (μ : Measure Z) (hp : MeasurePreserving (c.step 1) μ μ) (m2 : Measurable (c.step (-1)))
    (hS : Measurable (inSlice c)) (hnd : Measurable (notDiverged c))
    (hut : Measurable (fun p : Z × Z => c.noUturn p.1 p.2)) (hg : Measurable guard)
    (hd : 0 < c.deltaMax) {B : Set Z} (hB : MeasurableSet B) :
    ∫⁻ z, ENNReal.ofReal (((nutsStepD c guard md z).E (fun st => if st.cur ∈ B then 1 else 0) : ℚ) : ℝ)
        ∂(μ.restrict {z | inSlice c z = true ∧ guard z = true})
      = (μ.restrict {z | inSlice c z = true ∧ guard z = true}) B := by
  have hD := ctxData_meas c hinv guard hp.measurable m2 hS hnd hut hg
  have hK := nuts_orbitKernel (μ := μ) (ptAct c) (ptAct_zero c) (ptAct_add c hinv)
    (ptAct_pres c hinv hp m2) (ctxData c guard) hD (fun z => inSlice_notDiverged c hd z) (md + 1)
  have hadm : {z | inSlice c z = true ∧ guard z = true} = admSet (ctxData c guard) := rfl
  rw [hadm, Measure.restrict_apply hB, Set.inter_comm]
  rw [setLIntegral_congr_fun hK.adm_meas
      (fun z hz => nutsStepD_pr_eq_phaseK c hinv guard md z hz.1 B)]
  exact hK.invariant hB

open Classical in
/-- instance: the context `lawCtx` of `Props/C08_law.lean` (translation on `ℤ`, slice = even points of
    `[-6, 6]`) with the counting measure -/
example (B : Set ℤ) :
    ∫⁻ z, ENNReal.ofReal (((nutsStepD lawCtx (fun _ => true) 2 z).E
        (fun st => if st.cur ∈ B then 1 else 0) : ℚ) : ℝ)
        ∂(Measure.count.restrict {z | inSlice lawCtx z = true ∧ (fun _ => true) z = true})
      = (Measure.count.restrict {z | inSlice lawCtx z = true ∧ (fun _ => true) z = true}) B :=
  nutsStepD_phase_invariant lawCtx lawCtx_inv (fun _ => true) 2 Measure.count
    (measurePreserving_add_right _ 1) Measurable.of_discrete Measurable.of_discrete
    Measurable.of_discrete Measurable.of_discrete Measurable.of_discrete (by decide +kernel)
    (MeasurableSet.of_discrete)

end Model

/-! ## (5) leapfrog on `ℝⁿ × ℝⁿ` -/
section Leapfrog
variable {ι : Type*} [Fintype ι]

/-- **NUTS with the leapfrog integrator on `ℝⁿ × ℝⁿ` is reversible w.r.t. Lebesgue measure on the
    slice.**  `g` any measurable vector field used as gradient, `e` the step size, `logp` a measurable
    log-density, `Ham(x, r) = logp x − ½|r|²` (`hamR`), slice `{log u ≤ Ham}`, divergence test
    `log u < Δmax + Ham` with `Δmax > 0`, the code's U-turn test between the two ends of every block
    (`noUturnR`), `M = max_depth + 1`.  `Φ = lfEquiv g hg e` is the leapfrog map as a measurable
    bijection (inverse: step `−e`, `leapfrogFn_reversible`); it preserves Lebesgue measure
    (`leapfrog_volume`).  The kernel moving `z` to `Φ^k z` with the orbit-level NUTS probability
    satisfies detailed balance w.r.t. Lebesgue measure restricted to the slice. -/
theorem nuts_leapfrog_reversible (g : (ι → ℝ) → (ι → ℝ)) (hg : Measurable g) (e : ℝ)
    (logp : (ι → ℝ) → ℝ) (hl : Measurable logp) (logu dmax : ℝ) (hd : 0 < dmax) (M : ℕ)
    {A B : Set ((ι → ℝ) × (ι → ℝ))} (hA : MeasurableSet A) (hB : MeasurableSet B) :
    ∫⁻ z in {z | logu ≤ hamR logp z} ∩ A,
        (∑' k : ℤ, ENNReal.ofReal (((orbAlong (zact (lfEquiv g hg e))
            (nutsDataR (lfEquiv g hg e) logp logu dmax) z).P M 0 k : ℚ) : ℝ)
          * B.indicator 1 (zact (lfEquiv g hg e) k z)) ∂((volume : Measure (ι → ℝ)).prod volume)
      = ∫⁻ z in {z | logu ≤ hamR logp z} ∩ B,
        (∑' k : ℤ, ENNReal.ofReal (((orbAlong (zact (lfEquiv g hg e))
            (nutsDataR (lfEquiv g hg e) logp logu dmax) z).P M 0 k : ℚ) : ℝ)
          * A.indicator 1 (zact (lfEquiv g hg e) k z)) ∂((volume : Measure (ι → ℝ)).prod volume) := by
  have hD := nutsDataR_meas (lfEquiv g hg e) logp hl logu dmax
  have hK := nuts_orbitKernel (μ := (volume : Measure (ι → ℝ)).prod volume) (zact (lfEquiv g hg e))
    (zact_zero _) (zact_add _) (zact_pres (lfEquiv g hg e) (leapfrog_volume g hg e))
    (nutsDataR (lfEquiv g hg e) logp logu dmax) hD (nutsDataR_S_nd _ logp logu dmax hd) M
  rw [← nutsDataR_adm (lfEquiv g hg e) logp logu dmax]
  exact hK.detailed_balance hA hB

example {A B : Set ((Fin 2 → ℝ) × (Fin 2 → ℝ))} (hA : MeasurableSet A) (hB : MeasurableSet B) :=
  nuts_leapfrog_reversible (ι := Fin 2) (fun x => -x) measurable_neg (1 / 4)
    (fun x => -(1 / 2) * ∑ i, x i ^ 2)
    (measurable_const.mul (Finset.measurable_sum _ (fun i _ => (measurable_pi_apply i).pow_const 2)))
    (-3) 1000 (by norm_num) 6 hA hB

/-- **NUTS with the leapfrog integrator leaves Lebesgue measure on the slice invariant** (slice level
    `u` fixed): `∫ K(z, B) d vol|{log u ≤ Ham}(z) = vol|{log u ≤ Ham}(B)`.  This is the inner step of
    the slice-sampling argument: the joint law of (position, momentum, slice variable) with density
    `1[u ≤ exp Ham(x, r)]` is preserved by the trajectory part of the transition. -/
theorem nuts_leapfrog_invariant (g : (ι → ℝ) → (ι → ℝ)) (hg : Measurable g) (e : ℝ)
    (logp : (ι → ℝ) → ℝ) (hl : Measurable logp) (logu dmax : ℝ) (hd : 0 < dmax) (M : ℕ)
    {B : Set ((ι → ℝ) × (ι → ℝ))} (hB : MeasurableSet B) :
    ∫⁻ z, (∑' k : ℤ, ENNReal.ofReal (((orbAlong (zact (lfEquiv g hg e))
            (nutsDataR (lfEquiv g hg e) logp logu dmax) z).P M 0 k : ℚ) : ℝ)
          * B.indicator 1 (zact (lfEquiv g hg e) k z))
        ∂(((volume : Measure (ι → ℝ)).prod volume).restrict {z | logu ≤ hamR logp z})
      = (((volume : Measure (ι → ℝ)).prod volume).restrict {z | logu ≤ hamR logp z}) B := by
  have hD := nutsDataR_meas (lfEquiv g hg e) logp hl logu dmax
  have hK := nuts_orbitKernel (μ := (volume : Measure (ι → ℝ)).prod volume) (zact (lfEquiv g hg e))
    (zact_zero _) (zact_add _) (zact_pres (lfEquiv g hg e) (leapfrog_volume g hg e))
    (nutsDataR (lfEquiv g hg e) logp logu dmax) hD (nutsDataR_S_nd _ logp logu dmax hd) M
  rw [Measure.restrict_apply hB, Set.inter_comm, ← nutsDataR_adm (lfEquiv g hg e) logp logu dmax]
  exact hK.invariant hB

/-- instance: standard normal target in two dimensions (`logp x = −½|x|²`, `g x = −x`), step `1/4`,
    slice level `log u = −3`, `Δmax = 1000`, depth bound `5` -/
example {B : Set ((Fin 2 → ℝ) × (Fin 2 → ℝ))} (hB : MeasurableSet B) :=
  nuts_leapfrog_invariant (ι := Fin 2) (fun x => -x) measurable_neg (1 / 4)
    (fun x => -(1 / 2) * ∑ i, x i ^ 2)
    (measurable_const.mul (Finset.measurable_sum _ (fun i _ => (measurable_pi_apply i).pow_const 2)))
    (-3) 1000 (by norm_num) 6 hB

/-! ## (6) slice variable, momentum refresh: from the slice to the target density -/

/-- **Integrating out the slice variable** (general form).  `p ≥ 0` a measurable density on `(Z, μ)`,
    `G` a measurable set (points passing the guard), `K u z` the probability that the transition at
    slice level `u` moves `z` into a fixed set `B`, jointly measurable.  If for every level `u > 0`
    the level-`u` transition leaves `μ` restricted to `{u ≤ p} ∩ G` invariant, then "draw
    `u ~ U(0, p z]`, apply the level-`u` transition" leaves the measure `p · μ|G` invariant:
    `∫_G (∫_0^{p z} K u z du) dμ(z) = ∫_{G ∩ B} p dμ` (the left side is
    `∫ p(z) · E_{u ~ U(0,p z]} K u z dμ(z)`).  Proof: Tonelli twice. -/
theorem slice_variable_integrated_out {Z : Type*} [MeasurableSpace Z] (μ : Measure Z) [SFinite μ]
    (p : Z → ℝ) (hp : Measurable p) {G B : Set Z} (hG : MeasurableSet G) (hB : MeasurableSet B)
    (K : ℝ → Z → ℝ≥0∞) (hK : Measurable (fun q : Z × ℝ => K q.2 q.1))
    (hinv : ∀ u, 0 < u → ∫⁻ z in {z | u ≤ p z} ∩ G, K u z ∂μ = μ (({z | u ≤ p z} ∩ G) ∩ B)) :
    ∫⁻ z in G, ∫⁻ u in Set.Ioc 0 (p z), K u z ∂volume ∂μ
      = ∫⁻ z in G ∩ B, ENNReal.ofReal (p z) ∂μ :=
  slice_mixture μ p hp hG hB K hK hinv

/-- instance: the identity transition `K u z = 1_B(z)` at every level -/
example (B : Set ℝ) (hB : MeasurableSet B) :
    ∫⁻ z in Set.univ, ∫⁻ _u in Set.Ioc 0 (Real.exp (-z ^ 2)), B.indicator 1 z ∂volume ∂volume
      = ∫⁻ z in Set.univ ∩ B, ENNReal.ofReal (Real.exp (-z ^ 2)) ∂volume :=
  slice_variable_integrated_out volume (fun z => Real.exp (-z ^ 2))
    (Real.measurable_exp.comp (measurable_id.pow_const 2).neg) MeasurableSet.univ hB
    (fun _ z => B.indicator 1 z) ((measurable_one.indicator hB).comp measurable_fst)
    (fun _ _ => by
      rw [lintegral_indicator_one hB, Measure.restrict_apply hB, Set.inter_comm])

/-- **The trajectory part of a NUTS transition, slice variable included, is a Markov kernel that
    leaves the joint target `exp(logp x − ½|r|²) dx dr` invariant.**  `nutsTR Φ logp Δmax M z B` is
    the probability of ending in `B` when, from `z = (x, r)`, the slice variable is drawn
    `u ~ U(0, exp Ham(z)]` (the code's `log_u = Ham − Exp(1)`) and the doubling procedure is run at
    level `log u` with the leapfrog map `Φ` — i.e. `(1 / exp Ham z) ∫_0^{exp Ham z} K_{log u}(z, B) du`
    with `K` the kernel of `nuts_leapfrog_invariant`.  (a) it has total mass one; (b) it is measurable
    in `z`; (c) the measure with density `exp Ham` w.r.t. Lebesgue measure on `ℝⁿ × ℝⁿ` is invariant. -/
theorem nuts_leapfrog_joint_target_invariant (g : (ι → ℝ) → (ι → ℝ)) (hg : Measurable g) (e : ℝ)
    (logp : (ι → ℝ) → ℝ) (hl : Measurable logp) (dmax : ℝ) (hd : 0 < dmax) (M : ℕ)
    {B : Set ((ι → ℝ) × (ι → ℝ))} (hB : MeasurableSet B) :
    (∀ z, nutsTR (lfEquiv g hg e) logp dmax M z Set.univ = 1) ∧
    Measurable (fun z => nutsTR (lfEquiv g hg e) logp dmax M z B) ∧
    ∫⁻ z, nutsTR (lfEquiv g hg e) logp dmax M z B
        ∂(((volume : Measure (ι → ℝ)).prod volume).withDensity
            (fun z => ENNReal.ofReal (Real.exp (hamR logp z))))
      = (((volume : Measure (ι → ℝ)).prod volume).withDensity
            (fun z => ENNReal.ofReal (Real.exp (hamR logp z)))) B :=
  ⟨nutsTR_univ _ logp dmax M, nutsTR_measurable _ logp hl dmax M hB,
    nutsTR_invariant _ _ (leapfrog_volume g hg e) logp hl dmax hd M hB⟩

example {B : Set ((Fin 2 → ℝ) × (Fin 2 → ℝ))} (hB : MeasurableSet B) :=
  nuts_leapfrog_joint_target_invariant (ι := Fin 2) (fun x => -x) measurable_neg (1 / 4)
    (fun x => -(1 / 2) * ∑ i, x i ^ 2)
    (measurable_const.mul (Finset.measurable_sum _ (fun i _ => (measurable_pi_apply i).pow_const 2)))
    1000 (by norm_num) 6 hB

/-- **Momentum refresh and projection: the position chain leaves `exp(logp)` invariant.**  One full
    transition of the position: draw the momentum with Gaussian weight `exp(−½|r|²)`, apply `nutsTR`
    (slice variable + trajectory), keep the position.  Starting from the measure with density
    `exp(logp x)`, the mass found in a measurable set `C` of positions is the mass of `C` times the
    total Gaussian weight `c = ∫ exp(−½|r|²) dr` (`= (2π)^{n/2}`, not evaluated here): dividing both
    sides by `c`, i.e. drawing `r ~ N(0, I)`, the target `π(x) ∝ exp(logp x)` is invariant. -/
theorem nuts_leapfrog_position_target_invariant (g : (ι → ℝ) → (ι → ℝ)) (hg : Measurable g) (e : ℝ)
    (logp : (ι → ℝ) → ℝ) (hl : Measurable logp) (dmax : ℝ) (hd : 0 < dmax) (M : ℕ)
    {C : Set (ι → ℝ)} (hC : MeasurableSet C) :
    ∫⁻ x, ENNReal.ofReal (Real.exp (logp x))
        * (∫⁻ r, ENNReal.ofReal (Real.exp (-(1 / 2 * ∑ i, r i ^ 2)))
            * nutsTR (lfEquiv g hg e) logp dmax M (x, r) (C ×ˢ Set.univ) ∂volume) ∂volume
      = (∫⁻ r : ι → ℝ, ENNReal.ofReal (Real.exp (-(1 / 2 * ∑ i, r i ^ 2))) ∂volume)
        * ∫⁻ x in C, ENNReal.ofReal (Real.exp (logp x)) ∂volume :=
  nutsTR_position_invariant _ (leapfrog_volume g hg e) logp hl dmax hd M hC

example {C : Set (Fin 2 → ℝ)} (hC : MeasurableSet C) :=
  nuts_leapfrog_position_target_invariant (ι := Fin 2) (fun x => -x) measurable_neg (1 / 4)
    (fun x => -(1 / 2) * ∑ i, x i ^ 2)
    (measurable_const.mul (Finset.measurable_sum _ (fun i _ => (measurable_pi_apply i).pow_const 2)))
    1000 (by norm_num) 6 hC

/-- **The position chain of NUTS leaves the target `π(x) ∝ exp(logp x)` invariant** (normalised
    form of `nuts_leapfrog_position_target_invariant`).  `stdNormalDensity` is the density
    `(2π)^{-n/2} exp(−½|r|²)` of `N(0, I)`; it integrates to one.  One transition of the position:
    `r ~ N(0, I)`, `u ~ U(0, exp Ham(x, r)]`, doubling procedure with the leapfrog map at level
    `log u`, keep the position.  Then `∫ exp(logp x) · Pr[next position ∈ C | x] dx = ∫_C exp(logp x) dx`
    for every measurable `C`: the (possibly unnormalised, possibly non-integrable) measure with
    density `exp(logp)` is invariant — for every measurable `logp`, every measurable vector field `g`
    used as "gradient", every step size `e`, every `Δmax > 0` and depth bound. -/
theorem nuts_leapfrog_target_invariant (g : (ι → ℝ) → (ι → ℝ)) (hg : Measurable g) (e : ℝ)
    (logp : (ι → ℝ) → ℝ) (hl : Measurable logp) (dmax : ℝ) (hd : 0 < dmax) (M : ℕ)
    {C : Set (ι → ℝ)} (hC : MeasurableSet C) :
    ∫⁻ r : ι → ℝ, stdNormalDensity r ∂volume = 1 ∧
    ∫⁻ x, ENNReal.ofReal (Real.exp (logp x))
        * (∫⁻ r, stdNormalDensity r
            * nutsTR (lfEquiv g hg e) logp dmax M (x, r) (C ×ˢ Set.univ) ∂volume) ∂volume
      = ∫⁻ x in C, ENNReal.ofReal (Real.exp (logp x)) ∂volume :=
  ⟨stdNormalDensity_mass,
    nutsTR_position_invariant_normalised _ (leapfrog_volume g hg e) logp hl dmax hd M hC⟩

example {C : Set (Fin 2 → ℝ)} (hC : MeasurableSet C) :=
  nuts_leapfrog_target_invariant (ι := Fin 2) (fun x => -x) measurable_neg (1 / 4)
    (fun x => -(1 / 2) * ∑ i, x i ^ 2)
    (measurable_const.mul (Finset.measurable_sum _ (fun i _ => (measurable_pi_apply i).pow_const 2)))
    1000 (by norm_num) 6 hC

end Leapfrog

/-
  ## What is NOT proved here (the remaining gap)

  Gap (b) of `Props/C08_orbit.lean` ("orbit → phase space") is closed in the following sense:
  `nuts_leapfrog_target_invariant` is the statement announced there (for a measurable log-density
  `logp` on ℝⁿ, momentum `r ~ N(0, I)` and slice variable `u ~ U(0, exp Ham]` redrawn at the start of
  every transition, the Markov kernel on `x` leaves `exp(logp)` invariant), and none of its
  hypotheses is an unproved assumption of measurability or of a disintegration.  What remains
  between this theorem and the Python code is by inspection, not by proof:

  (b1) *Real-valued transcription.*  The theorems on ℝⁿ × ℝⁿ are about `Orb.P` — the orbit-level
       kernel that `nutsStepD_law` proves to be the law of the model's loop for *every* context
       `Ctx Z` — evaluated on the data `nutsDataR` (slice test `log u ≤ logp x − ½|r|²`, divergence
       test, U-turn test `noUturnR`): the formulas of `psHam` / `psNoUturn` / `inSlice` /
       `notDiverged` written over ℝ.  They are not an instance of `Ctx`, because `Ctx.ham` takes
       values in `XR` (rationals and IEEE specials) and `Ctx.logu` is rational.  The statement that
       *is* about the model's own definitions on a general measurable phase space — including the
       guard and NaN/±inf energies — is `nutsStepD_phase_invariant` (slice level fixed).
  (b2) *Law of the slice variable and of the momentum.*  The code draws
       `log_u = Ham − Exp(1)` and `r = standard_normal(n)`; that `exp(−Exp(1))` is uniform on
       `(0, 1]` and that `standard_normal` has density `stdNormalDensity` is not formalised.
  (b3) Floating point (the leapfrog map in floats is neither exactly reversible nor exactly volume
       preserving; the tie compares with exact rationals up to 1e-7), and the pseudo-random generator.
  (c)  Dual averaging (step-size adaptation during warm-up) is outside the invariance statement:
       all theorems are for a fixed step size `e`.
  Invariance only: nothing is said about irreducibility / convergence of the chain.
-/

end CuqiVerif.C08
