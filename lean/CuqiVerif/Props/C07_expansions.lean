import CuqiVerif.Props.C07
import CuqiVerif.Props.C13_dst
import CuqiVerif.Proofs.C07_expansions
import Mathlib.Algebra.BigOperators.Group.Finset.Basic
import Mathlib.Algebra.BigOperators.Ring.Finset
import Mathlib.Algebra.Field.Basic
import Mathlib.Data.Real.Basic
import Mathlib.Tactic.FieldSimp
import Mathlib.Tactic.Ring
import Mathlib.Tactic.Linarith
import Mathlib.Tactic.NormNum

/-!
# C07 (expansions) — the expansion geometries: exactly when `LinearModel.adjoint` is the transpose

`LinearModel.adjoint` computes `F_D ∘ Aᵀ ∘ E_R` (`E` = `par2fun`, `F` = `fun2par`), the transpose of
`forward = F_R ∘ A ∘ E_D` is `E_Dᵀ ∘ Aᵀ ∘ F_Rᵀ`.  `Props/C07.lean` proved that the two agree when
`F = Eᵀ` for both geometries and exhibited one step-expansion counterexample.  This file settles the
expansion geometries completely:

* **general** (`weighted_adjoint_relation`, `weighted_adjoint_iff`, `adjoint_of_expansion_geoms`,
  `corrected_adjoint_weighted`): for geometries with `Fᵀ = E·diag(w)` the code's adjoint matrix and the
  true transpose differ entrywise by the factor `w_R i / w_D j`; the identity holds for every matrix `A`
  iff `w_R i = w_D j` for all parameters that are actually used; the true adjoint is
  `E_Dᵀ Aᵀ F_Rᵀ = W_D⁻¹ · (code's adjoint) · W_R`.
* **StepExpansion** for an arbitrary node→step membership (`Geom.stepOf`, of which the executable
  `Geom.step n s` is the instance `inStep n s`, `step_is_stepOf`): `Fᵀ = E·D⁻¹`, `D` = step sizes;
  `F = Eᵀ` iff no step has two nodes; the adjoint identity for all `A` iff all non-empty steps of
  the two geometries have the same size (against an orthogonal geometry: iff every step has ≤ 1 node).
* **KLExpansion** with scipy's DST sums of `Props/C13_dst.lean` written out as real matrices `klE`,
  `klF` (they act as `C13.klPar2funR`, `C13.klFun2parR`): `Fᵀ = E·diag(4τ²/(N ω_i c_i²))`
  (`ω_i = 2`, `= 1` for the last mode `i = N−1`); orthogonal iff `c_i² = 4τ²/(N ω_i)` for all used
  modes — never for decaying coefficients with ≥ 2 modes (`kl_adjoint_never_decaying`,
  `kl_shipped_never`).
* **`transpose_getMatrix`**: the products the driver evaluates for `M.T` have the entries of
  `tFwdMat`/`tAdjMat`, and `M.T.get_matrix()` of a function-backed model is that matrix.

The generic statements hold for every commutative ring / field (the driver runs `ℚ`); the KL
statements are over `ℝ` (the sines are not rational).
-/
open Finset

set_option linter.unusedSectionVars false
set_option linter.unusedVariables false

namespace CuqiVerif.C07

/-! ## general linear geometries -/

section general
variable {R : Type} [CommRing R]

/-- **adjoint_of_expansion_geoms.**  For *arbitrary* linear geometries (any `E`, `F` of fitting shapes —
    step, KL, mapped, …) and any forward matrix `A`, the adjoint of `forward = F_R·A·E_D` is the
    matrix `E_Dᵀ·Aᵀ·F_Rᵀ` (`trueAdjMat`): it has shape `domain_dim × range_dim`, its entries are the
    transposed entries of the forward matrix, it acts as the composition
    `E_Dᵀ ∘ Aᵀ ∘ F_Rᵀ`, and `⟨forward x, y⟩ = ⟨x, trueAdj y⟩` for all `x, y`.  This is what
    `LinearModel.adjoint` would have to compute; it computes `F_D·Aᵀ·E_R` instead. -/
theorem adjoint_of_expansion_geoms (M : LinModel R) (hs : M.WellShaped) :
    M.trueAdjMat.rows = M.dom.parDim ∧ M.trueAdjMat.cols = M.rng.parDim ∧
    (∀ i j, M.trueAdjMat.e j i = M.fwdMat.e i j) ∧
    (∀ (y : ℕ → R) (j : ℕ), M.trueAdjMat.apply y j
        = M.dom.E.transpose.apply (M.A.transpose.apply (M.rng.F.transpose.apply y)) j) ∧
    ∀ x y : ℕ → R, ip M.rng.parDim (M.fwdPar x) y = ip M.dom.parDim x (M.trueAdjMat.apply y) := by
  refine ⟨hs.domE_cols, hs.rngF_rows, fun i j => trueAdjMat_e M hs i j, ?_, ?_⟩
  · intro y j
    unfold LinModel.trueAdjMat
    rw [apply_mul]
    exact apply_congr_vec _ _ _ _ fun k _ => apply_mul _ _ _ _
  · intro x y
    have h := (adjoint_iff_aux M.fwdMat M.trueAdjMat rfl).mpr (fun i _ j _ => trueAdjMat_e M hs i j) x y
    have hr : M.fwdMat.rows = M.rng.parDim := hs.rngF_rows
    have hc : M.fwdMat.cols = M.dom.parDim := hs.domE_cols
    rw [hr, hc] at h
    rw [ip_congr _ _ _ _ _ (fun i _ => fwdPar_eq M x i) (fun _ _ => rfl)]
    exact h

example : ip 2 (stepModel.fwdPar (unit 0)) (unit 0) = ip 1 (unit 0) (stepModel.trueAdjMat.apply (unit 0)) :=
  (adjoint_of_expansion_geoms stepModel (by constructor <;> rfl)).2.2.2.2 _ _

/-- **weighted_adjoint_relation.**  If `fun2par = diag(w)·par2funᵀ` for both geometries (weights `w_D`,
    `w_R`) and the adjoint function is the transposed forward function, then entrywise
    `w_R i · adjoint[j,i] = w_D j · forward[i,j]`: the code's adjoint matrix is the transpose up to
    the ratio of the weights.  (Orthogonal geometries: `w = 1`; step expansion: `w = 1/step size`;
    KL expansion: `w = 4τ²/(N ω c²)`; scaling `MappedGeometry`: `w = 1/scale²`.) -/
theorem weighted_adjoint_relation (M : LinModel R) (hs : M.WellShaped) (wD wR : ℕ → R)
    (hD : M.dom.Weighted wD) (hR : M.rng.Weighted wR)
    (hB : ∀ a b, a < M.dom.funDim → b < M.rng.funDim → M.B.e a b = M.A.e b a)
    (i j : ℕ) (hi : i < M.rng.parDim) (hj : j < M.dom.parDim) :
    wR i * M.adjMat.e j i = wD j * M.fwdMat.e i j := by
  rw [fwdMat_weighted M hs wR hR i j hi, adjMat_weighted M hs wD hD hB i j hj]; ring

end general

section field
variable {K : Type} [Field K]

/-- the adjoint identity `⟨forward x, y⟩ = ⟨x, adjoint y⟩` for **every** matrix `A` of fitting shape
    between the geometries `D` (domain) and `Rg` (range), all `x`, `y` -/
def AdjointForAll (D Rg : Geom K) : Prop :=
  ∀ A : LMat K, A.rows = Rg.funDim → A.cols = D.funDim → ∀ x y : ℕ → K,
    ip Rg.parDim ((LinModel.ofMatrix A D Rg).fwdPar x) y = ip D.parDim x ((LinModel.ofMatrix A D Rg).adjPar y)

/-- **weighted_adjoint_iff.**  For geometries with `Fᵀ = E·diag(w)`: `LinearModel.adjoint` is the
    transpose of `forward` for every matrix iff `w_R i = w_D j` for every range parameter `i` and
    domain parameter `j` that `par2fun` does not ignore (some entry of column `i` of `E_R`, resp.
    column `j` of `E_D`, is non-zero).  In particular both weight sequences must be one constant. -/
theorem weighted_adjoint_iff (D Rg : Geom K) (hDs : D.Shaped) (hRs : Rg.Shaped)
    (wD wR : ℕ → K) (hD : D.Weighted wD) (hR : Rg.Weighted wR) :
    AdjointForAll D Rg ↔
      ∀ i, i < Rg.parDim → ∀ j, j < D.parDim → ∀ b, b < Rg.funDim → ∀ a, a < D.funDim →
        Rg.E.e b i ≠ 0 → D.E.e a j ≠ 0 → wR i = wD j := by
  constructor
  · intro h i hi j hj b hb a ha hEb hEa
    exact weighted_adjoint_forward D Rg hDs hRs wD wR hD hR h i hi j hj b hb a ha hEb hEa
  · intro h A hr hc x y
    have hs := wellShaped_ofMatrix A D Rg hDs hRs hr hc
    exact (adjoint_iff _ hs).mpr
      (fun i hi j hj => weighted_adjoint_backward _ hs wD wR hD hR (fun _ _ _ _ => rfl) h i hi j hj) x y

/-- **corrected_adjoint_weighted.**  What `adjoint` would have to compute for geometries with
    `Fᵀ = E·diag(w)`: scale `y` by `w_R`, apply the present `adjoint`, divide by `w_D` —
    `adjoint_correct(y) = W_D⁻¹ · adjoint(W_R · y)` satisfies the adjoint identity for all `x, y`. -/
theorem corrected_adjoint_weighted (M : LinModel K) (hs : M.WellShaped) (wD wR : ℕ → K)
    (hD : M.dom.Weighted wD) (hR : M.rng.Weighted wR)
    (hB : ∀ a b, a < M.dom.funDim → b < M.rng.funDim → M.B.e a b = M.A.e b a)
    (hw : ∀ j, j < M.dom.parDim → wD j ≠ 0) (x y : ℕ → K) :
    ip M.rng.parDim (M.fwdPar x) y
      = ip M.dom.parDim x (fun j => (wD j)⁻¹ * M.adjPar (fun i => wR i * y i) j) := by
  set N : LMat K := ⟨M.adjMat.rows, M.adjMat.cols, fun j i => (wD j)⁻¹ * M.adjMat.e j i * wR i⟩ with hN
  have hcN : N.cols = M.fwdMat.rows := by
    show M.rng.E.cols = M.rng.F.rows
    rw [hs.rngE_cols, hs.rngF_rows]
  have hr : M.fwdMat.rows = M.rng.parDim := hs.rngF_rows
  have hc : M.fwdMat.cols = M.dom.parDim := hs.domE_cols
  have hent : ∀ i, i < M.fwdMat.rows → ∀ j, j < M.fwdMat.cols → N.e j i = M.fwdMat.e i j := by
    intro i hi j hj
    rw [hr] at hi; rw [hc] at hj
    have h := weighted_adjoint_relation M hs wD wR hD hR hB i j hi hj
    have hwj := hw j hj
    show (wD j)⁻¹ * M.adjMat.e j i * wR i = _
    have : (wD j)⁻¹ * M.adjMat.e j i * wR i = (wD j)⁻¹ * (wR i * M.adjMat.e j i) := by ring
    rw [this, h, ← mul_assoc, inv_mul_cancel₀ hwj, one_mul]
  have h := (adjoint_iff_aux M.fwdMat N hcN).mpr hent x y
  rw [hr, hc] at h
  rw [ip_congr _ _ _ _ _ (fun i _ => fwdPar_eq M x i) (fun _ _ => rfl), h]
  refine ip_congr _ _ _ _ _ (fun _ _ => rfl) (fun j _ => ?_)
  rw [adjPar_eq, apply_smul_vec]
  rfl

end field

/-! ## StepExpansion, arbitrary node→step membership -/

section step
variable {K : Type} [Field K]

/-- The executable step-expansion geometry of `Model/C07.lean` (regular grid, `inStep`) is the instance
    `mem = inStep n s` of the generic `Geom.stepOf`, and `stepCount` is `memCount` — the theorems
    below therefore are about the definitions the driver runs. -/
theorem step_is_stepOf (n s : ℕ) :
    (Geom.step n s : Geom K) = Geom.stepOf n s (inStep n s) ∧
    ∀ i, stepCount n s i = memCount n (inStep n s) i :=
  ⟨rfl, fun _ => rfl⟩

/-- **`Fᵀ = E·D⁻¹`.**  For every membership relation, grid size and number of steps, the mean projection
    is the transposed expansion matrix with row `i` divided by the size of step `i`. -/
theorem stepOf_fun2par_eq (n s : ℕ) (mem : ℕ → ℕ → Bool) (i k : ℕ) :
    (Geom.stepOf n s mem : Geom K).F.e i k
      = (Geom.stepOf n s mem : Geom K).E.e k i / (memCount n mem i : K) := by
  simp only [Geom.stepOf]
  split_ifs <;> simp

/-- a node→step assignment `idx` (node `k` lies in step `idx k`) as a membership relation -/
def memOfIdx (idx : ℕ → ℕ) : ℕ → ℕ → Bool := fun i k => idx k == i

example : (Geom.stepOf 4 2 (memOfIdx (· / 2)) : Geom ℚ).F.e 1 3 = 1 / 2 := by
  rw [stepOf_fun2par_eq]; norm_num [Geom.stepOf, memOfIdx, memCount, sumTo]

/-- **step_orthogonal_iff (general).**  `fun2par = par2funᵀ` for the step expansion iff no step
    contains two or more grid nodes — every membership relation, grid size, number of steps.  (A step
    without nodes contributes a zero row and a zero column here; the implementation returns NaN for
    it, which is C13's finding.) -/
theorem stepOf_orthogonal_iff [CharZero K] (n s : ℕ) (mem : ℕ → ℕ → Bool) :
    (Geom.stepOf n s mem : Geom K).Orthogonal ↔ ∀ i, i < s → memCount n mem i ≤ 1 := by
  constructor
  · intro h i hi
    by_contra hgt
    have hpos : 0 < memCount n mem i := by omega
    obtain ⟨k, hk, hm⟩ := (memCount_pos_iff n mem i).mp hpos
    have := h i k hi hk
    simp only [Geom.stepOf, hm, if_true] at this
    have h1 : (1 : K) / (memCount n mem i : K) = 1 / ((1 : ℕ) : K) := by simpa using this
    have := (one_div_cast_eq_iff (K := K) _ _).mp h1
    omega
  · intro h p q hp hq
    simp only [Geom.stepOf]
    split_ifs with hm
    · have hpos : 0 < memCount n mem p := (memCount_pos_iff n mem p).mpr ⟨q, hq, hm⟩
      have h1 : memCount n mem p = 1 := by have := h p hp; omega
      simp [h1]
    · rfl

/-- **step_orthogonal_iff.**  For `StepExpansion(grid of n nodes, n_steps = s)` whose steps are all
    non-empty (what the implementation needs to return finite numbers): `fun2par = par2funᵀ` iff
    every step contains **exactly one** node.  Strengthens `step_orthogonal_partial` to an iff. -/
theorem step_orthogonal_iff [CharZero K] (n s : ℕ) (hne : ∀ i, i < s → 0 < stepCount n s i) :
    (Geom.step n s : Geom K).Orthogonal ↔ ∀ i, i < s → stepCount n s i = 1 := by
  have h := stepOf_orthogonal_iff (K := K) n s (inStep n s)
  constructor
  · intro ho i hi
    have h1 : stepCount n s i ≤ 1 := h.mp ho i hi
    have := hne i hi
    omega
  · intro h1
    exact h.mpr fun i hi => le_of_eq (h1 i hi)

example : ¬ (Geom.step 4 2 : Geom ℚ).Orthogonal := by
  rw [step_orthogonal_iff 4 2 (by decide)]
  decide

example : (Geom.step 3 3 : Geom ℚ).Orthogonal :=
  (step_orthogonal_iff 3 3 (by decide)).mpr (by decide)

/-- **step_adjoint_iff (step expansions on both sides).**  With `StepExpansion` as domain *and* range
    geometry, `LinearModel.adjoint` is the transpose of `forward` for every matrix iff all non-empty
    steps of the two geometries have **the same number of nodes** (`(F_R A E_D)ᵀ = F_D Aᵀ E_R` ⇔
    `D_R = d·I`, `D_D = d·I` on the used steps).  Every grid size, number of steps, membership. -/
theorem stepOf_adjoint_iff [CharZero K] (nD sD nR sR : ℕ) (memD memR : ℕ → ℕ → Bool) :
    AdjointForAll (Geom.stepOf nD sD memD : Geom K) (Geom.stepOf nR sR memR) ↔
      ∀ i, i < sR → ∀ j, j < sD → 0 < memCount nR memR i → 0 < memCount nD memD j →
        memCount nR memR i = memCount nD memD j := by
  rw [weighted_adjoint_iff _ _ (stepOf_shaped nD sD memD) (stepOf_shaped nR sR memR) _ _
    (stepOf_weighted nD sD memD) (stepOf_weighted nR sR memR)]
  constructor
  · intro h i hi j hj hci hcj
    obtain ⟨b, hb, hmb⟩ := (memCount_pos_iff nR memR i).mp hci
    obtain ⟨a, ha, hma⟩ := (memCount_pos_iff nD memD j).mp hcj
    exact (one_div_cast_eq_iff (K := K) _ _).mp
      (h i hi j hj b hb a ha ((stepOf_E_ne_zero nR sR memR b i).mpr hmb) ((stepOf_E_ne_zero nD sD memD a j).mpr hma))
  · intro h i hi j hj b hb a ha hEb hEa
    have hmb := (stepOf_E_ne_zero (K := K) nR sR memR b i).mp hEb
    have hma := (stepOf_E_ne_zero (K := K) nD sD memD a j).mp hEa
    exact (one_div_cast_eq_iff (K := K) _ _).mpr
      (h i hi j hj ((memCount_pos_iff nR memR i).mpr ⟨b, hb, hmb⟩) ((memCount_pos_iff nD memD j).mpr ⟨a, ha, hma⟩))

/-- two steps of two nodes each on both sides: the identity holds although `F ≠ Eᵀ` -/
example : AdjointForAll (Geom.stepOf 4 2 (memOfIdx (· / 2)) : Geom ℚ) (Geom.stepOf 4 2 (memOfIdx (· / 2))) :=
  (stepOf_adjoint_iff 4 2 4 2 _ _).mpr (by decide)

/-- steps of sizes 2 and 1 against steps of size 2: it fails -/
example : ¬ AdjointForAll (Geom.step 3 2 : Geom ℚ) (Geom.stepOf 4 2 (memOfIdx (· / 2))) := by
  rw [(step_is_stepOf 3 2).1, stepOf_adjoint_iff]
  decide

/-- **step_adjoint_iff (step expansion as domain, an orthogonal geometry as range).**  With
    `StepExpansion` as domain geometry and a range geometry with `F = Eᵀ` that uses all its parameters
    (`Continuous1D`, `Discrete`, `Image2D`, …: `ident_orthogonal`, `image_orthogonal`, `ident_ecols`,
    `image_ecols`), `adjoint` is the transpose of `forward` for every matrix iff no step has two or
    more nodes. -/
theorem stepOf_dom_adjoint_iff [CharZero K] (n s : ℕ) (mem : ℕ → ℕ → Bool) (g : Geom K)
    (hgs : g.Shaped) (hgo : g.Orthogonal) (hge : g.EColsNonzero) (hg0 : 0 < g.parDim) :
    AdjointForAll (Geom.stepOf n s mem : Geom K) g ↔ ∀ j, j < s → memCount n mem j ≤ 1 := by
  rw [weighted_adjoint_iff _ _ (stepOf_shaped n s mem) hgs _ _
    (stepOf_weighted n s mem) ((orthogonal_iff_weighted_one g).mp hgo)]
  constructor
  · intro h j hj
    by_contra hgt
    have hpos : 0 < memCount n mem j := by omega
    obtain ⟨a, ha, hma⟩ := (memCount_pos_iff n mem j).mp hpos
    obtain ⟨b, hb, hEb⟩ := hge 0 hg0
    have h1 := h 0 hg0 j hj b hb a ha hEb ((stepOf_E_ne_zero n s mem a j).mpr hma)
    have h2 : (1 : K) / ((1 : ℕ) : K) = 1 / (memCount n mem j : K) := by simpa using h1
    have := (one_div_cast_eq_iff (K := K) _ _).mp h2
    omega
  · intro h i hi j hj b hb a ha hEb hEa
    have hma := (stepOf_E_ne_zero (K := K) n s mem a j).mp hEa
    have hpos : 0 < memCount n mem j := (memCount_pos_iff n mem j).mpr ⟨a, ha, hma⟩
    have h1 : memCount n mem j = 1 := by have := h j hj; omega
    simp [h1]

/-- the same with the step expansion as *range* geometry -/
theorem stepOf_rng_adjoint_iff [CharZero K] (n s : ℕ) (mem : ℕ → ℕ → Bool) (g : Geom K)
    (hgs : g.Shaped) (hgo : g.Orthogonal) (hge : g.EColsNonzero) (hg0 : 0 < g.parDim) :
    AdjointForAll g (Geom.stepOf n s mem : Geom K) ↔ ∀ i, i < s → memCount n mem i ≤ 1 := by
  rw [weighted_adjoint_iff _ _ hgs (stepOf_shaped n s mem) _ _
    ((orthogonal_iff_weighted_one g).mp hgo) (stepOf_weighted n s mem)]
  constructor
  · intro h i hi
    by_contra hgt
    have hpos : 0 < memCount n mem i := by omega
    obtain ⟨b, hb, hmb⟩ := (memCount_pos_iff n mem i).mp hpos
    obtain ⟨a, ha, hEa⟩ := hge 0 hg0
    have h1 := h i hi 0 hg0 b hb a ha ((stepOf_E_ne_zero n s mem b i).mpr hmb) hEa
    have h2 : (1 : K) / (memCount n mem i : K) = 1 / ((1 : ℕ) : K) := by simpa using h1
    have := (one_div_cast_eq_iff (K := K) _ _).mp h2
    omega
  · intro h i hi j hj b hb a ha hEb hEa
    have hmb := (stepOf_E_ne_zero (K := K) n s mem b i).mp hEb
    have hpos : 0 < memCount n mem i := (memCount_pos_iff n mem i).mpr ⟨b, hb, hmb⟩
    have h1 : memCount n mem i = 1 := by have := h i hi; omega
    simp [h1]

/-- `LinearModel(A, domain_geometry=StepExpansion(4 nodes, 2 steps))` with a `Continuous1D` range: fails -/
example : ¬ AdjointForAll (Geom.step 4 2 : Geom ℚ) (Geom.ident 3) := by
  rw [(step_is_stepOf 4 2).1,
    stepOf_dom_adjoint_iff 4 2 _ _ (ident_shaped 3) (ident_orthogonal 3) (ident_ecols 3) (by decide)]
  decide

example : AdjointForAll (Geom.image 2 2 true : Geom ℚ) (Geom.step 3 3) := by
  rw [(step_is_stepOf 3 3).1,
    stepOf_rng_adjoint_iff 3 3 _ _ (image_shaped 2 2 true false) (image_orthogonal 2 2 true false)
      (image_ecols 2 2 true false) (by decide)]
  decide

/-- **step_regular_orthogonal_iff.**  For the shipped `StepExpansion` on a regular grid of `n` nodes with
    `1 ≤ n_steps ≤ n` (the documented precondition): `fun2par = par2funᵀ` **iff `n_steps = len(grid)`**. -/
theorem step_regular_orthogonal_iff [CharZero K] (n s : ℕ) (hs : 0 < s) (hsn : s ≤ n) :
    (Geom.step n s : Geom K).Orthogonal ↔ s = n := by
  constructor
  · intro h
    have h1 := (stepOf_orthogonal_iff (K := K) n s (inStep n s)).mp h
    have h2 : ∑ i ∈ range s, stepCount n s i ≤ ∑ i ∈ range s, 1 :=
      Finset.sum_le_sum fun i hi => h1 i (mem_range.mp hi)
    have h3 := n_le_sum_stepCount n s hs
    simp at h2
    omega
  · intro h
    subst h
    obtain ⟨m, rfl⟩ : ∃ m, s = m + 1 := ⟨s - 1, by omega⟩
    exact step_full_orthogonal m

/-- **step_regular_adjoint_iff.**  `LinearModel(A, domain_geometry=StepExpansion(grid of n nodes, n_steps=s))`
    with a `Continuous1D`/`Discrete`/default range geometry of `r ≥ 1` parameters, `1 ≤ s ≤ n`: the
    adjoint identity holds for every matrix `A` **iff `n_steps = len(grid)`** — every grid size. -/
theorem step_regular_adjoint_iff [CharZero K] (n s r : ℕ) (hs : 0 < s) (hsn : s ≤ n) (hr : 0 < r) :
    AdjointForAll (Geom.step n s : Geom K) (Geom.ident r) ↔ s = n := by
  rw [← step_regular_orthogonal_iff (K := K) n s hs hsn, (step_is_stepOf n s).1,
    stepOf_dom_adjoint_iff n s _ _ (ident_shaped r) (ident_orthogonal r) (ident_ecols r) hr,
    stepOf_orthogonal_iff]

example : ¬ AdjointForAll (Geom.step 100 3 : Geom ℚ) (Geom.ident 100) := by
  rw [step_regular_adjoint_iff 100 3 100 (by norm_num) (by norm_num) (by norm_num)]
  norm_num

/-- **Corrected adjoint for a step-expansion domain.**  With `StepExpansion` (all steps non-empty) as
    domain geometry and any range geometry with `F_Rᵀ = E_R·diag(w_R)` (orthogonal: `w_R = 1`; another
    step expansion: `w_R i = 1/size_i`): multiplying the output of `adjoint(W_R·y)` by the step sizes
    gives the true adjoint, `⟨forward x, y⟩ = ⟨x, D·adjoint(W_R y)⟩`. -/
theorem stepOf_corrected_adjoint [CharZero K] (M : LinModel K) (hs : M.WellShaped) (n s : ℕ) (mem : ℕ → ℕ → Bool)
    (hdom : M.dom = Geom.stepOf n s mem) (hne : ∀ j, j < s → 0 < memCount n mem j)
    (wR : ℕ → K) (hR : M.rng.Weighted wR)
    (hB : ∀ a b, a < M.dom.funDim → b < M.rng.funDim → M.B.e a b = M.A.e b a) (x y : ℕ → K) :
    ip M.rng.parDim (M.fwdPar x) y
      = ip s x (fun j => (memCount n mem j : K) * M.adjPar (fun i => wR i * y i) j) := by
  have hD : M.dom.Weighted (fun i => 1 / (memCount n mem i : K)) := by
    rw [hdom]; exact stepOf_weighted n s mem
  have hpd : M.dom.parDim = s := by rw [hdom]; rfl
  have hw : ∀ j, j < M.dom.parDim → (fun i => 1 / (memCount n mem i : K)) j ≠ 0 := by
    intro j hj
    rw [hpd] at hj
    have : (memCount n mem j : K) ≠ 0 := by exact_mod_cast (hne j hj).ne'
    exact one_div_ne_zero this
  rw [corrected_adjoint_weighted M hs _ wR hD hR hB hw x y, hpd]
  refine ip_congr _ _ _ _ _ (fun _ _ => rfl) (fun j _ => ?_)
  simp

/-- for `stepModel` (`step_adjoint_counterexample`) the corrected adjoint repairs the identity -/
example (x y : ℕ → ℚ) : ip 2 (stepModel.fwdPar x) y
    = ip 1 x (fun j => (memCount 2 (inStep 2 1) j : ℚ) * stepModel.adjPar (fun i => 1 * y i) j) :=
  stepOf_corrected_adjoint stepModel (by constructor <;> rfl) 2 1 (inStep 2 1) rfl (by decide)
    (fun _ => 1) ((orthogonal_iff_weighted_one _).mp (ident_orthogonal 2)) (fun _ _ _ _ => rfl) x y

end step

/-! ## KLExpansion with scipy's sine transforms written out -/

section kl
open Real

/-- **The matrices `klE`, `klF` are `KLExpansion.par2fun` / `fun2par`.**  For every grid size `N ≥ 1`
    and `num_modes = m ≤ N`: the `N × m` matrix `E[n,i] = (ω_i/2)(c_i/τ) sin(π(i+1)(2n+1)/(2N))` acts as
    `par2fun p = idst(pad(c·p/τ))/2` and the `m × N` matrix `F[i,n] = 2τ/(N c_i) sin(π(i+1)(2n+1)/(2N))`
    acts as `fun2par f = c⁻¹·dst(2f)[:m]·τ/(2N)`, with scipy.fftpack's `dst`/`idst` sums of
    `Props/C13_dst.lean` (`C13.klPar2funR`, `C13.klFun2parR`, the real forms of the executable
    `klPre`/`klPost` of `Model/C13.lean`). -/
theorem kl_matrices_are_maps (N m : ℕ) (hN : 0 < N) (hm : m ≤ N) (c : ℕ → ℝ) (τ : ℝ) :
    (∀ (p : ℕ → ℝ) (n : ℕ), (Geom.kl N m c τ).E.apply p n = C13.klPar2funR N m c τ p n) ∧
    (∀ (f : ℕ → ℝ) (i : ℕ), (Geom.kl N m c τ).F.apply f i = C13.klFun2parR N c τ f i) :=
  ⟨fun p n => klE_apply N m hN hm c τ p n, fun f i => klF_apply N m c τ f i⟩

example : (Geom.kl 5 3 (klCoefR 2.5) 12).E.apply (unit 1) 2 = C13.klPar2funR 5 3 (klCoefR 2.5) 12 (unit 1) 2 :=
  (kl_matrices_are_maps 5 3 (by norm_num) (by norm_num) _ _).1 _ _

/-- **`Fᵀ = E · diag(4τ²/(N ω_i c_i²))`.**  The exact relation between `fun2par` and `par2fun` of
    `KLExpansion`: entry by entry `F[i,n] = w_i · E[n,i]` with `w_i = 4τ²/(N ω_i c_i²)`, i.e.
    `2τ²/(N c_i²)` for `i < N−1` and `4τ²/(N c_i²)` for the last mode `i = N−1` — the square of the
    coefficient scaling `c_i/τ` times the DST normalisation `N ω_i/4`. -/
theorem kl_fun2par_weighted (N m : ℕ) (hN : N ≠ 0) (c : ℕ → ℝ) (τ : ℝ) (hτ : τ ≠ 0)
    (hc : ∀ i, i < m → c i ≠ 0) (i n : ℕ) (hi : i < m) (hn : n < N) :
    (Geom.kl N m c τ).F.e i n = 4 * τ ^ 2 / ((N : ℝ) * klOmega N i * c i ^ 2) * (Geom.kl N m c τ).E.e n i :=
  kl_weighted N m hN c τ hτ hc i n hi hn

example : (Geom.kl 5 3 (klCoefR 2.5) 12).F.e 1 2
    = 4 * (12 : ℝ) ^ 2 / (((5 : ℕ) : ℝ) * klOmega 5 1 * klCoefR 2.5 1 ^ 2) * (Geom.kl 5 3 (klCoefR 2.5) 12).E.e 2 1 :=
  kl_fun2par_weighted 5 3 (by norm_num) _ 12 (by norm_num) (fun i _ => (klCoefR_pos _ i).ne') 1 2
    (by norm_num) (by norm_num)

/-- **kl_orthogonal_iff.**  `KLExpansion.fun2par = par2funᵀ` iff `c_i² = 4τ²/(N ω_i)` for every used
    mode, i.e. `4τ²/(N ω_i c_i²) = 1` for all `i < num_modes`. -/
theorem kl_orthogonal_iff (N m : ℕ) (hm : m ≤ N) (c : ℕ → ℝ) (τ : ℝ) (hτ : τ ≠ 0)
    (hc : ∀ i, i < m → c i ≠ 0) :
    (Geom.kl N m c τ).Orthogonal ↔ ∀ i, i < m → klW N c τ i = 1 := by
  constructor
  · intro h i hi
    have hN : N ≠ 0 := by omega
    obtain ⟨n, hn, hne⟩ := kl_ecols N m hm c τ hτ hc i hi
    have h1 := h i n hi hn
    rw [kl_weighted N m hN c τ hτ hc i n hi hn] at h1
    exact mul_right_cancel₀ hne (by rw [one_mul]; exact h1)
  · intro h p q hp hq
    have hN : N ≠ 0 := by have : q < N := hq; omega
    rw [kl_weighted N m hN c τ hτ hc p q hp hq, h p hp, one_mul]

/-- an orthogonal KL geometry exists (`N = 2`, one mode, `c = 1`, `τ = 1`): the iff is not vacuous -/
example : (Geom.kl 2 1 (fun _ => 1) 1).Orthogonal :=
  (kl_orthogonal_iff 2 1 (by norm_num) _ 1 (by norm_num) (fun _ _ => by norm_num)).mpr
    (fun i hi => by
      have : i = 0 := by omega
      subst this
      norm_num [klW, klOmega])

/-- **kl_adjoint_iff (KL domain, orthogonal range).**  With `KLExpansion` as domain geometry and a range
    geometry with `F = Eᵀ` that uses all its parameters, `LinearModel.adjoint` is the transpose of
    `forward` for every matrix iff `4τ²/(N ω_j c_j²) = 1` for all modes `j < num_modes`. -/
theorem kl_dom_adjoint_iff (N m : ℕ) (hm : m ≤ N) (hm0 : 0 < m) (c : ℕ → ℝ) (τ : ℝ) (hτ : τ ≠ 0)
    (hc : ∀ i, i < m → c i ≠ 0) (g : Geom ℝ)
    (hgs : g.Shaped) (hgo : g.Orthogonal) (hge : g.EColsNonzero) (hg0 : 0 < g.parDim) :
    AdjointForAll (Geom.kl N m c τ) g ↔ ∀ j, j < m → klW N c τ j = 1 := by
  have hN : N ≠ 0 := by omega
  rw [weighted_adjoint_iff _ _ (kl_shaped N m c τ) hgs _ _
    (kl_weighted N m hN c τ hτ hc) ((orthogonal_iff_weighted_one g).mp hgo)]
  constructor
  · intro h j hj
    obtain ⟨a, ha, hEa⟩ := kl_ecols N m hm c τ hτ hc j hj
    obtain ⟨b, hb, hEb⟩ := hge 0 hg0
    exact (h 0 hg0 j hj b hb a ha hEb hEa).symm
  · intro h i hi j hj b hb a ha hEb hEa
    exact (h j hj).symm

/-- the same with the KL expansion as *range* geometry (e.g. `Abel1D`/`Deconvolution1D`-style models whose
    data live in a KL space) -/
theorem kl_rng_adjoint_iff (N m : ℕ) (hm : m ≤ N) (hm0 : 0 < m) (c : ℕ → ℝ) (τ : ℝ) (hτ : τ ≠ 0)
    (hc : ∀ i, i < m → c i ≠ 0) (g : Geom ℝ)
    (hgs : g.Shaped) (hgo : g.Orthogonal) (hge : g.EColsNonzero) (hg0 : 0 < g.parDim) :
    AdjointForAll g (Geom.kl N m c τ) ↔ ∀ i, i < m → klW N c τ i = 1 := by
  have hN : N ≠ 0 := by omega
  rw [weighted_adjoint_iff _ _ hgs (kl_shaped N m c τ) _ _
    ((orthogonal_iff_weighted_one g).mp hgo) (kl_weighted N m hN c τ hτ hc)]
  constructor
  · intro h i hi
    obtain ⟨b, hb, hEb⟩ := kl_ecols N m hm c τ hτ hc i hi
    obtain ⟨a, ha, hEa⟩ := hge 0 hg0
    exact h i hi 0 hg0 b hb a ha hEb hEa
  · intro h i hi j hj b hb a ha hEb hEa
    exact h i hi

example : AdjointForAll (Geom.ident 2) (Geom.kl 2 1 (fun _ => 1) 1) :=
  (kl_rng_adjoint_iff 2 1 (by norm_num) (by norm_num) _ 1 (by norm_num) (fun _ _ => by norm_num) _
    (ident_shaped 2) (ident_orthogonal 2) (ident_ecols 2) (by decide)).mpr
    (fun i hi => by
      have : i = 0 := by omega
      subst this
      norm_num [klW, klOmega])

/-- **kl_adjoint_iff (KL expansions on both sides).**  With KL expansions as domain and range geometry
    the identity holds for every matrix iff all the weights `4τ²/(N ω c²)` of the used modes of both
    geometries coincide. -/
theorem kl_kl_adjoint_iff (ND mD : ℕ) (hmD : mD ≤ ND) (cD : ℕ → ℝ) (τD : ℝ) (hτD : τD ≠ 0)
    (hcD : ∀ i, i < mD → cD i ≠ 0) (NR mR : ℕ) (hmR : mR ≤ NR) (cR : ℕ → ℝ) (τR : ℝ) (hτR : τR ≠ 0)
    (hcR : ∀ i, i < mR → cR i ≠ 0) (hD0 : 0 < mD) (hR0 : 0 < mR) :
    AdjointForAll (Geom.kl ND mD cD τD) (Geom.kl NR mR cR τR) ↔
      ∀ i, i < mR → ∀ j, j < mD → klW NR cR τR i = klW ND cD τD j := by
  have hND : ND ≠ 0 := by omega
  have hNR : NR ≠ 0 := by omega
  rw [weighted_adjoint_iff _ _ (kl_shaped ND mD cD τD) (kl_shaped NR mR cR τR) _ _
    (kl_weighted ND mD hND cD τD hτD hcD) (kl_weighted NR mR hNR cR τR hτR hcR)]
  constructor
  · intro h i hi j hj
    obtain ⟨a, ha, hEa⟩ := kl_ecols ND mD hmD cD τD hτD hcD j hj
    obtain ⟨b, hb, hEb⟩ := kl_ecols NR mR hmR cR τR hτR hcR i hi
    exact h i hi j hj b hb a ha hEb hEa
  · intro h i hi j hj b hb a ha _ _
    exact h i hi j hj

/-- **kl_adjoint_never_decaying.**  For coefficients that decay (`0 < c 1 < c 0`; the shipped
    `c_i = 1/(i+1)^γ`, `γ > 0`) and at least two modes (`2 ≤ num_modes ≤ N`), whatever the normaliser
    `τ ≠ 0` and the grid size: `fun2par ≠ par2funᵀ`, and `LinearModel.adjoint` is **not** the transpose
    of `forward` for some matrix — both with an orthogonal geometry on the other side
    (`Continuous1D`, `Image2D`, …) and with the same KL expansion on both sides.  This is the known
    finding `LinearModel:adjoint:*:expansion:*` for KL, for all sizes. -/
theorem kl_adjoint_never_decaying (N m : ℕ) (hm2 : 2 ≤ m) (hm : m ≤ N) (c : ℕ → ℝ) (τ : ℝ) (hτ : τ ≠ 0)
    (hc : ∀ i, i < m → c i ≠ 0) (h1 : 0 < c 1) (h01 : c 1 < c 0) :
    ¬ (Geom.kl N m c τ).Orthogonal ∧
    ¬ AdjointForAll (Geom.kl N m c τ) (Geom.kl N m c τ) ∧
    ∀ g : Geom ℝ, g.Shaped → g.Orthogonal → g.EColsNonzero → 0 < g.parDim →
      ¬ AdjointForAll (Geom.kl N m c τ) g := by
  have hne := klW_zero_ne_one N (by omega) c τ hτ h1 h01
  refine ⟨?_, ?_, ?_⟩
  · rw [kl_orthogonal_iff N m hm c τ hτ hc]
    intro h
    exact hne ((h 0 (by omega)).trans (h 1 (by omega)).symm)
  · rw [kl_kl_adjoint_iff N m hm c τ hτ hc N m hm c τ hτ hc (by omega) (by omega)]
    intro h
    exact hne (h 0 (by omega) 1 (by omega))
  · intro g hgs hgo hge hg0
    rw [kl_dom_adjoint_iff N m hm (by omega) c τ hτ hc g hgs hgo hge hg0]
    intro h
    exact hne ((h 0 (by omega)).trans (h 1 (by omega)).symm)

/-- **kl_shipped_never.**  The shipped `KLExpansion` (`coefs = 1/(i+1)^decay_rate`, any real
    `decay_rate > 0` — default `2.5` —, any `normalizer ≠ 0` — default `12` —, any grid size `N ≥ 2`
    and `2 ≤ num_modes ≤ N`) never satisfies `fun2par = par2funᵀ`, and a `LinearModel` with it as
    domain geometry and a `Continuous1D(n)` range (`n ≥ 1`) has an `adjoint` that is not the transpose
    of `forward` for some matrix. -/
theorem kl_shipped_never (N m : ℕ) (hm2 : 2 ≤ m) (hm : m ≤ N) (γ : ℝ) (hγ : 0 < γ) (τ : ℝ) (hτ : τ ≠ 0)
    (n : ℕ) (hn : 0 < n) :
    ¬ (Geom.kl N m (klCoefR γ) τ).Orthogonal ∧
    ¬ AdjointForAll (Geom.kl N m (klCoefR γ) τ) (Geom.ident n) := by
  have h := kl_adjoint_never_decaying N m hm2 hm (klCoefR γ) τ hτ (fun i _ => (klCoefR_pos γ i).ne')
    (klCoefR_pos γ 1) (klCoefR_decay γ hγ)
  exact ⟨h.1, h.2.2 (Geom.ident n) (ident_shaped n) (ident_orthogonal n) (ident_ecols n) hn⟩

example : ¬ AdjointForAll (Geom.kl 128 128 (klCoefR 2.5) 12) (Geom.ident 128) :=
  (kl_shipped_never 128 128 (by norm_num) (by norm_num) 2.5 (by norm_num) 12 (by norm_num) 128 (by norm_num)).2

/-- **Corrected adjoint for a KL domain.**  With `KLExpansion` as domain geometry and a range geometry
    with `F_Rᵀ = E_R·diag(w_R)`, the true adjoint is
    `adjoint_correct(y)[j] = (N ω_j c_j²/(4τ²)) · adjoint(W_R·y)[j]` — closed form of `E_Dᵀ Aᵀ F_Rᵀ`. -/
theorem kl_corrected_adjoint (M : LinModel ℝ) (hs : M.WellShaped) (N m : ℕ) (hm : m ≤ N) (hm0 : 0 < m)
    (c : ℕ → ℝ) (τ : ℝ) (hτ : τ ≠ 0) (hc : ∀ i, i < m → c i ≠ 0) (hdom : M.dom = Geom.kl N m c τ)
    (wR : ℕ → ℝ) (hR : M.rng.Weighted wR)
    (hB : ∀ a b, a < M.dom.funDim → b < M.rng.funDim → M.B.e a b = M.A.e b a) (x y : ℕ → ℝ) :
    ip M.rng.parDim (M.fwdPar x) y
      = ip m x (fun j => ((N : ℝ) * klOmega N j * c j ^ 2 / (4 * τ ^ 2)) * M.adjPar (fun i => wR i * y i) j) := by
  have hN : N ≠ 0 := by omega
  have hD : M.dom.Weighted (klW N c τ) := by rw [hdom]; exact kl_weighted N m hN c τ hτ hc
  have hpd : M.dom.parDim = m := by rw [hdom]; rfl
  have hN' : (N : ℝ) ≠ 0 := by exact_mod_cast hN
  have hw : ∀ j, j < M.dom.parDim → klW N c τ j ≠ 0 := by
    intro j hj
    rw [hpd] at hj
    unfold klW
    exact div_ne_zero (mul_ne_zero (by norm_num) (pow_ne_zero 2 hτ))
      (mul_ne_zero (mul_ne_zero hN' (klOmega_ne_zero N j)) (pow_ne_zero 2 (hc j hj)))
  rw [corrected_adjoint_weighted M hs _ wR hD hR hB hw x y, hpd]
  refine ip_congr _ _ _ _ _ (fun _ _ => rfl) (fun j _ => ?_)
  unfold klW
  rw [inv_div]

example (A : LMat ℝ) (hr : A.rows = 3) (hcA : A.cols = 5) (x y : ℕ → ℝ) :
    ip 3 ((LinModel.ofMatrix A (Geom.kl 5 3 (klCoefR 2.5) 12) (Geom.ident 3)).fwdPar x) y
      = ip 3 x (fun j => (((5 : ℕ) : ℝ) * klOmega 5 j * klCoefR 2.5 j ^ 2 / (4 * (12 : ℝ) ^ 2)) *
          (LinModel.ofMatrix A (Geom.kl 5 3 (klCoefR 2.5) 12) (Geom.ident 3)).adjPar (fun i => 1 * y i) j) :=
  kl_corrected_adjoint _ (wellShaped_ofMatrix A _ _ (kl_shaped 5 3 _ 12) (ident_shaped 3) hr hcA) 5 3
    (by norm_num) (by norm_num) _ 12 (by norm_num) (fun i _ => (klCoefR_pos _ i).ne') rfl (fun _ => 1)
    ((orthogonal_iff_weighted_one _).mp (ident_orthogonal 3)) (fun _ _ _ _ => rfl) x y

end kl

/-! ## `M.T`: the driver's products and `get_matrix` -/

section transpose
variable {R : Type} [CommRing R]

/-- **transpose_getMatrix.**  For every well-shaped model for which `M.T` can be evaluated (`tOk`):
    the tabulated products the driver prints for `T.forward` / `T.adjoint` (`tFwdDriver`, `tAdjDriver` —
    the expressions `tf`, `ta` of `Driver/C07.lean`) have exactly the entries of the matrices
    `tFwdMat` / `tAdjMat` (geometry maps applied twice); `M.T.get_matrix()` has shape
    `(domain_dim, range_dim)`; for a function-backed model its entry `(j,i)` is `T.forward(e_i)[j]` and
    equals the driver's product; for a matrix-backed model it is the transposed stored matrix. -/
theorem transpose_getMatrix (M : LinModel R) (hs : M.WellShaped) (hok : M.tOk = true) (j i : ℕ)
    (hj : j < M.dom.parDim) (hi : i < M.rng.parDim) :
    M.tFwdDriver.e j i = M.tFwdMat.e j i ∧ M.tAdjDriver.e i j = M.tAdjMat.e i j ∧
    (M.matrixBacked = false →
      M.tGetMatrix.rows = M.dom.parDim ∧ M.tGetMatrix.cols = M.rng.parDim ∧
      M.tGetMatrix.e j i = M.tFwdPar (unit i) j ∧ M.tGetMatrix.e j i = M.tFwdDriver.e j i) ∧
    (M.matrixBacked = true → M.tGetMatrix.e j i = M.A.e i j) := by
  refine ⟨tFwdDriver_e M hs hok j i hj hi, tAdjDriver_e M hs hok i j hi hj, ?_, ?_⟩
  · intro hfn
    have h : M.tGetMatrix = columnsOf M.dom.parDim M.rng.parDim M.tFwdPar := by
      simp [LinModel.tGetMatrix, hfn]
    rw [h]
    refine ⟨rfl, rfl, rfl, ?_⟩
    show M.tFwdPar (unit i) j = _
    rw [tFwdDriver_e M hs hok j i hj hi, tFwdPar_eq M hs _ j hj, matrix_columns]
    show i < M.rng.E.cols
    rw [hs.rngE_cols]; exact hi
  · intro hmb
    simp [LinModel.tGetMatrix, hmb]

/-- function-backed example on reshaping geometries; and the double application on `scaleModel` -/
example : ({ A := exA, B := exA.transpose, dom := Geom.ident 3, rng := Geom.ident 2, matrixBacked := false }
      : LinModel ℤ).tGetMatrix.e 2 1
    = ({ A := exA, B := exA.transpose, dom := Geom.ident 3, rng := Geom.ident 2, matrixBacked := false }
      : LinModel ℤ).tFwdDriver.e 2 1 :=
  ((transpose_getMatrix _ (by constructor <;> rfl) rfl 2 1 (by decide) (by decide)).2.2.1 rfl).2.2.2

example : scaleModel.tFwdDriver.e 0 0 = scaleModel.tFwdMat.e 0 0 :=
  (transpose_getMatrix scaleModel (by constructor <;> rfl) rfl 0 0 (by decide) (by decide)).1

end transpose

end CuqiVerif.C07
