/-
  C20 model, part 2 — a GMRF object as a state machine (`cuqi/distribution/_gmrf.py`).

  `GMRF.__init__` builds, once, everything that depends only on (order, bc_type, geometry): the difference operator, the
  structure matrix `P = DᵀD` (`_prec_op`), its Cholesky factor, `_rank`, `_logdet`.  The `prec` and `mean` setters only store
  their argument; `logpdf`, `_gradient`, `sqrtprec` and `sqrtprecTimesMean` read `self.prec` / `self.mean` at call time.
  So the object is the fixed `P` plus two assignable slots, and every read is a function of the CURRENT slots.
  Reads are modelled through the exact rational quantities they determine:
    quad x      = logpdf(x) - logpdf(mean)            = -prec/2 · (x-mean)ᵀ P (x-mean)
    scaledPrec  = sqrtprecᵀ · sqrtprec                = prec · P
    precMean    = sqrtprecᵀ · sqrtprecTimesMean       = prec · P · mean
    grad x      = gradient(x)                         = -prec · P (x-mean)
  Import-free apart from the shared rational matrices; executable.
-/
import CuqiVerif.Model.QMat
namespace CuqiVerif.C20
open CuqiVerif.QMat

structure GState where
  P : Mat
  prec : Rat
  mean : Vec
  deriving Repr, BEq

inductive GOp where
  | setPrec (p : Rat)
  | setMean (m : Vec)
  deriving Repr

def GState.apply (s : GState) : GOp → GState
  | .setPrec p => { s with prec := p }
  | .setMean m => { s with mean := m }

def GState.run (s : GState) (ops : List GOp) : GState := ops.foldl GState.apply s

def GState.quad (s : GState) (x : Vec) : Rat :=
  -(1/2) * s.prec * dot (vsub x s.mean) (mulVec s.P (vsub x s.mean))

def GState.scaledPrec (s : GState) : Mat := mscale s.prec s.P

def GState.precMean (s : GState) : Vec := vscale s.prec (mulVec s.P s.mean)

def GState.grad (s : GState) (x : Vec) : Vec := vscale (-s.prec) (mulVec s.P (vsub x s.mean))

/-- the last value assigned to `prec` by a history, if any -/
def lastPrec : List GOp → Option Rat
  | [] => none
  | .setPrec p :: rest => (lastPrec rest).orElse (fun _ => some p)
  | .setMean _ :: rest => lastPrec rest

/-- the last value assigned to `mean` by a history, if any -/
def lastMean : List GOp → Option Vec
  | [] => none
  | .setMean m :: rest => (lastMean rest).orElse (fun _ => some m)
  | .setPrec _ :: rest => lastMean rest

end CuqiVerif.C20
