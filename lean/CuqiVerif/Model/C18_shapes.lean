import CuqiVerif.Model.C18
/-
  C18 model, part 5 — what `TimeDependentLinearPDE.solve` (`cuqi/pde/_pde.py` l. 245-270) does with
  form components that are not an `(n,n)` matrix, an `(n,)` source and an `(n,)` initial condition:
  numpy broadcasting in `dt*diff_op + np.eye(n)`, `… @ u_pre + dt*rhs`, `u_pre + dt*rhs`, the
  assignments `u[:, 0] = initial_condition`, `u[:, idx+1] = …`, and `n = len(initial_condition)`.

    operator   `(n,n)` used as is; a scalar / 0-d / `(1,)` / `(1,1)` array `c` is added to EVERY entry
               (the full matrix of `c`s, not `c·I`); an `(n,)` vector `d` gives the matrix with rows `d`;
               any other size is refused (`ValueError` in the broadcast or in `@`)
    source     `(n,)`; scalar or `(1,)`: the same value at every node; `(1,n)` row: accepted by forward
               Euler (the leading axis is dropped on assignment), refused by backward Euler for `n > 1`
               (`scipy.linalg.solve` with a `(1,n)` right-hand side); `(1,1)`: broadcast by forward, refused
               by backward for `n > 1`; `(n,1)` column: an `(n,n)` array results, refused for `n > 1`;
               other lengths refused
    ic         `(n,)`; a scalar has no `len` (`TypeError`); an `(n,1)` column is refused for `n > 1`
  The shapes are checked at every time the loop assembles, in order (they may depend on `t`).
-/
namespace CuqiVerif.C18

inductive OpArg (R : Type)
  | mat (rows : Nat) (A : Mat R)     -- square 2-D array `(rows, rows)`
  | scalar (c : R)                   -- python number / 0-d array
  | vec (len : Nat) (d : Vec R)      -- 1-D array

inductive SrcArg (R : Type)
  | vec (len : Nat) (b : Vec R)      -- 1-D
  | scalar (c : R)
  | col (len : Nat) (b : Vec R)      -- `(len, 1)`
  | row (len : Nat) (b : Vec R)      -- `(1, len)`

inductive IcArg (R : Type)
  | vec (len : Nat) (v : Vec R)
  | scalar (c : R)
  | col (len : Nat) (v : Vec R)

structure RawForm (R : Type) where
  op : OpArg R
  src : SrcArg R
  ic : IcArg R

section
variable {R : Type}

/-- the `n × n` matrix that `dt*diff_op + np.eye(n)` / `np.eye(n) - dt*diff_op` is built from -/
def bcOp (n : Nat) : OpArg R → Except Err (Mat R)
  | .mat m A => if m = n then .ok A else if m = 1 then .ok (fun _ _ => A 0 0) else .error .valueError
  | .scalar c => .ok fun _ _ => c
  | .vec k d => if k = n then .ok (fun _ j => d j) else if k = 1 then .ok (fun _ _ => d 0) else .error .valueError

/-- the source vector actually added, per method -/
def bcSrc (n : Nat) (m : Method) : SrcArg R → Except Err (Vec R)
  | .vec k b => if k = n then .ok b else if k = 1 then .ok (fun _ => b 0) else .error .valueError
  | .scalar c => .ok fun _ => c
  | .col k b =>      -- a `(1,1)` array behaves like a `(1,1)` row; a longer column gives an `(n,n)` array
    if k = 1 then (if n = 1 then .ok (fun _ => b 0) else if m = .backward then .error .valueError else .ok (fun _ => b 0))
    else .error .valueError
  | .row k b =>
    if n = 1 ∧ k = 1 then .ok (fun _ => b 0)
    else if m = .backward then .error .valueError
    else if k = n then .ok b else if k = 1 then .ok (fun _ => b 0) else .error .valueError

/-- `n = len(initial_condition)` and the vector written into `u[:, 0]` -/
def bcIc : IcArg R → Except Err (Nat × Vec R)
  | .vec k v => .ok (k, v)
  | .scalar _ => .error .valueError          -- `TypeError: object of type 'float' has no len()`
  | .col k v => if k = 1 then .ok (1, v) else .error .valueError

variable [Zero R] [One R] [Add R] [Sub R] [Mul R]

/-- `solve()` for a form whose components may have any of the shapes above -/
def solveTimeShapes {I : Type} (m : Method) (raw : R → RawForm R)
    (solver : Mat R → Vec R → SolverRet (Vec R) I) (ts : List R) :
    Except Err (Nat × List (Array R) × Option (List I)) :=
  match ts with
  | [] => .error .indexError
  | t0 :: _ =>
    match bcIc (raw t0).ic with
    | .error e => .error e
    | .ok (n, ic0) =>
      let stepTimes := (formCalls m ts).drop 1       -- the times at which the loops assemble and use operator and source
      match stepTimes.mapM (fun t => (bcOp n (raw t).op).bind fun A => (bcSrc n m (raw t).src).map fun b => (A, b)) with
      | .error e => .error e
      | .ok _ =>
        let form : R → Form R := fun t =>
          { op := match bcOp n (raw t).op with | .ok A => A | .error _ => fun _ _ => 0
            src := match bcSrc n m (raw t).src with | .ok b => b | .error _ => fun _ => 0
            ic := ic0 }
        (solveTime n m form solver ts).map fun r => (n, r.1, r.2)

end
end CuqiVerif.C18
