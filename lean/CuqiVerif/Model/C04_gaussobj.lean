import CuqiVerif.Model.QMat
import CuqiVerif.Model.C04
/-
  C04 model, session-3 extension — the `Gaussian` OBJECT around `get_sqrtprec_from_*`
  (`cuqi/distribution/_gaussian.py`), import-free, executable.

  A. Storage-dependent branches of `get_sqrtprec_from_sqrtprec` that `Model/C04.lean`'s `canon` does not have:
     `spa.isspmatrix_dia(sqrtprec)` (log-determinant from the *stored data array* of a scipy `dia_matrix`,
     padding and off-diagonal bands included), `isinstance(sqrtprec, LinearOperator)` (log-determinant = the
     attribute the user attached, else `None`), the 1×1 scipy-sparse matrix that falls into the scalar branch
     (`.ravel` / `np.log` of a sparse matrix: AttributeError / TypeError), `"sqrtprec must be square"`.
  B. The object: `Gaussian.__init__` (exactly one of the four matrix keywords, none ⇒ `cov` is the mutable
     variable and is `None`), the four setters' `_mutable_vars` check (ValueError), which setter resets the
     covariance cache `_cov`, the `cov` getter (NotImplementedError while nothing is cached), `compute_cov`
     (refusals: unset / callable main matrix, `dim > MAX_DIM_INV`; `cov` form: scalar → `v*eye(dim)`, 1-D →
     `np.diag`, 2-D → itself; other forms: `inv(sqrtprec.T @ sqrtprec)`; writes the cache), `logpdf` of the
     current state.  `Gaussian.cdf` is `scipy…multivariate_normal.cdf(x, mean, compute_cov())`.
-/
namespace CuqiVerif.C04

/-! ## A. storage-dependent branches -/

/-- a square scipy `dia_matrix`: `A[i, j] = data[k][j]` for the row `k` with `offsets[k] = j - i`
    (entries of `data` that fall outside the matrix are padding: stored, but not part of the matrix) -/
structure Dia where
  n : Nat
  offsets : List Int
  data : List (List Rat)

def allDistinct : List Int → Bool
  | [] => true
  | a :: t => !(t.contains a) && allDistinct t

/-- one row of `data` per offset, every row of length `n`, no repeated offset -/
def Dia.wellFormed (d : Dia) : Bool :=
  d.offsets.length = d.data.length && d.data.all (·.length = d.n) && allDistinct d.offsets && !d.offsets.isEmpty

def Dia.entry (d : Dia) (i j : Nat) : Rat :=
  (List.zip d.offsets d.data).foldl (fun acc p => if (j : Int) - (i : Int) = p.1 then acc + p.2.getD j 0 else acc) 0

/-- the matrix the object denotes (`toarray()`) -/
def Dia.toMat (d : Dia) : QMat.Mat := (List.range d.n).map fun i => (List.range d.n).map fun j => d.entry i j

/-- `sqrtprec.data` flattened: every stored number, padding included -/
def Dia.stored (d : Dia) : List Rat := d.data.foldr (· ++ ·) []

/-- result of a conversion: the outcomes of `Model/C04.lean` plus "log-determinant `+inf`" -/
inductive SRes
  | base (r : GRes)
  /-- constructed, `logdet = +inf` (the logarithm of a stored zero): `logpdf = -inf` at every point,
      `_logupdf = -1/2 zᵀPz` -/
  | negInf (P : QMat.Mat)

/-- `elif spa.isspmatrix_dia(sqrtprec): logdet = np.sum(-np.log(sqrtprec.data**2)); rank = dim` — the matrix
    itself is kept (`_logupdf` multiplies with it).  `exp(logdet) = Π 1/d²` over ALL stored numbers. -/
def sqrtprecDia (dim : Nat) (d : Dia) : SRes :=
  if d.n = 1 then .base .raises else                 -- `shape[0] == 1`: scalar branch, `np.log(sparse)`: TypeError
  if d.n ≠ dim then .base .raises else                -- `sqrtprec @ dev`: dimension mismatch
  let R := d.toMat
  let P := QMat.mul (QMat.transpose R) R
  if d.stored.any (· = 0) then .negInf P
  else .base (.ok { P := some P, detCov := prodList (d.stored.map fun r => 1 / (r * r)), rank := dim })

/-- `elif isinstance(sqrtprec, LinearOperator)`: `logdet = sqrtprec.logdet` if the attribute exists, else
    `None`; `rank = dim`.  `userDetCov` is `exp` of the attached number (a leaf supplied by the user). -/
def sqrtprecLinop (dim : Nat) (R : QMat.Mat) (userDetCov : Option Rat) : SRes :=
  if !(R.all (·.length = R.length)) then .base .raises else      -- "sqrtprec must be square"
  if R.length ≠ dim then .base .raises else
  let P := QMat.mul (QMat.transpose R) R
  match userDetCov with
  | some dc => .base (.ok { P := some P, detCov := dc, rank := dim })
  | none => .base (.noLogdet P)

/-- the matrix argument as the user stores it -/
inductive Stored
  /-- Python scalar / 1-D array / dense 2-D array / scipy sparse matrix other than `dia_matrix` -/
  | plain (kind : Kind) (M : QMat.Mat)
  | dia (d : Dia)
  | linop (R : QMat.Mat) (userDetCov : Option Rat)

/-- conversion of a stored argument: `canon` for the plain kinds; a `dia_matrix` is an ordinary sparse matrix
    for `cov` / `prec` / `sqrtcov` and has its own branch for `sqrtprec`; a 1×1 scipy-sparse matrix is refused by
    every form; a LinearOperator is a matrix only for `sqrtprec` (elsewhere it is a callable parameter). -/
def canonStored (form : Form) (dim : Nat) : Stored → SRes
  | .plain k M => if k = .sparse && M.length = 1 then .base .raises else .base (canon form k dim M)
  | .dia d =>
      if form = .sqrtprec then sqrtprecDia dim d
      else if d.n = 1 then .base .raises else .base (canon form .sparse dim d.toMat)
  | .linop R dc => if form = .sqrtprec then sqrtprecLinop dim R dc else .base .unsupported

/-- the precision `_logupdf` uses, whatever became of the log-determinant -/
def SRes.prec? : SRes → Option QMat.Mat
  | .base (.ok c) => c.P
  | .base (.noLogdet P) => some P
  | .negInf P => some P
  | _ => none

/-! ## B. the object -/

def MAX_DIM_INV : Nat := 2000

inductive Exc | valueError | notImplemented
  deriving DecidableEq, Repr

def Exc.toString : Exc → String
  | .valueError => "E:ValueError" | .notImplemented => "E:NotImplementedError"

/-- contents of `self._cov` -/
inductive CovSlot
  | unset                      -- `None`
  | raw (s : Stored)           -- the user's `cov` argument, as stored by `cov.setter`
  | full (C : QMat.Mat)        -- a matrix written by `compute_cov`

structure GObj where
  dim : Nat
  /-- `_mutable_vars[1]` -/
  form : Form
  /-- the main matrix; `none`: `None` (a conditional distribution) -/
  main : Option Stored
  cov : CovSlot
  mean : List Rat

/-- `Gaussian.__init__`: `args` are the matrix keywords that are not `None` -/
def construct (dim : Nat) (mean : List Rat) (args : List (Form × Stored)) : Except Exc GObj :=
  match args with
  | [] => .ok { dim, form := .cov, main := none, cov := .unset, mean }           -- `self.cov = None`
  | [(f, s)] => .ok { dim, form := f, main := some s, cov := if f = .cov then .raw s else .unset, mean }
  | _ => .error .valueError                  -- "Exactly one of 'cov', 'prec', 'sqrtcov', or 'sqrtprec' may be specified"

/-- the four matrix setters (a value whose conversion succeeds): refuse a keyword that is not the mutable one;
    `cov.setter` stores the value in `_cov`, the other three reset `_cov` to `None` -/
def setMain (o : GObj) (f : Form) (s : Stored) : Except Exc GObj :=
  if f ≠ o.form then .error .valueError
  else .ok { o with main := some s, cov := if f = .cov then .raw s else .unset }

def setMean (o : GObj) (m : List Rat) : GObj := { o with mean := m }

/-- what reading `.cov` gives -/
inductive CovRead
  | none_                      -- `None` (cov-form distribution without a covariance yet)
  | raw (s : Stored)           -- the user's own object
  | full (C : QMat.Mat)

def getCov (o : GObj) : Except Exc CovRead :=
  match o.cov with
  | .raw s => .ok (.raw s)
  | .full C => .ok (.full C)
  | .unset => if o.form = .cov then .ok .none_ else .error .notImplemented

/-- `compute_cov` on a `cov`-form object whose `_cov` still holds the user's argument -/
def expandCov (dim : Nat) : Stored → QMat.Mat
  | .plain .scalar [[v]] => QMat.mscale v (QMat.ident dim)       -- `cov.ravel()[0]*np.eye(self.dim)`
  | .plain .vector [v] => QMat.diag v                            -- `np.diag(cov)`
  | .plain _ M => M                                              -- `computed_cov = cov`
  | .dia d => d.toMat
  | .linop R _ => R

/-- `compute_cov`; `denote form s dim` = `inv(sqrtprec.T @ sqrtprec)` for the stored argument (in the driver:
    the checked inverse of the precision `canonStored` yields) -/
def computeCov (denote : Form → Stored → Nat → Option QMat.Mat) (o : GObj) : Except Exc (Option QMat.Mat × GObj) :=
  match o.main with
  | none => .error .valueError                                   -- "Mutable variable … is not set"
  | some (.linop _ _) => .error .valueError                      -- `callable(main_matrix)`
  | some s =>
    if o.dim > MAX_DIM_INV then .error .notImplemented else
    if o.form = .cov then
      let C := match o.cov with | .full C => C | _ => expandCov o.dim s
      .ok (some C, { o with cov := .full C })
    else
      match denote o.form s o.dim with
      | some C => .ok (some C, { o with cov := .full C })
      | none => .ok (none, o)                                    -- outside the model (no exact inverse formed)

inductive Op
  | setMain (f : Form) (s : Stored)
  | setMean (m : List Rat)
  | computeCov
  | readCov

/-- state after one operation (a refused operation leaves the object as it was) -/
def stepState (denote : Form → Stored → Nat → Option QMat.Mat) (o : GObj) : Op → GObj
  | .setMain f s => match setMain o f s with | .ok o' => o' | .error _ => o
  | .setMean m => setMean o m
  | .computeCov => match computeCov denote o with | .ok (_, o') => o' | .error _ => o
  | .readCov => o

def runOps (denote : Form → Stored → Nat → Option QMat.Mat) (o : GObj) (ops : List Op) : GObj :=
  ops.foldl (stepState denote) o

end CuqiVerif.C04
