/-
  C08 model, part 5 — histories of one experimental NUTS sampler object with a user step size:
  transitions (`sample(1)`), `reinitialize()`, and the checkpoint round trip `get_state()` → `set_state()` /
  `save_checkpoint` → `load_checkpoint` into another (initialised) sampler object.

  What the code does (cuqi/experimental/mcmc/_sampler.py, _hmc.py):
  * `step` starts from the CACHED triple `current_point, current_target_logd, current_target_grad` (it does not
    re-evaluate the target at the current point) and ends with the triple of `Loop.cur`;
  * `reinitialize` sets every state key to `None`, then `initialize()` → `current_point = initial_point`,
    `_initialize()` → `current_target_logd, current_target_grad = _nuts_target(current_point)`;
  * `get_state` returns the values of `_STATE_KEYS` (`current_point`, `current_target_logd`,
    `current_target_grad`, `_epsilon`, `_epsilon_bar`, `_H_bar`, `max_depth`), `set_state` assigns them: the triple
    (and the step size / depth bound in force) is copied verbatim, nothing is recomputed.

  Import-free, executable.
-/
import CuqiVerif.Model.C08
namespace CuqiVerif.C08

/-- the part of the sampler object's state a transition depends on: the cached triple, the step size and depth
    bound in force, and where `reinitialize()` of this object goes back to (its constructor arguments) -/
structure HState where
  x : List Rat
  logd : XR
  grad : List Rat
  md : Nat
  eps : Rat
  home : List Rat        -- `initial_point` of the object
  eps0 : Rat             -- `step_size` of the object
  deriving Repr, BEq

inductive HOp where
  | step (r : List Rat) (e : Rat) (us : List Rat)   -- momentum, `exponential(1)` draw, uniform script
  | reinit
  | restore (other : Option (List Rat × Rat))       -- `none`: into the same object; `some (x0', eps0')`: into another object with these constructor arguments
  deriving Repr

/-- one transition from the cached triple; a non-finite cached log-density cannot occur after `initialize` of a
    usable start (the driver reports it) — the state is then left as it is -/
def hStepLoop (t : Target) (guard : PS → Bool) (s : HState) (r : List Rat) (e : Rat)
    (us : List Rat) : Option (Ctx PS × Loop PS) :=
  match s.logd with
  | .fin l0 =>
    let z0 : PS := { x := s.x, r := r, logd := s.logd, grad := s.grad }
    let ham0 := l0 - (1/2) * dotQ r r
    let c := psCtx t s.eps (ham0 - e) ham0
    some (c, nutsStep c guard s.md z0 us)
  | _ => none

/-- `max_depth` is one of `_STATE_KEYS`, which `reinitialize()` sets to `None` before `initialize()`; the setter turns
    `None` into the default 15 — the user's depth bound is lost (a quirk of the code, reproduced here; any fixed
    depth bound is covered by the property). `_epsilon` is set again from the constructor's `step_size`. -/
def defaultDepth : Nat := 15

def hApply (t : Target) (guard : PS → Bool) (s : HState) : HOp → HState
  | .step r e us =>
    match hStepLoop t guard s r e us with
    | some (_, st) => { s with x := st.cur.x, logd := st.cur.logd, grad := st.cur.grad }
    | none => s
  | .reinit => { s with x := s.home, logd := t.logd s.home, grad := t.grad s.home, md := defaultDepth, eps := s.eps0 }
  | .restore none => s
  | .restore (some (x0', eps0')) => { s with home := x0', eps0 := eps0' }

def hInit (t : Target) (md : Nat) (eps : Rat) (x0 : List Rat) : HState :=
  { x := x0, logd := t.logd x0, grad := t.grad x0, md := md, eps := eps, home := x0, eps0 := eps }

/-- the states after each operation of a history, in order -/
def runHistory (t : Target) (guard : PS → Bool) : HState → List HOp → List HState
  | _, [] => []
  | s, op :: ops =>
    let s' := hApply t guard s op
    s' :: runHistory t guard s' ops

/-! ## histories in which the target is replaced (the HybridGibbs per-sweep pattern)

`sampler.target = B` only stores `B` (and validates it); the documented way to continue is
`sampler.initial_point = sampler.current_point; sampler.reinitialize()` (restart where the chain stands) or a plain
`reinitialize()` (restart at the object's initial point): `_initialize` then evaluates the NEW target at the starting
point.  As after every `reinitialize()`, the step size is the constructor's and the depth bound the default. -/

inductive HOp2 where
  | op (o : HOp)
  | retarget (t' : Target) (here : Bool)      -- `here`: `initial_point = current_point` before `reinitialize()`

def hApply2 (guard : PS → Bool) (ts : Target × HState) : HOp2 → Target × HState
  | .op o => (ts.1, hApply ts.1 guard ts.2 o)
  | .retarget t' here =>
    let s := ts.2
    let home := if here then s.x else s.home
    (t', { s with x := home, logd := t'.logd home, grad := t'.grad home, md := defaultDepth, eps := s.eps0, home := home })

def runHistory2 (guard : PS → Bool) : Target × HState → List HOp2 → List (Target × HState)
  | _, [] => []
  | ts, op :: ops =>
    let ts' := hApply2 guard ts op
    ts' :: runHistory2 guard ts' ops

end CuqiVerif.C08
