/-
  C07 model, part 5 — `Deconvolution1D(use_legacy=True)`: `_getCirculantMatrix` (`cuqi/testproblem/_testproblem.py`
  l. 416–475) and its refusals in `Deconvolution1D.__init__`; and the output shape of `_proj_forward_2D` for a
  user-supplied NON-SQUARE PSF.  Import-free, executable (driver ops `legacy`, `projshape`).

  Leaf data: the scalar profiles of the named legacy PSFs on the grid `k/dim`, `k = 0..dim/2`
  (`exp(-(p·g)²)`, `np.sinc(p·g)`, `(exp(cos 2πg)/e)^p`); the assembly (mirror extension, `np.roll`, `toeplitz`) is modelled.
-/
import CuqiVerif.Model.C07

namespace CuqiVerif.C07

section legacy
variable {R : Type} [Zero R] [One R] [Add R] [Mul R]

/-- named PSFs: `h = np.concatenate((h0, np.flipud(h0[1:-1])))` for `h0` on `k = 0..dim/2` -/
def legacyH (dim : Nat) (h0 : Nat → R) (k : Nat) : R := if k ≤ dim / 2 then h0 k else h0 (dim - k)

/-- custom PSF: `h = np.roll(PSF, -int(dim/2))` -/
def legacyHCustom (dim : Nat) (P : Nat → R) (k : Nat) : R := P ((k + dim / 2) % dim)

/-- `toeplitz(hflip, h)` with `hflip = (h[0], h[dim-1], …, h[1])`: first row `h`, entry `(i,j)` is `h[(j − i) mod dim]` -/
def circulant (dim : Nat) (h : Nat → R) : LMat R where
  rows := dim
  cols := dim
  e := fun i j => h ((j + dim - i) % dim)

end legacy

inductive LegacyKind | gauss | sinc | vonmises
  deriving DecidableEq, Repr

/-- names accepted by `_getCirculantMatrix` (after `.lower()`) -/
def legacyKind : String → Option LegacyKind
  | "gauss" => some .gauss | "sinc" => some .sinc | "prolate" => some .sinc | "vonmises" => some .vonmises | _ => none

/-- `Deconvolution1D(dim, PSF, use_legacy=True, BC, PSF_size)`: `none` = the constructor raises.
    `bc` is compared WITHOUT lower-casing (`if BC != "periodic"`); `PSF_size` must be `None`; `dim` must be even; a custom PSF
    must have length `dim`; `nameL` is the lower-cased name (`none`: a custom array of length `plen` is given). -/
def legacyMatrix (bc : String) (sizeGiven : Bool) (dim : Nat) (nameL : Option String) (plen : Nat) (v : Nat → Rat) :
    Option (LMat Rat) :=
  if bc ≠ "periodic" ∨ sizeGiven ∨ dim % 2 ≠ 0 then none else
  match nameL with
  | none => if plen ≠ dim then none else some (circulant dim (legacyHCustom dim v))
  | some nm => match legacyKind nm with
    | none => none
    | some _ => some (circulant dim (legacyH dim v))

/-- shape of `_proj_forward_2D(X, P, BC)` for an `n × n` image and an `s1 × s2` PSF: `S = max(P.shape)`, pad `S//2` on every
    side, `fftconvolve(…, 'valid')`, first row and column dropped when `S` is even -/
def projOutShape (n s1 s2 : Nat) : Nat × Nat :=
  let S := max s1 s2
  let t := if S % 2 = 0 then 1 else 0
  (n + 2 * (S / 2) + 1 - s1 - t, n + 2 * (S / 2) + 1 - s2 - t)

end CuqiVerif.C07
