/-
  C07 model, part 3 — a `LinearModel` as an OBJECT with state (`cuqi/model/_model.py`):
  `get_matrix()` of a function-backed model stores its result in `self._matrix` and returns the stored
  matrix from then on; `domain_geometry` / `range_geometry` are plain attributes that can be re-assigned;
  `T` copies `self._matrix.T` into the transposed model when the matrix exists.  The pure maps
  (`fwdPar`, `adjPar`, `tFwdPar`, `tAdjPar` of `Model/C07.lean`) are evaluated on the CURRENT geometries;
  the callables of a function-backed model never read the cache, those of a matrix-backed model read the
  stored matrix itself.  Import-free, executable (driver op `hist`).
-/
import CuqiVerif.Model.C07

namespace CuqiVerif.C07

/-- the object: the pure model (current callables / geometries) and `self._matrix` of a function-backed
    model (`none` until the first successful `get_matrix()`); for a matrix-backed model the stored matrix
    is `M.A` and `cache` is not used -/
structure Obj (R : Type) where
  M : LinModel R
  cache : Option (LMat R)

/-- state-changing operations of a history -/
inductive Op (R : Type) where
  | getMatrix : Op R
  | setDom : Geom R → Op R
  | setRng : Geom R → Op R

section obj
variable {R : Type} [Zero R] [One R] [Add R] [Mul R]

def Obj.fresh (M : LinModel R) : Obj R := { M := M, cache := none }

/-- does `get_matrix()` return (rather than raise) in this state?  A stored matrix is returned as is; else
    every `forward(e_i)` must evaluate (`shapesOk`) and must not be 0-d (`getMatrixOk`). -/
def Obj.getMatrixOk (o : Obj R) : Bool :=
  o.M.matrixBacked || o.cache.isSome || (o.M.shapesOk && o.M.getMatrixOk)

/-- what `get_matrix()` returns in this state (when `getMatrixOk`):
    `if self._matrix is not None: return self._matrix`, else the columns `forward(e_i)` -/
def Obj.getMatrixOut (o : Obj R) : LMat R :=
  if o.M.matrixBacked then o.M.A else
  match o.cache with
  | some C => C
  | none => columnsOf o.M.rng.parDim o.M.dom.parDim o.M.fwdPar

/-- one operation.  `get_matrix()` that raises leaves `self._matrix = None`. -/
def Obj.step (o : Obj R) : Op R → Obj R
  | .getMatrix => if o.M.matrixBacked || !o.getMatrixOk then o else { o with cache := some o.getMatrixOut }
  | .setDom g => { o with M := { o.M with dom := g } }
  | .setRng g => { o with M := { o.M with rng := g } }

/-- a history -/
def Obj.run (o : Obj R) : List (Op R) → Obj R
  | [] => o
  | op :: t => (o.step op).run t

/-- `self.T.get_matrix()` for `T` taken in this state: `transpose._matrix = self._matrix.T` when the matrix
    exists, else `T` assembles the columns of its own forward (the bound `self.adjoint`) -/
def Obj.tGetMatrixOut (o : Obj R) : LMat R :=
  if o.M.matrixBacked then o.M.A.transpose else
  match o.cache with
  | some C => C.transpose
  | none => columnsOf o.M.dom.parDim o.M.rng.parDim o.M.tFwdPar

/-- does `self.T.get_matrix()` return? -/
def Obj.tGetMatrixOk (o : Obj R) : Bool :=
  o.M.matrixBacked || o.cache.isSome || (o.M.shapesOk && o.M.tOk && o.M.tGetMatrixOk)

/-- sufficient condition on a history: no geometry is re-assigned once `get_matrix()` has been called
    (`cached` = "a `get_matrix()` may already have stored a matrix") -/
def safeFrom : Bool → List (Op R) → Bool
  | _, [] => true
  | _, .getMatrix :: t => safeFrom true t
  | cached, .setDom _ :: t => !cached && safeFrom cached t
  | cached, .setRng _ :: t => !cached && safeFrom cached t

end obj

end CuqiVerif.C07
