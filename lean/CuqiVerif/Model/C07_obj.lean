/-
  C07 model, part 3 — a `LinearModel` as an OBJECT with state (`cuqi/model/_model.py`):
  `get_matrix()` of a function-backed model stores its result in `self._matrix` and returns the stored
  matrix from then on; `domain_geometry` / `range_geometry` are plain attributes that can be re-assigned;
  `T` copies `self._matrix.T` into the transposed model when the matrix exists.  The pure maps
  (`fwdPar`, `adjPar`, `tFwdPar`, `tAdjPar` of `Model/C07.lean`) are evaluated on the CURRENT geometries;
  the callables of a function-backed model never read the cache, those of a matrix-backed model read the
  stored matrix itself.  Import-free, executable (driver op `hist`).
-/
import CuqiVerif.Model.C07

namespace CuqiVerif.C07

/-- the object: the pure model (current callables / geometries) and `self._matrix` of a function-backed
    model (`none` until the first successful `get_matrix()`); for a matrix-backed model the stored matrix
    is `M.A` and `cache` is not used -/
structure Obj (R : Type) where
  M : LinModel R
  cache : Option (LMat R)

/-- state-changing operations of a history -/
inductive Op (R : Type) where
  | getMatrix : Op R
  | setDom : Geom R → Op R
  | setRng : Geom R → Op R

section obj
variable {R : Type} [Zero R] [One R] [Add R] [Mul R]

def Obj.fresh (M : LinModel R) : Obj R := { M := M, cache := none }

/-- does `get_matrix()` return (rather than raise) in this state?  A stored matrix is returned as is; else
    every `forward(e_i)` must evaluate (`shapesOk`) and must not be 0-d (`getMatrixOk`). -/
def Obj.getMatrixOk (o : Obj R) : Bool :=
  o.M.matrixBacked || o.cache.isSome || (o.M.shapesOk && o.M.getMatrixOk)

/-- what `get_matrix()` returns in this state (when `getMatrixOk`):
    `if self._matrix is not None: return self._matrix`, else the columns `forward(e_i)` -/
def Obj.getMatrixOut (o : Obj R) : LMat R :=
  if o.M.matrixBacked then o.M.A else
  match o.cache with
  | some C => C
  | none => columnsOf o.M.rng.parDim o.M.dom.parDim o.M.fwdPar

/-- one operation.  `get_matrix()` that raises leaves `self._matrix = None`. -/
def Obj.step (o : Obj R) : Op R → Obj R
  | .getMatrix => if o.M.matrixBacked || !o.getMatrixOk then o else { o with cache := some o.getMatrixOut }
  | .setDom g => { o with M := { o.M with dom := g } }
  | .setRng g => { o with M := { o.M with rng := g } }

/-- a history -/
def Obj.run (o : Obj R) : List (Op R) → Obj R
  | [] => o
  | op :: t => (o.step op).run t

/-- `self.T.get_matrix()` for `T` taken in this state: `transpose._matrix = self._matrix.T` when the matrix
    exists, else `T` assembles the columns of its own forward (the bound `self.adjoint`) -/
def Obj.tGetMatrixOut (o : Obj R) : LMat R :=
  if o.M.matrixBacked then o.M.A.transpose else
  match o.cache with
  | some C => C.transpose
  | none => columnsOf o.M.dom.parDim o.M.rng.parDim o.M.tFwdPar

/-- does `self.T.get_matrix()` return? -/
def Obj.tGetMatrixOk (o : Obj R) : Bool :=
  o.M.matrixBacked || o.cache.isSome || (o.M.shapesOk && o.M.tOk && o.M.tGetMatrixOk)

/-- sufficient condition on a history: no geometry is re-assigned once `get_matrix()` has been called
    (`cached` = "a `get_matrix()` may already have stored a matrix") -/
def safeFrom : Bool → List (Op R) → Bool
  | _, [] => true
  | _, .getMatrix :: t => safeFrom true t
  | cached, .setDom _ :: t => !cached && safeFrom cached t
  | cached, .setRng _ :: t => !cached && safeFrom cached t

end obj

/-! ## a transposed model KEPT across later operations on its parent

`T = LinearModel(self.adjoint, self.forward, self.domain_geometry, self.range_geometry)`: the callables are the BOUND
methods of the parent (they follow the parent's current geometries / matrix), the geometry OBJECTS are those the parent had
when `T` was taken (`T.domain_geometry` = parent's range geometry then, `T.range_geometry` = parent's domain geometry then),
and `T._matrix` is the parent's matrix transposed if the parent had one then.  Modelled for re-assignments that keep the
SHAPE of the function values (then a reshaping geometry applied to something that already is a function value / a parameter
vector is a no-op: `Geom.reE` / `Geom.reF`). -/

structure TObj (R : Type) where
  /-- `T.domain_geometry`: the parent's range geometry when `T` was taken -/
  dom : Geom R
  /-- `T.range_geometry`: the parent's domain geometry when `T` was taken -/
  rng : Geom R
  /-- `T._matrix` -/
  cache : Option (LMat R)

section tobj
variable {R : Type} [Zero R] [One R] [Add R] [Mul R]

/-- `T = self.T` in state `o` -/
def Obj.takeT (o : Obj R) : TObj R :=
  { dom := o.M.rng, rng := o.M.dom,
    cache := if o.M.matrixBacked then some o.M.A.transpose else o.cache.map LMat.transpose }

/-- `T.forward(y)` with the parent in state `o`: `T.range.fun2par( parent.adjoint( T.domain.par2fun(y) ) )`, where
    `parent.adjoint(v) = D_now.fun2par( B( R_now.par2fun(v) ) )` -/
def TObj.fwdPar (t : TObj R) (o : Obj R) (y : Nat → R) : Nat → R :=
  t.rng.reF (o.M.dom.F.apply (o.M.B.apply (o.M.rng.reE (t.dom.E.apply y))))

/-- `T.adjoint(x)` with the parent in state `o` (through the bound `parent.forward`) -/
def TObj.adjPar (t : TObj R) (o : Obj R) (x : Nat → R) : Nat → R :=
  t.dom.reF (o.M.rng.F.apply (o.M.A.apply (o.M.dom.reE (t.rng.E.apply x))))

/-- `T.get_matrix()` with the parent in state `o` -/
def TObj.getMatrixOut (t : TObj R) (o : Obj R) : LMat R :=
  match t.cache with
  | some C => C
  | none => columnsOf t.rng.parDim t.dom.parDim (t.fwdPar o)

/-- does `T.forward` evaluate?  The parent's current range geometry is applied to a value that has the function size of
    the kept `T.domain_geometry` (a reshaping geometry passes it on, an expansion demands its parameter size); the kept
    `T.range_geometry` receives the parent's parameter vector. -/
def TObj.fwdOk (t : TObj R) (o : Obj R) : Bool :=
  o.M.shapesOk && t.dom.E.rows == t.dom.funDim && t.dom.E.cols == t.dom.parDim
    && (if o.M.rng.reshapeLike then t.dom.funDim == o.M.rng.funDim else t.dom.funDim == o.M.rng.parDim)
    && (t.rng.reshapeLike || t.rng.funDim == o.M.dom.parDim)

/-- does `T.adjoint` evaluate? -/
def TObj.adjOk (t : TObj R) (o : Obj R) : Bool :=
  o.M.shapesOk && t.rng.E.rows == t.rng.funDim && t.rng.E.cols == t.rng.parDim
    && (if o.M.dom.reshapeLike then t.rng.funDim == o.M.dom.funDim else t.rng.funDim == o.M.dom.parDim)
    && (t.dom.reshapeLike || t.dom.funDim == o.M.rng.parDim)

/-- length of `T.forward(y)`: a reshaping `T.range_geometry` hands the parent's parameter vector through -/
def TObj.fwdLen (t : TObj R) (o : Obj R) : Nat := if t.rng.reshapeLike then o.M.dom.parDim else t.rng.parDim

/-- length of `T.adjoint(x)` -/
def TObj.adjLen (t : TObj R) (o : Obj R) : Nat := if t.dom.reshapeLike then o.M.rng.parDim else t.dom.parDim

/-- does `T.get_matrix()` return?  A stored matrix is returned as is; else every column `T.forward(e_i)` must evaluate,
    have `T.range_dim` entries (`hstack`) and not be 0-d. -/
def TObj.getMatrixOk (t : TObj R) (o : Obj R) : Bool :=
  t.cache.isSome || (t.fwdOk o && t.fwdLen o == t.rng.parDim && !(t.rng.squeezes && t.rng.parDim == 1))

/-- object + optionally a kept transposed model -/
structure HState (R : Type) where
  o : Obj R
  t : Option (TObj R)

/-- operations of a history with a kept `T` -/
inductive HOp (R : Type) where
  | base : Op R → HOp R
  | takeT : HOp R

def HState.step (s : HState R) : HOp R → HState R
  | .base op => { s with o := s.o.step op }
  | .takeT => { s with t := some s.o.takeT }

def HState.run (s : HState R) : List (HOp R) → HState R
  | [] => s
  | op :: l => (s.step op).run l

end tobj

end CuqiVerif.C07
