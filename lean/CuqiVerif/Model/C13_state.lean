/-
  C13 model, part 2 — the two pieces of *derived state* the property anchors name, as objects with
  a history (`cuqi/geometry/_geometry.py`):

  * `KLExpansion`: the cached diagonal scalings `_coefs` / `_coefs_inverse`, "keyed" by their
    length (`len(self._coefs) != self.num_modes` ⇒ recompute), the effective `num_modes`
    (depends on the *current* grid), the `None` grid / zero modes branches, and the two maps
    reading the scalings through the cache (`par2fun` up to `idst(.)/2`, `fun2par` from
    `dst(2 f)` on; the transforms stay leaf data exactly as in `Model/C13.lean`).
  * `StepExpansion`: `_indices` is computed in `__init__` only; `par2fun`/`fun2par` use the stored
    index sets with the *current* grid length (`fun_shape` follows the grid setter, `_indices`
    does not) — the model reproduces this, including the `IndexError` for a shorter grid, the
    projection string handled by `.lower()` at call time and the empty result for `n_steps = 0`.

  Import-free (core Lean + `Model/C13.lean`), executable; run by `Driver/C13.lean` (`klhist`,
  `stephist`).
-/
import CuqiVerif.Model.C13
namespace CuqiVerif.C13

/-! ## KLExpansion as an object -/

structure KLObj where
  grid : Option Nat            -- `_grid`: `None`, or the number of nodes (only the count matters)
  numModes : Option Nat        -- `_num_modes` (no setter)
  law : Nat → Rat              -- `i ↦ 1/(i+1)^decay_rate` (`decay_rate` has no setter)
  τ : Rat                      -- `normalizer` (no setter)
  coefs : Option (List Rat)    -- diagonal of `_coefs`
  coefsInv : Option (List Rat) -- diagonal of `_coefs_inverse`

/-- `KLExpansion.__init__` -/
def KLObj.init (grid numModes : Option Nat) (law : Nat → Rat) (τ : Rat) : KLObj :=
  ⟨grid, numModes, law, τ, none, none⟩

/-- `KLExpansion.num_modes`: `grid_dim = fun_dim if fun_dim is not None else 0` -/
def KLObj.m (o : KLObj) : Nat := klNumModes o.numModes (o.grid.getD 0)

/-- `Continuous1D.grid` setter (`_create_dimension` decides the node count; nothing else is touched) -/
def KLObj.setGrid (o : KLObj) (g : Option Nat) : KLObj := { o with grid := g }

/-- is the cached list usable: `cache is not None and len(cache) == num_modes` -/
def cacheValid (c : Option (List Rat)) (m : Nat) : Bool :=
  match c with
  | some l => decide (l.length = m)
  | none => false

/-- `KLExpansion.coefs` (returns the diagonal, `none` for Python's `None`) and the object afterwards -/
def KLObj.getCoefs (o : KLObj) : Option (List Rat) × KLObj :=
  if o.m = 0 then (none, o) else
  if cacheValid o.coefs o.m then (o.coefs, o) else
  let l := (List.range o.m).map o.law
  (some l, { o with coefs := some l })

/-- `KLExpansion.coefs_inverse`; `none` = raises (`np.diag(None)` when `num_modes == 0`) -/
def KLObj.getCoefsInv (o : KLObj) : Option (List Rat) × KLObj :=
  if cacheValid o.coefsInv o.m then (o.coefsInv, o) else
  match o.getCoefs with
  | (none, o') => (none, o')
  | (some l, o') =>
    let li := l.map (fun c => c⁻¹)
    (some li, { o' with coefsInv := some li })

/-- `KLExpansion.par2fun` up to the transform: the padded modes `pad(coefs @ p / normalizer)`,
    shape `(N, ns)`; `none` = raises.  The shape test comes first (cache untouched on refusal). -/
def KLObj.par2funPre (o : KLObj) (x : Arr) : Option Arr × KLObj :=
  match batchOf o.m x with
  | none => (none, o)
  | some ns =>
    if o.m = 0 then (none, o) else      -- `reshape((0,-1))` raises
    match o.getCoefs, o.grid with
    | (some l, o'), some n =>
      (some ⟨[n, ns], fun t => if t / ns < o.m then lget l (t / ns) * x.get (t / ns * ns + t % ns) / o.τ else 0⟩, o')
    | (_, o'), _ => (none, o')

/-- `KLExpansion.fun2par` from `d = dst(2 f)` on (`fshape` = shape of the argument `f`, whose test
    against the *current* `fun_shape` comes first; `d` has shape `(N, ns)`):
    `coefs_inverse @ d[:m] * normalizer / (2 N)`, squeezed; `none` = raises. -/
def KLObj.fun2parPost (o : KLObj) (fshape : List Nat) (d : Arr) : Option Arr × KLObj :=
  match o.grid with
  | none => (none, o)                   -- `fun_shape` is `None`: the shape test fails
  | some n =>
    match batchOf n ⟨fshape, fun _ => 0⟩ with
    | none => (none, o)
    | some ns =>
      if n = 0 then (none, o) else      -- `reshape((0,-1))` raises
      match o.getCoefsInv with
      | (none, o') => (none, o')
      | (some li, o') =>
        if d.shape ≠ [n, ns] then (none, o') else
        (some (Arr.squeeze ⟨[o.m, ns], fun t => lget li (t / ns) * d.get (t / ns * ns + t % ns) * o.τ / (2 * (n : Rat))⟩), o')

/-- one use of the object through its public interface -/
inductive KLOp
  | setGrid (g : Option Nat)
  | coefs
  | coefsInv
  | par2fun (x : Arr)
  | fun2par (fshape : List Nat) (d : Arr)

def KLObj.step (o : KLObj) : KLOp → KLObj
  | .setGrid g => o.setGrid g
  | .coefs => o.getCoefs.2
  | .coefsInv => o.getCoefsInv.2
  | .par2fun x => (o.par2funPre x).2
  | .fun2par fs d => (o.fun2parPost fs d).2

def KLObj.run (o : KLObj) (ops : List KLOp) : KLObj := ops.foldl KLObj.step o

/-! ## StepExpansion as an object -/

/-- `self._fun2par_projection.lower()` compared with `'mean' / 'max' / 'min'` (at `fun2par` time) -/
def projOfString (s : String) : Option Proj :=
  let t := s.toLower
  if t = "mean" then some .mean else if t = "max" then some .max else if t = "min" then some .min else none

structure StepObj where
  grid : List Rat              -- current `_grid`
  s : Nat                      -- `_n_steps` (no setter)
  proj : Option Proj           -- `none`: a string that `fun2par` refuses
  indices : List (List Nat)    -- `_indices`, written by `__init__` only

/-- `StepExpansion.__init__` (`bounds`: the float interval ends as data, or `none` for exact ones) -/
def StepObj.init? (grid : List Rat) (bounds : Option (List Rat)) (s : Nat) (proj : Option Proj) : Option StepObj :=
  if stepAccepts (lget grid) grid.length s then
    some ⟨grid, s, proj, stepIndices (stepB grid bounds s) (lget grid) grid.length s⟩
  else none

/-- `Continuous1D.grid` setter: no regularity check, `_indices` kept -/
def StepObj.setGrid (o : StepObj) (g : List Rat) : StepObj := { o with grid := g }

def StepObj.idx (o : StepObj) (i : Nat) : List Nat := o.indices.getD i []

/-- `for i in range(n_steps): fun[indices[i]] = p[i]` read at node `k` (later steps overwrite) -/
def fillByIndices (idx : Nat → List Nat) (s : Nat) (p : Nat → Rat) (k : Nat) : Rat :=
  (List.range s).foldl (fun acc i => if (idx i).contains k then p i else acc) 0

/-- some stored index is outside the current grid: numpy raises `IndexError` -/
def StepObj.outOfRange (o : StepObj) : Bool :=
  (List.range o.s).any fun i => (o.idx i).any fun k => decide (o.grid.length ≤ k)

/-- `StepExpansion.par2fun` on the object -/
def StepObj.par2fun (o : StepObj) (x : Arr) : Option Arr :=
  match batchOf o.s x with
  | none => none
  | some ns =>
    if o.s = 0 then none else           -- `reshape((0,-1))` raises
    if o.outOfRange then none else
    some (Arr.squeeze ⟨[o.grid.length, ns],
      fun t => fillByIndices o.idx o.s (fun i => x.get (i * ns + t % ns)) (t / ns)⟩)

/-- `StepExpansion.fun2par` on the object (`"nan"`: a mean over no nodes; `"raise"`: the code raises) -/
def StepObj.fun2par (o : StepObj) (x : Arr) : Except String Arr :=
  let n := o.grid.length
  match batchOf n x with
  | none => .error "raise"
  | some ns =>
    if n = 0 then .error "raise" else   -- `reshape((0,-1))` raises
    if o.s = 0 then .ok (Arr.squeeze ⟨[0, ns], fun _ => 0⟩) else   -- the loop body never runs
    match o.proj with
    | none => .error "raise"            -- "Invalid projection option."
    | some pr =>
      if o.outOfRange then .error "raise" else
      if (List.range o.s).any (fun i => (o.idx i).isEmpty) then
        (if pr = .mean then .error "nan" else .error "raise")
      else
        .ok (Arr.squeeze ⟨[o.s, ns], fun t =>
          (project pr ((o.idx (t / ns)).map fun k => x.get (k * ns + t % ns))).getD 0⟩)

/-- reported shapes of the object: `par_shape`, `fun_shape` (the latter follows the grid) -/
def StepObj.parShape (o : StepObj) : List Nat := [o.s]
def StepObj.funShape (o : StepObj) : List Nat := [o.grid.length]

end CuqiVerif.C13
