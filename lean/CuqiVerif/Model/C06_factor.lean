/-
  C06 model, part 2 — how a `Gaussian` turns its matrix parameter into the square-root precision it
  hands to `LinearRTO` / `UGLA`:  `cuqi/distribution/_gaussian.py`
  `Gaussian.__init__` (exactly one of `cov`, `prec`, `sqrtcov`, `sqrtprec`), the four setters and
  `get_sqrtprec_from_cov / _prec / _sqrtcov / _sqrtprec` (dense input; the `dim ≤ MIN_DIM_SPARSE`
  variants of the full-matrix branches — for scalar / vector / diagonal input the `sparse_flag`
  variants hold the same numbers in `scipy.sparse` storage).

  Transcribed: the branch decision on the array as the code sees it after `force_ndarray`
  (`shape[0] == 1` → scalar, reading `ravel()[0]`; `shape[0] == size` → vector; square with
  `count_nonzero(x - diag(x.diagonal())) == 0` → diagonal; else full), the value of `sqrtprec` in
  every branch, and the refusals (`ValueError`: non-square, non-symmetric full `cov`/`prec`;
  `LinAlgError`: singular / not positive definite).

  Square roots and inverses are *checked oracles*: `rt a` may propose a root, `inv n P` an inverse;
  the model accepts `b` only after `b*b = a ∧ ¬ b < 0`, an inverse only after `P·C = C·P = I`, and
  the Cholesky factor only after `UᵀU = P` — so no assumption on the oracles enters the theorems
  (`Props/C06_factor.lean`).  Where the oracle delivers nothing (irrational root) the outcome is
  `irrational`: the driver then only reports the matrix the factor must square to.
  Import-free (core Lean) apart from `Model/C06.lean`.
-/
import CuqiVerif.Model.C06
namespace CuqiVerif.C06

inductive Branch | scalar | vector | diagonal | full
  deriving DecidableEq, Repr

inductive FacErr | valueError | linAlgError
  deriving DecidableEq, Repr

/-- A matrix parameter as a setter sees it after `force_ndarray`: 1-D of length `rows`
    (`twoD = false`, `cols = 1`, entries `a i 0`) or 2-D `rows × cols`.  A python number arrives as
    the `1 × 1` array `np.array(v).reshape((1,1))`. -/
structure Arr (R : Type) where
  twoD : Bool
  rows : Nat
  cols : Nat
  a : Mat R

def Arr.size {R : Type} (x : Arr R) : Nat := x.rows * x.cols

/-- outcome of a setter: the dense `sqrtprec` (`size × size`), or an exception class -/
inductive Fac (R : Type)
  | ok (b : Branch) (size : Nat) (L : Mat R)
  | irrational (b : Branch) (size : Nat)
  /-- an `(r, 1)` column (`r > 1`) is taken for a vector and `np.diag` then *extracts* a one-element
      1-D array: no exception, but no matrix either -/
  | flat1
  | err (e : FacErr)

/-- `Gaussian.__init__`: "Exactly one of 'cov', 'prec', 'sqrtcov', or 'sqrtprec' may be
    specified" (`ValueError`); with none given the mutable variable is `cov = None` and the object
    has no `sqrtprec` at all (`none`: `hasattr(dist, "sqrtprec")` is false, which
    `validate_target` turns into a `TypeError`). -/
def whichKind (cov prec sqrtcov sqrtprec : Bool) : Except FacErr (Option Kind) :=
  let cnt := cov.toNat + prec.toNat + sqrtprec.toNat + sqrtcov.toNat
  if cnt = 0 then .ok none
  else if cnt ≠ 1 then .error .valueError
  else if cov then .ok (some .cov)
  else if prec then .ok (some .prec)
  else if sqrtcov then .ok (some .sqrtcov)
  else .ok (some .sqrtprec)

section factor
variable {R : Type} [Zero R] [One R] [Add R] [Sub R] [Mul R] [Div R] [LT R]
  [DecidableEq R] [DecidableLT R]

/-- `np.count_nonzero(x - np.diag(x.diagonal())) == 0` for a square array -/
def Arr.isDiag (x : Arr R) : Bool :=
  (List.range x.rows).all fun i => (List.range x.cols).all fun j => i == j || x.a i j == 0

/-- the cascade of `if / elif` heads shared by the four `get_sqrtprec_from_*` (dense input).
    A non-square 2-D array that is neither a row nor a column raises `ValueError` in all four
    (`sqrtprec`: "must be square"; the others: the subtraction `x - np.diag(x.diagonal())` does
    not broadcast). -/
def branchOf (x : Arr R) : Except FacErr Branch :=
  if x.rows = 1 then .ok .scalar
  else if x.rows = x.size then .ok .vector
  else if x.rows ≠ x.cols then .error .valueError
  else if x.isDiag then .ok .diagonal
  else .ok .full

/-- a proposed square root is accepted only if it is one and is not negative (`np.sqrt`) -/
def rootChecked (rt : R → Option R) (a : R) : Option R :=
  match rt a with
  | some b => if b * b = a ∧ ¬ b < 0 then some b else none
  | none => none

def allLt (n : Nat) (p : Nat → Nat → Bool) : Bool :=
  (List.range n).all fun i => (List.range n).all fun j => p i j

/-- a proposed inverse is accepted only after the exact check `P·C = C·P = I` -/
def invChecked (inv : Nat → Mat R → Option (Mat R)) (n : Nat) (P : Mat R) : Option (Mat R) :=
  match inv n P with
  | some C =>
    let C := tabM n n C
    if allLt n (fun i j => mul n P C i j == ident i j && mul n C P i j == ident i j) then some C else none
  | none => none

/-- the diagonal entry of `sqrtprec` from the diagonal entry `v` of the parameter:
    `np.sqrt(1/var)`, `np.sqrt(precision)`, `1/std`, `stdinv` -/
def diagEntry (rt : R → Option R) (k : Kind) (v : R) : Option R :=
  match k with
  | .cov => if v = 0 then none else rootChecked rt (1 / v)
  | .prec => rootChecked rt v
  | .sqrtcov => if v = 0 then none else some (1 / v)
  | .sqrtprec => some v

/-- all diagonal entries, or `none` if one of them is not representable -/
def diagEntries (rt : R → Option R) (k : Kind) (v : Vec R) : Nat → Option (List R)
  | 0 => some []
  | n + 1 =>
    match diagEntries rt k v n, diagEntry rt k (v n) with
    | some l, some e => some (l ++ [e])
    | _, _ => none

/-- the scalar / vector / diagonal branches: `sqrtprec = diag(entries)` -/
def facDiag (rt : R → Option R) (k : Kind) (b : Branch) (size : Nat) (v : Vec R) : Fac R :=
  match diagEntries rt k v size with
  | some l => let a := l.toArray; .ok b size (diagM (ofArr a))
  | none => .irrational b size

inductive CholRes (R : Type)
  | ok (U : Mat R)
  | notPD
  | irrational

/-- rows `i, i+1, …` of the upper-triangular Cholesky factor given the rows above (as arrays);
    `fuel` = number of rows still to do.  `d ≤ 0` is LAPACK's "not positive definite". -/
def cholRows (rt : R → Option R) (n : Nat) (P : Mat R) : Nat → Nat → Array (Array R) → Option (Option (Array (Array R)))
  | 0, _, rows => some (some rows)
  | fuel + 1, i, rows =>
    let U := ofRows rows
    let d := P i i - sumTo i fun k => U k i * U k i
    if ¬ 0 < d then none else
    match rootChecked rt d with
    | none => some none
    | some u =>
      let row := Array.ofFn (n := n) fun j =>
        if j.val < i then 0 else if j.val = i then u else (P i j.val - sumTo i fun k => U k i * U k j.val) / u
      cholRows rt n P fuel (i + 1) (rows.push row)

/-- `np.linalg.cholesky(P).T`: the upper-triangular `U` with `UᵀU = P`; the result of the recursion
    is accepted only after the exact check of that relation -/
def cholUpper (rt : R → Option R) (n : Nat) (P : Mat R) : CholRes R :=
  match cholRows rt n P n 0 #[] with
  | none => .notPD
  | some none => .irrational
  | some (some rows) =>
    let U := ofRows rows
    if allLt n (fun i j => gram n U i j == P i j) then .ok U else .irrational

def symmetricArr (n : Nat) (A : Mat R) : Bool := allLt n fun i j => A i j == A j i

def facChol (rt : R → Option R) (n : Nat) (P : Mat R) : Fac R :=
  match cholUpper rt n P with
  | .ok U => .ok .full n U
  | .notPD => .err .linAlgError
  | .irrational => .irrational .full n

/-- the full-matrix branches for dense input, `dim ≤ MIN_DIM_SPARSE`:
    `cov`: symmetric or `ValueError`, `prec = inv(cov)`, `sqrtprec = cholesky(prec).T`;
    `prec`: symmetric or `ValueError`, `cholesky(prec).T`;
    `sqrtcov`: `cov = sqrtcov @ sqrtcov.T` (sic), then as `cov` without the symmetry test;
    `sqrtprec`: kept as given. -/
def facFull (rt : R → Option R) (inv : Nat → Mat R → Option (Mat R)) (k : Kind) (n : Nat) (A : Mat R) : Fac R :=
  match k with
  | .cov =>
    if ¬ symmetricArr n A then .err .valueError else
    match invChecked inv n A with
    | none => .err .linAlgError
    | some C => facChol rt n C
  | .prec => if ¬ symmetricArr n A then .err .valueError else facChol rt n A
  | .sqrtcov =>
    let S := tabM n n (mul n A (tr A))
    match invChecked inv n S with
    | none => .err .linAlgError
    | some C => facChol rt n C
  | .sqrtprec => .ok .full n A

/-- `Gaussian.<kind> = value` for a distribution of dimension `dim`: the `sqrtprec` it stores. -/
def sqrtprecOf (rt : R → Option R) (inv : Nat → Mat R → Option (Mat R)) (dim : Nat) (k : Kind) (x : Arr R) : Fac R :=
  match branchOf x with
  | .error e => .err e
  | .ok .scalar =>
    -- `get_sqrtprec_from_sqrtprec` alone does not read `ravel()[0]` but `np.ones(dim)*sqrtprec.flatten()`:
    -- a `(1, c)` row with `c > 1` broadcasts to a diagonal when `c = dim` and raises otherwise
    if k = .sqrtprec ∧ x.cols ≠ 1 then
      (if x.cols = dim then facDiag rt k .scalar dim (fun j => x.a 0 j) else .err .valueError)
    else facDiag rt k .scalar dim (fun _ => x.a 0 0)
  | .ok .vector => if x.twoD then .flat1 else facDiag rt k .vector x.rows (fun i => x.a i 0)
  | .ok .diagonal => facDiag rt k .diagonal x.rows (fun i => x.a i i)
  | .ok .full => facFull rt inv k x.rows x.a

/-- the `Shape` (of `Model/C06.lean`) a parameter is read as in the given branch: a `1 × c` row is
    read as its first entry, except by `get_sqrtprec_from_sqrtprec`, which reads it as a vector -/
def Arr.shapeIn (x : Arr R) (k : Kind) : Branch → Shape R
  | .scalar => if k = .sqrtprec ∧ x.cols ≠ 1 then .vector (fun j => x.a 0 j) else .scalar (x.a 0 0)
  | .vector => .vector (fun i => x.a i 0)
  | _ => .matrix x.a

end factor

end CuqiVerif.C06

/-! ## scipy.sparse storage: which branch each format takes (second pass) -/
namespace CuqiVerif.C06

/-- how the 2-D parameter is stored when it reaches the setter -/
inductive Storage | dense | dia | csr | csc | coo | bsr | lil
  deriving DecidableEq, Repr

/-- the code path of `get_sqrtprec_from_<kind>` for a square 2-D parameter with ≥ 2 rows -/
inductive Path
  /-- `count_nonzero(x − diag(x.diagonal())) == 0`: `np.diag(...)` of the transformed diagonal (dense result, also for sparse input) -/
  | diagBranch
  /-- dense full matrix: symmetry test, `inv`, `cholesky(...).T` (`facFull`) -/
  | denseFull
  /-- sparse full `cov` / `prec` / `sqrtcov` (no cholmod): NO symmetry test; `spa.linalg.inv` + `sparse_cholesky`,
      `sparse_cholesky`, `spa.linalg.inv(sqrtcov)` -/
  | sparseFull
  /-- `sqrtprec` stored in DIA format: `isspmatrix_dia` is tested BEFORE diagonality and only looks at the
      format — the matrix is kept as given, off-diagonal bands included -/
  | keptDia
  /-- sparse (non-DIA) diagonal `sqrtprec`: kept as given -/
  | keptDiagonal
  /-- sparse (non-DIA) full `sqrtprec`: kept as given -/
  | keptFull
  deriving DecidableEq, Repr

/-- the dispatch table -/
def storedPath (k : Kind) (st : Storage) (isDiag : Bool) : Path :=
  match st with
  | .dense => if isDiag then .diagBranch else .denseFull
  | _ =>
    match k with
    | .sqrtprec => if st = .dia then .keptDia else if isDiag then .keptDiagonal else .keptFull
    | _ => if isDiag then .diagBranch else .sparseFull

/-- is the stored `sqrtprec` a scipy.sparse matrix? -/
def Path.resultSparse : Path → Bool
  | .diagBranch | .denseFull => false
  | _ => true

section stored
variable {R : Type} [Zero R] [One R] [Add R] [Sub R] [Mul R] [Div R] [LT R]
  [DecidableEq R] [DecidableLT R]

/-- the sparse full branches (no cholmod) -/
def facFullSparse (rt : R → Option R) (inv : Nat → Mat R → Option (Mat R)) (k : Kind) (n : Nat) (A : Mat R) : Fac R :=
  match k with
  | .cov =>
    match invChecked inv n A with
    | none => .err .linAlgError
    | some C => facChol rt n C
  | .prec => facChol rt n A
  | .sqrtcov =>
    match invChecked inv n A with
    | none => .err .linAlgError
    | some C => .ok .full n C
  | .sqrtprec => .ok .full n A

/-- `Gaussian.<kind> = value` for a value in the given storage (dense: `sqrtprecOf`; sparse: square with at
    least two rows — a `1 × 1` sparse matrix is outside the model, a non-square one raises `ValueError`) -/
def sqrtprecOfStored (rt : R → Option R) (inv : Nat → Mat R → Option (Mat R)) (dim : Nat) (k : Kind)
    (st : Storage) (x : Arr R) : Fac R :=
  if st = .dense then sqrtprecOf rt inv dim k x
  else if x.rows ≠ x.cols ∨ x.rows < 2 then .err .valueError
  else
    match storedPath k st x.isDiag with
    | .diagBranch => facDiag rt k .diagonal x.rows (fun i => x.a i i)
    | .denseFull => facFull rt inv k x.rows x.a
    | .sparseFull => facFullSparse rt inv k x.rows x.a
    | .keptDia | .keptDiagonal | .keptFull => .ok .full x.rows x.a

end stored
end CuqiVerif.C06
