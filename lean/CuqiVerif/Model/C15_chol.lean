import CuqiVerif.Model.C15_gauss
/-
  C15 model, part 4 — `L = np.linalg.cholesky(C)` in `BayesianProblem._sampleMapCholesky` (l.554).

  The Cholesky factor has irrational entries; it is represented exactly by its rational **LDLᵀ form**
  `L = Lu · diag(√d)` (`Lu` unit lower triangular, `d > 0`), which every lower-triangular factor with positive
  diagonal has, uniquely.  The factorisation itself is an untrusted oracle (`Factoriser`; the driver runs the
  textbook LDLᵀ recursion over ℚ); its answer is accepted only with the certificate
  `Lu unit lower triangular ∧ d > 0 ∧ Lu·diag(d)·Luᵀ = C` (checked exactly).  No certified answer =
  `LinAlgError("Matrix is not positive definite")`.
-/
namespace CuqiVerif.C15

/-- untrusted LDLᵀ factoriser -/
abbrev Factoriser (R : Type) := Nat → (Nat → Nat → R) → Option ((Nat → Nat → R) × (Nat → R))

section chol
variable {R : Type} [Zero R] [One R] [Add R] [Mul R] [DecidableEq R] [LT R] [DecidableLT R]

/-- the certificate of an LDLᵀ factorisation of the `n×n` matrix `C` -/
def ldlCert (n : Nat) (C Lu : Nat → Nat → R) (d : Nat → R) : Bool :=
  allLt n fun i =>
    decide (Lu i i = 1) && decide (0 < d i) &&
    allLt n fun j =>
      (decide (j ≤ i) || decide (Lu i j = 0)) &&
      decide (sumTo n (fun k => Lu i k * d k * Lu j k) = C i j)

/-- `np.linalg.cholesky(C)` for a square 2-D array: the factor in LDLᵀ form, or `LinAlgError` -/
def choleskyLDL (fac : Factoriser R) (n : Nat) (C : Nat → Nat → R) : Except Err ((Nat → Nat → R) × (Nat → R)) :=
  match fac n C with
  | none => .error .linAlgError
  | some (Lu, d) => if ldlCert n C Lu d then .ok (Lu, d) else .error .linAlgError

end chol
end CuqiVerif.C15
