/-
  C06 model, part 4 — the weights of UGLA's local Gaussian approximation,
  `Lk_fun(x_k)`: `dd = 1/np.sqrt((D @ x_k)**2 + beta)`, `W = diags(dd)`, `W.sqrt() @ D`
  (`cuqi/experimental/mcmc/_laplace_approximation.py` `_precompute`, legacy `_sample`).
  The leaf vector `U.w = sqrt(dd)` of `Model/C06.lean` is irrational in general; what defines it is
  `w ≥ 0` and `w⁴ · ((D x_k)ᵢ² + β) = 1`.  `weightResidual` is the exact defect of that relation, which
  the driver reports for the weights the implementation actually used.
-/
import CuqiVerif.Model.C06
namespace CuqiVerif.C06

section
variable {R : Type} [Zero R] [One R] [Add R] [Sub R] [Mul R]

/-- `w⁴ · ((D x_k)ᵢ² + β) − 1` -/
def Ugla.weightResidual (U : Ugla R) (beta : R) (xk : Vec R) (i : Nat) : R :=
  let t := mulVec U.n U.D xk i
  U.w i * U.w i * (U.w i * U.w i) * (t * t + beta) - 1

end
end CuqiVerif.C06
