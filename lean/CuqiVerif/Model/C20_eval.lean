/-
  C20 model, part 3 — the glue around the stencils and the evaluation code built on them.

  (1) constructor glue of `FirstOrderFiniteDifference` / `SecondOrderFiniteDifference` /
      `PrecisionFiniteDifference` (`cuqi/operator/_operator.py`): parsing of `num_nodes`, the `dx`
      default and its 2-D refusal, the boundary-condition dispatch with its refusals (unknown name,
      sizes on which numpy / scipy raise while the stencil is built), the division by `dx` / `dx²`
      as an exact rational matrix, the `order` dispatch of the precision operator;
  (2) geometry → `num_nodes` in `GMRF/LMRF/CMRF.__init__` (`fun_shape`, `N = int(sqrt(dim))`), the
      rank GMRF declares per `bc_type` string;
  (3) `LMRF.logpdf`, `CMRF.logpdf`, `CMRF._gradient`, `GMRF.logpdf`, `GMRF._gradient`, including the
      numpy broadcasting of `x - location` (scalar location = array of length 1).  Logarithms cannot
      be computed exactly, so a log-density is returned as a `LogForm`
          const + piCoef·log π + Σ cᵢ·log aᵢ          (all of const, piCoef, cᵢ, aᵢ rational)
      which the harness evaluates in floating point and `Props/C20_eval.lean` evaluates over ℝ.

  Import-free apart from the first model file; executable.  Existing definitions are unchanged.
-/
import CuqiVerif.Model.C20
namespace CuqiVerif.C20

/-! ### 1. constructor glue -/

/-- what a caller can hand over as `num_nodes` -/
inductive NodesArg
  | int (n : Int)            -- a python int / numpy integer
  | tuple (ns : List Int)    -- a tuple all of whose elements are ints
  | other                    -- anything else (float, list, tuple holding a non-int, …)
  deriving Repr

/-- why a constructor refuses (python exception class) -/
inductive Refusal
  | value            -- ValueError
  | notImplemented   -- NotImplementedError
  | index            -- IndexError (a boundary patch addresses an entry outside a degenerate matrix)
  | zeroDivision     -- ZeroDivisionError (`Dmat / 0`)
  deriving DecidableEq, Repr

def Refusal.name : Refusal → String
  | .value => "ValueError" | .notImplemented => "NotImplementedError"
  | .index => "IndexError" | .zeroDivision => "ZeroDivisionError"

/-- `FirstOrderFiniteDifference.__init__`, the `num_nodes` part: `(physical_dim, N)`. -/
def resolveNodes : NodesArg → Except Refusal (Nat × Int)
  | .int n => .ok (1, n)
  | .tuple [n] => .ok (1, n)
  | .tuple [a, b] => if a ≠ b then .error .notImplemented else .ok (2, a)
  | _ => .error .value

/-- the `dx` part: `None → 1`, 1-D → `dx`, 2-D → `NotImplementedError`. -/
def resolveDx (pd : Nat) : Option Rat → Except Refusal Rat
  | none => .ok 1
  | some dx => if pd = 1 then .ok dx else .error .notImplemented

/-- `FirstOrderFiniteDifference._create_diff_matrix`, 1-D stencil, with the refusals of
    `np.ones(N)` (`N < 0`), `spdiags` (negative shape) and the patches (index outside the matrix). -/
def firstStencil (bc : String) (N : Int) : Except Refusal FMat :=
  if N < 0 then .error .value else
  match BC.ofString bc with
  | some .zero => .ok (firstOrder .zero N.toNat)
  | some .periodic => if N = 0 then .error .index else .ok (firstOrder .periodic N.toNat)
  | some .neumann => if N = 0 then .error .value else .ok (firstOrder .neumann N.toNat)
  | some .backward => if N = 0 then .error .index else .ok (firstOrder .backward N.toNat)
  | some .none => .ok (firstOrder .none N.toNat)
  | Option.none => .error .value

/-- `SecondOrderFiniteDifference._create_diff_matrix`, 1-D stencil, with its refusals. -/
def secondStencil (bc : String) (N : Int) : Except Refusal FMat :=
  if N < 0 then .error .value else
  match BC.ofString bc with
  | some .zero => .ok (secondOrder .zero N.toNat)
  | some .periodic => if N < 2 then .error .index else .ok (secondOrder .periodic N.toNat)
  | some .neumann => if N < 2 then .error .value else .ok (secondOrder .neumann N.toNat)
  | _ => .error .value

/-- a matrix with rational entries (shape + entry function, like `FMat`) -/
structure QFMat where
  rows : Nat
  cols : Nat
  e : Nat → Nat → Rat

/-- `Dmat / s` -/
def FMat.scale (M : FMat) (s : Rat) : QFMat where
  rows := M.rows
  cols := M.cols
  e := fun i j => (M.e i j : Rat) / s

def QFMat.toList (M : QFMat) : List (List Rat) :=
  (List.range M.rows).map (fun i => (List.range M.cols).map (fun j => M.e i j))

/-- the "structure matrix" part: 1-D `Dmat / s` (`s = dx` or `dx²`), 2-D the Kronecker stacking. -/
def assemble (pd : Nat) (N : Int) (D : FMat) (s : Rat) : Except Refusal QFMat :=
  if pd = 1 then (if s = 0 then .error .zeroDivision else .ok (D.scale s))
  else .ok ((lift2D D N.toNat).scale 1)

/-- `FirstOrderFiniteDifference(num_nodes, bc_type, dx)` → `get_matrix()` -/
def firstCtor (nodes : NodesArg) (bc : String) (dx : Option Rat) : Except Refusal QFMat := do
  let (pd, N) ← resolveNodes nodes
  let s ← resolveDx pd dx
  let D ← firstStencil bc N
  assemble pd N D s

/-- `SecondOrderFiniteDifference(num_nodes, bc_type, dx)` → `get_matrix()` -/
def secondCtor (nodes : NodesArg) (bc : String) (dx : Option Rat) : Except Refusal QFMat := do
  let (pd, N) ← resolveNodes nodes
  let s ← resolveDx pd dx
  let D ← secondStencil bc N
  assemble pd N D (s * s)

/-- the integer operator a constructor without `dx` builds (1-D stencil or its 2-D stacking) -/
def intOp (second : Bool) (nodes : NodesArg) (bc : String) : Except Refusal FMat := do
  let (pd, N) ← resolveNodes nodes
  let D ← if second then secondStencil bc N else firstStencil bc N
  if pd = 1 then .ok D else .ok (lift2D D N.toNat)

/-- `PrecisionFiniteDifference(num_nodes, bc_type, order)` → `get_matrix()`: the `order` dispatch
    (`order == 0` uses the `"none"` first-order operator whatever `bc_type` says), then `DᵀD`. -/
def precDiffOp (nodes : NodesArg) (bc : String) (order : Int) : Except Refusal FMat :=
  if order = 0 then intOp false nodes "none"
  else if order = 1 then intOp false nodes bc
  else if order = 2 then intOp true nodes bc
  else .error .notImplemented

def precCtor (nodes : NodesArg) (bc : String) (order : Int) : Except Refusal FMat := do
  let D ← precDiffOp nodes bc order
  .ok (gram D)

/-! ### 2. the distributions' constructor glue -/

/-- `GMRF/LMRF/CMRF.__init__`: `geometry.fun_shape` (`None` = `none`) → the `num_nodes` handed to the
    operator: 1-D `dim`, 2-D `(N, N)` with `N = int(sqrt(dim))`; refusal for a missing / empty shape,
    parameter dimension 1, or more than two physical dimensions. -/
def mrfNodes (funShape : Option (List Nat)) : Except Refusal NodesArg :=
  match funShape with
  | Option.none => .error .value
  | some sh =>
    let dim : Nat := sh.foldl (fun a b => a * b) 1
    if sh.isEmpty || dim == 1 then .error .value
    else if sh.length = 1 then .ok (.int (dim : Int))
    else if sh.length = 2 then .ok (.tuple [(Nat.sqrt dim : Int), (Nat.sqrt dim : Int)])
    else .error .value

/-- `GMRF.__init__`: `self._rank` by the raw `bc_type` string (after the operator has been built). -/
def gmrfRank (bc : String) (dim : Nat) : Except Refusal Nat :=
  if bc = "zero" then .ok dim
  else if bc = "periodic" ∨ bc = "neumann" then .ok (dim - 1)
  else .error .value

/-! ### 3. evaluation -/

/-- numpy broadcasting of two 1-D arrays of lengths `nx`, `nl`: the result length, if defined -/
def bshiftLen (nx nl : Nat) : Option Nat :=
  if nx = nl then some nx else if nl = 1 then some nx else if nx = 1 then some nl else Option.none

/-- `x - location` with numpy broadcasting (an array of length 1 is repeated) -/
def bshift (nx : Nat) (x : Nat → Rat) (nl : Nat) (l : Nat → Rat) : Nat → Rat :=
  fun j => x (if nx = 1 then 0 else j) - l (if nl = 1 then 0 else j)

/-- `M @ v` over the rationals -/
def applyQ (M : FMat) (v : Nat → Rat) (i : Nat) : Rat :=
  (List.range M.cols).foldl (fun acc j => acc + (M.e i j : Rat) * v j) 0

def sumRange (n : Nat) (f : Nat → Rat) : Rat := (List.range n).foldl (fun acc k => acc + f k) 0

def absQ (r : Rat) : Rat := if r < 0 then -r else r

/-- `const + piCoef·log π + Σ c·log a` over the pairs `(c, a)` of `logs` -/
structure LogForm where
  const : Rat
  piCoef : Rat
  logs : List (Rat × Rat)

/-- `LMRF.logpdf`: `len(Dx)*(-(log 2 + log scale)) - ‖Dx‖₁/scale`, `d = x - location`. -/
def lmrfForm (D : FMat) (scale : Rat) (d : Nat → Rat) : LogForm where
  const := -(sumRange D.rows (fun k => absQ (applyQ D d k)) / scale)
  piCoef := 0
  logs := [(-(D.rows : Rat), 2), (-(D.rows : Rat), scale)]

/-- `CMRF.logpdf`: `-len(Dx)*log π + Σ_k (log scale - log(Dx_k² + scale²))`, `d = x - location`. -/
def cmrfForm (D : FMat) (scale : Rat) (d : Nat → Rat) : LogForm where
  const := 0
  piCoef := -(D.rows : Rat)
  logs := ((D.rows : Rat), scale) ::
    (List.range D.rows).map (fun k => ((-1 : Rat), applyQ D d k * applyQ D d k + scale * scale))

/-- `CMRF._gradient`: `(-2*diff/(diff² + scale²)) @ D`, `diff = D @ (val - location)`. -/
def cmrfGrad (D : FMat) (scale : Rat) (d : Nat → Rat) (j : Nat) : Rat :=
  sumRange D.rows (fun k =>
    (-2 * applyQ D d k / (applyQ D d k * applyQ D d k + scale * scale)) * (D.e k j : Rat))

/-- `(x-mean).T @ (P @ (x-mean))` with `P = DᵀD` the precision operator's matrix -/
def gmrfQuad (D : FMat) (d : Nat → Rat) : Rat :=
  sumRange D.cols (fun i => d i * applyQ (gram D) d i)

/-- `GMRF.logpdf` without the `0.5*_logdet` term:
    `0.5*rank*(log prec - log 2π) - 0.5*prec*(x-mean)ᵀP(x-mean)`. -/
def gmrfForm (D : FMat) (rank : Nat) (prec : Rat) (d : Nat → Rat) : LogForm where
  const := -(1 / 2) * (prec * gmrfQuad D d)
  piCoef := -((rank : Rat) / 2)
  logs := [((rank : Rat) / 2, prec), (-((rank : Rat) / 2), 2)]

/-- `GMRF._gradient`: `-(prec*P) @ (x - mean)`. -/
def gmrfGrad (D : FMat) (prec : Rat) (d : Nat → Rat) (j : Nat) : Rat :=
  -(prec * applyQ (gram D) d j)

end CuqiVerif.C20
