import CuqiVerif.Model.C14

/-
  C14 model, part 2 — the inside of `HybridGibbs` (`cuqi/experimental/mcmc/_gibbs.py`).

  `Model/C14.lean` treats a Gibbs sweep as an opaque function.  Here the sweep itself is
  transcribed: `HybridGibbs.step` walks over the parameters and, for each one,
    `_set_target(par)`                          (condition the joint on the *current* values of the others)
    `state = get_state(); hist = get_history()` (NUTS: `initial_point = current_point` instead)
    `reinitialize()`
    `set_state(state); set_history(hist)`       (not for NUTS)
    `_pre_warmup(); _pre_sample()`
    `num_sampling_steps[par]` times: `acc = step(); _acc.append(acc)`
    `current_samples[par] = current_point.reshape(-1)`
  on block samplers that are objects of the stateful interface of `Model/C14.lean` (`Spec`/`Run`),
  using that file's `getState`, `setState`, `reinitialize`.  Also transcribed: the constructor's
  `_initialize` (`_get_initial_points` with the default `ones(dim)`, `_set_targets`,
  `_initialize_samplers` — `initialize()` refuses an already initialised sampler —, the pre-methods),
  `HybridGibbs.tune`, `sample`, `warmup`, `_store_samples`, and `get_history`/`set_history` of `Sampler`.
  `sample`/`warmup` are `iterStore`/`gibbsWarmLoop` of `Model/C14.lean` at this concrete sweep.

  Representation choices: parameters are positions in `par_names` order; the stored chain is the
  list of rows `[current_samples[p] for p in par_names]` (the code keeps one list per parameter and
  appends to every one of them in `_store_samples` — the transpose); the one random stream is
  threaded through the blocks (`Run.stream` of a block is not used); the callback of a block
  sampler is never invoked by `HybridGibbs` (it calls `step` directly), so `events` stay as they are.
  Import-free and executable.
-/
namespace CuqiVerif.C14

/-! ## history API of `Sampler` -/

/-- `get_history()['history']` (`_HISTORY_KEYS = {_samples, _acc}`) -/
def getHistory {D A : Type} (r : Run D A) : List Val × List A := (r.samples, r.acc)

/-- `set_history(h)` for a dictionary produced by `get_history` of the same class -/
def setHistory {D A : Type} (h : List Val × List A) (r : Run D A) : Run D A :=
  { r with samples := h.1, acc := h.2 }

/-! ## blocks -/

/-- one entry of `sampling_strategy` with what `HybridGibbs` knows about it -/
structure Block (D A : Type) where
  spec : Spec D A
  /-- `isinstance(sampler, NUTS)` -/
  nutsLike : Bool
  /-- `num_sampling_steps[par_name]` -/
  nsteps : Nat
  /-- `target.get_density(par_name).dim` (used for the default initial point) -/
  dim : Nat

/-- the mutable part of a `HybridGibbs` object: the block samplers and `current_samples` -/
structure HGS (D A : Type) where
  runs : List (Run D A)
  cur : List Val

/-- `{p: current_samples[p] for p in par_names if p != par_name}`, flattened in `par_names` order -/
def condParams (cur : List Val) (i : Nat) : Val := .ints ((cur.eraseIdx i).flatMap getInts)

/-- `_set_target(par_name)`: `samplers[par_name].target = target(**conditional_params)` -/
def setTarget {D A : Type} (cur : List Val) (i : Nat) (r : Run D A) : Run D A :=
  { r with obj := r.obj.set "target" (condParams cur i) }

/-- the re-initialisation protocol of `HybridGibbs.step` for one block -/
def blockRefresh {D A : Type} (b : Block D A) (r : Run D A) : Run D A :=
  if b.nutsLike then
    reinitialize b.spec { r with obj := r.obj.set "initial_point" (point r.obj) }
  else
    let st := getState b.spec.stateKeys r.obj
    let h := getHistory r
    let r' := reinitialize b.spec r
    setHistory h { r' with obj := (setState b.spec.stateKeys st r'.obj).getD r'.obj }

/-- `_pre_warmup_and_pre_sample_sampler` -/
def preBoth {D A : Type} (sp : Spec D A) (r : Run D A) : Run D A :=
  { r with obj := sp.preSample (sp.preWarmup r.obj) }

/-- `for _ in range(num_sampling_steps[par]): acc = sampler.step(); sampler._acc.append(acc)` -/
def blockSteps {D A : Type} (sp : Spec D A) : Nat → Run D A → List D → Run D A × List D
  | 0, r, ds => (r, ds)
  | k + 1, r, ds =>
    let res := sp.step r.obj ds
    blockSteps sp k { r with obj := res.1, acc := r.acc ++ [res.2.1] } res.2.2

/-- body of the `for par_name in self.par_names` loop of `HybridGibbs.step` -/
def hgBlock {D A : Type} (b : Block D A) (i : Nat) (s : HGS D A) (ds : List D) : HGS D A × List D :=
  match s.runs[i]? with
  | none => (s, ds)
  | some r =>
    let r1 := preBoth b.spec (blockRefresh b (setTarget s.cur i r))
    let res := blockSteps b.spec b.nsteps r1 ds
    ({ runs := s.runs.set i res.1, cur := s.cur.set i (point res.1.obj) }, res.2)

def hgSweepFrom {D A : Type} : Nat → List (Block D A) → HGS D A → List D → HGS D A × List D
  | _, [], s, ds => (s, ds)
  | i, b :: bs, s, ds =>
    let res := hgBlock b i s ds
    hgSweepFrom (i + 1) bs res.1 res.2

/-- `HybridGibbs.step` followed by what `_store_samples` will record -/
def hgSweep {D A : Type} (bs : List (Block D A)) (s : HGS D A) (ds : List D) : HGS D A × List Val × List D :=
  let res := hgSweepFrom 0 bs s ds
  (res.1, res.1.cur, res.2)

/-- `HybridGibbs.tune`: `samplers[p].tune(skip_len, update_count)` for every parameter -/
def hgTune {D A : Type} (bs : List (Block D A)) (s : HGS D A) (ti cnt : Nat) : HGS D A :=
  { s with runs := List.zipWith (fun b r => { r with obj := b.spec.tune r.obj r.acc ti cnt }) bs s.runs }

/-- `HybridGibbs.sample(Ns)`; state = (object, stored rows, random stream) -/
def hgSample {D A : Type} (bs : List (Block D A)) (n : Nat)
    (st : HGS D A × List (List Val) × List D) : HGS D A × List (List Val) × List D :=
  iterStore (hgSweep bs) n st

/-- `HybridGibbs.warmup(Nb, tune_freq)`; the last component is the ghost log of the `tune` calls -/
def hgWarmup {D A : Type} (bs : List (Block D A)) (nb : Nat) (tf : Rat)
    (st : HGS D A × List (List Val) × List D × List (Nat × Nat × Nat)) :
    HGS D A × List (List Val) × List D × List (Nat × Nat × Nat) :=
  gibbsWarmLoop (hgSweep bs) (hgTune bs) (tuneInterval tf nb) nb 0 st

/-- `zip` with the position, as `for i, … in enumerate(…)` -/
def withIdx {α : Type} : Nat → List α → List (Nat × α)
  | _, [] => []
  | i, a :: as => (i, a) :: withIdx (i + 1) as

/-- `HybridGibbs.__init__` → `_initialize()`: default initial points, `_set_targets`,
    `_initialize_samplers` (`none` = `ValueError("Sampler is already initialized.")`), pre-methods. -/
def hgInit {D A : Type} (bs : List (Block D A)) (rs : List (Run D A)) : Option (HGS D A) :=
  let rs1 := List.zipWith (fun (b : Block D A) (r : Run D A) =>
    if r.obj.get "initial_point" = Val.none then { r with obj := r.obj.set "initial_point" (.ints (List.replicate b.dim 1)) } else r) bs rs
  let cur := rs1.map (fun r => r.obj.get "initial_point")
  let rs2 := (withIdx 0 rs1).map (fun ir => setTarget cur ir.1 ir.2)
  if rs2.any (fun r => r.initialized) then Option.none
  else some { runs := List.zipWith (fun (b : Block D A) r => preBoth b.spec (initializeRun b.spec r)) bs rs2, cur := cur }

/-! ### executable block class run by the driver -/

def sumInts (v : List Int) : Int := v.foldl (· + ·) 0

/-- The harness' `ToyBlock(Sampler)`: `toySpec` plus an attribute `shift` that `_initialize` derives from
    the conditional target (so it must be recomputed whenever the other parameters move) and that is
    **not** a state key; `step` adds it to the proposal. -/
def toyBlockSpec : Spec Int Int where
  stateKeys := ["current_point", "scale", "eps_bar"]
  init := fun o => (((o.set "current_point" (o.get "initial_point")).set "scale" (o.get "initial_scale")).set "eps_bar" .unset).set
            "shift" (.int (sumInts (getInts (o.get "target")) % 5))
  initAcc := fun _ => [1]
  step := fun o ds =>
    match ds with
    | [] => (o, 0, [])
    | d :: rest =>
      let x := getInts (o.get "current_point")
      let s := getInt (o.get "scale")
      let sh := getInt (o.get "shift")
      let prop := x.map (fun xi => xi + s * d + sh)
      if d % 2 = 0 then (o.set "current_point" (.ints prop), 1, rest)
      else match rest with
        | [] => (o, 0, [])
        | u :: rest' =>
          if u ≤ getInt (o.get "eps_bar") then (o.set "current_point" (.ints prop), 1, rest') else (o, 0, rest')
  tune := toySpec.tune
  preSample := toySpec.preSample
  preWarmup := toySpec.preWarmup

/-! ## legacy `Gibbs.sample(Ns, Nb)` in full (`cuqi/sampler/_gibbs.py`)

`Model/C14.lean` has the case `Nb = 0`.  Here: the warm-up array `samples_warmup`, the refusal of a
second warm-up, and the order of the statements of `sample` (initial points first, then
`_allocate_samples_warmup` — which may raise —, then `_allocate_samples`, then the two loops). -/

/-- the attributes `samples` / `samples_warmup` (`none` = the attribute does not exist yet) and the stream -/
structure GLState (P D : Type) where
  samples : Option (List P)
  warm : Option (List P)
  stream : List D

inductive GLError
  | index   -- `IndexError`: `samples[par][:, -1]` of an array with zero columns
  | value   -- `ValueError('Sampler already has run warmup phase. Cannot run warmup phase again.')`
  deriving DecidableEq, Repr

/-- `_get_initial_points` -/
def glInitial {P D : Type} (init : P) (st : GLState P D) : Option P :=
  match st.samples with
  | some l => l.getLast?
  | Option.none =>
    match st.warm with
    | some w => w.getLast?
    | Option.none => some init

/-- `Gibbs.sample(Ns, Nb)`: the new attributes and what is returned (`_convert_to_Samples(self.samples)`:
    the *whole* sample array, warm-up excluded).  An exception leaves the object as it was. -/
def gibbsLegacyFull {P D : Type} (sweep : P → List D → P × List D) (init : P) (ns nb : Nat)
    (st : GLState P D) : Except GLError (GLState P D × List P) :=
  match glInitial init st with
  | Option.none => .error .index
  | some c0 =>
    if st.warm.isSome ∧ nb ≠ 0 then .error .value
    else
      -- `step_tune` is `step`; `samples_warmup` is re-allocated with `Nb` columns
      let w := gibbsLegacyLoop sweep nb c0 ([], st.stream)
      let cw := (w.1.getLast?).getD c0
      let r := gibbsLegacyLoop sweep ns cw (st.samples.getD [], w.2)
      .ok ({ samples := some r.1, warm := some w.1, stream := r.2 }, r.1)

end CuqiVerif.C14
