/-
  C09 model, part 6 — the sample arrays of legacy `Gibbs` as concrete 2-D arrays
  (`cuqi/sampler/_gibbs.py`):

      samples[par] = np.zeros((dim, Ns))                                   # _allocate_samples 153
      samples[par] = np.hstack((self.samples[par], samples[par]))           #                   159 (continuation)
      samples[par][:, i] = current_samples[par]                            # _store_samples    192
      initial_points[par] = self.samples[par][:, -1]                        # _get_initial_points 180 (IndexError on (dim, 0))

  `Model/C09.lean` keeps, for all blocks together, the list of *columns* (`List (N → V)`, `setCol`,
  `getLast?`); here one block's array is the list of its `dim` rows, as numpy stores it, and the four
  operations are transcribed on rows.  `Props/C09_array.lean` proves that they refine the column model
  (`colsA`), in particular that a continuation keeps every column stored before.

  Import-free and executable (driver op `ar`).
-/
namespace CuqiVerif.C09

variable {α : Type}

/-- `np.zeros((dim, n))` -/
def zeros2 (z : α) (dim n : Nat) : List (List α) := List.replicate dim (List.replicate n z)

/-- `np.hstack((A, B))` of two arrays with the same number of rows -/
def hstack (A B : List (List α)) : List (List α) := List.zipWith (· ++ ·) A B

/-- `A[:, i] = v` (`v` has one entry per row) -/
def setColA (A : List (List α)) (i : Nat) (v : List α) : List (List α) :=
  List.zipWith (fun row x => row.set i x) A v

/-- `A[:, j]` -/
def colA (z : α) (A : List (List α)) (j : Nat) : List α := A.map (fun r => r.getD j z)

/-- `A.shape[-1]` (of an array with at least one row) -/
def widthA (A : List (List α)) : Nat := (A.head?.map List.length).getD 0

/-- `A[:, -1]`; `none` = `IndexError: index -1 is out of bounds for axis 1 with size 0` -/
def lastColA (z : α) (A : List (List α)) : Option (List α) :=
  if widthA A = 0 then none else some (colA z A (widthA A - 1))

/-- `_allocate_samples(Ns)` for one block: `old = none` ⇔ the attribute `samples` does not exist yet -/
def allocA (z : α) (dim Ns : Nat) (old : Option (List (List α))) : List (List α) :=
  match old with
  | none => zeros2 z dim Ns
  | some A => hstack A (zeros2 z dim Ns)

/-- the columns of an array, first to last: the representation used by `Model/C09.lean` -/
def colsA (z : α) (A : List (List α)) : List (List α) := (List.range (widthA A)).map (colA z A)

/-- the loop `for i in range(at_Ns, at_Ns + Ns): …; samples[par][:, i] = current[par]` for one block:
    `vals t` is the block's value after sweep number `t` of the sampling phase (counted over the whole run) -/
def storeLoopA (vals : Nat → List α) : Nat → Nat → Nat → List (List α) → List (List α)
  | _, _, 0, A => A
  | i, t, k + 1, A => storeLoopA vals (i + 1) (t + 1) k (setColA A i (vals t))

/-- `self._Ns`: the width of the existing sample array, 0 when the attribute does not exist -/
def atNsA (old : Option (List (List α))) : Nat :=
  match old with
  | none => 0
  | some A => widthA A

/-- the sampling-phase array of one block over the calls `sample(Ns₁); sample(Ns₂); …` of legacy `Gibbs`:
    `at_Ns = self._Ns` (the width of the existing array, 0 without one) is read before `_allocate_samples`;
    the state is (the attribute `samples[par]` if it exists, number of sweeps made so far) -/
def runCallsA (z : α) (dim : Nat) (vals : Nat → List α) :
    List Nat → Option (List (List α)) × Nat → Option (List (List α)) × Nat
  | [], st => st
  | Ns :: r, (old, t) =>
    runCallsA z dim vals r (some (storeLoopA vals (atNsA old) t Ns (allocA z dim Ns old)), t + Ns)

end CuqiVerif.C09
