/-
  C08 model, part 7 — a NON-Gaussian executable instance of the generic NUTS recursion of `Model/C08.lean`:
  target `logd x = -½ xᵀPx + bᵀx - (c/4) Σ xᵢ⁴` (log-concave for `c ≥ 0`, `P ⪰ 0`), gradient `b - Px - c x³`
  (component-wise cube).  Everything stays exactly rational, so whole transitions of both implementations can be
  replayed exactly as for the quadratic instance; the leapfrog map is no longer linear (gradient-threading bugs that a
  linear map hides become visible).  Import-free, executable.
-/
import CuqiVerif.Model.C08
namespace CuqiVerif.C08

structure QTarget where
  P : List (List Rat)
  b : List Rat
  c : Rat

def QTarget.grad (t : QTarget) (x : List Rat) : List Rat :=
  List.zipWith (fun g xi => g - t.c * xi * xi * xi) (List.zipWith (fun row bi => bi - dotQ row x) t.P t.b) x

def QTarget.logd (t : QTarget) (x : List Rat) : XR :=
  .fin (dotQ t.b x - (1/2) * dotQ x (t.P.map (fun row => dotQ row x))
        - (t.c / 4) * (x.map (fun xi => xi * xi * xi * xi)).foldl (· + ·) 0)

def qStep (t : QTarget) (eps : Rat) (v : Int) (z : PS) : PS :=
  let (x1, r2, g1) := leapfrog (1/2 : Rat) t.grad ((v : Rat) * eps) z.x z.r z.grad
  { x := x1, r := r2, logd := t.logd x1, grad := g1 }

def qCtx (t : QTarget) (eps logu ham0 : Rat) : Ctx PS :=
  { step := qStep t eps, ham := psHam, noUturn := psNoUturn, logu := logu, ham0 := ham0 }

end CuqiVerif.C08
