import CuqiVerif.Model.RExpr
import CuqiVerif.Model.C03
/-
  C03 model, part "gallery" — `cuqi/distribution/_custom.py`, class `DistributionGallery`
  (a `UserDefinedDistribution` whose `logpdf_func` / `gradient_func` are hand-written closed forms):
  `CalSom91`, `funnel`, `mixture`, `squiggle`, `donut`, `banana` (`BivariateGaussian` delegates to
  `Gaussian.logpdf` / `Gaussian.gradient`, i.e. to `gaussGrad` of `Model/C03.lean`).

  Every benchmark is a density on ℝ²; `x0 = var 0`, `x1 = var 1` are the evaluation point and
  `var 2, var 3, …` the attributes the methods read from `self` at call time (`self.sig`,
  `self.delta`, `self.m0`, …).  The code fixes these attributes in `__init__`; the model keeps them
  as parameters (the theorems hold for every value, the harness reads the actual values from the
  object and also re-assigns them).

  Two styles, as in `Model/C03.lean`:
  * `RExpr` closed forms (logpdf formula, and the two gradient components *as the code writes them*)
    for CalSom91, funnel, donut, mixture;
  * generic-scalar definitions for squiggle and banana, which call `self.G0.gradient(y)` on a
    transformed point `y = T(x)` and then apply the chain rule by hand (`sin`/`cos` are not
    `RExpr` constructors: `s = sin(k*x0)`, `c = cos(k*x0)` enter as leaf values).
-/
namespace CuqiVerif.C03
open CuqiVerif RExpr

/-! ## CalSom91 -/

/-- `_CalSom91_logpdf_func`:
    `-1/(2*sig**2)*(sqrt(x0**2+x1**2)-1)**2 - 1/(2*delta**2)*(x1-1)**2` -/
def calSomLogpdf (x0 x1 σ δ : RExpr) : RExpr :=
  (-(1 : RExpr)) / (2 * σ ^ 2) * (sqrt (x0 ^ 2 + x1 ^ 2) - 1) ^ 2 - 1 / (2 * δ ^ 2) * (x1 - 1) ^ 2

/-- `self.dfdx1`: `-(x1*(sqrt(x2**2+x1**2)-1))/(sig**2*sqrt(x2**2+x1**2))` (the code's `x1, x2` are
    `x0, x1` here; note the code writes `x2**2 + x1**2`) -/
def calSomGrad0 (x0 x1 σ _δ : RExpr) : RExpr :=
  (-(x0 * (sqrt (x1 ^ 2 + x0 ^ 2) - 1))) / (σ ^ 2 * sqrt (x1 ^ 2 + x0 ^ 2))

/-- `self.dfdx2`: `-(x2*(sqrt(x2**2+x1**2)-1))/(sig**2*sqrt(x2**2+x1**2)) - (x2-1)/delta**2` -/
def calSomGrad1 (x0 x1 σ δ : RExpr) : RExpr :=
  (-(x1 * (sqrt (x1 ^ 2 + x0 ^ 2) - 1))) / (σ ^ 2 * sqrt (x1 ^ 2 + x0 ^ 2)) - (x1 - 1) / δ ^ 2

/-! ## funnel (Neal 2003) -/

/-- `self.f = lambda x, m, s: -0.5*log(2*pi) - log(s) - 0.5*((x-m)/s)**2` -/
def funnelF (x m s : RExpr) : RExpr :=
  (-((1 / 2 : RExpr) * log (2 * pi))) - log s - (1 / 2 : RExpr) * ((x - m) / s) ^ 2
/-- `self.dfdx = lambda x, m, s: -(x-m)/(s**2)` -/
def funnelDfdx (x m s : RExpr) : RExpr := (-(x - m)) / (s ^ 2)
/-- `self.dfds = lambda x, m, s: -1/s + ((x-m)**2)/(s**3)` -/
def funnelDfds (x m s : RExpr) : RExpr := (-(1 : RExpr)) / s + ((x - m) ^ 2) / (s ^ 3)

/-- `s0 = np.exp(x[:, 1]/2)` -/
def funnelS0 (x1 : RExpr) : RExpr := exp (x1 / 2)

/-- `_funnel_logpdf_func`: `f(x0, m0, s0) + f(x1, m1, s1)` -/
def funnelLogpdf (x0 x1 m0 m1 s1 : RExpr) : RExpr :=
  funnelF x0 m0 (funnelS0 x1) + funnelF x1 m1 s1
/-- `_funnel_grad_logpdf`, first component: `dfdx(x0, m0, s0)` -/
def funnelGrad0 (x0 x1 m0 _m1 _s1 : RExpr) : RExpr := funnelDfdx x0 m0 (funnelS0 x1)
/-- second component: `dfds(x0, m0, s0)*0.5*s0 + dfdx(x1, m1, s1)` -/
def funnelGrad1 (x0 x1 m0 m1 s1 : RExpr) : RExpr :=
  funnelDfds x0 m0 (funnelS0 x1) * (1 / 2 : RExpr) * funnelS0 x1 + funnelDfdx x1 m1 s1

/-! ## donut -/

/-- `r = np.linalg.norm(x, axis=1)` -/
def donutR (x0 x1 : RExpr) : RExpr := sqrt (x0 ^ 2 + x1 ^ 2)
/-- `_donut_logpdf_func`: `- (r - radius)**2 / sigma2` -/
def donutLogpdf (x0 x1 R σ2 : RExpr) : RExpr := -((donutR x0 x1 - R) ^ 2 / σ2)
/-- `_donut_grad_logpdf`, component with coordinate `xi`: `(xi*((radius/r)-1)*2)/sigma2`; `r` is
    passed separately because the code replaces `r == 0` by `1e-16` before dividing. -/
def donutGradComp (xi r R σ2 : RExpr) : RExpr := (xi * ((R / r) - 1) * 2) / σ2
/-- the replacement value of `r[idx] = 1e-16` -/
def donutTinyR : Rat := 1 / 10000000000000000
/-- the radius the gradient divides by: `r`, or `1e-16` where `r == 0` (decided on the exact point) -/
def donutREff (x0 x1 : Rat) : RExpr :=
  if x0 = 0 ∧ x1 = 0 then const donutTinyR else donutR (var 0) (var 1)

/-! ## mixture of three isotropic Gaussians -/

/-- `Gaussian(m, v).logpdf(x)` in dimension 2 with scalar variance `v`:
    `-0.5*(rank*log(2*pi) + logdet) - 0.5*mahadist`, `rank = 2`, `logdet = 2*log(v)`,
    `mahadist = ((x0-m0)**2 + (x1-m1)**2)/v` -/
def isoLogpdf (x0 x1 m0 m1 v : RExpr) : RExpr :=
  (-((1 / 2 : RExpr) * (2 * log (2 * pi) + 2 * log v))) - (1 / 2 : RExpr) * (((x0 - m0) ^ 2 + (x1 - m1) ^ 2) / v)
/-- `Distribution.pdf = exp(logpdf)` -/
def isoPdf (x0 x1 m0 m1 v : RExpr) : RExpr := exp (isoLogpdf x0 x1 m0 m1 v)
/-- `Gaussian(m, v).gradient(x)`, component with coordinate `xi`, mean `mi`: `-(1/v)*(xi-mi)` -/
def isoGradComp (xi mi v : RExpr) : RExpr := -((1 / v) * (xi - mi))

/-- the three components `(m_k0, m_k1, v_k)`, `k = 0,1,2`, live in `var 2 … var 10` -/
def mixP (k : Nat) : RExpr := isoPdf (var 0) (var 1) (var (2 + 3 * k)) (var (3 + 3 * k)) (var (4 + 3 * k))
/-- `_mixture_logpdf_func`: `log(G0.pdf(x) + G1.pdf(x) + G2.pdf(x))` -/
def mixLogpdf : RExpr := log (mixP 0 + mixP 1 + mixP 2)
/-- `_mixture_grad_func`, component `i ∈ {0,1}`:
    `(p1*G0.gradient(x) + p2*G1.gradient(x) + p3*G2.gradient(x)) * (1/(p1+p2+p3))`
    (`np.nan_to_num` is the identity on finite values) -/
def mixGrad (i : Nat) : RExpr :=
  (mixP 0 * isoGradComp (var i) (var (2 + i)) (var 4)
    + mixP 1 * isoGradComp (var i) (var (5 + i)) (var 7)
    + mixP 2 * isoGradComp (var i) (var (8 + i)) (var 10)) * (1 / (mixP 0 + mixP 1 + mixP 2))

/-! ## squiggle and banana: `G0.logpdf(T(x))`, hand-written chain rule around `G0.gradient(T(x))` -/
section Generic
variable {α : Type} [Add α] [Sub α] [Mul α] [Neg α] [OfNat α 0]

/-- the point `(a, b)` as a model vector -/
def vec2 (a b : α) : Nat → α := fun j => if j = 0 then a else b

/-- `_squiggle_*`: `y[:,0], y[:,1] = x[:,0], x[:,1] + sin(5*x[:,0])`; `s` is the leaf value `sin(k*x0)` -/
def squiggleY (x0 x1 s : α) : Nat → α := vec2 x0 (x1 + s)

/-- `_squiggle_grad_logpdf`: `grad = G0.gradient(y)` (`= gaussGrad 2 P y μ`), then
    `gradx0, gradx1 = grad[0] + grad[1]*5*cos(5*x0), grad[1]`; `k` is the literal `5`,
    `c` the leaf value `cos(k*x0)`. -/
def squiggleGrad (P : Nat → Nat → α) (μ : Nat → α) (x0 x1 s c k : α) : Nat → α :=
  let g := gaussGrad 2 P (squiggleY x0 x1 s) μ
  vec2 (g 0 + g 1 * k * c) (g 1)

/-- `_squiggle_logpdf_func` up to the normalising constant of `G0`: `-(y-μ)ᵀP(y-μ)/2` is
    `-(squiggleQuad)/2` -/
def squiggleQuad (P : Nat → Nat → α) (μ : Nat → α) (x0 x1 s : α) : α :=
  gaussQuad 2 P (squiggleY x0 x1 s) μ

variable [Div α]

/-- `_banana_*`: `y[:,0] = x0/a`, `y[:,1] = x1*a + a*b*(x0**2 + a**2)` -/
def bananaY (x0 x1 a b : α) : Nat → α := vec2 (x0 / a) (x1 * a + a * b * (x0 * x0 + a * a))

/-- `_banana_grad_logpdf`: `grad = G0.gradient(y)`, then
    `gradx0, gradx1 = grad[0]/a + grad[1]*a*b*2*x0, grad[1]*a` (`2*x0` written `x0 + x0`) -/
def bananaGrad (P : Nat → Nat → α) (μ : Nat → α) (x0 x1 a b : α) : Nat → α :=
  let g := gaussGrad 2 P (bananaY x0 x1 a b) μ
  vec2 (g 0 / a + g 1 * a * b * (x0 + x0)) (g 1 * a)

def bananaQuad (P : Nat → Nat → α) (μ : Nat → α) (x0 x1 a b : α) : α :=
  gaussQuad 2 P (bananaY x0 x1 a b) μ

end Generic

/-! ## which gallery entries exist and what `gradient` does for them -/

/-- `DistributionGallery(name)`: the names with a branch in `__init__`; any other name leaves
    `logpdf_func` unbound (`UnboundLocalError` at construction) -/
def galleryNames : List String :=
  ["CalSom91", "BivariateGaussian", "funnel", "mixture", "squiggle", "donut", "banana"]

end CuqiVerif.C03
