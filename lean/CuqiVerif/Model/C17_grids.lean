import CuqiVerif.Model.C17
/-
  C17 model, part 4 — the grids of the PDE / quadrature test problems (`Poisson1D.__init__`,
  `Heat1D.__init__`, `Abel1D.__init__` in `cuqi/testproblem/_testproblem.py`): the `np.linspace`
  expressions in exact arithmetic.  No Mathlib, executable.
-/
namespace CuqiVerif.C17

/-- `np.linspace(a, b, n, endpoint=False)[k]` = `a + k·(b−a)/n` -/
def linspaceOpen (a b : Rat) (n k : Nat) : Rat := a + (k : Rat) * ((b - a) / (n : Rat))

/-- `np.linspace(a, b, n)[k]` = `a + k·(b−a)/(n−1)` (`n = 1`: the single node `a`) -/
def linspaceClosed (a b : Rat) (n k : Nat) : Rat :=
  if n ≤ 1 then a else a + (k : Rat) * ((b - a) / ((n : Rat) - 1))

/-! ### Poisson1D: `N = dim-1`, `dx = endpoint/N` -/
def poissonDxQ (dim : Nat) (ep : Rat) : Rat := ep / ((dim - 1 : Nat) : Rat)
/-- `grid = np.linspace(dx, endpoint, N, endpoint=False)` — where `source` is evaluated -/
def poissonSrcGrid (dim : Nat) (ep : Rat) (k : Nat) : Rat := linspaceOpen (poissonDxQ dim ep) ep (dim - 1) k
/-- `grid_range = np.linspace(1./(dim-1), endpoint, dim-1, endpoint=False)` — `grid_sol` of the PDE, grid of the range geometry -/
def poissonSolGrid (dim : Nat) (ep : Rat) (k : Nat) : Rat := linspaceOpen (1 / ((dim - 1 : Nat) : Rat)) ep (dim - 1) k
/-- `grid_domain = np.linspace(0, endpoint, dim, endpoint=True)` — grid of the conductivity field -/
def poissonDomGrid (dim : Nat) (ep : Rat) (k : Nat) : Rat := linspaceClosed 0 ep dim k
/-- the interior nodes of the difference scheme `Dx.T @ diag(κ) @ Dx` (spacing `dx`, `u_0 = u_{N+1} = 0`): node `k` sits at `(k+1)·dx` -/
def poissonFdNode (dim : Nat) (ep : Rat) (k : Nat) : Rat := ((k : Rat) + 1) * poissonDxQ dim ep

/-! ### Heat1D: `N = dim`, `dx = endpoint/(N+1)` -/
def heatDxQ (dim : Nat) (ep : Rat) : Rat := ep / ((dim : Rat) + 1)
/-- `grid_domain = grid_range = np.linspace(dx, endpoint, N, endpoint=False)` -/
def heatGrid (dim : Nat) (ep : Rat) (k : Nat) : Rat := linspaceOpen (heatDxQ dim ep) ep dim k
/-- `time_steps = np.linspace(0, max_time, max_iter+1, endpoint=True)` -/
def heatTime (maxTime : Rat) (maxIter k : Nat) : Rat := linspaceClosed 0 maxTime (maxIter + 1) k

/-! ### Abel1D: `h = endpoint/N` -/
/-- `tvec = np.linspace(h/2, endpoint-h/2, N)` -/
def abelTvec (n : Nat) (ep : Rat) (j : Nat) : Rat := linspaceClosed (ep / n / 2) (ep - ep / n / 2) n j
/-- `grid = np.linspace(0, endpoint, N)` — the grid handed to both geometries -/
def abelGeomGrid (n : Nat) (ep : Rat) (k : Nat) : Rat := linspaceClosed 0 ep n k

end CuqiVerif.C17
