/-
  C09 model, part 7 — what the per-sweep protocol of `HybridGibbs.step` keeps and what it loses of a block
  sampler's attributes (`cuqi/experimental/mcmc/_gibbs.py` 227-244, `_sampler.py` `reinitialize` 157-170,
  `get_state/set_state/get_history/set_history`, `_hmc.py` `NUTS._initialize/_pre_warmup`):

      NUTS:    sampler.initial_point = sampler.current_point; sampler.reinitialize()
      others:  st = get_state(); hi = get_history(); reinitialize(); set_state(st); set_history(hi)
      both:    _pre_warmup(); _pre_sample()

  `reinitialize` sets every key of `_STATE_KEYS ∪ _HISTORY_KEYS` to `None` and runs `initialize()`, which
  assigns `current_point = initial_point`, `_samples = []`, `_acc = [1]` and whatever the subclass'
  `_initialize` computes on the NEW target.  An attribute is described by where its value comes from.

  Import-free and executable (driver op `nt`).
-/
namespace CuqiVerif.C09

/-- where the value of an attribute comes from, right before the first transition of a block update -/
inductive Origin where
  /-- the value it had at the end of the previous block update of this sampler (kept) -/
  | prev
  /-- the block's current value (`current_point`; for NUTS also written into `initial_point`) -/
  | point
  /-- recomputed by `initialize()` / `_pre_warmup()` on the new target (everything learnt before is lost) -/
  | fresh
  /-- set to `None` by `reinitialize` and turned into the class default by the attribute's setter
      (NUTS `max_depth`: the user's value is replaced by the default 15) -/
  | dflt
  /-- set to `None` and never assigned again: `_validate_initialization` raises `ValueError` -/
  | unset
  deriving DecidableEq, Repr

/-- `stateKeys`, `historyKeys`: the class's `_STATE_KEYS` / `_HISTORY_KEYS`; `assigned`: the attributes
    `initialize()` (with `_initialize`, `_pre_warmup`) assigns; `withDefault`: attributes whose setter maps
    `None` to a default -/
def originAfterPrologue (isNuts : Bool) (stateKeys historyKeys assigned withDefault : List String)
    (a : String) : Origin :=
  if a = "current_point" then .point
  else if isNuts then
    if a = "initial_point" then .point
    else if assigned.contains a then .fresh
    else if stateKeys.contains a || historyKeys.contains a then
      (if withDefault.contains a then .dflt else .unset)
    else .prev
  else
    if stateKeys.contains a || historyKeys.contains a then .prev
    else if assigned.contains a then .fresh
    else .prev

/-! ## the table for `NUTS` (`_hmc.py` 90-98, 110-140, 297-314) -/

def nutsStateKeys : List String :=
  ["current_point", "_epsilon", "_epsilon_bar", "_H_bar", "current_target_logd", "current_target_grad", "max_depth"]

def nutsHistoryKeys : List String :=
  ["_samples", "_acc", "num_tree_node_list", "epsilon_list", "epsilon_bar_list"]

/-- assigned by `Sampler.initialize`, `NUTS._initialize` and `_pre_warmup` (`_epsilon_bar`: "unset", then 1) -/
def nutsAssigned : List String :=
  ["_samples", "_acc", "_current_alpha_ratio", "current_target_logd", "current_target_grad", "_epsilon",
   "_epsilon_bar", "_mu", "_H_bar", "_num_tree_node", "num_tree_node_list", "epsilon_list", "epsilon_bar_list"]

/-- `max_depth` is a state key that `_initialize` does not assign; its setter turns `None` into 15 -/
def nutsWithDefault : List String := ["max_depth"]

def nutsOrigin (a : String) : Origin :=
  originAfterPrologue true nutsStateKeys nutsHistoryKeys nutsAssigned nutsWithDefault a

end CuqiVerif.C09
