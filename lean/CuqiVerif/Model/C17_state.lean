import CuqiVerif.Model.C17
/-
  C17 model, part 5 — `BayesianProblem` as a state machine (`cuqi/problem/_problem.py`):
  the accessors `.likelihood/.prior/.data/.model/.posterior`, `get_components()`, the setters
  `tp.prior = p`, `tp.likelihood = l` (plain attribute assignment on the `Posterior` target) and
  `set_data` (refused once the target is a `Posterior`).  Objects are identities (`Nat` ids).
  No Mathlib, executable.
-/
namespace CuqiVerif.C17

/-- the target `Posterior(likelihood, prior)` of a constructed test problem, by object identity;
    a likelihood is the triple (likelihood object, the data it was conditioned on, the model inside its distribution) -/
structure PState where
  lik : Nat
  likData : Nat
  likModel : Nat
  prior : Nat
  deriving DecidableEq, Repr

inductive POp
  | setPrior (p : Nat)
  | setLik (l data model : Nat)
  | setData
  deriving DecidableEq, Repr

/-- one operation; `none` = the call raises (`set_data`: "Unable to set data for this problem. Maybe data is already set?")
    and leaves the problem unchanged -/
def PState.step (s : PState) : POp → Option PState
  | .setPrior p => some { s with prior := p }
  | .setLik l d m => some { lik := l, likData := d, likModel := m, prior := s.prior }
  | .setData => none

/-- a whole history; refused operations are skipped (the state is unchanged), their number is counted -/
def PState.run (s : PState) : List POp → PState × Nat
  | [] => (s, 0)
  | op :: ops =>
    match s.step op with
    | some s' => s'.run ops
    | none => let r := s.run ops; (r.1, r.2 + 1)

/-- `get_components()[0:2]` = `(self.model, self.data)` = `(self.likelihood.model, self.likelihood.data)` -/
def PState.components (s : PState) : Nat × Nat := (s.likModel, s.likData)

end CuqiVerif.C17
