/-
  C08 model, part 2 — step-size selection of the No-U-Turn samplers:
  `_FindGoodEpsilon`, the dual-averaging update (`tune` in `cuqi/experimental/mcmc/_hmc.py`, the
  `if (k <= Nb) and adapt_step_size` block of `cuqi/sampler/_hmc.py`) and the schedule by which the
  two interfaces use / overwrite `epsilon` and `epsilon_bar` during warm-up and sampling.
  Import-free, executable.

  The update is transcribed in the LOG domain (`lEps = log ε`, `lBar = log ε̄`): the code computes
  `ε = exp(μ - (√k/γ) H̄)` and `ε̄ = exp(η log ε + (1-η) log ε̄)`, i.e. it only ever composes `log ∘ exp`.
  `√k` and `η = k^(-κ)` are irrational; they enter as data (`sq k`, `et k`), exactly like every
  acceptance statistic `al i` (the harness passes the floats the implementation produced / numpy computes).
-/
import CuqiVerif.Model.C08
namespace CuqiVerif.C08

/-- γ = 0.05, t₀ = 10 (κ = 0.75 is inside the data `et`). -/
def daGamma : Rat := 1/20
def daT0 : Rat := 10

structure DA where
  lEps : Rat            -- log of `_epsilon`
  lBar : Option Rat     -- log of `_epsilon_bar`; `none` = the string "unset"
  hBar : Rat
  mu : Rat              -- log(10 ε₀), fixed
  delta : Rat           -- opt_acc_rate
  used : List Rat       -- log step size used by each transition so far, in order
  deriving Repr

def DA.init (lEps0 mu delta : Rat) : DA :=
  { lEps := lEps0, lBar := none, hBar := 0, mu := mu, delta := delta, used := [] }

/-- `_pre_warmup`: `if _epsilon_bar == "unset": _epsilon_bar = 1` -/
def DA.preWarmup (s : DA) : DA := { s with lBar := some (s.lBar.getD 0) }

/-- `_pre_sample`: `if _epsilon_bar == "unset": _epsilon_bar = _epsilon` -/
def DA.preSample (s : DA) : DA := { s with lBar := some (s.lBar.getD s.lEps) }

/-- one experimental transition: runs with `_epsilon`, then `self._epsilon = self._epsilon_bar`.
    (`_pre_warmup` / `_pre_sample` always ran before, so `lBar` is set; the unset case keeps ε.) -/
def DA.stepExp (s : DA) : DA :=
  { s with used := s.used ++ [s.lEps], lEps := s.lBar.getD s.lEps }

/-- one legacy transition: runs with `epsilon`; nothing else happens to it inside the transition. -/
def DA.stepLeg (s : DA) : DA := { s with used := s.used ++ [s.lEps] }

/-- the running average `H̄ ← (1-1/(k+t₀)) H̄ + (δ-α)/(k+t₀)` -/
def hbarNext (delta h : Rat) (k : Nat) (alpha : Rat) : Rat :=
  (1 - 1 / ((k : Rat) + daT0)) * h + (1 / ((k : Rat) + daT0)) * (delta - alpha)

/-- `tune` with update number `k ≥ 1`, acceptance statistic `alpha`, data `sqrtk ≈ √k`, `eta ≈ k^(-κ)` -/
def DA.tune (s : DA) (k : Nat) (alpha sqrtk eta : Rat) : DA :=
  let h := hbarNext s.delta s.hBar k alpha
  let le := s.mu - (sqrtk / daGamma) * h
  { s with hBar := h, lEps := le, lBar := some (eta * le + (1 - eta) * s.lBar.getD 0) }

/-- experimental `warmup(Nb, tune_freq)`: `interval = max(int(tune_freq*Nb),1)` is an input; transition `idx`
    (0-based, `al idx` its acceptance statistic) is followed by `tune(interval, idx / interval)` when
    `(idx+1) % interval = 0`, whose update number is `idx / interval + 1`. -/
def warmupExpFrom (interval : Nat) (al sq et : Nat → Rat) : Nat → Nat → DA → DA
  | 0, _, s => s
  | n + 1, idx, s =>
    let s1 := s.stepExp
    let s2 := if (idx + 1) % interval = 0 then
        let k := idx / interval + 1
        s1.tune k (al idx) (sq k) (et k)
      else s1
    warmupExpFrom interval al sq et n (idx + 1) s2

def warmupExp (s : DA) (Nb interval : Nat) (al sq et : Nat → Rat) : DA :=
  warmupExpFrom interval al sq et Nb 0 s.preWarmup

/-- `n` transitions in a row -/
def iter (f : DA → DA) : Nat → DA → DA
  | 0, s => s
  | n + 1, s => iter f n (f s)

/-- experimental `sample(N)` -/
def sampleExp (s : DA) (N : Nat) : DA := iter DA.stepExp N s.preSample

/-- legacy `_sample(N, Nb)` with `adapt_step_size == True`: `epsilon_bar, H_bar = 1, 0`; transitions `k = 1 .. Nb`
    are each followed by the update number `k`; transition `Nb+1` is followed by `epsilon = epsilon_bar`. -/
def warmupLegFrom (al sq et : Nat → Rat) : Nat → Nat → DA → DA
  | 0, _, s => s
  | n + 1, k, s =>
    warmupLegFrom al sq et n (k + 1) ((s.stepLeg).tune k (al k) (sq k) (et k))

def runLeg (s : DA) (Nb Nrest : Nat) (al sq et : Nat → Rat) : DA :=
  let w := warmupLegFrom al sq et Nb 1 { s with lBar := some 0, hBar := 0 }
  match Nrest with
  | 0 => w
  | m + 1 =>
    let first := w.stepLeg
    iter DA.stepLeg m { first with lEps := first.lBar.getD first.lEps }

/-! ## `_FindGoodEpsilon` on the exact phase space of `Model/C08` -/

/-- `Ham' - Ham` as an IEEE value, `Ham` finite -/
def logRatio (t : Target) (x r : List Rat) (ham : Rat) (eps : Rat) : XR × XR :=
  let z : PS := psStep t eps 1 { x := x, r := r, logd := t.logd x, grad := t.grad x }
  (z.logd, (psHam z).subRat ham)

/-- halving loop `while isinf(logd')`: returns the factor `k` (fuel-bounded) -/
def halveInf (t : Target) (x r : List Rat) (ham : Rat) : Nat → Rat → Option Rat
  | 0, _ => none
  | fuel + 1, k =>
    match (logRatio t x r ham k).1 with
    | .pinf | .ninf => halveInf t x r ham fuel (k / 2)
    | _ => some k

/-- `a*log_ratio > -a*log 2` for an IEEE `log_ratio`; `log2` is data (a rational enclosure point of log 2) -/
def crosses (a : Int) (lr : XR) (log2 : Rat) : Bool :=
  match lr with
  | .fin q => if a = 1 then decide (q > -log2) else decide (q < -log2)
  | .pinf => decide (a = 1)
  | .ninf => decide (a = -1)
  | .nan => false

def searchEps (t : Target) (x r : List Rat) (ham log2 : Rat) (a : Int) : Nat → Rat → XR → Option Rat
  | 0, _, _ => none
  | fuel + 1, eps, lr =>
    if crosses a lr log2 then
      let eps' := (if a = 1 then 2 else 1/2) * eps
      searchEps t x r ham log2 a fuel eps' (logRatio t x r ham eps').2
    else some eps

/-- `_FindGoodEpsilon(epsilon=1)` from a point with finite log-density; `none` = fuel exhausted. -/
def findEps (t : Target) (x r : List Rat) (log2 : Rat) (fuel : Nat) : Option Rat :=
  match t.logd x with
  | .fin l0 =>
    let ham := l0 - (1/2) * dotQ r r
    match halveInf t x r ham fuel 1 with
    | none => none
    | some k =>
      -- NOTE (as in the code): the first ratio is the one of the step `k`, while `epsilon` is already `k/2`
      let lr := (logRatio t x r ham k).2
      let a : Int := match lr with
        | .fin q => if q > -log2 then 1 else -1
        | .pinf => 1
        | _ => -1
      searchEps t x r ham log2 a fuel (k / 2) lr
  | _ => none

end CuqiVerif.C08
