import CuqiVerif.Model.QMat
import CuqiVerif.Model.RExpr
import CuqiVerif.Model.C07
/-
  C17 model — the shipped test problems of `cuqi/testproblem/_testproblem.py`
  (`Deconvolution1D` incl. `use_legacy`, `Deconvolution2D`, `Poisson1D`, `Heat1D`, `Abel1D`,
  `WangCubic`) and the component plumbing of `cuqi/problem/_problem.py`
  (`BayesianProblem.__init__`, `.model/.data/.likelihood/.prior/.posterior`, `get_components`).
  Executable, no Mathlib.

  Two layers, kept apart on purpose:

  * **documented operators** (`doc…`), written from the docstrings, independently of the
    assembly code: the convolution of a signal extended by the stated boundary rule with the
    stated PSF (`docConv1`, `docConv2`, `docCirculant`), the conservative three-point
    discretisation of `-(κ u')' = f` with homogeneous Dirichlet ends (`poissonDoc`), the forward
    Euler recurrence for `u_t = u_xx` (`heatDocStep`), the Abel quadrature, the cubic;
  * **code-faithful assembly** (`…Asm`, `legacyMatrix`, `poissonD`, `heatStepMat`, `samplePath`,
    …), transcribed statement by statement, *including the defects* (`Deconvolution1D` stores
    `A[i,:] = conv(e_i)`, the legacy Toeplitz matrix has the PSF in its first *row*).
    The convolution assembly itself is C07's (`conv1`, `deconv1dMatrix`, `conv2`).

  Numbers live in an arbitrary carrier `R` (driver: `R = Rat`; theorems: every field).
-/
namespace CuqiVerif.C17
open CuqiVerif.C07

/-! ## documented convolution operators -/
section conv
variable {R : Type} [Zero R] [One R] [Add R] [Mul R]

/-- the signal `x` (length `n`) extended to all of `ℤ` by the boundary rule `m`
    ('zero', 'periodic', 'Nearest', 'Reflect' about the edge, 'Mirror' about the last pixel centre) -/
def extend (m : Ext) (n : Nat) (x : Nat → R) (t : Int) : R :=
  match extPos m n t with
  | some k => x k.toNat
  | none => 0

/-- **Documented 1-D operator**: `b = A x` is the convolution of the extended signal with the PSF
    `P` (length `s`), centred as `scipy.ndimage.convolve1d` centres it (`origin = 0`):
    `b[u] = Σ_a P[a] · x_ext[u + s/2 − a]`. -/
def docConv1 (m : Ext) (s : Nat) (P : Nat → R) (n : Nat) (x : Nat → R) : Nat → R :=
  fun u => sumTo s (fun a => P a * extend m n x ((u : Int) + (s / 2 : Nat) - (a : Int)))

/-- an `n × n` image extended to `ℤ × ℤ`, each axis by the rule `m` (`np.pad` pads axis by axis) -/
def extend2 (m : Ext) (n : Nat) (X : Nat → Nat → R) (t1 t2 : Int) : R :=
  match extPos m n t1, extPos m n t2 with
  | some i, some j => X i.toNat j.toNat
  | _, _ => 0

/-- **Documented 2-D operator**: `B[u,v] = Σ_{a,b} P[a,b] · X_ext[u + s/2 − a, v + s/2 − b]`. -/
def docConv2 (m : Ext) (s : Nat) (P : Nat → Nat → R) (n : Nat) (X : Nat → Nat → R) : Nat → Nat → R :=
  fun u v => sumTo s (fun a => sumTo s (fun b =>
    P a b * extend2 m n X ((u : Int) + (s / 2 : Nat) - (a : Int)) ((v : Int) + (s / 2 : Nat) - (b : Int))))

/-- C-order flattening of an image -/
def flat (n : Nat) (X : Nat → Nat → R) : Nat → R := fun k => X (k / n) (k % n)

/-- **Documented periodic (circulant) operator** of the legacy form: convolution on `ℤ/n` with a
    PSF of length `n` whose centre is entry `n/2`:  `b[i] = Σ_j P[(i − j + n/2) mod n] · x[j]`. -/
def docCirculant (n : Nat) (P : Nat → R) : LMat R where
  rows := n
  cols := n
  e := fun i j => P ((i + (n - j) + n / 2) % n)

/-- the same for a kernel `h` given in wrapped order (`h[0]` = centre): `b[i] = Σ_j h[(i−j) mod n] x[j]` -/
def docCirculantH (n : Nat) (h : Nat → R) : LMat R where
  rows := n
  cols := n
  e := fun i j => h ((i + (n - j)) % n)

/-! ## code-faithful legacy assembly (`_getCirculantMatrix`) -/

/-- `np.roll(P, -int(n/2))` -/
def rollHalf (n : Nat) (P : Nat → R) : Nat → R := fun k => P ((k + n / 2) % n)

/-- `np.concatenate((h[0:1], np.flipud(h[1:])))` -/
def hflip (n : Nat) (h : Nat → R) : Nat → R := fun k => if k = 0 then h 0 else h (n - k)

/-- `scipy.linalg.toeplitz(c, r)`: first column `c`, first row `r` -/
def toeplitz (n : Nat) (c r : Nat → R) : LMat R where
  rows := n
  cols := n
  e := fun i j => if j ≤ i then c (i - j) else r (j - i)

/-- `toeplitz(hflip, h)` — all four branches of `_getCirculantMatrix` end like this -/
def legacyFromH (n : Nat) (h : Nat → R) : LMat R := toeplitz n (hflip n h) h

/-- `_getCirculantMatrix(dim, PSF: ndarray, _)` -/
def legacyMatrix (n : Nat) (P : Nat → R) : LMat R := legacyFromH n (rollHalf n P)

end conv

/-- `_getCirculantMatrix` raises for odd `dim`; an ndarray PSF must have length `dim` -/
def legacyAccepts (n plen : Nat) : Bool := n % 2 == 0 && plen == n

/-! ## Poisson1D -/
section poisson
variable {R : Type} [Zero R] [One R] [Add R] [Mul R] [Neg R] [Div R]

/-- `Dx = -diag(ones(N),0) + diag(ones(N-1),1)` (`N × N`) -/
def poissonDx0 (r c : Nat) : R := (if r = c then -1 else 0) + (if c = r + 1 then 1 else 0)

/-- `np.concatenate([vec.reshape([1,-1]), Dx], axis=0) / dx`, `vec = e_0`: `(N+1) × N` -/
def poissonD (N : Nat) (dx : R) : LMat R where
  rows := N + 1
  cols := N
  e := fun k c => (if k = 0 then (if c = 0 then 1 else 0) else poissonDx0 (k - 1) c) / dx

/-- `Dx.T @ np.diag(x) @ Dx` (`x` has `N+1 = dim` entries); `np.diag(x)` is contracted on the fly -/
def poissonAsm (N : Nat) (dx : R) (x : Nat → R) : LMat R where
  rows := N
  cols := N
  e := fun i j => sumTo (N + 1) (fun k => (poissonD N dx).e k i * x k * (poissonD N dx).e k j)

/-- **Documented operator**: the conservative three-point discretisation of `-(κ u')'` on the
    interior nodes `1..N` of a uniform grid with `u_0 = u_{N+1} = 0`, `κ` sampled on the `N+1`
    cells: row `i` (0-based) is `(−κ_i u_{i−1} + (κ_i + κ_{i+1}) u_i − κ_{i+1} u_{i+1}) / dx²`. -/
def poissonDoc (N : Nat) (dx : R) (κ : Nat → R) : LMat R where
  rows := N
  cols := N
  e := fun i j =>
    if i = j then (κ i + κ (i + 1)) / (dx * dx)
    else if j = i + 1 then -(κ (i + 1)) / (dx * dx)
    else if i = j + 1 then -(κ i) / (dx * dx)
    else 0

end poisson

/-! ## Heat1D -/
section heat
variable {R : Type} [Zero R] [One R] [Add R] [Mul R] [Neg R] [Div R]

/-- `(diag(-2·1_N) + diag(1_{N-1},-1) + diag(1_{N-1},1)) / dx**2` -/
def heatDxx (N : Nat) (dx : R) : LMat R where
  rows := N
  cols := N
  e := fun i j => ((if i = j then -(1 + 1) else 0) + (if i = j + 1 then 1 else 0) + (if j = i + 1 then 1 else 0)) / (dx * dx)

/-- `dt*diff_op + np.eye(N)` of `TimeDependentLinearPDE.solve` (forward Euler) -/
def heatStepMat (N : Nat) (dx dt : R) : LMat R where
  rows := N
  cols := N
  e := fun i j => dt * (heatDxx N dx).e i j + (if i = j then 1 else 0)

/-- one pass of the loop body: `u[:,k+1] = (dt*diff_op + I) @ u[:,k] + dt*rhs`, `rhs = zeros(N)` -/
def heatStep (N : Nat) (dx dt : R) (u : Nat → R) : Nat → R :=
  fun i => (heatStepMat N dx dt).apply u i + dt * 0

/-- the whole loop: `k` steps from the initial condition -/
def heatSolve (N : Nat) (dx dt : R) : Nat → (Nat → R) → Nat → R
  | 0, u => u
  | k + 1, u => heatStep N dx dt (heatSolve N dx dt k u)

/-- **Documented recurrence**: explicit Euler for `u_t = u_xx`, zero Dirichlet values outside -/
def heatDocStep (N : Nat) (dx dt : R) (u : Nat → R) : Nat → R :=
  fun i => u i + dt * (((if i = 0 then 0 else u (i - 1)) + -((1 + 1) * u i) + (if i + 1 < N then u (i + 1) else 0)) / (dx * dx))

end heat

/-- `cfl = 5/11; dt_approx = cfl*dx**2; max_iter = int(max_time/dt_approx)` (exact arithmetic;
    `int()` truncates, the quotient is positive) -/
def heatMaxIter (maxTime dx : Rat) : Nat := (maxTime / ((5 : Rat) / 11 * (dx * dx))).floor.toNat

/-- time step of `np.linspace(0, max_time, max_iter+1)` (`max_iter = 0`: a single level, no step) -/
def heatDt (maxTime : Rat) (maxIter : Nat) : Rat := maxTime / (maxIter : Rat)

/-! ## Abel1D -/

/-- quadrature nodes of `Abel1D`: `t_j = h/2 + j·h` (`np.linspace(h/2, endpoint-h/2, N)`), `s_i = t_i + h/2` -/
def abelT (n : Nat) (endpoint : Rat) (j : Nat) : Rat := endpoint / n / 2 + j * (endpoint / n)
def abelS (n : Nat) (endpoint : Rat) (i : Nat) : Rat := abelT n endpoint i + endpoint / n / 2

/-- where the code writes an entry: `np.where(tmat < smat)` -/
def abelMask (n : Nat) (endpoint : Rat) (i j : Nat) : Bool := decide (abelT n endpoint j < abelS n endpoint i)

/-- **Documented quadrature** (square of the weight): `A[i,j]² = h² / |s_i − t_j|` on the mask, else 0 -/
def abelDocSq (n : Nat) (endpoint : Rat) : LMat Rat where
  rows := n
  cols := n
  e := fun i j =>
    if abelMask n endpoint i j then (endpoint / n) * (endpoint / n) / (abelS n endpoint i - abelT n endpoint j) else 0

/-! ## WangCubic -/

open RExpr in
/-- `forward(x) = 10*x[1] - 10*x[0]**3 + 5*x[0]**2 + 6*x[0]` -/
def wangF : RExpr := 10 * var 1 - 10 * (var 0) ^ 3 + 5 * (var 0) ^ 2 + 6 * var 0

open RExpr in
/-- `jacobian(x) = [[-30*x[0]**2 + 10*x[0] + 6, 10]]` -/
def wangJ : List RExpr := [-(30 * (var 0) ^ 2) + 10 * var 0 + 6, 10]

/-- `if data is None: data = 1` — data that are given are used verbatim (also `0`); likewise
    `noise_std=1` is only the default of the signature -/
def wangData (d : Option Rat) : Rat := match d with | some v => v | none => 1
def wangStd (s : Option Rat) : Rat := match s with | some v => v | none => 1

/-! ## data generation -/
section noise
variable {R : Type} [Zero R] [One R] [Add R] [Mul R] [Div R]

/-- `Gaussian(mean, cov)` with scalar / vector `cov`: `sqrtprec = diag(1/sqrt(cov))`;
    `_sample`: `mean + solve(sqrtprec, e)`, i.e. componentwise `mean_i + e_i / (1/sqrt(cov_i))`.
    `sqrtF` is the square root (a parameter: `Real.sqrt` in the theorems, exact on squares in the driver). -/
def samplePath (sqrtF : R → R) (cov mean e : Nat → R) : Nat → R :=
  fun i => mean i + e i / (1 / sqrtF (cov i))

/-- `noise_std**2` -/
def covGaussian (σ : R) : Nat → R := fun _ => σ * σ

/-- `(y_exact*noise_std)**2` -/
def covScaled (σ : R) (y : Nat → R) : Nat → R := fun i => (y i * σ) * (y i * σ)

/-- **Documented data**: `exact + σ·ξ` ("gaussian") or `exact + σ·|exact|·ξ` ("scaledgaussian") -/
def docData (scaled : Bool) (absF : R → R) (σ : R) (y ξ : Nat → R) : Nat → R :=
  fun i => y i + (if scaled then σ * absF (y i) else σ) * ξ i

/-- PDE / Abel problems: `y_exact + np.random.normal(0, sigma, shape)`, `normal(μ,σ) = μ + σ·ξ` -/
def dataNormal (σ : R) (y ξ : Nat → R) : Nat → R := fun i => y i + (0 + σ * ξ i)

end noise

/-- certificate for `sigma = np.linalg.norm(y_exact)/SNR` (a square root): `σ ≥ 0` and
    `σ²·SNR² = ‖y‖²` up to the relative tolerance `tol` (floating point leaf) -/
def snrSigmaOk (σ snr tol : Rat) (y : List Rat) : Bool :=
  let n2 := QMat.norm2 y
  let d := σ * σ * snr * snr - n2
  decide (0 ≤ σ) && decide ((if d < 0 then -d else d) ≤ tol * n2)

/-- exact rational absolute value / square root on squares (driver instances of `absF`, `sqrtF`) -/
def absQ (q : Rat) : Rat := if q < 0 then -q else q
def sqrtQ (q : Rat) : Rat := (RExpr.sqrtQ? q).getD 0

/-- noise types accepted by the deconvolution problems (after `.lower()`); others raise -/
def noiseType : String → Option Bool
  | "gaussian" => some false | "scaledgaussian" => some true | _ => none

/-! ## log-posterior -/

/-- `Σ_i dev_i² / cov_i` — the quadratic form of the Gaussian data distribution -/
def quadForm (cov dev : List Rat) : Rat :=
  (List.zipWith (fun c d => d * d / c) cov dev).foldl (· + ·) 0

/-! ## component plumbing (`BayesianProblem`) -/

/-- The objects a test problem creates, by identity. -/
inductive Obj | model | data | prior | dataDist | likelihood | posterior | exactSolution | exactData | info | absent
  deriving DecidableEq, Repr

/-- How the constructor hands its pieces to `BayesianProblem.__init__`:
    `viaLikelihood`: `super().__init__(likelihood, prior)` with `likelihood = data_dist.to_likelihood(data)`
    (Deconvolution1D/2D, WangCubic); `viaData`: `super().__init__(y, x, y=data)` (Poisson1D, Heat1D, Abel1D). -/
inductive Path | viaLikelihood | viaData
  deriving DecidableEq, Repr

/-- a likelihood object: the data distribution it wraps and the data it was conditioned on -/
structure Lik where
  dist : Obj
  data : Obj
  /-- the `Model` found among the mutable variables of the distribution (`Likelihood.model`) -/
  distMean : Obj

/-- the reduced target `JointDistribution(lik, prior)(**data)` = `Posterior(likelihood, prior)` -/
structure Target where
  likelihood : Lik
  prior : Obj

/-- `BayesianProblem.__init__` on the two paths.  `viaData` conditions the data distribution `y`
    on `y=data` (it becomes the likelihood); `viaLikelihood` receives the likelihood ready-made. -/
def mkTarget : Path → Target
  | .viaLikelihood => { likelihood := { dist := .dataDist, data := .data, distMean := .model }, prior := .prior }
  | .viaData => { likelihood := { dist := .dataDist, data := .data, distMean := .model }, prior := .prior }

/-- `BayesianProblem.likelihood/.prior/.data/.model` -/
def Target.getData (t : Target) : Obj := t.likelihood.data
def Target.getModel (t : Target) : Obj := t.likelihood.distMean
def Target.getPrior (t : Target) : Obj := t.prior

/-- the test problems and which attributes their constructors store -/
inductive Problem | deconv1D | deconv2D | poisson1D | heat1D | abel1D | wangCubic
  deriving DecidableEq, Repr

def Problem.path : Problem → Path
  | .deconv1D | .deconv2D | .wangCubic => .viaLikelihood
  | _ => .viaData

/-- `self.infoString` is set by Deconvolution1D/2D, Heat1D, WangCubic (not by Poisson1D, Abel1D) -/
def Problem.hasInfoString : Problem → Bool
  | .poisson1D | .abel1D => false
  | _ => true

/-- `self.exactSolution/exactData` are `None` for WangCubic -/
def Problem.hasExact : Problem → Bool
  | .wangCubic => false
  | _ => true

/-- `self.Miscellaneous` only for Deconvolution2D -/
def Problem.hasMisc : Problem → Bool
  | .deconv2D => true
  | _ => false

/-- `get_components()`: `(self.model, self.data, ProblemInfo)`; the info fields are copied from the
    instance attributes of the same name when present -/
structure Components where
  model : Obj
  data : Obj
  exactSolution : Obj
  exactData : Obj
  hasInfoString : Bool
  hasMisc : Bool

def getComponents (p : Problem) : Components :=
  let t := mkTarget p.path
  { model := t.getModel, data := t.getData,
    exactSolution := if p.hasExact then .exactSolution else .absent,
    exactData := if p.hasExact then .exactData else .absent,
    hasInfoString := p.hasInfoString, hasMisc := p.hasMisc }

/-- `"Noise type: Additive {} with std: {}".format(noise_type.capitalize(), noise_std)`; the number is
    formatted by the harness (Python `str(float)`), the capitalisation is modelled -/
def capitalize (s : String) : String :=
  match s.toList with
  | [] => ""
  | c :: cs => String.ofList (c.toUpper :: cs.map Char.toLower)

end CuqiVerif.C17
