/-
  C12 model, session-3 second pass — `Model.gradient` with a `Samples` object as `wrt`
  (`cuqi/model/_model.py` l. 394–411), the case `Model/C12.lean` leaves open (`gradient … = none` for
  `is_wrt_par=False`).  The code first converts: `wrt_par = self._2par(wrt, domain_geometry, is_par=is_wrt_par)`.
  A `Samples` object is not a CUQIarray, so with `is_wrt_par=False` this is `domain_geometry.fun2par(samples)`
  — what that does to a non-array object is a property of the geometry (leaf datum `ObjConv`: identity-like
  geometries hand it back, `Image2D` raises `AttributeError`, a `MappedGeometry` without `imap` `ValueError`, …).
  `ValueError` / `NotImplementedError` are re-raised as the same class, every other exception propagates, and
  only then `_check_gradient_can_be_computed` refuses the `Samples` argument.  Import-free apart from `Model/C12.lean`.
-/
import CuqiVerif.Model.C12

namespace CuqiVerif.C12

/-- what `geometry.fun2par(obj)` does for an object that is not an array -/
inductive ObjConv
  | passes                      -- returns something (no exception)
  | raises (e : Err)            -- one of the classes the model knows
  | raisesOther (cls : String)  -- any other class (`AttributeError`, …)

/-- the exception class a call raises: modelled class or any other by name -/
inductive Raised
  | known (e : Err)
  | other (cls : String)
  deriving DecidableEq

def Raised.toString : Raised → String
  | .known e => e.toString
  | .other c => c

/-- `Model.gradient(direction, wrt=Samples(...), is_direction_par, is_wrt_par)`: never returns a value.
    `dirIsSamples`: whether `direction` is a `Samples` object too. -/
def gradientSamplesWrt {α β : Type} (m : ModelObj α β) (dirIsSamples isWrtPar : Bool) (conv : ObjConv) : Raised :=
  -- `_2par(wrt, …, is_par=is_wrt_par)`: untouched for `is_wrt_par=True`, else `fun2par(wrt)`
  match (if isWrtPar then ObjConv.passes else conv) with
  | .raises e => .known e                    -- `except ValueError` / `except NotImplementedError`: same class; others propagate
  | .raisesOther c => .other c
  | .passes =>
    match checkGradient m dirIsSamples true with
    | .error e => .known e
    | .ok _ => .known Err.valueError         -- unreachable: the check refuses a Samples `wrt`

/-- `Model.gradient` for every combination of array / `Samples` arguments: `gradient` of `Model/C12.lean`
    where it is defined, `gradientSamplesWrt` for the remaining case. -/
def gradientFull {α β : Type} (m : ModelObj α β) (dir : GArg β) (wrt : GArg α) (isDirPar isWrtPar : Bool)
    (conv : ObjConv) : Except Raised (Val α) :=
  match gradient m dir wrt isDirPar isWrtPar with
  | some (.ok v) => .ok v
  | some (.error e) => .error (.known e)
  | none => .error (gradientSamplesWrt m (match dir with | .samples => true | _ => false) isWrtPar conv)

end CuqiVerif.C12
