/-
  C10 model, part 3 — the GMRF quadratic forms evaluated by stencils (session-3 extension).
  Core `Rat`, executable; same values as `gmrfQuad` of `Model/C10.lean` (theorem `gmrfQuadFast_eq`,
  `Props/C10_stencil.lean`, for every order, boundary condition, size and data), but in `O(dim)` instead of
  `O(rows · dim)` operations: usable for the sizes where `GMRF.__init__` changes its code path
  (`dim > config.MAX_DIM_INV = 2000`: 2-D grids from 45 × 45).

  Transcribed code: `cuqi/operator/_operator.py` `FirstOrderFiniteDifference` / `SecondOrderFiniteDifference`
  row by row (the stencils proved in `Props/C20.lean`: `firstOrder_*_apply`, `secondOrder_*_apply`), and the
  2-D operator `vstack([kron(I, D), kron(D, I)])`, which applies the 1-D operator to every row and every
  column of the image (`lift2D_apply_top` / `_bottom`).
-/
import CuqiVerif.Model.C10
namespace CuqiVerif.C10
open CuqiVerif.C20 (BC FMat)

/-- row `i` of the 1-D difference operator `C20.diffOp order bc n` applied to `x`, as a stencil.
    Where the closed form needs a side condition (periodic wrap-around: `n ≥ 2` resp. `n ≥ 3`, row inside the
    matrix) and it fails, or for boundary conditions GMRF does not accept, the matrix row is evaluated. -/
def stencil1 (order : Nat) (bc : BC) (n : Nat) (x : Nat → Rat) (i : Nat) : Rat :=
  match order, bc with
  | 0, _ => if i < n then x i else 0
  | 1, .zero => (if i < n then x i else 0) - (if 1 ≤ i ∧ i - 1 < n then x (i - 1) else 0)
  | 1, .periodic =>
    if 2 ≤ n ∧ i ≤ n then x (i % n) - x ((i + n - 1) % n) else applyQ (C20.diffOp 1 .periodic n) x i
  | 1, .neumann => (if i + 1 < n then x (i + 1) else 0) - (if i < n then x i else 0)
  | _ + 2, .zero =>
    -(if 2 ≤ i ∧ i - 2 < n then x (i - 2) else 0) + 2 * (if 1 ≤ i ∧ i - 1 < n then x (i - 1) else 0)
      - (if i < n then x i else 0)
  | o + 2, .periodic =>
    if 3 ≤ n ∧ i ≤ n + 1 then -x ((i + n - 2) % n) + 2 * x ((i + n - 1) % n) - x (i % n)
    else applyQ (C20.diffOp (o + 2) .periodic n) x i
  | _ + 2, .neumann =>
    -(if i < n then x i else 0) + 2 * (if i + 1 < n then x (i + 1) else 0) - (if i + 2 < n then x (i + 2) else 0)
  | o, bc => applyQ (C20.diffOp o bc n) x i

/-- `‖D x‖²`, `D = diffOp order bc n`, by stencils -/
def stencilNormSq1 (order : Nat) (bc : BC) (n : Nat) (x : Nat → Rat) : Rat :=
  sumTo (C20.diffOp order bc n).rows (fun k => sq (stencil1 order bc n x k))

/-- `‖D₂ v‖²` for the 2-D operator on an `n × n` image stored row-major: the 1-D operator applied to each of
    the `n` rows (`kron(I, D)`) and to each of the `n` columns (`kron(D, I)`). -/
def stencilNormSq2 (order : Nat) (bc : BC) (n : Nat) (v : Nat → Rat) : Rat :=
  sumTo n (fun a => stencilNormSq1 order bc n (fun c => v (a * n + c)))
    + sumTo n (fun b => stencilNormSq1 order bc n (fun c => v (c * n + b)))

def stencilNormSq (order : Nat) (bc : BC) (pd n : Nat) (v : Nat → Rat) : Rat :=
  if pd = 2 then stencilNormSq2 order bc n v else stencilNormSq1 order bc n v

/-- `dev mean b` with constant-time access (arrays instead of lists) -/
def devA (ax b : List Rat) : Nat → Rat :=
  let A := ax.toArray
  let B := b.toArray
  fun i => (if A.size = 1 then A.getD 0 0 else A.getD i 0) - (if B.size = 1 then B.getD 0 0 else B.getD i 0)

/-- `gmrfQuad` evaluated by stencils -/
def gmrfQuadFast (order : Nat) (bc : BC) (pd n : Nat) (c1 : Rat) (mean b : List Rat) : Quad :=
  let v := devA mean b
  let qD := stencilNormSq order bc pd n v
  ⟨c1 * (qD + gmrfReg bc * normSq (gmrfDim pd n) v), c1 * qD, C20.declaredRank bc (gmrfDim pd n)⟩

/-! ## `GMRF.__init__` refusals and the `GMRF.prec` setter (glue around the quadratic forms) -/

/-- `GMRF.__init__` / `PrecisionFiniteDifference`: `order ∉ {0,1,2}` → `NotImplementedError`; `bc_type` other than
    zero / periodic / neumann → `ValueError`; a geometry with `par_dim ≤ 1` → `ValueError`. -/
def gmrfAccepts (order : Nat) (bc : BC) (pd n : Nat) : Bool :=
  decide (order ≤ 2) && (bc == .zero || bc == .periodic || bc == .neumann) && decide (1 < gmrfDim pd n)

/-- `GMRF.prec` setter applied to the value of the callable at the hyper-parameter (`likelihood.distribution(
    np.array([1]))`): an ndarray with exactly one element is unwrapped, any other length is a `ValueError`
    ("Precision must be a scalar or a 1D array with a single scalar element") — so a vector valued `prec`, although it
    passes the entry-wise identity probe of the experimental validator, is refused at the first step. -/
def gmrfPrecOf (v : List Rat) : Option Rat :=
  match v with
  | [c] => some c
  | _ => none

end CuqiVerif.C10
