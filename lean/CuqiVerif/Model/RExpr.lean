/-
  RExpr — a deep embedding of closed-form real expressions (import-free, executable).

  Shared by C03 (gradients) and C04 (log-densities).  A model writes the formula of the Python
  code once, as an `RExpr`, with ordinary arithmetic notation:

      -(log (pi * s * (1 + ((x - l) / s) ^ 2)))

  and gets three interpretations of the *same* syntax tree:

  * `RExpr.eval  : (Nat → ℝ) → RExpr → ℝ`      noncomputable, in `CuqiVerif/Proofs/RExpr.lean`
                                                (theorems quantify over all real environments);
  * `RExpr.evalQ : (Nat → Rat) → RExpr → Option Rat`   exact; `none` as soon as the value is not a
                                                rational the evaluator can produce (division by zero,
                                                `log`/`exp`/`pi`/`lgamma`, `sqrt` of a non-square);
  * `RExpr.evalFloat : (Nat → Float) → RExpr → Float`  IEEE doubles with numpy's conventions
                                                (`x/0 = ±inf`, `log(-1) = NaN`, NaN propagates);
                                                `lgamma` by a Lanczos series (|rel. err| < 1e-13 on x>0).

  and a symbolic derivative `RExpr.deriv i e` (w.r.t. variable `i`), which
  `CuqiVerif.RExpr.hasDerivAt_deriv` (Proofs/RExpr.lean) proves to be the derivative of
  `t ↦ eval ρ[i ↦ t] e` at every environment where `e` is `Safe`.

  API (all in namespace `CuqiVerif.RExpr`):
    constructors  const q | var i | add | sub | mul | div | neg | pow e n | log | exp | sqrt | abs | pi | lgamma
    notation      `+ - * /`, unary `-`, `e ^ (n : Nat)`, numerals (`(2 : RExpr)`), `ofRat q`
    hasVar i e    does variable `i` occur in `e`
    deriv i e     symbolic partial derivative
    sum l         `l.foldr (· + ·) 0`
    evalQ / evalFloat / envQ / envF (environment from a list) / ratToFloat
    toStr         printer (debugging, replay files)
  Variables are numbered; by convention of the users `var 0` is the evaluation point of a scalar
  component and `var 1, var 2, …` its parameters.
-/
namespace CuqiVerif

inductive RExpr where
  | const (q : Rat)
  | var (i : Nat)
  | add (a b : RExpr)
  | sub (a b : RExpr)
  | mul (a b : RExpr)
  | div (a b : RExpr)
  | neg (a : RExpr)
  | pow (a : RExpr) (n : Nat)
  | log (a : RExpr)
  | exp (a : RExpr)
  | sqrt (a : RExpr)
  | abs (a : RExpr)
  | pi
  | lgamma (a : RExpr)
  deriving Repr, Inhabited, BEq

namespace RExpr

instance : Add RExpr := ⟨RExpr.add⟩
instance : Sub RExpr := ⟨RExpr.sub⟩
instance : Mul RExpr := ⟨RExpr.mul⟩
instance : Div RExpr := ⟨RExpr.div⟩
instance : Neg RExpr := ⟨RExpr.neg⟩
instance : HPow RExpr Nat RExpr := ⟨RExpr.pow⟩
instance (n : Nat) : OfNat RExpr n := ⟨RExpr.const (n : Rat)⟩

def ofRat (q : Rat) : RExpr := .const q

/-- does variable `i` occur in the expression -/
def hasVar (i : Nat) : RExpr → Bool
  | const _ => false
  | var j => j == i
  | add a b => hasVar i a || hasVar i b
  | sub a b => hasVar i a || hasVar i b
  | mul a b => hasVar i a || hasVar i b
  | div a b => hasVar i a || hasVar i b
  | neg a => hasVar i a
  | pow a _ => hasVar i a
  | log a => hasVar i a
  | exp a => hasVar i a
  | sqrt a => hasVar i a
  | abs a => hasVar i a
  | pi => false
  | lgamma a => hasVar i a

/-- Symbolic partial derivative with respect to variable `i`.
    `lgamma a` is differentiated as a constant: `Safe` demands that `a` does not contain `i`
    (the log-densities only apply `lgamma` to parameters). -/
def deriv (i : Nat) : RExpr → RExpr
  | const _ => const 0
  | var j => if j = i then const 1 else const 0
  | add a b => add (deriv i a) (deriv i b)
  | sub a b => sub (deriv i a) (deriv i b)
  | mul a b => add (mul (deriv i a) b) (mul a (deriv i b))
  | div a b => div (sub (mul (deriv i a) b) (mul a (deriv i b))) (pow b 2)
  | neg a => neg (deriv i a)
  | pow a n => mul (mul (const (n : Rat)) (pow a (n - 1))) (deriv i a)
  | log a => div (deriv i a) a
  | exp a => mul (exp a) (deriv i a)
  | sqrt a => div (deriv i a) (mul (const 2) (sqrt a))
  | abs a => mul (div a (abs a)) (deriv i a)
  | pi => const 0
  | lgamma _ => const 0

/-- sum of a list of expressions -/
def sum (l : List RExpr) : RExpr := l.foldr (· + ·) (const 0)

/-! ### exact evaluation -/

/-- exact rational square root, if the argument is the square of a rational -/
def sqrtQ? (q : Rat) : Option Rat :=
  if q < 0 then none else
  let n := q.num.natAbs
  let d := q.den
  let rn := Nat.sqrt n
  let rd := Nat.sqrt d
  if rn * rn = n ∧ rd * rd = d then some (mkRat rn rd) else none

def powQ (q : Rat) : Nat → Rat
  | 0 => 1
  | n + 1 => powQ q n * q

/-- Exact evaluation; `none` whenever the value is not available as an exact rational. -/
def evalQ (ρ : Nat → Rat) : RExpr → Option Rat
  | const q => some q
  | var i => some (ρ i)
  | add a b => do let x ← evalQ ρ a; let y ← evalQ ρ b; pure (x + y)
  | sub a b => do let x ← evalQ ρ a; let y ← evalQ ρ b; pure (x - y)
  | mul a b => do let x ← evalQ ρ a; let y ← evalQ ρ b; pure (x * y)
  | div a b => do
      let x ← evalQ ρ a; let y ← evalQ ρ b
      if y = 0 then none else pure (x / y)
  | neg a => do let x ← evalQ ρ a; pure (-x)
  | pow a n => do let x ← evalQ ρ a; pure (powQ x n)
  | log a => do let x ← evalQ ρ a; if x = 1 then pure 0 else none
  | exp a => do let x ← evalQ ρ a; if x = 0 then pure 1 else none
  | sqrt a => do let x ← evalQ ρ a; sqrtQ? x
  | abs a => do let x ← evalQ ρ a; pure (if x < 0 then -x else x)
  | pi => none
  | lgamma a => do let x ← evalQ ρ a; if x = 1 ∨ x = 2 then pure 0 else none

/-! ### floating-point evaluation (driver only) -/

/-- nearest double of an exact rational (robust for huge numerators/denominators) -/
def ratToFloat (q : Rat) : Float :=
  let n := q.num.natAbs
  if n = 0 then 0.0 else
  let d := q.den
  let e : Int := 64 + (Nat.log2 d : Int) - (Nat.log2 n : Int)
  let qn : Nat := if e ≥ 0 then (n <<< e.toNat) / d else n / (d <<< (-e).toNat)
  let f := (Float.ofNat qn).scaleB (-e)
  if q.num < 0 then -f else f

def piF : Float := 3.141592653589793

def powF (x : Float) : Nat → Float
  | 0 => 1.0
  | n + 1 => powF x n * x

/-- log Γ(x) by the Lanczos series (g = 7, 9 terms); reflection for x < 1/2. -/
def lgammaF (x : Float) : Float :=
  let c : List Float := [0.99999999999980993, 676.5203681218851, -1259.1392167224028,
    771.32342877765313, -176.61502916214059, 12.507343278686905, -0.13857109526572012,
    9.9843695780195716e-6, 1.5056327351493116e-7]
  let core (x : Float) : Float :=
    let x := x - 1.0
    let t := x + 7.5
    let a := (c.drop 1).foldl (fun (acc : Float × Float) ci => (acc.1 + ci / (x + acc.2), acc.2 + 1.0)) (c.headD 0.0, 1.0)
    0.5 * Float.log (2.0 * piF) + (x + 0.5) * Float.log t - t + Float.log a.1
  if x < 0.5 then Float.log (piF / Float.abs (Float.sin (piF * x))) - core (1.0 - x) else core x

def evalFloat (ρ : Nat → Float) : RExpr → Float
  | const q => ratToFloat q
  | var i => ρ i
  | add a b => evalFloat ρ a + evalFloat ρ b
  | sub a b => evalFloat ρ a - evalFloat ρ b
  | mul a b => evalFloat ρ a * evalFloat ρ b
  | div a b => evalFloat ρ a / evalFloat ρ b
  | neg a => -(evalFloat ρ a)
  | pow a n => powF (evalFloat ρ a) n
  | log a => Float.log (evalFloat ρ a)
  | exp a => Float.exp (evalFloat ρ a)
  | sqrt a => Float.sqrt (evalFloat ρ a)
  | abs a => Float.abs (evalFloat ρ a)
  | pi => piF
  | lgamma a => lgammaF (evalFloat ρ a)

/-- environment from a list (variables beyond the list are 0) -/
def envQ (l : List Rat) : Nat → Rat := fun i => l.getD i 0
def envF (l : List Rat) : Nat → Float := fun i => ratToFloat (l.getD i 0)

/-- Value for the line protocol: exact (`q:<n/d>`) when `evalQ` succeeds, else the bits of the
    double computed by `evalFloat` (`f:<uint64>`). -/
def fmtRatS (q : Rat) : String :=
  if q.den = 1 then toString q.num else toString q.num ++ "/" ++ toString q.den

def evalStr (l : List Rat) (e : RExpr) : String :=
  match evalQ (envQ l) e with
  | some q => "q:" ++ fmtRatS q
  | none => "f:" ++ toString (evalFloat (envF l) e).toBits

/-! ### printer -/
def toStr : RExpr → String
  | const q => "(" ++ fmtRatS q ++ ")"
  | var i => "x" ++ toString i
  | add a b => "(" ++ toStr a ++ " + " ++ toStr b ++ ")"
  | sub a b => "(" ++ toStr a ++ " - " ++ toStr b ++ ")"
  | mul a b => "(" ++ toStr a ++ " * " ++ toStr b ++ ")"
  | div a b => "(" ++ toStr a ++ " / " ++ toStr b ++ ")"
  | neg a => "(-" ++ toStr a ++ ")"
  | pow a n => toStr a ++ "^" ++ toString n
  | log a => "log" ++ toStr a
  | exp a => "exp" ++ toStr a
  | sqrt a => "sqrt" ++ toStr a
  | abs a => "abs" ++ toStr a
  | pi => "pi"
  | lgamma a => "lgamma" ++ toStr a

end RExpr
end CuqiVerif
