import CuqiVerif.Model.C14

/-
  C14 model, part 3 — the guards and error branches of the stateful base class
  (`cuqi/experimental/mcmc/_sampler.py`, class `Sampler`) that `Model/C14.lean` leaves out:

    * `initialize()`: `ValueError("Sampler is already initialized.")`; the default initial point
      (`if self.initial_point is None: self.initial_point = self._get_default_initial_point(self.dim)`
      = `np.ones(dim)`); `_validate_initialization()` (a state key that is still `None` after
      `_initialize()` → `ValueError`, with `_is_initialized` left `False` but the attributes and the
      fresh history already assigned);
    * `set_state(state)`: the metadata check (`sampler_type` must be the class name — nothing is
      assigned on a mismatch), then the keys in dictionary order, raising at the first key that is
      not a state key — *after* the assignments for the keys before it;
    * `load_checkpoint`: `_ensure_initialized()` first, then `set_state`.
  Import-free and executable.
-/
namespace CuqiVerif.C14

inductive ApiError
  | alreadyInit   -- `ValueError("Sampler is already initialized.")`
  | unsetKey      -- `ValueError("Sampler state key … is not set after initialization.")`
  | typeMismatch  -- `ValueError("Sampler type in state dictionary … does not match …")`
  | badKey        -- `ValueError("Key … not recognized in state dictionary …")`
  deriving DecidableEq, Repr

/-- the loop of `set_state`: assignments in dictionary order up to the first key that is not a
    state key; the flag says whether the loop ran to the end -/
def setStateRun (keys : List String) : List (String × Val) → Obj → Obj × Bool
  | [], o => (o, true)
  | (k, v) :: rest, o => if k ∈ keys then setStateRun keys rest (o.set k v) else (o, false)

/-- `set_state({'metadata': {'sampler_type': ty}, 'state': st})` on an object of class `cls` -/
def setStateApi (cls : String) (keys : List String) (ty : String) (st : List (String × Val)) (o : Obj) :
    Obj × Option ApiError :=
  if ty ≠ cls then (o, some .typeMismatch)
  else
    let res := setStateRun keys st o
    (res.1, if res.2 then Option.none else some .badKey)

/-- the default of `Sampler.initialize`: `initial_point = np.ones(dim)` when none was given -/
def defaultPoint (dim : Nat) (o : Obj) : Obj :=
  if o.get "initial_point" = Val.none then o.set "initial_point" (.ints (List.replicate dim 1)) else o

/-- `Sampler.initialize()` with its guards; the second component is the exception raised, if any -/
def initializeApi {D A : Type} (sp : Spec D A) (dim : Nat) (r : Run D A) : Run D A × Option ApiError :=
  if r.initialized then (r, some .alreadyInit)
  else
    let o0 := defaultPoint dim r.obj
    let r1 : Run D A := { r with obj := sp.init o0, samples := [], acc := sp.initAcc o0 }
    if sp.stateKeys.any (fun k => r1.obj.get k = Val.none) then (r1, some .unsetKey)
    else ({ r1 with initialized := true }, Option.none)

/-- `_ensure_initialized()` -/
def ensureInitApi {D A : Type} (sp : Spec D A) (dim : Nat) (r : Run D A) : Run D A × Option ApiError :=
  if r.initialized then (r, Option.none) else initializeApi sp dim r

/-- `load_checkpoint(path)` for a pickled dictionary `(ty, st)` -/
def loadCheckpointApi {D A : Type} (sp : Spec D A) (cls : String) (dim : Nat) (ty : String)
    (st : List (String × Val)) (r : Run D A) : Run D A × Option ApiError :=
  match ensureInitApi sp dim r with
  | (r1, some e) => (r1, some e)
  | (r1, Option.none) =>
    let res := setStateApi cls sp.stateKeys ty st r1.obj
    ({ r1 with obj := res.1 }, res.2)

/-- a sampler class with the default initial point folded into `initialize` (so that the
    functions of `Model/C14.lean`, which call `init` directly, see it) -/
def withDefault {D A : Type} (sp : Spec D A) (dim : Nat) : Spec D A :=
  { sp with init := fun o => sp.init (defaultPoint dim o), initAcc := fun o => sp.initAcc (defaultPoint dim o) }

/-! ## `Samples.burnthin(Nb, Nt)` (`cuqi/samples/_samples.py`): how the stateful interface discards burn-in -/

/-- Python `l[0::nt]` for `nt ≥ 1`: the first entry, then every `nt`-th -/
def sliceStep {α : Type} (nt : Nat) : List α → List α
  | [] => []
  | a :: as => a :: sliceStep nt (as.drop (nt - 1))
termination_by l => l.length
decreasing_by simp [List.length_drop]; omega

/-- `Samples.burnthin(Nb, Nt)` on the chain `l` (non-negative `Nb`): `none` = `ValueError`
    (`Nb >= Ns`: "Number of burn-in … is greater than or equal number of samples", or slice step zero);
    otherwise `samples[..., Nb::Nt]` -/
def burnthin {α : Type} (nb nt : Nat) (l : List α) : Option (List α) :=
  if nb ≥ l.length then Option.none
  else if nt = 0 then Option.none
  else some (sliceStep nt (l.drop nb))

end CuqiVerif.C14
