/-
  C15 model — `cuqi.problem.BayesianProblem.MAP / ML / _solve_max_point / _sampleMapCholesky /
  sample_posterior / _check_posterior` (cuqi/problem/_problem.py), the `cov` getter of
  `cuqi.distribution.Gaussian` (cuqi/distribution/_gaussian.py l.132-137), and
  `LinearModel.get_matrix` (cuqi/model/_model.py l.599-620).  Import-free and executable.

  The closed-form MAP of the code is three lines of numpy,

      rhs  = b - A@x0
      sysm = A@Cx@A.T + Ce
      x_MAP = x0 + Cx@(A.T@np.linalg.solve(sysm, rhs))

  evaluated on whatever arrays the `cov` getters return, after `np.size(C)==1 → C.ravel()[0]*eye`
  and (since repo commit 0527445) `np.ndim(C)==1 → np.diag(C)`.
  The model transcribes *numpy's semantics* of `@`, `+`, `-`, `.T` and `linalg.solve` on arrays of
  rank 0, 1, 2 (`NArr`), so that the three lines are transcribed literally — including what they do
  to a scalar prior mean, to a covariance of the wrong size, and to a stored matrix whose shape is
  not `(range_dim, domain_dim)`.  (`_sampleMapCholesky` has only the scalar expansion: a 1-D
  covariance vector reaches `np.linalg.inv` and is refused there.)

  Numbers live in an arbitrary carrier `R`; the driver runs `R = Rat`.  `linalg.solve` is a
  *certified oracle*: the model is parametrised by an untrusted `Solver` whose answer is accepted
  only if `sysm · s = rhs` holds exactly (checked inside `NArr.solve`), hence every theorem about a
  successful `mapDirect` holds for every solver.
-/
namespace CuqiVerif.C15

/-- `Σ_{k<n} f k` -/
def sumTo {R : Type} [Zero R] [Add R] : Nat → (Nat → R) → R
  | 0, _ => 0
  | n + 1, f => sumTo n f + f n

/-- Python exception classes that the modelled code paths raise. -/
inductive Err
  | valueError       -- numpy: shape mismatch in `@` / broadcasting
  | linAlgError      -- numpy.linalg: not 2-D / not square
  | singular         -- numpy.linalg.LinAlgError("Singular matrix") (exact singularity; floats may not notice)
  | notImplemented   -- `Gaussian.cov` getter for non-`cov` parameterisations
  deriving DecidableEq, Repr, Inhabited

def Err.toString : Err → String
  | .valueError => "ValueError"
  | .linAlgError => "LinAlgError"
  | .singular => "LinAlgError:singular"
  | .notImplemented => "NotImplementedError"

/-- numpy array of rank ≤ 2: shape and entry function (entries outside the shape are never read). -/
inductive NArr (R : Type)
  | s (c : R)
  | v (len : Nat) (f : Nat → R)
  | m (rows cols : Nat) (F : Nat → Nat → R)

/-- untrusted linear solver: `slv n S g` proposes `x` with `S x = g` (`none`: singular) -/
abbrev Solver (R : Type) := Nat → (Nat → Nat → R) → (Nat → R) → Option (Nat → R)

section np
variable {R : Type} [Zero R] [One R] [Add R] [Sub R] [Mul R]

/-- `np.size` -/
def NArr.size : NArr R → Nat
  | .s _ => 1
  | .v l _ => l
  | .m r c _ => r * c

/-- `a.ravel()[0]` -/
def NArr.first : NArr R → R
  | .s c => c
  | .v _ f => f 0
  | .m _ _ F => F 0 0

/-- `a.T` (no-op below rank 2) -/
def NArr.T : NArr R → NArr R
  | .m r c F => .m c r (fun i j => F j i)
  | a => a

/-- `np.eye(n)` -/
def eye (n : Nat) : NArr R := .m n n (fun i j => if i = j then 1 else 0)

/-- `c * a` for a python scalar `c` -/
def NArr.scale (c : R) : NArr R → NArr R
  | .s d => .s (c * d)
  | .v l f => .v l (fun i => c * f i)
  | .m r k F => .m r k (fun i j => c * F i j)

/-- `a @ b` (`numpy.matmul`): 2-D@2-D, 2-D@1-D, 1-D@2-D, 1-D@1-D (→ 0-d); scalars are refused;
    a mismatch of the contracted dimension is a `ValueError`. -/
def NArr.matmul : NArr R → NArr R → Except Err (NArr R)
  | .m r c F, .m r' c' G =>
    if c = r' then .ok (.m r c' (fun i j => sumTo c (fun k => F i k * G k j))) else .error .valueError
  | .m r c F, .v l g =>
    if c = l then .ok (.v r (fun i => sumTo c (fun k => F i k * g k))) else .error .valueError
  | .v l f, .m r c G =>
    if l = r then .ok (.v c (fun j => sumTo l (fun k => f k * G k j))) else .error .valueError
  | .v l f, .v l' g =>
    if l = l' then .ok (.s (sumTo l (fun k => f k * g k))) else .error .valueError
  | _, _ => .error .valueError

/-- broadcast of one axis: equal, or one of them is 1 -/
def bdim (a b : Nat) : Option Nat :=
  if a = b then some a else if a = 1 then some b else if b = 1 then some a else none

/-- index into an axis of length `a` that was broadcast -/
def bidx (a i : Nat) : Nat := if a = 1 then 0 else i

/-- elementwise binary operation with numpy broadcasting (a 1-D array is a row) -/
def NArr.zipB (op : R → R → R) : NArr R → NArr R → Except Err (NArr R)
  | .s c, .s d => .ok (.s (op c d))
  | .s c, .v l g => .ok (.v l (fun i => op c (g i)))
  | .v l f, .s d => .ok (.v l (fun i => op (f i) d))
  | .s c, .m r k G => .ok (.m r k (fun i j => op c (G i j)))
  | .m r k F, .s d => .ok (.m r k (fun i j => op (F i j) d))
  | .v l f, .v l' g =>
    match bdim l l' with
    | some n => .ok (.v n (fun i => op (f (bidx l i)) (g (bidx l' i))))
    | none => .error .valueError
  | .m r k F, .v l g =>
    match bdim k l with
    | some n => .ok (.m r n (fun i j => op (F i (bidx k j)) (g (bidx l j))))
    | none => .error .valueError
  | .v l f, .m r k G =>
    match bdim l k with
    | some n => .ok (.m r n (fun i j => op (f (bidx l j)) (G i (bidx k j))))
    | none => .error .valueError
  | .m r k F, .m r' k' G =>
    match bdim r r', bdim k k' with
    | some p, some n => .ok (.m p n (fun i j => op (F (bidx r i) (bidx k j)) (G (bidx r' i) (bidx k' j))))
    | _, _ => .error .valueError

def NArr.add (a b : NArr R) : Except Err (NArr R) := NArr.zipB (· + ·) a b
def NArr.sub (a b : NArr R) : Except Err (NArr R) := NArr.zipB (· - ·) a b

/-- `np.linalg.solve(a, b)` for a 1-D right-hand side: `a` must be 2-D and square
    (`LinAlgError`), `b` of matching length (`ValueError`), `a` non-singular (`LinAlgError`).
    The solver's answer is accepted only with its certificate `a · x = b`. -/
def NArr.solve [DecidableEq R] (slv : Solver R) : NArr R → NArr R → Except Err (NArr R)
  | .m r c F, .v l g =>
    if r ≠ c then .error .linAlgError
    else if l ≠ r then .error .valueError
    else match slv r F g with
      | none => .error .singular
      | some x =>
        if (List.range r).all (fun i => decide (sumTo r (fun k => F i k * x k) = g i)) then .ok (.v r x)
        else .error .singular
  | .m _ _ _, _ => .error .valueError
  | _, _ => .error .linAlgError

/-! ## the `cov` getter and the closed-form MAP -/

/-- `Gaussian.cov` (l.132-137): the stored `_cov`; for a Gaussian specified by `prec`, `sqrtcov`
    or `sqrtprec` the attribute is `None` (unless `compute_cov()` was called) and the getter raises
    `NotImplementedError`.  `none` = "`_cov` is None and 'cov' is not the mutable variable". -/
def getCov (c : Option (NArr R)) : Except Err (NArr R) :=
  match c with
  | some a => .ok a
  | none => .error .notImplemented

/-- The part of a `Gaussian`'s state the `cov` getter reads: whether `'cov'` is the mutable
    variable, and the attribute `_cov`. -/
structure CovState (R : Type) where
  covMutable : Bool
  cov : Option (NArr R)

/-- operations on one Gaussian object that touch `_cov` -/
inductive CovOp (R : Type)
  /-- assignment to the main matrix through its setter (`g.cov = v`, `g.prec = v`, `g.sqrtcov = v`,
      `g.sqrtprec = v`): the `cov` setter stores `v`; the other three execute `self._cov = None`
      ("Reset covariance (in case it was computed before)", l.169/193/216) -/
  | setMain (v : NArr R)
  /-- `compute_cov()` (l.243-281): stores and returns the full covariance matrix of the *current* parameters -/
  | computeCov (full : NArr R)

def CovState.step (st : CovState R) : CovOp R → CovState R
  | .setMain v => if st.covMutable then { st with cov := some v } else { st with cov := none }
  | .computeCov full => { st with cov := some full }

def CovState.run (st : CovState R) (ops : List (CovOp R)) : CovState R := ops.foldl CovState.step st

/-- `if np.size(C)==1: C = C.ravel()[0]*np.eye(dim)` -/
def expandScalar (C : NArr R) (dim : Nat) : NArr R :=
  if C.size = 1 then NArr.scale C.first (eye dim) else C

/-- `if np.ndim(C)==1: C = np.diag(C)` -/
def diagIfVec : NArr R → NArr R
  | .v l f => .m l l (fun i j => if i = j then f i else 0)
  | a => a

/-- `BayesianProblem.MAP`, direct branch (l.265-285), literally. `A = model.get_matrix()`,
    `rangeDim/domainDim = model.range_dim/domain_dim` (the *geometries'* `par_dim`),
    `ce/cx` = what the `cov` getters of the likelihood's distribution / the prior hold,
    `x0 = prior.mean`, `b = data`. -/
def mapDirect [DecidableEq R] (slv : Solver R) (A : NArr R) (rangeDim domainDim : Nat)
    (ce cx : Option (NArr R)) (x0 b : NArr R) : Except Err (NArr R) := do
  let Ce ← getCov ce
  let Cx ← getCov cx
  let Ce := diagIfVec (expandScalar Ce rangeDim)
  let Cx := diagIfVec (expandScalar Cx domainDim)
  let Ax0 ← A.matmul x0
  let rhs ← b.sub Ax0
  let ACx ← A.matmul Cx
  let ACxAt ← ACx.matmul A.T
  let sysm ← ACxAt.add Ce
  let s ← NArr.solve slv sysm rhs
  let Ats ← A.T.matmul s
  let CxAts ← Cx.matmul Ats
  x0.add CxAts

/-- `BayesianProblem.MAP(disp, x0)` on the direct route.  The method's parameter `x0` (the user's
    initial guess for the *solver*) is overwritten by `x0 = self.prior.mean` (l.268) before anything
    reads it: the closed form takes the prior mean from the prior; `disp` only prints. -/
def mapMethod [DecidableEq R] (slv : Solver R) (disp : Bool) (userX0 : Option (NArr R)) (A : NArr R)
    (rangeDim domainDim : Nat) (ce cx : Option (NArr R)) (priorMean b : NArr R) : Except Err (NArr R) :=
  let x0 := priorMean
  mapDirect slv A rangeDim domainDim ce cx x0 b

/-! ## entry-level algebra used by the statements (and by the reference computation) -/

/-- `(M x)_i` for an `· × k` matrix -/
def mvec (k : Nat) (M : Nat → Nat → R) (x : Nat → R) : Nat → R := fun i => sumTo k (fun l => M i l * x l)

/-- the system matrix `A Cx Aᵀ + Ce` of the closed form (`A` is `m × n`) -/
def sysMat (n : Nat) (A Cx Ce : Nat → Nat → R) : Nat → Nat → R :=
  fun i j => sumTo n (fun k => sumTo n (fun l => A i l * Cx l k) * A j k) + Ce i j

/-- `x0 + Cx Aᵀ s` -/
def assemble (m n : Nat) (A Cx : Nat → Nat → R) (x0 s : Nat → R) : Nat → R :=
  fun j => x0 j + sumTo n (fun k => Cx j k * sumTo m (fun i => A i k * s i))

/-- the *documented* meaning of a covariance argument of dimension `dim`
    ("If a scalar or 1d-array, the value defines the diagonal entries"). -/
def docCov (dim : Nat) : NArr R → Option (Nat → Nat → R)
  | .s c => some (fun i j => if i = j then c else 0)
  | .v l f => if l = 1 then some (fun i j => if i = j then f 0 else 0)
              else if l = dim then some (fun i j => if i = j then f i else 0) else none
  | .m r c F => if r = 1 ∧ c = 1 then some (fun i j => if i = j then F 0 0 else 0)
                else if r = dim ∧ c = dim then some F else none

/-- information-form normal equations `(AᵀWeA + Wx) x = AᵀWe b + Wx x0`, residual of row `j` -/
def normalResidual (m n : Nat) (A We Wx : Nat → Nat → R) (x0 b x : Nat → R) : Nat → R :=
  fun j => sumTo m (fun i => A i j * sumTo m (fun l => We i l * (b l - mvec n A x l)))
           - sumTo n (fun k => Wx j k * (x k - x0 k))

/-! ## `LinearModel.get_matrix` (l.599-620) -/

/-- A matrix-backed model returns the stored matrix whatever its geometries are; a function-backed
    model assembles the columns `forward(e_j)`, i.e. the parameter-to-parameter map
    `F_R · A · E_D` (`E_D` = `par2fun` of the domain geometry, `F_R` = `fun2par` of the range
    geometry, both linear here). -/
def getMatrix (matrixBacked : Bool) (rangeFun domainFun rangePar domainPar : Nat)
    (A E F : Nat → Nat → R) : NArr R :=
  if matrixBacked then .m rangeFun domainFun A
  else .m rangePar domainPar
    (fun i j => sumTo rangeFun (fun p => F i p * sumTo domainFun (fun q => A p q * E q j)))

/-- what `forward` does to a parameter vector: `fun2par_R (A (par2fun_D x))` -/
def forwardPar (rangeFun domainFun domainPar : Nat) (A E F : Nat → Nat → R) (x : Nat → R) : Nat → R :=
  fun i => sumTo rangeFun (fun p => F i p * sumTo domainFun (fun q => A p q * sumTo domainPar (fun j => E q j * x j)))

/-! ## direct sampling (`_sampleMapCholesky`, l.524-563) -/

/-- `np.linalg.inv(C)` accepts only (stacks of) square 2-D arrays -/
def invShapeOk : NArr R → Bool
  | .m r c _ => r = c
  | _ => false

/-- one draw: `x_map.parameters + L@np.random.randn(n)` -/
def draw (n : Nat) (xmap : Nat → R) (L : Nat → Nat → R) (xi : Nat → R) : Nat → R :=
  fun i => xmap i + sumTo n (fun k => L i k * xi k)

/-- the posterior precision `Aᵀ inv(Ce) A + inv(Cx)` the code inverts, from the two inverses -/
def postPrec (m : Nat) (A We Wx : Nat → Nat → R) : Nat → Nat → R :=
  fun j k => sumTo m (fun i => A i j * sumTo m (fun l => We i l * A l k)) + Wx j k

/-- Shape part of `_sampleMapCholesky` up to the factorisation: the getters, the scalar expansion
    (only that: no `np.diag` here), `self.MAP(disp=False)`, then `inv(Ce)`, `inv(Cx)`
    (1-D arrays: `LinAlgError`).  Returns the
    MAP estimate the draws are centred on. -/
def sampleCentre [DecidableEq R] (slv : Solver R) (A : NArr R) (rangeDim domainDim : Nat)
    (ce cx : Option (NArr R)) (x0 b : NArr R) : Except Err (NArr R) := do
  let Ce ← getCov ce
  let Cx ← getCov cx
  let Ce := expandScalar Ce rangeDim
  let Cx := expandScalar Cx domainDim
  let xmap ← mapDirect slv A rangeDim domainDim ce cx x0 b
  if !invShapeOk Ce then .error .linAlgError
  else if !invShapeOk Cx then .error .linAlgError
  else .ok xmap

end np

/-! ## route selection (`MAP` l.263, `sample_posterior` l.337-366, `_solve_max_point` l.771-778) -/

inductive PriorKind | gaussian | gmrf | lmrf | cmrf | regGaussian | regGmrf | beta | invGamma | lognormal | other
  deriving DecidableEq, Repr
inductive LikKind | gaussian | other deriving DecidableEq, Repr
inductive ModelKind | linear | nonlinear deriving DecidableEq, Repr

structure Problem where
  prior : PriorKind
  lik : LikKind
  model : ModelKind
  domainDim : Nat
  rangeDim : Nat
  /-- `posterior.gradient(zeros)` does not raise NotImplementedError/AttributeError -/
  hasGradient : Bool
  /-- prior has `sqrtprecTimesMean`, likelihood distribution has `sqrtprec` -/
  hasSqrtprecs : Bool
  maxDimInv : Nat := 2000
  deriving Repr

/-- GMRF is *not* a subclass of Gaussian in cuqi (it derives from Distribution) -/
def PriorKind.isGaussian : PriorKind → Bool
  | .gaussian => true
  | _ => false

def Problem.dimsOk (p : Problem) : Bool := p.domainDim ≤ p.maxDimInv && p.rangeDim ≤ p.maxDimInv

inductive MapRoute | direct | lbfgsb | minimize deriving DecidableEq, Repr
inductive SampleRoute | mapCholesky | linearRTO | ugla | nuts | pcn | regLinearRTO | notImplemented
  deriving DecidableEq, Repr

/-- `_check_posterior(self, Gaussian, Gaussian, LinearModel, max_dim=MAX_DIM_INV)` -/
def Problem.directOk (p : Problem) : Bool :=
  p.prior.isGaussian && p.lik == .gaussian && p.model == .linear && p.dimsOk

def mapRoute (p : Problem) : MapRoute :=
  if p.directOk then .direct
  else if p.prior == .cmrf && p.hasGradient then .lbfgsb
  else .minimize

/-- ML never takes the closed form -/
def mlRoute (p : Problem) : MapRoute :=
  if p.prior == .cmrf && p.hasGradient then .lbfgsb else .minimize

def sampleRoute (p : Problem) : SampleRoute :=
  if p.directOk && p.prior != .gmrf then .mapCholesky
  else if p.hasSqrtprecs && p.model == .linear then .linearRTO
  else if p.prior == .lmrf && p.lik == .gaussian then .ugla
  else if p.hasGradient && !(p.prior == .beta || p.prior == .invGamma || p.prior == .lognormal) then .nuts
  else if (p.prior == .gaussian || p.prior == .gmrf) && p.lik == .gaussian then .pcn
  else if (p.prior == .regGaussian || p.prior == .regGmrf) && p.lik == .gaussian && p.model == .linear then .regLinearRTO
  else .notImplemented

/-! ## the optimisation route (`_solve_max_point` l.742-785 with `cuqi.solver.minimize/L_BFGS_B`) -/

section opt
variable {R : Type} [Neg R]

/-- what is handed to SciPy: `func = -density.logd`, `gradfunc = -density.gradient` when the
    gradient is available at the start point (else `None` → finite differences) -/
structure OptProblem (X R : Type) where
  func : X → R
  gradfunc : Option (X → X)
  x0 : X

def solveMaxPointProblem {X : Type} (logd : X → R) (grad : Option (X → X)) (negX : X → X) (x0 : X) :
    OptProblem X R :=
  { func := fun x => -(logd x), gradfunc := grad.map (fun g => fun x => negX (g x)), x0 := x0 }

/-- `_solve_max_point`: `if x0 is None: x0 = np.ones(self.model.domain_dim)` — on the optimisation
    route the user's `x0` is the start point of the solver (and only that) -/
def startPoint {X : Type} (userX0 : Option X) (ones : X) : X := userX0.getD ones

/-- the wrappers return SciPy's `x` (`solution['x']` / `solution[0]`) untouched -/
def wrapperResult {X : Type} (scipyX : X) : X := scipyX

end opt

end CuqiVerif.C15
