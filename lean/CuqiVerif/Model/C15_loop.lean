import CuqiVerif.Model.C15
/-
  C15 model, part 3 — the sampling loop of `BayesianProblem._sampleMapCholesky` (cuqi/problem/_problem.py
  l.548-568) and the front matter of `sample_posterior` that leads to it (l.336-347):

      n = self.prior.dim ; x_s = np.zeros((n,Ns))
      for s in range(Ns):
          x_s[:,s] = x_map.parameters + L@np.random.randn(n)
          if callback is not None: callback(x_s[:,s], s)
      print("\r",'Sample', s+1, '/', Ns)          # `s` is unbound when Ns == 0  ->  UnboundLocalError
      return cuqi.samples.Samples(x_s, self.model.domain_geometry)

  `np.random.randn(n)` is a read of the next `n` numbers of a stream; `Nb` (burn-in, default
  `int(0.2*Ns)`) is computed by `sample_posterior` but not handed to the direct sampler.
-/
namespace CuqiVerif.C15

section loop
variable {R : Type} [Zero R] [Add R] [Mul R]

structure LoopState (R : Type) where
  /-- the columns `x_s[:, 0..s)` written so far -/
  cols : List (Nat → R)
  /-- how many numbers of the standard-normal stream were consumed -/
  pos : Nat
  /-- the callback's log `(sample_index, sample)` -/
  calls : List (Nat × (Nat → R))

/-- one pass through the loop body for index `s` -/
def loopStep (n : Nat) (xmap : Nat → R) (L : Nat → Nat → R) (stream : Nat → R) (hasCallback : Bool)
    (st : LoopState R) (s : Nat) : LoopState R :=
  let xi := fun k => stream (st.pos + k)
  let x := draw n xmap L xi
  { cols := st.cols ++ [x], pos := st.pos + n,
    calls := if hasCallback then st.calls ++ [(s, x)] else st.calls }

/-- `for s in range(Ns): …` -/
def sampleLoop (n : Nat) (xmap : Nat → R) (L : Nat → Nat → R) (stream : Nat → R) (hasCallback : Bool)
    (Ns : Nat) : LoopState R :=
  (List.range Ns).foldl (loopStep n xmap L stream hasCallback) { cols := [], pos := 0, calls := [] }

inductive LoopErr | unboundLocal
  deriving DecidableEq, Repr

/-- `_sampleMapCholesky(Ns, callback)` after the factorisation, as reached from
    `sample_posterior(Ns, Nb, callback)`: `Nb` is ignored; `Ns = 0` fails at the final `print`. -/
def sampleDirectLoop (n : Nat) (xmap : Nat → R) (L : Nat → Nat → R) (stream : Nat → R) (hasCallback : Bool)
    (Ns : Nat) (_Nb : Option Nat) : Except LoopErr (LoopState R) :=
  if Ns = 0 then .error .unboundLocal else .ok (sampleLoop n xmap L stream hasCallback Ns)

end loop
end CuqiVerif.C15
