import CuqiVerif.Model.RExpr
import CuqiVerif.Model.QMat
import CuqiVerif.Model.C20
/-
  C05 model — direct sampling (`Distribution.sample` and the `_sample` of every samplable family),
  as a *pure function of the draws the random generator returns*.  Import-free, executable.

  1. Gaussian: how each parameterisation (`cov`/`prec`/`sqrtcov`/`sqrtprec`, scalar / vector /
     diagonal) becomes the stored `sqrtprec`, the solver `Gaussian._sample` selects
     (`spsolve` / `solve_triangular(lower=True)` / `solve`), forward substitution as
     `solve_triangular` performs it (reading only the lower triangle), and the draw
     `mean[:,None] + perturbation`.
  2. GMRF: zero BC `mean + (1/sqrt(prec)) * spsolve(chol.T, xi)`; Neumann
     `mean + (1/sqrt(prec)) * (C Cᵀ)⁻¹ Dᵀ xi` with `C Cᵀ = P + sqrt(eps) I`; periodic: the DFT
     construction with the eigenvalue vector as the code builds it.
  3. Univariate families: which generator method is called with which argument tuple
     (`plumb`), and the closed-form log-densities of the same objects as `RExpr`s.
  4. ModifiedHalfNormal: scheme selection and the three rejection loops as
     (proposal call, point map, log-acceptance bound) records; the parameter getters as coded.
  5. `Distribution.sample`: refusal for conditional distributions and the wrapping rule
     (N = 1 → flattened array with the distribution's geometry, N > 1 → `Samples`).
-/
namespace CuqiVerif.C05
open CuqiVerif CuqiVerif.QMat

/-! ## 1. Gaussian -/

/-- the four matrix parameterisations of `Gaussian` -/
inductive Form | cov | prec | sqrtcov | sqrtprec
  deriving DecidableEq, Repr

def Form.ofString : String → Option Form
  | "cov" => some .cov | "prec" => some .prec | "sqrtcov" => some .sqrtcov
  | "sqrtprec" => some .sqrtprec | _ => none

/-- Diagonal entry of the stored `sqrtprec` for a scalar / vector / diagonal-matrix parameter `v`
    (`get_sqrtprec_from_*`): `sqrt(1/var)`, `sqrt(prec)`, `1/std`, `sqrtprec` itself.
    `none` when the value is not an exact rational (the generators use perfect squares). -/
def diagSqrtprec (f : Form) (v : Rat) : Option Rat :=
  match f with
  | .cov => if v = 0 then none else RExpr.sqrtQ? (1 / v)
  | .prec => RExpr.sqrtQ? v
  | .sqrtcov => if v = 0 then none else some (1 / v)
  | .sqrtprec => some v

/-- The precision (per diagonal entry) the same parameter contributes to the log-density
    (`_logupdf` uses `sqrtprec`, so this is what `logpdf` reports *by construction of the form*):
    `1/var`, `prec`, `1/std²`, `sqrtprec²`. -/
def diagPrecision (f : Form) (v : Rat) : Rat :=
  match f with
  | .cov => 1 / v
  | .prec => v
  | .sqrtcov => 1 / (v * v)
  | .sqrtprec => v * v

/-- scalar → `dim` copies, vector → itself (`np.ones(dim)*value`, `np.diag(value)`) -/
def bcast (dim : Nat) (v : Vec) : Vec :=
  match v with
  | [a] => List.replicate dim a
  | _ => v

/-- stored `sqrtprec` (diagonal matrix) for scalar / vector / diagonal parameters -/
def diagFormSqrtprec (f : Form) (dim : Nat) (v : Vec) : Option Mat :=
  ((bcast dim v).mapM (diagSqrtprec f)).map diag

def absQ (q : Rat) : Rat := if q < 0 then -q else q

/-- `np.count_nonzero(np.triu(R, 1)) == 0` (code since 147a320): every entry above the diagonal is exactly zero. -/
def isLowerTri (R : Mat) : Bool :=
  (List.range R.length).all (fun i => (List.range (ncols R)).all (fun j => j ≤ i || entry R i j == 0))

/-- absolute tolerance of `np.allclose` (`atol = 1e-8`; the relative part vanishes against the zeros of `tril`) -/
def allcloseAtol : Rat := 1 / 100000000

/-- the test used BEFORE 147a320, `np.allclose(R, np.tril(R))`: above-diagonal entries `≤ 1e-8` in absolute
    value — a tolerance test (kept for the witness theorem of the repaired defect only). -/
def isLowerTriAllclose (R : Mat) : Bool :=
  (List.range R.length).all (fun i => (List.range (ncols R)).all (fun j => j ≤ i || absQ (entry R i j) ≤ allcloseAtol))

/-- Forward substitution as LAPACK `trtrs`/`solve_triangular(lower=True)` performs it: only the
    entries `L i j` with `j ≤ i` are read.  `fwdXs L b k` is the list `[x₀, …, x_{k-1}]`. -/
def fwdXs (L : Nat → Nat → Rat) (b : Nat → Rat) : Nat → List Rat
  | 0 => []
  | k + 1 =>
    let xs := fwdXs L b k
    xs ++ [(b k - (List.range k).foldl (fun acc j => acc + L k j * xs.getD j 0) 0) / L k k]

/-- `solve_triangular(lower=False)` applied to a *lower*-triangular matrix reads the upper triangle,
    i.e. only the diagonal (what the code did before repair 9ea8906; kept for the witness theorem). -/
def diagOnlySolve (R : Mat) (b : Vec) : Vec :=
  (List.range R.length).map (fun i => b.getD i 0 / entry R i i)

inductive Solver | sparse | triLower | dense
  deriving DecidableEq, Repr

/-- solver selection of `Gaussian._sample` -/
def solverOf (isSparse : Bool) (R : Mat) : Solver :=
  if isSparse then .sparse else if isLowerTri R then .triLower else .dense

/-- `perturbation`: the solution of `sqrtprec · p = e` by the selected solver.
    `none` = the solver raises (singular matrix).  For `spsolve`/`solve` the elimination of `QMat`
    is used and its result is *checked* (`solves`), so that a value is only ever produced together
    with the defining relation `R p = e`. -/
def gaussPerturb (isSparse : Bool) (R : Mat) (e : Vec) : Option Vec :=
  match solverOf isSparse R with
  | .triLower =>
    if (List.range R.length).any (fun i => entry R i i == 0) then none
    else some (fwdXs (entry R) (fun i => e.getD i 0) R.length)
  | _ =>
    match solve R e with
    | some p => if solves R p e then some p else none
    | none => none

/-- `mean[:, None] + perturbation` for one column (`mean` of length 1 broadcasts) -/
def gaussSample (isSparse : Bool) (mean : Vec) (R : Mat) (e : Vec) : Option Vec :=
  (gaussPerturb isSparse R e).map (fun p => vadd (bcast R.length mean) p)

/-- all `N` columns of `e` (given as the list of its columns); same values as `gaussSample` column
    by column (`QMat.solve R e = (inverse R).map (mulVec · e)`), with the elimination shared. -/
def gaussSampleN (isSparse : Bool) (mean : Vec) (R : Mat) (cols : List Vec) : Option (List Vec) :=
  match solverOf isSparse R with
  | .triLower => cols.mapM (gaussSample isSparse mean R)
  | _ =>
    match inverse R with
    | none => none
    | some Ri => cols.mapM (fun e =>
        let p := mulVec Ri e
        if solves R p e then some (vadd (bcast R.length mean) p) else none)

/-- `Lognormal._sample`: `np.exp(self._normal._sample(N, rng))` — the Gaussian part (the exponential
    is applied by the driver's caller; the law is the push-forward, see `Props`). -/
def lognormalLogSample := gaussSample

/-! ## 2. GMRF -/

open CuqiVerif.C20 in
/-- exact 1-D difference operator and precision of `GMRF` as rational matrices (model of C20) -/
def gmrfD (order : Nat) (bc : C20.BC) (n : Nat) : Mat :=
  (C20.diffOp order bc n).toList.map (fun r => r.map (fun (k : Int) => (k : Rat)))

def gmrfP (order : Nat) (bc : C20.BC) (n : Nat) : Mat :=
  (C20.gram (C20.diffOp order bc n)).toList.map (fun r => r.map (fun (k : Int) => (k : Rat)))

def gmrfD2 (order : Nat) (bc : C20.BC) (n : Nat) : Mat :=
  (C20.diffOp2D order bc n).toList.map (fun r => r.map (fun (k : Int) => (k : Rat)))

def gmrfP2 (order : Nat) (bc : C20.BC) (n : Nat) : Mat :=
  (C20.gram (C20.diffOp2D order bc n)).toList.map (fun r => r.map (fun (k : Int) => (k : Rat)))

/-- `sqrt(np.finfo(float).eps)` = `2^-26` exactly -/
def sqrtEps : Rat := 1 / 67108864

/-- zero BC: `mean + c * spsolve(chol.T, xi)` with `U = chol.T` (upper factor, `Uᵀ U = P`, leaf data
    certified by the driver) and `c = 1/sqrt(prec)` -/
def gmrfZeroSample (mean : Vec) (c : Rat) (U : Mat) (xi : Vec) : Option Vec :=
  match solve U xi with
  | some p => if solves U p xi then some (vadd (bcast U.length mean) (vscale c p)) else none
  | none => none

/-- Neumann BC: `mean + c * spsolve(chol.T, spsolve(chol, Dᵀ xi))` with `chol cholᵀ = P + sqrt(eps) I`,
    i.e. `mean + c * (P + sqrt(eps) I)⁻¹ Dᵀ xi` (`neumann_two_solves` in `Props`). -/
def gmrfNeumannSample (mean : Vec) (c : Rat) (D P : Mat) (xi : Vec) : Option Vec :=
  let M := madd P (mscale sqrtEps (ident P.length))
  let rhs := mulVec (transposeN P.length D) xi
  match solve M rhs with
  | some p => if solves M p rhs then some (vadd (bcast P.length mean) (vscale c p)) else none
  | none => none

/-- periodic BC: `mean + c * real(conj(F) @ (xi / sqrt(eigv)))`, `xi = a + i b`,
    `F = Fre + i Fim` the unitary DFT matrix and `s = sqrt(eigv)` as the code builds them (leaf data):
    `real((Fre - i Fim)(a + i b)/s) = Fre (a/s) + Fim (b/s)`. -/
def gmrfPeriodicSample (mean : Vec) (c : Rat) (Fre Fim : Mat) (s a b : Vec) : Vec :=
  let as := List.zipWith (· / ·) a s
  let bs := List.zipWith (· / ·) b s
  vadd (bcast Fre.length mean) (vscale c (vadd (mulVec Fre as) (mulVec Fim bs)))

/-- number of standard-normal rows the code requests for one column -/
def gmrfDrawRows (bc : C20.BC) (dim dRows : Nat) : Nat :=
  match bc with
  | .neumann => dRows
  | _ => dim

/-- Families by the shape their `_sample` returns. -/
inductive Family
  | gaussian | lognormal | normal | gamma | invgamma | beta | laplace | uniform | cauchy | mhn
  | gmrfZero | gmrfNeumann | gmrfPeriodic | custom
  deriving DecidableEq, Repr

def Family.ofString : String → Option Family
  | "gaussian" => some .gaussian | "lognormal" => some .lognormal | "normal" => some .normal
  | "gamma" => some .gamma | "invgamma" => some .invgamma | "beta" => some .beta
  | "laplace" => some .laplace | "uniform" => some .uniform | "cauchy" => some .cauchy
  | "mhn" => some .mhn | "gmrfZero" => some .gmrfZero | "gmrfNeumann" => some .gmrfNeumann
  | "gmrfPeriodic" => some .gmrfPeriodic | "custom" => some .custom | _ => none


/-! ## 3. Univariate (iid-component) families: generator plumbing and closed-form log-densities -/

/-- A call handed to the random generator (or to `scipy.stats.<law>.rvs(..., random_state=rng)`):
    method name, the parameter vectors in call order, and the requested `size = (N, dim)`.
    The result is transposed (`.T`) to `(dim, N)`. -/
structure GenCall where
  method : String
  args : List Vec
  size : Nat × Nat
  deriving Repr, DecidableEq

/-- `_sample` of the iid families: which generator, with which tuple.
    `params` are the distribution's own parameters in constructor order
    (Normal: mean, std; Gamma: shape, rate; InverseGamma: shape, location, scale; Beta: alpha, beta;
     Laplace: location, scale; Uniform: low, high; Cauchy: location, scale). -/
def plumb (fam : Family) (params : List Vec) (dim N : Nat) : Option GenCall :=
  match fam, params with
  | .normal, [mean, std] => some ⟨"normal", [mean, std], (N, dim)⟩
  | .gamma, [shape, rate] =>
      if rate.any (· == 0) then none else some ⟨"gamma", [shape, rate.map (1 / ·)], (N, dim)⟩
  | .invgamma, [shape, loc, scale] => some ⟨"invgamma.rvs", [shape, loc, scale], (N, dim)⟩
  | .beta, [a, b] => some ⟨"beta.rvs", [a, b], (N, dim)⟩
  | .laplace, [loc, scale] => some ⟨"laplace", [loc, scale], (N, dim)⟩
  | .uniform, [low, high] => some ⟨"uniform", [low, high], (N, dim)⟩
  | .cauchy, [loc, scale] => some ⟨"cauchy.rvs", [loc, scale], (N, dim)⟩
  | _, _ => none

/-- the tuple the *density* of the same object hands to the same law
    (`sps.gamma.logpdf(x, a=shape, loc=0, scale=1/rate)`, `sps.invgamma.logpdf(x, a, loc, scale)`,
     `sps.beta.logpdf(x, a, b)`); for the closed-form densities see `normalLogpdf` … below. -/
def densityTuple (fam : Family) (params : List Vec) : Option (List Vec) :=
  match fam, params with
  | .gamma, [shape, rate] => if rate.any (· == 0) then none else some [shape, rate.map (1 / ·)]
  | .invgamma, [shape, loc, scale] => some [shape, loc, scale]
  | .beta, [a, b] => some [a, b]
  | _, _ => none

/-- the `(N, dim)` array the generator returned becomes the `(dim, N)` array of draws: `.T` -/
def iidDraws (g : Mat) (dim : Nat) : Mat := transposeN dim g

open RExpr in
/-- `Normal.logpdf`, one component: `-log(std*sqrt(2*pi)) - 0.5*((x-mean)/std)**2` -/
def normalLogpdf (x m s : RExpr) : RExpr := -(log (s * sqrt (2 * pi))) - (1 / 2 : RExpr) * ((x - m) / s) ^ 2
open RExpr in
/-- `Laplace.logpdf`, one component: `log(0.5/scale) - |x-location|/scale` -/
def laplaceLogpdf (x l b : RExpr) : RExpr := log ((1 / 2 : RExpr) / b) - abs (x - l) / b
open RExpr in
/-- `Uniform.logpdf` inside the box, dim 1: `log(1.0/(high-low))` -/
def uniformLogpdf (lo hi : RExpr) : RExpr := log (1 / (hi - lo))
open RExpr in
/-- `Cauchy.logpdf`, one component: `-log(pi*scale*(1+((x-location)/scale)**2))` -/
def cauchyLogpdf (x l s : RExpr) : RExpr := -(log (pi * s * (1 + ((x - l) / s) ^ 2)))
open RExpr in
/-- `Gaussian.logpdf`, dim 1 with stored `sqrtprec = r`: `-0.5*(log(2*pi) + logdet) - 0.5*(r*(x-mean))**2`,
    `logdet = -log(r**2)` -/
def gauss1Logpdf (x m r : RExpr) : RExpr :=
  -((1 / 2 : RExpr) * (log (2 * pi) + -(log (r ^ 2)))) - (1 / 2 : RExpr) * (r * (x - m)) ^ 2

/-! ## 4. ModifiedHalfNormal -/

/-- The parameters `_sample` and `logpdf` actually read: the getters `beta` and `gamma` both return
    `self._alpha` (as coded). -/
def mhnRead (α _β _γ : Rat) : Rat × Rat × Rat := (α, α, α)

inductive MhnScheme | negGamma | posGamma1 | gammaProposal
  deriving DecidableEq, Repr

/-- `_MHN_sample`: `gamma <= 0` → Algorithm 3; `alpha > 1` → `_MHN_sample_positive_gamma_1`
    (normal or sqrt-gamma proposal by `K2 > K1`); else sqrt-gamma proposal. -/
def mhnScheme (α _β γ : Rat) : MhnScheme :=
  if γ ≤ 0 then .negGamma else if α > 1 then .posGamma1 else .gammaProposal

namespace Mhn
open RExpr

/-- real power `x ** a` as `exp(a*log x)` (arguments are positive where the code uses `np.power`) -/
def rpow (x a : RExpr) : RExpr := exp (a * log x)

/-- `delta = beta + (gamma² - gamma*sqrt(gamma² + 8*beta*alpha))/(4*alpha)` -/
def delta (α β γ : RExpr) : RExpr := β + (γ * γ - γ * sqrt (γ * γ + 8 * β * α)) / (4 * α)
/-- `mu = (gamma + sqrt(gamma² + 8*beta*(alpha-1)))/(4*beta)` -/
def mu (α β γ : RExpr) : RExpr := (γ + sqrt (γ * γ + 8 * β * (α - 1))) / (4 * β)
/-- mode used as matching point: `(gamma + sqrt(gamma² + 8*beta*alpha))/(4*beta)` -/
def mode (α β γ : RExpr) : RExpr := (γ + sqrt (γ * γ + 8 * β * α)) / (4 * β)
def K1 (α β γ : RExpr) : RExpr :=
  2 * sqrt pi * rpow ((sqrt β * (α - 1)) / (2 * β * mu α β γ - γ)) (α - 1) * exp (-(α - 1) + β * mu α β γ * mu α β γ)
def K2 (α β γ : RExpr) : RExpr :=
  rpow (β / delta α β γ) ((1 / 2 : RExpr) * α) * exp (lgamma (α / 2)) * exp (γ * γ / (4 * (β - delta α β γ)))

/-- sqrt-gamma proposal: `T ~ gamma(alpha/2, 1/delta)`, `X = sqrt(T)`; log-acceptance bound -/
def gpShape (α : RExpr) : RExpr := α / 2
def gpScale (α β γ : RExpr) : RExpr := 1 / delta α β γ
def gpX (t : RExpr) : RExpr := sqrt t
def gpAccept (α β γ t : RExpr) : RExpr :=
  -(β - delta α β γ) * t + γ * sqrt t - γ * γ / (4 * (β - delta α β γ))

/-- normal proposal: `X ~ normal(mu, sqrt(0.5/beta))`; bound as coded:
    `(alpha-1)*log(X) - log(mu) + (2*beta*mu-gamma)*(mu-X)` -/
def npLoc (α β γ : RExpr) : RExpr := mu α β γ
def npScale (β : RExpr) : RExpr := sqrt ((1 / 2 : RExpr) / β)
def npAccept (α β γ x : RExpr) : RExpr :=
  (α - 1) * log x - log (mu α β γ) + (2 * β * mu α β γ - γ) * (mu α β γ - x)

/-- Algorithm 3 (`gamma <= 0`), matching point `m`: `val1 = (beta*m-gamma)/(2*beta*m-gamma)`,
    `val2 = m*(beta*m-gamma)`, `T ~ gamma(alpha*val1, 1/val2)`, `X = m*T**val1`,
    bound `val2*T - beta*X² + gamma*X` -/
def ngVal1 (β γ m : RExpr) : RExpr := (β * m - γ) / (2 * β * m - γ)
def ngVal2 (β γ m : RExpr) : RExpr := m * (β * m - γ)
def ngX (β γ m t : RExpr) : RExpr := m * rpow t (ngVal1 β γ m)
def ngAccept (β γ m t : RExpr) : RExpr :=
  ngVal2 β γ m * t - β * ngX β γ m t * ngX β γ m t + γ * ngX β γ m t

end Mhn

/-! ## 4b. UserDefinedDistribution -/

/-- `UserDefinedDistribution._sample`: the user's `sample_func` is called `N` times; `calls` lists the value each
    call returned *at the time it returned* (for `N > 1` the code copies it into its column immediately:
    `out[:, i] = self.sample_func()`; for `N = 1` it is flattened).  Row `j` of the result is component `j`. -/
def userDefinedSample (dim N : Nat) (calls : List Vec) : Option Mat :=
  if calls.length ≠ N ∨ N = 0 ∨ !(calls.all (fun v => v.length == dim)) then none
  else some (transposeN dim calls)

/-! ## 5. `Distribution.sample`: refusal and wrapping -/

/-- shape of what `_sample` returned (a numpy array of 1 or 2 axes) -/
inductive Raw | d1 (n : Nat) | d2 (r c : Nat)
  deriving DecidableEq, Repr

def Raw.len : Raw → Nat | .d1 n => n | .d2 r _ => r      -- python `len(s)`
def Raw.size : Raw → Nat | .d1 n => n | .d2 r c => r * c

/-- result of `Distribution.sample`: a 0-d `CUQIarray`, a 1-d `CUQIarray` of the given length, or a
    `Samples` object holding an array of the given raw shape -/
inductive Wrapped | scalar | array (len : Nat) | samples (raw : Raw) | refused
  deriving DecidableEq, Repr

/-- `Distribution.sample` after `_sample` returned an array of shape `raw`:
    `N == 1`: `len(s) == 1` → `s.ravel()[0]` else `s.flatten()`, wrapped in `CUQIarray`;
    otherwise `Samples(s, geometry)`.  Conditional distributions refuse before `_sample` is called. -/
def wrap (isCond : Bool) (N : Nat) (raw : Raw) : Wrapped :=
  if isCond then .refused
  else if N = 1 then (if raw.len = 1 then .scalar else .array raw.size)
  else .samples raw

/-- number of draws a `Samples` object reports: `samples.shape[-1]` -/
def Raw.ns : Raw → Nat | .d1 n => n | .d2 _ c => c
/-- number of parameters per draw: `prod(shape[:-1])` -/
def Raw.perDraw : Raw → Nat | .d1 _ => 1 | .d2 r _ => r

/-- Shape of the array `_sample(N)` returns for a distribution of dimension `dim`.
    * Gaussian / Lognormal: `(dim, N)`;  the iid families: `rng.f(…, (N, dim)).T` = `(dim, N)`;
    * ModifiedHalfNormal: `np.array([... for i in range(N)])` = `(N,)`;
    * GMRF zero BC: `N == 1` is special-cased (`mean + …spsolve(…)` is 1-d of length `dim`), else `(dim, N)`;
    * GMRF Neumann / periodic: `mean[:, newaxis] + v` where for `N == 1` `spsolve` returns the
      1-d vector `v` of length `dim` — numpy broadcasting makes this a `(dim, dim)` array. -/
def rawShape (fam : Family) (dim N : Nat) : Raw :=
  match fam with
  | .mhn => .d1 N
  | .gmrfZero => if N = 1 then .d1 dim else .d2 dim N
  | .custom => if N = 1 then .d1 dim else .d2 dim N      -- `sample_func().flatten()` / `out = zeros((dim, N))`
  | .gmrfNeumann | .gmrfPeriodic => if N = 1 then .d2 dim dim else .d2 dim N
  | _ => .d2 dim N

def sampleShape (fam : Family) (isCond : Bool) (dim N : Nat) : Wrapped :=
  wrap isCond N (rawShape fam dim N)

end CuqiVerif.C05
