/-
  C12 model, session-3 second pass — `Geometry.__eq__`, `_DefaultGeometry1D.__eq__`,
  `_DefaultGeometry2D.__eq__` and `Geometry._all_values_equal` (`cuqi/geometry/_geometry.py` l. 223–255,
  732–743) as a COMPUTATION over attribute maps.  `Model._2fun` / `_2par` ask `x.geometry == geometry`
  to decide whether a CUQIarray's geometry counts as the model's; `Model/C12.lean` carries the answer
  as data (`Geom.eqTrue` / `eqRaises`), this file computes it from `vars(geometry)`.

  A geometry object is its method-resolution order (class identifiers; head = its class;
  `Continuous1D = 1`, `Image2D = 2`), which `__eq__` it inherits, its `par_dim`, and `vars(self)` in
  insertion order.  Attribute values: arrays / scalars (shape + flat data; every scalar is a canonical
  string: exact rational for numbers and bools, `s:<text>` for strings, `None`, `f:<id>` for
  callables and other objects compared by identity), tuples / lists, nested geometries
  (`MappedGeometry.geometry`).  `np.array_equiv` is transcribed for rank ≤ 2 (`none` = outside the model;
  NaN entries are outside the model: `nan != nan`).  Recursion through nested geometries is bounded by a
  fuel argument.  Import-free, executable (`Driver/C12.lean`, op `geq`).
-/
namespace CuqiVerif.C12

inductive AVal
  | arr (shape : List Nat) (data : List String)
  | seq (items : List AVal)
  | geom (mro : List Nat) (kind : Nat) (parDim : Nat) (vars : List (String × AVal))

/-- class identifiers fixed by the protocol -/
def clsContinuous1D : Nat := 1
def clsImage2D : Nat := 2

/-- a shape of rank ≤ 2 as (rows, columns), scalars and vectors padded with leading ones (broadcasting) -/
def shape2 : List Nat → Option (Nat × Nat)
  | [] => some (1, 1)
  | [n] => some (1, n)
  | [r, c] => some (r, c)
  | _ => none

def dimCompat (a b : Nat) : Bool := a == b || a == 1 || b == 1

/-- `np.array_equiv` of two arrays: `False` unless the shapes broadcast against each other, then
    all broadcast entries equal (vacuously true when the broadcast shape is empty) -/
def arrEquiv (s1 : List Nat) (d1 : List String) (s2 : List Nat) (d2 : List String) : Option Bool :=
  match shape2 s1, shape2 s2 with
  | some (r1, c1), some (r2, c2) =>
    if !(dimCompat r1 r2 && dimCompat c1 c2) then some false
    else
      let R := if r1 == 1 then r2 else r1
      let C := if c1 == 1 then c2 else c1
      some ((List.range R).all fun i => (List.range C).all fun j =>
        d1.getD ((if r1 == 1 then 0 else i) * c1 + (if c1 == 1 then 0 else j)) ""
          == d2.getD ((if r2 == 1 then 0 else i) * c2 + (if c2 == 1 then 0 else j)) "")
  | _, _ => none

/-- `np.asarray` of a list / tuple whose items are scalars -/
def seqToArr (l : List AVal) : Option AVal :=
  (l.mapM (fun v => match v with | AVal.arr [] [d] => some d | _ => none)).map (fun ds => AVal.arr [l.length] ds)

def hasKey (k : String) (vars : List (String × AVal)) : Bool := vars.any (fun p => p.1 == k)

/-- the names `Geometry.variables` generates: `name + str(i)`, or just `name` for one variable -/
def genVariables (vars : List (String × AVal)) (parDim : Nat) : AVal :=
  let name := match vars.lookup "_variable_name" with
    | some (.arr [] [d]) => if d.startsWith "s:" then (d.drop 2).toString else "v"
    | _ => "v"
  .seq (if parDim == 1 then [.arr [] ["s:" ++ name]]
        else (List.range parDim).map (fun i => .arr [] ["s:" ++ name ++ toString i]))

def rangeVal (n : Nat) : AVal := .arr [n] ((List.range n).map toString)

/-- the two side effects of `_all_values_equal` on `obj` before a key is looked up -/
def touchObj (key : String) (objVars : List (String × AVal)) (objParDim : Nat) : List (String × AVal) :=
  let o1 := if key == "_variables" && !hasKey "_variables" objVars
            then objVars ++ [("_variables", genVariables objVars objParDim), ("_ids", rangeVal objParDim)] else objVars
  if key == "_variable_name" && !hasKey "_variable_name" o1 then o1 ++ [("_variable_name", .arr [] ["None"])] else o1

/-- elementwise comparison of two sequences of equal length (first `False` wins, as in the loop) -/
def seqAll (ve : AVal → AVal → Option Bool) : List AVal → List AVal → Option Bool
  | a :: as, b :: bs => match ve a b with
      | some true => seqAll ve as bs
      | r => r
  | _, _ => some true

/-- the loop of `Geometry._all_values_equal(self, obj)` over `vars(self)`; `ve` = `np.array_equiv` -/
def varsLoop (ve : AVal → AVal → Option Bool) (objParDim : Nat) :
    List (String × AVal) → List (String × AVal) → Option Bool
  | [], _ => some true
  | (key, value) :: rest, objVars =>
    let ov := touchObj key objVars objParDim
    match ov.lookup key with
    | none => some false
    | some objValue =>
      let r := match value, objValue with
        | .seq a, .seq b => if a.length != b.length then some false else seqAll ve a b
        | _, _ => ve value objValue
      match r with
      | some true => varsLoop ve objParDim rest ov
      | r => r

/-- `self.__eq__(obj)` for a geometry `self`: the `isinstance` gate of the inherited `__eq__`
    (`kind` 0: `Geometry.__eq__`; 1: `_DefaultGeometry1D.__eq__`, which also accepts every
    `Continuous1D`; 2: `_DefaultGeometry2D.__eq__`, every `Image2D`), then `_all_values_equal` -/
def geomDunderEq (ve : AVal → AVal → Option Bool) : AVal → AVal → Option Bool
  | .geom mro kind _ vars, .geom mro' _ pd' vars' =>
    let inst := mro'.contains (mro.headD 0) || (kind == 1 && mro'.contains clsContinuous1D)
                  || (kind == 2 && mro'.contains clsImage2D)
    if !inst then some false else varsLoop ve pd' vars vars'
  | .geom .., _ => some false
  | _, _ => none

/-- the expression `self == obj`: Python tries the REFLECTED method `obj.__eq__(self)` first when
    `type(obj)` is a proper subclass of `type(self)` (and `Geometry.__eq__` never returns
    `NotImplemented`), otherwise `self.__eq__(obj)` -/
def geomEqWith (ve : AVal → AVal → Option Bool) : AVal → AVal → Option Bool
  | .geom mro kind pd vars, .geom mro' kind' pd' vars' =>
    if mro'.headD 0 != mro.headD 0 && mro'.contains (mro.headD 0)
    then geomDunderEq ve (.geom mro' kind' pd' vars') (.geom mro kind pd vars)
    else geomDunderEq ve (.geom mro kind pd vars) (.geom mro' kind' pd' vars')
  | a, b => geomDunderEq ve a b

def arrSize (s : List Nat) : Nat := s.foldl (· * ·) 1

/-- `np.array_equiv(value, obj_value)` -/
def valEquiv : Nat → AVal → AVal → Option Bool
  | 0, _, _ => none
  | f + 1, a, b =>
    match a, b with
    | .arr s1 d1, .arr s2 d2 => arrEquiv s1 d1 s2 d2
    | .geom m k p v, .geom m' k' p' v' => geomEqWith (valEquiv f) (.geom m k p v) (.geom m' k' p' v')
    | .geom .., .arr s _ => some (arrSize s == 0)      -- an object never equals a number / string
    | .arr s _, .geom .. => some (arrSize s == 0)
    | .seq l, v => match seqToArr l with
        | some a' => valEquiv f a' v
        | none => none
    | v, .seq l => match seqToArr l with
        | some b' => valEquiv f v b'
        | none => none

/-- `a == b` for two geometry objects (fuel = nesting depth allowed) -/
def geomEqD (fuel : Nat) (a b : AVal) : Option Bool := geomEqWith (valEquiv fuel) a b

end CuqiVerif.C12
