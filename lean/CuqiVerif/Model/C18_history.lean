import CuqiVerif.Model.C18
/-
  C18 model, part 4 — ONE `TimeDependentLinearPDE` object (and the `PDEModel` owning it) under a
  history of calls: the attributes that survive between calls and who overwrites them.

    `_parameter`                              set by `assemble(parameter)`              (l. 237-239)
    `diff_op`, `rhs`, `initial_condition`     set by `assemble_step(t)` from `PDE_form(self._parameter, t)`  (l. 241-243)
    `_method`                                 set by the validating setter              (l. 230-235)
    `time_steps`                              a plain attribute

  `solve()` (l. 245-270) reads `_parameter`, `method`, `time_steps`, calls `assemble_step` before every
  use of the three assembled attributes, and leaves them at the time of its last call.
  `PDEModel._forward_func(x)` (`cuqi/model/_model.py` l. 663-671) is `assemble(x); solve(); observe(sol)`;
  nothing is cached between calls.  The assembled attributes are represented by the pair
  (parameter, time) they were assembled for.
-/
namespace CuqiVerif.C18

structure TimeObj (P R I : Type) where
  n : Nat
  formP : P → R → Form R
  solver : Mat R → Vec R → SolverRet (Vec R) I
  method : Method
  ts : List R
  param : Option P := none            -- `_parameter` (absent before the first `assemble`)
  lastStep : Option (P × R) := none   -- what `diff_op`, `rhs`, `initial_condition` currently hold

/-- one call on the object -/
inductive HOp (P R : Type)
  | assemble (p : P)               -- `pde.assemble(p)`
  | assembleStep (t : R)           -- `pde.assemble_step(t)` (a stray call by the user)
  | solve                          -- `pde.solve()`
  | setMethod (s : String)         -- `pde.method = s`
  | setTs (ts : List R)            -- `pde.time_steps = ts`
  | forward (x : P)                -- `PDEModel._forward_func(x)` up to (not including) `observe`

/-- what the call returns -/
inductive HOut (R I : Type)
  | unit
  | err (e : Err)
  | solved (levels : List (Array R)) (info : Option (List I))

section
variable {P R I : Type} [Zero R] [One R] [Add R] [Sub R] [Mul R]

/-- the state `solve()` leaves behind when `_parameter = p`: the assembled attributes are those of its
    last `assemble_step` call -/
def TimeObj.afterSolve (o : TimeObj P R I) (p : P) : TimeObj P R I :=
  { o with lastStep := match (formCalls o.method o.ts).getLast? with
                       | some t => some (p, t)
                       | none => o.lastStep }

/-- what `solve()` returns when `_parameter = p` -/
def TimeObj.solveOut (o : TimeObj P R I) (p : P) : HOut R I :=
  match solveTime o.n o.method (o.formP p) o.solver o.ts with
  | .error e => .err e
  | .ok (levels, info) => .solved levels info

/-- `solve()` on the current state -/
def TimeObj.doSolve (o : TimeObj P R I) : TimeObj P R I × HOut R I :=
  match o.param with
  | none => (o, .err .notAssembled)                  -- `AttributeError: … has no attribute '_parameter'`
  | some p => (o.afterSolve p, o.solveOut p)

def TimeObj.step (o : TimeObj P R I) : HOp P R → TimeObj P R I × HOut R I
  | .assemble p => ({ o with param := some p }, .unit)
  | .assembleStep t =>
    match o.param with
    | none => (o, .err .notAssembled)
    | some p => ({ o with lastStep := some (p, t) }, .unit)
  | .solve => o.doSolve
  | .setMethod s =>
    match Method.ofString s with
    | none => (o, .err .valueError)
    | some m => ({ o with method := m }, .unit)
  | .setTs ts => ({ o with ts := ts }, .unit)
  | .forward x => ({ o with param := some x } : TimeObj P R I).doSolve

/-- run a history; the outputs of all calls in order -/
def TimeObj.run (o : TimeObj P R I) : List (HOp P R) → TimeObj P R I × List (HOut R I)
  | [] => (o, [])
  | op :: rest =>
    let (o1, out) := o.step op
    let (o2, outs) := o1.run rest
    (o2, out :: outs)

end
end CuqiVerif.C18
