import CuqiVerif.Model.C18
/-
  C18 model, part 2 — the two shipped PDE test problems, `cuqi/testproblem/_testproblem.py`
  `Poisson1D.__init__` (l. 649-695) and `Heat1D.__init__` (l. 797-842): the grids, the
  finite-difference matrices, the number of time steps, the PDE forms and the `PDEModel` that is
  built from them.  Import-free (core Lean + `Model/C18.lean`), executable, generic in the number
  type `R` (the driver runs `R = Rat`).

  Transcribed *as coded*, including:
  * `Poisson1D`: the source is evaluated on `linspace(dx, endpoint, N, endpoint=False)` with
    `dx = endpoint/N`, whereas the solution/observation grid is
    `linspace(1/(dim-1), endpoint, dim-1, endpoint=False)` (the start does not scale with `endpoint`);
    neither has spacing `dx`;
  * `Heat1D`: the number of steps is `int(max_time/(cfl*dx**2))` with `cfl = 5/11`, so the step
    actually used, `max_time/max_iter`, is *at least* `cfl*dx**2`;
  * `dim` too small is refused (`ZeroDivisionError` / numpy `ValueError`), a negative `max_time`
    gives a negative `num` for `linspace` (`ValueError`).
-/
namespace CuqiVerif.C18

section tp
variable {R : Type} [Zero R] [One R] [Add R] [Sub R] [Mul R] [Div R] [Neg R] [NatCast R]

/-- `np.linspace(start, stop, num, endpoint=…)` for `num ≥ 0`:
    `step = (stop - start)/div` with `div = num - 1` (endpoint) or `num`; `y_k = start + k*step`.
    (`num = 1` with `endpoint=True` gives `[start]`: numpy multiplies `arange(1) = [0]` by the
    un-divided difference; here `k = 0` annihilates whatever the step is.) -/
def linspace (start stop : R) (num : Nat) (endpoint : Bool) : List R :=
  let div : Nat := if endpoint then num - 1 else num
  (List.range num).map fun (k : Nat) => start + (k : R) * ((stop - start) / (div : R))

/-- elementwise map applied to the parameter by a `MappedGeometry` domain (`map=` of the test problems) -/
inductive FieldMap (R : Type)
  | ident                      -- `map=None`
  | square                     -- `map=lambda x: x**2`
  | affine (a b : R)           -- `map=lambda x: a*x + b`

def FieldMap.apply : FieldMap R → R → R
  | .ident, x => x
  | .square, x => x * x
  | .affine a b, x => a * x + b

/-- `observation_grid_map` of the test problems (a user callable on the grid; these are the kinds
    the check uses) -/
inductive GridMap
  | none                        -- `observation_grid_map=None`
  | pick (idx : List Nat)       -- `lambda g: g[idx]`   (fancy indexing, any order, repeats allowed)
  | mid                         -- `lambda g: (g[:-1] + g[1:])/2`
  | shiftInterior               -- node `len//2` moved half a cell to the right

/-- the grid the map returns; `none` = the callable raises (`IndexError`) -/
def GridMap.apply : GridMap → List R → Option (List R)
  | .none, g => some g
  | .pick idx, g => idx.mapM fun i => g[i]?
  | .mid, g => some (List.zipWith (fun a b => (a + b) / ((2 : Nat) : R)) g (g.drop 1))
  | .shiftInterior, g =>
    let j := g.length / 2
    match g[j]?, g[j + 1]? with
    | some a, some b => some (g.set j ((a + b) / ((2 : Nat) : R)))
    | _, _ => Option.none

/-! ## `Poisson1D` -/

/-- `Dx` of `Poisson1D` ((N+1) × N), as built: row 0 is `e_0`, row `k ≥ 1` is row `k-1` of
    `-diag(ones(N)) + diag(ones(N-1), 1)`; everything divided by `dx`. -/
def poissonDx (dx : R) : Mat R := fun k j =>
  (if k = 0 then (if j = 0 then 1 else 0)
   else (-(if k - 1 = j then (1 : R) else 0)) + (if j = (k - 1) + 1 then 1 else 0)) / dx

/-- `Dx.T @ np.diag(x) @ Dx` (inner dimension `N + 1`) -/
def poissonOp (N : Nat) (dx : R) (x : Vec R) : Mat R := fun i j =>
  sumTo (N + 1) fun k => poissonDx dx k i * x k * poissonDx dx k j

/-- everything `Poisson1D.__init__` computes before it builds the model -/
structure PoissonSetup (R : Type) where
  N : Nat                 -- number of solution nodes
  dx : R
  srcGrid : List R        -- `grid`: where `source` is evaluated
  gridDomain : List R     -- `dim` nodes, the parameter lives here
  gridRange : List R      -- `grid_sol`
  gridObs : List R        -- `grid_obs` handed to the PDE
  grids : Grids R         -- the PDE object's grid attributes after `__init__`

variable [DecidableEq R]

/-- `Poisson1D(dim, endpoint, observation_grid_map=gm)` up to the construction of the PDE. -/
def poissonSetup (dim : Nat) (endpoint : R) (gm : GridMap) : Except Err (PoissonSetup R) :=
  if dim ≤ 1 then .error .valueError       -- dim = 1: `endpoint/0`; dim = 0: `linspace(num=-1)`
  else
    let N := dim - 1
    let dx := endpoint / (N : R)
    let gridRange := linspace (1 / ((dim - 1 : Nat) : R)) endpoint (dim - 1) false
    match gm.apply gridRange with
    | none => .error .indexError
    | some gridObs =>
      .ok { N := N, dx := dx
            srcGrid := linspace dx endpoint N false
            gridDomain := linspace 0 endpoint dim true
            gridRange := gridRange
            gridObs := gridObs
            grids := Grids.init (some gridRange) (some gridObs) }

/-- `PDE_form = lambda x: (Dx.T @ np.diag(x) @ Dx, rhs)` with `rhs = source(grid)` -/
def poissonForm (s : PoissonSetup R) (source : R → R) (x : Vec R) : SteadyForm R :=
  { op := poissonOp s.N s.dx x, rhs := fun i => source (s.srcGrid.getD i 0) }

/-- the `SteadyStateLinearPDE` of `Poisson1D` as a `Steady` object; the parameter reaches it
    through the domain geometry's `par2fun` (`fm`) -/
def poissonSteady {I : Type} (s : PoissonSetup R) (source : R → R) (fm : FieldMap R)
    (solver : Mat R → Vec R → SolverRet (Vec R) I) : Steady (Vec R) R I :=
  { form := fun x => poissonForm s source fun k => fm.apply (x k), solver := solver }

/-! ## `Heat1D` -/

/-- `Dxx = (diag(-2 ones(N)) + diag(ones(N-1),-1) + diag(ones(N-1),1))/dx**2` -/
def heatDxx (dx : R) : Mat R := fun i j =>
  ((if i = j then -(1 + 1 : R) else 0) + (if i = j + 1 then 1 else 0) + (if j = i + 1 then 1 else 0)) / (dx * dx)

/-- `PDE_form(IC, t) = (Dxx, np.zeros(N), IC)` -/
def heat1dForm (dx : R) (ic : Vec R) (_t : R) : Form R := { op := heatDxx dx, src := fun _ => 0, ic := ic }

/-- `cfl = 5/11` -/
def heatCfl : R := ((5 : Nat) : R) / ((11 : Nat) : R)

/-- `dx = endpoint/(N+1)` -/
def heatDx (dim : Nat) (endpoint : R) : R := endpoint / ((dim + 1 : Nat) : R)

/-- `dt_approx = cfl*dx**2` -/
def heatDtApprox (dim : Nat) (endpoint : R) : R := heatCfl * (heatDx dim endpoint * heatDx dim endpoint)

/-- `time_steps = np.linspace(0, max_time, max_iter+1, endpoint=True)` -/
def heatTimeSteps (maxTime : R) (maxIter : Nat) : List R := linspace 0 maxTime (maxIter + 1) true

structure HeatSetup (R : Type) where
  N : Nat
  dx : R
  maxIter : Nat
  timeSteps : List R
  gridDomain : List R     -- `grid_sol`
  gridObs : List R
  grids : Grids R
  tobs : List R           -- `_time_obs` (the default `'final'`)

/-- `Heat1D(dim, endpoint, max_time, observation_grid_map=gm)` up to the construction of the PDE,
    given `maxIter = int(max_time/dt_approx)` as an integer (`heatMaxIter` computes it for `Rat`;
    negative ⇒ `linspace` refuses a negative `num`, modelled by the caller). -/
def heatSetup (dim : Nat) (endpoint maxTime : R) (maxIter : Nat) (gm : GridMap) : Except Err (HeatSetup R) :=
  if dim = 0 then .error .valueError        -- `np.ones(N-1)` with N = 0
  else
    let dx := heatDx dim endpoint
    let grid := linspace dx endpoint dim false
    match gm.apply grid with
    | none => .error .indexError
    | some gridObs =>
      let ts := heatTimeSteps maxTime maxIter
      match resolveTimeObs ts (.str "final") with
      | .error e => .error e
      | .ok tobs =>
        .ok { N := dim, dx := dx, maxIter := maxIter, timeSteps := ts
              gridDomain := grid, gridObs := gridObs
              grids := Grids.init (some grid) (some gridObs), tobs := tobs }

end tp

/-- `max_iter = int(max_time/dt_approx)` over the rationals (`int()` truncates towards zero);
    `none`: division by zero (`endpoint = 0`) -/
def heatMaxIterInt (dim : Nat) (endpoint maxTime : Rat) : Option Int :=
  let d : Rat := heatDtApprox dim endpoint
  if d = 0 then none
  else
    let q := maxTime / d
    some (if 0 ≤ q then q.floor else -((-q).floor))

end CuqiVerif.C18
