/-
  C12 model, session-3 extension — the constructors and the glue around the modelled core:

    * `Model.__init__` (`cuqi/model/_model.py` l. 97–147): order of the validations, the `jacobian=`
      wrapper, how the two geometry arguments are read (`tuple` of length 2 → `_DefaultGeometry2D`,
      `int` → `_DefaultGeometry1D`, `Geometry`, `None` → `AttributeError`, anything else → `TypeError`),
      and `cuqi.utilities.get_non_default_args` (the names the model's input may be given under);
    * `LinearModel.__init__` (l. 539–571): matrix or callables, the adjoint check, geometries inferred
      from `matrix.shape`;
    * `PDEModel.__init__` (l. 654–661);
    * `CUQIarray.__new__` (`cuqi/array/_array.py` l. 29–43);
    * `domain_dim` / `range_dim` / `__len__`;
    * `Samples.__iter__` / `Ns` (`cuqi/samples/_samples.py`) — what `_apply_func` iterates over.

  Import-free, executable (`Driver/C12.lean`, ops `ctor`, `linctor`, `pdector`, `arrnew`, `iter`).
-/
namespace CuqiVerif.C12

/-- exception classes of the constructors -/
inductive CErr | typeError | attributeError | valueError
  deriving DecidableEq, Repr

def CErr.toString : CErr → String
  | .typeError => "TypeError"
  | .attributeError => "AttributeError"
  | .valueError => "ValueError"

/-- what a caller passes as `range_geometry` / `domain_geometry` -/
inductive GeomArg
  | tuple (entries : List Nat)      -- a python tuple (of non-negative ints)
  | int (n : Int)                   -- a python `int` (`bool` included: `True` is 1)
  | geometry (gid : Nat) (parDim : Nat)   -- an instance of `cuqi.geometry.Geometry`
  | none
  | other                           -- float, str, list, numpy integer, …
  deriving DecidableEq, Repr

/-- the geometry object the model ends up with -/
inductive GeomRes
  | default2D (r c : Nat)           -- `_DefaultGeometry2D((r, c))`
  | default1D (n : Nat)             -- `_DefaultGeometry1D(grid=n)`: grid `arange(n)` (empty for `n ≤ 0`)
  | given (gid : Nat) (parDim : Nat)
  deriving DecidableEq, Repr

/-- `par_dim` of the resulting geometry (`domain_dim`, `range_dim`, `__len__`) -/
def GeomRes.parDim : GeomRes → Nat
  | .default2D r c => r * c
  | .default1D n => n
  | .given _ d => d

/-- the `if isinstance(...)` chain that stores `range_geometry` / `domain_geometry` -/
def readGeomArg : GeomArg → Except CErr GeomRes
  | .tuple [r, c] => pure (.default2D r c)
  | .tuple _ => throw .typeError
  | .int n => pure (.default1D n.toNat)
  | .geometry g d => pure (.given g d)
  | .none => throw .attributeError
  | .other => throw .typeError

/-- `cuqi.utilities.get_non_default_args(func)`: the attribute `_non_default_args` if the callable
    has one (e.g. another `Model`), else the parameters of the signature without default that are
    not *named* `args` / `kwargs` (`*args`, `**kwargs` themselves have these names). -/
def getNonDefaultArgs (cached : Option (List String)) (params : List (String × Bool)) : List String :=
  match cached with
  | some l => l
  | none => (params.filter (fun p => p.1 != "kwargs" && p.1 != "args" && !p.2)).map Prod.fst

/-- An optional callable argument: not given, or given and callable / not callable. -/
inductive OptCallable | absent | callable | notCallable
  deriving DecidableEq, Repr

/-- how `_gradient_func` is set -/
inductive GradSource | none | userGradient | jacobianWrapper
  deriving DecidableEq, Repr

structure ModelInitArgs where
  forwardCallable : Bool
  gradient : OptCallable
  jacobian : OptCallable
  rangeArg : GeomArg
  domainArg : GeomArg
  cached : Option (List String)
  params : List (String × Bool)

structure ModelInitRes where
  gradSource : GradSource
  range : GeomRes
  domain : GeomRes
  nonDefaultArgs : List String
  deriving DecidableEq, Repr

/-- `Model.__init__` (order of the checks as in the code) -/
def modelInit (a : ModelInitArgs) : Except CErr ModelInitRes :=
  if !a.forwardCallable then throw .typeError
  else if a.gradient != .absent && a.jacobian != .absent then throw .typeError
  else if a.gradient == .notCallable then throw .typeError
  else if a.jacobian == .notCallable then throw .typeError
  else
    let gs : GradSource := if a.jacobian == .callable then .jacobianWrapper
                           else if a.gradient == .callable then .userGradient else .none
    readGeomArg a.rangeArg >>= fun R =>
    readGeomArg a.domainArg >>= fun D =>
    pure { gradSource := gs, range := R, domain := D, nonDefaultArgs := getNonDefaultArgs a.cached a.params }

/-- what is passed as `forward` to `LinearModel` -/
inductive LinForward
  | callable (cached : Option (List String)) (params : List (String × Bool))
  | matrix (rows cols : Nat)        -- something with `.shape == (rows, cols)`
  | noShape                         -- not callable and without `.shape` (a list of lists)

structure LinInitRes where
  matrixBacked : Bool
  range : GeomRes
  domain : GeomRes
  nonDefaultArgs : List String
  deriving DecidableEq, Repr

/-- `LinearModel.__init__(forward, adjoint, range_geometry, domain_geometry)` -/
def linearInit (fwd : LinForward) (adjoint : OptCallable) (rangeArg domainArg : GeomArg) :
    Except CErr LinInitRes :=
  match fwd with
  | .callable cached params =>
      -- `adjoint_func = adjoint`; `matrix = None`
      if adjoint != .callable then throw .typeError
      else
        readGeomArg rangeArg >>= fun R => readGeomArg domainArg >>= fun D =>
        pure { matrixBacked := false, range := R, domain := D, nonDefaultArgs := getNonDefaultArgs cached params }
  | .matrix r c =>
      -- the two lambdas are callable whatever `adjoint` is; missing geometries come from `matrix.shape`
      (if rangeArg == .none then pure (GeomRes.default1D r) else readGeomArg rangeArg) >>= fun R =>
      (if domainArg == .none then pure (GeomRes.default1D c) else readGeomArg domainArg) >>= fun D =>
      pure { matrixBacked := true, range := R, domain := D, nonDefaultArgs := ["x"] }
  | .noShape =>
      if rangeArg == .none || domainArg == .none then throw .attributeError     -- `matrix.shape`
      else
        readGeomArg rangeArg >>= fun R => readGeomArg domainArg >>= fun D =>
        pure { matrixBacked := true, range := R, domain := D, nonDefaultArgs := ["x"] }

/-- `PDEModel.__init__(PDE, range_geometry, domain_geometry)`: the two callables are bound methods
    (`_forward_func(self, x)` → argument `x`), the gradient function is always set. -/
def pdeInit (isPDE : Bool) (rangeArg domainArg : GeomArg) : Except CErr ModelInitRes :=
  if !isPDE then throw .valueError
  else modelInit { forwardCallable := true, gradient := .callable, jacobian := .absent,
                   rangeArg := rangeArg, domainArg := domainArg, cached := none, params := [("x", false)] }

/-! ### the arguments as python values: `callable(...)`, the cached names and the signature are DERIVED -/

/-- what kind of python value is passed where a callable is expected -/
inductive PyArg
  | function (params : List (String × Bool))   -- `def` / `lambda` / bound method (without `self`): names and "has a default"
  | modelObject (args : List String)           -- a `cuqi.model.Model` (callable; carries `_non_default_args`)
  | ndarray (rows cols : Nat)                  -- a 2-D array / sparse matrix (`.shape`)
  | listObj | number | strObj                  -- not callable, no `.shape`
  | noneObj                                    -- `None` (= argument not given for `gradient` / `jacobian` / `adjoint`)
  deriving DecidableEq, Repr

/-- `callable(v)` -/
def PyArg.callable : PyArg → Bool
  | .function _ => true
  | .modelObject _ => true
  | _ => false

/-- an optional callable argument as the checks `is not None` / `callable(...)` see it -/
def PyArg.toOpt (v : PyArg) : OptCallable :=
  if v == .noneObj then .absent else if v.callable then .callable else .notCallable

/-- `Model(forward, range_geometry, domain_geometry, gradient, jacobian)` from the values passed -/
def modelInitPy (fwd grad jac : PyArg) (ra da : GeomArg) : Except CErr ModelInitRes :=
  modelInit { forwardCallable := fwd.callable, gradient := grad.toOpt, jacobian := jac.toOpt, rangeArg := ra, domainArg := da
              cached := match fwd with | .modelObject a => some a | _ => none
              params := match fwd with | .function p => p | _ => [] }

/-- `LinearModel(forward, adjoint, range_geometry, domain_geometry)` from the values passed
    (`forward` other than `None`) -/
def linearInitPy (fwd adj : PyArg) (ra da : GeomArg) : Except CErr LinInitRes :=
  linearInit (match fwd with
              | .function p => .callable none p
              | .modelObject a => .callable (some a) []
              | .ndarray r c => .matrix r c
              | _ => .noShape) adj.toOpt ra da

/-- `CUQIarray.__new__(input_array, is_par, geometry)`: `ndim` and length of the first axis of
    `np.asarray(input_array)`; returns the geometry the array carries. -/
def cuqiarrayNew (ndim : Nat) (len0 : Nat) (isPar : Bool) (geometry : Option Nat) : Except CErr GeomRes :=
  if !isPar && geometry.isNone then throw .valueError
  else if isPar && ndim > 1 then throw .valueError
  else match geometry with
    | some g => pure (.given g 0)
    | none => if ndim = 0 then throw .typeError      -- `len()` of a 0-d array
              else pure (.default1D len0)

/-- `Samples.__iter__` / `Samples.Ns` for a 2-D array (`samples[..., i]`: the columns) or a python list
    (its items): what `_apply_func` applies the function to, one after the other. -/
inductive SamplesData (α : Type)
  | array (rows : List (List α)) (ncols : Nat)     -- shape `(len rows, ncols)`
  | list (items : List (List α))

def SamplesData.ns {α : Type} : SamplesData α → Nat
  | .array _ n => n
  | .list l => l.length

def SamplesData.iter {α : Type} [Inhabited α] : SamplesData α → List (List α)
  | .array rows n => (List.range n).map (fun j => rows.map (fun r => r.getD j default))
  | .list l => l

end CuqiVerif.C12
