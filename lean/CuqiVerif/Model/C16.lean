/-
  C16 model — the solvers of `cuqi/solver/_solver.py`, transcribed as executable recurrences.
  Import-free (core Lean only).

  Everything is generic in the scalar type `K` (the driver runs the `Rat` instance, the theorems
  in `Props/C16.lean` take `K` an ordered field, so ℚ and ℝ are both covered) and in the vector
  types `V` (unknowns) and `W` (data), whose operations come in a record `VOps`.  The executable
  instance is `vecOps n : VOps K (Vector K n)` (arrays of fixed length).

  Norms: the code only *compares* Euclidean norms or squares them again (`gamma = norms**2`), so
  the model carries squared norms; each comparison is rewritten on squares with the sign cases of
  the tolerance made explicit (`cgFlag`, `lmCont`, `fistaSmall`).

  Not in the model (no effect on what is returned): CGLS/PCGLS `xmax`, `shrink`, and the final
  `flag = 3 / 4` assignments — the code *constructs* `ValueError(...)` there without raising it.
-/
namespace CuqiVerif.C16

/-- vector operations the solvers use (`+`, `-`, scalar `*`, `v.T @ w`) -/
structure VOps (K V : Type) where
  add : V → V → V
  sub : V → V → V
  smul : K → V → V
  dot : V → V → K

/-- `LA.norm(v)**2` -/
def VOps.nrm2 {K V : Type} (o : VOps K V) (v : V) : K := o.dot v v

section Scalars
variable {K : Type} [Add K] [Sub K] [Mul K] [Div K] [Neg K] [Zero K] [One K] [LT K] [LE K]
  [DecidableEq K] [DecidableLT K] [DecidableLE K] [NatCast K]

/-- `np.sign` -/
def sgn (x : K) : K := if x < 0 then -1 else if x = 0 then 0 else 1
/-- `np.abs` -/
def absK (x : K) : K := if x < 0 then -x else x
/-- `np.maximum(a, b)` -/
def maxK (a b : K) : K := if a < b then b else a
/-- `np.minimum(a, b)` -/
def minK (a b : K) : K := if b < a then b else a

/-- `ProximalL1`, one coordinate: `sign(x) * max(|x| - gamma, 0)` -/
def softThr (gamma x : K) : K := sgn x * maxK (absK x - gamma) 0
/-- `ProjectNonnegative`, one coordinate: `max(x, 0)` -/
def projNonneg1 (x : K) : K := maxK x 0
/-- `ProjectBox`, one coordinate: `min(max(x, lower), upper)` -/
def projBox1 (x l u : K) : K := minK (maxK x l) u

/-- CGLS/PCGLS `flag = (norms <= norms0*tol) or (normx*tol >= 1)` with
    `gamma = norms²`, `gamma0 = norms0²`, `normx2 = normx²`.  For `tol ≥ 0` both sides of each
    comparison are non-negative and are squared; for `tol < 0` the first clause needs
    `norms = 0 = norms0` and the second is false. -/
def cgFlag (gamma gamma0 normx2 tol : K) : Bool :=
  if tol < 0 then decide (gamma = 0) && decide (gamma0 = 0)
  else decide (gamma ≤ gamma0 * (tol * tol)) || decide (1 ≤ normx2 * (tol * tol))

/-- LM loop condition `(ng/ng0) > gradtol` on squares (`ng0 = 0` gives `nan > gradtol = False`). -/
def lmCont (ng2 ng02 gradtol : K) : Bool :=
  if ng02 = 0 then false
  else if gradtol < 0 then true
  else decide (gradtol * gradtol * ng02 < ng2)

/-- FISTA `LA.norm(d) <= abstol` with `d2 = ‖d‖²`. -/
def fistaSmall (d2 abstol : K) : Bool :=
  if abstol < 0 then false else decide (d2 ≤ abstol * abstol)

end Scalars

/-! ## CGLS -/
section CG
variable {K V W : Type} [Add K] [Mul K] [Div K] [Zero K] [One K] [LT K] [LE K]
  [DecidableEq K] [DecidableLT K] [DecidableLE K]

structure CGState (K V W : Type) where
  x : V
  r : W
  s : V
  p : V
  gamma : K
  k : Nat
  flag : Bool
  indef : Bool

variable (oV : VOps K V) (oW : VOps K W) (fwd : V → W) (adj : W → V) (b : W) (shift tol eps : K)

/-- lines 271–283: `x = x0.copy(); r = b - A x; s = Aᵀ r - shift x; p = s; gamma = ‖s‖²` -/
def cglsInit (x0 : V) : CGState K V W :=
  let r := oW.sub b (fwd x0)
  let s := oV.sub (adj r) (oV.smul shift x0)
  { x := x0, r := r, s := s, p := s, gamma := oV.nrm2 s, k := 0, flag := false, indef := false }

/-- one pass of the `while` body, lines 288–316 (`gamma0 = norms0²`) -/
def cglsStep (gamma0 : K) (st : CGState K V W) : CGState K V W :=
  let q := fwd st.p
  let delta0 := oW.nrm2 q + shift * oV.nrm2 st.p
  let delta := if delta0 = 0 then eps else delta0          -- `elif delta == 0: delta = eps`
  let alpha := st.gamma / delta
  let x := oV.add st.x (oV.smul alpha st.p)
  let r := oW.sub st.r (oW.smul alpha q)
  let s := oV.sub (adj r) (oV.smul shift x)
  let gamma := oV.nrm2 s
  let p := oV.add s (oV.smul (gamma / st.gamma) st.p)
  { x := x, r := r, s := s, p := p, gamma := gamma, k := st.k + 1,
    flag := cgFlag gamma gamma0 (oV.nrm2 x) tol,
    indef := st.indef || decide (delta0 < 0) }

/-- `while (k < maxit) and (flag == 0)`; `fuel` = iterations still allowed -/
def cglsLoop (gamma0 : K) : Nat → CGState K V W → CGState K V W
  | 0, st => st
  | fuel + 1, st => if st.flag then st else cglsLoop gamma0 fuel (cglsStep oV oW fwd adj shift tol eps gamma0 st)

/-- `CGLS(A, b, x0, maxit, tol, shift).solve()` — final state; the code returns `(x, k)` -/
def cgls (x0 : V) (maxit : Nat) : CGState K V W :=
  let st0 := cglsInit oV oW fwd adj b shift x0
  cglsLoop oV oW fwd adj shift tol eps st0.gamma maxit st0

/-! ## PCGLS: `pinv = P⁻¹ ·`, `pinvT = P⁻ᵀ ·`.  The `shift` argument is stored and never read. -/
variable (pinv pinvT : V → V)

def pcglsInit (x0 : V) : CGState K V W :=
  let r := oW.sub b (fwd x0)
  let s := pinvT (adj r)
  { x := x0, r := r, s := s, p := s, gamma := oV.nrm2 s, k := 0, flag := false, indef := false }

def pcglsStep (gamma0 : K) (st : CGState K V W) : CGState K V W :=
  let t := pinv st.p
  let q := fwd t
  let delta0 := oW.nrm2 q
  let delta := if delta0 = 0 then eps else delta0
  let alpha := st.gamma / delta
  let x := oV.add st.x (oV.smul alpha t)
  let r := oW.sub st.r (oW.smul alpha q)
  let s := pinvT (adj r)
  let gamma := oV.nrm2 s
  let p := oV.add s (oV.smul (gamma / st.gamma) st.p)
  { x := x, r := r, s := s, p := p, gamma := gamma, k := st.k + 1,
    flag := cgFlag gamma gamma0 (oV.nrm2 x) tol,
    indef := st.indef || decide (delta0 < 0) }

def pcglsLoop (gamma0 : K) : Nat → CGState K V W → CGState K V W
  | 0, st => st
  | fuel + 1, st => if st.flag then st else pcglsLoop gamma0 fuel (pcglsStep oV oW fwd adj tol eps pinv pinvT gamma0 st)

/-- `PCGLS(A, b, x0, P, maxit, tol, shift).solve()`; `_shift` is accepted and ignored, as in the code -/
def pcgls (_shift : K) (x0 : V) (maxit : Nat) : CGState K V W :=
  let st0 := pcglsInit oV oW fwd adj b pinvT x0
  pcglsLoop oV oW fwd adj tol eps pinv pinvT st0.gamma maxit st0

end CG

/-! ## FISTA / ISTA -/
section Fista
variable {K V W : Type} [Add K] [Sub K] [Mul K] [Div K] [Zero K] [LT K] [LE K]
  [DecidableLT K] [DecidableLE K] [NatCast K]
variable (oV : VOps K V) (oW : VOps K W) (fwd : V → W) (adj : W → V) (b : W)
  (prox : V → K → V) (stepsize abstol : K) (maxit : Nat) (adaptive : Bool)

/-- `proximal(x_old - stepsize*grad, stepsize)` with `grad = Aᵀ(A x_old - b)` -/
def proxGradStep (xold : V) : V :=
  prox (oV.sub xold (oV.smul stepsize (adj (oW.sub (fwd xold) b)))) stepsize

/-- `x_new + ((k-1)/(k+2))*(x_new - x_old)` -/
def fistaExtrap (k : Nat) (xnew xold : V) : V :=
  oV.add xnew (oV.smul ((((k - 1 : Nat) : K)) / (((k + 2 : Nat) : K))) (oV.sub xnew xold))

/-- the `while True` loop, lines 635–652; `k` = iterations done so far, `x` = current (extrapolated) point.
    The loop always performs at least one pass and returns at the latest when `k ≥ maxit`. -/
def fistaGo : Nat → V → Nat → V × Nat
  | 0, x, k => (proxGradStep oV oW fwd adj b prox stepsize x, k + 1)
  | fuel + 1, x, k =>
    let k' := k + 1
    let xnew := proxGradStep oV oW fwd adj b prox stepsize x
    if fistaSmall (oV.nrm2 (oV.sub xnew x)) abstol || decide (maxit ≤ k') then (xnew, k')
    else fistaGo fuel (if adaptive then fistaExtrap oV k' xnew x else xnew) k'

/-- `FISTA(A, b, x0, proximal, maxit, stepsize, abstol, adaptive).solve()` -/
def fista (x0 : V) : V × Nat :=
  fistaGo oV oW fwd adj b prox stepsize abstol maxit adaptive (maxit - 1) x0 0

end Fista

/-! ## Levenberg–Marquardt (`LM.solve`, callable `A` and `jacfun`) -/
section LM
variable {K V W M : Type} [Add K] [Sub K] [Mul K] [Div K] [Neg K] [Zero K] [LT K] [LE K]
  [DecidableEq K] [DecidableLT K] [DecidableLE K] [NatCast K]

structure LMState (K V W M : Type) where
  x : V
  r : W
  J : M
  g : V
  ng2 : K
  nu : K
  f : K
  i : Nat

/- `res = A`, `jac = jacfun`, `jtv J r = J.T @ r`, `insolve J nu g` = the `s` with
   `(JᵀJ + nu·I) s = g` (a leaf: any solver; the driver checks the equation on what it uses). -/
variable (oV : VOps K V) (oW : VOps K W) (res : V → W) (jac : V → M) (jtv : M → W → V)
  (insolve : M → K → V → V) (nu0 gradtol : K)

def half : K := ((1 : Nat) : K) / ((2 : Nat) : K)
def quarter : K := ((1 : Nat) : K) / ((4 : Nat) : K)
def threeQuarters : K := ((3 : Nat) : K) / ((4 : Nat) : K)
def two : K := ((2 : Nat) : K)

/-- lines 501–512; `nuInit` is the code's `nu = ng = ‖g‖` (a square root: supplied as data) -/
def lmInit (x0 : V) (nuInit : K) : LMState K V W M :=
  let r := res x0
  let J := jac x0
  let g := jtv J r
  { x := x0, r := r, J := J, g := g, ng2 := oV.nrm2 g, nu := nuInit, f := half * oW.nrm2 r, i := 0 }

/-- one pass of the `while` body, lines 526–558 (`mu0 = 0, mulow = 1/4, muhigh = 3/4, omdown = 1/2, omup = 2`) -/
def lmStep (st : LMState K V W M) : LMState K V W M :=
  let s := insolve st.J st.nu st.g
  let xtemp := oV.sub st.x s
  let rtemp := res xtemp
  let Jtemp := jac xtemp
  let ftemp := half * oW.nrm2 rtemp
  let num := st.f - ftemp
  let den := oV.dot (oV.sub xtemp st.x) st.g
  let ratio : K := if num ≠ 0 ∧ den ≠ 0 then -(two * (num / den)) else 0
  if ratio < 0 then
    let J := st.J
    let r := st.r
    let g := jtv J r
    { st with nu := maxK (two * st.nu) nu0, g := g, ng2 := oV.nrm2 g, i := st.i + 1 }
  else
    let nu :=
      if ratio < quarter then maxK (two * st.nu) nu0
      else if threeQuarters < ratio then
        let nu' := half * st.nu
        if nu' < nu0 then 0 else nu'
      else st.nu
    let g := jtv Jtemp rtemp
    { x := xtemp, r := rtemp, J := Jtemp, g := g, ng2 := oV.nrm2 g, nu := nu, f := ftemp, i := st.i + 1 }

/-- `while ((ng/ng0) > gradtol) and (i < maxit)` -/
def lmLoop (ng02 : K) : Nat → LMState K V W M → LMState K V W M
  | 0, st => st
  | fuel + 1, st =>
    if lmCont st.ng2 ng02 gradtol then lmLoop ng02 fuel (lmStep oV oW res jac jtv insolve nu0 st) else st

/-- `LM(A, x0, jacfun, maxit, tol, gradtol, nu0).solve()` — final state; the code returns
    `(x, {"func": r, "Jac": J, "nfev": i})`.  (`tol` is stored and never read.) -/
def lm (x0 : V) (nuInit : K) (maxit : Nat) : LMState K V W M :=
  let st0 := lmInit oV oW res jac jtv x0 nuInit
  lmLoop oV oW res jac jtv insolve nu0 gradtol st0.ng2 maxit st0

end LM

/-! ## SciPy wrappers: what is copied from SciPy's result into `(solution, info)` -/

/-- fields of a SciPy `OptimizeResult` that the wrappers read.  `jac` and `nit` are not reported by every
    method (Nelder-Mead, Powell, COBYLA have no `jac`; COBYLA has no `nit`): absent = `none` -/
structure SciRes (X F G : Type) where
  x : X
  fn : F
  jac : Option G
  nit : Option Nat
  nfev : Nat
  success : Bool
  message : String

/-- `info` dictionary of `minimize` / `maximize` / `L_BFGS_B` -/
structure Info (F G : Type) where
  success : Bool
  message : String
  func : F
  grad : Option G
  nit : Option Nat
  nfev : Nat
  deriving DecidableEq

/-- `minimize.solve`: `(solution['x'], {success, message, func: fun, grad: solution.get('jac', None),
    nit: solution.get('nit', None), nfev})` — a field SciPy does not report is `None`, nothing raises -/
def wrapMinimize {X F G : Type} (res : SciRes X F G) : X × Info F G :=
  (res.x, { success := res.success, message := res.message, func := res.fn, grad := res.jac,
            nit := res.nit, nfev := res.nfev })

/-- `maximize(func, x0, gradfunc)`: `minimize` on `-func` and `-gradfunc` (a missing gradient stays missing) -/
def maximizeVia {X F G : Type} [Neg F] [Neg G]
    (scipy : (X → F) → Option (X → G) → X → SciRes X F G)
    (func : X → F) (gradfunc : Option (X → G)) (x0 : X) : X × Info F G :=
  wrapMinimize (scipy (fun x => -func x) (gradfunc.map (fun g x => -g x)) x0)

/-- `minimize(func, x0, gradfunc)` -/
def minimizeVia {X F G : Type}
    (scipy : (X → F) → Option (X → G) → X → SciRes X F G)
    (func : X → F) (gradfunc : Option (X → G)) (x0 : X) : X × Info F G :=
  wrapMinimize (scipy func gradfunc x0)

/-- what `minimize.solve` hands to `scipy.optimize.minimize(func, x0, jac=gradfunc, method=method, **kwargs)`:
    `method` exactly as given (`None` stays `None` — SciPy, not the wrapper, resolves the default from the
    bounds/constraints it receives), `jac` present iff a gradient was given, every keyword as given, in order -/
structure SciCall where
  method : Option String
  hasJac : Bool
  kwargs : List String
  deriving DecidableEq, Repr

def minimizeCall (method : Option String) (hasGrad : Bool) (kwargs : List String) : SciCall :=
  { method := method, hasJac := hasGrad, kwargs := kwargs }

/-- `maximize` negates `func`/`gradfunc` and forwards `method` and the keywords untouched -/
def maximizeCall (method : Option String) (hasGrad : Bool) (kwargs : List String) : SciCall :=
  minimizeCall method hasGrad kwargs

/-- `L_BFGS_B.solve`: `(success, message)` from `fmin_l_bfgs_b`'s `warnflag` and `task` -/
def lbfgsbStatus (warnflag : Int) (task : String) : Nat × String :=
  if warnflag = 0 then (1, "Optimization terminated successfully.")
  else if warnflag = 1 then (0, "Terminated due to too many function evaluations or too many iterations.")
  else (0, task)

/-- `approx_grad` passed by `L_BFGS_B`: 1 iff no gradient was given -/
def lbfgsbApproxGrad (hasGrad : Bool) : Nat := if hasGrad then 0 else 1

/-! ## The executable vector instance: fixed-length arrays -/
section Vec
variable {K : Type} [Add K] [Sub K] [Mul K] [Zero K]

def vdot {n : Nat} (a b : Vector K n) : K := (List.ofFn (fun i : Fin n => a[i] * b[i])).sum

def vecOps (n : Nat) : VOps K (Vector K n) where
  add a b := Vector.zipWith (· + ·) a b
  sub a b := Vector.zipWith (· - ·) a b
  smul c a := a.map (c * ·)
  dot := vdot

abbrev Mat (K : Type) (m n : Nat) := Vector (Vector K n) m

/-- `A @ x` -/
def mulVec {m n : Nat} (A : Mat K m n) (x : Vector K n) : Vector K m := A.map (fun row => vdot row x)
/-- `A.T @ r` -/
def mulVecT {m n : Nat} (A : Mat K m n) (r : Vector K m) : Vector K n :=
  Vector.ofFn (fun j : Fin n => (List.ofFn (fun i : Fin m => A[i][j] * r[i])).sum)

end Vec

section VecProx
variable {K : Type} [Sub K] [Mul K] [Neg K] [Zero K] [One K] [LT K] [DecidableEq K] [DecidableLT K]

/-- `ProximalL1(x, gamma)` -/
def proximalL1 {n : Nat} (x : Vector K n) (gamma : K) : Vector K n := x.map (softThr gamma)
/-- `ProjectNonnegative(x)` -/
def projectNonnegative {n : Nat} (x : Vector K n) : Vector K n := x.map projNonneg1
/-- `ProjectBox(x, lower, upper)`; `None` bounds are zeros / ones -/
def projectBox {n : Nat} (x : Vector K n) (lower upper : Option (Vector K n)) : Vector K n :=
  let l := lower.getD (Vector.replicate n 0)
  let u := upper.getD (Vector.replicate n 1)
  Vector.ofFn (fun i : Fin n => projBox1 x[i] l[i] u[i])

end VecProx

end CuqiVerif.C16
