/-
  C09 model, part 2 — WHAT the target handed to a block sampler is.

  `Model/C09.lean` represents the conditioned joint `self.target(**others)` by the keyword dictionary
  `others` it is built from.  This file composes that dictionary with the executable model of
  `JointDistribution` (`Model/C01.lean`: `__init__`, `__call__`/`_condition`,
  `_parse_args_add_to_kwargs`, `get_parameter_names`, `_reduce_to_single_density` with all its
  branches, `Posterior`, `MultipleLikelihoodPosterior`), so that the object a block sampler works on
  is inside the model:

  * `gibbsTarget`  — `HybridGibbs.__init__` / legacy `Gibbs.__init__`: the user builds
    `JointDistribution(*densities)(**data)`; the constructor stores `self.target = target()`
    (`cuqi/experimental/mcmc/_gibbs.py` 109, `cuqi/sampler/_gibbs.py` 75);
  * `parNames`     — `self.par_names = self.target.get_parameter_names()` (118 / 87);
  * `handed`       — `HybridGibbs._set_target` (308-309) / legacy `Gibbs.step` (129, 132):
    `self.target(**{m: current[m] for m in self.par_names if m != n})`, i.e. `_condition` followed by
    `_reduce_to_single_density` (Posterior / Distribution / MultipleLikelihoodPosterior / joint);
  * `handedAll`    — the targets of all blocks for one tuple of current values (`_set_targets`);
  * `sweepHanded`  — the targets handed along one sweep of the scheduling model (block `n` against the
    values current when its update starts).

  Import-free apart from the two model files; executable (driver op `tg`).
-/
import CuqiVerif.Model.C01
import CuqiVerif.Model.C09

namespace CuqiVerif.C09
open CuqiVerif.C01

section
variable {V K : Type} [Add K] [Zero K]

/-- `posterior = JointDistribution(*densities)(**data)` (user) and `self.target = target()` (both
    constructors: "create a copy of target distribution") -/
def gibbsTarget (Fs : List (Factor V K)) (data : Kw V) : Except Err (Obj V K) :=
  match mkJoint (Fs.map fresh) with
  | .error e => .error e
  | .ok J =>
    match J.cond [] data with
    | .error e => .error e
    | .ok P => P.cond [] []

/-- `self.par_names = self.target.get_parameter_names()` -/
def parNames (P : Obj V K) : List Name := P.paramNames

/-- `self.target(**{m: current[m] for m in self.par_names if m != n})` — the object assigned to
    `self.samplers[n].target` (HybridGibbs) / passed to the sampler class (legacy `Gibbs.step`) -/
def handed (P : Obj V K) (cur : Name → V) (n : Name) : Except Err (Obj V K) :=
  P.cond [] (others (parNames P) cur n)

/-- `isinstance(self.target, JointDistribution)`: the plain joint, the stacked joint and
    `MultipleLikelihoodPosterior` are (sub)classes of it; `Posterior`, a single `Distribution`, … are not -/
def isJointInstance : Obj V K → Bool
  | .joint _ _ => true
  | _ => false

/-- what the constructors / the first call raise because of the CLASS of the target -/
inductive CErr | attributeError | valueError
  deriving DecidableEq, Repr

/-- `HybridGibbs.__init__` on a target that is not a joint (a posterior with a single free variable reduces
    to `Posterior` / `Distribution`): `_get_initial_points` calls `self.target.get_density(n)` for every
    sampler WITHOUT `initial_point` (`AttributeError`: only joints have `get_density`); with all initial
    points given the constructor reaches `validate_targets` (151-156), which raises
    `ValueError('Target distribution must be a JointDistribution.')`.  A `MultipleLikelihoodPosterior`
    (one free variable with two or more children) IS a `JointDistribution` and is accepted. -/
def hybridTargetVerdict (P : Obj V K) (allInitialPointsGiven : Bool) : Option CErr :=
  if isJointInstance P then none
  else if allInitialPointsGiven then some .valueError else some .attributeError

/-- legacy `Gibbs`: the constructor checks nothing; the first `sample` calls
    `self.target.get_density(n)` in `_get_initial_points` (`AttributeError` unless the target is a joint) -/
def legacyTargetVerdict (P : Obj V K) : Option CErr :=
  if isJointInstance P then none else some .attributeError

/-- `get_samples`: `Samples(array, self.target.get_density(n).geometry)` — the dimension of the geometry the
    stored sweeps of block `n` are wrapped in (`none`: no density of that name, `ValueError`) -/
def samplesGeometryDim (P : Obj V K) (n : Name) : Option Nat :=
  match P with
  | .joint _ ds => (ds.filterMap (fun d => match d with
      | .dist F _ _ => if F.name = n then some F.dim else none
      | .lik F _ _ _ => if F.name = n then some F.dim else none
      | .eval _ _ _ => none)).head?
  | _ => none

/-- `_set_targets`: the targets of all blocks for one tuple of current values, in `par_names` order -/
def handedAll (P : Obj V K) (cur : Name → V) : List (Name × Except Err (Obj V K)) :=
  (parNames P).map (fun n => (n, handed P cur n))

end

section
variable {V K : Type} [Add K] [Zero K]

/-- the targets handed along one sweep of the scheduling model: block `n` is conditioned on the
    values that are current when its update starts (`blockUpdate` of `Model/C09.lean`) -/
def sweepHanded (P : Obj V K) (ds : Nat → Draw V) (g : HG Name V) :
    List (Name × Except Err (Obj V K)) :=
  (g.names.foldl (fun (acc : HG Name V × List (Name × Except Err (Obj V K))) n =>
      (blockUpdate ds acc.1 n, acc.2 ++ [(n, handed P acc.1.cur n)])) (g, [])).2

end

end CuqiVerif.C09
