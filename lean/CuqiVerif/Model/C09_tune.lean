/-
  C09 model, part 3 — the warm-up loop of `HybridGibbs` with its tuning schedule
  (`cuqi/experimental/mcmc/_gibbs.py`, `warmup` 176-201 and `tune` 260-273):

      tune_interval = max(int(tune_freq * Nb), 1)
      for idx in range(Nb):
          self.step()
          if (idx + 1) % tune_interval == 0:
              self.tune(tune_interval, idx // tune_interval)      # every sampler, in par_names order
          self._store_samples()

  `Model/C09.lean` treats `warmup(Nb)` as `sampleN` ("as far as points, targets and storage go"); here the
  loop is transcribed with the tuning calls as observable events (`TuneEv`: when — number of tuples
  stored and number of transitions made so far —, which sampler, `skip_len`, `update_count`), including
  the float arithmetic of `tune_freq * Nb` (IEEE-754 binary64 product of the float `tune_freq`, given as
  the exact rational it denotes, and the integer `Nb`, rounded to nearest-even; `int()` truncates).
  What `sampler.tune` does to step sizes is not modelled (C06/C08).

  Import-free apart from `Model/C09.lean`; executable (driver: calls `W<tune_freq>!<Nb>`).
-/
import CuqiVerif.Model.C09

namespace CuqiVerif.C09

/-! ## `int(tune_freq * Nb)` in binary64 -/

/-- `2^e` as a rational -/
def pow2 (e : Int) : Rat :=
  if e ≥ 0 then ((2 ^ e.toNat : Nat) : Rat) else 1 / ((2 ^ (-e).toNat : Nat) : Rat)

/-- round a non-negative rational to the nearest integer, ties to even -/
def roundHalfEven (x : Rat) : Int :=
  let f := x.floor
  let r := x - (f : Rat)
  if r < 1 / 2 then f else if r > 1 / 2 then f + 1 else if f % 2 = 0 then f else f + 1

/-- IEEE-754 binary64 round-to-nearest-even of a rational (normal range; no overflow / subnormals:
    the products `tune_freq * Nb` of a run are far inside) -/
def f64round (x : Rat) : Rat :=
  if x = 0 then 0 else
    let a : Rat := if x < 0 then -x else x
    let k0 : Int := (Nat.log2 a.num.natAbs : Int) - (Nat.log2 a.den : Int)
    let k : Int := if a < pow2 k0 then k0 - 1 else k0          -- 2^k ≤ a < 2^(k+1)
    let e : Int := k - 52
    let m : Int := roundHalfEven (a / pow2 e)                   -- 53-bit significand
    (if x < 0 then (-1 : Rat) else 1) * (m : Rat) * pow2 e

/-- Python `int(x)` of a float: truncation towards zero -/
def pyInt (x : Rat) : Int := if x < 0 then -((-x).floor) else x.floor

/-- `tune_interval = max(int(tune_freq * Nb), 1)`; `tuneFreq` is the exact value of the float -/
def tuneInterval (tuneFreq : Rat) (Nb : Nat) : Nat :=
  max (pyInt (f64round (tuneFreq * (Nb : Rat)))).toNat 1

/-! ## the loop -/

variable {N V : Type}

/-- one call `sampler.tune(skip_len, update_count)`, and when it happened -/
structure TuneEv (N : Type) where
  /-- number of tuples stored so far (`len(self.samples[...])`) -/
  nStored : Nat
  /-- number of block-sampler transitions made so far -/
  pos : Nat
  name : N
  skipLen : Nat
  updateCount : Nat
  deriving DecidableEq, Repr

/-- `HybridGibbs.tune(skip_len, update_count)`: `for par_name in self.par_names: self.samplers[par_name].tune(…)` -/
def tuneAll (g : HG N V) (skipLen updateCount : Nat) : List (TuneEv N) :=
  g.names.map (fun n => ⟨g.stored.length, g.pos, n, skipLen, updateCount⟩)

/-- body of the `for idx in range(Nb)` loop of `warmup` -/
def warmupIter [DecidableEq N] (ds : Nat → Draw V) (interval idx : Nat)
    (st : HG N V × List (TuneEv N)) : HG N V × List (TuneEv N) :=
  let g1 := sweep ds st.1
  let t := if (idx + 1) % interval = 0 then tuneAll g1 interval (idx / interval) else []
  (store g1, st.2 ++ t)

/-- `k` more iterations starting at index `idx` -/
def warmupLoop [DecidableEq N] (ds : Nat → Draw V) (interval : Nat) :
    Nat → Nat → HG N V × List (TuneEv N) → HG N V × List (TuneEv N)
  | 0, _, st => st
  | k + 1, idx, st => warmupLoop ds interval k (idx + 1) (warmupIter ds interval idx st)

/-- `HybridGibbs.warmup(Nb, tune_freq)`: the state afterwards and the tuning calls made -/
def warmupN [DecidableEq N] (ds : Nat → Draw V) (tuneFreq : Rat) (Nb : Nat) (g : HG N V) :
    HG N V × List (TuneEv N) :=
  warmupLoop ds (tuneInterval tuneFreq Nb) Nb 0 (g, [])

end CuqiVerif.C09
