/-
  C04 model, session-3 second pass — how a distribution obtains its dimension (`cuqi/utilities/_utilities.py` `infer_len`,
  `cuqi/distribution/_distribution.py` `_infer_dim_of_mutable_variables`, the `geometry` getter, `dim`).  `dim` enters the
  log-densities directly (`Laplace`: `self.dim*log(0.5/scale)`, `Uniform`: `diff**self.dim`, `Gaussian`: scalar / vector
  branches of `get_sqrtprec_from_*`).  Import-free, executable.
-/
namespace CuqiVerif.C04

/-- what a mutable variable holds (after the class's own `force_ndarray`, which does not change the length:
    number → array of one element, list of k > 1 → array of k) -/
inductive PKind
  | none_                    -- `None`
  | callable                 -- a function (later conditioned)
  | number                   -- Python / numpy scalar
  | list (k : Nat)           -- Python list
  | arr1 (k : Nat)           -- 1-D array
  | arr2 (m n : Nat)         -- 2-D array: length = number of rows
  | arr0                     -- 0-d array: `len()` TypeError, then `shape[0]` IndexError
  | sparse (m : Nat)         -- scipy sparse matrix whose `len()` raises TypeError: `shape[0]`
  | dok (nnz : Nat)          -- scipy DOK matrix: a dict, `len()` = number of stored entries
  deriving DecidableEq, Repr

/-- `infer_len(value)`; `none`: IndexError -/
def inferLen : PKind → Option Nat
  | .none_ => some 0 | .callable => some 0 | .number => some 1
  | .list k => some k | .arr1 k => some k | .arr2 m _ => some m
  | .arr0 => none
  | .sparse m => some m | .dok nnz => some nnz

inductive DimRes | dim (n : Nat) | typeError | valueError | indexError
  deriving DecidableEq, Repr

def DimRes.toString : DimRes → String
  | .dim n => s!"dim {n}" | .typeError => "E:TypeError" | .valueError => "E:ValueError" | .indexError => "E:IndexError"

/-- `max([infer_len(getattr(self, var)) for var in mutable_vars])`; `none`: one of them raised -/
def maxLen : List PKind → Option Nat
  | [] => some 0
  | p :: ps => match inferLen p, maxLen ps with
    | some a, some b => some (max a b)
    | _, _ => none

/-- `Distribution.dim` = `self.geometry.par_dim`: `geom` is the parameter dimension of the geometry passed to the
    constructor (`none`: no geometry).  Inferred dimension > 1 that differs from the geometry's: TypeError; nothing to
    infer from and no geometry: ValueError; a scalar-only parameter set takes the geometry's dimension. -/
def resolveDim (geom : Option Nat) (ps : List PKind) : DimRes :=
  match maxLen ps with
  | none => .indexError
  | some m =>
    let inferred : Option Nat := if m > 0 then some m else none
    match inferred, geom with
    | some i, some g => if i > 1 && g ≠ 0 && g ≠ i then .typeError else (if g = 0 then .dim i else .dim g)
    | some i, none => .dim i
    | none, some g => .dim g
    | none, none => .valueError

end CuqiVerif.C04
