import CuqiVerif.Model.C11
/-
  C11 model, part 4 — positional arguments (`_parse_args_add_to_kwargs`).

  Transcribed:
    `Distribution._parse_args_add_to_kwargs(cond_vars, *args, **kwargs)`: more than `len(cond_vars) + 1`
        arguments → ValueError; arguments are bound, in order, to the conditioning variables and then to
        `_main_parameter`; a key bound both ways → ValueError                               (`parseArgsDist`)
    `Distribution._condition` with `_main_parameter` present: after the loop over the mutable variables,
        `return new_dist.to_likelihood(kwargs["_main_parameter"])` — before any keyword check, without
        looking at the name                                                                  (`St.condDistMain`)
    `JointDistribution._parse_args_add_to_kwargs`: arguments follow `get_parameter_names()`; a key bound
        both ways → ValueError; more arguments than names → IndexError                       (`parseArgsJoint`)
    `Model._parse_args_add_to_kwargs` + the keyword checks of `Model.forward`: positional AND keyword →
        ValueError; wrong count → ValueError; keyword set ≠ non-default arguments → ValueError   (`St.applyArgs`)
  All parsing happens BEFORE the copy is made: a refusal allocates and writes nothing.
-/
namespace CuqiVerif.C11

/-- reserved key `_main_parameter` -/
def mainKey : Nat := 1000000

/-- bind the arguments, in order, to the keys; `none` = refusal (key already given as keyword, or no key left) -/
def parseGo : List Nat → List Int → Kw → Option Kw
  | _, [], kw => some kw
  | [], _ :: _, _ => none
  | k :: ks, a :: as, kw => if kwHas kw k then none else parseGo ks as (kw ++ [(k, a)])

def parseArgsDist (cv : List Nat) (args : List Int) (kw : Kw) : Option Kw :=
  if args.length > cv.length + 1 then none else parseGo (cv ++ [mainKey]) args kw

def parseArgsJoint (names : List Nat) (args : List Int) (kw : Kw) : Option Kw := parseGo names args kw

/-- `Distribution._condition` when `_main_parameter` was bound -/
def St.condDistMain (s : St) (a : Nat) (kw : Kw) (data : Int) : St × Res :=
  let o := s.obj a
  let (s1, b) := s.makeCopy a
  let s2 := (condSlots o kw s1 b).condNormalSlot a b
  s2.toLikelihood b data

def St.jointNames (s : St) (a : Nat) : List Nat :=
  match s.get a .dens with
  | .refs ds => s.jointParNames ds
  | _ => []

def St.condArgsDist (s : St) (a : Nat) (args : List Int) (kw : Kw) : St × Res :=
  match parseArgsDist (s.condVars a) args kw with
  | none => (s, .err)
  | some kw' =>
    (match kwGet kw' mainKey with
     | some data => s.condDistMain a (kw'.filter (fun p => p.1 ≠ mainKey)) data
     | none => s.condAny a kw')

def St.condArgsJoint (s : St) (a : Nat) (args : List Int) (kw : Kw) : St × Res :=
  match parseArgsJoint (s.jointNames a) args kw with
  | none => (s, .err)
  | some kw' => s.condAny a kw'

/-- `obj(*args, **kw)` for a plain distribution / Lognormal / joint (other classes: keyword form only) -/
def St.condArgs (s : St) (a : Nat) (args : List Int) (kw : Kw) : St × Res :=
  match s.cls a with
  | .dist | .lognormal => s.condArgsDist a args kw
  | .joint | .mlp => s.condArgsJoint a args kw
  | _ => if args.isEmpty then s.condAny a kw else (s, .err)

/-- `model(*pos, **kw)` with distributions as inputs (`pos` / `kw` values are addresses) -/
def St.applyArgs (s : St) (m : Nat) (pos : List Nat) (kw : List (Nat × Nat)) : St × Res :=
  match s.get m .args with
  | .ids nda =>
    let parsed : Option (List (Nat × Nat)) :=
      if pos.isEmpty then some kw
      else if !kw.isEmpty then none
      else if pos.length ≠ nda.length then none
      else some (nda.zip pos)
    (match parsed with
     | none => (s, .err)
     | some kw' =>
       if !(sameSet (kw'.map (·.1)) nda) then (s, .err)
       else match kw' with
         | [(_, d)] => s.applyModel m d
         | _ => (s, .err))
  | _ => (s, .err)

/-- programs with positional forms -/
inductive XOp
  | op (o : Op)
  | condArgs (a : Nat) (args : List Int) (kw : Kw)
  | applyArgs (m : Nat) (pos : List Nat) (kw : List (Nat × Nat))

def St.runX (s : St) : XOp → St × Res
  | .op o => s.run o
  | .condArgs a args kw => s.condArgs a args kw
  | .applyArgs m pos kw => s.applyArgs m pos kw

def St.runAllX (s : St) : List XOp → St
  | [] => s
  | op :: ops => (s.runX op).1.runAllX ops

end CuqiVerif.C11
