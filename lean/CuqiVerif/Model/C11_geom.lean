/-
  C11 model, part 2 — the lazily inferred default geometry of a distribution.
  Import-free and executable.

  `Model/C11.lean` assumes that every distribution was given a geometry (then the getter below
  is a no-op up to the benign label `_variable_name`; theorem `explicit_geometry_frame`).
  This file transcribes what happens when it was NOT: the one place in the anchored code where
  an *evaluation* re-binds an attribute of the object it is applied to.

  Transcribed (cuqi/distribution/_distribution.py unless stated otherwise):
    `Distribution._infer_dim_of_mutable_variables`, `utilities.infer_len`          (`inferred`, `MV.len`)
    `Distribution.geometry` (getter: TypeError / `self.geometry = inferred_dim` /
        ValueError / `self._geometry._variable_name = self._name`)                 (`St.getter`)
    `Distribution.dim`                                                             (`St.dimOp`)
    `Distribution._condition` restricted to what the getter reads: the shallow copy SHARES the
        geometry object; `None` / callable / `partial` mutable variables           (`condSlot`, `St.condOp`)
    `Distribution.sample` (`is_cond` refusal first, then `_sample` reads `self.dim`, then
        `CUQIarray(s, geometry=self.geometry)`)                                    (`St.sampleOp`)
    `Beta._gradient`, `InverseGamma._gradient`, `Cauchy.gradient` (geometry check FIRST, then the
        refusal for conditional distributions), base `Distribution._gradient`      (`St.gradOp`)
    `Distribution.logd` (conditional: condition a copy, evaluate there), `Laplace.logpdf`
        (`self.dim * …`)                                                           (`St.logdOp`)
    `Model.forward`, distribution branch (cuqi/model/_model.py): `x.dim != self.domain_dim`
        → ValueError, else `copy(self)` with `_non_default_args = [x.name]`        (`St.applyOp`)

  Values are abstracted to what `infer_len` sees: a mutable variable is `None`, a callable /
  `functools.partial` (length 0; the length of its value once all arguments are bound is the
  maximum of the argument lengths — the generator's callables are broadcasting sums), or a value
  with a length (number: 1, array / list: `len`).
-/
namespace CuqiVerif.C11.Geo

inductive Fam | gamma | beta | cauchy | invgamma | laplace | normal
  deriving DecidableEq, Repr, Inhabited

/-- does `gradient` read `self.geometry` before anything else?  (Beta, Cauchy, InverseGamma; the
    others inherit `Distribution._gradient`, which raises without reading anything) -/
def Fam.gradTouches : Fam → Bool
  | .beta | .cauchy | .invgamma => true
  | _ => false

/-- does `logpdf` read `self.dim`?  (`Laplace.logpdf`: `self.dim*(np.log(0.5/self.scale)) - …`) -/
def Fam.logpdfTouches : Fam → Bool
  | .laplace => true
  | _ => false

/-- a mutable variable as `infer_len` / `_condition` see it -/
inductive MV
  /-- `None`: a conditioning variable named like the attribute -/
  | unset (key : Nat)
  /-- a callable (or `partial`) with the listed non-default arguments still free; `acc` = maximal length of the arguments bound so far -/
  | fn (free : List Nat) (acc : Nat)
  /-- a number (`len = 1`) or an array / list of that length -/
  | val (len : Nat)
  deriving DecidableEq, Repr, Inhabited

/-- `infer_len` -/
def MV.len : MV → Nat
  | .val n => n
  | _ => 0

def MV.isVal : MV → Bool
  | .val _ => true
  | _ => false

structure D where
  fam : Fam
  /-- `_name` (explicit, non-empty) -/
  name : Nat
  /-- address of the object bound to `_geometry` -/
  geo : Nat
  slots : List MV
  deriving DecidableEq, Repr, Inhabited

structure G where
  /-- `par_dim`; `none`: a `_DefaultGeometry1D(grid=None)` whose dimension is still undetermined -/
  dim : Option Nat
  vname : Option Nat
  deriving DecidableEq, Repr, Inhabited

structure M where
  domDim : Nat
  args : List Nat
  deriving DecidableEq, Repr, Inhabited

inductive Err | typeError | valueError | notImplemented
  deriving DecidableEq, Repr, Inhabited

inductive Res
  | dim (n : Nat)
  | objD (a : Nat)
  | objM (a : Nat)
  | val
  | err (e : Err)
  deriving DecidableEq, Repr, Inhabited

/-- logged attribute writes: `dist._geometry = …`, `geometry._variable_name = …` -/
inductive Wr | distGeo (a : Nat) | geoVname (g : Nat)
  deriving DecidableEq, Repr, Inhabited

structure St where
  nD : Nat
  dist : Nat → D
  nG : Nat
  geo : Nat → G
  nM : Nat
  mdl : Nat → M
  /-- newest first -/
  log : List Wr

def upd {α : Type} (f : Nat → α) (a : Nat) (v : α) : Nat → α := fun x => if x = a then v else f x

abbrev Kw := List (Nat × Nat)

def kwGet : Kw → Nat → Option Nat
  | [], _ => none
  | (k, v) :: r, n => if k = n then some v else kwGet r n

def kwHas (kw : Kw) (n : Nat) : Bool := (kwGet kw n).isSome

def addNew (acc : List Nat) (k : Nat) : List Nat := if acc.contains k then acc else acc ++ [k]

/-- `get_conditioning_variables` -/
def condVars (sl : List MV) : List Nat :=
  sl.filterMap (fun v => match v with | .unset k => some k | _ => none)
  ++ sl.foldl (fun acc v => match v with | .fn free _ => free.foldl addNew acc | _ => acc) []

def maxLen (sl : List MV) : Nat := sl.foldl (fun m v => max m v.len) 0

/-- `_infer_dim_of_mutable_variables`: `None` without mutable variables (then the maximum below is 0
    as well), else the maximal `infer_len`, `None` if that is 0 -/
def inferred (sl : List MV) : Option Nat := if maxLen sl > 0 then some (maxLen sl) else none

/-- the `TypeError` test of the getter: `is_inferred_multivariate and not geometry_matches_inferred_dim`
    (`geometry_dim and inferred_dim` is Python truthiness: a dimension 0 counts as undetermined) -/
def inconsistent (inf gd : Option Nat) : Bool :=
  match inf with
  | some k => decide (k > 1) && !(match gd with
                                   | some g => if g = 0 then true else g == k
                                   | none => true)
  | none => false

/-- result of the getter: the address of the geometry, or an error class -/
inductive GR | ok (g : Nat) | err (e : Err)
  deriving DecidableEq, Repr, Inhabited

/-- `if inferred_dim and self._geometry.par_dim is None: self.geometry = inferred_dim` — the setter binds a NEW
    `_DefaultGeometry1D(inferred_dim)` on `self` -/
def St.rebind (s : St) (a : Nat) : St :=
  match inferred (s.dist a).slots, (s.geo (s.dist a).geo).dim with
  | some k, none =>
    { s with nG := s.nG + 1, geo := upd s.geo s.nG ⟨some k, none⟩,
             dist := upd s.dist a { (s.dist a) with geo := s.nG }, log := .distGeo a :: s.log }
  | _, _ => s

/-- `self._geometry._variable_name = self._name` -/
def St.label (s : St) (g nm : Nat) : St :=
  { s with geo := upd s.geo g { (s.geo g) with vname := some nm }, log := .geoVname g :: s.log }

/-- `Distribution.geometry` (getter) on object `a` -/
def St.getter (s : St) (a : Nat) : St × GR :=
  if inconsistent (inferred (s.dist a).slots) ((s.geo (s.dist a).geo).dim) then (s, .err .typeError)
  else
    let s1 := s.rebind a
    let g := (s1.dist a).geo
    match (s1.geo g).dim with
    | none => (s1, .err .valueError)
    | some _ => (s1.label g (s.dist a).name, .ok g)

/-- `Distribution.dim` = `self.geometry.par_dim` -/
def St.dimOp (s : St) (a : Nat) : St × Res :=
  match s.getter a with
  | (s1, .ok g) => (s1, match (s1.geo g).dim with | some n => .dim n | none => .err .valueError)
  | (s1, .err e) => (s1, .err e)

/-- one mutable variable in the loop of `Distribution._condition` -/
def condSlot (kw : Kw) : MV → MV
  | .unset k => (match kwGet kw k with
                 | some n => .val n
                 | none => .unset k)
  | .fn free acc =>
    let matched := free.filter (kwHas kw)
    let m := matched.foldl (fun m k => max m ((kwGet kw k).getD 0)) acc
    if matched.length = free.length then .val m
    else if matched.length > 0 then .fn (free.filter (fun k => !kwHas kw k)) m
    else .fn free acc
  | v => v

/-- the shallow copy made by `_condition`: same `_geometry` OBJECT, re-bound mutable variables -/
def St.condCopy (s : St) (a : Nat) (kw : Kw) : St × Nat :=
  let d := s.dist a
  ({ s with nD := s.nD + 1, dist := upd s.dist s.nD { d with slots := d.slots.map (condSlot kw) } }, s.nD)

/-- `dist(**kw)` with conditioning variables only (a keyword that is neither a conditioning
    variable nor the name is refused with a `ValueError`; the copy made before the refusal is garbage) -/
def St.condOp (s : St) (a : Nat) (kw : Kw) : St × Res :=
  if kw.all (fun p => (condVars (s.dist a).slots).contains p.1) then
    let (s1, b) := s.condCopy a kw
    (s1, .objD b)
  else (s, .err .valueError)

def isCond (d : D) : Bool := !(condVars d.slots).isEmpty

/-- `Distribution.sample`: refusal for conditional distributions first; `_sample` reads `self.dim`;
    the result is wrapped with `self.geometry` -/
def St.sampleOp (s : St) (a : Nat) : St × Res :=
  if isCond (s.dist a) then (s, .err .valueError)
  else
    match s.dimOp a with
    | (s1, .dim _) => s1.dimOp a
    | r => r

/-- `gradient`: Beta / InverseGamma / Cauchy read `self.geometry` first and refuse conditional
    distributions afterwards; the other families refuse without reading anything -/
def St.gradOp (s : St) (a : Nat) : St × Res :=
  if (s.dist a).fam.gradTouches then
    match s.getter a with
    | (s1, .ok _) => if isCond (s.dist a) then (s1, .err .notImplemented) else (s1, .val)
    | (s1, .err e) => (s1, .err e)
  else (s, .err .notImplemented)

/-- evaluation of `logpdf` on a fully specified object -/
def St.evalAt (s : St) (b : Nat) : St × Res :=
  if (s.dist b).fam.logpdfTouches then
    match s.dimOp b with
    | (s1, .dim _) => (s1, .val)
    | r => r
  else (s, .val)

def sameSet (a b : List Nat) : Bool := a.all (fun x => b.contains x) && b.all (fun x => a.contains x)

/-- `Distribution.logd(**kw, name=x)`; `kw` are the conditioning variables passed -/
def St.logdOp (s : St) (a : Nat) (kw : Kw) : St × Res :=
  let cv := condVars (s.dist a).slots
  if !sameSet cv (kw.map (·.1)) then (s, .err .valueError)
  else if cv.isEmpty then s.evalAt a
  else
    let (s1, b) := s.condCopy a kw
    s1.evalAt b

/-- `model(dist)`: `x.dim` is read (through the getter) and compared with the domain dimension -/
def St.applyOp (s : St) (m a : Nat) : St × Res :=
  match s.dimOp a with
  | (s1, .dim n) =>
    if n ≠ (s1.mdl m).domDim then (s1, .err .valueError)
    else ({ s1 with nM := s1.nM + 1, mdl := upd s1.mdl s1.nM { (s1.mdl m) with args := [(s.dist a).name] } }, .objM s1.nM)
  | r => r

inductive Op
  | cond (a : Nat) (kw : Kw)
  | dim (a : Nat)
  | grad (a : Nat)
  | sample (a : Nat)
  | logd (a : Nat) (kw : Kw)
  | apply (m : Nat) (a : Nat)
  deriving Repr, DecidableEq

/-- the distribution an operation is applied to -/
def Op.recv : Op → Nat
  | .cond a _ | .dim a | .grad a | .sample a | .logd a _ | .apply _ a => a

/-- operations on addresses that do not exist are refused (the driver never sends them) -/
def St.run (s : St) (op : Op) : St × Res :=
  if op.recv < s.nD then
    match op with
    | .cond a kw => s.condOp a kw
    | .dim a => s.dimOp a
    | .grad a => s.gradOp a
    | .sample a => s.sampleOp a
    | .logd a kw => s.logdOp a kw
    | .apply m a => if m < s.nM then s.applyOp m a else (s, .err .valueError)
  else (s, .err .valueError)

def St.runAll (s : St) : List Op → St
  | [] => s
  | op :: ops => (s.run op).1.runAll ops

/-- `dist.dim` as a function of the inferred dimension and the dimension of the geometry currently bound -/
def dimFn (inf gd : Option Nat) : Res :=
  if inconsistent inf gd then .err .typeError
  else match gd, inf with
    | some g, _ => .dim g
    | none, some k => .dim k
    | none, none => .err .valueError

/-- what a user observes of `a` through conditioning: the dimension reported by `a(**kw)` -/
def St.condDim (s : St) (a : Nat) (kw : Kw) : Res :=
  let (s1, b) := s.condCopy a kw
  (s1.dimOp b).2

/-- the geometry currently bound to `a` has a determined dimension -/
def St.determined (s : St) (a : Nat) : Bool := ((s.geo (s.dist a).geo).dim).isSome

/-- every geometry object in the heap has a determined dimension (what a user gets by always passing `geometry=`) -/
def St.allDetermined (s : St) : Prop := ∀ g, g < s.nG → (s.geo g).dim ≠ none

end CuqiVerif.C11.Geo
