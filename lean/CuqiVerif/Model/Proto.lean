/-
  Line protocol shared by all drivers (import-free, executable).

  A line is `op arg1 arg2 ...` with single spaces.  Argument encodings:
    rational  : `n` or `n/d`            (exact; the harness sends the exact value of the float it used)
    vector    : `a,b,c`  (empty vector: `_`)
    matrix    : `a,b;c,d` (rows separated by `;`, empty matrix: `_`)
  Output encodings are the same, produced by `fmtRat`/`fmtVec`/`fmtMat`.
-/
namespace CuqiVerif.Proto

def parseInt (s : String) : Option Int := s.toInt?

def parseNat (s : String) : Option Nat := s.toNat?

def parseRat (s : String) : Option Rat :=
  match s.splitOn "/" with
  | [n] => (fun (k : Int) => (k : Rat)) <$> n.toInt?
  | [n, d] => do
      let a ← n.toInt?
      let b ← d.toNat?
      if b = 0 then none else some (mkRat a b)
  | _ => none

def parseVec (s : String) : Option (List Rat) :=
  if s = "_" then some [] else (s.splitOn ",").mapM parseRat

def parseMat (s : String) : Option (List (List Rat)) :=
  if s = "_" then some [] else (s.splitOn ";").mapM parseVec

def parseNatList (s : String) : Option (List Nat) :=
  if s = "_" then some [] else (s.splitOn ",").mapM parseNat

def fmtRat (q : Rat) : String :=
  if q.den = 1 then toString q.num else toString q.num ++ "/" ++ toString q.den

def fmtVec (v : List Rat) : String :=
  if v.isEmpty then "_" else ",".intercalate (v.map fmtRat)

def fmtMat (m : List (List Rat)) : String :=
  if m.isEmpty then "_" else ";".intercalate (m.map fmtVec)

def fmtNatList (v : List Nat) : String :=
  if v.isEmpty then "_" else ",".intercalate (v.map toString)

def fmtBool (b : Bool) : String := if b then "1" else "0"

def tokens (line : String) : List String :=
  (line.trimAscii.toString.splitOn " ").filter (· ≠ "")

/-- Generic stdin loop: one output line per input line. -/
partial def loop (h : IO.FS.Stream) (step : List String → String) : IO Unit := do
  let line ← h.getLine
  if line.isEmpty then return ()
  IO.println (step (tokens line))
  loop h step

def runDriver (step : List String → String) : IO Unit := do
  loop (← IO.getStdin) step

end CuqiVerif.Proto
