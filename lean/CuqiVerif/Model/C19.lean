/-
  C19 model — `cuqi/samples/_samples.py`: `Samples.burnthin / funvals / vector / parameters /
  mean / median / variance / compute_ci / ci_width / to_arviz_inferencedata / compute_ess /
  compute_rhat`, `JointSamples.burnthin`.  Import-free and executable.

  Representation.  The numpy array `samples` has the sample axis last.  The model stores it
  sample-major: `cols[i]` is `samples[..., i]` flattened in C order (so `cols.length = Ns` and
  every `cols[i]` has `prod shape` entries), `shape = samples.shape[:-1]`.  The chain of
  coordinate `k` (what a reduction over `axis=-1` sees at the flattened coordinate `k`) is
  `cols.map (·[k])`.
-/
namespace CuqiVerif.C19

/-! ## Python slicing `seq[b::t]` (CPython `PySlice_AdjustIndices`, stop = None) -/

/-- Indices selected by `[b::t]` on a sequence of length `n`; `none` = `ValueError: slice step
    cannot be zero`.  Negative `b` counts from the end, negative `t` walks backwards. -/
def sliceIdx (n : Nat) (b t : Int) : Option (List Nat) :=
  if t = 0 then none
  else if t > 0 then
    let start : Nat := if b < 0 then (b + n).toNat else min b.toNat n
    let step := t.toNat
    let cnt := (n - start + step - 1) / step
    some ((List.range cnt).map (fun i => start + i * step))
  else
    let step := (-t).toNat
    let startI : Int :=
      if b < 0 then (if b + n < 0 then -1 else b + n) else (if b ≥ n then (n : Int) - 1 else b)
    if startI < 0 then some []
    else
      let start := startI.toNat
      let cnt := start / step + 1
      some ((List.range cnt).map (fun i => start - i * step))

def pySlice {α : Type} (xs : List α) (b t : Int) : Option (List α) :=
  (sliceIdx xs.length b t).map (fun idx => idx.filterMap (fun i => xs[i]?))

/-- `[f x for x in xs]` where `f` may raise: the first exception aborts the loop -/
def mapE {α β : Type} (f : α → Except String β) : List α → Except String (List β)
  | [] => .ok []
  | x :: xs =>
    match f x with
    | .error e => .error e
    | .ok y =>
      match mapE f xs with
      | .error e => .error e
      | .ok ys => .ok (y :: ys)

/-! ## Geometry as seen by `Samples` (the maps themselves belong to C13) -/

/-- What `Samples` uses of a geometry.  Function values are flattened in C order.  A conversion
    that raises returns `.error <exception class>`. -/
structure Geometry where
  tag : String
  parDim : Nat
  funShape : List Nat
  funvecDim : Nat
  varNames : List String
  par2fun : List Rat → Except String (List Rat)
  fun2par : List Rat → Except String (List Rat)
  fun2vec : List Rat → Except String (List Rat)
  vec2fun : List Rat → Except String (List Rat)

structure Samples where
  cols : List (List Rat)
  shape : List Nat
  geom : Geometry
  isPar : Bool
  isVec : Bool

namespace Samples

def Ns (s : Samples) : Nat := s.cols.length

/-- number of coordinates `prod(samples.shape[:-1])` -/
def dim (s : Samples) : Nat := s.shape.foldl (· * ·) 1

/-- chain of the flattened coordinate `k`: `samples.reshape(-1, Ns)[k, :]` -/
def chain (s : Samples) (k : Nat) : List Rat := s.cols.map (fun c => c.getD k 0)

/-- `Samples.burnthin(Nb, Nt)`: `if Nb >= Ns: raise ValueError`; `copy(self)`;
    `new.samples = self.samples[..., Nb::Nt]`.  Geometry and flags are those of the copy. -/
def burnthin (s : Samples) (b t : Int) : Except String Samples :=
  if b ≥ (s.Ns : Int) then .error "ValueError"
  else match pySlice s.cols b t with
    | none => .error "ValueError"
    | some cs => .ok { s with cols := cs }

/-- `Samples.funvals` (array-valued function values). -/
def funvals (s : Samples) : Except String Samples :=
  if !s.isPar && !s.isVec then .ok s
  else do
    let conv := if s.isPar then s.geom.par2fun else s.geom.vec2fun
    let cs ← mapE conv s.cols
    pure { cols := cs, shape := s.geom.funShape, geom := s.geom, isPar := false,
           isVec := decide (s.geom.funShape.length + 1 ≤ 2) }

/-- `Samples.vector` -/
def vector (s : Samples) : Except String Samples :=
  if s.isVec || s.isPar then .ok s
  else do
    let cs ← mapE s.geom.fun2vec s.cols
    pure { cols := cs, shape := [s.geom.funvecDim], geom := s.geom, isPar := s.isPar, isVec := true }

/-- `Samples.parameters` -/
def parameters (s : Samples) : Except String Samples :=
  if s.isPar then .ok s
  else do
    let conv : List Rat → Except String (List Rat) :=
      if !s.isVec then s.geom.fun2par else fun v => do let f ← s.geom.vec2fun v; s.geom.fun2par f
    let cs ← mapE conv s.cols
    pure { cols := cs, shape := [s.geom.parDim], geom := s.geom, isPar := true, isVec := true }

/-- `Samples._geometry_dim` -/
def geometryDim (s : Samples) : Nat :=
  if s.isPar then s.geom.parDim
  else if s.isVec then s.geom.funvecDim
  else s.geom.funShape.foldl (· * ·) 1

end Samples

/-! ## Statistics of one chain (numpy semantics, exact arithmetic) -/

def mean (xs : List Rat) : Rat := xs.sum / (xs.length : Rat)

/-- `np.var` (ddof = 0): mean of squared deviations from the mean -/
def variance (xs : List Rat) : Rat := mean (xs.map (fun x => (x - mean xs) * (x - mean xs)))

def sorted (xs : List Rat) : List Rat := xs.mergeSort (fun a b => decide (a ≤ b))

/-- `np.median`: middle element, or the mean of the two middle elements -/
def median (xs : List Rat) : Rat :=
  let s := sorted xs
  let n := s.length
  if n % 2 = 1 then s.getD (n / 2) 0 else (s.getD (n / 2 - 1) 0 + s.getD (n / 2) 0) / 2

/-- linear interpolation of an (already sorted) list at the virtual index `v ≥ 0`:
    `s[⌊v⌋] + (s[min(⌊v⌋+1, n-1)] - s[⌊v⌋]) * (v - ⌊v⌋)` -/
def interp (s : List Rat) (v : Rat) : Rat :=
  let lo := v.floor.toNat
  let hi := min (lo + 1) (s.length - 1)
  s.getD lo 0 + (s.getD hi 0 - s.getD lo 0) * (v - (lo : Rat))

/-- `np.percentile(xs, q)` with the default `linear` method, `0 ≤ q ≤ 100`:
    virtual index `(n-1)·q/100` -/
def percentile (xs : List Rat) (q : Rat) : Rat :=
  let s := sorted xs
  interp s (((s.length - 1 : Nat) : Rat) * (q / 100))

/-- `compute_ci`: `lb = (100-percent)/2`, `up = 100-lb`; `np.percentile` raises `ValueError`
    unless both lie in `[0, 100]`. -/
def ciLevels (p : Rat) : Except String (Rat × Rat) :=
  let lb := (100 - p) / 2
  let ub := 100 - lb
  if 0 ≤ lb ∧ lb ≤ 100 ∧ 0 ≤ ub ∧ ub ≤ 100 then .ok (lb, ub) else .error "ValueError"

namespace Samples

/-- a reduction over `axis=-1`: one value per flattened coordinate -/
def stat (f : List Rat → Rat) (s : Samples) : List Rat :=
  (List.range s.dim).map (fun k => f (s.chain k))

/-- `compute_ci(percent)`: (lower bounds, upper bounds) -/
def computeCi (s : Samples) (p : Rat) : Except String (List Rat × List Rat) := do
  let (lb, ub) ← ciLevels p
  pure (s.stat (percentile · lb), s.stat (percentile · ub))

/-- `ci_width(percent) = up_conf - lo_conf` -/
def ciWidth (s : Samples) (p : Rat) : Except String (List Rat) := do
  let (lo, up) ← s.computeCi p
  pure (List.zipWith (· - ·) up lo)

end Samples

/-! ## The variable-name ↦ chain dictionary handed to arviz -/

/-- Python `d[k] = v`: overwrite in place if the key exists, append otherwise. -/
def dictInsert {β : Type} (d : List (String × β)) (k : String) (v : β) : List (String × β) :=
  if d.any (fun kv => kv.1 == k) then d.map (fun kv => if kv.1 == k then (k, v) else kv)
  else d ++ [(k, v)]

/-- `dict(zip(keys, values))` -/
def dictOfZip {β : Type} (ks : List String) (vs : List β) : List (String × β) :=
  (ks.zip vs).foldl (fun d kv => dictInsert d kv.1 kv.2) []

namespace Samples

/-- `to_arviz_inferencedata(variable_indices)`: `dict(zip(varNames[idx], samples[idx, :]))` -/
def toArviz (s : Samples) (idx : Option (List Nat)) : Except String (List (String × List Rat)) :=
  if !s.isVec then .error "ValueError"
  else
    let idx := idx.getD (List.range s.geometryDim)
    if idx.any (fun i => decide (i ≥ s.geom.varNames.length)) then .error "IndexError"
    else if idx.any (fun i => decide (i ≥ s.dim)) then .error "IndexError"
    else .ok (dictOfZip (idx.map (fun i => s.geom.varNames.getD i "")) (idx.map s.chain))

/-- What `compute_ess` hands to `arviz.ess`; the returned array holds one value per dictionary
    item, in dictionary order. -/
def essInput (s : Samples) : Except String (List (String × List Rat)) := s.toArviz none

/-- What `compute_rhat` hands to `arviz.rhat` (variable ↦ one chain per Samples object, `self`
    first) and, for every position of the returned array, the index of the dictionary item whose
    R-hat is stored there (`none`: the entry of `np.empty` is never written). -/
def rhatInput (s : Samples) (chains : List Samples) :
    Except String (List (String × List (List Rat)) × List (Option Nat)) :=
  if chains.any (fun c => c.geom.tag != s.geom.tag) then .error "TypeError"
  else if s.shape.length != 1 then .error "TypeError"
  else if chains.any (fun c => c.shape != s.shape || c.Ns != s.Ns) then .error "ValueError"
  else
    let rows := (List.range s.dim).map (fun k => s.chain k :: chains.map (fun c => c.chain k))
    let dict := dictOfZip s.geom.varNames rows       -- `zip` stops at the shorter argument
    let outLen := s.geometryDim
    if dict.length > outLen then .error "IndexError"
    else .ok (dict, (List.range outLen).map (fun i => if i < dict.length then some i else none))

end Samples

/-! ## JointSamples -/

/-- `JointSamples.burnthin`: `{key: samples.burnthin(Nb, Nt) for key, samples in self.items()}` -/
def jointBurnthin (js : List (String × Samples)) (b t : Int) : Except String (List (String × Samples)) :=
  mapE (fun kv => do let s' ← kv.2.burnthin b t; pure (kv.1, s')) js

/-! ## Geometry kinds used by the driver (exact, executable conversions) -/

inductive Conv
  | id
  | gather (idx : List (Option Nat))      -- out[k] = v[idx k]; `none` ↦ 0 (entry of `np.zeros` never written)
  | affine (a b : Rat)                    -- elementwise a·x + b
  | square                                -- elementwise x²
  | groupMean (groups : List (List Nat))  -- out[i] = mean of v[j], j ∈ groups[i]
  | comp (f g : Conv)                     -- f after g
  | fail (e : String)
  | table (t : List (List Rat × List Rat)) -- leaf data: the geometry's own map recorded sample by sample (any map,
                                          -- e.g. softmax or x/‖x‖ that couples the entries of one sample); unknown argument ⇒ KeyError

def Conv.apply : Conv → List Rat → Except String (List Rat)
  | .id, v => .ok v
  | .gather idx, v => .ok (idx.map (fun o => match o with | some i => v.getD i 0 | none => 0))
  | .affine a b, v => .ok (v.map (fun x => a * x + b))
  | .square, v => .ok (v.map (fun x => x * x))
  | .groupMean gs, v => .ok (gs.map (fun g => mean (g.map (fun j => v.getD j 0))))
  | .comp f g, v => do let w ← g.apply v; f.apply w
  | .fail e, _ => .error e
  | .table t, v => match t.find? (fun kv => kv.1 == v) with
    | some kv => .ok kv.2
    | none => .error "KeyError"

end CuqiVerif.C19
