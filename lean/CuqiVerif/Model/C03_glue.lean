import CuqiVerif.Model.QMat
/-
  C03 model, part "glue" — the conversions `Model.gradient` (and `Model.forward`) apply to the evaluation point
  before the modelled core (`likGrad`) runs: `cuqi/model/_model.py`, `Model._2par`, `Model._2fun`, and the
  `wrt_par` / `wrt` pair of `Model.gradient`.

      wrt_par = self._2par(wrt, geometry=self.domain_geometry, is_par=is_wrt_par)   # handed to geometry.gradient
      wrt     = self._2fun(wrt, self.domain_geometry, is_par=is_wrt_par)           # handed to _gradient_func
      grad    = self._gradient_func(direction, wrt)
      grad    = domain_geometry.gradient(grad, wrt_par)   if the geometry has `gradient`
                domain_geometry.fun2par(grad)             otherwise

  `_2par`: a `CUQIarray` whose geometry equals the domain geometry yields `val.parameters` (`= fun2par(val)` when it
  holds function values); otherwise `fun2par(val)` iff `is_par` is False.  `_2fun`: such a `CUQIarray` yields
  `val.funvals` (`= par2fun(val)` when it holds parameters); otherwise `par2fun(val)` iff `is_par` is True.
  Import-free; generic in the types of parameter vectors `P` and function-value vectors `F`.
-/
namespace CuqiVerif.C03

/-- the two maps of a geometry -/
structure Geo (P F : Type) where
  par2fun : P → F
  fun2par : F → P

/-- the representations in which one evaluation point can reach `Model.gradient(direction, wrt, is_wrt_par)` -/
inductive PointRep (P F : Type)
  | ndarray (p : P)        -- plain array of parameters, `is_wrt_par=True` (what `Likelihood.gradient(x)` passes)
  | cuqiParSame (p : P)    -- `CUQIarray(p, is_par=True, geometry=domain_geometry)`
  | cuqiFunSame (f : F)    -- `CUQIarray(f, is_par=False, geometry=domain_geometry)`
  | cuqiParOther (p : P)   -- `CUQIarray` of parameters with another geometry: treated as a plain array
  | funvals (f : F)        -- plain array of function values with `is_wrt_par=False`

/-- `Model._2par(wrt, domain_geometry, is_par=is_wrt_par)` -/
def wrtPar {P F : Type} (g : Geo P F) : PointRep P F → P
  | .ndarray p => p
  | .cuqiParSame p => p
  | .cuqiFunSame f => g.fun2par f
  | .cuqiParOther p => p
  | .funvals f => g.fun2par f

/-- `Model._2fun(wrt, domain_geometry, is_par=is_wrt_par)` -/
def wrtFun {P F : Type} (g : Geo P F) : PointRep P F → F
  | .ndarray p => g.par2fun p
  | .cuqiParSame p => g.par2fun p
  | .cuqiFunSame f => f
  | .cuqiParOther p => g.par2fun p
  | .funvals f => f

/-- `Model.gradient` after `_check_gradient_can_be_computed` passed: `gradFunc direction wrt` is the user's
    direction-Jacobian product (function-space gradient), `geomGrad` the geometry's own `gradient` if it has one. -/
def modelGradient {P F D : Type} (g : Geo P F) (gradFunc : D → F → F) (geomGrad : Option (F → P → P))
    (dir : D) (r : PointRep P F) : P :=
  let grad := gradFunc dir (wrtFun g r)
  match geomGrad with
  | some G => G grad (wrtPar g r)
  | none => g.fun2par grad

/-- executable instance used by the driver: `par2fun p = c * p` componentwise (`c = 1`: identity geometries) -/
def scaledGeo (c : Rat) : Geo (List Rat) (List Rat) :=
  { par2fun := fun p => p.map (c * ·), fun2par := fun f => f.map (· / c) }

/-- executable instance for every geometry whose maps are affine: `par2fun p = E p + d` (`E` is `N × n`),
    `fun2par f = Fm (f - d)` (`Fm` is `n × N`, a left inverse of `E`).  Covers a user geometry with matrix and
    offset, `Image2D` with order C / F (`E` a permutation, function values listed row-major, `Fm = Eᵀ`),
    `StepExpansion` / `KLExpansion` (`E` the basis, `Fm` the projection `fun2par` implements). -/
def linGeo (E : QMat.Mat) (d : List Rat) (Fm : QMat.Mat) : Geo (List Rat) (List Rat) :=
  { par2fun := fun p => QMat.vadd (QMat.mulVec E p) d,
    fun2par := fun f => QMat.mulVec Fm (QMat.vsub f d) }

/-! ### the refusals of `Model.gradient`, in the order the code tests them -/

/-- what `domain_geometry.fun2par` does when `_2par` has to call it -/
inductive Fun2parKind | ok | notImplemented | valueError
  deriving DecidableEq, Repr

inductive GradOutcome
  | value (asCUQIarray : Bool)   -- a vector; wrapped as `CUQIarray(is_par=True, geometry=domain)` iff `type(direction) is CUQIarray`
  | valueError                   -- `fun2par` raised ValueError (MappedGeometry without `imap`), or a `Samples` argument
  | notImplemented               -- `fun2par` not implemented / no gradient function / non-identity range / non-identity domain without `gradient`
  deriving DecidableEq, Repr

def GradOutcome.toString : GradOutcome → String
  | .value true => "value-cuqiarray" | .value false => "value-ndarray"
  | .valueError => "ValueError" | .notImplemented => "NotImplementedError"

/-- `Model.gradient`:
    1. `_2par(wrt)` inside `try`: only if the point holds function values (`needsFun2par`) is `fun2par` called;
       its `ValueError` / `NotImplementedError` are re-raised with the same class;
    2. `_check_gradient_can_be_computed`: no `_gradient_func` → NotImplementedError; a `Samples` direction/wrt →
       ValueError; range geometry not an identity geometry → NotImplementedError; domain geometry neither carrying
       `gradient` nor an identity geometry → NotImplementedError;
    3. otherwise a vector, wrapped iff the direction is exactly a `CUQIarray`. -/
def gradientOutcome (needsFun2par : Bool) (f2p : Fun2parKind) (hasGradFunc samples rangeId domHasGrad domId
    dirIsCuqi : Bool) : GradOutcome :=
  if needsFun2par && f2p = .valueError then .valueError else
  if needsFun2par && f2p = .notImplemented then .notImplemented else
  if !hasGradFunc then .notImplemented else
  if samples then .valueError else
  if !rangeId then .notImplemented else
  if !domHasGrad && !domId then .notImplemented else
  .value dirIsCuqi

end CuqiVerif.C03
