/-
  C03 model, part "glue" — the conversions `Model.gradient` (and `Model.forward`) apply to the evaluation point
  before the modelled core (`likGrad`) runs: `cuqi/model/_model.py`, `Model._2par`, `Model._2fun`, and the
  `wrt_par` / `wrt` pair of `Model.gradient`.

      wrt_par = self._2par(wrt, geometry=self.domain_geometry, is_par=is_wrt_par)   # handed to geometry.gradient
      wrt     = self._2fun(wrt, self.domain_geometry, is_par=is_wrt_par)           # handed to _gradient_func
      grad    = self._gradient_func(direction, wrt)
      grad    = domain_geometry.gradient(grad, wrt_par)   if the geometry has `gradient`
                domain_geometry.fun2par(grad)             otherwise

  `_2par`: a `CUQIarray` whose geometry equals the domain geometry yields `val.parameters` (`= fun2par(val)` when it
  holds function values); otherwise `fun2par(val)` iff `is_par` is False.  `_2fun`: such a `CUQIarray` yields
  `val.funvals` (`= par2fun(val)` when it holds parameters); otherwise `par2fun(val)` iff `is_par` is True.
  Import-free; generic in the types of parameter vectors `P` and function-value vectors `F`.
-/
namespace CuqiVerif.C03

/-- the two maps of a geometry -/
structure Geo (P F : Type) where
  par2fun : P → F
  fun2par : F → P

/-- the representations in which one evaluation point can reach `Model.gradient(direction, wrt, is_wrt_par)` -/
inductive PointRep (P F : Type)
  | ndarray (p : P)        -- plain array of parameters, `is_wrt_par=True` (what `Likelihood.gradient(x)` passes)
  | cuqiParSame (p : P)    -- `CUQIarray(p, is_par=True, geometry=domain_geometry)`
  | cuqiFunSame (f : F)    -- `CUQIarray(f, is_par=False, geometry=domain_geometry)`
  | cuqiParOther (p : P)   -- `CUQIarray` of parameters with another geometry: treated as a plain array
  | funvals (f : F)        -- plain array of function values with `is_wrt_par=False`

/-- `Model._2par(wrt, domain_geometry, is_par=is_wrt_par)` -/
def wrtPar {P F : Type} (g : Geo P F) : PointRep P F → P
  | .ndarray p => p
  | .cuqiParSame p => p
  | .cuqiFunSame f => g.fun2par f
  | .cuqiParOther p => p
  | .funvals f => g.fun2par f

/-- `Model._2fun(wrt, domain_geometry, is_par=is_wrt_par)` -/
def wrtFun {P F : Type} (g : Geo P F) : PointRep P F → F
  | .ndarray p => g.par2fun p
  | .cuqiParSame p => g.par2fun p
  | .cuqiFunSame f => f
  | .cuqiParOther p => g.par2fun p
  | .funvals f => f

/-- `Model.gradient` after `_check_gradient_can_be_computed` passed: `gradFunc direction wrt` is the user's
    direction-Jacobian product (function-space gradient), `geomGrad` the geometry's own `gradient` if it has one. -/
def modelGradient {P F D : Type} (g : Geo P F) (gradFunc : D → F → F) (geomGrad : Option (F → P → P))
    (dir : D) (r : PointRep P F) : P :=
  let grad := gradFunc dir (wrtFun g r)
  match geomGrad with
  | some G => G grad (wrtPar g r)
  | none => g.fun2par grad

/-- executable instance used by the driver: `par2fun p = c * p` componentwise (`c = 1`: identity geometries) -/
def scaledGeo (c : Rat) : Geo (List Rat) (List Rat) :=
  { par2fun := fun p => p.map (c * ·), fun2par := fun f => f.map (· / c) }

end CuqiVerif.C03
