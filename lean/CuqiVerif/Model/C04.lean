import CuqiVerif.Model.RExpr
import CuqiVerif.Model.QMat
import CuqiVerif.Model.C20
/-
  C04 model — log-densities of all distribution families (import-free, executable).

  Layers, each transcribed from the Python (`cuqi/distribution/_*.py`):

  1. **Component formulas** as `RExpr` builders: what `logpdf` computes for ONE component
     (`normalLogpdf`, `cauchyLogpdf`, `gammaLogpdf` = the formula `scipy.stats.gamma.logpdf` evaluates, …).
  2. **Assembly** over the components, generic in the scalar type and in the interpretation of the
     formulas (`ev = RExpr.evalFloat` in the driver, `ev = RExpr.eval` in the theorems): numpy
     broadcasting of scalar parameters (`bc`), which sum runs over which length — including the
     places where the code sums over the entries of a *parameter* instead of over the components
     (`slCode`, `uniformVolCode`) —, support guards (`Guard`), and the rule combining component
     cdfs (`cdfCombine`: a product, except `Cauchy.cdf` which adds).
  3. **Gaussian parameterisations**: `canon` mirrors each branch of `get_sqrtprec_from_{cov,prec,
     sqrtcov,sqrtprec}` (which product, `R Rᵀ` or `RᵀR`, each branch forms; how log-determinant and
     rank are obtained), `sparseFlag dim = dim > MIN_DIM_SPARSE`; generic quadratic forms
     `quadForm`, `normSqR`, `gramOf`.
  4. **Markov random fields**: GMRF constant with the *declared* rank (C20 model), LMRF/CMRF sums over
     the differences `D (x - location)`.
-/
namespace CuqiVerif.C04
open CuqiVerif RExpr

/-! ## 1. component formulas -/

/-- `Normal.logpdf`, per component: `-np.log(std*np.sqrt(2*np.pi)) - 0.5*((x-mean)/std)**2` -/
def normalLogpdf (x m s : RExpr) : RExpr := -(log (s * sqrt (2 * pi))) - (1 / 2 : RExpr) * ((x - m) / s) ^ 2
/-- `Normal.pdf`, per component: `1/(std*np.sqrt(2*np.pi))*np.exp(-0.5*((x-mean)/std)**2)` -/
def normalPdf (x m s : RExpr) : RExpr := 1 / (s * sqrt (2 * pi)) * exp (-((1 / 2 : RExpr) * ((x - m) / s) ^ 2))

/-- `Laplace.logpdf` is `dim*log(0.5/scale) - norm(x-location,1)/scale`; per component: -/
def laplaceLogpdf (x l s : RExpr) : RExpr := log ((1 / 2 : RExpr) / s) - abs (x - l) / s

/-- `SmoothedLaplace.logpdf`: the constant `log(0.5/scale)` and the kernel `sqrt((x-location)**2+beta)/scale` -/
def slConst (s : RExpr) : RExpr := log ((1 / 2 : RExpr) / s)
def slKernel (x l s β : RExpr) : RExpr := sqrt ((x - l) ^ 2 + β) / s

/-- `Cauchy.logpdf`, per component: `-np.log(np.pi*scale*(1+((x-location)/scale)**2))` -/
def cauchyLogpdf (x l s : RExpr) : RExpr := -(log (pi * s * (1 + ((x - l) / s) ^ 2)))

/-- `scipy.stats.gamma.logpdf(x, a, loc=0, scale=sc)` with `sc = 1/rate`:
    `xlogy(a-1, y) - y - gammaln(a) - log(sc)`, `y = x/sc` -/
def gammaLogpdf (x a sc : RExpr) : RExpr := (a - 1) * log (x / sc) - x / sc - lgamma a - log sc

/-- `scipy.stats.invgamma.logpdf(x, a, loc, scale)`: `-(a+1)*log(y) - gammaln(a) - 1/y - log(scale)` -/
def invGammaLogpdf (x a loc sc : RExpr) : RExpr :=
  -((a + 1) * log ((x - loc) / sc)) - lgamma a - 1 / ((x - loc) / sc) - log sc

/-- `scipy.stats.beta.logpdf(x, a, b)`: `xlog1py(b-1, -x) + xlogy(a-1, x) - betaln(a, b)` -/
def betaLogpdf (x a b : RExpr) : RExpr :=
  (b - 1) * log (1 - x) + (a - 1) * log x - (lgamma a + lgamma b - lgamma (a + b))

/-- `ModifiedHalfNormal.logpdf` (un-normalised): `(alpha-1)*log(x) - beta*x*x + gamma*x` -/
def mhnLogpdf (x a b c : RExpr) : RExpr := (a - 1) * log x - b * x * x + c * x

/-- `Uniform.logpdf` inside the box: `np.log(1.0/v)` -/
def uniformLogpdf (v : RExpr) : RExpr := log (1 / v)

/-- `CMRF.logpdf`, per difference `u`: `log(scale) - log(u**2+scale**2)` (plus `-log(pi)` per difference) -/
def cmrfComp (u s : RExpr) : RExpr := log s - log (u ^ 2 + s ^ 2)
/-- `LMRF.logpdf`, per difference: `-(log(2)+log(scale))` and `|u|/scale` -/
def lmrfComp (u s : RExpr) : RExpr := -(log 2 + log s) - abs u / s

/-- `Gaussian.logpdf`: `-0.5*(rank*log(2*pi) + logdet) - 0.5*mahadist`; `logdet` is the code's
    log-determinant of the covariance, i.e. `log detCov` -/
def gaussLogpdf (rank detCov quad : RExpr) : RExpr :=
  -((1 / 2 : RExpr) * (rank * log (2 * pi) + log detCov)) + -((1 / 2 : RExpr) * quad)
/-- `Gaussian._logupdf`: `-0.5*mahadist` -/
def gaussLogupdf (quad : RExpr) : RExpr := -((1 / 2 : RExpr) * quad)

/-- `GMRF.logpdf`: `0.5*(rank*(log(prec)-log(2*pi)) + logdet) - 0.5*(prec*quad)`; here `logdet`
    is the log (pseudo-)determinant of the structure matrix `DᵀD`, given as `log pdet` -/
def gmrfLogpdf (rank δ pdet quad : RExpr) : RExpr :=
  (1 / 2 : RExpr) * (rank * (log δ - log (2 * pi)) + log pdet) - (1 / 2 : RExpr) * (δ * quad)

/-! ## 2. assembly -/
section Generic
variable {α : Type} [Add α] [OfNat α 0]

/-- `Σ_{j<n} f j` (left fold, as `np.sum` accumulates) -/
def sumTo (n : Nat) (f : Nat → α) : α := (List.range n).foldl (fun acc j => acc + f j) 0

/-- `Π_{j<n} f j` -/
def prodTo [Mul α] [OfNat α 1] (n : Nat) (f : Nat → α) : α := (List.range n).foldl (fun acc j => acc * f j) 1

/-- numpy broadcasting of a parameter of length 1 or n against the components: entry used for component `j` -/
def bc {β : Type} (d : β) (v : List β) (j : Nat) : β := if v.length = 1 then v.getD 0 d else v.getD j d

/-- environment of component `j`: `var 0 = x_j`, `var (k+1) = k-th parameter broadcast to j` -/
def env {β : Type} (d : β) (x : List β) (ps : List (List β)) (j : Nat) : Nat → β
  | 0 => bc d x j
  | k + 1 => bc d (ps.getD k []) j

/-- length of the broadcast result of `x` and the parameters (numpy: the largest length; all others are 1) -/
def bcLen {β : Type} (x : List β) (ps : List (List β)) : Nat := (ps.map List.length).foldl max x.length

/-- shapes broadcastable: every length is 1 or the common length -/
def bcOk {β : Type} (x : List β) (ps : List (List β)) : Bool :=
  let L := bcLen x ps
  (x :: ps).all fun v => v.length = 1 || v.length = L

/-- `np.sum(comp(x, θ))` over the broadcast length — the i.i.d. log-density.
    `ev` interprets formulas (`evalFloat` in the driver, `eval` over ℝ in the theorems). -/
def iid {β : Type} (ev : (Nat → β) → RExpr → α) (d : β) (comp : RExpr) (x : List β) (ps : List (List β)) : α :=
  sumTo (bcLen x ps) fun j => ev (env d x ps j) comp

/-- `Laplace.logpdf`: `self.dim*(np.log(0.5/self.scale)) - np.linalg.norm(x-self.location,1)/self.scale`
    with scalar `scale`; `dim` comes from the geometry, the norm runs over the broadcast of `x` and `location`.
    Written with the per-component formula `laplaceLogpdf` split in its two parts. -/
def laplaceCode [Sub α] {β : Type} (ev : (Nat → β) → RExpr → α) (d : β) (dim : Nat) (x l s : List β) : α :=
  sumTo dim (fun _ => ev (env d x [l, s] 0) (slConst (var 2)))
    - sumTo (bcLen x [l]) (fun j => ev (env d x [l, s] j) (abs (var 0 - var 1) / var 2))

/-- `SmoothedLaplace.logpdf`: `np.sum(np.log(0.5/scale)) - np.sum(np.sqrt((x-location)**2+beta)/scale)`:
    the first sum runs over the entries of `scale` (ONE term for a scalar scale, whatever the dimension),
    the second over the components. -/
def slCode [Sub α] {β : Type} (ev : (Nat → β) → RExpr → α) (d : β) (x l s b : List β) : α :=
  sumTo s.length (fun k => ev (fun _ => s.getD k d) (slConst (var 0)))
    - sumTo (bcLen x [l, s, b]) (fun j => ev (env d x [l, s, b] j) (slKernel (var 0) (var 1) (var 2) (var 3)))

/-- documented SmoothedLaplace log-density: `Σ_j [log(0.5/scale_j) - sqrt((x_j-location_j)²+β)/scale_j]` -/
def slDoc {β : Type} (ev : (Nat → β) → RExpr → α) (d : β) (x l s b : List β) : α :=
  iid ev d (slConst (var 2) - slKernel (var 0) (var 1) (var 2) (var 3)) x [l, s, b]

end Generic

def powRat (q : Rat) : Nat → Rat
  | 0 => 1
  | n + 1 => powRat q n * q

/-- how `Uniform.logpdf` obtains the volume: `diff = high - low`; a Python/numpy scalar is raised to the
    power `dim` (`diff**self.dim`, /repo commit 53dfade), a one-element array likewise
    (`np.ravel(diff)[0]**self.dim`, commit 39cce69), a longer array is multiplied up (`np.prod(diff)`).
    In the model a scalar and a one-element array are both lists of length 1. -/
def uniformVolCode (dim : Nat) (lo hi : List Rat) : Rat :=
  if max lo.length hi.length ≤ 1 then powRat (bc 0 hi 0 - bc 0 lo 0) dim else
  let k := max lo.length hi.length
  (List.range k).foldl (fun acc j => acc * (bc 0 hi j - bc 0 lo j)) 1

/-- documented volume of the box in dimension `dim` -/
def uniformVolDoc (dim : Nat) (lo hi : List Rat) : Rat :=
  (List.range dim).foldl (fun acc j => acc * (bc 0 hi j - bc 0 lo j)) 1

/-- `np.any(x < low) or np.any(x > high)` -/
def uniformOutside (x lo hi : List Rat) : Bool :=
  (List.range (bcLen x [lo, hi])).any fun j => bc 0 x j < bc 0 lo j || bc 0 x j > bc 0 hi j

/-! ### support guards: what the call returns instead of the formula -/
inductive Guard | formula | negInf | posInf | nan | raises
  deriving DecidableEq, Repr

def Guard.toString : Guard → String
  | .formula => "formula" | .negInf => "-inf" | .posInf => "inf" | .nan => "nan" | .raises => "raise"

/-- `Cauchy.logpdf`: `np.any(scale <= 0)` ⇒ `-inf` -/
def cauchyGuard (s : List Rat) : Guard := if s.any (· ≤ 0) then .negInf else .formula

/-- `Beta.logpdf`: any `x<=0`, `x>=1`, `alpha<=0`, `beta<=0` ⇒ `-inf` -/
def betaGuard (x a b : List Rat) : Guard :=
  if x.any (· ≤ 0) || x.any (· ≥ 1) || a.any (· ≤ 0) || b.any (· ≤ 0) then .negInf else .formula

/-- `scipy.stats.gamma.logpdf` on the closed support `x ≥ 0` (valid parameters assumed positive):
    `x < 0` ⇒ `-inf`; at `x = 0`: `a > 1` ⇒ `-inf`, `a < 1` ⇒ `+inf`, `a = 1` ⇒ formula `log(rate)`;
    non-positive shape/rate ⇒ `nan` (scipy's argument check). A `+inf` component with a `-inf`
    component adds to `nan`. -/
def gammaGuard (x a r : List Rat) : Guard :=
  let n := bcLen x [a, r]
  if a.any (· ≤ 0) || r.any (· ≤ 0) then .nan else
  let neg := (List.range n).any fun j => bc 0 x j < 0 || (bc 0 x j = 0 && bc 0 a j > 1)
  let pos := (List.range n).any fun j => bc 0 x j = 0 && bc 0 a j < 1
  if neg && pos then .nan else if neg then .negInf else if pos then .posInf else .formula

/-- the formula is evaluated for the components with `x = 0`, `a = 1` as `log(rate)`; the driver
    replaces such a component by the limit value (scipy's `xlogy(0,0) = 0`). -/
def gammaAtZero (x a : Rat) : Bool := x = 0 && a = 1

/-- `scipy.stats.invgamma.logpdf`: `x <= loc` ⇒ `-inf`; non-positive shape/scale ⇒ `nan` -/
def invGammaGuard (x a loc sc : List Rat) : Guard :=
  let n := bcLen x [a, loc, sc]
  if a.any (· ≤ 0) || sc.any (· ≤ 0) then .nan else
  if (List.range n).any fun j => bc 0 x j ≤ bc 0 loc j then .negInf else .formula

/-- `Lognormal.pdf`: `np.any(x<=0)` ⇒ pdf 0 ⇒ logpdf `-inf` -/
def lognormalGuard (x : List Rat) : Guard := if x.any (· ≤ 0) then .negInf else .formula

/-- `ModifiedHalfNormal.logpdf` has no guard: `log` of a negative number is `nan`, `log 0 = -inf`
    (times `alpha-1`: `-inf` if `alpha>1`, `+inf` if `alpha<1`, `nan` if `alpha = 1`). The model only
    distinguishes the interior of the support. -/
def mhnGuard (x : List Rat) : Guard :=
  if x.any (· < 0) then .nan else if x.any (· = 0) then .raises /- not modelled -/ else .formula

/-! ### parameters passed as Python lists (no `force_ndarray` in Normal, Uniform, MHN) -/

/-- `Normal`: `self.std*np.sqrt(2*np.pi)` with `std` a Python list is a `TypeError` -/
def normalListRaises (stdIsList : Bool) : Bool := stdIsList

/-- `Uniform.logpdf`, reached only inside the bounds: `self.high - self.low` needs at least one ndarray
    operand as soon as one of them is a Python list -/
def uniformListRaises (loIsList hiIsList loIsArray hiIsArray : Bool) : Bool :=
  (loIsList || hiIsList) && !(loIsArray || hiIsArray)

/-- A parameter passed as a 0-dimensional numpy array (`np.array(2)`): `force_ndarray` leaves ndarrays
    untouched, and the classes that read `value.shape[0]` / `len(value)` of the raw parameter (the Gaussian
    `get_sqrtprec_from_*` dispatch, `infer_len` of plain attributes, `GMRF.prec.setter`) refuse it with an
    IndexError / TypeError; the families that only do arithmetic with the flattened parameter accept it.
    (Table by family, for the scale-like parameter; tied by the dtype section of the harness.) -/
def zeroDimArrayRaises : String → Bool
  | "gaussian" | "uniform" | "laplace" | "lognormal" | "gmrf" | "lmrf" | "cmrf" => true
  | _ => false

/-! ### cdf combination rule -/
inductive CdfRule | product | sum
  deriving DecidableEq, Repr

/-- `np.prod(...)` in Normal/Gamma/InverseGamma/Beta `.cdf`, `np.sum(...)` in `Cauchy.cdf` -/
def cdfRule : String → Option CdfRule
  | "normal" | "gamma" | "invgamma" | "beta" => some .product
  | "cauchy" => some .sum
  | _ => none

section
variable {α : Type} [Add α] [Mul α] [OfNat α 0] [OfNat α 1]
def cdfCombine (r : CdfRule) (n : Nat) (F : Nat → α) : α :=
  match r with
  | .product => prodTo n F
  | .sum => sumTo n F
end

/-- `Beta.cdf` guard: any `x<=0` (or invalid parameter) ⇒ returns `0`; components with `x>=1` go through
    `scipy.stats.beta.cdf`, which is 1 there (/repo commit 140c6b9; the pinned snapshot returned 0) -/
def betaCdfGuardZero (x a b : List Rat) : Bool :=
  x.any (· ≤ 0) || a.any (· ≤ 0) || b.any (· ≤ 0)

/-! ## 3. Gaussian parameterisations -/

/-- `cuqi.config.MIN_DIM_SPARSE` -/
def MIN_DIM_SPARSE : Nat := 75
/-- `sparse_flag` of the four setters: `self.dim > config.MIN_DIM_SPARSE` -/
def sparseFlag (dim : Nat) : Bool := dim > MIN_DIM_SPARSE

inductive Form | cov | prec | sqrtcov | sqrtprec
  deriving DecidableEq, Repr
def Form.ofString : String → Option Form
  | "cov" => some .cov | "prec" => some .prec | "sqrtcov" => some .sqrtcov | "sqrtprec" => some .sqrtprec
  | _ => none

/-- how the matrix argument was passed: a scalar, a 1-D array, a dense 2-D array, a scipy sparse matrix -/
inductive Kind | scalar | vector | dense | sparse
  deriving DecidableEq, Repr
def Kind.ofString : String → Option Kind
  | "scalar" => some .scalar | "vector" => some .vector | "dense" => some .dense | "sparse" => some .sparse
  | _ => none

section GenericQuad
variable {α : Type} [Add α] [Mul α] [OfNat α 0]
/-- `(M z)_k` -/
def matVec (n : Nat) (M : Nat → Nat → α) (z : Nat → α) (k : Nat) : α := sumTo n fun j => M k j * z j
/-- `zᵀ P z` -/
def quadForm (n : Nat) (P : Nat → Nat → α) (z : Nat → α) : α := sumTo n fun i => z i * matVec n P z i
/-- `‖R z‖²` for an `m × n` matrix: `np.sum(np.square(sqrtprec @ dev))` of `Gaussian._logupdf` -/
def normSqR (m n : Nat) (R : Nat → Nat → α) (z : Nat → α) : α := sumTo m fun k => matVec n R z k * matVec n R z k
/-- `RᵀR` for an `m × n` matrix -/
def gramOf (m : Nat) (R : Nat → Nat → α) (i j : Nat) : α := sumTo m fun k => R k i * R k j
/-- `R Rᵀ` for an `n × m` matrix -/
def gramOfT (m : Nat) (R : Nat → Nat → α) (i j : Nat) : α := sumTo m fun k => R i k * R j k
end GenericQuad

def fn (l : List Rat) : Nat → Rat := fun i => l.getD i 0
def fn2 (M : QMat.Mat) : Nat → Nat → Rat := fun i j => QMat.entry M i j

/-- product of the entries: `exp(np.sum(np.log(v)))` -/
def prodList (v : List Rat) : Rat := v.foldl (· * ·) 1
def isDiagonal (M : QMat.Mat) : Bool :=
  (List.range M.length).all fun i => (List.range (QMat.ncols M)).all fun j => i = j || QMat.entry M i j = 0
def diagOf (M : QMat.Mat) : List Rat := (List.range M.length).map fun i => QMat.entry M i i

/-- pivots of Gaussian elimination *without row exchanges* (`none` as soon as a pivot is zero).
    For a symmetric matrix: all pivots positive ⇔ positive definite (the leading principal minors are the
    partial products of the pivots — Sylvester), and their product is the determinant. -/
def pivots (M : QMat.Mat) : Option (List Rat) := Id.run do
  let n := M.length
  let mut rows := M
  let mut piv : List Rat := []
  for c in List.range n do
    let p := QMat.entry rows c c
    if p = 0 then return none
    piv := piv ++ [p]
    let prow := rows.getD c []
    rows := rows.mapIdx (fun i row =>
      if i ≤ c then row
      else
        let f := row.getD c 0 / p
        if f = 0 then row else List.zipWith (fun a b => a - f * b) row prow)
  return some piv

/-- exact stand-in for "`np.linalg.cholesky` succeeds" on a symmetric matrix -/
def isPD (M : QMat.Mat) : Bool :=
  match pivots M with
  | some piv => piv.all (· > 0)
  | none => false

/-- determinant: product of the pivots when elimination needs no row exchange, else `QMat.det` -/
def detOf (M : QMat.Mat) : Rat :=
  match pivots M with
  | some piv => piv.foldl (· * ·) 1
  | none => QMat.det M

/-- dimension up to which the model forms the inverse explicitly; above it quadratic forms with an
    inverse are evaluated through a checked solve -/
def SMALL : Nat := 8

/-- What the parameterisation denotes, as the code computes it. -/
structure Canon where
  /-- the precision the log-density uses: `sqrtprecᵀ sqrtprec` (`none`: not formed explicitly by the
      model because the dimension is large; then `C` is given and `P = C⁻¹`) -/
  P : Option QMat.Mat
  /-- `exp(self._logdet)`: determinant of the covariance as the branch computes it -/
  detCov : Rat
  /-- `self._rank` -/
  rank : Nat
  /-- the covariance the branch formed (`cov`, `sqrtcov @ sqrtcov.T`), when it formed one -/
  C : Option QMat.Mat := none

inductive GRes
  | ok (c : Canon)
  | raises            -- constructor raises (ValueError / LinAlgError / TypeError)
  | noLogdet (P : QMat.Mat)   -- constructed, but `logdet is None`: `logpdf` raises NotImplementedError
  | nan               -- constructed, `logpdf` is `nan`/`±inf` (non-positive variances)
  | unsupported       -- outside the model (singular full matrices in the eigenvalue branch)

/-- diagonal specification: entries `v` mean variances (`cov`), precisions (`prec`), standard deviations
    (`sqrtcov`) or inverse standard deviations (`sqrtprec`); transcribes the scalar / vector / diagonal
    branches of the four `get_sqrtprec_from_*` functions (the same formulas in their dense and sparse
    variants).  `logdet`: `sum(log(var))`, `sum(-log(prec))`, `sum(log(std**2))`, `sum(-log(r**2))`. -/
def canonDiag (form : Form) (v : List Rat) : GRes :=
  match form with
  | .cov => if v.any (· ≤ 0) then .nan else
      .ok { P := some (QMat.diag (v.map (1 / ·))), detCov := prodList v, rank := v.length }
  | .prec => if v.any (· ≤ 0) then .nan else
      .ok { P := some (QMat.diag v), detCov := prodList (v.map (1 / ·)), rank := v.length }
  | .sqrtcov => if v.any (· = 0) then .nan else
      .ok { P := some (QMat.diag (v.map fun s => 1 / (s * s))), detCov := prodList (v.map fun s => s * s), rank := v.length }
  | .sqrtprec => if v.any (· = 0) then .nan else
      .ok { P := some (QMat.diag (v.map fun r => r * r)), detCov := prodList (v.map fun r => 1 / (r * r)), rank := v.length }

/-- full (non-diagonal) matrix, dense storage.  `sparse = false`: `matrix_rank`, `log(det)`, `inv`,
    `cholesky`.  `sparse = true` (dim > MIN_DIM_SPARSE): `eigh` — rank = number of eigenvalues above the
    threshold, log-determinant = sum of their logs, precision = pseudo-inverse; for a non-singular
    symmetric positive definite matrix these are the same three numbers (Props: `eig_logdet_eq_log_det`),
    singular matrices are outside the model. -/
def canonFull (form : Form) (M : QMat.Mat) (sparse : Bool) : GRes :=
  let n := M.length
  if !(M.all (·.length = n)) then .raises else
  /- covariance `C` given or formed: precision is its inverse -/
  let viaCov (C : QMat.Mat) (d : Rat) : GRes :=
    if n ≤ SMALL then
      match QMat.inverse C with
      | some P => if QMat.isInverse C P then .ok { P := some P, detCov := d, rank := n, C := some C } else .unsupported
      | none => .unsupported
    else .ok { P := none, detCov := d, rank := n, C := some C }
  match form with
  | .cov =>
      if !QMat.isSymmetric M then .raises else                 -- "Covariance matrix has to be symmetric."
      let d := detOf M
      if d = 0 then (if sparse then .unsupported else .raises) else   -- `inv`: LinAlgError
      if !isPD M then .raises else                             -- `cholesky(prec)` / negative eigenvalue
      viaCov M d
  | .prec =>
      if !QMat.isSymmetric M then .raises else
      let d := detOf M
      if d = 0 then (if sparse then .unsupported else .raises) else
      if !isPD M then .raises else
      .ok { P := some M, detCov := 1 / d, rank := n }
  | .sqrtcov =>
      let C := QMat.mul M (QMat.transpose M)                   -- `cov = sqrtcov@sqrtcov.T`
      let d := detOf C
      if d = 0 then (if sparse then .unsupported else .raises) else
      viaCov C d
  | .sqrtprec =>
      let Pd := QMat.mul M (QMat.transpose M)                  -- `prec = sqrtprec@sqrtprec.T` (rank, logdet)
      let Pq := QMat.mul (QMat.transpose M) M                  -- `_logupdf`: `sqrtprec @ dev`
      let d := detOf Pd
      if d = 0 then .unsupported else                          -- `log(0)`: -inf / eigenvalue threshold
      .ok { P := some Pq, detCov := 1 / d, rank := n }

/-- full scipy-sparse matrix without `sksparse.cholmod`: the objects are built but `logdet = None` -/
def canonSparseFull (form : Form) (M : QMat.Mat) : GRes :=
  let n := M.length
  if !(M.all (·.length = n)) then .raises else
  match form with
  | .cov =>
      match QMat.inverse M with
      | some P => if isPD P then .noLogdet P else .raises      -- `sparse_cholesky(prec)`: TypeError
      | none => .raises
  | .prec => if isPD M then .noLogdet M else .raises
  | .sqrtcov =>
      match QMat.inverse M with                                 -- `sqrtprec = inv(sqrtcov)`, `prec = sqrtprec.T@sqrtprec`
      | some S => .noLogdet (QMat.mul (QMat.transpose S) S)
      | none => .raises
  | .sqrtprec => .noLogdet (QMat.mul (QMat.transpose M) M)

/-- The dispatcher: the `if/elif` chain at the top of each `get_sqrtprec_from_*`:
    `shape[0] == 1` (scalar) → 1-D array → diagonal 2-D → full. -/
def canon (form : Form) (kind : Kind) (dim : Nat) (M : QMat.Mat) : GRes :=
  match kind, M with
  | .scalar, [[v]] => canonDiag form (List.replicate dim v)
  | .vector, [v] => if v.length = dim then canonDiag form v else .raises
  | .dense, M =>
      if M.length ≠ dim then .raises else
      if form = .sqrtprec && !(M.all (·.length = dim)) then .raises else     -- "sqrtprec must be square"
      if isDiagonal M && M.all (·.length = dim) then canonDiag form (diagOf M) else canonFull form M (sparseFlag dim)
  | .sparse, M =>
      if M.length ≠ dim then .raises else
      if isDiagonal M && M.all (·.length = dim) then canonDiag form (diagOf M) else canonSparseFull form M
  | _, _ => .raises

/-- exact covariance of the distribution the specification denotes *as the code reads it*: the covariance
    the branch formed, else the inverse of the canonical precision (certificate `P·C = 1` checked).
    This is what `Gaussian.compute_cov()` (and `cdf`, which reads it) must return. -/
def canonCov (c : Canon) : Option QMat.Mat :=
  match c.C, c.P with
  | some C, _ => some C
  | none, some P =>
      match QMat.inverse P with
      | some C => if QMat.isInverse P C then some C else none
      | none => none
  | none, none => none

/-- solve `A y = b` by elimination on `[A | b]` (untrusted helper; the driver checks `A y = b`) -/
def solveVec (A : QMat.Mat) (b : List Rat) : Option (List Rat) :=
  let n := A.length
  let aug := List.zipWith (fun r (v : Rat) => r ++ [v]) A b
  let (R, piv) := QMat.rref 1 aug n
  if piv.length ≠ n then none else
  let y := R.map fun r => r.getD n 0
  if QMat.mulVec A y == b then some y else none

/-! ## 4. Markov random fields -/

def toQ (M : C20.FMat) : QMat.Mat := M.toList.map (fun r => r.map (fun (k : Int) => (k : Rat)))

def mrfOp (pd order : Nat) (bc : C20.BC) (n : Nat) : C20.FMat :=
  if pd = 2 then C20.diffOp2D order bc n else C20.diffOp order bc n

/-- remove row and column `i` -/
def minor (A : QMat.Mat) (i : Nat) : QMat.Mat :=
  ((A.take i) ++ (A.drop (i + 1))).map fun r => (r.take i) ++ (r.drop (i + 1))

/-- `e_{n-1}(λ) = Σ_i det(A without row/col i)`: for a symmetric matrix of nullity exactly 1 this is the
    product of the non-zero eigenvalues, i.e. `exp(sum(log(eigsh(P, dim-1, which='LM'))))` -/
def pdet1 (A : QMat.Mat) : Rat := (List.range A.length).foldl (fun acc i => acc + QMat.det (minor A i)) 0

/-- what `GMRF.__init__` stores: (`_rank`, exact value of `exp(_logdet)` when the model can tell it) -/
def gmrfConst (bc : C20.BC) (P : QMat.Mat) : Nat × Option Rat :=
  let dim := P.length
  let r := C20.declaredRank bc dim
  let trueRank := QMat.rank P
  if bc = .zero then (r, some (QMat.det P))                 -- `2*sum(log(chol.diagonal()))`
  else if trueRank = dim then
    -- non-singular structure matrix with a declared rank `dim-1`: the `dim-1` largest eigenvalues;
    -- only for the identity (order 0) their product is known exactly
    (r, if P == QMat.ident dim then some 1 else none)
  else if trueRank + 1 = dim then (r, some (pdet1 P))
  else (r, none)                                            -- nullity ≥ 2: log of a (numerically) zero eigenvalue

end CuqiVerif.C04
