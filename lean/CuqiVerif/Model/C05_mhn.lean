import CuqiVerif.Model.RExpr
import CuqiVerif.Model.C05
/-
  C05 model, part "mhn": the WHOLE `ModifiedHalfNormal` sampler as a function of the stream of values the
  random generator returns (`cuqi/distribution/_modifiedhalfnormal.py` l.86-185):

  * `_sample(N, rng)`: `hasattr(self.alpha, '__getitem__')` → draw `i` is made with `alpha[i], beta[i], gamma[i]`
    (indexed by the DRAW number, `IndexError` past the end / for numpy scalars), else with the plain values;
    the getters hand over `(_alpha, _alpha, _alpha)` (`mhnRead` of `Model/C05.lean`);
  * `_MHN_sample`: `gamma <= 0` → `_MHN_sample_negative_gamma(m)`, `alpha > 1` → `_MHN_sample_positive_gamma_1`,
    else `_MHN_sample_gamma_proposal`;
  * the three `ValueError` guards, the choice of the matching point `m` (`None` / `"mode"` / a number),
    the choice `K2 > K1` between the normal and the sqrt-gamma proposal;
  * the three `while True` loops: every iteration consumes one proposal draw and one uniform; the loop returns
    the point of the first iteration with `[X > 0 and] log(U) < bound`.

  Decisions on real-valued expressions go through an `Arith` record (`<`, `<=` on evaluated `RExpr`s): the
  driver runs the model with IEEE doubles (`floatArith`), the theorems hold for every `Arith` and are
  instantiated with the reals in `Props/C05_mhn.lean`.  Import-free, executable.
-/
namespace CuqiVerif.C05
namespace MhnRun
open RExpr

/-! ### generic rejection loop / sequence of draws over a finite prefix of the generator stream -/

/-- `while True: T = propose(); X = point(T); U = rng.uniform(); if accept(T, U): return X`
    run on a finite prefix of the stream of `(T, U)` pairs: the point of the first accepted pair and the unread
    rest of the stream; `none` = the prefix is used up (the real loop would go on reading). -/
def rejLoop {τ υ χ : Type} (point : τ → χ) (accept : τ → υ → Bool) : List (τ × υ) → Option (χ × List (τ × υ))
  | [] => none
  | (t, u) :: rest => if accept t u then some (point t, rest) else rejLoop point accept rest

/-- `[draw(i) for i in range(i0, i0 + n)]` where every draw reads the stream where the previous one stopped;
    the first exception aborts the whole comprehension. -/
def drawsFrom {σ χ ε : Type} (draw : Nat → List σ → Except ε (χ × List σ)) :
    Nat → Nat → List σ → Except ε (List χ × List σ)
  | _, 0, s => .ok ([], s)
  | i, n + 1, s =>
    match draw i s with
    | .error e => .error e
    | .ok (x, s') =>
      match drawsFrom draw (i + 1) n s' with
      | .error e => .error e
      | .ok (xs, s'') => .ok (x :: xs, s'')

/-! ### decisions on real expressions -/

/-- comparison of two closed real expressions (`a < b`, `a <= b` on their values) -/
structure Arith where
  lt : RExpr → RExpr → Bool
  le : RExpr → RExpr → Bool

def evF (e : RExpr) : Float := RExpr.evalFloat (fun _ => 0.0) e

/-- IEEE double arithmetic, as numpy does it (a comparison with `nan` is `False`) -/
def floatArith : Arith := ⟨fun a b => evF a < evF b, fun a b => evF a ≤ evF b⟩

/-! ### the parameters a draw is made with -/

/-- what python holds in `self._alpha` (the constructor stores the argument unchanged) -/
inductive PVal
  | pyfloat (v : Rat)          -- python `float` / `int`: no `__getitem__`
  | npscalar (v : Rat)         -- `np.float64` …: has `__getitem__`, every index raises `IndexError`
  | seq (vs : List Rat)        -- 1-d ndarray / list / tuple
  deriving Repr, DecidableEq

inductive Err
  | indexError | gammaNotPositive | alphaNotGreater1 | gammaNotNegative | exhausted
  deriving Repr, DecidableEq

def Err.toString : Err → String
  | .indexError => "IndexError" | .gammaNotPositive => "ValueError:gamma-needs-to-be-positive"
  | .alphaNotGreater1 => "ValueError:alpha-needs-to-be-greater-than-1" | .gammaNotNegative => "ValueError:gamma-needs-to-be-negative"
  | .exhausted => "exhausted"

/-- `hasattr(v, '__getitem__')` -/
def PVal.indexable : PVal → Bool
  | .pyfloat _ => false | _ => true

/-- `v[i]` -/
def PVal.index (v : PVal) (i : Nat) : Except Err Rat :=
  match v with
  | .pyfloat x => .ok x          -- never called (not indexable)
  | .npscalar _ => .error .indexError
  | .seq vs => match vs[i]? with | some x => .ok x | none => .error .indexError

def PVal.plain : PVal → Rat
  | .pyfloat x => x | .npscalar x => x | .seq vs => vs.headD 0

/-- the three values `_sample` hands to `_MHN_sample` for draw number `i`: the getters `alpha`, `beta`, `gamma`
    all return `self._alpha` (as coded), and the index is the DRAW number when `alpha` is indexable. -/
def paramsAt (a _b _c : PVal) (i : Nat) : Except Err (Rat × Rat × Rat) :=
  let (ga, gb, gc) := (a, a, a)           -- the getters
  if ga.indexable then
    match ga.index i, gb.index i, gc.index i with
    | .ok x, .ok y, .ok z => .ok (x, y, z)
    | .error e, _, _ => .error e
    | _, .error e, _ => .error e
    | _, _, .error e => .error e
  else .ok (ga.plain, gb.plain, gc.plain)

/-! ### scheme selection, guards, loops -/

/-- the argument `m` of `_MHN_sample` / `_MHN_sample_negative_gamma` -/
inductive MArg | none | mode | num (m : Rat)
  deriving Repr, DecidableEq

/-- one `while True` loop: the generator call of the proposal, the point map, whether the acceptance test has the
    conjunct `X > 0`, and the log-acceptance bound (functions of the proposal draw) -/
structure Loop where
  method : String
  arg1 : RExpr
  arg2 : RExpr
  point : RExpr → RExpr
  guardPos : Bool
  bound : RExpr → RExpr

/-- `_MHN_sample_gamma_proposal` (`delta` is the same expression whether computed here or handed over) -/
def gammaProposalLoop (α β γ : RExpr) : Loop :=
  ⟨"gamma", Mhn.gpShape α, Mhn.gpScale α β γ, Mhn.gpX, true, Mhn.gpAccept α β γ⟩

/-- `_MHN_sample_normal_proposal` (`mu` likewise) -/
def normalProposalLoop (α β γ : RExpr) : Loop :=
  ⟨"normal", Mhn.npLoc α β γ, Mhn.npScale β, id, true, Mhn.npAccept α β γ⟩

/-- the loop of `_MHN_sample_negative_gamma` with matching point `m`: no `X > 0` conjunct -/
def negGammaLoop (α β γ m : RExpr) : Loop :=
  ⟨"gamma", α * Mhn.ngVal1 β γ m, 1 / Mhn.ngVal2 β γ m, Mhn.ngX β γ m, false, Mhn.ngAccept β γ m⟩

/-- matching point: `None` → `1.0` when `alpha <= 1.0` else the mode; `"mode"` (any case) → the mode; a number → itself -/
def matchingPoint (A : Arith) (α β γ : RExpr) : MArg → RExpr
  | .none => if A.le α 1 then const 1 else Mhn.mode α β γ
  | .mode => Mhn.mode α β γ
  | .num m => const m

/-- `_MHN_sample_negative_gamma` up to its loop -/
def negativeGamma (A : Arith) (α β γ : RExpr) (m : MArg) : Except Err Loop :=
  if A.lt 0 γ then .error .gammaNotNegative
  else .ok (negGammaLoop α β γ (matchingPoint A α β γ m))

/-- `_MHN_sample_positive_gamma_1` up to its loop: two guards, then `K2 > K1` → normal proposal, else sqrt-gamma -/
def positiveGamma1 (A : Arith) (α β γ : RExpr) : Except Err Loop :=
  if A.le γ 0 then .error .gammaNotPositive
  else if A.le α 1 then .error .alphaNotGreater1
  else if A.lt (Mhn.K1 α β γ) (Mhn.K2 α β γ) then .ok (normalProposalLoop α β γ)
  else .ok (gammaProposalLoop α β γ)

/-- `_MHN_sample(alpha, beta, gamma, m)` up to the loop it enters -/
def mhnDispatch (A : Arith) (α β γ : RExpr) (m : MArg) : Except Err Loop :=
  if A.le γ 0 then negativeGamma A α β γ m
  else if A.lt 1 α then positiveGamma1 A α β γ
  else .ok (gammaProposalLoop α β γ)

/-- the acceptance test of one iteration: `[X > 0 and] np.log(U) < bound` -/
def Loop.accept (A : Arith) (L : Loop) (t u : Rat) : Bool :=
  (!L.guardPos || A.lt 0 (L.point (const t))) && A.lt (log (const u)) (L.bound (const t))

/-- run a loop on the stream -/
def Loop.run (A : Arith) (L : Loop) (s : List (Rat × Rat)) : Except Err (RExpr × List (Rat × Rat)) :=
  match rejLoop (fun t => L.point (const t)) (L.accept A) s with
  | some r => .ok r
  | none => .error .exhausted

/-- `_MHN_sample(alpha, beta, gamma, m, rng)` on the stream -/
def mhnSample1 (A : Arith) (α β γ : Rat) (m : MArg) (s : List (Rat × Rat)) : Except Err (RExpr × List (Rat × Rat)) :=
  match mhnDispatch A (const α) (const β) (const γ) m with
  | .error e => .error e
  | .ok L => L.run A s

/-- draw number `i` of `_sample`: index the parameters, then `_MHN_sample(…, rng=rng)` (`m = None`) -/
def sampleDraw (A : Arith) (a b c : PVal) (i : Nat) (s : List (Rat × Rat)) : Except Err (RExpr × List (Rat × Rat)) :=
  match paramsAt a b c i with
  | .error e => .error e
  | .ok (α, β, γ) => mhnSample1 A α β γ .none s

/-- `ModifiedHalfNormal._sample(N, rng)`: `np.array([... for i in range(N)])` — `N` scalars, whatever the
    dimension of the distribution -/
def sampleN (A : Arith) (a b c : PVal) (N : Nat) (s : List (Rat × Rat)) : Except Err (List RExpr × List (Rat × Rat)) :=
  drawsFrom (sampleDraw A a b c) 0 N s

end MhnRun
end CuqiVerif.C05
