/-
  Exact rational vectors / matrices as lists (import-free, executable).
  The elimination routines here are *untrusted helpers*: whenever a theorem needs an inverse,
  a solution or a factor, it is stated for any object satisfying the defining relation, and the
  drivers check that relation (`isInverse`, `solves`) on what these routines return.
-/
namespace CuqiVerif.QMat

abbrev Vec := List Rat
abbrev Mat := List (List Rat)

def vzero (n : Nat) : Vec := List.replicate n 0
def vadd (a b : Vec) : Vec := List.zipWith (· + ·) a b
def vsub (a b : Vec) : Vec := List.zipWith (· - ·) a b
def vscale (c : Rat) (a : Vec) : Vec := a.map (c * ·)
def dot (a b : Vec) : Rat := (List.zipWith (· * ·) a b).foldl (· + ·) 0
def norm2 (a : Vec) : Rat := dot a a

def nrows (A : Mat) : Nat := A.length
def ncols (A : Mat) : Nat := match A with | [] => 0 | r :: _ => r.length

def mulVec (A : Mat) (x : Vec) : Vec := A.map (fun r => dot r x)

def transposeAux (n : Nat) (A : Mat) : Mat :=
  (List.range n).map (fun j => A.map (fun r => r.getD j 0))
def transpose (A : Mat) : Mat := transposeAux (ncols A) A
/-- transpose with explicit column count (needed for matrices with zero rows) -/
def transposeN (n : Nat) (A : Mat) : Mat := transposeAux n A

def mul (A B : Mat) : Mat :=
  let Bt := transpose B
  A.map (fun r => Bt.map (fun c => dot r c))

def madd (A B : Mat) : Mat := List.zipWith vadd A B
def msub (A B : Mat) : Mat := List.zipWith vsub A B
def mscale (c : Rat) (A : Mat) : Mat := A.map (vscale c)

def ident (n : Nat) : Mat :=
  (List.range n).map (fun i => (List.range n).map (fun j => if i = j then (1:Rat) else 0))

def diag (d : Vec) : Mat :=
  let n := d.length
  (List.range n).map (fun i => (List.range n).map (fun j => if i = j then d.getD i 0 else 0))

def ofFn (m n : Nat) (f : Nat → Nat → Rat) : Mat :=
  (List.range m).map (fun i => (List.range n).map (fun j => f i j))

def entry (A : Mat) (i j : Nat) : Rat := (A.getD i []).getD j 0

def vstack (A B : Mat) : Mat := A ++ B
def hstack (A B : Mat) : Mat := List.zipWith (· ++ ·) A B

/-- Kronecker product, `numpy.kron`/`scipy.sparse.kron` convention. -/
def kron (A B : Mat) : Mat :=
  A.flatMap (fun ra => B.map (fun rb => ra.flatMap (fun a => rb.map (fun b => a * b))))

def isSymmetric (A : Mat) : Bool := A == transpose A

/-- Gauss–Jordan on an augmented matrix; returns the reduced rows and the list of pivot columns. -/
def rref (fuel : Nat) (A : Mat) (ncol : Nat) : Mat × List Nat := Id.run do
  let mut rows := A
  let mut pivots : List Nat := []
  let mut r := 0
  for c in List.range ncol do
    if r < rows.length ∧ fuel > 0 then
      -- find a pivot row at or below r
      let cand := (List.range rows.length).filter (fun i => i ≥ r ∧ entry rows i c ≠ 0)
      match cand with
      | [] => pure ()
      | p :: _ =>
        let rowp := rows.getD p []
        let rowr := rows.getD r []
        -- swap
        rows := rows.mapIdx (fun i row => if i = r then rowp else if i = p then rowr else row)
        let piv := entry rows r c
        let prow := (rows.getD r []).map (· / piv)
        rows := rows.mapIdx (fun i row =>
          if i = r then prow
          else
            let f := row.getD c 0
            if f = 0 then row else List.zipWith (fun a b => a - f * b) row prow)
        pivots := pivots ++ [c]
        r := r + 1
  return (rows, pivots)

def rank (A : Mat) : Nat := (rref 1 A (ncols A)).2.length

/-- Inverse by Gauss–Jordan on `[A | I]`; `none` if singular or not square. -/
def inverse (A : Mat) : Option Mat :=
  let n := nrows A
  if ncols A ≠ n then none else
  let aug := hstack A (ident n)
  let (R, piv) := rref 1 aug n
  if piv.length ≠ n then none else some (R.map (fun r => r.drop n))

def isInverse (A B : Mat) : Bool :=
  let n := nrows A
  mul A B == ident n && mul B A == ident n

/-- Solve a square non-singular system; `none` if singular. -/
def solve (A : Mat) (b : Vec) : Option Vec :=
  (inverse A).map (fun Ai => mulVec Ai b)

def solves (A : Mat) (x b : Vec) : Bool := mulVec A x == b

/-- Determinant by fraction-free-ish elimination (plain Gaussian elimination over ℚ). -/
def det (A : Mat) : Rat := Id.run do
  let n := nrows A
  if ncols A ≠ n then return 0
  let mut rows := A
  let mut d : Rat := 1
  for c in List.range n do
    let cand := (List.range n).filter (fun i => i ≥ c ∧ entry rows i c ≠ 0)
    match cand with
    | [] => d := 0
    | p :: _ =>
      if p ≠ c then
        let rowp := rows.getD p []
        let rowc := rows.getD c []
        rows := rows.mapIdx (fun i row => if i = c then rowp else if i = p then rowc else row)
        d := -d
      let piv := entry rows c c
      d := d * piv
      let prow := rows.getD c []
      rows := rows.mapIdx (fun i row =>
        if i ≤ c then row
        else
          let f := row.getD c 0 / piv
          if f = 0 then row else List.zipWith (fun a b => a - f * b) row prow)
  return d

/-- Least-squares / normal-equation solution `(AᵀA) x = Aᵀ b`. -/
def lsq (A : Mat) (b : Vec) : Option Vec :=
  let At := transpose A
  solve (mul At A) (mulVec At b)

end CuqiVerif.QMat
