/-
  C09 model, part 5 — the python objects `HybridGibbs` stores, at the level of their type and shape
  (`cuqi/experimental/mcmc/_gibbs.py`):

      # step, 254-258                       (write-back after the transitions of a block)
      if isinstance(sampler.current_point, np.ndarray):
          self.current_samples[par_name] = sampler.current_point.reshape(-1)
      else:
          self.current_samples[par_name] = sampler.current_point
      # _store_samples, 329-332
      self.samples[par_name].append(self.current_samples[par_name])
      # get_samples, 203-208
      samples_array = np.array(self.samples[par_name]).T

  `Model/C09.lean` moves *values* (flattened); here the *kind* of every object is modelled: a python
  scalar, a python list, or an `ndarray` of some shape.  The kind of a block sampler's `current_point`
  after its transitions is leaf data (an accepted transition of the library samplers leaves an
  `ndarray`, a block that did not move keeps the user's `initial_point` object, whatever it is).
  `np.array([...])` of the stored objects is homogeneous iff all entries have the same shape (a python
  scalar has shape `()`, a list of `d` floats `(d,)`); otherwise numpy (≥ 1.24) raises `ValueError`.

  Import-free and executable (driver op `sh`).
-/
namespace CuqiVerif.C09

/-- type and shape of a python object holding a block value -/
inductive Kind where
  /-- `float` / `int` / numpy scalar: not an `ndarray` -/
  | scalar
  /-- python list of `len` floats -/
  | plist (len : Nat)
  /-- `numpy.ndarray` (or subclass) of the given shape (`[]` = 0-d) -/
  | arr (shape : List Nat)
  deriving DecidableEq, Repr

/-- number of elements of an array of that shape -/
def prodShape (sh : List Nat) : Nat := sh.foldl (· * ·) 1

/-- the write-back of `HybridGibbs.step`: `reshape(-1)` for arrays, the object itself otherwise -/
def writeBack : Kind → Kind
  | .arr sh => .arr [prodShape sh]
  | k => k

/-- the shape numpy sees for one entry of the list handed to `np.array` -/
def Kind.rowShape : Kind → List Nat
  | .scalar => []
  | .plist l => [l]
  | .arr sh => sh

/-- `np.array(stored).T`: `none` = `ValueError` (inhomogeneous shape); `some shape` of the transposed array -/
def assemble (stored : List Kind) : Option (List Nat) :=
  match stored with
  | [] => some [0]
  | k :: r =>
    if r.all (fun k' => k'.rowShape == k.rowShape) then some ((stored.length :: k.rowShape).reverse)
    else none

variable {N : Type}

/-- `current_samples` and `samples` of a `HybridGibbs` object, kinds only -/
structure SG (N : Type) where
  names : List N
  cur : N → Kind
  samples : N → List Kind

/-- `_get_initial_points` + `_allocate_samples`: the sampler's `initial_point` object as it is -/
def constructS (names : List N) (init : N → Kind) : SG N := { names := names, cur := init, samples := fun _ => [] }

/-- `step()`: every block's `current_samples` entry is the write-back of its sampler's point -/
def sweepS (pts : N → Kind) (g : SG N) : SG N := { g with cur := fun n => writeBack (pts n) }

/-- `_store_samples` -/
def storeS (g : SG N) : SG N := { g with samples := fun n => g.samples n ++ [g.cur n] }

/-- a sequence of sweeps (warm-up or sampling), each followed by `_store_samples` -/
def runS (sweeps : List (N → Kind)) (g : SG N) : SG N := sweeps.foldl (fun g pts => storeS (sweepS pts g)) g

/-- `get_samples()[n]`: shape of the assembled array, `none` = `ValueError` -/
def getSamplesS (g : SG N) (n : N) : Option (List Nat) := assemble (g.samples n)

end CuqiVerif.C09
