/-
  C13 model, part 3 — constructor / setter glue of the reshaping geometries
  (`cuqi/geometry/_geometry.py`): `Continuous._create_dimension` (l.316-332), the `Continuous1D`
  and `Continuous2D` grid setters and their reported shapes (l.388-444), `Image2D.__init__`
  (l.545-567, any `im_shape` tuple, `order` string, `visual_only`) with `_vector_to_image` for an
  `im_shape` of any length, `Geometry.variables` setter / `Discrete` (l.78-97, 631-642), and the
  default geometries `Samples.geometry` / `CUQIarray.__new__` build when none is given.
  Import-free (core Lean + `Model/C13.lean`), executable; driver ops `ctor1d`, `ctor2d`, `ctorimg`,
  `ctordisc`, `defgeom`.
-/
import CuqiVerif.Model.C13
namespace CuqiVerif.C13

/-! ## `_create_dimension` -/

/-- what a caller may pass as a (component of a) grid -/
inductive DimArg
  | none                        -- `None`
  | int (n : Int)               -- `int` / `np.integer`
  | tuple1 (a : DimArg)         -- a 1-tuple `(a,)`
  | tupleN (k : Nat)            -- a tuple of another length
  | list (xs : List Rat)        -- list of numbers / 1-D `ndarray`
  | nd (ndim : Nat)             -- list / `ndarray` that is not 1-D
  | other                       -- float, str, …

/-- `np.arange(n).astype(float)` (empty for `n ≤ 0`) -/
def arangeQ (n : Int) : List Rat := (List.range n.toNat).map fun (i : Nat) => (i : Rat)

/-- the part after the `None` test and the 1-tuple unwrapping -/
def createDimCore : DimArg → Option (List Rat)
  | .int n => some (arangeQ n)
  | .list xs => some xs
  | _ => Option.none          -- `None` inside a tuple, nested tuples, non-1-D arrays, other types: `ValueError`

/-- `Continuous._create_dimension`: `none` = raises, `some none` = `None`, `some (some g)` = the float grid -/
def createDimension : DimArg → Option (Option (List Rat))
  | .none => some Option.none
  | .tuple1 a => (createDimCore a).map some
  | a => (createDimCore a).map some

/-! ## Continuous1D -/

/-- reported shapes; `none` = Python `None` (no grid) -/
structure Shapes where
  parShape : Option (List Nat)
  parDim : Option Nat
  funShape : Option (List Nat)
  funDim : Option Nat
  deriving DecidableEq, Repr

/-- `Continuous1D(grid)`: `none` = the constructor raises; else the stored `_grid` -/
def cont1DCtor (a : DimArg) : Option (Option (List Rat)) := createDimension a

/-- `par_shape = (len(grid),)`, `fun_shape = grid.shape`, dims by `reduce(mul, ·)`; all `None` without a grid -/
def cont1DShapes (g : Option (List Rat)) : Shapes :=
  match g with
  | Option.none => ⟨Option.none, Option.none, Option.none, Option.none⟩
  | some l => ⟨some [l.length], some (prod [l.length]), some [l.length], some (prod [l.length])⟩

/-- the geometry of `Model/C13.lean` this object is (when it has a grid) -/
def cont1DGeom (g : Option (List Rat)) : Option Geom := g.map fun l => Geom.cont1D l.length

/-! ## Continuous2D -/

inductive Grid2Arg
  | none                        -- `None`
  | pair (a b : DimArg)         -- tuple / list of two components
  | wrongLen                    -- something with `len(value) != 2`: `NotImplementedError`
  | noLen                       -- something without `len` (an int): `TypeError`

/-- the `Continuous2D.grid` setter: `none` = raises -/
def cont2DCtor : Grid2Arg → Option (Option (Option (List Rat) × Option (List Rat)))
  | .none => some Option.none
  | .pair a b =>
    match createDimension a, createDimension b with
    | some ga, some gb => some (some (ga, gb))
    | _, _ => Option.none
  | _ => Option.none

/-- `fun_shape = (len(grid[0]), len(grid[1]))`, `par_shape = (len·len,)`; `none` = the property raises
    (`len(None)` when a component of the grid is `None`) -/
def cont2DShapes (g : Option (Option (List Rat) × Option (List Rat))) : Option Shapes :=
  match g with
  | Option.none => some ⟨Option.none, Option.none, Option.none, Option.none⟩
  | some (some g0, some g1) =>
    some ⟨some [g0.length * g1.length], some (prod [g0.length * g1.length]),
          some [g0.length, g1.length], some (prod [g0.length, g1.length])⟩
  | some _ => Option.none

def cont2DGeom (g : Option (Option (List Rat) × Option (List Rat))) : Option Geom :=
  match g with
  | some (some g0, some g1) => some (Geom.cont2D g0.length g1.length)
  | _ => Option.none

/-! ## Image2D -/

structure ImageObj where
  imShape : List Nat
  order : Option Bool           -- order used by `reshape`: `some true` = F, `some false` = C, `none` = refused
  ravelOrder : Option Bool      -- order used by `ravel` (accepts 'K' as well)
  visual : Bool

/-- numpy's order converter is case-insensitive on the single letters C, F, A, K.  For `reshape`:
    'C' and 'A' read/write in C order (an array given to the model is C-contiguous, for which 'A' means C;
    for a Fortran-contiguous argument 'A' means F — layouts are outside the model), 'F' in F order, 'K' and
    every other string raise. -/
def orderOfString (s : String) : Option Bool :=
  let t := s.toUpper
  if t = "C" ∨ t = "A" then some false else if t = "F" then some true else Option.none

/-- for `ravel`: 'K' is accepted too (C order on a C-contiguous array) -/
def ravelOrderOfString (s : String) : Option Bool :=
  let t := s.toUpper
  if t = "C" ∨ t = "A" ∨ t = "K" then some false else if t = "F" then some true else Option.none

/-- `Image2D.__init__`: `reduce(mul, im_shape)` raises for the empty tuple; nothing else is checked -/
def imageCtor (imShape : List Nat) (order : String) (visual : Bool) : Option ImageObj :=
  if imShape = [] then Option.none else some ⟨imShape, orderOfString order, ravelOrderOfString order, visual⟩

def ImageObj.shapes (o : ImageObj) : Shapes :=
  let d := prod o.imShape
  let fs := if o.visual then [d] else o.imShape
  ⟨some [d], some (prod [d]), some fs, some (prod fs)⟩

/-- `_vector_to_image` for an `im_shape` of any length: `reshape(im_shape+(-1,), order)`, then
    `image.shape[2]` (an `IndexError` when `im_shape` has fewer than 2 axes), squeezing axis 2 iff it is 1 -/
def ImageObj.vectorToImage (o : ImageObj) (x : Arr) : Option Arr :=
  match o.order with
  | Option.none => Option.none
  | some f =>
    match o.imShape with
    | [a, b] => imageVectorToImage a b f x
    | sh =>
      let d := prod sh
      if d = 0 ∨ x.size % d ≠ 0 then Option.none else
      let full := sh ++ [x.size / d]
      let y : Arr := if f then reshapeFgen x full else ⟨full, x.get⟩
      if full.length ≤ 2 then Option.none
      else if full.getD 2 0 = 1 then some ⟨full.eraseIdx 2, y.get⟩ else some y

def ImageObj.par2fun (o : ImageObj) (x : Arr) : Option Arr :=
  if o.visual then some x else o.vectorToImage x

/-- `funvals.ravel(order)` -/
def ImageObj.fun2par (o : ImageObj) (x : Arr) : Option Arr :=
  if o.visual then some x else
  match o.ravelOrder with
  | Option.none => Option.none
  | some f => some (imageRavel f x)

/-- the geometry of `Model/C13.lean` this object is (a 2-axis image with a valid order) -/
def ImageObj.geom (o : ImageObj) : Option Geom :=
  match o.imShape, o.order with
  | [a, b], some f => some (Geom.image a b f o.visual)
  | _, _ => Option.none

/-! ## `variables` setter / Discrete -/

inductive VarArg
  | int (n : Int)               -- number of variables
  | strs (names : List String)  -- list of strings
  | listOther                   -- a list with a non-string element
  | other

/-- `Geometry.variables` setter with the default name `"v"`: `none` = `ValueError` -/
def variablesOf : VarArg → Option (List String)
  | .int n => some (if n = 1 then ["v"] else (List.range n.toNat).map fun i => "v" ++ toString i)
  | .strs names => some names
  | _ => Option.none

/-- `Discrete(variables)`: both shapes are `(len(variables),)` -/
def discreteShapes (vars : List String) : Shapes :=
  ⟨some [vars.length], some (prod [vars.length]), some [vars.length], some (prod [vars.length])⟩

/-- `Geometry.variables` of a geometry that never had its variables set: generated from `par_dim`
    (`none` = `ValueError`: `par_dim` is `None` without a grid) -/
def defaultVariables (parDim : Option Nat) : Option (List String) :=
  match parDim with
  | Option.none => Option.none
  | some n => variablesOf (.int n)

/-! ## default geometries -/

/-- `Samples.geometry` when none was given: `_DefaultGeometry1D(grid=np.prod(samples.shape[:-1]))`;
    `np.prod(())` is the *float* `1.0`, which `_create_dimension` refuses -/
def samplesDefaultArg (shape : List Nat) : DimArg :=
  if shape.dropLast = [] then .other else .int (prod shape.dropLast)

/-- `CUQIarray.__new__` when none was given: `_DefaultGeometry1D(grid=obj.__len__())` (`len` of a 0-d
    array raises: `none`) -/
def carrDefaultArg (shape : List Nat) : Option DimArg :=
  match shape with
  | [] => Option.none
  | d :: _ => some (.int d)

end CuqiVerif.C13
