/-
  C06 model — the linear randomize-then-optimize samplers
  (`cuqi/experimental/mcmc/_rto.py` `LinearRTO._precompute/step`, `cuqi/sampler/_rto.py`
  `LinearRTO.__init__/_sample` incl. the 5-tuple form), the unadjusted Laplace samplers
  (`cuqi/experimental/mcmc/_laplace_approximation.py`, `cuqi/sampler/_laplace_approximation.py`),
  the inner solver `cuqi/solver/_solver.py CGLS.solve`, and what `Gaussian`, `GMRF`,
  `JointGaussianSqrtPrec` hand to them (`sqrtprec`, `sqrtprecTimesMean`; the meaning of the four
  ways of specifying a Gaussian).  Import-free and executable.

  Numbers live in an arbitrary carrier `R` (the driver runs `R = Rat`; the theorems of
  `Props/C06.lean` are stated for every field and therefore cover the very definitions that are
  executed).  A vector is a function `Nat → R` of which the first `n` entries are read, a matrix a
  function `Nat → Nat → R`; the sizes are explicit arguments.

  The model transcribes the code *including its defects*: `Gaussian(sqrtcov=S)` with a full matrix
  takes `S Sᵀ` as covariance (documented: `Sᵀ S`), `UGLA` builds the prior block of the
  right-hand side without the `√(1/scale)` factor and evaluates the weights at `D x_k` (not at
  `D (x_k − location)`).
-/
namespace CuqiVerif.C06

/-! ## sums, vectors, matrices -/

/-- `Σ_{k<n} f k` -/
def sumTo {R : Type} [Zero R] [Add R] : Nat → (Nat → R) → R
  | 0, _ => 0
  | n + 1, f => sumTo n f + f n

abbrev Vec (R : Type) := Nat → R
abbrev Mat (R : Type) := Nat → Nat → R

section core
variable {R : Type} [Zero R] [One R] [Add R] [Sub R] [Mul R]

/-- `A @ x` for `A` with `n` columns -/
def mulVec (n : Nat) (A : Mat R) (x : Vec R) : Vec R := fun i => sumTo n fun j => A i j * x j
/-- `A.T @ y` for `A` with `m` rows -/
def tmulVec (m : Nat) (A : Mat R) (y : Vec R) : Vec R := fun j => sumTo m fun i => A i j * y i
/-- `A @ B`, inner size `k` -/
def mul (k : Nat) (A B : Mat R) : Mat R := fun i j => sumTo k fun l => A i l * B l j
def tr (A : Mat R) : Mat R := fun i j => A j i
def dot (n : Nat) (x y : Vec R) : R := sumTo n fun i => x i * y i
/-- `Mᵀ M` for `M` with `N` rows -/
def gram (N : Nat) (M : Mat R) : Mat R := fun i j => sumTo N fun k => M k i * M k j
def ident : Mat R := fun i j => if i = j then 1 else 0
def diagM (v : Vec R) : Mat R := fun i j => if i = j then v i else 0
def unit (j : Nat) : Vec R := fun i => if i = j then 1 else 0
def vadd (x y : Vec R) : Vec R := fun i => x i + y i
def vsub (x y : Vec R) : Vec R := fun i => x i - y i
def smul (c : R) (x : Vec R) : Vec R := fun i => c * x i
/-- `vᵀ P v` -/
def quad (n : Nat) (P : Mat R) (v : Vec R) : R := dot n v (mulVec n P v)

def ofRows (a : Array (Array R)) : Mat R := fun i j =>
  match a[i]? with
  | some r => (match r[j]? with | some v => v | none => 0)
  | none => 0

def ofArr (a : Array R) : Vec R := fun i => match a[i]? with | some v => v | none => 0

def tabArr (n : Nat) (v : Vec R) : Array R := Array.ofFn (n := n) fun i => v i.val

def tabRows (m n : Nat) (A : Mat R) : Array (Array R) :=
  Array.ofFn (n := m) fun i => Array.ofFn (n := n) fun j => A i.val j.val

/-- tabulate the first `n` entries (zero outside); `Props/C06.tabV_apply`.  NB: to be evaluated
    once, the array must be bound by a `let` *before* `ofArr` is applied (see `cglsIter`). -/
def tabV (n : Nat) (v : Vec R) : Vec R := ofArr (tabArr n v)

/-- tabulate an `m × n` matrix (zero outside) -/
def tabM (m n : Nat) (A : Mat R) : Mat R := ofRows (tabRows m n A)

def toListV (n : Nat) (v : Vec R) : List R := (List.range n).map v
def toListM (m n : Nat) (A : Mat R) : List (List R) := (List.range m).map fun i => (List.range n).map fun j => A i j

/-- `np.hstack` / `vstack` of blocks given as (length, entries) -/
def hcat {α : Type} (dflt : α) : List (Nat × (Nat → α)) → Nat → α
  | [], _ => dflt
  | (k, v) :: rest, i => if i < k then v i else hcat dflt rest (i - k)

def total {α : Type} : List (Nat × α) → Nat
  | [] => 0
  | (k, _) :: rest => k + total rest

/-- `x[s:]` -/
def drop (s : Nat) (y : Vec R) : Vec R := fun i => y (s + i)

/-! ## the stacked least-squares operator of `LinearRTO` -/

/-- One likelihood as `LinearRTO` reads it: `m = len(likelihood.data)`, `L =
    likelihood.distribution.sqrtprec` (`m × m`: `Gaussian` refuses a non-square `sqrtprec`),
    `fwd = likelihood.model.forward`, `adj = likelihood.model.adjoint`, `d = likelihood.data`. -/
structure Lik (R : Type) where
  m : Nat
  L : Mat R
  fwd : Vec R → Vec R
  adj : Vec R → Vec R
  d : Vec R

/-- The prior as `LinearRTO` reads it: `L2 = prior.sqrtprec` (`p × n`; `p ≠ n` for
    `JointGaussianSqrtPrec`), `L2mu = prior.sqrtprecTimesMean`. -/
structure Prior (R : Type) where
  p : Nat
  L2 : Mat R
  L2mu : Vec R

structure Problem (R : Type) where
  n : Nat
  liks : List (Lik R)
  prior : Prior R

/-- `b_tild = np.hstack([L@likelihood.data for …] + [L2mu])` -/
def bTilde (P : Problem R) : Vec R :=
  hcat 0 (P.liks.map (fun l => (l.m, mulVec l.m l.L l.d)) ++ [(P.prior.p, P.prior.L2mu)])

/-- `len(b_tild)` -/
def rowsM (P : Problem R) : Nat :=
  total (P.liks.map (fun l => (l.m, mulVec l.m l.L l.d)) ++ [(P.prior.p, P.prior.L2mu)])

/-- `M(x, 1)`: `np.hstack([L @ likelihood.model.forward(x) for …] + [L2 @ x])` -/
def Mfwd (P : Problem R) (x : Vec R) : Vec R :=
  hcat 0 (P.liks.map (fun l => (l.m, mulVec l.m l.L (l.fwd x))) ++ [(P.prior.p, mulVec P.n P.prior.L2 x)])

/-- the loop of `M(x, 2)`: running `idx_start`; returns `out1` and the final `idx_end` -/
def adjLoop : List (Lik R) → Nat → Vec R → Vec R × Nat
  | [], s, _ => (fun _ => 0, s)
  | l :: rest, s, y =>
    let r := adjLoop rest (s + l.m) y
    (fun j => l.adj (tmulVec l.m l.L (drop s y)) j + r.1 j, r.2)

/-- `M(x, 2)`: `Σ model.adjoint(sqrtprec.T @ x[idx_start:idx_end]) + L2.T @ x[idx_end:]` -/
def Madj (P : Problem R) (y : Vec R) : Vec R :=
  let r := adjLoop P.liks 0 y
  fun j => r.1 j + tmulVec P.prior.p P.prior.L2 (drop r.2 y) j

/-- A likelihood whose model is backed by the matrix `A` (`m × n`):
    `forward = A @ x`, `adjoint = A.T @ y` (`LinearModel.__init__`). -/
structure MatLik (R : Type) where
  m : Nat
  L : Mat R
  A : Mat R
  d : Vec R

def MatLik.toLik (n : Nat) (l : MatLik R) : Lik R :=
  { m := l.m, L := l.L, fwd := mulVec n l.A, adj := tmulVec l.m l.A, d := l.d }

/-- the matrix branch `sp.sparse.vstack([L@likelihood.model for …] + [L2])` -/
def Mmat (ls : List (MatLik R)) (pr : Prior R) : Mat R :=
  hcat (fun _ => 0) (ls.map (fun l => (l.m, mul l.m l.L l.A)) ++ [(pr.p, pr.L2)])

def problemOf (n : Nat) (ls : List (MatLik R)) (pr : Prior R) : Problem R :=
  { n := n, liks := ls.map (MatLik.toLik n), prior := pr }

/-! ## what the distributions hand over -/

/-- `Gaussian.sqrtprecTimesMean`: `sqrtprec @ (np.repeat(mean, dim) if len(mean) == 1 else mean)` -/
def gaussSqrtprecTimesMean (n : Nat) (L2 : Mat R) (meanLen : Nat) (mean : Vec R) : Vec R :=
  mulVec n L2 (if meanLen = 1 then fun _ => mean 0 else mean)

/-- the mean a `Gaussian` prior stands for (scalar means are broadcast) -/
def gaussMean (meanLen : Nat) (mean : Vec R) : Vec R := if meanLen = 1 then fun _ => mean 0 else mean

/-- `Gaussian` prior with square-root precision `L2` (`n × n`) -/
def gaussPrior (n : Nat) (L2 : Mat R) (meanLen : Nat) (mean : Vec R) : Prior R :=
  { p := n, L2 := L2, L2mu := gaussSqrtprecTimesMean n L2 meanLen mean }

/-- `GMRF.sqrtprecTimesMean = sqrtprec @ mean` (no broadcasting: a length-1 mean raises) -/
def gmrfPrior (n : Nat) (L2 : Mat R) (mean : Vec R) : Prior R :=
  { p := n, L2 := L2, L2mu := mulVec n L2 mean }

/-- `JointGaussianSqrtPrec`: `sqrtprec = vstack(sqrtprecs)`, `sqrtprecTimesMean = hstack(Rᵢ @ μᵢ)`;
    blocks are `(rows, Rᵢ, μᵢ)` -/
def jointPrior (n : Nat) (bs : List (Nat × Mat R × Vec R)) : Prior R :=
  { p := total (bs.map fun b => (b.1, b.2.1)),
    L2 := hcat (fun _ => 0) (bs.map fun b => (b.1, b.2.1)),
    L2mu := hcat 0 (bs.map fun b => (b.1, mulVec n b.2.1 b.2.2)) }

/-- The legacy 5-tuple `(data, model, L_sqrtprec, P_mean, P_sqrtprec)`:
    `Gaussian(model, sqrtprec=L_sqrtprec).to_likelihood(data)`, `Gaussian(P_mean, sqrtprec=P_sqrtprec)`,
    `Posterior(L, P)`. -/
def ofTuple (n m : Nat) (d : Vec R) (A L : Mat R) (meanLen : Nat) (Pmean : Vec R) (Psqrtprec : Mat R) :
    List (MatLik R) × Prior R :=
  ([{ m := m, L := L, A := A, d := d }], gaussPrior n Psqrtprec meanLen Pmean)

/-! ## the four ways of specifying a Gaussian -/

inductive Kind | cov | prec | sqrtcov | sqrtprec
  deriving DecidableEq, Repr

inductive Shape (R : Type)
  | scalar (c : R)
  | vector (v : Vec R)
  | matrix (A : Mat R)

/-- Does the parameter describe a covariance (to be inverted) or a precision? -/
def Kind.isCov : Kind → Bool
  | .cov | .sqrtcov => true
  | _ => false

/-- The covariance (`isCov`) / precision matrix a specification stands for, of size `n`.
    `code = false`: as documented (`sqrtcov = R` with `Rᵀ R = cov`, `sqrtprec = R` with
    `Rᵀ R = prec`, scalars/vectors are diagonals, for the square-root kinds standard deviations /
    inverse standard deviations).  `code = true`: what the code computes — identical except for a
    full `sqrtcov` matrix, where `get_sqrtprec_from_sqrtcov` forms `sqrtcov @ sqrtcov.T`. -/
def specMat (code : Bool) (n : Nat) (k : Kind) : Shape R → Mat R
  | .scalar c => match k with
    | .cov | .prec => fun i j => if i = j then c else 0
    | .sqrtcov | .sqrtprec => fun i j => if i = j then c * c else 0
  | .vector v => match k with
    | .cov | .prec => diagM v
    | .sqrtcov | .sqrtprec => diagM (fun i => v i * v i)
  | .matrix A => match k with
    | .cov | .prec => A
    | .sqrtcov => if code then mul n A (tr A) else mul n (tr A) A
    | .sqrtprec => mul n (tr A) A

end core

/-- Refusals of the `Gaussian` setters on dense input: non-symmetric full `cov`/`prec` raise
    `ValueError`; a non-square `sqrtprec` raises `ValueError` (checked by the driver on the shape). -/
def specSymmetricOk {R : Type} [DecidableEq R] (n : Nat) (k : Kind) : Shape R → Bool
  | .matrix A => match k with
    | .cov | .prec => (List.range n).all fun i => (List.range n).all fun j => A i j == A j i
    | _ => true
  | _ => true

/-! ## `CGLS.solve` (shift = 0: both samplers pass/keep `shift = 0`) -/

structure CglsState (R : Type) where
  x : Vec R
  r : Vec R
  s : Vec R
  p : Vec R
  gamma : R
  normx2 : R
  xmax2 : R
  k : Nat
  flag : Bool

section cgls
variable {R : Type} [Zero R] [One R] [Add R] [Sub R] [Mul R] [Div R] [LT R] [LE R]
  [DecidableEq R] [DecidableLT R] [DecidableLE R]

/-- One pass of the `while` body.  `fwd = A(·, 1)`, `adj = A(·, 2)`, `N = len(b)`, `n = len(x0)`.
    Norms are kept squared (`gamma = ‖s‖²`); the test `norms <= norms0*tol` is evaluated as
    `gamma ≤ gamma0·tol²` and `normx*tol >= 1` as `‖x‖²·tol² ≥ 1` (equivalent for `tol ≥ 0`).
    `eps` is the machine epsilon substituted for a zero curvature. -/
def cglsIter (fwd adj : Vec R → Vec R) (N n : Nat) (gamma0 tol2 eps : R) (st : CglsState R) : CglsState R :=
  let qa := tabArr N (fwd st.p)
  let q := ofArr qa
  let delta0 := dot N q q
  let delta := if delta0 = 0 then eps else delta0
  let alpha := st.gamma / delta
  let xa := tabArr n (fun i => st.x i + alpha * st.p i)
  let x := ofArr xa
  let ra := tabArr N (fun i => st.r i - alpha * q i)
  let r := ofArr ra
  let sa := tabArr n (adj r)
  let s := ofArr sa
  let gamma := dot n s s
  let pa := tabArr n (fun i => s i + (gamma / st.gamma) * st.p i)
  let p := ofArr pa
  let normx2 := dot n x x
  let xmax2 := if st.xmax2 < normx2 then normx2 else st.xmax2
  let flag := decide (gamma ≤ gamma0 * tol2) || decide (1 ≤ normx2 * tol2)
  { x := x, r := r, s := s, p := p, gamma := gamma, normx2 := normx2, xmax2 := xmax2, k := st.k + 1, flag := flag }

/-- the state before the loop -/
def cglsInit (fwd adj : Vec R → Vec R) (N n : Nat) (b x0 : Vec R) : CglsState R :=
  let xa := tabArr n x0
  let x := ofArr xa
  let ra := tabArr N (fun i => b i - fwd x i)
  let r := ofArr ra
  let sa := tabArr n (adj r)
  let s := ofArr sa
  let gamma := dot n s s
  let normx2 := dot n x x
  { x := x, r := r, s := s, p := s, gamma := gamma, normx2 := normx2, xmax2 := normx2, k := 0, flag := false }

/-- `while (k < maxit) and (flag == 0)` -/
def cglsLoop (fwd adj : Vec R → Vec R) (N n : Nat) (gamma0 tol2 eps : R) : Nat → CglsState R → CglsState R
  | 0, st => st
  | fuel + 1, st => if st.flag then st else cglsLoop fwd adj N n gamma0 tol2 eps fuel (cglsIter fwd adj N n gamma0 tol2 eps st)

/-- `CGLS(A, b, x0, maxit, tol).solve()`; the returned point is `.x`, the iteration count `.k` -/
def cgls (fwd adj : Vec R → Vec R) (N n : Nat) (b x0 : Vec R) (maxit : Nat) (tol2 eps : R) : CglsState R :=
  let st0 := cglsInit fwd adj N n b x0
  cglsLoop fwd adj N n st0.gamma tol2 eps maxit st0

/-- One step of `LinearRTO` from `current` with the normal draw `e`:
    `y = b_tild + randn`, `CGLS(M, y, current_point, maxit, tol).solve()`. -/
def rtoStep (P : Problem R) (e current : Vec R) (maxit : Nat) (tol2 eps : R) : CglsState R :=
  cgls (Mfwd P) (Madj P) (rowsM P) P.n (fun i => bTilde P i + e i) current maxit tol2 eps

end cgls

/-! ## the unadjusted Laplace approximation sampler (`UGLA`, both interfaces) -/

section ugla
variable {R : Type} [Zero R] [One R] [Add R] [Sub R] [Mul R]

/-- `UGLA` inputs: one Gaussian likelihood `(m, L1, A, d)`, the LMRF prior's difference operator
    `D` (`p × n`), `location` (already repeated to length `n`), `s = np.sqrt(1/prior.scale)`,
    and the leaf vector `w = sqrt(dd)`, `dd = 1/sqrt((D @ x_k)**2 + beta)` of `Lk_fun(x_k)`. -/
structure Ugla (R : Type) where
  n : Nat
  lik : MatLik R
  p : Nat
  D : Mat R
  loc : Vec R
  s : R
  w : Vec R

/-- `Lk_fun(x_k) = W.sqrt() @ D` -/
def Ugla.L2 (U : Ugla R) : Mat R := fun i j => U.w i * U.D i j

/-- `_b_tild = hstack([L1 @ data, L2 @ priorloc])` (no `√(1/scale)` on the prior block) -/
def Ugla.bTilde (U : Ugla R) : Vec R :=
  hcat 0 [(U.lik.m, mulVec U.lik.m U.lik.L U.lik.d), (U.p, mulVec U.n U.L2 U.loc)]

def Ugla.rows (U : Ugla R) : Nat := U.lik.m + (U.p + 0)

/-- `M(x, 1) = hstack([L1 @ forward(x), sqrt(1/scale) * (L2 @ x)])` -/
def Ugla.Mfwd (U : Ugla R) (x : Vec R) : Vec R :=
  hcat 0 [(U.lik.m, mulVec U.lik.m U.lik.L (mulVec U.n U.lik.A x)), (U.p, fun i => U.s * mulVec U.n U.L2 x i)]

/-- `M(x, 2) = adjoint(L1.T @ x[:m]) + sqrt(1/scale) * (L2.T @ x[m:])` -/
def Ugla.Madj (U : Ugla R) (y : Vec R) : Vec R := fun j =>
  tmulVec U.lik.m U.lik.A (tmulVec U.lik.m U.lik.L y) j + U.s * tmulVec U.p U.L2 (drop U.lik.m y) j

/-- the stacked matrix the two maps are the actions of: `[L1 A ; s·W^{1/2} D]` -/
def Ugla.Mmat (U : Ugla R) : Mat R :=
  hcat (fun _ => 0) [(U.lik.m, mul U.lik.m U.lik.L U.lik.A), (U.p, fun i j => U.s * U.L2 i j)]

/-- `−2 log` of the documented local Gaussian approximation at the state whose weights are `wdoc`
    (`wdocᵢ = 1/√((D(x_k − location))ᵢ² + β)`), up to a constant:
    likelihood term + `(1/scale) Σ wdocᵢ (D(x − location))ᵢ²`, with `Λ = L1ᵀL1`, `invScale = 1/scale`. -/
def Ugla.docObjective (U : Ugla R) (invScale : R) (wdoc : Vec R) (x : Vec R) : R :=
  let res := mulVec U.lik.m U.lik.L (fun i => mulVec U.n U.lik.A x i - U.lik.d i)
  let t := mulVec U.n U.D (fun j => x j - U.loc j)
  dot U.lik.m res res + invScale * sumTo U.p fun i => wdoc i * (t i * t i)

end ugla

/-! ## target validation (`validate_target` / `_check_posterior`, `UGLA.validate_target`) -/

inductive TargetKind | posterior | multiple | other deriving DecidableEq, Repr
inductive Refusal | ok | valueError | typeError deriving DecidableEq, Repr

/-- `LinearRTO.validate_target` / `_check_posterior`: target class, then per likelihood "model is a
    `LinearModel`" and "distribution has `sqrtprec`", then prior has `sqrtprec` and
    `sqrtprecTimesMean`. -/
def validateRTO (t : TargetKind) (liks : List (Bool × Bool)) (priorHasSqrtprec priorHasTimesMean : Bool) : Refusal :=
  match t with
  | .other => .valueError
  | _ =>
    if liks.any (fun l => !l.1 || !l.2) then .typeError
    else if !priorHasSqrtprec then .typeError
    else if !priorHasTimesMean then .typeError
    else .ok

/-- `UGLA.validate_target`: Posterior (else `ValueError`), linear model and `sqrtprec` (else
    `TypeError`), LMRF prior (else `ValueError`). -/
def validateUGLA (t : TargetKind) (linear hasSqrtprec priorIsLMRF : Bool) : Refusal :=
  match t with
  | .posterior =>
    if !linear then .typeError
    else if !hasSqrtprec then .typeError
    else if !priorIsLMRF then .valueError
    else .ok
  | _ => .valueError

end CuqiVerif.C06
